from verif import Q
try:
    import C07_t0_part as _t0
except Exception as _e:   # the T0-native part needs encoders/t0tool.py
    _t0 = None
    _t0_err = repr(_e)

META = {
 "level_text": "Bounded symbolic model checking (CBMC). Record layer: two-run equivalence on the real ssl_engine.c - acknowledging a then b bytes equals acknowledging a+b bytes, from any input-accepting engine state, including splits inside the 5-byte header. Streaming decoders (T0): resume mechanics of the natives that consume input (being added through the T0 native extractor). Partial: whole-decoder chunk independence over long inputs and the emitted-bytes determinism of a TLS endpoint are outside.",
 "level_note": "Trusted: CBMC; deterministic contract stubs for record decryption and the handshake coroutine (same answers in both runs).",
 "technique": "bounded symbolic model checking (CBMC/SAT): two-run (self-composition) equivalence of real code under different chunkings",
 "assumptions": ["record decryption stub and handshake coroutine stub are deterministic functions of their inputs; the coroutine consumes all offered input", "clear-text record bodies are forwarded chunk-wise to the T0 coroutine and are excluded here", "buffer length concrete (837, shared)"],
 "outside_claim": ["TLS endpoint emitted-bytes determinism", "whole-decoder chunk independence beyond the natives' resume lemmas"],
}

def _base_queries():
    return [Q("recvrec-finished", "C07_recfin.c", units=["src/ssl/ssl_engine.c"], unwind=4, timeout=120,
              desc="br_ssl_engine_recvrec_finished == documented predicate (header complete and body outstanding), every register state"),
            Q("recvrec-ack-split", "C07_recsplit.c", units=["src/ssl/ssl_engine.c"], unwind=8, timeout=600,
              desc="recvrec_ack(a);recvrec_ack(b) == recvrec_ack(a+b) from any input-accepting state (header phase or encrypted body), buffer 837")]


def queries():
    qs = _base_queries()
    if _t0 is not None:
        qs = qs + _t0.queries()
    return qs

if _t0 is not None:
    META["assumptions"] = list(META.get("assumptions", [])) + list(getattr(_t0, "ASSUMPTIONS", []))
    META["mutants_tried"] = list(META.get("mutants_tried", [])) + list(getattr(_t0, "MUTANTS", []))


# ---- cross-included by the main session: chunk independence of the key / certificate decoders also needs the push
# entry points to resume the coroutine on EVERY call while no error is recorded (a push that is silently dropped makes
# the verdict depend on where the caller cut the input - seeded change C07c); decided by the C05 pushgate-* queries
# (real push function over a recording stub of the interpreter: resumed exactly when err == 0).
_c07_queries = queries
def queries():
    qs = _c07_queries()
    try:
        import C05
        qs = qs + [q for q in C05._c05_queries() if q.name.startswith("pushgate-")]
    except Exception:
        pass
    return qs
