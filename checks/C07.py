from verif import Q

META = {
 "level_text": "Bounded symbolic model checking (CBMC). Record layer: two-run equivalence on the real ssl_engine.c - acknowledging a then b bytes equals acknowledging a+b bytes, from any input-accepting engine state, including splits inside the 5-byte header. Streaming decoders (T0): resume mechanics of the natives that consume input (being added through the T0 native extractor). Partial: whole-decoder chunk independence over long inputs and the emitted-bytes determinism of a TLS endpoint are outside.",
 "level_note": "Trusted: CBMC; deterministic contract stubs for record decryption and the handshake coroutine (same answers in both runs).",
 "technique": "bounded symbolic model checking (CBMC/SAT): two-run (self-composition) equivalence of real code under different chunkings",
 "assumptions": ["record decryption stub and handshake coroutine stub are deterministic functions of their inputs; the coroutine consumes all offered input", "clear-text record bodies are forwarded chunk-wise to the T0 coroutine and are excluded here", "buffer length concrete (837, shared)"],
 "outside_claim": ["TLS endpoint emitted-bytes determinism", "whole-decoder chunk independence beyond the natives' resume lemmas"],
}

def queries():
    return [Q("recvrec-ack-split", "C07_recsplit.c", units=["src/ssl/ssl_engine.c"], unwind=8, timeout=600,
              desc="recvrec_ack(a);recvrec_ack(b) == recvrec_ack(a+b) from any input-accepting state (header phase or encrypted body), buffer 837")]
