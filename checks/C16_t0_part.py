"""C16, T0 part: maximum-fragment-length natives of the handshake programs (E2 extraction)."""
import os, sys
from verif import Q

ROOT = os.path.dirname(os.path.dirname(os.path.abspath(__file__)))
sys.path.insert(0, os.path.join(ROOT, "encoders"))
import t0tool

ASSUMPTIONS = [
 "T0 part: native words extracted verbatim by encoders/t0tool.py (E2; re-validated by C05 e2-validation-hsc/-hss)",
 "set-mfln-status: operand is 0 or 1 -- the literals directly preceding each of its call sites in the bytecode (verified by the query generator: the query is not produced otherwise); WHICH site runs (0 at the start of ServerHello parsing, 1 only in read-server-frag after the echoed value was compared) is T0 logic, outside",
 "set-max-frag-len: operand 512/1024/2048/4096 (1 << (8 + code), code checked by the T0 code); br_ssl_engine_new_max_frag_len is a recording stub (its own effect: C16 newmfl queries)",
]
MUTANTS = [
 "CAUGHT ssl_hs_client.c set-mfln-status stores !val: t0-set-mfln-status-hsc",
 "CAUGHT ssl_hs_server.c set-max-frag-len clamps when hlen_out < len (enlarges the room): t0-set-max-frag-len-hss",
]


def queries():
    qs = []
    pc = t0tool.load("hsc")
    ps = t0tool.load("hss")
    n = pc.native_by_name("set-mfln-status")
    lits = t0tool.literal_top_sets(pc).get(n.op) if n else None
    if lits == [0, 1]:
        qs.append(Q("t0-set-mfln-status-hsc", "C16_t0_mfln.c", units=[], defs=["-DMODE=0", "-I" + t0tool.gen_dir(pc), "-I" + os.path.join(ROOT, "encoders")],
                    unwind=4, timeout=120,
                    desc="client native set-mfln-status (call sites: literal operands %s): br_ssl_engine_get_mfln_negotiated reports the recorded value, fragment-length registers untouched" % lits))
    qs.append(Q("t0-set-max-frag-len-hss", "C16_t0_mfln.c", units=[], defs=["-DMODE=1", "-I" + t0tool.gen_dir(ps), "-I" + os.path.join(ROOT, "encoders")],
                unwind=4, timeout=120,
                desc="server native set-max-frag-len: engine told the new length once, room of the record being assembled clamped (never enlarged)"))
    return qs
