from verif import Q
from C19_sslio_part import queries as sslio_queries, SSLIO_ASSUMPTIONS, SSLIO_MUTANTS
import C06

META = {
 "level_text": "Bounded symbolic model checking (CBMC). Engine side: one step of the real ssl_engine.c from any invariant state (C06 harness) for close / renegotiate / recvrec_ack: close discards unread application data and enters the coroutine with the close action; application data arriving after a local close request is never delivered; renegotiate is refused exactly when closed, disabled, unsupported by the peer or unread data is pending. Wrapper side: the real ssl_io.c over an abstract engine model at the br_ssl_engine_* seam: error mapping, byte conservation, termination. Partial: close_notify generation, alert parsing and the renegotiation handshake itself are T0 bytecode and outside.",
 "level_note": "Trusted: CBMC; contract stubs for the T0 coroutine and record layers (engine side); abstract engine model with small byte capacities (wrapper side).",
 "technique": "bounded symbolic model checking (CBMC/SAT): inductive step of real ssl_engine.c entry points; real ssl_io.c over an abstract engine model",
 "assumptions": C06.META["assumptions"] + SSLIO_ASSUMPTIONS,
 "outside_claim": ["exactly-one close_notify, alert parsing, truncation vs clean close at the coroutine level, renegotiation binding to saved Finished values (all T0 bytecode)", "transport schedules of whole sessions"],
 "mutants_tried": SSLIO_MUTANTS,
}

def queries():
    qs = []
    for q in C06.queries():
        if any(k in q.name for k in ("step-close-", "step-renegotiate-", "step-recvrec_ack-", "step-sendrec_ack-", "step-closed-any-")):
            qs.append(q)
    return qs + sslio_queries()
