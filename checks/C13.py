from verif import Q

META = {
 "level_text": "Bounded symbolic model checking (CBMC) of the real hash, HMAC, PRF, MGF1, HMAC_DRBG and SHAKE sources with every message/key/seed byte symbolic and the public lengths concrete per query. Decided: (1) the buffering, padding, bit-length encoding, out() non-destructiveness and state()/set_state() logic of md5/sha1/sha224/sha256/sha384/sha512/md5sha1 equals the standard's padding rule for every message of the listed lengths and every split point, including the 2^32-bit and 2^64-bit length carries injected with set_state; (2) multihash == the six standalone functions; (3) HMAC == RFC 2104 for keys shorter/equal/longer than the block; (4) br_hmac_outCT == br_hmac_out == RFC 2104 completion for every len in [min,max] of the listed (prefix,min,max) shapes, context not modified; (5) P_hash/TLS 1.0 PRF/TLS 1.2 PRF == RFC 5246 with the seed in one or three chunks, MGF1 == RFC 8017, HMAC_DRBG == SP 800-90A; (6) SHAKE absorb/pad/squeeze logic == FIPS 202 sponge for the listed injection/production splits. All of these are proved for EVERY compression function / Keccak permutation (call-log oracle), plus known-answer anchors of the real round functions to hashlib values. HKDF == RFC 5869 over a stand-in HMAC bound at the br_hmac_* seam, including the 255-block limit. Partial: lengths beyond the bounds, the round functions themselves beyond the known answers and AESCTR_DRBG are outside.",
 "level_note": "Trusted: CBMC 6.11 C front end and bit-precise semantics; loop-model memcpy/memset; the oracle argument of harness/C13_oracle.h (equal inputs give equal outputs is the only property of the compression function that is used); lengths as listed per query.",
 "technique": "bounded symbolic model checking (CBMC/SAT): real C units vs references written from RFC 1321 / FIPS 180-4 / RFC 2104 / RFC 5246 / RFC 8017 / SP 800-90A / FIPS 202, compression functions abstracted to a call-log oracle at their link-time symbols",
 "assumptions": [
  "compression functions br_md5_round / br_sha1_round / br_sha2small_round (link-time symbols of inner.h, bound by the harness, which goto-cc lets win over the definitions in md5.c/sha1.c/sha2small.c; a seam CHECK in every query proves the binding) and the static sha2big_round / shake.c:process_block (call sites redirected by a function-like macro over the #included real file) are replaced by a call-log oracle that returns unconstrained values, the same value for the paired call of the other side iff block and chaining input are equal: every real function is one behaviour of the oracle, so proved equalities hold for every compression function; references must make their compression calls in the order of the code under test",
  "HKDF queries only: HMAC = cheap keyed accumulator (sum/rotate-by-one lanes; every key byte, message byte, position and the total length influence every output byte; real out_len semantics) bound at the link-time seam br_hmac_{key_init,init,update,out}; hash descriptor = stand-in br_hash_class with only `desc`",
  "reported violations are replayed natively with the real compression functions before they are printed",
  "process_block is assumed to map the lane-complemented state C(S) to C(f(S)) for a permutation f (checked only at the known answers)",
  "message, key, seed, label, output lengths and split points are concrete per query (label fixed to 'key expansion')",
  "ESP8266 PROGMEM accessors are the plain-load versions of inc/pgmspace.h (host build of the port)",
 ],
 "outside_claim": [
  "correctness of the MD5/SHA-1/SHA-2 compression functions and of Keccak-f beyond the two known answers per function (probe: even 'two identical br_md5_round calls give equal results' gets no verdict in 120 s on minisat/cadical/kissat/z3)",
  "HKDF over the real hmac.c + hash files (symbolic execution of br_hkdf_context -- a union of br_hmac_context, itself holding the 8-member br_hash_compat_context union, with br_hmac_key_context -- did not finish in 20 minutes for the smallest case; MODE 4 of C13_kdf.c is kept but not registered): hkdf.c is checked over a stand-in HMAC instead",
  "AESCTR_DRBG (not attempted: no standard to compare with; its documented Hirose construction needs an AES model)",
  "message lengths beyond 2 blocks + 9 bytes, outCT shapes beyond the listed ones, PRF/MGF1/DRBG output lengths beyond the listed ones",
  "constant-time behaviour of br_hmac_outCT (C08)",
 ],
 "mutants_tried": [
  "CAUGHT hmac_ct.c: x1 = MUX(LT(u, kl),..) -> LE(u, kl) (length field starts one byte late): outct-md5-P13-0-70-len42-43, native replay reproduces",
  "CAUGHT hmac_ct.c: kz rounding `po + bs - 1` -> `po + bs - 2` (wrong final block exactly when the padding needs a new block): outct-md5-P13-0-70-len42-43",
  "CAUGHT hmac_ct.c: ncount from max_len instead of min_len (bytes beyond len hashed unmasked): outct-md5-P13-0-70-len0-1 (the shape P0 [70,100] did not distinguish it because both round to the same block; that shape was widened to [70,130])",
  "CAUGHT md5.c out(): `ptr > 56` -> `ptr >= 56` (55-byte tail padded into two blocks): hash-outnd-md5-L73-s50-59",
  "CAUGHT sha2big.c out(): upper 64 bits of the bit length dropped: hash-carry64-sha512-L129 (L111 passes, as it must)",
  "CAUGHT sha1.c out(): bit length truncated to 32 bits: hash-carry32-sha1-L65",
  "CAUGHT sha2small.c update(): buffer offset taken after count was advanced: hash-outnd-sha256-L73-s60-69",
  "CAUGHT multihash.c get_state_offset(): `+ (x >> 1)` dropped (SHA-224/SHA-256 state slots overlap their neighbours): multihash-all6-L137-s64",
  "CAUGHT hmac.c key_init: `key_len > block` -> `>=` (block-sized key hashed): hmac-md5-K64-M20-O0",
  "CAUGHT prf.c: A(i+1) computed from the output block instead of A(i): phash-md5-O21",
  "CAUGHT hmac_drbg.c update(): second round uses 0x00 instead of 0x01: hmacdrbg-md5-init-gen5",
  "CAUGHT hkdf.c produce(): T(i-1) omitted for block 2 (`x != 1` -> `x > 2`): hkdf-salt5-H16-O21",
  "CAUGHT mgf1.c: counter encoded little-endian: mgf1-sha1-O45",
  "CAUGHT shake.c flip(): 0x9F -> 0x1F when one byte of the block is free: shake256-L135-O141-i0-o136",
  "NOT A FUNCTIONAL BUG (not tried): outCT loop bound from len instead of max_len changes timing only (C08)",
 ],
}

CODEC = ["src/codec/dec32le.c", "src/codec/enc32le.c", "src/codec/dec32be.c", "src/codec/enc32be.c",
         "src/codec/dec64be.c", "src/codec/enc64be.c"]
# CBMC's field-sensitive expansion of every array element costs more than it saves here
# (profiling: field_sensitivityt::get_fields dominated symex); arrays stay arrays.
FS0 = ["--max-field-sensitivity-array-size", "0"]
FS32 = ["--max-field-sensitivity-array-size", "32"]
HNAME = {1: "md5", 2: "sha1", 3: "sha224", 4: "sha256", 5: "sha384", 6: "sha512", 7: "md5sha1"}
HUNITS = {1: ["src/hash/md5.c"], 2: ["src/hash/sha1.c"], 3: ["src/hash/sha2small.c"], 4: ["src/hash/sha2small.c"],
          5: [], 6: [], 7: ["src/hash/md5.c", "src/hash/sha1.c", "src/hash/md5sha1.c"]}
HBS = {1: 64, 2: 64, 3: 64, 4: 64, 5: 128, 6: 128, 7: 64}
HMAC = ["src/mac/hmac.c", "src/mac/hmac_ct.c", "src/codec/ccopy.c"]
ALLHASH = ["src/hash/md5.c", "src/hash/sha1.c", "src/hash/sha2small.c", "src/hash/multihash.c"]
KUNITS = {1: ["src/ssl/prf.c"], 2: ["src/ssl/prf.c", "src/ssl/prf_md5sha1.c"], 3: ["src/ssl/prf.c"],
          4: ["src/kdf/hkdf.c"], 5: ["src/hash/mgf1.c"], 6: ["src/rand/hmac_drbg.c"]}
EVERY = " (every message content; every compression function)"


def tmo(tier):
    return 900 if tier == "thorough" else 300


def hq(name, hf, mode, L, extra=(), tier="quick", desc=""):
    return Q(name, "C13_hash.c", units=HUNITS[hf] + CODEC,
             defs=["-DHF=%d" % hf, "-DMODE=%d" % mode, "-DMLEN=%d" % L] + list(extra),
             unwind=max(L, 2 * HBS[hf]) + 3, tier=tier, timeout=tmo(tier), desc=desc + EVERY, flags=FS0)


def mq(name, hf, mode, defs, unwind, tier="quick", desc="", maxcalls=6):
    return Q(name, "C13_hmac.c", units=HUNITS[hf] + HMAC + CODEC,
             defs=["-DHF=%d" % hf, "-DMODE=%d" % mode, "-DC13_MAXCALLS=%d" % maxcalls, "-DC13_NFRESH=%d" % (maxcalls + 6)] + list(defs),
             unwind=unwind, tier=tier, timeout=tmo(tier), desc=desc + EVERY, flags=FS0, objbits=12)


def kq(name, hf, mode, defs, unwind=140, tier="quick", desc="", maxcalls=20):
    units = HUNITS[hf] + (HMAC if mode != 5 else []) + KUNITS[mode] + CODEC
    if mode == 3:
        units += ["src/ssl/prf_sha256.c" if hf == 4 else "src/ssl/prf_sha384.c"]
    return Q(name, "C13_kdf.c", units=units,
             defs=["-DHF=%d" % hf, "-DMODE=%d" % mode, "-DC13_MAXCALLS=%d" % maxcalls, "-DC13_NLOG=1",
                   "-DC13_NFRESH=%d" % (maxcalls + 4)] + list(defs),
             unwind=unwind, tier=tier, timeout=tmo(tier), desc=desc + EVERY, flags=FS0, objbits=12)


def ranges(lo, hi, step):
    return [(a, min(a + step - 1, hi)) for a in range(lo, hi + 1, step)]


def hash_queries():
    qs = []
    d_outnd = "%s: for every split s in %s of a %d-byte message: out() after s bytes == standard padding reference and leaves the context unchanged; update(m[0..s)); out; update(m[s..)) ends like update(m): digest, state(), count, buffer"
    sparse64 = "0,1,54,55,56,57,63,64,65,73"
    sparse128 = "0,1,110,111,112,113,127,128,129,137"
    # quick: every split of a (block + 9)-byte message for md5 / sha1 / sha256, boundary splits for the others
    for hf in (1, 2, 4):
        L = HBS[hf] + 9
        for (lo, hi) in ranges(0, L, 10):
            qs.append(hq("hash-outnd-%s-L%d-s%d-%d" % (HNAME[hf], L, lo, hi), hf, 2, L, ["-DSLO=%d" % lo, "-DSHI=%d" % hi],
                         desc=d_outnd % (HNAME[hf], "%d..%d" % (lo, hi), L)))
    for hf in (3, 7, 5, 6):
        L = HBS[hf] + 9
        sl = sparse64 if HBS[hf] == 64 else sparse128
        for half, lst in enumerate((sl.split(",")[:5], sl.split(",")[5:])):
            qs.append(hq("hash-outnd-%s-L%d-sparse%d" % (HNAME[hf], L, half), hf, 2, L, ["-DSLIST=" + ",".join(lst)],
                         desc=d_outnd % (HNAME[hf], "{" + ",".join(lst) + "}", L)))
    # three updates (one of them empty)
    for hf in (1, 6):
        L = 2 * HBS[hf] + 9
        lst = "0,1,%d,%d,%d,%d" % (HBS[hf] - 1, HBS[hf], 2 * HBS[hf] - 8, L)
        qs.append(hq("hash-split3-%s-L%d" % (HNAME[hf], L), hf, 1, L, ["-DTHREE=1", "-DSLIST=" + lst],
                     desc="%s: update(m) == update(a); update(b); update(empty); update(c) for a = {%s} bytes, b = half of the rest, of a %d-byte message" % (HNAME[hf], lst, L)))
    # state()/set_state() restore
    for hf in (1, 2, 3, 4, 5, 6, 7):
        L = 2 * HBS[hf] + 9
        qs.append(hq("hash-save-%s-L%d" % (HNAME[hf], L), hf, 3, L,
                     desc="%s: state() after one block, set_state() into a garbage-filled init'ed context, continue over %d more bytes: same digest/state/count/buffer as the original" % (HNAME[hf], L - HBS[hf])))
    # padding + length encoding around the carries, through set_state(count)
    for hf in (1, 2, 3, 4, 7):
        for L in (55, 65):
            qs.append(hq("hash-carry32-%s-L%d" % (HNAME[hf], L), hf, 4, L, ["-DUSE_ST=1", "-DCNT0=0x1FFFFFC0ull"],
                         desc="%s: symbolic chaining value, set_state(count=0x1FFFFFC0) then %d bytes: out() == standard padding with the 64-bit bit length (crosses 2^32 bits for L=65); also through the vtable; descriptor fields" % (HNAME[hf], L)))
    for hf in (5, 6):
        for (cn, c) in (("carry64", "0x1FFFFFFFFFFFFF80ull"), ("carry32", "0x1FFFFF80ull")):
            for L in (111, 129):
                qs.append(hq("hash-%s-%s-L%d" % (cn, HNAME[hf], L), hf, 4, L, ["-DUSE_ST=1", "-DCNT0=" + c],
                             desc="%s: symbolic chaining value, set_state(count=%s) then %d bytes: out() == standard padding with the 128-bit bit length (carry into the upper 64 bits for L=129); also through the vtable; descriptor fields" % (HNAME[hf], c, L)))
    for hf in (1, 2, 3, 4, 5, 6, 7):
        for L in (0, HBS[hf] - 8):
            qs.append(hq("hash-pad-%s-L%d" % (HNAME[hf], L), hf, 4, L,
                         desc="%s: out() == standard padding reference for a %d-byte message from init(); through the vtable; descriptor fields" % (HNAME[hf], L)))
    # thorough: every split of a (2 blocks + 9)-byte message
    for hf in (1, 2, 3, 4, 5, 6, 7):
        L = 2 * HBS[hf] + 9
        for (lo, hi) in ranges(0, L, 12 if HBS[hf] == 64 else 8):
            qs.append(hq("hash-outnd-%s-L%d-s%d-%d" % (HNAME[hf], L, lo, hi), hf, 2, L, ["-DSLO=%d" % lo, "-DSHI=%d" % hi, "-DC13_MAXCALLS=8"],
                         tier="thorough", desc=d_outnd % (HNAME[hf], "%d..%d" % (lo, hi), L)))
    return qs


def mhash_queries():
    qs = []
    base = ["-DC13_MAXCALLS=14", "-DC13_NLOG=1", "-DC13_NFRESH=24"]
    d = "multihash (%s): zero/setimpl/init, update(m[0..s)); update(m[s..%d)) for s in {%s}: out(id) == standalone function and its size for configured ids, 0 otherwise; out() keeps the context"
    for (nm, mask, L, sl, tier) in (("all6", "0x3F", 137, "64", "quick"), ("all6", "0x3F", 137, "129", "quick"), ("md5-sha224-sha384", "0x15", 137, "0", "quick"),
                                    ("sha1-sha256-sha512", "0x2A", 130, "1", "quick"),
                                    ("all6", "0x3F", 265, "0", "thorough"), ("all6", "0x3F", 265, "127", "thorough"), ("all6", "0x3F", 265, "128", "thorough"),
                                    ("all6", "0x3F", 265, "200", "thorough"), ("all6", "0x3F", 265, "265", "thorough"), ("all6", "0x3F", 137, "1", "thorough"),
                                    ("all6", "0x3F", 137, "127", "thorough"), ("all6", "0x3F", 137, "128", "thorough"), ("all6", "0x3F", 137, "137", "thorough")):
        qs.append(Q("multihash-%s-L%d-s%s" % (nm, L, sl), "C13_mhash.c", units=ALLHASH + CODEC,
                    defs=["-DMLEN=%d" % L, "-DMASK=" + mask, "-DSLIST=" + sl] + base, unwind=430, flags=FS32, tier=tier, timeout=tmo(tier),
                    desc=d % (nm, L, sl) + EVERY))
    return qs


def hmac_queries():
    qs = []
    dk = "HMAC-%s: key_init/init/update(2 pieces)/out == RFC 2104 on the plain hash API, key %d bytes (block %d), message %d bytes, requested output length %d; out() keeps the context; second HMAC from the same key context; br_hmac_size/get_digest"
    for (hf, kl, ml, ol, tier) in ((1, 0, 20, 0, "quick"), (1, 63, 20, 0, "quick"), (1, 64, 20, 0, "quick"), (1, 65, 20, 0, "quick"),
                                   (2, 20, 70, 12, "quick"), (4, 32, 56, 0, "quick"), (4, 100, 20, 40, "quick"), (5, 129, 20, 0, "quick"), (5, 128, 112, 24, "quick"),
                                   (2, 64, 0, 0, "thorough"), (2, 65, 137, 0, "thorough"), (3, 65, 20, 0, "thorough"), (6, 200, 130, 0, "thorough"), (6, 64, 20, 0, "thorough")):
        qs.append(mq("hmac-%s-K%d-M%d-O%d" % (HNAME[hf], kl, ml, ol), hf, 1, ["-DKL=%d" % kl, "-DML=%d" % ml, "-DOL=%d" % ol], unwind=420, tier=tier,
                     desc=dk % (HNAME[hf], kl, HBS[hf], ml, ol), maxcalls=16))
    dc = "br_hmac_outCT(%s; %d bytes already injected; min %d, max %d) for every len in %d..%d and every data[0..max), every key state: == RFC 2104 completion over data[0..len) == br_hmac_update+br_hmac_out; returned length (requested %d); context not modified"

    def ct(hf, pl, mn, mx, lo, hi, tier, ol=0):
        km = 3 * HBS[hf] + mx + pl
        qs.append(mq("outct-%s-P%d-%d-%d-len%d-%d%s" % (HNAME[hf], pl, mn, mx, lo, hi, "-t" if tier == "thorough" else ""), hf, 2,
                     ["-DPL=%d" % pl, "-DMINL=%d" % mn, "-DMAXL=%d" % mx, "-DLLO=%d" % lo, "-DLHI=%d" % hi, "-DOL=%d" % ol],
                     unwind=max(km, 80) + 10, tier=tier, desc=dc % (HNAME[hf], pl, mn, mx, lo, hi, ol), maxcalls=4 + (pl + mx) // HBS[hf]))
    # quick: ends and padding-boundary straddles of several shapes
    for (lo, hi) in ((0, 1), (42, 43), (69, 70)):
        ct(1, 13, 0, 70, lo, hi, "quick")
    for (lo, hi) in ((20, 20), (42, 43), (90, 90)):
        ct(2, 13, 20, 90, lo, hi, "quick")
    for (lo, hi) in ((0, 0), (42, 43), (52, 52)):
        ct(4, 13, 0, 52, lo, hi, "quick", ol=(12 if lo == 0 else 0))
    ct(5, 13, 60, 140, 98, 98, "quick")
    ct(5, 13, 60, 140, 99, 99, "quick")
    ct(5, 13, 60, 140, 140, 140, "quick")
    ct(1, 0, 70, 130, 70, 70, "quick")
    ct(1, 0, 70, 130, 130, 130, "quick")
    ct(1, 77, 0, 10, 0, 1, "quick")
    ct(1, 13, 33, 33, 33, 33, "quick")
    # thorough: every len
    for (lo, hi) in ranges(0, 70, 6):
        ct(1, 13, 0, 70, lo, hi, "thorough")
    for (lo, hi) in ranges(0, 130, 6):
        ct(2, 13, 0, 130, lo, hi, "thorough")
    for (lo, hi) in ranges(0, 70, 6):
        ct(4, 5, 0, 70, lo, hi, "thorough")
    for (lo, hi) in ranges(60, 63, 2) + ranges(90, 140, 2):
        ct(5, 13, 60, 140, lo, hi, "thorough")
    for (lo, hi) in ranges(70, 130, 6):
        ct(1, 0, 70, 130, lo, hi, "thorough")
    for (lo, hi) in ranges(100, 130, 6):
        ct(3, 64, 100, 130, lo, hi, "thorough")
    for (lo, hi) in ranges(0, 20, 4):
        ct(6, 120, 0, 20, lo, hi, "thorough")
    return qs


def kdf_queries():
    qs = []
    qs.append(kq("phash-md5-O21", 1, 1, ["-DOUTL=21"],
                 desc="br_tls_phash(MD5): 21 output bytes (2 iterations, last partial) XORed into dst == RFC 5246 P_hash; 12-byte secret, 20-byte seed as one chunk and as 7+0+13 chunks"))
    qs.append(kq("tls10prf-O21", 7, 2, ["-DOUTL=21", "-DSL=13", "-DONECHUNK=0"],
                 desc="br_tls10_prf: 21 output bytes == P_MD5(S1) xor P_SHA-1(S2) of RFC 2246 with a 13-byte secret (halves overlap), seed as 7+0+13 chunks, previous dst contents ignored"))
    qs.append(kq("tls12prf-sha256-O35", 4, 3, ["-DOUTL=35", "-DONECHUNK=0"],
                 desc="br_tls12_sha256_prf: 35 output bytes == RFC 5246 PRF, seed as 7+0+13 chunks, previous dst contents ignored"))
    qs.append(kq("mgf1-sha1-O45", 2, 5, ["-DOUTL=45"], desc="br_mgf1_xor(SHA-1): 45 bytes (3 blocks, last partial) == RFC 8017 B.2.1 XORed into data, 20-byte seed"))
    qs.append(kq("mgf1-sha256-O32-seed70", 4, 5, ["-DOUTL=32", "-DSDL=70"], desc="br_mgf1_xor(SHA-256): 32 bytes == RFC 8017 B.2.1, 70-byte seed (seed||counter spans two blocks)"))
    qs.append(kq("hmacdrbg-md5-init-gen5", 1, 6, ["-DOUTL=5", "-DSDL=8", "-DPHASE2=0"], maxcalls=30, unwind=210,
                 desc="br_hmac_drbg_init(8-byte seed) + generate(5): output and final K,V == SP 800-90A 10.1.2 HMAC_DRBG"))
    # thorough
    qs.append(kq("phash-sha1-longsecret-O41", 2, 1, ["-DOUTL=41", "-DSL=70"], tier="thorough", maxcalls=30,
                 desc="br_tls_phash(SHA-1): 41 bytes (3 iterations), 70-byte secret (longer than the block), seed as one chunk and as three"))
    qs.append(kq("tls10prf-O37-both", 7, 2, ["-DOUTL=37", "-DSL=16"], tier="thorough", maxcalls=30,
                 desc="br_tls10_prf: 37 bytes, 16-byte secret, seed as one chunk and as three"))
    qs.append(kq("tls12prf-sha256-O70-both", 4, 3, ["-DOUTL=70"], tier="thorough", maxcalls=30,
                 desc="br_tls12_sha256_prf: 70 bytes, seed as one chunk and as three"))
    qs.append(kq("tls12prf-sha384-O50", 5, 3, ["-DOUTL=50", "-DONECHUNK=0"], tier="thorough", maxcalls=30,
                 desc="br_tls12_sha384_prf: 50 bytes (2 iterations), seed as three chunks"))
    qs.append(kq("hmacdrbg-md5-full", 1, 6, ["-DOUTL=20", "-DSDL=20"], tier="thorough", maxcalls=60, unwind=210,
                 desc="br_hmac_drbg_init(20-byte seed), generate(20), update(4 bytes), generate(3) through the vtable == SP 800-90A"))
    qs.append(kq("hmacdrbg-sha256-init-gen33", 4, 6, ["-DOUTL=33", "-DSDL=48", "-DPHASE2=0"], tier="thorough", maxcalls=40, unwind=210,
                 desc="br_hmac_drbg_init(48-byte seed) + generate(33) with SHA-256 == SP 800-90A"))
    return qs


def hkdf_queries():
    qs = []
    d = "br_hkdf_init/inject(2 pieces)/flip/produce(%d + 0 + rest) == RFC 5869 extract+expand, %s, 11-byte IKM, 3-byte info, %d output bytes, digest length %d%s; HMAC = stand-in keyed accumulator at the br_hmac_* link seam (every key/IKM/info/salt content)"
    for (nm, defs, tier, what) in (("salt5-H16-O21", ["-DHLEN=16", "-DOUTL=21"], "quick", (5, "5-byte salt", 21, 16, "")),
                                   ("nosalt-H16-O21", ["-DHLEN=16", "-DOUTL=21", "-DSALTL=-1", "-DO1=16"], "quick", (16, "BR_HKDF_NO_SALT", 21, 16, "")),
                                   ("limit255-H16", ["-DHLEN=16", "-DOUTL=37", "-DCHUNK0=254"], "quick", (5, "5-byte salt", 37, 16, ", expansion resumed at block 254 by state injection: exactly one more block (255) is produced")),
                                   ("salt5-H32-O70", ["-DHLEN=32", "-DOUTL=70"], "thorough", (5, "5-byte salt", 70, 32, "")),
                                   ("salt70-H20-O45", ["-DHLEN=20", "-DOUTL=45", "-DSALTL=70", "-DO1=20"], "thorough", (20, "70-byte salt", 45, 20, ""))):
        qs.append(Q("hkdf-" + nm, "C13_hkdf.c", units=["src/kdf/hkdf.c"], defs=defs, unwind=100, backend="kissat", tier=tier, timeout=tmo(tier), desc=d % what))
    return qs


def shake_queries():
    qs = []
    d = "br_shake_* (security %d, rate %d): %d-byte message injected as %d + 0 + rest, %d bytes produced as %d + rest == FIPS 202 sponge (suffix 1111, pad10*1) for every permutation"
    cases = [(128, 177, 173, 0, 0, "quick"), (128, 177, 173, 1, 1, "quick"), (128, 177, 173, 167, 168, "quick"), (128, 177, 173, 168, 173, "quick"),
             (128, 177, 173, 177, 169, "quick"), (256, 135, 141, 0, 136, "quick"), (256, 135, 141, 135, 0, "quick"), (256, 136, 141, 136, 137, "quick"),
             (128, 345, 341, 100, 100, "thorough"), (128, 345, 341, 336, 168, "thorough"), (256, 281, 277, 136, 272, "thorough"), (256, 0, 10, 0, 5, "thorough"),
             (128, 167, 168, 166, 168, "thorough"), (128, 168, 337, 5, 336, "thorough")]
    for (sec, ml, ol, s, t, tier) in cases:
        qs.append(Q("shake%d-L%d-O%d-i%d-o%d" % (sec, ml, ol, s, t), "C13_shake.c", units=[],
                    defs=["-DSEC=%d" % sec, "-DML=%d" % ml, "-DOUTL=%d" % ol, "-DISPLITS=%d" % s, "-DOSPLITS=%d" % t, "-DMAXP=8"],
                    unwind=max(ml, ol, 200) + 10, flags=FS0, tier=tier, timeout=tmo(tier), desc=d % (sec, 200 - sec // 4, ml, s, ol, t)))
    return qs


def kat_queries():
    qs = []
    for w, u, nm in ((1, ["src/hash/md5.c"], "md5"), (2, ["src/hash/sha1.c"], "sha1"), (3, ["src/hash/sha2small.c"], "sha224"),
                     (4, ["src/hash/sha2small.c"], "sha256"), (5, ["src/hash/sha2big.c"], "sha384"), (6, ["src/hash/sha2big.c"], "sha512"),
                     (7, ["src/kdf/shake.c"], "shake128+shake256")):
        qs.append(Q("kat-" + nm, "C13_kat.c", units=u + CODEC, defs=["-DWHICH=%d" % w], unwind=210, flags=FS0,
                    desc="known answers with the REAL round functions: %s of 'abc' and of bytes 0..199 (two updates) == Python hashlib values (concrete inputs; decided by constant folding)" % nm))
    return qs


def queries():
    return hash_queries() + mhash_queries() + hmac_queries() + kdf_queries() + hkdf_queries() + shake_queries() + kat_queries()
