from verif import Q

META = {
 "level_text": "WIP",
 "level_note": "",
 "technique": "bounded symbolic model checking (CBMC/SAT)",
 "assumptions": [],
 "outside_claim": [],
}

CODEC = ["src/codec/dec32le.c", "src/codec/enc32le.c", "src/codec/dec32be.c", "src/codec/enc32be.c",
         "src/codec/dec64be.c", "src/codec/enc64be.c"]
# CBMC's field-sensitive expansion of every array element costs more than it saves here
# (profiling: field_sensitivityt::get_fields dominated symex); arrays stay arrays.
FS0 = ["--max-field-sensitivity-array-size", "0"]
HNAME = {1: "md5", 2: "sha1", 3: "sha224", 4: "sha256", 5: "sha384", 6: "sha512", 7: "md5sha1"}
HUNITS = {1: ["src/hash/md5.c"], 2: ["src/hash/sha1.c"], 3: ["src/hash/sha2small.c"], 4: ["src/hash/sha2small.c"],
          5: [], 6: [], 7: ["src/hash/md5.c", "src/hash/sha1.c", "src/hash/md5sha1.c"]}
HBS = {1: 64, 2: 64, 3: 64, 4: 64, 5: 128, 6: 128, 7: 64}


def hq(name, hf, mode, L, extra=(), tier="quick", timeout=240, desc=""):
    return Q(name, "C13_hash.c", units=HUNITS[hf] + CODEC,
             defs=["-DHF=%d" % hf, "-DMODE=%d" % mode, "-DMLEN=%d" % L] + list(extra),
             unwind=max(L, 2 * HBS[hf]) + 3, tier=tier, timeout=timeout, desc=desc, flags=FS0)


HMAC = ["src/mac/hmac.c", "src/mac/hmac_ct.c", "src/codec/ccopy.c"]


def mq(name, hf, mode, defs, unwind, tier="quick", timeout=240, desc="", maxcalls=6):
    return Q(name, "C13_hmac.c", units=HUNITS[hf] + HMAC + CODEC,
             defs=["-DHF=%d" % hf, "-DMODE=%d" % mode, "-DC13_MAXCALLS=%d" % maxcalls] + list(defs),
             unwind=unwind, tier=tier, timeout=timeout, desc=desc, flags=FS0, objbits=12)


KUNITS = {1: ["src/ssl/prf.c"], 2: ["src/ssl/prf.c", "src/ssl/prf_md5sha1.c"],
          3: ["src/ssl/prf.c", "src/ssl/prf_sha256.c", "src/ssl/prf_sha384.c"],
          4: ["src/kdf/hkdf.c"], 5: ["src/hash/mgf1.c"], 6: ["src/rand/hmac_drbg.c"]}


def kq(name, hf, mode, defs, unwind=140, tier="quick", timeout=240, desc="", maxcalls=20):
    units = HUNITS[hf] + (HMAC if mode != 5 else []) + KUNITS[mode] + CODEC
    if mode == 3:
        units = HUNITS[hf] + HMAC + ["src/ssl/prf.c", "src/ssl/prf_sha256.c" if hf == 4 else "src/ssl/prf_sha384.c"] + CODEC
    return Q(name, "C13_kdf.c", units=units,
             defs=["-DHF=%d" % hf, "-DMODE=%d" % mode, "-DC13_MAXCALLS=%d" % maxcalls, "-DC13_NLOG=1", "-DC13_NFRESH=%d" % (maxcalls + 4)] + list(defs),
             unwind=unwind, tier=tier, timeout=timeout, desc=desc, flags=FS0, objbits=12)


ALLHASH = ["src/hash/md5.c", "src/hash/sha1.c", "src/hash/sha2small.c", "src/hash/multihash.c"]


def queries():
    qs = []
    qs.append(Q("shake128-L177", "C13_shake.c", units=[], defs=["-DSEC=128"], unwind=210, flags=FS0, timeout=600))
    qs.append(Q("shake256-L135", "C13_shake.c", units=[], defs=["-DSEC=256", "-DML=135", "-DISPLITS=0,135", "-DOSPLITS=0,136"], unwind=210, flags=FS0, timeout=600))
    return qs
