from verif import Q

META = {
 "level_text": "Bounded symbolic model checking (CBMC) of the real RSA padding/unpadding units and of the length/range/parity gates of the public and private operations. PKCS#1 v1.5 signature blocks, OAEP blocks, PSS blocks and TLS key-exchange blocks are fully symbolic (every byte), and acceptance is proved EQUIVALENT to a reference parser written in the harness from RFC 8017 / RFC 5246 (so any altered padding byte is rejected and both DigestInfo forms are accepted); encoders are checked against the same references and by round trip. Public/private gates are decided with the modular exponentiation replaced at the link seam. Partial: sizes are the listed toy/medium sizes, OAEP/PSS use stub hash classes, arithmetic correctness at production sizes, key generation and agreement with OpenSSL are outside.",
 "level_note": "Trusted: CBMC 6.11 and its SAT back ends (minisat/cadical/kissat); byte-loop models of memset/memcpy/memmove/memcmp; the references in harness/C10_*.c/.h (short, written from the RFCs); stub hash/PRNG/modpow stand-ins listed in assumptions; public sizes concrete per query.",
 "technique": "bounded symbolic model checking (CBMC/SAT): differential equivalence of real unpad functions vs RFC reference parsers on fully symbolic blocks; encoder-vs-reference and round-trip laws; gate logic vs integer comparison",
 "assumptions": [
  "OAEP/PSS: hash functions are two stub br_hash_class implementations (real vtable layout and desc word; 4-byte and 8-byte outputs; rotate/xor state, no adders) in harness/C10_stubs.h; br_mgf1_xor (src/hash/mgf1.c) is the REAL code on top of them; the stub asserts (not assumes) that hash computations are not interleaved",
  "PSS: hf_data output >= 8 bytes (rsa_pss_sig_pad.c uses the H field as an 8-byte scratch area; every real hash has >= 16)",
  "OAEP/PSS randomness: stub br_prng_class handing out symbolic bytes",
  "OAEP encode queries: first significant modulus byte is a fixed non-zero constant (0xB7) and the last a fixed odd constant (0xC5), the rest symbolic; br_rsa_oaep_pad reads pk->n only to find its length",
  "PSS decode queries: top modulus byte is a fixed constant with the required bit length (0xD5 >> k), remaining modulus bytes symbolic (only the bit length of n is read)",
  "br_rsa_ssl_decrypt: private-key engine = stub behind the br_rsa_private function pointer returning an arbitrary block and status",
  "public/private gates: br_iNN_modpow_opt / br_i32_modpow replaced at the link seam by an identity stand-in (src/int/iNN_modpow*.c not linked); for the i15 private queries that keep the unmodified work-area alignment test (privgate-i15-p*) additionally br_i15_decode_reduce/reduce/to_monty/montymul (zero-valued stand-ins)",
  "i15 private queries named -a0 / -a1 (gates, CRT recombination, inverse pair): alignment case of the work area fixed per query through the /repo hook BR_VERIF_RSA_I15_ALIGN (guarded by BEARSSL_ESP8266_VERIF; 1: tmp treated as 4-byte aligned, mq = tmp+1; 0: mq = tmp); both cases are run; all big-integer code except modpow is real there",
  "private gates and toy inverse pair: units compiled with the documented configuration macro BR_MAX_RSA_SIZE=64 so that the work arrays stay within CBMC's field-sensitive range; the over-long modulus/factor queries use the shipped BR_MAX_RSA_SIZE (4096)",
  "private gates: factors p, q concrete per query (toy values incl. even, p<q, p>q, stored with leading zero bytes), x and the CRT exponents symbolic; key structure consistent (n_bitlen == bitlen(p*q), checked in the harness)",
  "PKCS#1 v1.5: hash_len is the standard length of the hash named by hash_oid (20/32/48/64/28, 36 for no OID)",
  "public sizes (block length, modulus bit length, label/salt length, stored key lengths) concrete per query",
 ],
 "outside_claim": [
  "512..4096-bit keys for the arithmetic (modpow, CRT at production sizes); agreement with OpenSSL/an independent implementation",
  "OAEP/PSS with the real hash functions and moduli longer than 40 bytes",
  "br_rsa_i62_private beyond the over-long-factor gate (uint64/uint32 type-punned work area: no query finished)",
  "CRT recombination beyond 16-bit moduli (24-bit: no verdict in 900 s); for i15 it is decided only with the alignment case fixed through the hook (both cases), not with the unmodified pointer-value test",
  "public o private == identity with real arithmetic beyond the 7-bit toy modulus 13*5 (16-bit modulus: no verdict in 10 min/900 s); for i15 the pair with br_rsa_i15_public gets no verdict (rsa_i15_pub.c keeps its symbolic alignment test) and is replaced by br_rsa_i15_private(x)^e mod n == x against explicit integer arithmetic at n = 65 and n = 143; i62 not at all",
  "key generation, br_rsa_*_compute_modulus/pubexp/privexp, the pkcs1_sign/vrfy, pss_sign/vrfy, oaep_encrypt/decrypt wrappers as compositions, 'default' implementation selection",
  "constant-time behaviour (C08)",
 ],
 "mutants_tried": [
  "CAUGHT (genuine defect of /repo, found by this check, since fixed by c060fa7) rsa_oaep_pad.c stripping trailing instead of leading zero bytes of pk->n -> oaep-pad-leadzero-K24, oaep-pad-K16-L1-Z2 against the pre-fix tree",
  "CAUGHT rsa_pkcs1_sig_unpad.c: pad1[] with seven 0xFF bytes (accepts a 7-byte FF run) -> p1unpad-sha1-SL45, -SL43",
  "CAUGHT rsa_pkcs1_sig_unpad.c: DigestInfo form without NULL parameters no longer accepted -> p1unpad-sha256-SL60/61/62/67",
  "CAUGHT rsa_oaep_unpad.c: zlen >= hlen relaxed by one (last lHash byte unchecked) -> oaep-unpad-K16-L1",
  "CAUGHT rsa_oaep_unpad.c: leading byte Y not checked (r = 1) -> oaep-unpad-K16-L1",
  "CAUGHT rsa_pss_sig_unpad.c: trailer compared only on 7 bits -> pss-unpad-N133-S2-Z1",
  "CAUGHT rsa_pss_sig_unpad.c: first PS byte not checked for zero -> pss-unpad-N136-S4-Z0",
  "CAUGHT rsa_pss_sig_pad.c: top bits not cleared -> pss-pad-N133-S2 (reference verify and < 2^(nbits-1))",
  "CAUGHT rsa_pss_sig_pad.c + rsa_pss_sig_unpad.c both hashing 7 instead of 8 zero bytes (self-consistent deviation: round trip still passes) -> pss-pad-N133-S2, pss-unpad-N133-S2-Z1 via the RFC reference",
  "CAUGHT mgf1.c: counter not incremented -> oaep-pad-K16-L1 via the RFC reference",
  "CAUGHT rsa_i15_pub.c: result of br_i15_decode_mod (x < n) ignored -> pubgate-i15-NL3-XL2-EL1",
  "CAUGHT rsa_i15_priv.c: parity of p dropped from the result (return q0i & r) -> privgate-i15-p250-q241-PL1-QL1",
  "CAUGHT rsa_i15_priv.c: br_i15_reduce(t2, s2, mp) skipped when p and q have the same announced bit length (s2 not brought into range mod p; wrong result with success status for p < q) -> privcrt-i15-a0/a1-p11-q13, -p241-q251 (exactly the equal-bit-length p < q keys; this class escaped before the i15 CRT queries existed)",
  "CAUGHT rsa_i15_priv.c: add-back after the subtraction dropped (br_i15_sub(s1, t2, 1) only) -> all eight privcrt-i15-a1-* keys",
  "CAUGHT rsa_i31_priv.c: same equal-bit-length reduce skip -> privcrt-i31-p11-q13 (quick), p241-q251 (thorough)",
  "CAUGHT rsa_ssl_decrypt.c: last PS byte not checked for non-zero (loop bound len-50) -> ssldec-L64-N512",
  "CAUGHT rsa_pkcs1_sig_pad.c: minimum length relaxed by one (seven FF bytes possible) -> p1pad-sha1-N360",
 ],
}

P1UNPAD = ["src/rsa/rsa_pkcs1_sig_unpad.c"]
OIDN = {0: "nooid", 1: "sha1", 2: "sha256", 3: "sha384", 4: "sha512", 5: "sha224"}
HLEN = {0: 36, 1: 20, 2: 32, 3: 48, 4: 64, 5: 28}
TA = {0: 0, 1: 15, 2: 19, 3: 19, 4: 19, 5: 19}


def queries():
    qs = []
    # ---- 1. pkcs1 sig_unpad, whole block symbolic
    for oid in (0, 1, 2):
        hl = HLEN[oid]
        tmin_a = TA[oid] + hl + 11          # shortest block for the with-NULL form
        tmin_b = tmin_a - (2 if oid else 0)  # shortest for the without-NULL form
        cases = [(tmin_a, 1, "quick"), (tmin_a + 5, 1, "quick"), (tmin_b - 1, 0, "quick"), (128, 1, "quick")]
        if oid:
            cases += [(tmin_a - 1, 1, "quick"), (tmin_b, 1, "quick")]
        cases += [(256, 1, "thorough")]
        for (sl, acc, tier) in cases:
            qs.append(Q("p1unpad-%s-SL%d" % (OIDN[oid], sl), "C10_p1unpad.c", units=P1UNPAD,
                        defs=["-DSL=%d" % sl, "-DOIDSEL=%d" % oid, "-DEXPECT_ACCEPT=%d" % acc],
                        unwind=max(sl, 64) + 2, fsarray=(sl + 2 if sl > 64 else None), tier=tier, timeout=900 if tier == "thorough" else 240,
                        desc="br_rsa_pkcs1_sig_unpad accepts <=> RFC 8017 9.2 canonical block (both DigestInfo forms), hash_out == H; every byte of the %d-byte block symbolic, hash_oid %s, hash_len %d" % (sl, OIDN[oid], hl)))
    for oid in (3, 4, 5):
        sl = TA[oid] + HLEN[oid] + 11
        qs.append(Q("p1unpad-%s-SL%d" % (OIDN[oid], sl), "C10_p1unpad.c", units=P1UNPAD,
                    defs=["-DSL=%d" % sl, "-DOIDSEL=%d" % oid, "-DEXPECT_ACCEPT=1"], unwind=sl + 2, fsarray=(sl + 2 if sl > 64 else None),
                    desc="br_rsa_pkcs1_sig_unpad accepts <=> RFC 8017 9.2 canonical block (both DigestInfo forms), hash_out == H; every byte of the %d-byte block symbolic, hash_oid %s" % (sl, OIDN[oid])))
    # ---- 2. pkcs1 sig_pad: gate, canonical output, unpad(pad) == id
    for oid in (0, 1, 2, 4):
        hl = HLEN[oid]
        tmin = TA[oid] + hl + 11
        sizes = ((tmin * 8, "quick"), (tmin * 8 - 7, "quick"), ((tmin - 1) * 8, "quick"), (8, "quick"),
                 (1024, "quick"), (1017, "quick"), (2048, "quick"), (4096, "quick"))
        if oid == 4:
            sizes = ((tmin * 8, "quick"), ((tmin - 1) * 8, "quick"), (2048, "quick"))
        for nb, tier in sizes:
            qs.append(Q("p1pad-%s-N%d" % (OIDN[oid], nb), "C10_p1pad.c", units=P1UNPAD + ["src/rsa/rsa_pkcs1_sig_pad.c"],
                        defs=["-DNBITS=%d" % nb, "-DOIDSEL=%d" % oid],
                        unwind=max((nb + 7) // 8, 64) + 2, fsarray=(nb + 7) // 8 + 2, tier=tier, timeout=900 if tier == "thorough" else 240,
                        desc="br_rsa_pkcs1_sig_pad: returns 0 iff modulus (%d bits) too short; output canonical (with-NULL form); sig_unpad(sig_pad(H)) == H for every H; hash_oid %s" % (nb, OIDN[oid])))
    # ---- 3a. OAEP over the stub hash (4-byte output), real mgf1
    OAEP = ["src/rsa/rsa_oaep_pad.c", "src/rsa/rsa_oaep_unpad.c", "src/hash/mgf1.c"]
    for (k, ll, tier) in ((16, 1, "quick"), (20, 2, "quick"), (9, 0, "quick"), (10, 1, "quick"), (24, 2, "thorough"), (32, 0, "thorough"), (40, 4, "thorough")):
        to = 900 if tier == "thorough" else 240
        qs.append(Q("oaep-pad-K%d-L%d" % (k, ll), "C10_oaep.c", units=OAEP,
                    defs=["-DC10_MODE=0", "-DC10_K=%d" % k, "-DC10_LL=%d" % ll], unwind=max(k + 3, 18), backend="cadical", tier=tier, timeout=to,
                    desc="br_rsa_oaep_pad: 0 iff modulus too short/message too long/dst too small; output decodes to M under the RFC 8017 7.1.2 reference (own MGF1); modulus %d bytes, label %d bytes, message length 0..max+1, seed, label, message symbolic; stub hash" % (k, ll)))
        if k >= 10:
            qs.append(Q("oaep-roundtrip-K%d-L%d" % (k, ll), "C10_oaep.c", units=OAEP,
                    defs=["-DC10_MODE=0", "-DC10_RT=1", "-DC10_K=%d" % k, "-DC10_LL=%d" % ll], unwind=max(k + 3, 18), backend="cadical", tier=tier, timeout=to,
                    desc="br_rsa_oaep_unpad(br_rsa_oaep_pad(M)) == M with its length; modulus %d bytes, label %d bytes, every message length, seed, label, message symbolic; stub hash" % (k, ll)))
        qs.append(Q("oaep-unpad-K%d-L%d" % (k, ll), "C10_oaep.c", units=OAEP,
                    defs=["-DC10_MODE=1", "-DC10_K=%d" % k, "-DC10_LL=%d" % ll], unwind=k + 3, backend="cadical", tier=tier, timeout=to,
                    desc="br_rsa_oaep_unpad accepts <=> RFC 8017 7.1.2 reference (Y==0, lHash, PS zeros, 01 separator), message and length returned, *len untouched on reject; every byte of the %d-byte block and the %d-byte label symbolic; stub hash" % (k, ll)))
    qs.append(Q("oaep-pad-K16-L1-Z2", "C10_oaep.c", units=OAEP,
                defs=["-DC10_MODE=0", "-DC10_K=16", "-DC10_LL=1", "-DC10_NLZ=2"], unwind=21, backend="cadical",
                desc="br_rsa_oaep_pad with the modulus stored with 2 leading zero bytes: same gates, output length == mathematical modulus length, output decodes under the RFC 8017 reference"))
    qs.append(Q("oaep-pad-leadzero-K24", "C10_oaep.c", units=OAEP,
                defs=["-DC10_MODE=2", "-DC10_K=24", "-DC10_LL=0", "-DC10_NLZ=1"], unwind=28, backend="cadical",
                desc="br_rsa_oaep_pad output length == mathematical modulus length when pk->n has a leading zero byte (bearssl_rsa.h contract of br_rsa_oaep_encrypt)"))
    # ---- 3b. PSS over two stub hashes (hf_data 8 bytes, hf_mgf1 4 bytes), real mgf1
    PSS = ["src/rsa/rsa_pss_sig_pad.c", "src/rsa/rsa_pss_sig_unpad.c", "src/hash/mgf1.c"]
    for (nb, salt, nlz, tier) in ((129, 0, 0, "quick"), (136, 4, 0, "quick"), (133, 2, 1, "quick"), (112, 4, 0, "quick"),
                                  (105, 4, 0, "quick"), (104, 3, 2, "quick"), (192, 3, 0, "quick"),
                                  (256, 4, 0, "thorough"), (257, 1, 3, "thorough"), (320, 4, 0, "thorough")):
        to = 900 if tier == "thorough" else 240
        xb = (nb + 7) // 8
        base = ["-DC10_NBITS=%d" % nb, "-DC10_SALT=%d" % salt, "-DC10_NLZ=%d" % nlz]
        qs.append(Q("pss-pad-N%d-S%d" % (nb, salt), "C10_pss.c", units=PSS, defs=base + ["-DC10_MODE=0"],
                    unwind=max(xb + nlz + 3, 18), backend="cadical", tier=tier, timeout=to,
                    desc="br_rsa_pss_sig_pad: 0 iff emLen < hLen+sLen+2; output verifies under the RFC 8017 9.1.2 reference and is < 2^(nbits-1); modulus %d bits, salt %d bytes; hash, salt symbolic; stub hashes" % (nb, salt)))
        qs.append(Q("pss-roundtrip-N%d-S%d" % (nb, salt), "C10_pss.c", units=PSS, defs=base + ["-DC10_MODE=0", "-DC10_RT=1"],
                    unwind=max(xb + nlz + 3, 18), backend="cadical", tier=tier, timeout=to,
                    desc="br_rsa_pss_sig_unpad accepts br_rsa_pss_sig_pad output; modulus %d bits (%d leading zero bytes stored), salt %d bytes; stub hashes" % (nb, nlz, salt)))
        qs.append(Q("pss-unpad-N%d-S%d-Z%d" % (nb, salt, nlz), "C10_pss.c", units=PSS, defs=base + ["-DC10_MODE=1"],
                    unwind=max(xb + nlz + 3, 10), backend="cadical", tier=tier, timeout=to,
                    desc="br_rsa_pss_sig_unpad accepts <=> RFC 8017 9.1.2 reference (leading byte/top bits, trailer BC, PS zeros, 01, salt length, H); every byte of the %d-byte block and of the hash symbolic; modulus %d bits with %d leading zero bytes, salt %d; stub hashes" % (xb, nb, nlz, salt)))
    qs.append(Q("pss-unpad-zero-modulus", "C10_pss.c", units=PSS, defs=["-DC10_NBITS=136", "-DC10_SALT=2", "-DC10_NLZ=1", "-DC10_MODE=2"],
                unwind=24, desc="br_rsa_pss_sig_unpad returns 0 for an all-zero modulus"))
    # ---- 4. br_rsa_ssl_decrypt padding logic, private engine = stub behind the function pointer
    for (ln, nb, tier) in ((59, 472, "quick"), (58, 464, "quick"), (64, 512, "quick"), (64, 505, "quick"), (64, 520, "quick"),
                           (63, 512, "quick"), (128, 1024, "quick"), (256, 2048, "quick"), (512, 4096, "thorough")):
        qs.append(Q("ssldec-L%d-N%d" % (ln, nb), "C10_ssldec.c", units=["src/rsa/rsa_ssl_decrypt.c"],
                    defs=["-DC10_LEN=%d" % ln, "-DC10_NBITS=%d" % nb], unwind=ln + 3, fsarray=ln + 2,
                    tier=tier, timeout=900 if tier == "thorough" else 240,
                    desc="br_rsa_ssl_decrypt: 0/unmodified if len<59 or len != modulus length; else 1 <=> engine ok and block == 00 02 PS(nonzero) 00 || 48 bytes, secret moved to buffer start; decrypted block (%d bytes) and engine status symbolic" % ln))
    # ---- 5a. public-operation gates, real big-integer code at toy sizes
    import glob, os
    repo = os.environ.get("VERIF_REPO", "/repo")
    def ints(prefix, nomodpow=True):
        return sorted("src/int/" + os.path.basename(f) for f in glob.glob(os.path.join(repo, "src/int", prefix + "_*.c"))
                      if not (nomodpow and "modpow" in f))
    IMPL_UNITS = {15: ["src/rsa/rsa_i15_pub.c"] + ints("i15"), 31: ["src/rsa/rsa_i31_pub.c"] + ints("i31"),
                  32: ["src/rsa/rsa_i32_pub.c"] + ints("i32"), 62: ["src/rsa/rsa_i62_pub.c"] + ints("i31") + ints("i62")}
    for impl in (15, 31, 32, 62):
        for (nl, xl, el, tier) in ((3, 2, 1, "quick"), (2, 1, 1, "quick"), (2, 2, 0, "quick")):
            qs.append(Q("pubgate-i%d-NL%d-XL%d-EL%d" % (impl, nl, xl, el), "C10_pubgate.c", units=IMPL_UNITS[impl],
                        defs=["-DC10_IMPL=%d" % impl, "-DC10_NL=%d" % nl, "-DC10_XL=%d" % xl, "-DC10_EL=%d" % el],
                        unwind=10, tier=tier, timeout=240,
                        desc="br_rsa_i%d_public: returns 0 and leaves x unmodified when modulus length (after leading zeros) is 0 or != xlen; else 1 <=> n odd and x < n; n (%d bytes stored, leading zeros symbolic), x (%d bytes), e (%d bytes) symbolic; real decode/decode_mod/ninv/encode, modpow stubbed at the link seam" % (impl, nl, xl, el)))
        if True:
            qs.append(Q("pubgate-i%d-NL5-XL4-EL3" % impl, "C10_pubgate.c", units=IMPL_UNITS[impl],
                        defs=["-DC10_IMPL=%d" % impl, "-DC10_NL=5", "-DC10_XL=4", "-DC10_EL=3"],
                        unwind=14, tier="quick", timeout=240,
                        desc="br_rsa_i%d_public gates as above with n 5 bytes stored (leading zeros symbolic), x 4 bytes, e 3 bytes" % impl))
        qs.append(Q("pubgate-i%d-toolong" % impl, "C10_pubgate.c", units=IMPL_UNITS[impl],
                    defs=["-DC10_IMPL=%d" % impl, "-DC10_NL=513", "-DC10_XL=513", "-DC10_EL=1", "-DC10_BIGN=1"],
                    unwind=516, fsarray=520, tier="quick", timeout=240,
                    desc="br_rsa_i%d_public returns 0 and leaves x unmodified for a 513-byte modulus (> BR_MAX_RSA_SIZE)" % impl))
    # ---- 5b. private-operation gates + CRT recombination (factors concrete per query, x symbolic)
    PRIV_UNITS = {15: ["src/rsa/rsa_i15_priv.c"] + ints("i15"), 31: ["src/rsa/rsa_i31_priv.c", "src/int/i32_div32.c"] + ints("i31"),
                  32: ["src/rsa/rsa_i32_priv.c"] + ints("i32"), 62: ["src/rsa/rsa_i62_priv.c", "src/int/i32_div32.c"] + ints("i31") + ints("i62")}
    from math import gcd
    def keydefs(P, Q, pl, ql):
        n = P * Q
        d = ["-DC10_P=%d" % P, "-DC10_Q=%d" % Q, "-DC10_PL=%d" % pl, "-DC10_QL=%d" % ql, "-DC10_NBITS=%d" % n.bit_length()]
        if P % 2 and Q % 2 and gcd(P, Q) == 1:
            d.append("-DC10_IQ=%d" % pow(Q, -1, P))
        return d
    # (p, q, stored bytes of p, of q, tier)
    PRIVCASES = [(251, 241, 1, 1, "quick"), (241, 251, 1, 1, "quick"), (250, 241, 1, 1, "quick"), (251, 240, 1, 1, "quick"),
                 (251, 241, 3, 2, "quick"), (65521, 251, 2, 1, "quick"), (65521, 65519, 2, 2, "quick"), (65519, 65521, 3, 2, "quick")]
    # 24-bit moduli (65521*251): no verdict in 900 s on any back end tried -> dropped
    # equal bit length with p < q is the case where s2 (mod q) must be brought into range mod p
    CRTCASES = [(13, 5, 1, 1, "quick"), (5, 13, 1, 1, "quick"), (11, 13, 1, 1, "quick"), (13, 11, 1, 1, "quick"),
                (251, 241, 1, 1, "thorough"), (241, 251, 2, 1, "thorough"), (13, 251, 1, 1, "thorough"), (251, 13, 1, 1, "thorough")]
    I15_CRT_SEAM = ("decred", "reduce", "tmont", "montmul")
    def crtq(impl, units, P, Qv, pl, ql, tier, extra, tag, unwind):
        return Q("privcrt-i%d%s-p%d-q%d" % (impl, tag, P, Qv), "C10_privgate.c", units=units,
                 defs=["-DC10_IMPL=%d" % impl, "-DBR_MAX_RSA_SIZE=64", "-DC10_CRT=1"] + extra + keydefs(P, Qv, pl, ql),
                 unwind=unwind, backend="kissat", tier=tier, timeout=900 if tier == "thorough" else 240,
                 desc="br_rsa_i%d_private%s, p=%d, q=%d: CRT recombination s2 + q*((s1-s2)*iq mod p) of (x mod p, x mod q) returns x for every x < p*q (identity stand-in for the two modpow calls at the link seam; all other big-integer code real)" % (impl, tag, P, Qv))
    for impl in (15, 31, 32, 62):
        units = PRIV_UNITS[impl]
        qs.append(Q("privgate-i%d-bigfactor" % impl, "C10_privgate.c", units=PRIV_UNITS[impl],
                    defs=["-DC10_IMPL=%d" % impl, "-DC10_PL=400", "-DC10_QL=1", "-DC10_NBITS=3208", "-DC10_BIGF=1"],
                    unwind=405, fsarray=410, tier="quick", timeout=240,
                    desc="br_rsa_i%d_private returns 0 for a 400-byte factor (> BR_MAX_RSA_FACTOR), shipped BR_MAX_RSA_SIZE" % impl))
        if impl == 62:
            # rsa_i62_priv.c views its uint64_t work area as uint32_t words: no query on the rest finished (> 240 s)
            continue
        if impl == 15:
            # (a) the unmodified alignment test ((uintptr_t)mq & 2): every work-area index symbolic, CRT callees stubbed
            seam_units = [u for u in units if not any(k in u for k in I15_CRT_SEAM)]
            for (P, Qv, pl, ql, tier) in PRIVCASES:
                tier = "quick" if (P, Qv, pl) in ((251, 241, 1), (250, 241, 1)) else "thorough"
                qs.append(Q("privgate-i15-p%d-q%d-PL%d-QL%d" % (P, Qv, pl, ql), "C10_privgate.c", units=seam_units,
                            defs=["-DC10_IMPL=15", "-DBR_MAX_RSA_SIZE=64", "-DC10_STUB_CRT=1"] + keydefs(P, Qv, pl, ql),
                            unwind=(8 if P < 256 and Qv < 256 else 12), tier=tier, timeout=900 if tier == "thorough" else 240,
                            desc="br_rsa_i15_private (real alignment test on the work area), p=%d (%d bytes stored), q=%d (%d bytes stored): returns 1 <=> x < p*q and p, q odd, for every x; modpow and the CRT callees stubbed at the link seam; BR_MAX_RSA_SIZE=64" % (P, pl, Qv, ql)))
            # (b) alignment case fixed per query through the /repo hook BR_VERIF_RSA_I15_ALIGN: all big-integer code real
            for al in (0, 1):
                hook = ["-DBR_VERIF_RSA_I15_ALIGN=%d" % al]
                tag = "-a%d" % al
                for (P, Qv, pl, ql, tier) in PRIVCASES:
                    qs.append(Q("privgate-i15%s-p%d-q%d-PL%d-QL%d" % (tag, P, Qv, pl, ql), "C10_privgate.c", units=units,
                                defs=["-DC10_IMPL=15", "-DBR_MAX_RSA_SIZE=64"] + hook + keydefs(P, Qv, pl, ql),
                                unwind=18, tier=tier, timeout=240,
                                desc="br_rsa_i15_private, work area %s (hook), p=%d (%d bytes stored), q=%d (%d bytes stored): returns 1 <=> x < p*q and p, q odd, for every x; only modpow stubbed at the link seam; BR_MAX_RSA_SIZE=64" % ("4-byte aligned" if al else "not 4-byte aligned", P, pl, Qv, ql)))
                for (P, Qv, pl, ql, tier) in CRTCASES:
                    qs.append(crtq(15, units, P, Qv, pl, ql, "quick", hook, tag, 18))
            continue
        for (P, Qv, pl, ql, tier) in PRIVCASES:
            qs.append(Q("privgate-i%d-p%d-q%d-PL%d-QL%d" % (impl, P, Qv, pl, ql), "C10_privgate.c", units=units,
                        defs=["-DC10_IMPL=%d" % impl, "-DBR_MAX_RSA_SIZE=64"] + keydefs(P, Qv, pl, ql),
                        unwind=34, tier=tier, timeout=900 if tier == "thorough" else 240,
                        desc="br_rsa_i%d_private, p=%d (%d bytes stored), q=%d (%d bytes stored): returns 1 <=> x < p*q and p, q odd, for every x; modpow stubbed at the link seam; BR_MAX_RSA_SIZE=64" % (impl, P, pl, Qv, ql)))
        for (P, Qv, pl, ql, tier) in CRTCASES:
            qs.append(crtq(impl, units, P, Qv, pl, ql, tier, [], "", 34))
    # ---- 5c. toy-size inverse pair with the REAL arithmetic (thorough): n = 13*5, e = 5
    for impl in (15, 31, 32):
        pre = "i%d" % impl
        units = ["src/rsa/rsa_%s_pub.c" % pre, "src/rsa/rsa_%s_priv.c" % pre, "src/codec/ccopy.c"] + ints(pre, nomodpow=False)
        if impl == 31:
            units.append("src/int/i32_div32.c")
        # i15 without the hook: no verdict in 900 s; with it only rsa_i15_pub.c keeps its (symbolic) alignment test
        if impl == 15:
            # rsa_i15_pub.c keeps its own symbolic alignment test: the pub/priv pair gets no verdict in 900 s even with the
            # hook on the private side.  Instead: real br_rsa_i15_private incl. real modpow vs explicit integer arithmetic.
            punits = [u for u in units if not u.endswith("rsa_i15_pub.c")]
            for al in (0, 1):
                for (nm, kd, tier) in (("n65", ["-DC10_P=13", "-DC10_Q=5", "-DC10_NBITS=7", "-DC10_IQ=8", "-DC10_E=5", "-DC10_DP=5", "-DC10_DQ=1"], "quick"),
                                       ("n143", ["-DC10_P=11", "-DC10_Q=13", "-DC10_NBITS=8", "-DC10_IQ=6", "-DC10_E=7", "-DC10_DP=3", "-DC10_DQ=7"], "quick")):   # n = 241*251: no verdict in 900 s
                    qs.append(Q("rsainv-i15-a%d-%s-priv_vs_integer" % (al, nm), "C10_privgate.c", units=punits,
                                defs=["-DC10_IMPL=15", "-DBR_MAX_RSA_SIZE=64", "-DC10_REAL_MODPOW=1", "-DC10_ORDER=2", "-DBR_VERIF_RSA_I15_ALIGN=%d" % al] + kd,
                                unwind=34, backend="kissat", tier=tier, timeout=900 if tier == "thorough" else 240,
                                desc="br_rsa_i15_private with the real arithmetic incl. modpow: result^e mod n == x (explicit integer reference) for every x < n, toy key %s; work-area alignment case %d fixed through the hook; BR_MAX_RSA_SIZE=64" % (nm, al)))
            continue
        for al in (None,):
            hook = [] if al is None else ["-DBR_VERIF_RSA_I15_ALIGN=%d" % al]
            tag = "" if al is None else "-a%d" % al
            for order in (0, 1):
                qs.append(Q("rsainv-%s%s-n65-%s" % (pre, tag, "pub_after_priv" if order == 0 else "priv_after_pub"), "C10_privgate.c", units=units,
                            defs=["-DC10_IMPL=%d" % impl, "-DBR_MAX_RSA_SIZE=64", "-DC10_REAL_MODPOW=1", "-DC10_ORDER=%d" % order,
                                  "-DC10_P=13", "-DC10_Q=5", "-DC10_NBITS=7", "-DC10_IQ=8", "-DC10_E=5", "-DC10_DP=5", "-DC10_DQ=1"] + hook,
                            unwind=34, backend="kissat", tier="thorough", timeout=900,
                            desc="br_rsa_%s_public and br_rsa_%s_private are mutual inverses for every x < n, toy key n = 13*5, e = 5, real big-integer arithmetic incl. modpow; BR_MAX_RSA_SIZE=64%s" % (pre, pre, "" if al is None else "; private work-area alignment case %d fixed through the hook" % al)))
    return qs


# ---- added by the main session after the seeded change C10c (overflow of the binary-GCD halving step in
# br_rsa_i31_compute_privexp for e >= 2^31) escaped: recomputed private exponent == e^-1 mod (p-1)(q-1).
_c10_queries = queries
def queries():
    from verif import Q
    qs = _c10_queries()
    units31 = ["src/rsa/rsa_i31_privexp.c"] + ["src/int/i31_%s.c" % x for x in ("decode", "mulacc", "bitlen", "encode", "muladd", "add", "sub")] + ["src/int/i32_div32.c"]
    units15 = ["src/rsa/rsa_i15_privexp.c"] + ["src/int/i15_%s.c" % x for x in ("decode", "mulacc", "bitlen", "encode", "muladd", "add", "sub")] + ["src/int/i32_div32.c"]
    exps = [("3", "3u"), ("17", "17u"), ("65537", "65537u"), ("7fffffff", "0x7FFFFFFFu"), ("80000001", "0x80000001u"), ("9e3779b1", "0x9E3779B1u"),
            ("c0000001", "0xC0000001u"), ("fffffffb", "0xFFFFFFFBu"), ("ffffffff", "0xFFFFFFFFu")]
    import math
    PHI = (0x8000000017 - 1) * (0xC00000004B - 1)
    for impl, units in ((31, units31), (15, units15)):
        for (nm, lit) in exps:
            refused = ["-DEXPECT_REFUSED=1"] if math.gcd(int(lit.rstrip("u"), 0), PHI) != 1 else []
            for (zp, zq) in ((0, 0), (1, 0)) if nm in ("65537", "c0000001") else ((0, 0),):
                qs.append(Q("privexp-i%d-e%s-z%d%d" % (impl, nm, zp, zq), "C10_privexp.c", units=units,
                            defs=["-DIMPL=%d" % impl, "-DECONST=%s" % lit, "-DZP=%d" % zp, "-DZQ=%d" % zq, "-DBR_MAX_RSA_SIZE=128"] + refused, unwind=70, timeout=400,
                            checks=False, flags=["--no-standard-checks"], tier="quick" if nm in ("65537", "c0000001", "fffffffb") and (zp, zq) == (0, 0) and impl == 31 else "thorough",
                            desc="br_rsa_i%d_compute_privexp: d == e^-1 mod (p-1)(q-1), d < phi, for e = %s and two concrete 40-bit factors (= 3 mod 4); all inputs concrete (a symbolic e has no verdict in 280 s); functional claim only (cbmc's pointer/bounds instrumentation is off for these queries: 150k extra conditions)" % (impl, lit)))
                qs[-1].heavy = True   # ~16 GB of symex memory each: the driver runs at most three at a time
    return qs


# ---- cross-included by the main session: the RSA public/private operations (anchors rsa_i15/i31/i32_pub.c, *_priv.c) are
# inverse of each other only if the modular reduction step they are built on is exact near the modulus as well (seeded
# change C10e: br_i32_muladd_small without its top-words-equal case); decided by the C09 muladd_small query families.
_c10_queries2 = queries
def queries():
    qs = _c10_queries2()
    try:
        import C09
        qs = qs + [q for q in C09.mul_queries() if "-muladd-" in q.name and q.tier == "quick"]
    except Exception:
        pass
    return qs
