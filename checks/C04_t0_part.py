"""C04, T0 part: native words of x509_minimal.c against references written from the documentation (E2 extraction)."""
import os, sys
from verif import Q

ROOT = os.path.dirname(os.path.dirname(os.path.abspath(__file__)))
sys.path.insert(0, os.path.join(ROOT, "encoders"))
import t0tool

ASSUMPTIONS = [
 "T0 part: native words extracted verbatim by encoders/t0tool.py (E2; re-validated against the real interpreter by C05 e2-validation-x509min)",
 "match-server-name: expected name and found name <= 8 bytes each, all byte values (found name may contain NUL and bytes >= 0x80); the expected server name does not begin with '.' (for such a name the word also accepts \"*.rest\" with an EMPTY left-most label; not a host name, noted as an observation)",
 "check-validity-range: all four date operands, the configured time, the clock value (time() replaced at the link seam, 32-bit) and the callback verdict symbolic",
 "copy-name-element / copy-name-SAN: two name elements with 1..8-byte buffers, value of 0..8 bytes, all contents and statuses symbolic",
 "check-direct-trust / check-trust-anchor-CA equivalence: <= 2 anchors with DNs <= 3 bytes, key parts <= 3 bytes, pairwise distinct DN hashes, toy 2-byte DN hash class, validation state with err == 0; signature verifiers are deterministic stubs keyed by the anchor key",
 "do-rsa-vrfy / do-ecdsa-vrfy: verifiers are recording stubs returning any verdict / any recovered hash; minimum RSA key size is checked by T0 code, not by these words (outside)",
]
MUTANTS = [
 "CAUGHT seeded/C04-eqnocase-mask-0x5f (case folding by masking 0x5F): t0-x509min-match-server-name",
 "CAUGHT seeded/C05-copy-name-san-off-by-one: t0-x509min-copy-name-SAN",
 "CAUGHT match-server-name accepts \"*\" not followed by a dot: t0-x509min-match-server-name",
 "CAUGHT check-validity-range `vs > nas` -> `>=`: t0-x509min-check-validity-range-fixed, -clock",
 "CAUGHT copy-name-element `len < ne->len` -> `<=`: t0-x509min-copy-name-element",
 "CAUGHT verify_signature compares hash_len - 1 bytes of the recovered hash: t0-x509min-do-rsa-vrfy",
 "CAUGHT check-direct-trust frees the dynamic anchor only when it matched: t0-x509min-check-direct-trust-dynamic-TA1-K2",
 "CAUGHT check-trust-anchor-CA dynamic path skips the CA-flag / DN-hash test (verify_signature only): t0-x509min-check-trust-anchor-CA-dynamic-TA1-K3, -TA2-K3",
]


def queries():
    p = t0tool.load("x509min")
    inc = ["-I" + t0tool.gen_dir(p), "-I" + os.path.join(ROOT, "encoders")]
    modes = [(0, "match-server-name", 12, "reference matcher: exact case-insensitive ASCII, or one whole non-empty left-most label for a leading \"*.\"; names <= 8 bytes, any byte values"),
             (1, "check-validity-range", 4, "-1/0/+1 by lexicographic (days, seconds) comparison; configured time, system clock and callback paths"),
             (2, "copy-name-element", 12, "status 1 + zero-terminated value iff decoded and value length + 1 <= buffer length, else -1 and buffer untouched; other elements unchanged"),
             (3, "copy-name-SAN", 12, "first unfilled element asking for the SAN type; same copy rules as copy-name-element"),
             (4, "do-rsa-vrfy", 70, "key-type gate, verifier-configured gate, verdict and recovered-hash comparison; arguments handed to the verifier"),
             (5, "do-ecdsa-vrfy", 70, "key-type gate, verifier-configured gate, verdict; arguments handed to the verifier")]
    qs = []
    for (m, nm, unw, d) in modes:
        if m == 1:
            for tp, tn in ((0, "callback"), (1, "fixed"), (2, "clock")):
                qs.append(Q("t0-x509min-%s-%s" % (nm, tn), "C04_t0_x509min.c", units=[], defs=["-DMODE=1", "-DTPATH=%d" % tp] + inc, unwind=unw,
                            timeout=200, backend="cadical" if tp == 2 else None,
                            desc="native %s of src/x509/x509_minimal.c, time source = %s: %s" % (nm, tn, d)))
            continue
        qs.append(Q("t0-x509min-%s" % nm, "C04_t0_x509min.c", units=[], defs=["-DMODE=%d" % m] + inc, unwind=unw, timeout=200,
                    desc="native %s of src/x509/x509_minimal.c: %s" % (nm, d)))
    for m, nm in ((0, "check-direct-trust"), (1, "check-trust-anchor-CA")):
      for nta, kl, tier in ((1, 2, "quick"), (2, 2, "thorough"), (2, 3, "thorough")) if m == 0 else ((1, 3, "quick"), (2, 3, "quick")):
        qs.append(Q("t0-x509min-%s-dynamic-TA%d-K%d" % (nm, nta, kl), "C04_t0_trust.c", units=[], defs=["-DMODE=%d" % m, "-DNTA=%d" % nta, "-DKL=%d" % kl] + inc, unwind=2 * kl + 2, timeout=300, tier=tier,
                    desc="native %s of src/x509/x509_minimal.c: dynamic trust-anchor lookup (callback returning the table's anchor for the same hashed DN) gives the same verdict as the static table (<= 2 anchors, RSA/EC keys, distinct DN hashes); lookup arguments; free callback once per returned anchor" % nm))
    return qs
