import os, glob
from verif import Q, REPO

META = {
 "level_text": "Bounded symbolic model checking (CBMC) of two of the C mechanisms the property rests on once keys exist. Partial: (a) key-block direction symmetry of the real br_ssl_engine_switch_{cbc,gcm,ccm,chapol}_{in,out}/compute_key_block for every listed configuration against the RFC 5246 6.3 layout, with all key-block bytes symbolic; (b) record encrypt -> check_length -> decrypt round trip of the four real record protections (incl. the TLS 1.0 1/n-1 split) over toy primitives, payload bytes/keys/sequence number/version symbolic, payload length concrete per query. Outside: handshake completion, parameter agreement through the T0 handshake, all 45 suites with real ciphers, OpenSSL interoperability, transport chunking of whole flights, engine data-path conservation (C06).",
 "level_note": "Trusted: CBMC; contract stubs at the PRF seam and recording stubs at the record-init seams (C01.a); toy block/CTR/CTR+CBC-MAC/GHASH/ChaCha20/Poly1305 stand-ins and the toy MAC at the br_hmac_* link seam (C01.b); public sizes (version, MAC, key length, payload length, buffer size) concrete per query and enumerated by the driver.",
 "technique": "bounded symbolic model checking (CBMC/SAT) of real C units: recorded-argument comparison against the RFC key-block layout; round-trip law plus RFC record format for the record layers",
 "assumptions": [
  "C01.a: cc->prf10/prf_sha256/prf_sha384 are contract stubs (CHECK label == \"key expansion\", secret == master secret, seed == server_random||client_random; output = one global symbolic key block, the same for both endpoints); the record init seams cc->i{cbc,gcm,ccm,chapol}_{in,out}->init are recording stubs",
  "C01.a: version, MAC algorithm and CBC block size concrete per query; cipher key length {16,24,32} and CCM tag length {8,16} enumerated concretely inside one run; prf_id in {0, sha256, sha384} symbolic; GCM/CCM/ChaCha20 suites at TLS 1.2 in the quick tier (TLS 1.0/1.1 in the thorough tier)",
  "C01.b: block cipher = toy CBC classes of stubs_rec.h (x -> x^K with real chaining); HMAC = toy MAC bound at the link-time seam br_hmac_*; CTR / CTR+CBC-MAC classes, GHASH, ChaCha20, Poly1305 = toy functions of C01_stubs.h honouring the contracts of bearssl_block.h / bearssl_hash.h (CTR run returns the updated counter; ctrcbc encrypt = CTR then MAC of output, decrypt = MAC of input then CTR); real src/aead/ccm.c on top of the toy CTR+CBC-MAC class",
  "C01.b: payload length, buffer size, MAC length, block size, tag length concrete per query; TLS 1.0 CBC queries with more than one payload byte use a concrete record type (23 application data: split; 22 handshake: no split) because the split decision is a branch on it; everywhere else the record type is symbolic",
  "C01.b: the record-layer static functions are called directly (not through the br_sslrec_* vtables, whose casted function pointers CBMC does not constant-fold); the vtables' entries are exactly these functions",
 ],
 "outside_claim": ["handshake completion and agreement on version/suite/session id/key export (T0 handshake)", "all 45 suites with the real ciphers and MACs", "interoperability with OpenSSL", "transport splitting/coalescing of whole flights, orderly close (C06/C07/C19)", "payloads longer than 70 bytes through the real encrypt (C16 proves the buffer arithmetic for all sizes)"],
 "mutants_tried": [
  "switch_cbc_out, client branch: MAC-key and cipher-key offsets swapped: caught (kb-cbc-tls10-sha1-B16: MAC keys precede cipher keys / writer's key == reader's key / RFC slice)",
  "switch_gcm_in: is_client inverted: caught (kb-gcm-tls12: directions overlap, writer's key != reader's key)",
  "switch_cbc_in: iv_len taken for TLS 1.1 (version test >= TLS12): caught (kb-cbc-tls11-sha1-B16: IV must be NULL, key block length)",
  "cbc_encrypt: no padding when MAC+payload is block aligned: caught (rt-cbc-expl-sha1-b16-P12: length field, decrypt rejects)",
  "cbc_encrypt: header length field without the explicit IV: caught (rt-cbc-expl-sha1-b16-P2/P20: length field, check_length)",
  "cbc_encrypt: 1/n-1 split applied to every record type: caught (rt-cbc-impl-hs-sha1-b16-P2/P20: single record expected, seq advance)",
  "gcm_encrypt: explicit nonce corrupted after tagging: caught (rt-gcm-P2/P20: decrypt rejects)",
  "ccm_encrypt: header length assumes a 16-byte tag: caught (rt-ccm8-P2/P20: length field)",
  "gcm_max_plaintext reserving 8 instead of 16 bytes for the tag (C16 mutant): caught (rt-gcm-full-B64: encrypt leaves the buffer)",
 ],
}

MODES = {"cbc": 0, "gcm": 1, "ccm": 2, "chapol": 3}
KB_UNITS = ["src/ssl/ssl_engine.c", "src/hash/md5.c", "src/hash/sha1.c", "src/hash/sha2small.c", "src/hash/sha2big.c"]
VERS = {"tls10": "0x0301", "tls11": "0x0302", "tls12": "0x0303"}


def native_all(exclude):
    """every src/**/*.c of the tree except `exclude` (native replay needs a fully linked program)"""
    out = []
    for f in sorted(glob.glob(os.path.join(REPO, "src", "**", "*.c"), recursive=True)):
        rel = os.path.relpath(f, REPO)
        if rel not in exclude:
            out.append(rel)
    return out


def kb(name, mode, ver, defs=(), tier="quick", what=""):
    return Q(name, "C01_keyblock.c", units=KB_UNITS,
             defs=["-DMODE=%d" % MODES[mode], "-DVERSION=" + VERS[ver]] + list(defs),
             unwind=194, fsarray=4, tier=tier, timeout=900 if tier == "thorough" else 300,
             native_units=native_all(()),
             desc="C01.a %s: client-out == server-in and server-out == client-in (key, MAC key, IV bytes/lengths/classes), RFC 5246 6.3 offsets, disjoint directions, PRF selection and input; %s; key block (<=192 bytes), master secret, randoms symbolic" % (mode, what))


def rt(name, mode, plen=None, buf=None, defs=(), tier="quick", units=(), what=""):
    d = ["-DMODE=%d" % MODES[mode]] + list(defs)
    if plen is None:
        d += ["-DFULL=1", "-DBUF=%d" % buf]
        bound = buf
        size = "payload = everything max_plaintext offers in a %d-byte buffer" % buf
    else:
        d += ["-DPLEN=%d" % plen]
        bound = plen + 160
        size = "payload length %d, buffer %d" % (plen, bound)
    return Q(name, "C01_roundtrip.c", units=list(units), defs=d, unwind=max(bound + 8, 70), tier=tier, backend="cadical",
             timeout=900 if tier == "thorough" else 300,
             desc="C01.b %s: max_plaintext -> encrypt -> (header format, output inside buffer) -> check_length -> decrypt returns exactly the payload, seq counters advance equally; %s; payload bytes, keys, IV, seq, version%s symbolic"
                  % (what or mode, size, "" if any(x.startswith("-DRTYPE") for x in defs) else ", record type"))


def queries():
    qs = []
    # ---- C01.a ----
    for mac, mid in (("md5", 1), ("sha1", 2), ("sha256", 4), ("sha384", 5)):
        for ver, blks in (("tls10", (8, 16)), ("tls11", (16,)), ("tls12", (16,))):
            for blk in blks:
                qs.append(kb("kb-cbc-%s-%s-B%d" % (ver, mac, blk), "cbc", ver, ["-DMACID=%d" % mid, "-DBLK=%d" % blk],
                             what="%s, HMAC/%s, block %d, key length 16/24/32" % (ver, mac, blk)))
    for nm, mode, defs, what in (("gcm", "gcm", [], "key length 16/24/32"), ("ccm16", "ccm", ["-DTAGLEN=16"], "key length 16/24/32, tag 16"),
                                 ("ccm8", "ccm", ["-DTAGLEN=8"], "key length 16/24/32, tag 8"), ("chapol", "chapol", [], "")):
        qs.append(kb("kb-%s-tls12" % nm, mode, "tls12", defs, what="tls12 " + what))
        for ver in ("tls10", "tls11"):
            qs.append(kb("kb-%s-%s" % (nm, ver), mode, ver, defs, tier="thorough", what=ver + " " + what))
    for mac, mid in (("sha1", 2), ("sha384", 5)):
        qs.append(kb("kb-cbc-tls11-%s-B8" % mac, "cbc", "tls11", ["-DMACID=%d" % mid, "-DBLK=8"], tier="thorough",
                     what="tls11, HMAC/%s, block 8, key length 16/24/32" % mac))
    # ---- C01.b ----
    ccm = ["src/aead/ccm.c"]
    flav = [
        ("cbc-expl-sha1-b16", "cbc", ["-DEXPL=1", "-DML=20", "-DTOY_BLK=16"], (), "CBC explicit IV (TLS 1.1+), MAC 20, block 16"),
        ("gcm", "gcm", [], (), "GCM"),
        ("ccm", "ccm", ["-DTAGLEN=16"], ccm, "CCM (tag 16, real ccm.c)"),
        ("ccm8", "ccm", ["-DTAGLEN=8"], ccm, "CCM_8 (tag 8, real ccm.c)"),
        ("chapol", "chapol", [], (), "ChaCha20+Poly1305"),
    ]
    for pl in (0, 1, 2, 15, 16, 17, 20, 32, 70):
        tier = "quick" if pl <= 20 else "thorough"
        for (nm, mode, defs, units, what) in flav:
            qs.append(rt("rt-%s-P%d" % (nm, pl), mode, pl, defs=defs, units=units, tier=tier, what=what))
        # TLS 1.0 CBC: implicit IV; 1/n-1 split for application data of more than one byte
        impl = ["-DEXPL=0", "-DML=20", "-DTOY_BLK=16"]
        if pl <= 1:
            qs.append(rt("rt-cbc-impl-sha1-b16-P%d" % pl, "cbc", pl, defs=impl, tier=tier, what="CBC implicit IV (TLS 1.0), MAC 20, block 16"))
        else:
            qs.append(rt("rt-cbc-impl-split-sha1-b16-P%d" % pl, "cbc", pl, defs=impl + ["-DRTYPE=23"], tier=tier,
                         what="CBC implicit IV (TLS 1.0) application data: 1/n-1 split, MAC 20, block 16"))
            qs.append(rt("rt-cbc-impl-hs-sha1-b16-P%d" % pl, "cbc", pl, defs=impl + ["-DRTYPE=22"], tier=tier,
                         what="CBC implicit IV (TLS 1.0) handshake record: no split, MAC 20, block 16"))
    # MAC + payload block aligned (12 + 20 = 32): a full block of padding
    qs.append(rt("rt-cbc-expl-sha1-b16-P12", "cbc", 12, defs=["-DEXPL=1", "-DML=20", "-DTOY_BLK=16"], what="CBC explicit IV (TLS 1.1+), MAC 20, block 16, block-aligned"))
    qs.append(rt("rt-cbc-impl-hs-sha1-b16-P12", "cbc", 12, defs=["-DEXPL=0", "-DML=20", "-DTOY_BLK=16", "-DRTYPE=22"], what="CBC implicit IV (TLS 1.0) handshake record, MAC 20, block 16, block-aligned"))
    qs.append(rt("rt-cbc-impl-split-sha1-b16-P13", "cbc", 13, defs=["-DEXPL=0", "-DML=20", "-DTOY_BLK=16", "-DRTYPE=23"], what="CBC implicit IV (TLS 1.0) 1/n-1 split, second fragment block-aligned, MAC 20, block 16"))
    # other MAC lengths / block sizes
    for (nm, defs, what) in (("cbc-expl-sha256-b16", ["-DEXPL=1", "-DML=32", "-DTOY_BLK=16"], "CBC explicit IV, MAC 32, block 16"),
                             ("cbc-expl-sha1-b8", ["-DEXPL=1", "-DML=20", "-DTOY_BLK=8"], "CBC explicit IV, MAC 20, block 8 (3DES)"),
                             ("cbc-impl-split-md5-b8", ["-DEXPL=0", "-DML=16", "-DTOY_BLK=8", "-DRTYPE=23"], "CBC implicit IV split, MAC 16, block 8"),
                             ("cbc-impl-split-sha1-b8", ["-DEXPL=0", "-DML=20", "-DTOY_BLK=8", "-DRTYPE=23"], "CBC implicit IV split, MAC 20, block 8")):
        for pl in (11, 12):
            qs.append(rt("rt-%s-P%d" % (nm, pl), "cbc", pl, defs=defs, what=what))
    for pl in (11, 12):
        qs.append(rt("rt-cbc-expl-sha384-b16-P%d" % pl, "cbc", pl, defs=["-DEXPL=1", "-DML=48", "-DTOY_BLK=16"], tier="thorough",
                     what="CBC explicit IV, MAC 48, block 16"))
    # 48-byte MAC with the MAC starting >= 32 bytes into the receiver's rotation window (all six conditional
    # rotations of cbc_decrypt are needed); added by the main session after the seeded change C01b escaped
    for pl in (33, 40, 47):
        qs.append(rt("rt-cbc-expl-sha384-b16-P%d" % pl, "cbc", pl, defs=["-DEXPL=1", "-DML=48", "-DTOY_BLK=16"],
                     what="CBC explicit IV, MAC 48, block 16, MAC rotation count >= 32"))
    qs.append(rt("rt-cbc-impl-hs-sha384-b16-P40", "cbc", 40, defs=["-DEXPL=0", "-DML=48", "-DTOY_BLK=16", "-DRTYPE=22"],
                 what="CBC implicit IV, MAC 48, block 16, MAC rotation count >= 32"))
    # payload = the whole area max_plaintext offers in a small concrete buffer (C16.b cross-check)
    for (nm, mode, defs, units, what, buf, tier) in (
            ("cbc-expl-sha1-b16", "cbc", ["-DEXPL=1", "-DML=20", "-DTOY_BLK=16"], (), "CBC explicit IV, MAC 20, block 16", 80, "quick"),
            ("cbc-expl-sha384-b16", "cbc", ["-DEXPL=1", "-DML=48", "-DTOY_BLK=16"], (), "CBC explicit IV, MAC 48, block 16", 112, "thorough"),
            ("cbc-impl-split-sha1-b16", "cbc", ["-DEXPL=0", "-DML=20", "-DTOY_BLK=16", "-DRTYPE=23"], (), "CBC implicit IV split, MAC 20, block 16", 96, "quick"),
            ("cbc-impl-split-sha1-b16", "cbc", ["-DEXPL=0", "-DML=20", "-DTOY_BLK=16", "-DRTYPE=23"], (), "CBC implicit IV split, MAC 20, block 16", 112, "thorough"),
            ("cbc-impl-split-sha1-b8", "cbc", ["-DEXPL=0", "-DML=20", "-DTOY_BLK=8", "-DRTYPE=23"], (), "CBC implicit IV split, MAC 20, block 8", 88, "quick"),
            ("gcm", "gcm", [], (), "GCM", 64, "quick"), ("ccm", "ccm", ["-DTAGLEN=16"], ccm, "CCM", 64, "quick"),
            ("ccm8", "ccm", ["-DTAGLEN=8"], ccm, "CCM_8", 56, "quick"), ("chapol", "chapol", [], (), "ChaCha20+Poly1305", 56, "quick")):
        qs.append(rt("rt-%s-full-B%d" % (nm, buf), mode, None, buf, defs=defs, units=units, what=what, tier=tier))
    return qs


# ---- cross-included by the main session: the client's RSA key-exchange message (premaster with the client's maximum
# version, master secret from the same bytes) is the C-level mechanism on which "both sides derive the same session"
# rests for TLS_RSA suites (anchor src/ssl/ssl_hs_client.c); decided by the C03 query family client-make_pms_rsa.
_c01_queries = queries
def queries():
    import C03
    return _c01_queries() + [q for q in C03.queries() if q.name.startswith("client-make_pms_rsa") and q.tier == "quick"]


# ---- cross-included by the main session: both sides derive the same Finished only if each side's transcript hash
# receives exactly the handshake bytes that crossed the wire (anchor src/ssl/ssl_hs_server.c / ssl_hs_client.c byte I/O
# natives); decided by the C07 query family t0-hsio-* (no progress => no hashing; progress => hashed once, in order).
_c01_queries2 = queries
def queries():
    qs = _c01_queries2()
    try:
        import C07_t0_part
        qs = qs + C07_t0_part.hsio_queries()
    except Exception:
        pass
    return qs


# ---- cross-included by the main session: "every byte written by one application is read by the other ... until an orderly
# close" also rests on the engine's record-sent / close steps (anchor src/ssl/ssl_engine.c): the handshake processor is
# resumed after a completed record whenever application data is not flowing (application_data 0 or 2), so that a pending
# close_notify is written (seeded change C01f).  Decided by the C06 steps sendrec_ack, close and flush.
_c01_queries3 = queries
def queries():
    qs = _c01_queries3()
    try:
        import C06
        qs = qs + [q for q in C06.queries() if q.tier == "quick" and any(q.name.startswith("step-" + k) for k in ("sendrec_ack", "close-", "flush"))]
    except Exception:
        pass
    return qs
