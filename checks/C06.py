from verif import Q

OPS = {1: "recvrec_ack", 2: "sendrec_ack", 3: "recvapp_ack", 4: "sendapp_ack", 5: "flush", 6: "close", 7: "renegotiate", 8: "closed-any", 9: "base-set_buffer", 10: "new_max_frag_len"}

META = {
 "level_text": "Bounded symbolic model checking (CBMC) of one inductive step of the real ssl_engine.c: from EVERY engine state satisfying an explicit invariant (all ix*/ox* registers, mode, flags, record types symbolic), each public API call with every admissible acknowledge size re-establishes the invariant and satisfies the coherence conditions of the property (flag exclusivity, regions inside the caller's buffers iff flag set, closed permanent with first error, byte conservation of partial acks). One step from an arbitrary invariant state covers call histories of any length, provided the handshake coroutine and record layers honour the stated contracts.",
 "level_note": "Trusted: CBMC; the invariant is checked to be established by br_ssl_engine_set_buffer (base query); the T0 handshake coroutine and the record layers are contract stubs (assumptions); buffer lengths concrete per query.",
 "technique": "bounded symbolic model checking (CBMC/SAT): inductive invariant step of the real engine code from an arbitrary symbolic state",
 "assumptions": [
  "cc->hsrun = contract stub of the T0 handshake coroutine: consumes 0..hlen_in bytes, may write 0..hlen_out bytes and then always calls br_ssl_engine_flush_record (never leaves an unfinished record), sets record_type_out only on an empty output buffer, switches input encryption only when no more incoming bytes are pending (ssl_hs_common.t0 read-CCS-Finished), may set application_data to 0/1/2, shutdown_recv, or fail with any code; it never touches ix*/ox* directly",
  "cc->in.vtable = contract stub: check_length is an interval test; decrypt returns NULL or a sub-region of the record body",
  "cc->out.vtable = contract stub: max_plaintext shrinks the region by fixed head/tail overheads (5+head+tail <= 85); encrypt returns a record within [data-5-head, data+len+tail)",
  "buffer lengths concrete per query (minimum sizes and one larger layout); one API call per query",
  "contract of the real T0 programs used by the renegotiate / recvrec_ack steps: do-handshake (ssl_hs_client.t0:1158-1164, ssl_hs_server.t0:1382-1384) sets application_data = 0 and record_type_out = 22 without flush-record when it is entered for an explicit renegotiation (action 2 with application_data == 1) or an incoming handshake message; the stub therefore records 'handshake started over pending application payload' and the step requires that it never happens (the T0 sources cannot be regenerated in this sandbox, so the guarantee is demanded of the engine; /repo fix f3374ce)",
  "the stub requires !br_ssl_engine_has_pld_to_send right after the real br_ssl_engine_flush_record (flush-record contract used by do-close, send-HelloRequest and the no_renegotiation warning)",
 ],
 "outside_claim": ["reachability of specific phases with the real T0 coroutine", "liveness while the engine waits for the handshake coroutine", "multi-call interleavings beyond what the inductive argument gives"],
}

def queries():
    qs = []
    qs.append(Q("step-base-set_buffer-bidi1500", "C06_step.c", units=["src/ssl/ssl_engine.c"], defs=["-DOP=9", "-DSHARED=1", "-DILEN=1500", "-DBASE_BIDI=1"], unwind=8, timeout=900,
                desc="br_ssl_engine_set_buffer with any length <= 1500, bidi or not, establishes the invariant or fails with BAD_PARAM; split geometry"))
    layouts = [("shared837", ["-DSHARED=1", "-DILEN=837"], "quick"),
               ("split837+597", ["-DSHARED=0", "-DILEN=837", "-DOLEN=597"], "quick"),
               ("shared1400", ["-DSHARED=1", "-DILEN=1400"], "thorough"),
               ("split1349+1109", ["-DSHARED=0", "-DILEN=1349", "-DOLEN=1109"], "thorough")]
    for (ln, ld, tier) in layouts:
        for op, name in OPS.items():
            if op == 9 and ln.startswith("split"):
                continue
            qs.append(Q("step-%s-%s" % (name, ln), "C06_step.c", units=["src/ssl/ssl_engine.c"],
                        defs=["-DOP=%d" % op] + ld, unwind=8, tier=tier, timeout=900,
                        desc="one %s step of ssl_engine.c from any invariant state, layout %s" % (name, ln)))
    return qs
