"""eqOID native of the four decoders (main session; reuses encoders/t0tool.py like the *_t0_part files)."""
import os, sys
from verif import Q
sys.path.insert(0, os.path.join(os.path.dirname(os.path.dirname(os.path.abspath(__file__))), "encoders"))
import t0tool
ROOT = os.path.dirname(os.path.dirname(os.path.abspath(__file__)))

def queries():
    qs = []
    for key in ("skey", "pkey", "x509dec", "x509min"):
        prog = t0tool.load(key)
        if not any(n.name == "eqOID" for n in prog.natives.values()):
            continue
        gd = t0tool.gen_dir(prog)
        qs.append(Q("t0-eqOID-%s" % key, "C18_t0_eqoid.c", units=[], defs=["-DC05_KEY_%s=1" % key, "-I" + gd, "-I" + os.path.join(ROOT, "encoders")],
                    unwind=16, timeout=200,
                    desc="native `eqOID` of %s: true exactly when length and all value bytes equal; symbolic pad, symbolic data-block offset" % t0tool.PROGRAMS[key]))
    return qs
