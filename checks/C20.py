from verif import Q

META = {
 "level_text": "Bounded symbolic model checking (CBMC) of the real seed gate (br_ssl_engine_init_rand / br_ssl_engine_inject_entropy / br_ssl_client_reset / br_ssl_server_reset over the unmodified ssl_engine.c) and of the real record init/encrypt/decrypt functions of all four protection modes, both directions. Gate: for every combination of {system seeder absent, failing, succeeding} x {entropy injected or not before each of two resets} x {hash functions configured} the reset refuses with BR_ERR_NO_RANDOM, without ever entering the handshake coroutine and with no output pending, exactly when nothing seeded the DRBG; the OS seeder is tried at most once. Counters: init sets seq=0, one record advances seq by exactly one (two for the TLS 1.0 1/n-1 split) from any symbolic seq < 2^64-2, and the nonce / AAD / MAC-input bytes handed to the primitives are the RFC functions of seq, hence injective in seq (proved on two symbolic sequence numbers). Partial: per-record step claims; the induction over a whole session is the obvious one (seq only changes in these functions) but is not itself encoded; randoms/session IDs/ephemeral keys across connections and reproducibility are outside.",
 "level_note": "Trusted: CBMC; contract/recording stubs at BearSSL's own seams (listed in assumptions); plaintext/record lengths, MAC length, block size and (for TLS 1.0 CBC with more than one byte) the record type are concrete per query.",
 "technique": "bounded symbolic model checking (CBMC/SAT): real gate and record functions driven from symbolic states; recording stubs at the primitive seams; injectivity shown as a 2-safety property over two symbolic sequence numbers",
 "assumptions": [
  "br_prng_seeder_system replaced at the link seam by a contract stub: returns 0, or a seeder returning 0, or a seeder that calls the PRNG's update method with 32 bytes and returns 1 (symbolic choice); the real sysrng.c back ends (getentropy, /dev/urandom, RDRAND, ESP8266 hardware RNG) are not modelled",
  "br_hmac_drbg_init/update/generate are recording stubs (the DRBG itself is C13's subject)",
  "handshake coroutine entry points br_ssl_hs_{client,server}_{init_main,run} are recording stubs; the run stub writes one handshake byte and flushes when offered output room, so an entered coroutine shows up as pending output",
  "gate pre-state: a context object whose fields are unconstrained except rng_init_done = rng_os_rand_done = 0 and an empty hash table (superset of the zeroed context), then set_hash for any subset of sha256/sha384/sha1 and br_ssl_engine_set_buffer with a 1600-byte buffer (bidi or not)",
  "AEAD primitives behind br_block_ctr_class / br_block_ctrcbc_class / br_ghash / br_chacha20_run / br_poly1305_run are the recording toys of harness/C02_aead_stubs.h; src/aead/ccm.c is the real file",
  "CBC: br_hmac_* bound at the link seam to a recording toy MAC, CBC classes are the toys of stubs_rec.h (encryption side recording); distinct explicit IVs then rest on distinct HMAC inputs plus the PRF idealisation of HMAC",
  "sequence numbers below 2^64-2 (TLS forbids wrap-around; BearSSL does not test for it)",
 ],
 "outside_claim": [
  "distinctness of hello randoms, session IDs, ephemeral EC keys, RSA premaster secrets and padding across connections with different seeds (statistical property of the real HMAC_DRBG)",
  "reproducibility of a whole exchange under equal seeds and equal inputs",
  "quality/availability of the real system seeders in src/rand/sysrng.c",
  "key changes: that the engine installs a freshly initialised record context (seq=0) at ChangeCipherSpec is C06/C19's engine step, only the init functions are covered here",
  "sessions of 10^4 records as a whole (reduced to the per-record step)",
 ],
 "mutants_tried": [
  "caught: br_ssl_engine_inject_entropy leaves rng_init_done at 1 (injected entropy ignored by the gate) -> gate-client/gate-server 'seeded: reset returns 1'",
  "caught: br_ssl_engine_init_rand accepts rng_init_done >= 1 (structure set up but never seeded) -> 'unseeded: reset returns 0'",
  "caught: br_ssl_client_reset / br_ssl_server_reset ignore the result of init_rand and go on (error only recorded) -> 'unseeded: the handshake coroutine is never entered'",
  "caught: rng_os_rand_done never set (OS seeder retried at every reset) -> 'system seeder is queried and run at most once per context'",
  "caught: return value of the system seeder ignored (failing seeder counts as seeded) -> 'unseeded: reset returns 0'",
  "caught: BR_ERR_BAD_STATE reported instead of BR_ERR_NO_RANDOM -> 'unseeded: last error is BR_ERR_NO_RANDOM'",
  "caught: gcm_decrypt increments seq a second time / takes the increment back on the reject path -> seq-gcm-in 'advances the sequence number by exactly one'",
  "caught: cbc_decrypt takes the increment back on the reject path -> seq-cbc-in",
  "caught: chapol nonce XORs only the low 4 bytes of seq -> seq-chapol-{in,out} 'equal nonces imply equal sequence numbers' (and C02 aead-chapol)",
  "caught: gcm_encrypt explicit nonce = seq|1 -> seq-gcm-out 'equal nonces imply equal sequence numbers'",
  "caught: ccm_encrypt nonce uses only the low 32 bits of seq -> seq-ccm-out",
  "caught: gen_ccm_init sets seq = 1 -> 'init sets the sequence number to 0'",
  "caught: CBC explicit-IV HMAC over the low 4 bytes of seq only -> seq-cbc-out-expl 'explicit IV = HMAC over exactly be64(seq)'",
  "caught: cbc_encrypt MAC header uses (uint32_t)seq -> seq-cbc-out 'equal MAC input headers imply equal sequence numbers'",
  "caught: TLS 1.0 split threshold len > 2 instead of len > 1 -> seq-cbc-out-impl-P2-ML20-B8-T23",
 ],
}

ENGINE = ["src/ssl/ssl_engine.c", "src/ssl/ssl_client.c", "src/ssl/ssl_server.c"]

def queries():
    qs = []
    for role, nm in ((0, "client"), (1, "server")):
        qs.append(Q("gate-" + nm, "C20_gate.c", units=ENGINE, defs=["-DROLE=%d" % role], unwind=20,
                    desc="br_ssl_%s_reset refuses with BR_ERR_NO_RANDOM, coroutine never entered, no output <=> no entropy injected and system seeder absent/failing; two rounds of [inject?; reset]; OS seeder tried at most once" % nm))
    # ---- C20.b AEAD record contexts: seq counters, nonce/AAD injectivity ----
    modes = [(1, "gcm", [], []), (2, "ccm", ["-DTAGLEN=16"], ["src/aead/ccm.c"]),
             (2, "ccm8", ["-DTAGLEN=8"], ["src/aead/ccm.c"]), (3, "chapol", [], [])]
    for (m, nm, defs, units) in modes:
        for d, dn in ((0, "in"), (1, "out")):
            for pl, tier in ((0, "quick"), (17, "quick"), (48, "thorough")):
                qs.append(Q("seq-%s-%s-P%d" % (nm, dn, pl), "C20_seq_aead.c", units=units,
                            defs=["-DMODE=%d" % m, "-DDIR=%d" % d, "-DPLEN=%d" % pl] + defs, unwind=pl + 70,
                            tier=tier, timeout=900 if tier == "thorough" else 240, backend="cadical",
                            desc="%s %s: init seq=0; one %s => seq+1 for any seq<2^64-2; AAD = seq||type||ver||len and %s injective in seq (two symbolic seq); %d-byte plaintext, all contents symbolic"
                                 % (nm, dn, "encrypt" if d else "decrypt (accept or reject)",
                                    "nonce = RFC function of IV and seq," if (d or m == 3) else "nonce = salt||explicit; AAD", pl)))
    # ---- C20.b CBC record contexts ----
    # out: (EXPL, PLEN, ML, BLK, TYPE or None (symbolic), tier)
    # implicit IV with more than one byte: the record type is concrete per query (20..23, the types
    # BearSSL emits) so that the split and no-split paths do not merge; symbolic type in the thorough tier.
    for (ex, pl, ml, blk, ty, tier) in [(1, 0, 20, 16, None, "quick"), (1, 5, 20, 16, None, "quick"), (1, 17, 32, 16, None, "quick"), (1, 5, 20, 8, None, "quick"),
                                        (0, 0, 20, 16, None, "quick"), (0, 1, 20, 16, None, "quick"),
                                        (0, 5, 20, 16, 23, "quick"), (0, 5, 20, 16, 22, "quick"), (0, 5, 20, 16, 21, "quick"), (0, 5, 20, 16, 20, "quick"),
                                        (0, 2, 20, 8, 23, "quick"), (0, 17, 32, 16, 23, "quick"), (0, 17, 32, 16, 22, "quick"),
                                        (0, 5, 20, 16, None, "thorough"), (1, 64, 20, 16, None, "thorough"), (0, 64, 48, 16, 23, "thorough")]:
        qs.append(Q("seq-cbc-out-%s-P%d-ML%d-B%d%s" % ("expl" if ex else "impl", pl, ml, blk, "" if ty is None else "-T%d" % ty), "C20_seq_cbc.c",
                    defs=["-DDIR=1", "-DEXPL=%d" % ex, "-DPLEN=%d" % pl, "-DML=%d" % ml, "-DTOY_BLK=%d" % blk] + ([] if ty is None else ["-DTYPE=%d" % ty]),
                    unwind=pl + 2 * ml + 120, tier=tier, timeout=900 if tier == "thorough" else 240,
                    desc="cbc out (%s, record type %s): init seq=0; encrypt => seq+1 (TLS 1.0 application data of >1 byte split 1/n-1: +2, MACs use seq and seq+1); %s MAC input header = seq||type||ver||len, injective in seq (two symbolic seq); %d-byte plaintext, mac_len %d, block %d"
                         % ("explicit IV, TLS 1.1+" if ex else "implicit IV, TLS 1.0", "symbolic" if ty is None else str(ty),
                            "explicit IV block = HMAC-stub output over exactly be64(seq);" if ex else "", pl, ml, blk)))
    # in: (EXPL, RL, ML, BLK, tier)
    for (ex, rl, ml, blk, tier) in [(1, 48, 20, 16, "quick"), (0, 32, 16, 16, "quick"), (1, 40, 20, 8, "quick"), (1, 64, 32, 16, "thorough")]:
        qs.append(Q("seq-cbc-in-%s-RL%d-ML%d-B%d" % ("expl" if ex else "impl", rl, ml, blk), "C20_seq_cbc.c",
                    defs=["-DDIR=0", "-DEXPL=%d" % ex, "-DRL=%d" % rl, "-DML=%d" % ml, "-DTOY_BLK=%d" % blk], unwind=rl + 70,
                    tier=tier, timeout=900 if tier == "thorough" else 240,
                    desc="cbc in: init seq=0; decrypt (accept or reject) => seq+1; one MAC computation whose input starts with seq||type||ver, injective in seq (two symbolic seq); every %d-byte record body symbolic, mac_len %d, block %d" % (rl, ml, blk)))
    return qs
