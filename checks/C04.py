from verif import Q
try:
    import C04_t0_part as _t0
except Exception as _e:   # the T0-native part needs encoders/t0tool.py
    _t0 = None
    _t0_err = repr(_e)

META = {
 "level_text": "Bounded symbolic model checking (CBMC). Currently: the C verdict plumbing of the minimal validator (start_cert/append/end_cert/end_chain/get_pkey from any context state) and, by cross-reference, the DER unit decoders used by signature verification (PKCS#1 v1.5 unpadding in C10, ECDSA ASN.1 conversion in C11). Partial: the certificate rules themselves are T0 bytecode (x509_minimal.t0); their natives are being added through the T0 native extractor (encoders/t0tool.py).",
 "level_note": "Trusted: CBMC. The T0 decoder invoked by append with err == 0 is not part of these queries.",
 "technique": "bounded symbolic model checking (CBMC/SAT) of real C units from an arbitrary symbolic context",
 "assumptions": ["xm_append with err == 0 runs the T0 interpreter: excluded here", "DN hash = stub hash class with 8-byte output (only desc is read); RSA/ECDSA verifiers behind ctx->irsa / ctx->iecdsa are contract stubs", "keys of toy size (RSA n <= 3 bytes, EC q <= 5 bytes)"],
 "outside_claim": ["full-chain equivalence with an independent validator", "real signature algebra", "T0-level rule sequencing (names chaining, BasicConstraints, KeyUsage, pathLen, validity dates) except the natives listed in the evidence"],
}

def _base_queries():
    qs = [Q("eqnocase-L3", "C04_trust.c", defs=["-DPART=1", "-DNL=3"], unwind=70, timeout=300, desc="eqnocase: every pair of 3-byte strings (all byte values)"),
          Q("eqnocase-L1", "C04_trust.c", defs=["-DPART=1", "-DNL=1"], unwind=70, timeout=300, desc="eqnocase: every pair of bytes"),
          Q("eqbigint", "C04_trust.c", defs=["-DPART=2"], unwind=70, timeout=300, desc="eqbigint: all operands up to 4 bytes with any leading zeros"),
          Q("direct-trust", "C04_trust.c", defs=["-DPART=3"], unwind=70, timeout=300, desc="check_single_direct_trust vs reference rule, symbolic anchor flags / key types / keys (RSA n<=3 bytes, EC q<=5 bytes) / hashed names"),
          Q("ca-anchor", "C04_trust.c", defs=["-DPART=4"], unwind=70, timeout=300, desc="check_single_trust_anchor_CA + verify_signature vs reference rule, verifier seams stubbed")]
    return qs + [Q("xm-plumbing", "C04_plumb.c", unwind=65, timeout=300,
              desc="xm_start_cert/append/end_cert/end_chain/get_pkey from any (err, num_certs, cert_length) state")]


def queries():
    qs = _base_queries()
    if _t0 is not None:
        qs = qs + _t0.queries()
    return qs

if _t0 is not None:
    META["assumptions"] = list(META.get("assumptions", [])) + list(getattr(_t0, "ASSUMPTIONS", []))
    META["mutants_tried"] = list(META.get("mutants_tried", [])) + list(getattr(_t0, "MUTANTS", []))


# ---- cross-included by the main session (C04.b): "each certificate is signed by the next one's key" rests on the
# signature verifiers and DER unit decoders named in the property's anchors (ecdsa_i15_vrfy_raw.c, ecdsa_atr.c,
# rsa_pkcs1_sig_unpad.c); they are decided by the C11 / C10 query families below.  A seeded change there (C04c: the raw
# verifier insisting on full-length halves while asn1_to_raw strips leading zeros) must fail C04 as well.
_c04_queries = queries
def queries():
    import C10, C11
    extra = [q for q in C11.queries() if q.tier == "quick" and (q.name.startswith("vrfy-i15-") or q.name.startswith("vrfy-i31-") or q.name.startswith("atr-L") or q.name.startswith("rtt-L"))]
    extra += [q for q in C10.queries() if q.tier == "quick" and q.name.startswith("p1unpad-")]
    return _c04_queries() + extra


# ---- eqOID native of the decoders (curve / algorithm identification), added after the seeded change C18c escaped
_c04_q2 = queries
def queries():
    qs = _c04_q2()
    try:
        import C18_eqoid_part
        qs = qs + [q for q in C18_eqoid_part.queries() if q.name.endswith("x509min")]
    except Exception:
        pass
    return qs
