from verif import Q

META = {
 "level_text": "Bounded symbolic model checking (CBMC). Currently: the C verdict plumbing of the minimal validator (start_cert/append/end_cert/end_chain/get_pkey from any context state) and, by cross-reference, the DER unit decoders used by signature verification (PKCS#1 v1.5 unpadding in C10, ECDSA ASN.1 conversion in C11). Partial: the certificate rules themselves are T0 bytecode (x509_minimal.t0); their natives are being added through the T0 native extractor (encoders/t0tool.py).",
 "level_note": "Trusted: CBMC. The T0 decoder invoked by append with err == 0 is not part of these queries.",
 "technique": "bounded symbolic model checking (CBMC/SAT) of real C units from an arbitrary symbolic context",
 "assumptions": ["xm_append with err == 0 runs the T0 interpreter: excluded here"],
 "outside_claim": ["full-chain equivalence with an independent validator", "real signature algebra", "T0-level rule sequencing (names chaining, BasicConstraints, KeyUsage, pathLen, validity dates) except the natives listed in the evidence"],
}

def queries():
    return [Q("xm-plumbing", "C04_plumb.c", unwind=65, timeout=300,
              desc="xm_start_cert/append/end_cert/end_chain/get_pkey from any (err, num_certs, cert_length) state")]
