"""C18, T0 part: set-rsa-key / set-ec-key of the key decoders (E2 extraction)."""
import os, sys
from verif import Q

ROOT = os.path.dirname(os.path.dirname(os.path.abspath(__file__)))
sys.path.insert(0, os.path.join(ROOT, "encoders"))
import t0tool

ASSUMPTIONS = [
 "T0 part: native words extracted verbatim by encoders/t0tool.py (E2; re-validated by C05 e2-validation-pkey/-skey)",
 "set-rsa-key / set-ec-key: element lengths symbolic with sum <= sizeof key_data (the T0 code read them into key_data under its length literal, C05 literal-capacity-*); that the lengths are the decoded ones is T0 logic (outside)",
]
MUTANTS = [
 "CAUGHT pkey_decoder.c set-rsa-key e = key_data + elen: t0-pkey-set-rsa-key",
 "CAUGHT pkey_decoder.c set-ec-key qlen - 1: t0-pkey-set-ec-key",
 "CAUGHT skey_decoder.c set-rsa-key: offset not advanced past q (dp overlaps q): t0-skey-set-rsa-key",
 "CAUGHT skey_decoder.c set-ec-key xlen = curve: t0-skey-set-ec-key",
]


def queries():
    qs = []
    for key in ("pkey", "skey"):
        p = t0tool.load(key)
        inc = ["-I" + t0tool.gen_dir(p), "-I" + os.path.join(ROOT, "encoders")]
        for m, nm in ((0, "set-rsa-key"), (1, "set-ec-key")):
            qs.append(Q("t0-%s-%s" % (key, nm), "C18_t0_setkey.c", units=[], defs=["-DC18_KEY_%s=1" % key, "-DMODE=%d" % m] + inc, unwind=7, timeout=120,
                        desc="native %s of %s: returned key = the decoded elements, consecutive and in order inside key_data, with the decoded lengths; key_type / err untouched" % (nm, t0tool.PROGRAMS[key])))
    return qs
