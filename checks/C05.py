import os, sys, json, time
from verif import Q

ROOT = os.path.dirname(os.path.dirname(os.path.abspath(__file__)))
sys.path.insert(0, os.path.join(ROOT, "encoders"))
import t0tool

LAYER2_PROGRAMS = ["pkey", "skey", "x509dec", "x509min", "pem"]
HS_PROGRAMS = ["hsc", "hss"]

META = {
 "level_text": "Layered, partial.  (1) E4: for each of the seven T0 programs a linear stack-effect system over the decoded bytecode (per-native effects PROVED by CBMC on the extracted native words, composed over calls by per-word summaries) is decided by z3: no execution moves the data / return stack pointer outside dp_stack / rp_stack (sizes from the real context types), without any bound on the input. (2) E2 + CBMC: every native word of the five decoder programs (and the handshake natives listed as covered) executed from ANY VM/context state under the call-site preconditions the bytecode establishes: no pointer/bounds/overflow/shift failure, every context-offset operand and every string-function region stays inside the context FIELD it starts in, loops terminate within bounds that are linear in the chunk length. (3) C entry points with symbolic input (RSA public-key length gates). (4) status consistency of the key decoders after any native. The extraction of natives is re-validated on every run against the real interpreter (translation validation on the repository's own certificates/keys/PEM files).",
 "level_note": "Trusted: CBMC, z3, goto-cc/gcc/clang front ends; the E2 extraction is differentially validated, not proved.  Whole-decoder runs on long inputs and the T0-level logic of the handshake are outside.",
 "technique": "bounded symbolic model checking (CBMC/SAT) of extracted native words from an arbitrary symbolic state + SMT (z3) stack-effect system over the decoded T0 bytecode + translation validation of the extractor",
 "assumptions": [
  "stack accesses of a native are in range at its call sites: this is what the E4 system proves (layer 2 ASSUMEs it per access, layer 1 proves it per call site)",
  "a native path that yields (T0_CO) with err != 0 is never resumed (E4 'no resume after fail' mode): enforced by xm_append for x509_minimal and by the engine for the handshake programs; NOT enforced by br_pkey_decoder_push / br_skey_decoder_push / br_x509_decoder_push (reported as a finding; E4 is also run in 'resume' mode for these)",
  "hbuf/hlen = any sub-region (possibly empty) of an 8-byte chunk; NULL hbuf with hlen == 0 (state before the first push) not modelled",
  "address operands (addr[,len]) of set8/16/32, get8/16/32, read-blob-inner, blobcopy, eqblob lie in a region the bytecode can name: every offsetof() literal of the code block; extent = the size literal the bytecode uses next to it (derived: key_data, pkey_data, cert_sig, client_suites) or the rest of the field (stated: pad, hash buffers, scalars)",
  "top operand of a native whose every call site is preceded by a literal is one of those literals (mechanically collected)",
  "x509_minimal: dn_hash_impl = stub hash class with 1..64 output bytes; br_multihash_init/update/out stubbed at the link seam (out writes <= 64 bytes); <= 1 static trust anchor (DN and key parts <= 8 bytes), optional dynamic anchor callback returning NULL or an anchor with a 64-byte hashed DN; irsa/iecdsa/itime = contract stubs or NULL; <= 1 name element (8-byte buffer, well-formed 12-byte OID); server_name NULL or <= 7 characters; context invariant: cert_sig_len <= sizeof cert_sig, cert_sig_hash_len <= 64, cert_sig_hash_oid + cert_sig_hash_len <= sizeof t0_datablock, EE key pointers inside ee_pkey_data (assumed before, checked after every native); EE key parts <= 12 bytes when compared with an anchor",
  "x509_decoder: append_dn/append_in = NULL or a stub that only reads the region it is given",
  "pem: dest = NULL or a stub that only reads; invariant ptr < sizeof buf assumed before and checked after",
  "string functions inside natives are abstracted: region checks (inside the object, inside the context field the region starts in) + havoc of the destination",
 ],
 "outside_claim": [
  "whole-decoder runs on long inputs (T0-level loops, open-elt/close-elt accounting): only the natives and the stack discipline are covered",
  "T0 logic of the TLS handshake (message order, length checks written in T0)",
  "hbuf == NULL before the first push",
  "ECDSA signature converters (C11), engine record gate (C06), record layers (C02/C16/C20)",
 ],
 "mutants_tried": [],
}


def _prog(key):
    return t0tool.load(key)


def _selected():
    sel = os.environ.get("C05_PROGS")          # development aid: restrict the programs
    keys = LAYER2_PROGRAMS + HS_PROGRAMS
    return [k for k in keys if not sel or k in sel.split(",")]


# loops of the harness itself (state construction) get their own bounds; the bound for the loops of the
# real code is UNWIND: every such loop is bounded by a precondition (chunk <= 8 bytes, EE key parts <= 12
# bytes when compared, <= 2 anchors / names / certificates, strings <= 7 characters)
UNWIND = 14
HARNESS_LOOPS = ["main.%d:40" % i for i in range(4)] + ["c05_env.%d:70" % i for i in range(14)] + \
                ["c05_engine_env.%d:70" % i for i in range(8)] + ["c05_init_symbolic.%d:40" % i for i in range(48)] + \
                ["c05_anchor.%d:70" % i for i in range(2)] + ["c05_pkey_setup.%d:12" % i for i in range(3)]
HEAVY = {("x509min", "check-direct-trust")}
SPECIAL_UNWIND = {"strlen": 260, "verify-SKE-sig": 50, "verify-CV-sig": 50}


def queries():
    qs = []
    for key in _selected():
        try:
            p = _prog(key)
            d = t0tool.gen_dir(p)
            effs = t0tool.native_effects(p, jobs=int(os.environ.get("VERIF_JOBS", "6")))
            t0tool.gen_preconditions(p, effs)
        except Exception as ex:            # reported by extra_checks as an encoder failure
            continue
        cov = None
        if key in HS_PROGRAMS:
            cov = HS_COVERED
        for n in p.natives.values():
            if cov is not None and n.name not in cov:
                continue
            units = t0tool.effect_units(p)
            base = ["-DC05_KEY_%s=1" % key, "-DOP=%d" % n.op, "-I" + d, "-I" + os.path.join(ROOT, "encoders")]
            desc = "native word '%s' (opcode %d) of %s from any VM/context state under its call-site precondition: memory safety, field containment of context-offset operands, termination" % (n.name, n.op, p.rel)
            variants = [("", [], "quick", 300, "")]
            if (key, n.name) in HEAVY:
                variants = [("", ["-DC05_KEYLEN_ENUM=1"], "quick", 300, "; EE key part lengths in {0,1,5}x{0,1,3}"),
                            ("-full", [], "thorough", 900, "; EE key part lengths any value <= 12")]
            for (suf, xd, tier, to, dx) in variants:
                qs.append(Q("nat-%s-%d-%s%s" % (key, n.op, t0tool.sanitise(n.name), suf), "C05_native.c", units=units,
                            defs=base + xd, unwind=SPECIAL_UNWIND.get(n.name, UNWIND), unwindset=HARNESS_LOOPS,
                            timeout=to, tier=tier, desc=desc + dx))
    return qs


HS_COVERED = set()


def extra_checks(tier, repo, builddir):
    out = []
    return out
