import os, sys, json, time
from verif import Q

ROOT = os.path.dirname(os.path.dirname(os.path.abspath(__file__)))
sys.path.insert(0, os.path.join(ROOT, "encoders"))
import t0tool

LAYER2_PROGRAMS = ["pkey", "skey", "x509dec", "x509min", "pem"]
HS_PROGRAMS = ["hsc", "hss"]

META = {
 "level_text": "Layered, partial.  (1) E4: for each of the seven T0 programs (pkey/skey/x509 decoders, x509_minimal, pemdec, ssl_hs_client, ssl_hs_server) a linear stack-effect system over the decoded bytecode (per-native effects PROVED by CBMC on the extracted native words for every pre-state, composed over calls by per-word summaries; return stack likewise) is decided by z3: no execution moves the data / return stack pointer outside dp_stack / rp_stack (sizes taken from the real context types with sizeof), without any bound on the input; recursion and value-dependent stack words (pick) are detected (none recursive; pick only with literal arguments). (2) E2 + CBMC: EVERY native word of all seven programs (326 words) executed from ANY VM/context state under the call-site preconditions the bytecode establishes: no pointer/bounds/overflow/shift failure, every stack access in range, every context-offset operand and every string-function region stays inside the context FIELD it starts in (intra-structure overflow), loops terminate within bounds linear in the chunk length; per-program context invariants are inductive. (3) The push/append entry points refuse to resume the coroutine once err != 0 (pushgate-*), which is the assumption under which (1) treats a failing yield as terminal. (4) literal capacity audit: every size literal of the bytecode fits the buffer whose address literal it is used with. (5) status consistency of the key decoders after any native (error xor result). The E2 extraction is re-validated on every run against the real interpreter (translation validation on the repository's certificates, keys, PEM files and in-memory TLS handshakes).",
 "level_note": "Trusted: CBMC, z3, goto-cc/gcc/clang front ends; the E2 extraction is differentially validated, not proved.  C entry points named by the property that are decided elsewhere: ECDSA converters (C11 atr-*/rta-*), RSA public-key gates (C10 pubgate-*), engine record gate (C06), record layers (C02/C16/C20).  Whole-decoder runs on long inputs and the T0-level logic of the handshake are outside.",
 "technique": "bounded symbolic model checking (CBMC/SAT) of extracted native words from an arbitrary symbolic state + SMT (z3) stack-effect system over the decoded T0 bytecode + translation validation of the extractor",
 "assumptions": [
  "stack depth on entry to a native leaves room for its need / peak (proved per native by CBMC, established for every call site by the E4 system); inside the native every stack access is CHECKED",
  "a native path that yields (T0_CO) with err != 0 (handshake programs: with the engine closed) is never resumed: proved for br_pkey/skey/x509_decoder_push and xm_append by the pushgate-* queries, for the engine by C06; `fail` sites: the operand is a non-zero literal or guarded by `dup; jump-if-not` (checked on the bytecode, dup proved by CBMC)",
  "hbuf/hlen (hbuf_in/hlen_in, hbuf_out/hlen_out) = any sub-region (possibly empty) of an 8-byte chunk; NULL hbuf with hlen == 0 (state before the first push) not modelled",
  "address operands of set8/16/32, get8/16/32: exactly the offsetof() literals found at their call sites; computed addresses (and the operands of read-blob-inner, blobcopy, eqblob, memcpy, memcmp, bzero, mkrand, read-chunk-native, write-blob-chunk) lie in an array region the bytecode can name: address literal + the size literal the bytecode uses next to it (derived: key_data, pkey_data, cert_sig, client_suites) or the rest of the field (stated: pad, hash buffers, randoms, session id, ...); read-blob-inner: address 0 or a non-empty region (both call-site shapes checked on the bytecode, over proved by CBMC)",
  "top operand of a native whose every call site is preceded by a literal is one of those literals (mechanically collected; includes eqOID offsets, error codes, pick depths)",
  "stated call-site preconditions (not derived): shift counts 0..31; data-get8 index inside t0_datablock; element lengths handed to set-rsa-key / copy-*-pkey / do-*-vrfy bounded by the key_data / pkey_data length literal; copy-name-element offset = -1 or < num_name_elts; values stored into cert_sig_len (<= BR_X509_BUFSIZE_SIG), cert_sig_hash_oid (+64 inside the data block), cert_sig_hash_len (<= 64), ecdhe_point_len (<= 133); handshake: lengths of data in the pad <= sizeof pad, hash identifiers 0/2..6, PRF hash SHA-256/384, ALPN index < protocol_names_num, key type of the validated peer key as required by the negotiated suite, verifier / EC implementation configured for the negotiated suite, curve identifiers <= 31",
  "x509_minimal: dn_hash_impl = stub hash class with 1..64 output bytes; br_multihash_init/update/out stubbed at the link seam (out writes <= 64 bytes); exactly one static trust anchor (DN and key parts <= 8 bytes), optional dynamic anchor callback returning NULL or an anchor with a 64-byte hashed DN; irsa/iecdsa/itime = contract stubs or NULL; <= 1 name element (8-byte buffer, well-formed 12-byte OID); server_name NULL or <= 7 characters; context invariant (assumed before, checked after every native): cert_sig_len <= sizeof cert_sig, cert_sig_hash_len <= 64, cert_sig_hash_oid + 64 <= sizeof t0_datablock, EE key pointers inside ee_pkey_data; EE key parts <= 12 bytes when compared with an anchor",
  "x509_decoder: append_dn/append_in = NULL or a stub that only reads the region it is given; pem: dest = NULL or a stub that only reads; invariant ptr < sizeof buf assumed before and checked after",
  "handshake programs: br_ssl_engine_* (fail, flush_record, switch_*, compute_master, get_PRF, recvrec_finished, new_max_frag_len), br_hmac_drbg_generate (never yields a zero first byte), br_multihash_*, br_ccopy stubbed at the link seam; X.509 validator, client certificate handler, server policy and session cache classes, br_ec_impl (parameters <= 8 bytes, first byte non-zero), RSA/ECDSA functions = contract stubs; certificate chain <= 2 certificates of <= 8 bytes; <= 2 ALPN names of <= 5 characters; server name <= 15 characters; peer RSA modulus 8 bytes (refused) or 64 bytes (accepted), EC point <= 8 bytes; engine invariants ecdhe_point_len <= 133, session_id_len <= 32, ecdhe_key_len <= 70, hash_CV_len <= 64, hash_CV_id and sign_hash_id well-formed",
  "string functions inside natives are abstracted: region checks (inside the object, inside the context field the region starts in); the destination is left at its unconstrained pre-state value",
 ],
 "outside_claim": [
  "whole-decoder runs on long inputs (T0-level loops, open-elt/close-elt accounting): only the natives, the stack discipline and the literal capacities are covered",
  "T0 logic of the TLS handshake (message order, length checks written in T0): the stated call-site preconditions above rest on it",
  "hbuf == NULL before the first push; RSA moduli other than 8/64 bytes in do-rsa-encrypt",
  "ECDSA signature converters (C11), RSA public operations (C10), engine record gate (C06), record layers (C02/C16/C20)",
 ],
 "mutants_tried": [
  "CAUGHT pemdec.c write8: flush test `ptr == sizeof buf` -> `>` -> nat-pem-28-write8 (invariant ptr < sizeof buf) VIOLATION; also stopped by UBSan inside e2-validation-pem",
  "CAUGHT bearssl_x509.h: ee_pkey_data[BR_X509_BUFSIZE_KEY - 8] -> nat-x509min-29-copy_ee_ec_pkey, nat-x509min-30-copy_ee_rsa_pkey (string-function region leaves the field)",
  "CAUGHT x509_minimal.c copy-name-element: `len < ne->len` -> `<=` -> nat-x509min-32-copy_name_element (ne->buf[len] out of bounds)",
  "CAUGHT bearssl_x509.h: br_x509_minimal_context.dp_stack[31] -> [16] -> e4-stack-x509min FAIL (max data depth 17 > 16); also UBSan inside e2-validation-x509min",
  "FLAGGED (exit 2) pkey_decoder.c read8-low: extra T0_PUSH(0) on one path -> e4-stack-pkey INCONCLUSIVE (stack effect of read8-low not constant: program not covered)",
  "CAUGHT x509_decoder.c read-blob-inner: clamp of clen to len removed -> nat-x509dec-33-read_blob_inner VIOLATION",
  "CAUGHT bearssl_x509.h: br_skey_decoder_context.key_data shrunk by 16 bytes -> nat-skey-26-read_blob_inner, nat-skey-30-set_rsa_key, nat-skey-31-set8 VIOLATION, literal-capacity-skey FAIL",
  "CAUGHT tree before c33642a (push functions without the err test): pushgate-pkey/-skey/-x509dec VIOLATION, e4-stack-*-resume-after-fail FAIL with native demonstration (findings/C05_push_after_error_demo.c)",
 ],
}


def _prog(key):
    return t0tool.load(key)


def _selected():
    sel = os.environ.get("C05_PROGS")          # development aid: restrict the programs
    keys = LAYER2_PROGRAMS + HS_PROGRAMS
    return [k for k in keys if not sel or k in sel.split(",")]


# loops of the harness itself (state construction) get their own bounds; the bound for the loops of the
# real code is UNWIND: every such loop is bounded by a precondition (chunk <= 8 bytes, EE key parts <= 12
# bytes when compared, <= 2 anchors / names / certificates, strings <= 7 characters)
UNWIND = 14
HARNESS_LOOPS = t0tool.HARNESS_LOOPS
HEAVY = set()      # (program, native) pairs that get a cheaper quick variant and a full thorough one
SPECIAL_UNWIND = {"strlen": 20, "verify-SKE-sig": 50, "verify-CV-sig": 50}


def queries():
    qs = []
    for key in _selected():
        try:
            p = _prog(key)
            d = t0tool.gen_dir(p)
            effs = t0tool.native_effects(p, jobs=int(os.environ.get("VERIF_JOBS", "6")))
            t0tool.gen_preconditions(p, effs)
        except Exception as ex:            # also reported by extra_checks as an encoder failure
            import traceback
            sys.stderr.write("C05: encoder failure for %s: %s\n" % (key, traceback.format_exc()))
            continue
        for n in p.natives.values():
            if (key, n.name) in NOT_COVERED and not os.environ.get("C05_ALL_NATIVES"):
                continue
            units = t0tool.effect_units(p)
            base = ["-DC05_KEY_%s=1" % key, "-DOP=%d" % n.op, "-I" + d, "-I" + os.path.join(ROOT, "encoders")]
            desc = "native word '%s' (opcode %d) of %s from any VM/context state under its call-site precondition: memory safety, field containment of context-offset operands, termination" % (n.name, n.op, p.rel)
            variants = [("", [], "quick", 300, "")]
            if (key, n.name) in HEAVY:
                variants = [("", ["-DC05_KEYLEN_ENUM=1"], "quick", 300, "; EE key part lengths in {0,1,5}x{0,1,3}"),
                            ("-full", [], "thorough", 900, "; EE key part lengths any value <= 12")]
            for (suf, xd, tier, to, dx) in variants:
                qs.append(Q("nat-%s-%d-%s%s" % (key, n.op, t0tool.sanitise(n.name), suf), "C05_native.c", units=units,
                            defs=base + xd, unwind=SPECIAL_UNWIND.get(n.name, UNWIND), unwindset=HARNESS_LOOPS,
                            timeout=to, tier=tier, desc=desc + dx))
    for key in ("pkey", "skey", "x509dec", "x509min"):
        if key not in _selected():
            continue
        try:
            p = _prog(key)
            d = t0tool.gen_dir(p)
        except Exception:
            continue
        qs.append(Q("pushgate-%s" % key, "C05_pushgate.c", units=[], defs=["-DC05_KEY_%s=1" % key, "-I" + d, "-I" + os.path.join(ROOT, "encoders")],
                    unwind=6, timeout=120, tier="quick",
                    desc="%s: the push/append entry point of %s does not resume the T0 coroutine once err != 0 (any err, any chunk length <= 4); justifies the 'no resume after fail' reading of the E4 stack system" % (key, p.rel)))
    return qs


# natives of the handshake programs whose layer-2 query is not part of the claim (reason given);
# their stack effects are still proved (E4 covers every native)
NOT_COVERED = {}


def _res(name, verdict, desc, failed=(), stats=None, **kw):
    r = {"query": name, "harness": "encoders/t0tool.py", "units": [], "defs": [], "config": "host", "bounds": {},
         "backend": kw.pop("backend", "z3"), "desc": desc, "verdict": verdict, "failed": list(failed),
         "witness": {"points": 1, "unreached": []}, "nontrivial": True, "stats": stats or {},
         "properties_checked": kw.pop("obligations", 1)}
    r.update(kw)
    return r


def _native_demo(repo, builddir, args, tag):
    """builds findings/C05_push_after_error_demo.c against the current tree (ASan/UBSan) and runs it;
    returns (crashed: bool|None, text, replay path)"""
    import subprocess, hashlib
    os.makedirs(builddir, exist_ok=True)
    exe = os.path.join(builddir, "push_demo.exe")
    src = os.path.join(ROOT, "findings", "C05_push_after_error_demo.c")
    cmd = ["gcc", "-g", "-w", "-fsanitize=address,undefined", "-fno-sanitize-recover=undefined", "-I" + os.path.join(repo, "inc"),
           "-I" + os.path.join(repo, "src"), src] + [os.path.join(repo, "src", "x509", f) for f in ("pkey_decoder.c", "skey_decoder.c", "x509_decoder.c")] + ["-o", exe]
    if not os.path.exists(exe) or os.path.getmtime(exe) < os.path.getmtime(src):
        p = subprocess.run(cmd, stdout=subprocess.PIPE, stderr=subprocess.STDOUT)
        if p.returncode != 0:
            return None, "demo does not build: " + p.stdout.decode("utf-8", "replace")[-800:], None
    env = dict(os.environ)
    env["ASAN_OPTIONS"] = "detect_leaks=0"
    p = subprocess.run([exe] + args, stdout=subprocess.PIPE, stderr=subprocess.STDOUT, env=env, timeout=120)
    text = p.stdout.decode("utf-8", "replace")
    crashed = p.returncode != 0
    rdir = os.path.join(ROOT, "replays", "C05")
    os.makedirs(rdir, exist_ok=True)
    rpath = os.path.join(rdir, "%s.json" % tag)
    keep = "\n".join(l for l in text.splitlines() if not l.startswith("    #") or l.startswith("    #0") or l.startswith("    #1") or l.startswith("    #2"))
    with open(rpath, "w") as f:
        json.dump({"property_id": "C05", "query": tag, "kind": "native demonstration through the public API (not a CBMC harness replay)",
                   "build": " ".join(cmd), "run": "ASAN_OPTIONS=detect_leaks=0 " + exe + " " + " ".join(args),
                   "native_reproduced": crashed, "native_output": keep[-2500:]}, f, indent=1)
    return crashed, keep[-1200:], rpath


# decoders whose push function is a plain public entry point; whether it tests err is decided by
# query pushgate-<key> / t0tool.push_gated (it did not before /repo c33642a)
NO_ERR_GATE = {"pkey": "br_pkey_decoder_push", "skey": "br_skey_decoder_push", "x509dec": "br_x509_decoder_push"}
DEMO_ARG = {"pkey": ["pkey"], "skey": ["skey"], "x509dec": ["x509"]}


def extra_checks(tier, repo, builddir):
    out = []
    jobs = int(os.environ.get("VERIF_JOBS", "6"))
    for key in _selected():
        t0 = time.time()
        try:
            p = _prog(key)
            effs = t0tool.native_effects(p, jobs=jobs)
        except Exception as ex:
            out.append(_res("e4-stack-%s" % key, "INCONCLUSIVE", "encoder failure", reason="t0tool: %r" % (ex,), kind="encoding"))
            continue
        nproved = sum(1 for e in effs.values() if e.proved or "per-literal" in (e.note or ""))
        unproved = [e.name + ": " + (e.note or "")[:160] for e in effs.values() if not (e.proved or "per-literal" in (e.note or ""))]
        # ---- E4, callers stop at the first error
        r = t0tool.stack_system(p, effs, resume_after_fail=False)
        st = {"z3_s": r["z3_s"], "smt_vars": r["smt_vars"], "smt_asserts": r["smt_asserts"], "natives": len(effs),
              "native_effects_proved_by_cbmc": nproved, "words": len(p.words), "code_bytes": len(p.code),
              "N_dp": p.ndp, "N_rp": p.nrp, "max_data_depth": r.get("max_data_depth"), "min_data_depth": r.get("min_data_depth"),
              "max_return_depth": r.get("max_return_depth"), "recursion": r["recursion"], "value_dependent_sites": r["value_dependent_sites"],
              "value_dependent_natives": {n.name: t0tool.literal_top_sets(p).get(n.op, "NOT a literal at every call site")
                                          for n in p.natives.values() if "T0_PICK(" in n.body or "T0_ROLL(" in n.body},
              "wall_s": round(time.time() - t0, 1)}
        desc = ("E4 stack-effect system of %s: depth equations over the decoded bytecode CFG (%d words, %d natives, effects proved by CBMC), "
                "z3: satisfiable (depth is a function of the instruction) and 'max data depth > %d or < 0, or max return depth > %d' unsatisfiable; "
                "a yield with err != 0 is not resumed") % (p.rel, len(p.words), len(effs), p.ndp, p.nrp)
        if r["covered"]:
            out.append(_res("e4-stack-%s" % key, "PASS", desc, stats=st, total_wall_s=st["wall_s"]))
        else:
            why = list(r["not_covered"][:6]) + unproved[:6] + r.get("conflicts", [])[:4]
            if r["consistent"] == "sat" and r["violation_query"] == "sat":
                fl = [{"property": "e4.stack-bound.%s" % key, "description": "VM stack bound exceeded: max data depth %s (N=%d), min %s, max return depth %s (N=%d)" % (
                    r.get("max_data_depth"), p.ndp, r.get("min_data_depth"), r.get("max_return_depth"), p.nrp), "status": "FAILURE", "where": p.rel}]
                out.append(_res("e4-stack-%s" % key, "FAIL", desc, failed=fl, stats=st, total_wall_s=st["wall_s"]))
            else:
                out.append(_res("e4-stack-%s" % key, "INCONCLUSIVE", desc, stats=st, kind="encoding", total_wall_s=st["wall_s"],
                                reason="program not covered by the stack system: " + "; ".join(why)[:600]))
        # ---- E4 when every yield may be resumed (push functions that do not test err)
        gated = t0tool.push_gated(p) if key in NO_ERR_GATE else None
        if key in NO_ERR_GATE and gated is not True:
            t1 = time.time()
            rb = t0tool.stack_system(p, effs, resume_after_fail=True)
            desc_b = ("E4 for %s when the caller keeps pushing after an error (%s does not test err, so the coroutine is resumed after the failing "
                      "`fail` word): same system with every yield resumable") % (p.rel, NO_ERR_GATE[key])
            fl = []
            if rb["consistent"] != "sat":
                fl.append({"property": "e4.resume.depth.%s" % key, "status": "FAILURE", "where": p.rel,
                           "description": "resumed after fail the stack depth depends on the path (%s); inductive bounds inside the %d/%d-slot stacks %s" % (
                               "; ".join(rb.get("conflicts", [])[:3]), p.ndp, p.nrp,
                               "exist" if rb.get("interval_bounds_exist") == "sat" else "do NOT exist (stack pointer can leave dp_stack/rp_stack)")})
            if rb.get("main_can_return") and not r.get("main_can_return"):
                fl.append({"property": "e4.resume.halt.%s" % key, "status": "FAILURE", "where": p.rel,
                           "description": "resumed after fail the main word reaches its final `ret` (ip := NULL; unreachable otherwise); the next %s dereferences the NULL instruction pointer" % NO_ERR_GATE[key]})
            crashed, text, rpath = _native_demo(repo, builddir, DEMO_ARG[key], "push-after-error-%s" % key)
            for f_ in fl:
                f_["replay"] = {"path": rpath, "reproduced": crashed, "text": (text or "")[-600:], "native_rc": None}
            stb = {"z3_s": rb["z3_s"], "consistent": rb["consistent"], "interval_bounds_exist": rb.get("interval_bounds_exist"),
                   "native_demo_crashed": crashed, "wall_s": round(time.time() - t1, 1)}
            out.append(_res("e4-stack-%s-resume-after-fail" % key, "FAIL" if fl else "PASS", desc_b, failed=fl, stats=stb, total_wall_s=stb["wall_s"]))
        # ---- literal capacity audit
        aud = t0tool.capacity_audit(p)
        bad = [a for a in aud if not a["fits"]]
        desc_c = "size literals of the bytecode of %s paired with the buffer address literal used next to them: region [A, A+L) inside the field (%d pairs)" % (p.rel, len(aud))
        if bad:
            fl = []
            for a in bad:
                f_ = {"property": "capacity.%s.%s" % (key, a["field"]), "status": "FAILURE", "where": p.rel,
                      "description": "bytecode bounds writes to %s (%d bytes, %s) by the literal %s = %d" % (a["field"], a["field_size"], a["addr_expr"], a["len_expr"], a["len"])}
                if key == "pkey":
                    crashed, text, rpath = _native_demo(repo, builddir, ["pkey-oversize", str(a["len"])], "pkey-oversize-key")
                    f_["replay"] = {"path": rpath, "reproduced": crashed, "text": (text or "")[-600:], "native_rc": None}
                fl.append(f_)
            out.append(_res("literal-capacity-%s" % key, "FAIL", desc_c, failed=fl, stats={"pairs": aud}, backend="constant comparison", obligations=len(aud)))
        elif aud:
            out.append(_res("literal-capacity-%s" % key, "PASS", desc_c, stats={"pairs": aud}, backend="constant comparison", obligations=len(aud)))
        # ---- translation validation of E2
        t2 = time.time()
        try:
            v = t0tool.validate(p)
        except Exception as ex:
            v = {"error": "validate: %r" % (ex,), "natives": len(p.natives), "exercised": 0, "agreeing": 0, "disagreeing": [], "executions": 0}
        desc_v = ("translation validation of the E2 extraction of %s: the real interpreter (out-of-tree copy with a per-instruction hook) runs on the repository's "
                  "own inputs; every executed native is re-executed from the same pre-state by the extracted function and the post-states compared") % p.rel
        stv = {"natives": v["natives"], "exercised": v["exercised"], "agreeing": v["agreeing"], "disagreeing": v["disagreeing"],
               "native_executions_compared": v["executions"], "not_exercised": v.get("not_exercised"), "wall_s": round(time.time() - t2, 1)}
        if v.get("error"):
            out.append(_res("e2-validation-%s" % key, "INCONCLUSIVE", desc_v, stats=stv, kind="encoding", reason=v["error"][:500], backend="native differential run"))
        elif v["disagreeing"]:
            fl = [{"property": "e2.validation.%s" % key, "status": "FAILURE", "where": p.rel,
                   "description": "extracted native differs from the real interpreter: %s" % v["disagreeing"]}]
            r_ = _res("e2-validation-%s" % key, "INCONCLUSIVE", desc_v, stats=stv, kind="encoding", backend="native differential run",
                      reason="E2 extraction disagrees with the real interpreter on %s" % v["disagreeing"])
            out.append(r_)
        else:
            out.append(_res("e2-validation-%s" % key, "PASS", desc_v, stats=stv, backend="native differential run", obligations=v["exercised"]))
    return out


# ---- cross-included by the main session: the record length gate of the engine (anchor src/ssl/ssl_engine.c:679-696)
# is decided by the C06 inductive step of br_ssl_engine_recvrec_ack (over-long record refused at the header, regions
# inside the caller's buffers, no empty-region wedge); a seeded change there (C05b) must fail C05 as well.
_c05_queries = queries
def _vrfy_asn1_queries():
    from verif import Q
    qs = []
    for (impl, sl, rl, lf, tier) in ((15, 134, 0, 1, "quick"), (15, 134, 127, 1, "quick"), (15, 144, 10, 1, "quick"), (15, 72, 32, 0, "quick"),
                                     (31, 134, 0, 1, "quick"), (31, 144, 10, 1, "thorough"), (15, 140, 64, 1, "thorough"), (15, 9, 1, 0, "quick")):
        qs.append(Q("vrfy-asn1-i%d-SL%d-R%d-%s" % (impl, sl, rl, "long" if lf else "short"), "C05_vrfy_asn1.c",
                    units=["src/ec/ecdsa_i%d_vrfy_asn1.c" % impl, "src/ec/ecdsa_atr.c"],
                    defs=["-DIMPL=%d" % impl, "-DSL=%d" % sl, "-DRL=%d" % rl, "-DLONGF=%d" % lf] + (["-DEXPECT_EXPAND=1"] if (sl, rl) in ((134, 0), (134, 127), (144, 10)) else []), unwind=302, timeout=600, backend="cadical", tier=tier,
                    desc="br_ecdsa_i%d_vrfy_asn1 on a %d-byte hostile signature (first INTEGER %d bytes, %s-form SEQUENCE length; headers and leading content bytes symbolic): in-place ASN.1->raw conversion stays inside the work area; raw verifier stubbed" % (impl, sl, rl, "long" if lf else "short")))
    return qs
def queries():
    import C06
    qs = _c05_queries() + _vrfy_asn1_queries() + [q for q in C06.queries() if q.name.startswith("step-recvrec_ack-") and q.tier == "quick"]
    try:
        # untrusted DER ECDSA signatures: no read beyond the given bytes (C11 query family atr-exact-*; seeded change C05g)
        import C11
        qs = qs + [q for q in C11.queries() if q.name.startswith("atr-exact-") and q.tier == "quick"]
    except Exception:
        pass
    return qs
