"""C15, T0 part: negotiation natives of the handshake programs (E2 extraction)."""
import os, sys
from verif import Q

ROOT = os.path.dirname(os.path.dirname(os.path.abspath(__file__)))
sys.path.insert(0, os.path.join(ROOT, "encoders"))
import t0tool

ASSUMPTIONS = [
 "T0 part: native words extracted verbatim by encoders/t0tool.py (E2; re-validated against the real interpreter by C05 e2-validation-hsc/-hss)",
 "ALPN natives: <= 3 configured names of <= 4 characters (all bytes symbolic, so shorter names and names that are prefixes of each other are included), received name of 0..5 bytes in the pad, any byte values incl. NUL",
 "call-policy-handler / set-server-curve: policy handler and X.509 validator are recording stubs behind their vtables",
]
MUTANTS = [
 "CAUGHT seeded/C15-alpn-prefix-match (test-protocol-name uses strncmp(name, pad, len): prefix match): t0-test-protocol-name-hsc, t0-test-protocol-name-hss",
 "CAUGHT ssl_hs_server.c copy-protocol-name copies len-1 bytes: t0-copy-protocol-name-hss",
 "CAUGHT ssl_hs_client.c supported-hash-functions loop starts at br_md5_ID: t0-supported-hsc",
 "CAUGHT ssl_hs_server.c call-policy-handler pushes -(x > 0): t0-call-policy-handler-hss",
 "CAUGHT ssl_hs_client.c set-server-curve takes the EC curve field for RSA keys too: t0-set-server-curve-hsc",
]


def queries():
    qs = []
    for side, key in ((0, "hsc"), (1, "hss")):
        p = t0tool.load(key)
        inc = ["-I" + t0tool.gen_dir(p), "-I" + os.path.join(ROOT, "encoders")]
        modes = [(0, "test-protocol-name", "first configured ALPN name equal (length and bytes) to the received one, -1 if none"),
                 (1, "copy-protocol-name", "copies the selected configured name into the pad and pushes its length"),
                 (2, "supported", "supported-curves / supported-hash-functions / supports-rsa-sign? / supports-ecdsa? report exactly the configured implementations")]
        modes.append((3, "set-server-curve", "server_curve = curve of the validated EC key, 0 for RSA") if side == 0 else
                     (4, "call-policy-handler", "handler's choices installed unchanged, verdict pushed as a boolean"))
        for (m, nm, d) in modes:
            qs.append(Q("t0-%s-%s" % (nm, key), "C15_t0_alpn.c", units=[], defs=["-DSIDE=%d" % side, "-DMODE=%d" % m] + inc,
                        unwind=8, timeout=120, desc="native(s) %s of %s: %s" % (nm, t0tool.PROGRAMS[key], d)))
    return qs
