from verif import Q

META = {
 "level_text": "Bounded symbolic model checking (CBMC) of the real inner.h primitives and src/int big-integer routines: word primitives for all 2^64 operand pairs (no bound), multiplication-free big-integer routines against an explicit __int128 reference for every announced bit length up to the stated bound, multiplication routines at 1-2 words. Partial: sizes beyond the bounds are outside the claim.",
 "level_note": "Trusted: CBMC's C front end and bit-precise semantics; loop-model memcpy/memset; bounds as listed per query in the evidence.",
 "technique": "bounded symbolic model checking (CBMC/SAT) of real C units vs reference on explicit integers",
 "assumptions": [],
 "outside_claim": ["multiplication correctness at >= 3 words", "i62", "production operand sizes"],
}

def queries():
    qs = []
    for nm, defs in (("default", []), ("ctmul_noarsh", ["-DBR_CT_MUL31=1", "-DBR_CT_MUL15=1", "-DBR_NO_ARITH_SHIFT=1"])):
        qs.append(Q("prims-" + nm, "C09_prims.c", defs=defs, unwind=33,
                    desc="inner.h NOT MUX EQ NEQ GT GE LT LE CMP EQ0 GT0 GE0 LT0 LE0 MIN MAX BIT_LENGTH ARSH, all 2^64 operand pairs"))
    return qs
