import os
from verif import Q

META = {
 "level_text": "Bounded symbolic model checking (CBMC 6.11, SAT/SMT back ends) of the real inner.h primitives and src/int big-integer routines (i15, i31, i32). Decided without bound: the word primitives (all 2^64 operand pairs) and br_i15_ninv15. Decided for every operand of every listed announced bit length (0..120, quick tier: every residue mod 15/31 at one and two words plus all word-boundary neighbourhoods; thorough tier: every length): decode/encode, decode_mod, add/sub, rshift, bit_length, iszero, zero against an explicit __int128 integer. Multiplying routines: one-word montymul (i15) / from_monty / mulacc (i15, i31, i32) for every operand with the real multiplier; the division-estimate routines (muladd_small, to_monty, reduce, decode_reduce) and modpow/modpow_opt/moddiv only on bounded domains (moduli of 4-8 bits, or bounded quotient); the ESP8266-specific 32-bit-load paths of br_i15_montymul are proved equal to the word-serial loop for 1..9 (thorough: ..35) words and all four alignment combinations, and their memory safety is decided on exact-size operands (one genuine 2-byte over-read found, see outside_claim/notes). Partial: sizes and domains beyond the listed bounds are outside the claim.",
 "level_note": "Trusted: CBMC's C front end and bit-precise semantics incl. its pointer model (object bases 4-byte aligned; one query family re-bases them at 2 mod 4 by a macro on the pointer-to-integer cast); loop-model memcpy/memset/memmove; bounds as listed per query in the evidence. One solver query covers a short list of concrete announced bit lengths (sizes are concrete in every unrolled iteration).",
 "technique": "bounded symbolic model checking (CBMC/SAT/SMT) of real C units vs reference on explicit integers; division-free reference formulations (operand = Q*m + R0; text-book REDC with characterised inverse); uninterpreted multiplier for the alignment equivalence; inductive splitting law for br_divrem",
 "assumptions": [
  "m0i and the full-width Montgomery inverse are characterised by m0i*m[1] == -1 (mod 2^W) / M*minv == -1 (mod R) instead of being computed by br_iXX_ninvNN (br_i15_ninv15 is decided separately; br_i31_ninv31/br_i32_ninv32 only for x < 2^12)",
  "REDC(P) = (P + ((P mod R)*minv mod R)*M)/R, minus M if >= M, is taken as the definition of 'x*y/R mod m' (text-book theorem); it is cross-checked against a '%' reference through the code at 5-bit moduli (i15-montymul-bl5-mod, i15-fmont-bl5-mod)",
  "align-value-*: MUL15 replaced by one uninterpreted function on both sides (sound for the equivalence claim); operands have one slack word after the last value word so that the verdict is about values only",
  "align-memsafe-base2-*: object bases modelled at addresses = 2 mod 4 by redefining the (intptr_t) cast inside the included i15_montmul.c; --pointer-overflow-check off there (the code forms y-1/m-1 without dereferencing it)",
  "header encodings: both the normalised form ((k/W)<<s)+(k%W) and the form ((k/W-1)<<s)+W produced by br_iXX_bit_length/decode at multiples of W are exercised (-altenc queries)",
  "modpow_opt: 'tmp too short' is decided against the implementation's rule twlen < 2*roundup2(words+1); the documentation only states 2*(words+1) (the stricter rule only ever rejects)",
 ],
 "outside_claim": [
  "br_divrem/br_rem/br_div for all 2^96 inputs: no back end (minisat, cadical, kissat, z3, cvc5) finishes in 900 s, neither against q*d+r == hi:lo nor against text-book long division, not even for d < 2^16 or with a concrete 32-bit d; decided: d < 16 (all hi < d, all lo; and the documented hi == d case), and by the inductive splitting law every divisor with quotient < 4 (quick) / < 32 (thorough)",
  "MUL31 / MUL31_lo with BR_CT_MUL31=1 (biased multiplication) == plain product: no back end finishes in 240 s, even with one operand bounded to 8 bits; dropped (BR_CT_MUL15 variant of MUL15 is decided)",
  "br_i31_ninv31 / br_i32_ninv32 for every odd x: not decided by any back end (8 dependent 32-bit multiplications); only x < 2^12 in the thorough tier",
  "multiplication correctness at >= 2 words with the real multiplier: i15 montymul/from_monty/mulacc/to_monty at 2 words (20 and 30 bits) get no verdict in 600 s on kissat and cvc5; i31 and i32 montymul get no verdict even at one word (from_monty and mulacc at one word are decided)",
  "muladd_small / to_monty / reduce / decode_reduce for every operand: only moduli of 5-8 bits, or (muladd_small, 2 words, i15/i31/i32) every modulus with quotient < 4 (thorough: < 8), or low word of the modulus nearly fixed",
  "modpow / modpow_opt / moddiv: moduli of 4-6 bits, exponent of one byte; modpow_opt at 2 words: acceptance and memory safety only (empty exponent)",
  "br_i15_montymul alignment paths beyond 35 words; alignment equivalence is modulo an uninterpreted multiplier (word-serial loop itself is decided against REDC at one word only)",
  "i62, production operand sizes",
  "br_i15_montymul forms the pointers y-1 / m-1 (never dereferenced) when the operand is 2-byte aligned: undefined by ISO C 6.5.6p8 only if the operand starts its object; not reported as a violation",
 ],
 "notes": [
  "FINDING (align-memsafe-len4-*, align-memsafe-len8-y0-m0): br_i15_montymul reads 2 bytes past y[len] (resp. m[len]) when that operand is 4-byte aligned and the modulus has a multiple of 4 value words (len = 4, 8, 12, ...: announced bit lengths 46..60, 106..120, ...): the last `ty = *(uint32_t*)(py = py + 2)` / `tm = ...` of the unrolled loop (src/int/i15_montmul.c:177,179 aligned/aligned; :214 y aligned; :252 m aligned) loads y[len],y[len+1]; the upper half is never used. Out-of-object read when the operand object has exactly len+1 words; reproduced natively by ASan (stack-buffer-overflow).",
  "br_iXX_bit_length / br_iXX_decode return ((k-1)/W << s) + ((k-1)%W) + 1, i.e. the low field is W (not 0 with a carry) when k is a non-zero multiple of W; inner.h documents ((k/W) << s) + (k%W). All routines accept both forms (decided by the -altenc queries).",
 ],
 "mutants_tried": [
  "br_i15_add: carry out of word 2 dropped (`cc = (naw >> 15) & (u != 2)`): caught by all 13 i15-addsub-* queries (VIOLATION, native replay reproduces)",
  "br_i15_decode: `acc >>= 15` -> `acc >>= 16` after a full word: caught by i15-decode-0-7, -8-11, -12-13, -14-15",
  "br_i15_montymul, path (y aligned, m unaligned): `m2 = tm >> 16` -> `m2 = tm`: caught by align-value-z3-len4-y0-m1 and align-value-z3-len5-y0-m1 (FAIL with counterexample); the cvc5 twins align-value-len{4,5,8,9}-* then time out (INCONCLUSIVE, not PASS) - cvc5 proves the equivalence in seconds but does not find the counterexample, which is why the z3 twins exist",
  "br_i15_modpow_opt: `mwlen += (mwlen & 1)` removed: caught by i15-modpow_opt-bl16-tw6-e0 and -tw7-e0 (the first version of these queries, with a one-byte exponent, timed out instead: strengthened by the empty-exponent variant)",
  "br_i15_muladd_small: `under = ~over & (tb | LT(cc, hi))` -> `under = ~over & tb`: ESCAPED the first set (5-bit moduli and low-word-bounded 16..18-bit moduli); after adding the bounded-quotient family caught by i15-muladd-bl30-q2, -bl30-q2-altenc, -bl45-q2",
  "br_i31_decode_mod: `r = MUX(EQ(xw, 0), r, 1)` removed (value longer than the modulus accepted): caught by all 9 i31-decmod-* queries",
  "br_i15_mulacc: carry of the low header field dropped: ESCAPED the first set (15x15, 8x15, 15x3 never carry); after adding 8x8, 14x14 and the non-normalised 15x15 caught by those three",
  "inner.h MUX with swapped result (`x ^ (-ctl & (x ^ y))`): caught by prims-default (and transitively by most others)",
 ],
}

SWEEP = os.environ.get("C09_SWEEP", "")       # e.g. "cadical,kissat,z3,cvc5": clone every selected query per back end
BACKENDS = {None: "", "cadical": "cadical", "kissat": "kissat", "z3": "z3", "cvc5": "cvc5"}

PFX = {15: "i15", 31: "i31", 32: "i32"}


def U(w, *names):
    """repo-relative unit files of one word variant"""
    out = []
    for n in names:
        if n == "ninv":
            n = {15: "ninv15", 31: "ninv31", 32: "ninv32"}[w]
        if n == "div32":
            out.append("src/int/i32_div32.c")
        else:
            out.append("src/int/%s_%s.c" % (PFX[w], n))
    return out


def chunks(vals, w):
    """group concrete bit lengths so that each query stays cheap: one solver call
    decides all instances of an assertion together, and its cost grows faster than
    linearly with the number of instances"""
    out, cur = [], []
    for v in vals:
        nwords = (v + w - 1) // w
        cap = 32 if v <= 2 * 15 else (8 if nwords * w <= 64 else 3)
        if cur and (len(cur) >= cap or v != cur[-1] + 1 and len(cur) >= 3 or (cur[-1] <= 30) != (v <= 30)):
            out.append(cur)
            cur = []
        cur.append(v)
    if cur:
        out.append(cur)
    return out


def quick_set(w, top):
    """every residue mod W at one and at two words, and the word-boundary neighbourhoods above"""
    s = set(range(0, 2 * w + 3))
    for k in range(2, top // w + 1):
        s.update((k * w - 1, k * w, k * w + 1))
    s.update((32, 33, 63, 64, 65, 93, 96, top - 1, top))
    return sorted(v for v in s if v <= top)


def mf_queries():
    """multiplication-free routines, harness C09_bigint.c"""
    qs = []

    def add(w, test, vals, units, extra=(), tag="", config="host", tier="quick", what="", backend=None):
        if len(vals) > 1 and vals == list(range(vals[0], vals[-1] + 1)):
            rng = "%d-%d" % (vals[0], vals[-1])
        else:
            rng = "_".join(str(v) for v in vals)
        name = "%s-%s-%s%s" % (PFX[w], test.lower(), rng, tag)
        defs = ["-DW=%d" % w, "-DT_%s=1" % test, "-DLIST=" + ",".join(str(v) for v in vals)] + list(extra)
        # br_i32_encode's loops are bounded by the (here symbolic) announced length: give them their own bound
        uws = ["br_i32_encode.0:20", "br_i32_encode.1:8"] if (w == 32 and test == "DECODE") else []
        qs.append(Q(name, "C09_bigint.c", units=units, defs=defs, unwind=140, unwindset=uws, tier=tier, config=config, backend=backend,
                    timeout=240 if tier == "quick" else 900, desc=what + "; sizes {%s}" % rng))

    for w in (15, 31, 32):
        p = PFX[w]
        top = 120 if w != 32 else 96
        # decode + encode round trip, byte lengths 0..15
        for vals in ([0, 1, 2, 3, 4, 5, 6, 7], [8, 9, 10, 11], [12, 13], [14, 15]):
            add(w, "DECODE", vals, U(w, "decode", "encode", "bitlen"),
                what="br_%s_decode value/header for every byte string of the given byte lengths, then br_%s_encode round trip to the same, a shorter and a longer length" % (p, p))
        tests = [("ENCODE", ["encode"], top, "br_%s_encode == value mod 2^(8 len) big-endian for every value of the announced bit length, 4 output lengths each" % p),
                 ("DECMOD", ["decmod"], min(top, 112), "br_%s_decode_mod flag == (value < m), x == value or 0; every modulus value of the announced bit length, source of equal/shorter/longer byte length" % p),
                 ("ADDSUB", ["add", "sub"], top, "br_%s_add/sub carry and result vs __int128, ctl=0 is a no-op, a==b aliasing; every operand of the announced bit length" % p),
                 ("MISC", ["iszero"], top, "br_%s_iszero, br_%s_zero" % (p, p))]
        if w != 32:
            tests.append(("RSHIFT", ["rshift"], top, "br_%s_rshift == value >> count for every count 0..%d" % (p, 14 if w == 15 else 30)))
        for (t, un, tp, what) in tests:
            qset = quick_set(w, tp)
            for vals in chunks(qset, w):
                add(w, t, vals, U(w, *un), what=what)
            rest = [v for v in range(0, tp + 1) if v not in qset]
            for vals in chunks(rest, w):
                add(w, t, vals, U(w, *un), tier="thorough", what=what)
        nwmax = 8 if w == 15 else 4
        add(w, "BITLEN", list(range(0, nwmax + 1)), U(w, "bitlen"),
            what="br_%s_bit_length encodes the true bit length, every value of the given word counts" % p)
        if w == 15:
            add(w, "NINV", [0], U(w, "ninv"), what="x * ninv(x) == -1 mod 2^%d for every odd word x, 0 for even" % w)
            add(w, "NINV", [0], U(w, "ninv"), extra=["-DBR_CT_MUL15=1", "-DBR_CT_MUL31=1"], tag="-ctmul",
                what="same with BR_CT_MUL15/BR_CT_MUL31")
        else:
            # the 31/32-bit Newton iteration (8 dependent 32-bit multiplications) is not decided for all x by any back end
            add(w, "NINV", [0], U(w, "ninv"), extra=["-DXBITS=12"], tag="-x12", tier="thorough", backend="kissat",
                what="bounded: x * ninv(x) == -1 mod 2^%d for every odd x < 2^12" % w)
        if w != 32:
            # non-normalised header form at multiples of W (what bit_length/decode produce)
            for t, un in (("ENCODE", ["encode"]), ("DECMOD", ["decmod"]), ("ADDSUB", ["add", "sub"]),
                          ("MISC", ["iszero"]), ("RSHIFT", ["rshift"])):
                mult = [k for k in range(w, (105 if t == "DECMOD" else 120) + 1, w)]
                for vals in ([mult[0:2], mult[2:5], mult[5:]] if w == 15 else [mult]):
                    if vals:
                        add(w, t, vals, U(w, *un), extra=["-DALTENC=1"], tag="-altenc",
                            what="same claim with the non-normalised header ((k/W-1)<<s)+W that br_%s_bit_length/decode produce at multiples of %d" % (p, w))
    # esp-like configuration where the code path differs (byte-wise br_enc32be/br_dec32be)
    for w in (31, 32):
        p = PFX[w]
        add(w, "DECODE", [0, 1, 2, 3, 4, 5, 6, 7, 8, 9], U(w, "decode", "encode", "bitlen"), config="esp", tag="-esp",
            what="br_%s_decode/encode with the portable (no unaligned access) br_dec32be/br_enc32be" % p)
        add(w, "ENCODE", [0, 1, 8, 31, 32, 33, 40, 62, 63, 64], U(w, "encode"), config="esp", tag="-esp",
            what="br_%s_encode with the portable br_enc32be" % p)
    return qs


MUL_UNITS = {
    "MULADD": ["muladd", "add", "sub"],
    "MULACC": ["mulacc"],
    "MONTYMUL": ["montmul", "sub", "ninv"],
    "TMONT": ["tmont", "muladd", "add", "sub"],
    "FMONT": ["fmont", "sub", "ninv"],
    "REDUCE": ["reduce", "muladd", "add", "sub"],
    "DECRED": ["decred", "decode", "bitlen", "rshift", "muladd", "add", "sub"],
    "MODPOW": ["modpow", "tmont", "muladd", "add", "sub", "montmul", "ninv"],
    "MODPOW_OPT": ["modpow2", "tmont", "fmont", "muladd", "add", "sub", "montmul", "ninv"],
    "MODDIV": ["moddiv", "ninv"],
    "REDC_SELF": [],
}


def mul_units(w, test):
    names = [n for n in MUL_UNITS[test] if not (w == 32 and n == "rshift")]
    u = U(w, *names)
    if w != 15 and "muladd" in names:
        u.append("src/int/i32_div32.c")
    if test in ("MODPOW", "MODPOW_OPT"):
        u.append("src/codec/ccopy.c")
    return u


def mulq(w, test, bl, bl2=None, extra=(), tag="", backend=None, tier="quick", config="host", what="", timeout=None):
    name = "%s-%s-bl%d%s%s" % (PFX[w], test.lower(), bl, ("x%d" % bl2) if bl2 is not None else "", tag)
    defs = ["-DW=%d" % w, "-DT_%s=1" % test, "-DBL=%d" % bl] + (["-DBL2=%d" % bl2] if bl2 is not None else []) + list(extra)
    return Q(name, "C09_bigmul.c", units=mul_units(w, test), defs=defs, unwind=140, backend=backend, tier=tier, config=config,
             timeout=timeout or (240 if tier == "quick" else 900), desc=what)


def mul_queries():
    qs = []
    if os.environ.get("C09_PROBE"):
        # back-end sweep candidates: C09_PROBE="15:MULADD:15,15:MONTYMUL:30,..."
        for item in os.environ["C09_PROBE"].split(","):
            f = item.split(":")
            w, t, bl = int(f[0]), f[1], int(f[2])
            bl2 = int(f[3]) if len(f) > 3 and f[3] else None
            extra = f[4].split("+") if len(f) > 4 else []
            qs.append(mulq(w, t, bl, bl2, extra=extra, tag="".join(e.replace("-D", "-") for e in extra)))
        return qs
    MOD = ["-DUSE_MOD=1"]
    # back ends are the winners of a 60-120 s sweep over minisat/cadical/kissat/z3/cvc5 (per query family)
    # Montgomery multiplication, one word, real multiplier, == text-book REDC
    for bl in (1, 8, 14, 15):
        qs.append(mulq(15, "MONTYMUL", bl, extra=["-DALIAS_XY=1"], backend="cvc5",
                       what="br_i15_montymul == REDC(x*y) (x*y/R mod m, R=2^15), also montymul(d,x,x); every odd m of %d bits (announced), every x,y < m" % bl))
    qs.append(mulq(15, "MONTYMUL", 15, extra=["-DALIAS_XY=1", "-DBR_CT_MUL15=1"], tag="-ctmul", backend="cvc5",
                   what="same with BR_CT_MUL15"))
    qs.append(mulq(15, "MONTYMUL", 5, extra=MOD, tag="-mod", backend="kissat",
                   what="br_i15_montymul: d < m and d*2^15 == x*y (mod m) with a plain '%' reference (cross-checks the REDC formulation); m of 5 bits"))
    for w, bl in ((15, 8), (15, 15), (31, 16), (31, 31), (32, 20), (32, 32)):
        qs.append(mulq(w, "FMONT", bl, backend="cvc5",
                       what="br_%s_from_monty == REDC(x) (x/R mod m), one word; every odd m of %d bits, every x < m" % (PFX[w], bl)))
    qs.append(mulq(15, "FMONT", 5, extra=MOD, tag="-mod", backend="kissat", what="br_i15_from_monty: r < m and r*2^15 == x (mod m), '%' reference; m of 5 bits"))
    qs.append(mulq(31, "FMONT", 31, config="esp", tag="-esp", backend="cvc5", what="br_i31_from_monty, esp-like 32-bit configuration"))
    # mulacc, one word by one word
    for w, bl, bl2, extra in ((15, 15, 15, []), (15, 8, 15, []), (15, 15, 3, []), (15, 8, 8, []), (15, 14, 14, []), (15, 15, 15, ["-DALTENC=1"]),
                              (31, 31, 31, []), (31, 17, 31, []), (31, 20, 20, []), (31, 31, 31, ["-DALTENC=1"]), (32, 32, 32, []), (32, 32, 9, [])):
        qs.append(mulq(w, "MULACC", bl, bl2, extra=extra, tag="-altenc" if extra else "", backend="cvc5",
                       what="br_%s_mulacc: d + a*b exact and header = sum of announced lengths (incl. the carry of the low header field); a of %d bits, b of %d bits, every value%s" % (PFX[w], bl, bl2, ", non-normalised input headers" if extra else "")))
    for w in (31, 32):
        qs.append(mulq(w, "MULACC", w, w, config="esp", tag="-esp", backend="cvc5",
                       what="br_%s_mulacc with the BR_64=0 carry type (esp-like configuration)" % PFX[w]))
    # routines built on a division estimate: only moduli of a few bits finish
    qs.append(mulq(15, "MULADD", 5, extra=MOD, tag="-mod", backend="kissat", what="br_i15_muladd_small == (x*2^15 + z) mod m, every m of exactly 5 bits, x < m, z < 2^15"))
    qs.append(mulq(31, "MULADD", 5, extra=MOD, tag="-mod", backend="kissat", what="br_i31_muladd_small == (x*2^31 + z) mod m, every m of exactly 5 bits"))
    # multi-word path (quotient estimate from the top words, +-1 correction): bounded to moduli whose low word is nearly fixed
    for w, bl, ml, tier in ((15, 16, 2, "quick"), (15, 17, 2, "quick"), (15, 18, 1, "quick"), (15, 20, 1, "thorough"),
                            (31, 32, 1, "quick"), (31, 33, 1, "quick"), (32, 33, 1, "quick"), (32, 34, 1, "quick")):
        qs.append(mulq(w, "MULADD", bl, extra=["-DMLOWBITS=%d" % ml], tag="-ml%d" % ml, backend="kissat", tier=tier,
                       what="br_%s_muladd_small, two-word modulus of exactly %d bits (estimate-and-correct path), bounded: low word of m < 2^%d; every x < m, every z" % (PFX[w], bl, ml)))
    # every modulus of the given length, bounded quotient (x*2^W + z = Q*m + R0 with Q < 2^QBITS, every R0 < m):
    # this is where the estimate is off by one in either direction
    for w, bl, qb, extra, tier in ((15, 16, 2, [], "quick"), (15, 23, 2, [], "quick"), (15, 30, 2, [], "quick"), (15, 30, 2, ["-DALTENC=1"], "quick"),
                                   (15, 31, 2, [], "quick"), (15, 45, 2, [], "quick"), (15, 45, 3, [], "thorough"),
                                   (31, 32, 2, [], "quick"), (31, 45, 2, [], "quick"), (31, 62, 2, [], "quick"), (31, 62, 2, ["-DALTENC=1"], "quick"), (31, 45, 3, [], "thorough"),
                                   (32, 33, 2, [], "quick"), (32, 40, 2, [], "quick"), (32, 64, 2, [], "quick"), (32, 40, 3, [], "thorough")):
        qs.append(mulq(w, "MULADD", bl, extra=["-DQBITS=%d" % qb] + extra, tag="-q%d%s" % (qb, "-altenc" if extra else ""), backend="kissat", tier=tier,
                       what="br_%s_muladd_small, every modulus of exactly %d bits (multi-word estimate-and-correct path), every remainder; bounded: quotient (x*2^%d+z)/m < 2^%d" % (PFX[w], bl, w, qb)))
    # (the other end of the quotient range, -DQHIGH=1: quotient within 2^2 of 2^W - 1, gave no verdict in 240/900 s for any
    # variant on kissat; the top-words-equal branch of the estimate is reached by the *-ml* queries above, which are in the
    # quick tier for that reason - seeded change C10e)
    qs.append(mulq(15, "MULADD", 8, backend="kissat", tier="thorough", what="br_i15_muladd_small, every m of exactly 8 bits (operand = Q*m + R0 formulation)"))
    qs.append(mulq(15, "TMONT", 5, extra=MOD, tag="-mod", backend="kissat", what="br_i15_to_monty == x*2^15 mod m, m of exactly 5 bits"))
    qs.append(mulq(15, "TMONT", 8, backend="kissat", what="br_i15_to_monty == x*2^15 mod m, m of exactly 8 bits"))
    qs.append(mulq(31, "TMONT", 5, extra=MOD, tag="-mod", backend="kissat", what="br_i31_to_monty == x*2^31 mod m, m of exactly 5 bits"))
    for bl2 in (3, 10, 15, 20, 30):
        qs.append(mulq(15, "REDUCE", 5, bl2, backend="kissat", what="br_i15_reduce == a mod m, m of exactly 5 bits, a of announced length %d (shorter / 1 word / 2 words)" % bl2))
    for sl in (0, 1, 2, 3):
        qs.append(mulq(15, "DECRED", 5, extra=["-DSRCLEN=%d" % sl] + (MOD if sl < 1 else []), tag="-src%d" % sl, backend="kissat",
                       what="br_i15_decode_reduce == big-endian value of %d bytes mod m, m of exactly 5 bits" % sl))
    for w in (31, 32):
        for bl2 in (3, 10, 34):
            qs.append(mulq(w, "REDUCE", 5, bl2, backend="kissat", what="br_%s_reduce == a mod m, m of exactly 5 bits, a of announced length %d" % (PFX[w], bl2)))
        for sl in (0, 1, 2):
            qs.append(mulq(w, "DECRED", 5, extra=["-DSRCLEN=%d" % sl] + (MOD if sl < 1 else []), tag="-src%d" % sl, backend="kissat",
                           what="br_%s_decode_reduce == big-endian value of %d bytes mod m, m of exactly 5 bits" % (PFX[w], sl)))
    # control structure of the exponentiations (bit scanning, windows, conditional copies): tiny modulus, symbolic exponent byte
    qs.append(mulq(15, "MODPOW", 4, backend="kissat", what="br_i15_modpow == x^e mod m for every exponent byte e, every odd m of exactly 4 bits, x < m"))
    mw = 2
    for tw in (3, 4, 9, 10, 17, 18, 33, 34, 65, 66, 70):
        win = 0 if tw < 2 * mw else max(k for k in (1, 2, 3, 4, 5) if k == 1 or ((1 << k) + 1) * mw <= tw)
        qs.append(mulq(15, "MODPOW_OPT", 4, extra=["-DTWLEN=%d" % tw], tag="-tw%d" % tw, backend="kissat",
                       tier="quick" if tw <= 34 else "thorough",
                       what="br_i15_modpow_opt with tmp[] of exactly %d words (%s): return value, tmp[%d] untouched, result == x^e mod m for every exponent byte; odd m of exactly 4 bits"
                            % (tw, "too short: must return 0" if win == 0 else "window %d" % win, tw)))
    # two-word modulus: the even-word rounding of the temporaries decides acceptance.  Empty exponent (x^0), so that
    # the verdict (return value, no access outside tmp[0..twlen)) does not have to wait for two-word arithmetic.
    for w, bl in ((15, 16), (15, 30), (31, 32)):
        for tw in (5, 6, 7, 8, 19, 20):
            qs.append(mulq(w, "MODPOW_OPT", bl, extra=["-DTWLEN=%d" % tw, "-DELEN=0"], tag="-tw%d-e0" % tw, backend="kissat",
                           what="br_%s_modpow_opt, 2-word modulus (3 words with header, rounded up to 4), empty exponent: returns 0 iff twlen %d < 8; tmp[] of exactly %d words, no access outside it (result value not checked here)" % (PFX[w], tw, tw)))
    qs.append(mulq(15, "MODPOW", 5, backend="kissat", tier="thorough", what="br_i15_modpow == x^e mod m, every exponent byte, odd m of exactly 5 bits"))
    qs.append(mulq(31, "MODPOW", 4, backend="kissat", tier="thorough", what="br_i31_modpow == x^e mod m, every exponent byte, odd m of exactly 4 bits"))
    qs.append(mulq(32, "MODPOW", 4, backend="kissat", tier="thorough", what="br_i32_modpow == x^e mod m, every exponent byte, odd m of exactly 4 bits"))
    qs.append(mulq(31, "MODPOW_OPT", 4, extra=["-DTWLEN=10"], tag="-tw10", backend="kissat", tier="thorough",
                   what="br_i31_modpow_opt, window 2, == x^e mod m, every exponent byte, odd m of exactly 4 bits"))
    qs.append(mulq(15, "MODDIV", 6, backend="kissat", tier="thorough", what="br_i15_moddiv, every odd m < 2^6"))
    qs.append(mulq(15, "MODDIV", 5, backend="kissat", what="br_i15_moddiv: returns 1 iff gcd(y,m)=1 and then r*y == x mod m; every odd m < 2^5, x,y < m"))
    return qs


def divrem_queries():
    qs = []
    u = ["src/int/i32_div32.c"]

    def add(name, defs, backend, tier, to, what):
        qs.append(Q("divrem-" + name, "C09_divrem.c", units=u, defs=defs, unwind=33, backend=backend, tier=tier,
                    timeout=to, desc=what))
    # No back end (minisat, cadical, kissat, z3, cvc5) decides br_divrem for all 2^96 inputs or for d < 2^16
    # within 900 s, neither against q*d+r == n nor against a text-book long division; what is decided:
    add("dmax16", ["-DDMAX=16"], "kissat", "quick", 240,
        "br_divrem: r < d and q*d + r == hi:lo for every hi < d, every lo, divisor bounded d < 16")
    add("dmax16-hi_eq_d", ["-DDMAX=16", "-DHI_EQ_D=1"], "kissat", "quick", 240,
        "br_divrem documented hi == d case: remainder exact, quotient truncated to 32 bits; d < 16")
    add("wrappers", ["-DDMAX=4", "-DT_WRAP=1"], "kissat", "quick", 240,
        "br_rem / br_div return the remainder / quotient of br_divrem (d < 4)")
    add("law-base", ["-DLAWK=-1"], None, "quick", 240, "br_divrem: N < d gives (0, N), every 32-bit d")
    for k, be, tier in ((0, None, "quick"), (1, None, "quick"), (2, "kissat", "thorough"), (3, "kissat", "thorough"), (4, "kissat", "thorough")):
        add("law-k%d" % k, ["-DLAWK=%d" % k], be, tier, 240 if tier == "quick" else 900,
            "br_divrem splitting law at quotient bit %d (every 32-bit d); with law-base and law-k0..k%d: exact for every quotient < 2^%d" % (k, k, k + 1))
    return qs


def align_queries():
    """port-specific 32-bit-load paths of br_i15_montymul, harness C09_align.c (#includes the real file)"""
    qs = []
    sub = ["src/int/i15_sub.c"]
    nat = ["src/int/i15_sub.c"]
    offs = ((0, 0), (0, 1), (1, 0), (1, 1))
    # (a) memory safety with exact-size operand objects
    for ln in (1, 2, 3, 4, 5, 6, 7, 8, 9, 12):
        for (yo, mo) in offs:
            if ln in (1, 2, 6, 7, 8, 9, 12) and (yo, mo) in ((0, 1), (1, 0)):
                continue
            if ln == 12 and (yo, mo) == (0, 0):
                continue   # same over-read as len 4 and 8 (decided there); each failing query costs minutes of trace extraction
            qs.append(Q("align-memsafe-len%d-y%d-m%d" % (ln, yo, mo), "C09_align.c", units=sub, native_units=nat,
                        defs=["-DT_MEMSAFE=1", "-DLEN=%d" % ln, "-DYOFF=%d" % yo, "-DMOFF=%d" % mo, "-DXOFF=%d" % mo, "-DDOFF=%d" % yo],
                        unwind=40, timeout=240,
                        desc="br_i15_montymul, %d value words, y at uint16_t offset %d (%s), m at offset %d (%s), every operand an object of exactly offset+%d words: no access outside any operand object, no UB, for every content"
                             % (ln, yo, "4-byte aligned" if yo == 0 else "2-byte aligned", mo, "4-byte aligned" if mo == 0 else "2-byte aligned", ln + 1)))
    for ln in (4, 5, 8):
        qs.append(Q("align-memsafe-base2-len%d-y0-m0" % ln, "C09_align.c", units=sub, native_units=nat,
                    defs=["-DT_MEMSAFE=1", "-DBASE2=1", "-DLEN=%d" % ln], unwind=40, timeout=240, checks=False,
                    desc="same with object bases modelled at addresses = 2 mod 4 (2-byte-aligned operands with nothing in front of them): no out-of-object access (forming the pointer y-1 / m-1, never dereferenced, is not checked here)"))
    # (b) value independence of alignment: == plain word-serial loop, uninterpreted multiplier
    for ln, tier in ((1, "quick"), (3, "quick"), (4, "quick"), (5, "quick"), (8, "quick"), (9, "quick"),
                     (6, "thorough"), (7, "thorough"), (12, "thorough"), (13, "thorough"), (18, "thorough"), (35, "thorough")):
        for (yo, mo) in offs:
            if ln in (1, 3) and (yo, mo) in ((0, 1), (1, 0)):
                continue
            qs.append(Q("align-value-len%d-y%d-m%d" % (ln, yo, mo), "C09_align.c", units=sub, native_units=nat,
                        defs=["-DT_VALUE=1", "-DLEN=%d" % ln, "-DYOFF=%d" % yo, "-DMOFF=%d" % mo], unwind=2 * ln + 8, backend="cvc5",
                        tier=tier, timeout=240 if tier == "quick" else 900,
                        desc="br_i15_montymul (alignment-specific 32-bit-load path y:%s m:%s) == word-serial Montgomery loop with 16-bit reads, %d words, every content; MUL15 uninterpreted on both sides"
                             % ("aligned" if yo == 0 else "unaligned", "aligned" if mo == 0 else "unaligned", ln)))
    # the same claim on z3 at 4 and 5 words: cvc5 proves the equivalence fast but does not produce a counterexample
    # within the budget when a path is wrong (mutant run: timeouts); z3 does (22 s)
    for ln in (4, 5):
        for (yo, mo) in offs:
            qs.append(Q("align-value-z3-len%d-y%d-m%d" % (ln, yo, mo), "C09_align.c", units=sub, native_units=nat,
                        defs=["-DT_VALUE=1", "-DLEN=%d" % ln, "-DYOFF=%d" % yo, "-DMOFF=%d" % mo], unwind=2 * ln + 8, backend="z3",
                        timeout=240, desc="same claim as align-value-len%d-y%d-m%d, decided by z3 (counterexample-capable back end)" % (ln, yo, mo)))
    return qs


def coreduce_queries():
    """static co_reduce_mod + finish_mod of br_i15_moddiv / br_i31_moddiv (main session; seeded change C09e):
    modulus and factor tuple concrete per query, a and b symbolic (every pair < m).  A symbolic modulus or symbolic
    factors give no verdict in 200 s on cadical/kissat/z3/cvc5 (Montgomery identity = symbolic multiplications), and
    neither do factors of high Hamming weight (300 s, z3): the tuples are sums of at most two powers of two."""
    qs = []
    tuples15 = [(16384, -16384, -8192, 24576), (32768, 0, 0, 32768), (-32768, 0, 16384, 16384), (24576, 8192, -20480, 12288), (-16384, 16384, 4096, -28672), (0, 32768, -32768, 0)]
    mods15 = [("7fff", 0x7FFF, 0, 1), ("4001", 0x4001, 0, 1), ("6487", 0x6487, 0, 1), ("3fff", 0x3FFF, 0, 1), ("0005", 5, 0, 1),
              ("7fff_7fff", 0x7FFF, 0x7FFF, 2), ("1235_4000", 0x1235, 0x4000, 2), ("7ffd_0001", 0x7FFD, 1, 2)]
    for (mn, m0, m1, ln) in mods15:
        for ti, t in enumerate(tuples15):
            if ln == 2 and ti == 3 and mn != "7ffd_0001":
                continue      # two full words with this factor tuple: no verdict in 300 s (z3)
            quick = (ti in (0, 3) and mn in ("7fff", "4001", "3fff")) or (ti == 2 and ln == 2)
            qs.append(Q("i15-coreduce-m%s-t%d" % (mn, ti), "C09_moddiv_unit.c", units=[], defs=["-DIMPL=15", "-DLEN=%d" % ln, "-DMC0=%d" % m0, "-DMC1=%d" % m1,
                        "-DPA=%d" % t[0], "-DPB=%d" % t[1], "-DQA=%d" % t[2], "-DQB=%d" % t[3]], unwind=6, timeout=300, backend="z3", checks=False, flags=["--no-standard-checks"],
                        tier="quick" if quick else "thorough",
                        desc="i15_moddiv.c co_reduce_mod+finish_mod: a' = (a*pa+b*pb)/2^15 mod m, b' likewise, fully reduced clean words, for EVERY a, b < m; modulus %s (%d word(s)) and factors %s concrete" % (mn, ln, t)))
    tuples31 = [(1 << 30, -(1 << 30), -(1 << 29), 3 << 29), (3 << 29, 1 << 29, -(5 << 28), 3 << 28)]
    for (mn, m0) in (("7fffffff", 0x7FFFFFFF), ("40000001", 0x40000001), ("3fffffff", 0x3FFFFFFF)):
        for ti, t in enumerate(tuples31):
            qs.append(Q("i31-coreduce-m%s-t%d" % (mn, ti), "C09_moddiv_unit.c", units=[], defs=["-DIMPL=31", "-DLEN=1", "-DMC0=%d" % m0, "-DMC1=0",
                        "-DPA=%d" % t[0], "-DPB=%d" % t[1], "-DQA=%d" % t[2], "-DQB=%d" % t[3]], unwind=6, timeout=300, backend="z3", checks=False, flags=["--no-standard-checks"],
                        tier="quick" if (ti == 0 and mn == "7fffffff") else "thorough",
                        desc="i31_moddiv.c co_reduce_mod+finish_mod: a' = (a*pa+b*pb)/2^31 mod m for EVERY a, b < m; one-word modulus %s and factors %s concrete" % (mn, t)))
    return qs


def queries():
    qs = []
    for nm, defs in (("default", []), ("ctmul_noarsh", ["-DBR_CT_MUL31=1", "-DBR_CT_MUL15=1", "-DBR_NO_ARITH_SHIFT=1"])):
        qs.append(Q("prims-" + nm, "C09_prims.c", defs=defs, unwind=33,
                    desc="inner.h NOT MUX EQ NEQ GT GE LT LE CMP EQ0 GT0 GE0 LT0 LE0 MIN MAX BIT_LENGTH ARSH, all 2^64 operand pairs"))
    # MUL31 / MUL31_lo with BR_CT_MUL31 (biased 32x32->64 multiplication) are not decided: no back end finishes
    # within 240 s, not even with one operand bounded to 6 bits (see META outside_claim)
    for t, d, be in (("mul31", ["-DT_MUL31=1"], None), ("mul31lo", ["-DT_MUL31LO=1"], None), ("mul15", [], None)):
        qs.append(Q("prims-%s" % t, "C09_mul.c", defs=d, unwind=33, backend=be,
                    desc="%s macro == plain multiplication on its documented domain" % t.upper()))
    qs.append(Q("prims-mul15-ctmul", "C09_mul.c", defs=["-DBR_CT_MUL15=1", "-DBR_CT_MUL31=1"], unwind=33, backend="kissat",
                desc="MUL15 macro (BR_CT_MUL15 variant) == plain multiplication whenever the operand bit lengths sum to <= 31"))
    qs += divrem_queries()
    qs += mf_queries()
    qs += align_queries()
    qs += mul_queries()
    qs += coreduce_queries()
    if os.environ.get('C09_PROBE'):
        qs = mul_queries()
    if SWEEP:
        out = []
        for q in qs:
            for be in SWEEP.split(","):
                q2 = Q(q.name + "@" + be, q.harness, units=q.units, defs=q.defs, unwind=q.unwind, unwindset=q.unwindset,
                       tier=q.tier, timeout=int(os.environ.get("C09_SWEEP_TO", "60")), backend=(None if be == "minisat" else be),
                       config=q.config, desc=q.desc, witness=False)
                out.append(q2)
        return out
    return qs
