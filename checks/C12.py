from verif import Q

META = {
 "level_text": "",
 "level_note": "",
 "technique": "bounded symbolic model checking (CBMC/SAT)",
 "assumptions": [],
 "outside_claim": [],
 "mutants_tried": [],
}

SC = "src/symcipher/"
IMPLK = {"aes_big": 1, "aes_small": 2, "aes_ct": 3, "aes_ct64": 4, "des_tab": 5, "des_ct": 6}
# units linked under CBMC when the core is the uninterpreted stand-in
UF_UNITS = {
 "aes_big": [SC + "aes_common.c"], "aes_small": [SC + "aes_common.c"],
 "aes_ct": [SC + "aes_ct.c"], "aes_ct64": [SC + "aes_ct64.c", "src/codec/dec32le.c", "src/codec/enc32le.c"],
 "des_tab": [SC + "des_support.c"], "des_ct": [SC + "des_support.c"],
}
# real units (native replay; real-core queries)
REAL_UNITS = {
 "aes_big": [SC + "aes_common.c", SC + "aes_big_enc.c", SC + "aes_big_dec.c"],
 "aes_small": [SC + "aes_common.c", SC + "aes_small_enc.c", SC + "aes_small_dec.c"],
 "aes_ct": [SC + "aes_ct.c", SC + "aes_ct_enc.c", SC + "aes_ct_dec.c"],
 "aes_ct64": [SC + "aes_ct64.c", SC + "aes_ct64_enc.c", SC + "aes_ct64_dec.c", "src/codec/dec32le.c", "src/codec/enc32le.c"],
 "des_tab": [SC + "des_tab.c", SC + "des_support.c"],
 "des_ct": [SC + "des_ct.c", SC + "des_support.c"],
}
NATIVE_REF = {
 16: [SC + "aes_common.c", SC + "aes_small_enc.c", SC + "aes_small_dec.c"],
 8: [SC + "des_tab.c", SC + "des_support.c", SC + "des_tab_cbcenc.c", SC + "des_tab_cbcdec.c"],
}

# (mode name, file suffix, run function suffix, MODE of C12_modes.c, MODE of C12_split.c)
AES_MODES = [
 ("cbcenc", "cbcenc", "cbcenc_run", 1, 1),
 ("cbcdec", "cbcdec", "cbcdec_run", 2, 1),
 ("ctr", "ctr", "ctr_run", 3, 2),
 ("ctrcbc-enc", "ctrcbc", "ctrcbc_encrypt", 4, 3),
 ("ctrcbc-dec", "ctrcbc", "ctrcbc_decrypt", 5, 3),
 ("ctrcbc-ctr", "ctrcbc", "ctrcbc_ctr", 6, 4),
 ("ctrcbc-mac", "ctrcbc", "ctrcbc_mac", 7, 5),
]
DES_MODES = [("cbcenc", "cbcenc", "cbcenc_run", 1, 1), ("cbcdec", "cbcdec", "cbcdec_run", 2, 1)]


def uniq(l):
    out = []
    for x in l:
        if x not in out:
            out.append(x)
    return out


def modes_q(impl, m, klen, length, do_ref, s_lo, s_hi, tier="quick", backend=None, timeout=None, keycheck=None, config="host"):
    (mname, fsuf, rsuf, mode, _) = m
    bs = 16 if impl.startswith("aes") else 8
    modefile = SC + "%s_%s.c" % (impl, fsuf)
    what = []
    if keycheck is None:
        keycheck = 0 if impl in ("aes_ct64", "des_ct") else 1
    elif keycheck:
        what.append("keys")
    if do_ref:
        what.append("def")
    if s_lo <= s_hi:
        what.append("S%d" % s_lo if s_lo == s_hi else "S%d-%d" % (s_lo, s_hi))
    d = []
    if do_ref:
        d.append("br_%s_%s == textbook mode (SP 800-38A CBC/CTR, CBC-MAC) over the block function for every %d-byte key, IV/counter (32-bit wrap / 128-bit carries incl.), MAC state and %d data bytes, in place, final chaining state incl." % (impl, rsuf, klen, length))
    if s_lo <= s_hi:
        d.append("br_%s_%s: run(d,%d) == run(d,S);run(d+S,%d-S) with the chaining state carried, S in %d..%d step %d" % (impl, rsuf, length, length, s_lo, s_hi, bs))
    if config != "host":
        what.append(config)
    return Q("modes-%s-%s-K%d-L%d-%s" % (impl, mname, klen, length, "+".join(what)), "C12_modes.c", config=config,
             units=UF_UNITS[impl] + [modefile],
             native_units=uniq(REAL_UNITS[impl] + NATIVE_REF[bs] + [modefile]),
             defs=["-DIMPLK=%d" % IMPLK[impl], "-DMODE=%d" % mode, "-DKEYS_T=br_%s_%s_keys" % (impl, fsuf),
                   "-DINIT=br_%s_%s_init" % (impl, fsuf), "-DRUN=br_%s_%s" % (impl, rsuf), "-DKLEN=%d" % klen, "-DLEN=%d" % length,
                   "-DDO_REF=%d" % do_ref, "-DS_LO=%d" % s_lo, "-DS_HI=%d" % s_hi, "-DC12_KEYCHECK=%d" % keycheck],
             unwind=max(292 if bs == 8 else 125, length + 3), tier=tier, backend=backend,
             timeout=timeout or (900 if tier == "thorough" else 240),
             desc="; ".join(d) + (" (stand-in core checks round count and round-key contents/pointer)" if keycheck else " (round-key contents handed to the core are decided in the one-block -keys query of this entry point)") + " [block function = uninterpreted E/D bound at the core link seam; real key schedule, mode file, ortho/interleave]")


def modes_family(impl, m, klen, length, grouped, **kw):
    bs = 16 if impl.startswith("aes") else 8
    qs = []
    if impl in ("aes_ct64", "des_ct"):
        kk = dict(kw)
        kk["backend"] = "kissat"
        qs.append(modes_q(impl, m, klen, bs, 1, 1, 0, keycheck=1, **kk))
    pts = [x for x in range(0, length + 1, bs) if m[3] == 3 or (length - x) % bs == 0]
    if grouped == 1:
        return qs + [modes_q(impl, m, klen, length, 1, 0, length, **kw)]
    if grouped == 2:
        h = len(pts) // 2
        return qs + [modes_q(impl, m, klen, length, 1, pts[0], pts[h - 1], **kw),
                     modes_q(impl, m, klen, length, 0, pts[h], pts[-1], **kw)]
    qs.append(modes_q(impl, m, klen, length, 1, 1, 0, **kw))
    for x in pts:
        qs.append(modes_q(impl, m, klen, length, 0, x, x, **kw))
    return qs


def comp_queries():
    qs = []
    qs.append(Q("aes-sbox-table", "C12_aescomp.c", units=[SC + "aes_common.c"], defs=["-DWHAT=0"], unwind=258,
                desc="br_aes_S[x] == FIPS-197 5.1.1 definition (inverse in GF(2^8) then affine map) for all 256 x; permutation"))
    qs.append(Q("aes-ct-components", "C12_aescomp.c", units=[SC + "aes_common.c"] + REAL_UNITS["aes_ct"], defs=["-DWHAT=1"], unwind=20,
                desc="br_aes_ct_ortho == documented bit transposition, involution (all 2^256 states); mode-file load+ortho == bitslice layout; br_aes_ct_bitslice_Sbox == br_aes_S in all 32 lanes (32 symbolic bytes); invSbox o Sbox == Sbox o invSbox == id per lane"))
    qs.append(Q("aes-ct64-components", "C12_aescomp.c", units=[SC + "aes_common.c"] + REAL_UNITS["aes_ct64"], defs=["-DWHAT=2"], unwind=20,
                desc="br_aes_ct64_ortho == documented bit transposition, involution (all 2^512 states); interleave_in/out mutually inverse; load+interleave+ortho == bitslice layout; br_aes_ct64_bitslice_Sbox == br_aes_S in all 64 lanes; invSbox o Sbox == Sbox o invSbox == id per lane"))
    for klen in (16, 24, 32):
        for ks, nm, units in ((1, "common", [SC + "aes_common.c"]),
                              (3, "ct", [SC + "aes_common.c", SC + "aes_ct.c"]), (4, "ct64", [SC + "aes_common.c", SC + "aes_ct64.c", "src/codec/dec32le.c"])):
            fn = {1: "br_aes_keysched (aes_big/aes_small)", 2: "br_aes_big_keysched_inv", 3: "br_aes_ct_keysched + br_aes_ct_skey_expand", 4: "br_aes_ct64_keysched + br_aes_ct64_skey_expand"}[ks]
            qs.append(Q("aes-keysched-%s-K%d" % (nm, klen), "C12_aescomp.c", units=units,
                        defs=["-DWHAT=3", "-DKS=%d" % ks, "-DKLEN=%d" % klen], unwind=245, tier="quick" if klen != 24 else "thorough",
                        desc="%s == FIPS-197 5.2 KeyExpansion: the produced round keys (decoded from the implementation's documented format, all lanes alike) start with the key and satisfy w[i] = w[i-Nk] ^ g_i(w[i-1]) at every i, every %d-byte key" % (fn, klen)))
    qs.append(Q("aes-big-tables-dec", "C12_aescomp.c", units=[SC + "aes_common.c"], defs=["-DWHAT=4"], unwind=258,
                desc="aes_big_dec.c: mul2/mul9/mulb/muld/mule == GF(2^8) multiplication by 2/9/11/13/14, iS == inverse of br_aes_S, iSsm0[x] == InvMixColumns column of iS[x]; all 256 x"))
    qs.append(Q("aes-big-tables-enc", "C12_aescomp.c", units=[SC + "aes_common.c"], defs=["-DWHAT=5"], unwind=20,
                desc="aes_big_enc.c: Ssm0[x] == MixColumns column {02,01,01,03}.S[x]; all 256 x"))
    for klen in (16, 24, 32):
        qs.append(Q("aes-keysched-big-inv-K%d" % klen, "C12_aescomp.c", units=[SC + "aes_common.c"],
                    defs=["-DWHAT=3", "-DKS=2", "-DKLEN=%d" % klen], unwind=245, backend="cvc5", tier="quick" if klen != 24 else "thorough",
                    desc="br_aes_big_keysched_inv == br_aes_keysched with InvMixColumns (matrix rows {0e,0b,0d,09}; multipliers = the file's mule/mulb/muld/mul9, see aes-big-tables-dec) on round keys 1..Nr-1 only, every %d-byte key" % klen))
    qs.append(Q("aes-ct64-skey-expand", "C12_aescomp.c", units=[SC + "aes_ct64.c", "src/codec/dec32le.c"], defs=["-DWHAT=3", "-DKS=5", "-DKLEN=32"], unwind=245,
                desc="br_aes_ct64_skey_expand == nibble replication of every bit of every compressed word (30 symbolic 64-bit words, 14 rounds)"))
    return qs


def round_q(impl, direction, nr, tier="quick", backend=None, timeout=None):
    k = IMPLK[impl]
    core = {1: "br_aes_big_%s", 2: "br_aes_small_%s", 3: "br_aes_ct_bitslice_%s", 4: "br_aes_ct64_bitslice_%s"}[k] % ("decrypt" if direction else "encrypt")
    return Q("aes-core-%s-%s-NR%d" % (impl, "dec" if direction else "enc", nr), "C12_aesround.c",
             units=uniq([SC + "aes_common.c"] + REAL_UNITS[impl]),
             defs=["-DIMPL=%d" % k, "-DDIR=%d" % direction, "-DNR=%d" % nr], unwind=258, tier=tier, backend=backend,
             timeout=timeout or (900 if tier == "thorough" else 240),
             desc="%s with %d round(s) == FIPS-197 %s (reference in the harness) for every sequence of round keys and every block%s" %
                  (core, nr, "InvCipher" if direction else "Cipher", {3: ", both lanes independent", 4: ", all four lanes independent"}.get(k, "")))


def split_q(impl, m, klen, length, tier="quick", backend="z3", timeout=None):
    import os
    backend = os.environ.get("C12_SPLIT_BE", backend)
    (mname, fsuf, rsuf, _, mode) = m
    bs = 16 if impl.startswith("aes") else 8
    return Q("split-%s-%s-K%d-L%d" % (impl, mname, klen, length), "C12_split.c",
             units=uniq(REAL_UNITS[impl] + [SC + "%s_%s.c" % (impl, fsuf)]),
             defs=["-DMODE=%d" % mode, "-DKEYS_T=br_%s_%s_keys" % (impl, fsuf), "-DINIT=br_%s_%s_init" % (impl, fsuf),
                   "-DRUN=br_%s_%s" % (impl, rsuf), "-DKLEN=%d" % klen, "-DBS=%d" % bs, "-DLEN=%d" % length],
             unwind=max(132 if bs == 8 else 70, length + 3), tier=tier, backend=backend,
             timeout=timeout or (900 if tier == "thorough" else 240),
             desc="REAL key schedule and REAL cipher core: br_%s_%s run(d,%d) == run(d,S);run(d+S,%d-S) with the chaining state carried, every admissible S (multiples of %d, 0 and LEN incl.), every %d-byte key, IV/counter/MAC state, data"
                  % (impl, rsuf, length, length, bs, klen))


def des_queries():
    qs = []
    for lo in (0, 4, 8, 12):
        qs.append(Q("des-fconf-tab-vs-ct-R%d-%d" % (lo, lo + 3), "C12_des.c", units=[SC + "des_support.c"],
                    defs=["-DWHAT=1", "-DR_LO=%d" % lo, "-DR_HI=%d" % (lo + 3)], unwind=300, backend="kissat",
                    desc="des_tab Fconf (tables) == des_ct Fconf (bitsliced multiplexer circuit) under the subkeys of the respective real key schedules, rounds %d..%d, every 8-byte key and every half block: E, key mixing, 8 S-boxes, P, PC-1/PC-2 in both layouts, br_des_ct_skey_expand" % (lo, lo + 3)))
    for klen in (8,):
        for dec in (0, 1):
            qs.append(Q("des-block-tab-vs-ct-K%d-%s" % (klen, "dec" if dec else "enc"), "C12_des.c",
                        units=[SC + "des_support.c", SC + "des_tab_cbcenc.c", SC + "des_tab_cbcdec.c", SC + "des_ct_cbcenc.c", SC + "des_ct_cbcdec.c"],
                        defs=["-DWHAT=2", "-DKLEN=%d" % klen, "-DDEC=%d" % dec], unwind=300, tier="thorough", backend="kissat", timeout=900,
                        desc="br_des_tab_process_block == br_des_ct_process_block, %s key schedule of %d-byte key, every key and block" % ("decryption" if dec else "encryption", klen)))
    for impl, sel in (("des_tab", 1), ("des_ct", 2)):
        for klen, nblk in ((8, 2), (24, 1)):
            if impl == "des_ct" and klen == 24:
                continue    # no verdict within the cap on any back end
            qs.append(Q("des-cbc-roundtrip-%s-K%d-B%d" % (impl, klen, nblk), "C12_des.c",
                        units=REAL_UNITS[impl] + [SC + impl + "_cbcenc.c", SC + impl + "_cbcdec.c"],
                        defs=["-DWHAT=3", "-DIMPLSEL=%d" % sel, "-DKLEN=%d" % klen, "-DNBLK=%d" % nblk], unwind=300, tier="thorough", backend="kissat", timeout=900,
                        desc="br_%s_cbcdec_run(br_%s_cbcenc_run(x)) == x and final IVs agree, real cores and key schedules, %d block(s), every %d-byte key, IV, data" % (impl, impl, nblk, klen)))
    return qs


def chacha_queries():
    qs = []
    for length, tier in ((64, "quick"), (70, "quick"), (128, "quick"), (200, "thorough")):
        qs.append(Q("chacha20-ct-vs-rfc7539-L%d" % length, "C12_chacha.c", units=[SC + "chacha20_ct.c"], defs=["-DLEN=%d" % length],
                    unwind=max(70, length + 3), backend="cvc5", tier=tier, timeout=900 if tier == "thorough" else 240,
                    desc="br_chacha20_ct_run == RFC 7539 2.3/2.4 reference (quarter rounds written in the harness), %d bytes, every key, nonce, start counter (wrap incl.); returned counter == start + blocks" % length))
    qs.append(Q("split-chacha20_ct-L150", "C12_split.c", units=[SC + "chacha20_ct.c"],
                defs=["-DMODE=6", "-DRUN=br_chacha20_ct_run", "-DKLEN=32", "-DBS=64", "-DLEN=150"], backend="cvc5",
                unwind=153, desc="br_chacha20_ct_run: run(d,150) == run(d,S);run(d+S,150-S), S in {0,64,128}, returned block counter carried (wrap incl.); key, nonce, counter, data symbolic"))
    return qs


def ghash_poly_queries():
    qs = []
    H = "src/hash/"
    qs.append(Q("ghash-bmul32-kernel", "C12_ghash.c", defs=["-DWHAT=1", "-DKER=2"], unwind=40, backend="cadical",
                desc="ghash_ctmul32.c bmul32(x,y) == low 32 bits of the carry-less product (bitwise reference), rev32 == bit reversal; all 2^64 operand pairs"))
    G = {1: H + "ghash_ctmul.c", 2: H + "ghash_ctmul32.c", 3: H + "ghash_ctmul64.c"}
    GN = {0: "ref", 1: "ctmul", 2: "ctmul32", 3: "ctmul64"}
    for a in (1, 2, 3):
        qs.append(Q("ghash-structure-%s" % GN[a], "C12_ghash.c", units=[G[a]],
                    defs=["-DWHAT=3", "-DIMPL_A=%d" % a, "-DLEN=21"], unwind=40, backend="cvc5",
                    desc="br_ghash_%s: short final block (21 bytes) processed as zero-padded; ghash over 32 bytes == two 16-byte calls with y carried; zero-length call is a no-op; real multiplication code, every y, h, data" % GN[a]))
    for a in (1, 2, 3):
        for lo in range(0, 128, 16):
            qs.append(Q("ghash-units-%s-I%d-%d" % (GN[a], lo, lo + 15), "C12_ghash.c", units=[G[a]],
                        defs=["-DWHAT=4", "-DIMPL_A=%d" % a, "-DI_LO=%d" % lo, "-DI_HI=%d" % (lo + 15)], unwind=130, objbits=12,
                        tier="quick" if (a == 2 and lo == 0) else "thorough", timeout=900,
                        desc="br_ghash_%s == bitwise GF(2^128) reference (SP 800-38D 6.3) when one operand is the unit vector e_i, i in %d..%d, and the other operand is arbitrary (both orders: x=e_i with every h; h=e_i with every x)" % (GN[a], lo, lo + 15)))
    P = {1: [SC + "poly1305_ctmul.c"], 2: [SC + "poly1305_ctmul32.c"],
         3: [SC + "poly1305_i15.c", "src/int/i15_decmod.c", "src/int/i15_add.c", "src/int/i15_montmul.c", "src/int/i15_sub.c", "src/int/i15_encode.c"]}
    PN = {1: "ctmul", 2: "ctmul32", 3: "i15"}
    qs.append(Q("poly1305-ctmul-vs-ctmul32-D0-A0", "C12_poly.c", units=P[1] + P[2] + ["src/codec/enc64le.c"],
                defs=["-DPA=1", "-DPB=2", "-DDLEN=0", "-DALEN=0"], unwind=70, backend="cadical",
                desc="br_poly1305_ctmul_run == br_poly1305_ctmul32_run, empty data and AAD (one footer block: 2^128 * r mod p + s), every key/nonce (r, s arbitrary via a toy ChaCha20 at the function-pointer seam)"))
    return qs


def cbcrt_queries():
    # AES CBC decrypt(encrypt(x)) == x with the real cores (C12_cbcrt.c), one block, was attempted on
    # kissat / cadical / z3 with a 300 s cap for each of the four implementations: no verdict -> dropped.
    return []


SPLIT_BE = {
 # back-end sweep result (minisat / cadical / kissat / z3 / cvc5) for the real-core splitting law.
 # Default cvc5 (aes_big, aes_small, des_tab, des_ct: the core calls on both sides are the same word-level terms).
 # "L32": differently packed bitsliced batches on the two sides need a bit-level proof: two blocks, kissat.
 # None: no verdict on any back end even at two blocks -> dropped (mode logic of these entry points is
 # covered by the modes-* queries, lane-wise action of the core by aes-core-*/aes-inner-*).
 ("aes_ct", "cbcenc"): "z3", ("aes_ct", "cbcdec"): "z3", ("aes_ct", "ctr"): "z3", ("aes_ct", "ctrcbc-enc"): "L32",
 ("aes_ct", "ctrcbc-dec"): "cvc5", ("aes_ct", "ctrcbc-ctr"): "L32", ("aes_ct", "ctrcbc-mac"): "z3",
 ("aes_ct64", "cbcenc"): "z3", ("aes_ct64", "ctrcbc-mac"): "z3",
 ("aes_ct64", "cbcdec"): None, ("aes_ct64", "ctr"): None, ("aes_ct64", "ctrcbc-enc"): None, ("aes_ct64", "ctrcbc-dec"): None, ("aes_ct64", "ctrcbc-ctr"): None,
}


def queries():
    import os
    qs = comp_queries() + des_queries() + chacha_queries() + ghash_poly_queries() + cbcrt_queries()
    # ---- real-core splitting law (thorough tier)
    for impl in ("aes_big", "aes_small", "aes_ct", "aes_ct64"):
        for m in AES_MODES:
            length = 48 if m[3] != 3 else 53
            be = SPLIT_BE.get((impl, m[0]), "cvc5")
            if be is None:
                continue
            if be == "L32":
                qs.append(split_q(impl, m, 16, 32, tier="thorough", backend="kissat"))
            else:
                qs.append(split_q(impl, m, 16, length, tier="thorough", backend=be))
    for impl in ("des_tab", "des_ct"):
        for m in DES_MODES:
            qs.append(split_q(impl, m, 8, 24, tier="thorough", backend="cvc5"))
            if not (impl == "des_ct" and m[0] == "cbcenc"):     # des_ct cbcenc 3DES: no verdict
                qs.append(split_q(impl, m, 24, 24, tier="thorough", backend="cvc5"))
    # ---- AES cores against FIPS-197
    for impl in ("aes_big", "aes_small", "aes_ct", "aes_ct64"):
        for d in (0, 1):
            qs.append(round_q(impl, d, 1))
            if d == 0:      # NR=2 decryption: no verdict within the cap on any back end
                qs.append(round_q(impl, d, 2, tier="thorough", backend="kissat"))
            if impl != "aes_big":
                k = IMPLK[impl]
                other = {2: [SC + "aes_common.c"], 3: [SC + "aes_common.c", SC + "aes_ct.c"] + ([SC + "aes_ct_enc.c"] if d else []),
                         4: [SC + "aes_common.c", SC + "aes_ct64.c"] + ([SC + "aes_ct64_enc.c"] if d else [])}[k]
                qs.append(Q("aes-inner-%s-%s" % (impl, "dec" if d else "enc"), "C12_aesinner.c", units=other,
                            defs=["-DIMPL=%d" % k, "-DDIR=%d" % d], unwind=258, tier="thorough" if d else "quick",
                            timeout=900 if d else 240, backend=("z3" if k == 2 else None) if d else None,
                            desc="%s_%s.c static round steps == FIPS-197 steps, every state and round key, every lane: %s" % (impl, "dec" if d else "enc", "inv_shift_rows == InvShiftRows; add_round_key,inv_mix_columns == AddRoundKey,InvMixColumns" if d else "shift_rows,mix_columns,add_round_key == ShiftRows,MixColumns,AddRoundKey") + ("; sub_bytes table layer" if k == 2 else "")))
    # full AES-128-size cipher: only aes_small reaches a verdict (kissat); aes_big / aes_ct / aes_ct64 dropped
    qs.append(round_q("aes_small", 0, 10, tier="thorough", backend="kissat"))
    # ---- mode logic over the abstract core
    for impl in ("aes_big", "aes_small", "aes_ct", "aes_ct64"):
        for m in AES_MODES:
            length = 48 if m[3] != 3 else 53
            if impl == "aes_ct64" and m[3] in (2, 3, 6):
                length += 32     # more than one 4-block batch
            grouped = 2 if (impl == "aes_ct64" and m[3] not in (1, 7)) else 1
            qs += modes_family(impl, m, 16, length, grouped, backend="cadical")
            if m[3] == 3:   # CTR with a whole number of blocks: returned counter == start + blocks
                qs.append(modes_q(impl, m, 16, 80 if impl == "aes_ct64" else 32, 1, 1, 0, backend="cadical"))
            if m[3] in (2, 3):  # other key sizes (round count / expanded key length differ)
                for klen in (24, 32):
                    qs += [q for q in modes_family(impl, m, klen, length, 1, backend="cadical", tier="thorough")]
    for impl in ("des_tab", "des_ct"):
        for m in DES_MODES:
            qs += modes_family(impl, m, 8, 24, True, backend="cadical")
            qs += modes_family(impl, m, 24, 24, True, backend="cadical")
            qs += modes_family(impl, m, 16, 24, True, backend="cadical", tier="thorough")
    # ---- ESP8266-like configuration (portable 32-bit paths: byte-wise br_dec32le etc.)
    for m in AES_MODES:
        length = 48 if m[3] != 3 else 53
        qs.append(modes_q("aes_ct", m, 16, length, 1, 0, length, backend="cadical", config="esp",
                          tier="quick" if m[3] in (2, 3, 4) else "thorough"))
    for m in DES_MODES:
        qs.append(modes_q("des_ct", m, 24, 24, 1, 0, 24, backend="cadical", config="esp", tier="thorough", keycheck=0))
    qs.append(Q("chacha20-ct-vs-rfc7539-L70-esp", "C12_chacha.c", units=[SC + "chacha20_ct.c"], defs=["-DLEN=70"], config="esp",
                unwind=73, backend="cvc5", desc="br_chacha20_ct_run == RFC 7539 reference, 70 bytes, ESP8266-like configuration"))
    # development aids (not used by the normal runs)
    t = os.environ.get("C12_TIER_ONLY")
    if t:
        qs = [q for q in qs if q.tier == t]
    r = os.environ.get("C12_RE")
    if r:
        import re
        qs = [q for q in qs if re.search(r, q.name)]
    cap = os.environ.get("C12_TO")
    if cap:
        for q in qs:
            q.timeout = min(q.timeout, int(cap))
    names = [q.name for q in qs]
    assert len(names) == len(set(names)), "duplicate query names"
    return qs
