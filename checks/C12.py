from verif import Q

META = {
 "level_text": "Bounded symbolic model checking (CBMC, SAT and SMT back ends) of the real portable symmetric code, in layers. (1) Mode logic: every entry point of aes_{big,small,ct,ct64}_{cbcenc,cbcdec,ctr,ctrcbc} and des_{tab,ct}_{cbcenc,cbcdec} equals the textbook mode (SP 800-38A CBC/CTR with 32-bit and 128-bit counters, CBC-MAC, CCM/EAX-style encrypt/decrypt order) over the block function, in place, including the chaining state it leaves, and satisfies run(d,a+b) == run(d,a);run(d+a,b) for every admissible split, for every key, IV, counter (wrap included), MAC state and data of 3-5 blocks; the block function is an uninterpreted function bound at BearSSL's core link seam, so the result holds for every deterministic lane-wise core. (2) The same splitting law with the REAL key schedule and REAL cipher core (thorough tier) for all aes_big, aes_small, aes_ct and des_tab entry points, 2 of 7 aes_ct64 and 3 of 4 des_ct cases. (3) AES components against FIPS-197 written in the harness: S-box table == definition; bitsliced S-box / inverse S-box circuits == table in all 32/64 lanes; ortho / interleave == documented layout, involutive; all four key schedules for 16/24/32-byte keys; linear round steps; every core with 1 round (and 2 rounds, aes_small with 10 rounds, thorough). (4) DES: table round function == bitsliced round function under both real key schedules, all 16 rounds; whole block function tab == ct and CBC round trips (thorough, single DES / partly 3DES). (5) ChaCha20 ct == RFC 7539 for 64..200 bytes incl. counter wrap. (6) GHASH: bmul32 kernel == carry-less product, padding/chaining structure, and == bitwise GF(2^128) reference whenever one operand is a unit vector; Poly1305 ctmul == ctmul32 for the footer-only message. Partial: full-round AES equivalence of big/ct/ct64, AES CBC round trips, general GHASH and Poly1305 products, lengths beyond the bounds and all intrinsics-based implementations are outside (listed).",
 "level_note": "Trusted: CBMC 6.11 front end and bit-precise semantics, the SAT/SMT back end named per query (minisat, cadical, kissat, z3, cvc5 - chosen by a sweep), loop models of memcpy/memset. Sizes (key length, data length, split point groups) are concrete per query. Layer (1) abstracts the block function (assumption list); layers (2)-(4) are what ties the abstraction to the real cores. Host configuration unless the query name ends in +esp / -esp (portable 32-bit paths).",
 "technique": "bounded symbolic model checking (CBMC; SAT for bit-level component equivalence, SMT word-level back ends where both sides contain the same core terms): mode == definition over an uninterpreted block function, algebraic laws (splitting, round trip) on the real cores, component and cross-implementation equivalence",
 "assumptions": [
  "modes-* queries: the block cipher core called by the mode file (br_aes_big/small_encrypt/decrypt, br_aes_ct/ct64_bitslice_encrypt/decrypt, br_des_tab/ct_process_block) is replaced at link time by 'apply the uninterpreted function E (or D) to every block lane' (harness/C12_ufcore.h); the stand-in checks the round count and the round keys (pointer, or contents of the locally expanded key) it is handed. Lanes of the bitsliced cores are located with the real br_aes_ct_ortho / br_aes_ct64_ortho / interleave_in/out.",
  "that the real bitsliced cores act lane-wise and as the AES round function is decided separately: aes-ct*-components, aes-inner-*, aes-core-*-NR1 (quick), aes-core-*-enc-NR2 (thorough); full 10-round equivalence only for aes_small",
  "for aes_ct64 and des_ct the comparison of the expanded round-key contents is made in the dedicated one-block '-keys' query of each entry point (the expansion is done once at the top of every run call whatever the length); the multi-block queries of these two check the round count only",
  "FIPS-197 references use br_aes_S as S-box table; query aes-sbox-table decides that table equal to the definition (GF(2^8) inverse + affine map) for all 256 inputs",
  "key-schedule queries decode bitsliced round keys with the real ortho / interleave_out (decided to be the documented, invertible layout map in the components queries); aes-keysched-ct64 expands compressed keys with the bitwise definition that aes-ct64-skey-expand decides equal to br_aes_ct64_skey_expand; aes-keysched-big-inv uses the file's own mule/mulb/muld/mul9 as GF(2^8) constant multipliers (decided for all 256 inputs in aes-big-tables-dec)",
  "Poly1305: ChaCha20 is a cheap keyed xor stream bound at the br_chacha20_run function-pointer seam (same one on both sides)",
  "GHASH unit-vector queries rely on GF(2)-bilinearity of the product to extend to arbitrary operands; bilinearity itself is decided only for the bmul32 kernel (== carry-less product), not for the Karatsuba recombination / reduction code",
  "public sizes concrete per query: key length, data length (<= 5 blocks AES, 3 blocks DES, 200 bytes ChaCha20), split points enumerated",
 ],
 "outside_claim": [
  "aes_x86ni, aes_pwr8, chacha20_sse2, ghash_pclmul, ghash_pwr8, poly1305_ctmulq (intrinsics / 128-bit types)",
  "OpenSSL as external reference; data lengths above the bounds (4 KiB, every residue)",
  "dropped after a back-end sweep without verdict: AES CBC decrypt(encrypt(x)) == x with the real cores (1 block, kissat/cadical/z3, 300 s each, all four implementations); full-cipher equivalence aes_big / aes_ct64 == FIPS-197 with 10 rounds (kissat, 420 s) and aes_ct (kissat and cadical, 900 s); aes_small finishes; 2-round decryption cores; real-core splitting law for aes_ct64 cbcdec/ctr/ctrcbc-encrypt/decrypt/ctr (even at 2 blocks) and des_ct 3DES cbcenc; des_tab == des_ct block function and des_ct CBC round trip for 3DES keys",
  "GHASH: bmul (ghash_ctmul.c) and bmul64 kernels vs carry-less reference, one-block equivalence ctmul == ctmul32 == ctmul64 == reference for arbitrary operands (no verdict in 420 s on any back end); only the bmul32 kernel, the unit-vector cases and the padding/chaining structure are decided",
  "Poly1305: anything beyond the footer-only message for ctmul == ctmul32 and the r = 1 reference (poly1305-r1-*, final reduction); poly1305_i15 not decided at all (no verdict even for the footer-only message)",
 ],
 "mutants_tried": [
  "M1 aes_ct_ctr.c: second cc++ for a 17..32-byte tail removed (returned counter one short) - caught: modes-aes_ct-ctr split law (bytes + counter), replayed natively",
  "M2 aes_ct_cbcdec.c: IV for the next batch taken from the first instead of the second block of a 2-block batch - caught: modes-aes_ct-cbcdec (definition, split bytes, split IV)",
  "M3 aes_ct_ctrcbc.c: carry into the second counter word dropped in ctrcbc_ctr - caught: modes-aes_ct-ctrcbc-ctr (definition bytes + counter block, split)",
  "M4 aes_ct.c: one AND gate of the Boyar-Peralta S-box circuit turned into OR - caught: aes-ct-components (S-box vs table, both inverse laws)",
  "M5 chacha20_ct.c: carry out of the low byte of the block counter lost - caught: chacha20-ct-vs-rfc7539-L128 (bytes + returned counter)",
  "M6 des_ct.c: one bit of one multiplexer constant of Fconf flipped - caught: des-fconf-tab-vs-ct-R0-3",
  "M7 aes_ct64_ctr.c: third lane uses counter cc+3 instead of cc+2 - caught: modes-aes_ct64-ctr-L85 (definition + split)",
  "M8 aes_small_cbcenc.c: IV not written back after the last block - caught: modes-aes_small-cbcenc (IV, split)",
  "M9 aes_ct64_ctrcbc.c: encrypt overwrites instead of xors the incoming CBC-MAC state (MAC not chained across calls) - caught: modes-aes_ct64-ctrcbc-enc (definition + both split groups)",
  "M10 aes_common.c: Rcon[8] 0x1B -> 0x1D - caught: aes-keysched-common-K16",
  "M11 ghash_ctmul32.c: zero padding of a short block one byte short - detected by the solver (ghash-structure-ctmul32 FAIL, exit 2) but depends on an uninitialised stack byte, so the native replay did not reproduce: reported INCONCLUSIVE(encoding), not VIOLATION",
  "M12 aes_big_ctr.c: returns cc-1 - caught by the real-core query split-aes_big-ctr (thorough, cvc5), replayed natively",
  "M13 aes_big_dec.c: br_aes_big_keysched_inv applies InvMixColumns to round key 0 as well - caught: aes-keysched-big-inv-K16",
  "M14 aes_ct_cbcenc.c: core called with sk_exp + 8 - caught: stand-in core's round-key check in modes-aes_ct-cbcenc, replayed natively against the definition",
  "(genuine defect, found by ctr-tail-counter-aes_ct64-L20 on the unmutated repo, fixed in repo commit e6d6da2) br_aes_ct64_ctr_run returned start+floor(len/16) after a partial final block where aes_big/aes_small/aes_ct return start+ceil(len/16) (cc=0, len=20: 1 instead of 2); br_aesctr_drbg_generate continues from the returned value, so over aes_ct64 it output key-stream bytes twice; the query reproduced it natively and passes on the fixed tree",
  "M15 ghash_ctmul32.c: reduction term (lw >> 7) -> (lw >> 6) - caught: ghash-units-ctmul32-I0-15 (both operand orders); the padding/chaining structure queries alone do not see it",
  "not covered: an arithmetic slip in the Poly1305 limb code (only the footer-only message is decided, ctmul vs ctmul32)",
 ],
}

SC = "src/symcipher/"
IMPLK = {"aes_big": 1, "aes_small": 2, "aes_ct": 3, "aes_ct64": 4, "des_tab": 5, "des_ct": 6}
# units linked under CBMC when the core is the uninterpreted stand-in
UF_UNITS = {
 "aes_big": [SC + "aes_common.c"], "aes_small": [SC + "aes_common.c"],
 "aes_ct": [SC + "aes_ct.c"], "aes_ct64": [SC + "aes_ct64.c", "src/codec/dec32le.c", "src/codec/enc32le.c"],
 "des_tab": [SC + "des_support.c"], "des_ct": [SC + "des_support.c"],
}
# real units (native replay; real-core queries)
REAL_UNITS = {
 "aes_big": [SC + "aes_common.c", SC + "aes_big_enc.c", SC + "aes_big_dec.c"],
 "aes_small": [SC + "aes_common.c", SC + "aes_small_enc.c", SC + "aes_small_dec.c"],
 "aes_ct": [SC + "aes_ct.c", SC + "aes_ct_enc.c", SC + "aes_ct_dec.c"],
 "aes_ct64": [SC + "aes_ct64.c", SC + "aes_ct64_enc.c", SC + "aes_ct64_dec.c", "src/codec/dec32le.c", "src/codec/enc32le.c"],
 "des_tab": [SC + "des_tab.c", SC + "des_support.c"],
 "des_ct": [SC + "des_ct.c", SC + "des_support.c"],
}
NATIVE_REF = {
 16: [SC + "aes_common.c", SC + "aes_small_enc.c", SC + "aes_small_dec.c"],
 8: [SC + "des_tab.c", SC + "des_support.c", SC + "des_tab_cbcenc.c", SC + "des_tab_cbcdec.c"],
}

# (mode name, file suffix, run function suffix, MODE of C12_modes.c, MODE of C12_split.c)
AES_MODES = [
 ("cbcenc", "cbcenc", "cbcenc_run", 1, 1),
 ("cbcdec", "cbcdec", "cbcdec_run", 2, 1),
 ("ctr", "ctr", "ctr_run", 3, 2),
 ("ctrcbc-enc", "ctrcbc", "ctrcbc_encrypt", 4, 3),
 ("ctrcbc-dec", "ctrcbc", "ctrcbc_decrypt", 5, 3),
 ("ctrcbc-ctr", "ctrcbc", "ctrcbc_ctr", 6, 4),
 ("ctrcbc-mac", "ctrcbc", "ctrcbc_mac", 7, 5),
]
DES_MODES = [("cbcenc", "cbcenc", "cbcenc_run", 1, 1), ("cbcdec", "cbcdec", "cbcdec_run", 2, 1)]


def uniq(l):
    out = []
    for x in l:
        if x not in out:
            out.append(x)
    return out


def modes_q(impl, m, klen, length, do_ref, s_lo, s_hi, tier="quick", backend=None, timeout=None, keycheck=None, config="host"):
    (mname, fsuf, rsuf, mode, _) = m
    bs = 16 if impl.startswith("aes") else 8
    modefile = SC + "%s_%s.c" % (impl, fsuf)
    what = []
    if keycheck is None:
        keycheck = 0 if impl in ("aes_ct64", "des_ct") else 1
    elif keycheck:
        what.append("keys")
    if do_ref:
        what.append("def")
    if s_lo <= s_hi:
        what.append("S%d" % s_lo if s_lo == s_hi else "S%d-%d" % (s_lo, s_hi))
    d = []
    if do_ref:
        d.append("br_%s_%s == textbook mode (SP 800-38A CBC/CTR, CBC-MAC) over the block function for every %d-byte key, IV/counter (32-bit wrap / 128-bit carries incl.), MAC state and %d data bytes, in place, final chaining state incl." % (impl, rsuf, klen, length))
    if s_lo <= s_hi:
        d.append("br_%s_%s: run(d,%d) == run(d,S);run(d+S,%d-S) with the chaining state carried, S in %d..%d step %d" % (impl, rsuf, length, length, s_lo, s_hi, bs))
    if config != "host":
        what.append(config)
    return Q("modes-%s-%s-K%d-L%d-%s" % (impl, mname, klen, length, "+".join(what)), "C12_modes.c", config=config,
             units=UF_UNITS[impl] + [modefile],
             native_units=uniq(REAL_UNITS[impl] + NATIVE_REF[bs] + [modefile]),
             defs=["-DIMPLK=%d" % IMPLK[impl], "-DMODE=%d" % mode, "-DKEYS_T=br_%s_%s_keys" % (impl, fsuf),
                   "-DINIT=br_%s_%s_init" % (impl, fsuf), "-DRUN=br_%s_%s" % (impl, rsuf), "-DKLEN=%d" % klen, "-DLEN=%d" % length,
                   "-DDO_REF=%d" % do_ref, "-DS_LO=%d" % s_lo, "-DS_HI=%d" % s_hi, "-DC12_KEYCHECK=%d" % keycheck],
             unwind=max(292 if bs == 8 else 125, length + 3), tier=tier, backend=backend,
             timeout=timeout or (900 if tier == "thorough" else 240),
             desc="; ".join(d) + (" (stand-in core checks round count and round-key contents/pointer)" if keycheck else " (round-key contents handed to the core are decided in the one-block -keys query of this entry point)") + " [block function = uninterpreted E/D bound at the core link seam; real key schedule, mode file, ortho/interleave]")


def modes_family(impl, m, klen, length, grouped, **kw):
    bs = 16 if impl.startswith("aes") else 8
    qs = []
    if impl in ("aes_ct64", "des_ct"):
        kk = dict(kw)
        kk["backend"] = "kissat"
        qs.append(modes_q(impl, m, klen, bs, 1, 1, 0, keycheck=1, **kk))
    pts = [x for x in range(0, length + 1, bs) if m[3] == 3 or (length - x) % bs == 0]
    if grouped == 1:
        return qs + [modes_q(impl, m, klen, length, 1, 0, length, **kw)]
    if grouped == 2:
        h = len(pts) // 2
        return qs + [modes_q(impl, m, klen, length, 1, pts[0], pts[h - 1], **kw),
                     modes_q(impl, m, klen, length, 0, pts[h], pts[-1], **kw)]
    qs.append(modes_q(impl, m, klen, length, 1, 1, 0, **kw))
    for x in pts:
        qs.append(modes_q(impl, m, klen, length, 0, x, x, **kw))
    return qs


def comp_queries():
    qs = []
    qs.append(Q("aes-sbox-table", "C12_aescomp.c", units=[SC + "aes_common.c"], defs=["-DWHAT=0"], unwind=258,
                desc="br_aes_S[x] == FIPS-197 5.1.1 definition (inverse in GF(2^8) then affine map) for all 256 x; permutation"))
    qs.append(Q("aes-ct-components", "C12_aescomp.c", units=[SC + "aes_common.c"] + REAL_UNITS["aes_ct"], defs=["-DWHAT=1"], unwind=20,
                desc="br_aes_ct_ortho == documented bit transposition, involution (all 2^256 states); mode-file load+ortho == bitslice layout; br_aes_ct_bitslice_Sbox == br_aes_S in all 32 lanes (32 symbolic bytes); invSbox o Sbox == Sbox o invSbox == id per lane"))
    qs.append(Q("aes-ct64-components", "C12_aescomp.c", units=[SC + "aes_common.c"] + REAL_UNITS["aes_ct64"], defs=["-DWHAT=2"], unwind=20,
                desc="br_aes_ct64_ortho == documented bit transposition, involution (all 2^512 states); interleave_in/out mutually inverse; load+interleave+ortho == bitslice layout; br_aes_ct64_bitslice_Sbox == br_aes_S in all 64 lanes; invSbox o Sbox == Sbox o invSbox == id per lane"))
    for klen in (16, 24, 32):
        for ks, nm, units in ((1, "common", [SC + "aes_common.c"]),
                              (3, "ct", [SC + "aes_common.c", SC + "aes_ct.c"]), (4, "ct64", [SC + "aes_common.c", SC + "aes_ct64.c", "src/codec/dec32le.c"])):
            fn = {1: "br_aes_keysched (aes_big/aes_small)", 2: "br_aes_big_keysched_inv", 3: "br_aes_ct_keysched + br_aes_ct_skey_expand", 4: "br_aes_ct64_keysched + br_aes_ct64_skey_expand"}[ks]
            qs.append(Q("aes-keysched-%s-K%d" % (nm, klen), "C12_aescomp.c", units=units,
                        defs=["-DWHAT=3", "-DKS=%d" % ks, "-DKLEN=%d" % klen], unwind=245, tier="quick",      # K24 too: 10-17 s each, and seeded change C12g lives only there
                        desc="%s == FIPS-197 5.2 KeyExpansion: the produced round keys (decoded from the implementation's documented format, all lanes alike) start with the key and satisfy w[i] = w[i-Nk] ^ g_i(w[i-1]) at every i, every %d-byte key" % (fn, klen)))
    qs.append(Q("aes-big-tables-dec", "C12_aescomp.c", units=[SC + "aes_common.c"], defs=["-DWHAT=4"], unwind=258,
                desc="aes_big_dec.c: mul2/mul9/mulb/muld/mule == GF(2^8) multiplication by 2/9/11/13/14, iS == inverse of br_aes_S, iSsm0[x] == InvMixColumns column of iS[x]; all 256 x"))
    qs.append(Q("aes-big-tables-enc", "C12_aescomp.c", units=[SC + "aes_common.c"], defs=["-DWHAT=5"], unwind=20,
                desc="aes_big_enc.c: Ssm0[x] == MixColumns column {02,01,01,03}.S[x]; all 256 x"))
    for klen in (16, 24, 32):
        qs.append(Q("aes-keysched-big-inv-K%d" % klen, "C12_aescomp.c", units=[SC + "aes_common.c"],
                    defs=["-DWHAT=3", "-DKS=2", "-DKLEN=%d" % klen], unwind=245, backend="cvc5", tier="quick" if klen != 24 else "thorough",
                    desc="br_aes_big_keysched_inv == br_aes_keysched with InvMixColumns (matrix rows {0e,0b,0d,09}; multipliers = the file's mule/mulb/muld/mul9, see aes-big-tables-dec) on round keys 1..Nr-1 only, every %d-byte key" % klen))
    qs.append(Q("aes-ct64-skey-expand", "C12_aescomp.c", units=[SC + "aes_ct64.c", "src/codec/dec32le.c"], defs=["-DWHAT=3", "-DKS=5", "-DKLEN=32"], unwind=245,
                desc="br_aes_ct64_skey_expand == nibble replication of every bit of every compressed word (30 symbolic 64-bit words, 14 rounds)"))
    return qs


def round_q(impl, direction, nr, tier="quick", backend=None, timeout=None):
    k = IMPLK[impl]
    core = {1: "br_aes_big_%s", 2: "br_aes_small_%s", 3: "br_aes_ct_bitslice_%s", 4: "br_aes_ct64_bitslice_%s"}[k] % ("decrypt" if direction else "encrypt")
    return Q("aes-core-%s-%s-NR%d" % (impl, "dec" if direction else "enc", nr), "C12_aesround.c",
             units=uniq([SC + "aes_common.c"] + REAL_UNITS[impl]),
             defs=["-DIMPL=%d" % k, "-DDIR=%d" % direction, "-DNR=%d" % nr], unwind=258, tier=tier, backend=backend,
             timeout=timeout or (900 if tier == "thorough" else 240),
             desc="%s with %d round(s) == FIPS-197 %s (reference in the harness) for every sequence of round keys and every block%s" %
                  (core, nr, "InvCipher" if direction else "Cipher", {3: ", both lanes independent", 4: ", all four lanes independent"}.get(k, "")))


def split_q(impl, m, klen, length, tier="quick", backend="z3", timeout=None):
    import os
    backend = os.environ.get("C12_SPLIT_BE", backend)
    (mname, fsuf, rsuf, _, mode) = m
    bs = 16 if impl.startswith("aes") else 8
    return Q("split-%s-%s-K%d-L%d" % (impl, mname, klen, length), "C12_split.c",
             units=uniq(REAL_UNITS[impl] + [SC + "%s_%s.c" % (impl, fsuf)]),
             defs=["-DMODE=%d" % mode, "-DKEYS_T=br_%s_%s_keys" % (impl, fsuf), "-DINIT=br_%s_%s_init" % (impl, fsuf),
                   "-DRUN=br_%s_%s" % (impl, rsuf), "-DKLEN=%d" % klen, "-DBS=%d" % bs, "-DLEN=%d" % length],
             unwind=max(132 if bs == 8 else 70, length + 3), tier=tier, backend=backend,
             timeout=timeout or (900 if tier == "thorough" else 240),
             desc="REAL key schedule and REAL cipher core: br_%s_%s run(d,%d) == run(d,S);run(d+S,%d-S) with the chaining state carried, every admissible S (multiples of %d, 0 and LEN incl.), every %d-byte key, IV/counter/MAC state, data"
                  % (impl, rsuf, length, length, bs, klen))


def des_queries():
    qs = []
    for lo in (0, 4, 8, 12):
        qs.append(Q("des-fconf-tab-vs-ct-R%d-%d" % (lo, lo + 3), "C12_des.c", units=[SC + "des_support.c"],
                    defs=["-DWHAT=1", "-DR_LO=%d" % lo, "-DR_HI=%d" % (lo + 3)], unwind=300, backend="kissat",
                    desc="des_tab Fconf (tables) == des_ct Fconf (bitsliced multiplexer circuit) under the subkeys of the respective real key schedules, rounds %d..%d, every 8-byte key and every half block: E, key mixing, 8 S-boxes, P, PC-1/PC-2 in both layouts, br_des_ct_skey_expand" % (lo, lo + 3)))
    for klen in (8,):
        for dec in (0, 1):
            qs.append(Q("des-block-tab-vs-ct-K%d-%s" % (klen, "dec" if dec else "enc"), "C12_des.c",
                        units=[SC + "des_support.c", SC + "des_tab_cbcenc.c", SC + "des_tab_cbcdec.c", SC + "des_ct_cbcenc.c", SC + "des_ct_cbcdec.c"],
                        defs=["-DWHAT=2", "-DKLEN=%d" % klen, "-DDEC=%d" % dec], unwind=300, tier="thorough", backend="kissat", timeout=900,
                        desc="br_des_tab_process_block == br_des_ct_process_block, %s key schedule of %d-byte key, every key and block" % ("decryption" if dec else "encryption", klen)))
    for impl, sel in (("des_tab", 1), ("des_ct", 2)):
        for klen, nblk in ((8, 2), (24, 1)):
            if impl == "des_ct" and klen == 24:
                continue    # no verdict within the cap on any back end
            qs.append(Q("des-cbc-roundtrip-%s-K%d-B%d" % (impl, klen, nblk), "C12_des.c",
                        units=REAL_UNITS[impl] + [SC + impl + "_cbcenc.c", SC + impl + "_cbcdec.c"],
                        defs=["-DWHAT=3", "-DIMPLSEL=%d" % sel, "-DKLEN=%d" % klen, "-DNBLK=%d" % nblk], unwind=300, tier="thorough", backend="kissat", timeout=900,
                        desc="br_%s_cbcdec_run(br_%s_cbcenc_run(x)) == x and final IVs agree, real cores and key schedules, %d block(s), every %d-byte key, IV, data" % (impl, impl, nblk, klen)))
    return qs


def chacha_queries():
    qs = []
    for length, tier in ((64, "quick"), (70, "quick"), (128, "quick"), (200, "thorough")):
        qs.append(Q("chacha20-ct-vs-rfc7539-L%d" % length, "C12_chacha.c", units=[SC + "chacha20_ct.c"], defs=["-DLEN=%d" % length],
                    unwind=max(70, length + 3), backend="cvc5", tier=tier, timeout=900 if tier == "thorough" else 240,
                    desc="br_chacha20_ct_run == RFC 7539 2.3/2.4 reference (quarter rounds written in the harness), %d bytes, every key, nonce, start counter (wrap incl.); returned counter == start + blocks" % length))
    qs.append(Q("split-chacha20_ct-L150", "C12_split.c", units=[SC + "chacha20_ct.c"],
                defs=["-DMODE=6", "-DRUN=br_chacha20_ct_run", "-DKLEN=32", "-DBS=64", "-DLEN=150"], backend="cvc5",
                unwind=153, desc="br_chacha20_ct_run: run(d,150) == run(d,S);run(d+S,150-S), S in {0,64,128}, returned block counter carried (wrap incl.); key, nonce, counter, data symbolic"))
    return qs


def ghash_poly_queries():
    qs = []
    H = "src/hash/"
    qs.append(Q("ghash-bmul32-kernel", "C12_ghash.c", defs=["-DWHAT=1", "-DKER=2"], unwind=40, backend="cadical",
                desc="ghash_ctmul32.c bmul32(x,y) == low 32 bits of the carry-less product (bitwise reference), rev32 == bit reversal; all 2^64 operand pairs"))
    G = {1: H + "ghash_ctmul.c", 2: H + "ghash_ctmul32.c", 3: H + "ghash_ctmul64.c"}
    GN = {0: "ref", 1: "ctmul", 2: "ctmul32", 3: "ctmul64"}
    for a in (1, 2, 3):
        qs.append(Q("ghash-structure-%s" % GN[a], "C12_ghash.c", units=[G[a]],
                    defs=["-DWHAT=3", "-DIMPL_A=%d" % a, "-DLEN=21"], unwind=40, backend="cvc5",
                    desc="br_ghash_%s: short final block (21 bytes) processed as zero-padded; ghash over 32 bytes == two 16-byte calls with y carried; zero-length call is a no-op; real multiplication code, every y, h, data" % GN[a]))
    for a in (1, 2, 3):
        for lo in range(0, 128, 16):
            qs.append(Q("ghash-units-%s-I%d-%d" % (GN[a], lo, lo + 15), "C12_ghash.c", units=[G[a]],
                        defs=["-DWHAT=4", "-DIMPL_A=%d" % a, "-DI_LO=%d" % lo, "-DI_HI=%d" % (lo + 15)], unwind=130, objbits=12,
                        tier="quick" if (a == 2 and lo == 0) else "thorough", timeout=900,
                        desc="br_ghash_%s == bitwise GF(2^128) reference (SP 800-38D 6.3) when one operand is the unit vector e_i, i in %d..%d, and the other operand is arbitrary (both orders: x=e_i with every h; h=e_i with every x)" % (GN[a], lo, lo + 15)))
    P = {1: [SC + "poly1305_ctmul.c"], 2: [SC + "poly1305_ctmul32.c"],
         3: [SC + "poly1305_i15.c", "src/int/i15_decmod.c", "src/int/i15_add.c", "src/int/i15_montmul.c", "src/int/i15_sub.c", "src/int/i15_encode.c"]}
    PN = {1: "ctmul", 2: "ctmul32", 3: "i15"}
    qs.append(Q("poly1305-ctmul-vs-ctmul32-D0-A0", "C12_poly.c", units=P[1] + P[2] + ["src/codec/enc64le.c"],
                defs=["-DPA=1", "-DPB=2", "-DDLEN=0", "-DALEN=0"], unwind=70, backend="cadical",
                desc="br_poly1305_ctmul_run == br_poly1305_ctmul32_run, empty data and AAD (one footer block: 2^128 * r mod p + s), every key/nonce (r, s arbitrary via a toy ChaCha20 at the function-pointer seam)"))
    # final reduction and tag addition against the definition, r = 1 (sum of blocks): every accumulator value near p
    # is reachable (seeded change C12e: off-by-one in the comparison with p); poly1305_i15: no verdict in 200 s
    for impl in (1, 2):
        for dl in (32, 16, 48):
            qs.append(Q("poly1305-r1-%s-D%d" % (PN[impl], dl), "C12_poly_r1.c", units=P[impl] + ["src/codec/enc64le.c"], defs=["-DIMPL=%d" % impl, "-DDLEN=%d" % dl],
                        unwind=70, backend="cadical", timeout=200, tier="quick" if dl == 32 else "thorough",
                        desc="br_poly1305_%s_run == ((sum of padded blocks) mod 2^130-5 + s) mod 2^128 for r = 1 (bounded claim), every s, every %d data bytes: exact final reduction incl. accumulator == p and p+1..p+4" % (PN[impl], dl)))
    return qs


def cbcrt_queries():
    # AES CBC decrypt(encrypt(x)) == x with the real cores (C12_cbcrt.c), one block, was attempted on
    # kissat / cadical / z3 with a 300 s cap for each of the four implementations: no verdict -> dropped.
    return []


SPLIT_BE = {
 # back-end sweep result (minisat / cadical / kissat / z3 / cvc5) for the real-core splitting law.
 # Default cvc5 (aes_big, aes_small, des_tab, des_ct: the core calls on both sides are the same word-level terms).
 # "L32": differently packed bitsliced batches on the two sides need a bit-level proof: two blocks, kissat.
 # None: no verdict on any back end even at two blocks -> dropped (mode logic of these entry points is
 # covered by the modes-* queries, lane-wise action of the core by aes-core-*/aes-inner-*).
 ("aes_ct", "cbcenc"): "z3", ("aes_ct", "cbcdec"): "z3", ("aes_ct", "ctr"): "z3", ("aes_ct", "ctrcbc-enc"): "L32",
 ("aes_ct", "ctrcbc-dec"): "cvc5", ("aes_ct", "ctrcbc-ctr"): "L32", ("aes_ct", "ctrcbc-mac"): "z3",
 ("aes_ct64", "cbcenc"): "z3", ("aes_ct64", "ctrcbc-mac"): "z3",
 ("aes_ct64", "cbcdec"): None, ("aes_ct64", "ctr"): None, ("aes_ct64", "ctrcbc-enc"): None, ("aes_ct64", "ctrcbc-dec"): None, ("aes_ct64", "ctrcbc-ctr"): None,
}


def queries():
    import os
    qs = comp_queries() + des_queries() + chacha_queries() + ghash_poly_queries() + cbcrt_queries()
    # ---- real-core splitting law (thorough tier)
    for impl in ("aes_big", "aes_small", "aes_ct", "aes_ct64"):
        for m in AES_MODES:
            length = 48 if m[3] != 3 else 53
            be = SPLIT_BE.get((impl, m[0]), "cvc5")
            if be is None:
                continue
            if be == "L32":
                qs.append(split_q(impl, m, 16, 32, tier="thorough", backend="kissat"))
            else:
                qs.append(split_q(impl, m, 16, length, tier="thorough", backend=be))
    for impl in ("des_tab", "des_ct"):
        for m in DES_MODES:
            qs.append(split_q(impl, m, 8, 24, tier="thorough", backend="cvc5"))
            if not (impl == "des_ct" and m[0] == "cbcenc"):     # des_ct cbcenc 3DES: no verdict
                qs.append(split_q(impl, m, 24, 24, tier="thorough", backend="cvc5"))
    # ---- AES cores against FIPS-197
    for impl in ("aes_big", "aes_small", "aes_ct", "aes_ct64"):
        for d in (0, 1):
            qs.append(round_q(impl, d, 1))
            if d == 0:      # NR=2 decryption: no verdict within the cap on any back end
                qs.append(round_q(impl, d, 2, tier="thorough", backend="kissat"))
            if impl != "aes_big":
                k = IMPLK[impl]
                other = {2: [SC + "aes_common.c"], 3: [SC + "aes_common.c", SC + "aes_ct.c"] + ([SC + "aes_ct_enc.c"] if d else []),
                         4: [SC + "aes_common.c", SC + "aes_ct64.c"] + ([SC + "aes_ct64_enc.c"] if d else [])}[k]
                qs.append(Q("aes-inner-%s-%s" % (impl, "dec" if d else "enc"), "C12_aesinner.c", units=other,
                            defs=["-DIMPL=%d" % k, "-DDIR=%d" % d], unwind=258, tier="thorough" if d else "quick",
                            timeout=900 if d else 240, backend=("z3" if k == 2 else None) if d else None,
                            desc="%s_%s.c static round steps == FIPS-197 steps, every state and round key, every lane: %s" % (impl, "dec" if d else "enc", "inv_shift_rows == InvShiftRows; add_round_key,inv_mix_columns == AddRoundKey,InvMixColumns" if d else "shift_rows,mix_columns,add_round_key == ShiftRows,MixColumns,AddRoundKey") + ("; sub_bytes table layer" if k == 2 else "")))
    # full AES-128-size cipher: only aes_small reaches a verdict (kissat); aes_big / aes_ct / aes_ct64 dropped
    qs.append(round_q("aes_small", 0, 10, tier="thorough", backend="kissat"))
    # ---- mode logic over the abstract core
    for impl in ("aes_big", "aes_small", "aes_ct", "aes_ct64"):
        for m in AES_MODES:
            length = 48 if m[3] != 3 else 53
            if impl == "aes_ct64" and m[3] in (2, 3, 6):
                length += 32     # more than one 4-block batch
            grouped = 2 if (impl == "aes_ct64" and m[3] not in (1, 7)) else 1
            qs += modes_family(impl, m, 16, length, grouped, backend="cadical")
            if m[3] == 3:   # CTR with a whole number of blocks: returned counter == start + blocks
                qs.append(modes_q(impl, m, 16, 80 if impl == "aes_ct64" else 32, 1, 1, 0, backend="cadical"))
            if m[3] in (2, 3):  # other key sizes (round count / expanded key length differ)
                for klen in (24, 32):
                    qs += [q for q in modes_family(impl, m, klen, length, 1, backend="cadical", tier="thorough")]
    for impl in ("des_tab", "des_ct"):
        for m in DES_MODES:
            qs += modes_family(impl, m, 8, 24, True, backend="cadical")
            qs += modes_family(impl, m, 24, 24, True, backend="cadical")
            qs += modes_family(impl, m, 16, 24, True, backend="cadical", tier="thorough")
    # ---- CTR: counter returned after a partial final block (the four implementations must agree: it is an
    #      output of the interface, and br_aesctr_drbg_generate continues from it)
    for impl in ("aes_big", "aes_small", "aes_ct", "aes_ct64"):
        q = modes_q(impl, AES_MODES[2], 16, 20, 1, 1, 0, backend="cadical")
        q.name = "ctr-tail-counter-%s-L20" % impl
        q.defs = q.defs + ["-DCHECK_TAIL_COUNTER=1"]
        q.desc = "br_%s_ctr_run, 20 bytes (one full + one partial block): bytes == SP 800-38A CTR and returned counter == start + 2 (key-stream blocks consumed), every key/IV/start counter" % impl
        qs.append(q)
    # ---- ESP8266-like configuration (portable 32-bit paths: byte-wise br_dec32le etc.)
    for m in AES_MODES:
        length = 48 if m[3] != 3 else 53
        qs.append(modes_q("aes_ct", m, 16, length, 1, 0, length, backend="cadical", config="esp",
                          tier="quick" if m[3] in (2, 3, 4) else "thorough"))
    for m in DES_MODES:
        qs.append(modes_q("des_ct", m, 24, 24, 1, 0, 24, backend="cadical", config="esp", tier="thorough", keycheck=0))
    qs.append(Q("chacha20-ct-vs-rfc7539-L70-esp", "C12_chacha.c", units=[SC + "chacha20_ct.c"], defs=["-DLEN=70"], config="esp",
                unwind=73, backend="cvc5", desc="br_chacha20_ct_run == RFC 7539 reference, 70 bytes, ESP8266-like configuration"))
    # development aids (not used by the normal runs)
    t = os.environ.get("C12_TIER_ONLY")
    if t:
        qs = [q for q in qs if q.tier == t]
    r = os.environ.get("C12_RE")
    if r:
        import re
        qs = [q for q in qs if re.search(r, q.name)]
    cap = os.environ.get("C12_TO")
    if cap:
        for q in qs:
            q.timeout = min(q.timeout, int(cap))
    names = [q.name for q in qs]
    assert len(names) == len(set(names)), "duplicate query names"
    return qs
