from C07_t0_part import queries, ASSUMPTIONS, MUTANTS
META = {"assumptions": ASSUMPTIONS, "mutants_tried": MUTANTS}
