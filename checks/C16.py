import os, glob
from verif import Q, REPO
try:
    import C16_t0_part as _t0
except Exception as _e:   # the T0-native part needs encoders/t0tool.py
    _t0 = None
    _t0_err = repr(_e)

META = {
 "level_text": "Bounded symbolic model checking (CBMC) of the arithmetic the property rests on, with buffer sizes symbolic over the whole size_t range (no size bound): br_ssl_engine_set_buffers_bidi/set_buffer against the documented minima and fragment-length rule; every real max_plaintext composed with the real make_ready_out (and br_ssl_engine_new_max_frag_len) against RFC-derived record overheads; every real check_length composed with the engine's real header admission (recvrec_ack). Partial: the byte-level encrypt/decrypt run is C01.b (small concrete buffers); the maximum-fragment-length extension's T0 sequencing (client asks for the matching length, server honours it in all records after its hello, mismatching echo refused, 'negotiated' indicator) and whole sessions are outside.",
 "level_note": "Trusted: CBMC; the record contexts are constructed directly (block size, MAC length, explicit-IV flag, tag length concrete per query and enumerated: cbc explicit/implicit x MAC 16/20/32/48 x block 8/16, gcm, ccm 16/8, chapol, clear text); trailing/leading record overheads are written in the harness from RFC 5246 6.2.3 / 5288 / 6655 / 7905.",
 "technique": "bounded symbolic model checking (CBMC/SAT) of real C units with symbolic sizes: closed-form inequalities over size_t, no loop bound involved",
 "assumptions": [
  "no buffer byte is touched by the units in these harnesses except the 5 header bytes in C16.d: set_buffers_bidi/make_ready_out/max_plaintext/check_length only do arithmetic, so the buffers are 8-byte arrays and the lengths range over all of size_t; for br_ssl_engine_set_buffer(bidi != 0), which does pointer arithmetic (buf + w), the caller's buffer is a real 40000-byte array and buf_len <= 40000 is assumed (BR_SSL_BUFSIZE_BIDI = 33178)",
  "the engine context is an uninitialised local (arbitrary previous content); the fields a call must reset are additionally scrambled with symbolic values",
  "record contexts built directly (as switch_*_out/in + init leave them): only block_size, mac_len, explicit_IV, tag_len are read by max_plaintext / check_length",
  "max_plaintext contract checked for any free area of at least 512 bytes and at most SIZE_MAX/2; new_max_frag_len checked for lengths <= 16384 (max_frag_len is a uint16_t field) and obuf_len <= SIZE_MAX/2",
  "conformant incoming record = RFC encoding of p <= 16384 plaintext bytes (CBC: any padding of 1..256 bytes making the length a block multiple)",
 ],
 "outside_claim": ["maximum-fragment-length extension sequencing in the T0 handshakes (client request, server echo, refusal of a mismatching echo, max_frag_len_negotiated)", "that every emitted record obeys the length in whole sessions (engine data path: C06)", "byte-level encrypt/decrypt beyond the small buffers of C01.b", "all 45 suites with real ciphers"],
 "mutants_tried": [
  "cbc_max_plaintext forgetting the split-record room (*start += 0 for implicit IV): caught (out-cbc-impl-*: room before the plaintext)",
  "gcm_max_plaintext reserving 8 instead of 16 for the tag: missed by the engine composition alone (the max_frag_len cap, <= obuf_len - 85, always masks it), caught after adding the direct max_plaintext contract check (out-gcm) and by C01 rt-gcm-full-B64 (real encrypt overruns the buffer)",
  "ccm_max_plaintext reserving 8 bytes whatever tag_len: same as above (out-ccm16)",
  "set_buffers_bidi using MAX_OUT_OVERHEAD for the input side: caught (setbuf-bidi: failure threshold and max_frag_len)",
  "8192 mapped to 16384 instead of 4096: caught (setbuf-bidi)",
  "recvrec_ack admission rlen > ibuf_len instead of ibuf_len - 5: caught (in-gcm: admitted record fits the input buffer)",
  "cbc_check_length allowing only 16 bytes of padding: caught (in-cbc-expl-M20-B16: conformant record admitted)",
  "new_max_frag_len without the oxa < nxb guard: caught (newmfl-anystate)",
  "make_ready_out ignoring max_frag_len: caught (out-chapol)",
  "chapol_check_length forgetting the tag in the upper bound: caught (in-chapol)",
  "set_buffer(bidi) first threshold 512+85+512+85: not caught - equivalent mutant (set_buffers_bidi then fails with the same BR_ERR_BAD_PARAM on the 512+325 input minimum)",
 ],
 "findings": [
  "setbuf-single-geometry: br_ssl_engine_set_buffer(bidi=1) passes obuf = buf + w with obuf_len = w while ibuf = [buf, buf + buf_len - w): the output part starts at offset w instead of buf_len - w, so the parts overlap for every buf_len < 33418 (e.g. buf_len = 1434: ibuf [0,837), obuf [597,1194); BR_SSL_BUFSIZE_BIDI = 33178: ibuf [0,16709), obuf [16469,32938), 240 bytes shared) and the output part runs past the caller's buffer for buf_len > 33418 (obuf_len bytes from offset w = buf_len - 16709)",
  "setbuf-reset-mfln: br_ssl_server_reset/br_ssl_client_reset -> br_ssl_engine_set_buffer(NULL) keep max_frag_len, log_max_frag_len and peer_log_max_frag_len of the previous connection; a reused server context then still has peer_log_max_frag_len != 0 (the ServerHello writer emits the max_fragment_length extension whenever that field is non-zero) and a reduced log_max_frag_len",
 ],
}

REC = {1: "src/ssl/ssl_rec_cbc.c", 2: "src/ssl/ssl_rec_gcm.c", 3: "src/ssl/ssl_rec_ccm.c", 4: "src/ssl/ssl_rec_chapol.c"}


def native_all(exclude):
    """every src/**/*.c except `exclude`: the native replay twin needs a fully linked program"""
    out = []
    for f in sorted(glob.glob(os.path.join(REPO, "src", "**", "*.c"), recursive=True)):
        rel = os.path.relpath(f, REPO)
        if rel not in exclude:
            out.append(rel)
    return out


NAT = native_all(("src/ssl/ssl_engine.c",))   # the harnesses #include ssl_engine.c (static functions)


def modes():
    """(name, MODE, defs, text)"""
    out = [("clear", 0, [], "clear text (no encryption)")]
    for expl in (1, 0):
        for ml in (16, 20, 32, 48):
            for blk in (8, 16):
                out.append(("cbc-%s-M%d-B%d" % ("expl" if expl else "impl", ml, blk), 1,
                            ["-DEXPL=%d" % expl, "-DML=%d" % ml, "-DBLK=%d" % blk],
                            "CBC %s, MAC %d, block %d" % ("explicit IV (TLS 1.1+)" if expl else "implicit IV + 1/n-1 split (TLS 1.0)", ml, blk)))
    out += [("gcm", 2, [], "GCM"), ("ccm16", 3, ["-DTAG=16"], "CCM tag 16"), ("ccm8", 3, ["-DTAG=8"], "CCM_8 tag 8"),
            ("chapol", 4, [], "ChaCha20+Poly1305")]
    return out


def _base_queries():
    qs = []
    eng = "real src/ssl/ssl_engine.c; "
    qs.append(Q("setbuf-bidi", "C16_setbuf.c", defs=["-DPART=0"], unwind=8, native_units=NAT,
                desc="C16.a " + eng + "br_ssl_engine_set_buffers_bidi, ibuf_len/obuf_len symbolic over all of size_t, split / shared (obuf NULL) / reset (ibuf NULL): BR_ERR_BAD_PARAM exactly below 512+325 (in) or 512+85 (out); max_frag_len = largest of {512,1024,2048,4096,16384} fitting both; registers and clear-text area"))
    qs.append(Q("setbuf-single", "C16_setbuf.c", defs=["-DPART=1"], unwind=8, native_units=NAT,
                desc="C16.a " + eng + "br_ssl_engine_set_buffer, bidi symbolic: half-duplex = one shared buffer (any size_t length), full-duplex split policy (buf_len <= 40000): failure threshold, lengths of the two parts (incoming part favoured), fragment length, set_buffer(NULL) reset"))
    qs.append(Q("setbuf-single-geometry", "C16_setbuf.c", defs=["-DPART=2"], unwind=8, native_units=NAT,
                desc="C16.a " + eng + "br_ssl_engine_set_buffer(bidi != 0), buf_len <= 40000 symbolic: input and output parts lie inside the caller's buffer and do not overlap"))
    qs.append(Q("setbuf-reset-mfln", "C16_setbuf.c", defs=["-DPART=3"], unwind=8, native_units=NAT,
                desc="C16.a " + eng + "context reset between connections (set_buffer(NULL,0,0) as br_ssl_server_reset does) after a negotiated smaller fragment length: buffers kept, fragment-length fields back to the buffer-derived values"))
    qs.append(Q("newmfl-anystate", "C16_newmfl.c", unwind=4, native_units=NAT,
                desc="C16.c " + eng + "br_ssl_engine_new_max_frag_len on any documented output-register state (symbolic oxa/oxb/oxc/obuf_len) and any length <= 16384: oxb never grows, oxa <= oxb, accumulating record stays accumulating and is capped"))
    for (nm, mode, defs, text) in modes():
        units = [REC[mode]] if mode else []
        qs.append(Q("out-" + nm, "C16_out.c", units=units, defs=["-DMODE=%d" % mode] + defs, unwind=8, native_units=NAT,
                    desc="C16.b/c " + eng + text + ": (1) real max_plaintext called as make_ready_out calls it, any buffer length >= 522: room before, 1..16384 bytes, record ends inside the free area; (2) set_buffers_bidi (sizes symbolic, shared/split) [+ new_max_frag_len] + make_ready_out: oxb-oxa <= min(16384, max_frag_len), room before the plaintext, any len <= oxb-oxa ends inside obuf (incl. 1/n-1 split); (3) new_max_frag_len on the fresh record"))
        qs.append(Q("in-" + nm, "C16_in.c", units=units, defs=["-DMODE=%d" % mode] + defs, unwind=8, native_units=NAT,
                    desc="C16.d " + eng + text + ": set_buffers_bidi (sizes symbolic) + recvrec_ack on a symbolic 5-byte header with the real check_length: admitted => 5+rlen <= ibuf_len; every conformant record with plaintext <= max_frag_len (or fitting the buffer) admitted; error codes"))
    # NOT registered (removed by the main session): "out-cbc-impl-M20-B16-splitcontract" (-DSPLIT_STRICT=1) demanded that the
    # second record of a TLS 1.0 1/n-1 split end inside [start0, end0) as given to max_plaintext; the class documentation does
    # not say that, the engine always holds 5 more bytes back (make_ready_out), and C16 only requires the record to fit the
    # output buffer, which the regular out-cbc-impl-* queries decide.  A check that demands more than the property is a false alarm.
    return qs


def queries():
    qs = _base_queries()
    if _t0 is not None:
        qs = qs + _t0.queries()
    return qs

if _t0 is not None:
    META["assumptions"] = list(META.get("assumptions", [])) + list(getattr(_t0, "ASSUMPTIONS", []))
    META["mutants_tried"] = list(META.get("mutants_tried", [])) + list(getattr(_t0, "MUTANTS", []))
