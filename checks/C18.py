import os
from verif import Q
try:
    import C18_t0_part as _t0
except Exception as _e:   # the T0-native part needs encoders/t0tool.py
    _t0 = None
    _t0_err = repr(_e)

META = {
 "level_text": "Bounded symbolic model checking (CBMC) of the real C encoders (asn1enc.c, encode_rsa_rawder.c, encode_rsa_pk8der.c, encode_ec_rawder.c, encode_ec_pk8der.c, pemenc.c) with all key/payload bytes symbolic: length announced with dest == NULL == length returned when writing == bytes actually written (guard region of symbolic sentinel bytes + CBMC object bounds), and the output is accepted by an independent strict DER reader / equals an independent RFC 7468 + RFC 4648 reference text, every field equal to the input. DER being canonical, acceptance by the strict reader with equal fields is byte-identity with any other conforming encoder. Partial: C encoders only, at the listed sizes; the T0 decoders (skey/pkey/pemdec) are checked elsewhere.",
 "level_note": "Trusted: CBMC's C front end and bit-precise semantics; loop-model memcpy/memmove/strlen; the reference reader (harness/C18_der.h, from X.690 / RFC 8017 A.1.2 / RFC 5208 / RFC 5915 / RFC 5480, OIDs built from arc lists) and the reference PEM writer (harness/C18_pem.c). Sizes are concrete per query and listed in the evidence.",
 "technique": "bounded symbolic model checking (CBMC/SAT): real encoder vs independent DER reader / reference PEM text, two-pass length consistency with guard regions",
 "assumptions": [
  "public sizes concrete per query: component buffer lengths (RSA), xlen/qlen (EC), payload length / banner length / flags (PEM); contents, in-range symbolic lengths (RSA free component) and the curve id are symbolic",
  "RSA encoders: jointly symbolic in all 8 components only at 1 byte per component (quick) / 2-3 bytes (thorough); otherwise one free component (3 symbolic bytes, symbolic length 0..3) next to seven fixed-shape fillers (first byte 0x40|s or 0x80|s) - each component position is visited in turn",
  "rsa-pk8 queries: encode_rsa_pk8der.c is compiled inside the harness translation unit with its one memcpy (19-byte PK8_HEAD) bound to a second copy of the byte-loop memcpy model (separate loop bound); native replays link the unmodified file",
  "size_t is 64 bits (host configuration)",
 ],
 "outside_claim": [
  "skey_decoder / pkey_decoder / pemdec (T0 programs): decode(encode(k)) == k is closed elsewhere; here the reader is the harness's own DER reader",
  "byte-for-byte comparison with OpenSSL's encoders (the strict canonical-DER reader stands in)",
  "RSA 512..4096-bit component sizes with all components jointly symbolic; PEM payloads beyond 200 bytes (58 in the quick tier) and banners beyond 8 chars",
  "strict C11 7.24.1p2 conformance of memcpy(dst, NULL, 0) in br_asn1_encode_uint (version field of every RSA key): opt-in query VERIF_C18_STRICT_LIBC=1, fails on the current tree (UBSan: asn1enc.c:91 null pointer passed as argument 2), harmless with every known libc",
 ],
 "mutants_tried": [
  "CAUGHT asn1enc.c uint_prepare: no sign octet for top-bit-set values (asn1-uint-X1..X8)",
  "CAUGHT asn1enc.c encode_length: 'len <= 0x80' short form at 128 (asn1-length-all64)",
  "CAUGHT asn1enc.c encode_uint: NULL pass uses len_of_len(pp.len) instead of asn1len (only asn1-uint-big-X127 can see it, and does)",
  "CAUGHT asn1enc.c encode_uint: one extra 0x00 written past the INTEGER (guard region, rsa-raw-focus-iq)",
  "CAUGHT encode_rsa_pk8der.c: NULL pass omits len_of_len(len_raw) (rsa-pk8-focus-iq)",
  "CAUGHT encode_rsa_rawder.c: dp and dq swapped (rsa-raw-all1)",
  "CAUGHT encode_ec_rawder.c: BIT STRING unused-bits octet emitted after the point instead of before (ec-raw-x3-q5)",
  "CAUGHT encode_ec_rawder.c: leading 0x04 of the public point dropped (ec-pk8-P-256)",
  "CAUGHT encode_ec_pk8der.c: AlgorithmIdentifier length one short (ec-pk8-x1-qnone)",
  "CAUGHT pemenc.c: LINE64 limit 17 groups instead of 16 (pem-enc-D49-lf64)",
  "CAUGHT pemenc.c: no EOL after a full last line (pem-enc-D57-lf76)",
  "CAUGHT pemenc.c: b64char maps 63 to '-' (pem-enc-D3-lf76)",
  "EQUIVALENT pemenc.c: 'if (++off == lim && u + 3 < len)' - the EOL is then emitted by the trailing 'if (off != 0)'; same output, correctly not flagged",
 ],
}

ASN1 = ["src/x509/asn1enc.c"]

def _base_queries():
    qs = []
    qs.append(Q("asn1-length-all64", "C18_asn1.c", units=ASN1, defs=["-DMODE=1"], unwind=26,
                desc="br_asn1_encode_length: NULL pass == written size == minimal DER length octets decoding to len, every 64-bit len"))
    for xl in list(range(0, 9)):
        qs.append(Q("asn1-uint-X%d" % xl, "C18_asn1.c", units=ASN1, defs=["-DMODE=2", "-DXLEN=%d" % xl], unwind=xl + 26,
                    desc="br_asn1_uint_prepare/encode_uint: every %d-byte string (all leading-zero counts): minimal INTEGER, announced == written, decodes to the same value" % xl))
    for xl in (126, 127, 128, 255, 256):
        qs.append(Q("asn1-uint-big-X%d" % xl, "C18_asn1.c", units=ASN1, defs=["-DMODE=3", "-DXLEN=%d" % xl], unwind=xl + 26,
                    backend="cadical" if xl == 255 else None, tier="quick" if xl < 200 else "thorough", timeout=240 if xl < 200 else 900,
                    desc="br_asn1_encode_uint on a prepared %d-octet integer (data[0] != 0): exact bytes incl. long-form length, announced == written" % xl))
    if os.environ.get("VERIF_C18_STRICT_LIBC") == "1":
        # opt-in: fails on the current tree (see META outside_claim); not part of the C18 claim
        qs.append(Q("strict-memcpy-nonnull-version-field", "C18_asn1.c", units=[], native_units=ASN1, defs=["-DMODE=4"], unwind=10,
                    desc="br_asn1_uint_prepare(NULL, 0) + br_asn1_encode_uint: memcpy never receives a null pointer (C11 7.24.1p2)"))
    RSAU = ["src/x509/asn1enc.c", "src/x509/encode_rsa_rawder.c", "src/x509/encode_rsa_pk8der.c"]
    COMP = ["n", "e", "d", "p", "q", "dp", "dq", "iq"]

    def rsa_q(name, pk8, focus, cf, co, fill=0, symlen=0, exact=0, wit=(), tier="quick", timeout=240, backend=None, desc=""):
        nfree = 8 if focus < 0 else 1
        sumlen = nfree * cf + (8 - nfree) * co
        lenoct = 1 if (cf + 1 < 128 and co + 1 < 128) else 3
        outsz = sumlen + 8 * (2 + lenoct) + 3 + 4 + (26 if pk8 else 0) + 8
        big = max(cf, co)
        defs = ["-DPK8=%d" % pk8, "-DFOCUS=%d" % focus, "-DCF=%d" % cf, "-DCO=%d" % co, "-DFILL=%d" % fill,
                "-DSYMLEN=%d" % symlen, "-DEXACT=%d" % exact, "-DWIT_FREE=%d" % (focus if focus >= 0 else 3)] + ["-D" + w for w in wit]
        # loops with symbolic trip counts are unwound up to their bound, so
        # every such loop gets its own tight bound (unwinding assertions on)
        lol = 2 if outsz < 256 else 3     # significant octets of any length + 1
        uws = ["c18_fill.0:%d" % (outsz + 1), "c18_untouched.0:%d" % (outsz + 1),
               "br_asn1_encode_length.0:%d" % (lol + 1), "br_asn1_encode_length.1:%d" % (lol + 1),
               "br_asn1_uint_prepare.0:%d" % (big + 1), "memcpy.0:%d" % (big + 1), "c18_memcpy_head.0:20",
               "val_eq.0:%d" % (big + 2), "init_comp.0:%d" % (big + 1), "main.0:%d" % (cf + 1), "bytes_eq.0:17"]
        return Q(name, "C18_rsa.c", units=RSAU[:2] if pk8 else RSAU, native_units=RSAU, defs=defs, unwind=10, unwindset=uws,
                 tier=tier, timeout=timeout, backend=backend, desc=desc)

    for pk8 in (0, 1):
        nm = "pk8" if pk8 else "raw"
        fn = "br_encode_rsa_%s_der" % ("pkcs8" if pk8 else "raw")
        qs.append(rsa_q("rsa-%s-all1" % nm, pk8, -1, 1, 1, wit=["WIT_SHORT"],
                        desc=fn + ": all 8 components 1 fully symbolic byte each: two-pass sizes, guard region, strict DER reader finds every field"))
        # one component free (3 symbolic bytes, symbolic length 0..3: every leading-zero count,
        # zero value, top bit), the other seven 1 byte of fixed shape; raw: every component in turn
        for k in (range(8) if not pk8 else (0, 7)):
            qs.append(rsa_q("rsa-%s-focus-%s" % (nm, COMP[k]), pk8, k, 3, 1, fill=2, symlen=1, wit=["WIT_SHORT"],
                            desc=fn + ": component %s = 3 symbolic bytes with symbolic length 0..3, others 1 byte 0x40..0x7f: sizes, guard, strict DER reader" % COMP[k]))
        qs.append(rsa_q("rsa-%s-focus-q-topset" % nm, pk8, 4, 3, 2, fill=1, symlen=1, wit=["WIT_SHORT"],
                        desc=fn + ": component q free (3 bytes, length 0..3), others 2 bytes with top bit set (sign octet everywhere)"))
        qs.append(rsa_q("rsa-%s-exact-focus-dp" % nm, pk8, 5, 2, 1, fill=2, symlen=1, exact=1, wit=["WIT_SHORT"],
                        desc=fn + ": destination = exact-size region at the end of an array (overrun leaves the object), dp free"))
        # SEQUENCE / OCTET STRING lengths crossing 127 -> 128 (short form -> 0x81 long form) with the free component
        if not pk8:
            qs.append(rsa_q("rsa-raw-len127-128", 0, 3, 3, 14, fill=1, symlen=1, wit=["WIT_SHORT", "WIT_LONG"], tier="thorough", timeout=900,
                            desc=fn + ": fillers 14 bytes top-bit-set, p free: SEQUENCE content length 125..128 crosses short/long form"))
        else:
            qs.append(rsa_q("rsa-pk8-inner127-128", 1, 3, 3, 14, fill=1, symlen=1, wit=["WIT_LONG"], tier="thorough", timeout=900,
                            desc=fn + ": inner RSAPrivateKey total 127..131 bytes: OCTET STRING length crosses short/long form"))
            qs.append(rsa_q("rsa-pk8-outer127-128", 1, 3, 3, 12, fill=2, symlen=1, wit=["WIT_SHORT", "WIT_LONG"], tier="thorough", timeout=900,
                            desc=fn + ": outer PrivateKeyInfo content length 126..129 crosses short/long form"))
        qs.append(rsa_q("rsa-%s-all2" % nm, pk8, -1, 2, 2, wit=["WIT_SHORT"], tier="thorough", timeout=900,
                        desc=fn + ": all 8 components 2 fully symbolic bytes"))
        qs.append(rsa_q("rsa-%s-comp32" % nm, pk8, 1, 3, 32, fill=1, symlen=0, wit=["WIT_LONG"], tier="thorough", timeout=900,
                        desc=fn + ": e free (3 bytes), seven 32-byte top-bit-set fillers (RSA-512 primes size; 0x81 long-form lengths)"))

    ECU = ["src/x509/asn1enc.c", "src/x509/encode_ec_rawder.c", "src/x509/encode_ec_pk8der.c"]

    def ec_q(name, pk8, xlen, qlen, curve=None, exact=0, tier="quick", timeout=240, backend=None, desc=""):
        ql = max(qlen, 0)
        outsz = xlen + ql + 30 + (34 if pk8 else 0) + 8
        big = max(xlen, ql, 10)
        defs = ["-DPK8=%d" % pk8, "-DXLEN=%d" % xlen, "-DQLEN=%d" % qlen, "-DEXACT=%d" % exact]
        if curve is not None:
            defs.append("-DCURVE=%d" % curve)
        uws = ["c18_fill.0:%d" % (outsz + 1), "c18_untouched.0:%d" % (outsz + 1),
               "br_asn1_encode_length.0:3", "br_asn1_encode_length.1:3",
               "memcpy.0:%d" % (big + 1), "bytes_eq.0:%d" % (max(big, 16) + 1)]
        return Q(name, "C18_ec.c", units=ECU, defs=defs, unwind=max(big + 2, 10), unwindset=uws,
                 tier=tier, timeout=timeout, backend=backend, desc=desc)

    for pk8 in (0, 1):
        nm = "pk8" if pk8 else "raw"
        fn = "br_encode_ec_%s_der" % ("pkcs8" if pk8 else "raw")
        for (xl, ql) in ((3, 5), (1, -1), (0, 0), (2, 1)):
            qs.append(ec_q("ec-%s-x%d-q%s" % (nm, xl, "none" if ql < 0 else str(ql)), pk8, xl, ql,
                           desc=fn + ": every curve id (23/24/25 and all unsupported ints), x %d symbolic bytes, %s" % (xl, "pk == NULL" if ql < 0 else "q %d symbolic bytes" % ql)))
        for (cv, xl, ql, cname) in ((23, 32, 65, "P-256"), (24, 48, 97, "P-384"), (25, 66, 133, "P-521")):
            qs.append(ec_q("ec-%s-%s" % (nm, cname), pk8, xl, ql, curve=cv,
                           desc=fn + ": %s sizes (x %d, q %d symbolic bytes): sizes, guard, strict DER reader" % (cname, xl, ql)))
        qs.append(ec_q("ec-%s-exact-x3-q5" % nm, pk8, 3, 5, exact=1,
                       desc=fn + ": destination = exact-size region at the end of an array, every curve id"))
        qs.append(ec_q("ec-%s-P-521-nopub" % nm, pk8, 66, -1, curve=25, desc=fn + ": P-521 scalar, pk == NULL"))

    def pem_q(dlen, flags, blen, overlap=0, doff=-1, tier="quick", timeout=240, backend=None):
        linech = 64 if flags & 1 else 76
        eol = 2 if flags & 2 else 1
        b64 = ((dlen + 2) // 3) * 4
        nlines = (b64 + linech - 1) // linech
        explen = (11 + blen + 5 + eol) + b64 + nlines * eol + (9 + blen + 5 + eol)
        total = explen + 1 + 8 + (dlen if overlap else 0)
        fl = {0: "lf76", 1: "lf64", 2: "crlf76", 3: "crlf64"}[flags]
        kind = "enc" if not overlap else {-1: "overlap-any", -2: "overlap-end", -3: "overlap-inplace"}[doff]
        where = {-1: ", source at every position before/inside dest (overlap rule)", -2: ", source at the very end of dest", -3: ", source at dest + announced - len"}[doff] if overlap else ""
        return Q("pem-%s-D%d-%s-B%d" % (kind, dlen, fl, blen), "C18_pem.c", units=["src/codec/pemenc.c"],
                 defs=["-DDLEN=%d" % dlen, "-DFLAGS=%d" % flags, "-DBLEN=%d" % blen, "-DOVERLAP=%d" % overlap, "-DDOFF=%d" % doff],
                 unwind=total + 2, unwindset=["strlen.0:%d" % (blen + 2)], tier=tier, timeout=timeout, backend=backend,
                 desc="br_pem_encode: every %d-byte payload, flags %s, every %d-char banner%s: NULL-pass length == strlen of output == RFC 7468/4648 reference text, NUL at [len], guard untouched"
                      % (dlen, fl, blen, where))

    for dl in (0, 1, 2, 3, 47, 48, 49, 56, 57, 58):
        for fl in (0, 1, 2, 3):
            qs.append(pem_q(dl, fl, 1 if dl % 2 else 5))
    for (dl, fl) in ((1, 0), (2, 1), (3, 2), (5, 3), (10, 0)):
        qs.append(pem_q(dl, fl, 3, overlap=1))
    for (dl, fl) in ((48, 1), (57, 2), (58, 0)):
        qs.append(pem_q(dl, fl, 3, overlap=1, doff=-2))
        qs.append(pem_q(dl, fl, 3, overlap=1, doff=-3))
    for (dl, fl) in ((21, 1), (30, 2), (48, 1)):
        qs.append(pem_q(dl, fl, 3, overlap=1, tier="thorough", timeout=900))
    for dl in (96, 114, 115, 200):
        for fl in (0, 1, 2, 3):
            qs.append(pem_q(dl, fl, 8, tier="thorough", timeout=900))
    return qs


def queries():
    qs = _base_queries()
    if _t0 is not None:
        qs = qs + _t0.queries()
    return qs

if _t0 is not None:
    META["assumptions"] = list(META.get("assumptions", [])) + list(getattr(_t0, "ASSUMPTIONS", []))
    META["mutants_tried"] = list(META.get("mutants_tried", [])) + list(getattr(_t0, "MUTANTS", []))


# ---- cross-included by the main session: the PEM decoder's byte reader (CR skipping across pushes) is decided by the
# C07 two-schedule lemma on the extracted native read8-native; a seeded change there (C18b) must fail C18 as well.
_c18_queries = queries
def queries():
    qs = _c18_queries()
    try:
        import C07_t0_part
        qs = qs + [q for q in C07_t0_part.queries() if "pem" in q.name]
    except Exception:
        pass
    return qs


# ---- eqOID native of the decoders (curve / algorithm identification), added after the seeded change C18c escaped
_c18_q2 = queries
def queries():
    qs = _c18_q2()
    try:
        import C18_eqoid_part
        qs = qs + [q for q in C18_eqoid_part.queries() if True]
    except Exception:
        pass
    return qs
