from verif import Q
try:
    import C03_t0_part as _t0
except Exception as _e:   # the T0-native part needs encoders/t0tool.py
    _t0 = None
    _t0_err = repr(_e)

META = {
 "level_text": "Bounded symbolic model checking (CBMC) of the C functions that implement the handshake's authentication mechanisms (reached by #include of the generated ssl_hs_client.c / ssl_hs_server.c): ServerKeyExchange signature check, CertificateVerify check, RSA premaster anti-rollback and random substitution, ECDH(E) bad-point substitution — each from symbolic context fields, with hashing, validator and signature primitives as recording stubs. Partial: message order, ServerHello checks, Finished comparison, fallback SCSV and renegotiation binding are T0 bytecode and outside.",
 "level_note": "Trusted: CBMC; recording toy multi-hash at the br_multihash_* link seam; validator / RSA / ECDSA / key-exchange policy / PRF seams are contract stubs; preconditions on arguments are those the T0 callers establish (quoted in the harness).",
 "technique": "bounded symbolic model checking (CBMC/SAT) of real C handshake natives with recording contract stubs",
 "assumptions": [
  "br_multihash_* bound at link time to a recording toy multi-hash (every byte, its position and the hash id influence the digest)",
  "x509 validator get_pkey, irsavrfy, iecdsa, policy do_keyx, br_hmac_drbg_generate, br_ssl_engine_compute_master are recording contract stubs",
  "verify_SKE_sig arguments: hash in 2..6, or 0 with RSA (established by read-ServerKeyExchange in ssl_hs_client.t0); point length and signature length concrete per query",
 ],
 "outside_claim": ["handshake message order and transcript (T0)", "Finished computation/comparison (T0 + PRF)", "ServerHello version/suite/extension checks (T0)", "TLS_FALLBACK_SCSV (T0)", "certificate chain streaming into the validator (T0)"],
}

def _base_queries():
    qs = []
    for (pl, sl) in ((5, 6), (1, 1), (9, 3)):
        qs.append(Q("client-verify_SKE_sig-P%d-S%d" % (pl, sl), "C03_client.c", defs=["-DPL=%d" % pl, "-DSL=%d" % sl], unwind=max(80, 70 + pl), timeout=300,
                    backend="cadical", desc="verify_SKE_sig: accepted => validator's key, hash of randoms||params for the named hash, verifier success; point %d bytes, signature %d bytes" % (pl, sl)))
    for (nl, nz) in ((64, 0), (66, 2), (58, 0)):
        qs.append(Q("client-make_pms_rsa-N%d-Z%d" % (nl, nz), "C03_client_pms.c", defs=["-DNL=%d" % nl, "-DNZ=%d" % nz], unwind=max(70, nl + 4), timeout=300, backend="cadical",
                    desc="make_pms_rsa: 00 02 PS 00 || premaster with the client's MAXIMUM version, master secret from the same 48 bytes, validator's key; stored modulus %d bytes with %d leading zeros" % (nl, nz)))
    qs.append(Q("server-se_do_keyx", "C03_keyx.c", unwind=150, timeout=200,
                desc="se_do_keyx (static ECDH policy): reports the X-coordinate length on every outcome, success only if the multiplication succeeded; any point length <= 133"))
    qs.append(Q("server-verify_CV_sig", "C03_server.c", units=["src/codec/ccopy.c"], defs=["-DPART=1"], unwind=70, timeout=300, backend="cadical",
                desc="verify_CV_sig: accepted => validator's client key, transcript hash, right DigestInfo OID, verifier success; all key types / hash ids"))
    qs.append(Q("server-do_rsa_decrypt", "C03_server.c", units=["src/codec/ccopy.c"], defs=["-DPART=2"], unwind=70, timeout=300, backend="cadical",
                desc="do_rsa_decrypt: premaster version forced to client_max_version; random substitute iff decryption failed; buffer wiped (48-byte premaster in a 64-byte message)"))
    qs.append(Q("server-do_static_ecdh", "C03_server.c", units=["src/codec/ccopy.c"], defs=["-DPART=4"], unwind=140, timeout=300, backend="cadical",
                desc="do_static_ecdh: certified client point -> shared secret used iff the key exchange succeeded, random substitute otherwise"))
    qs.append(Q("server-do_ecdh", "C03_server.c", units=["src/codec/ccopy.c"], defs=["-DPART=3"], unwind=90, timeout=300, backend="cadical",
                desc="do_ecdh/ecdh_common: shared secret used iff the key exchange succeeded, random otherwise; wiped; X coordinate up to 33 bytes"))
    return qs


def queries():
    qs = _base_queries()
    if _t0 is not None:
        qs = qs + _t0.queries()
    return qs

if _t0 is not None:
    META["assumptions"] = list(META.get("assumptions", [])) + list(getattr(_t0, "ASSUMPTIONS", []))
    META["mutants_tried"] = list(META.get("mutants_tried", [])) + list(getattr(_t0, "MUTANTS", []))


# ---- cross-included by the main session: Finished / CertificateVerify authenticate the handshake only if the transcript
# hash is fed exactly the bytes on the wire; decided by the C07 query family t0-hsio-* (byte I/O natives of both programs).
_c03_queries = queries
def queries():
    qs = _c03_queries()
    try:
        import C07_t0_part
        qs = qs + C07_t0_part.hsio_queries()
    except Exception:
        pass
    return qs
