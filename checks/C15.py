from verif import Q
try:
    import C15_t0_part as _t0
except Exception as _e:   # the T0-native part needs encoders/t0tool.py
    _t0 = None
    _t0_err = repr(_e)

META = {
 "level_text": "Bounded symbolic model checking (CBMC) of the real C policy units of the negotiation: br_ssl_choose_hash for every mask, the single-RSA / single-EC server policy handlers (choose) for every list of up to 4 translated client suites with all flag, hash-mask, version, usage and issuer-type combinations, and the single-RSA / single-EC client certificate handlers (choose) for every auth_types mask, each against a reference written from bearssl_ssl.h. Partial: version selection, suite intersection, ALPN/SNI and the client's acceptance of the ServerHello are T0 code and outside.",
 "level_note": "Trusted: CBMC; loop-model memset; the server/client contexts are constructed directly (only the fields the handlers read are set, symbolically), handlers are installed by the public br_ssl_*_set_single_* setters and invoked through their vtable.",
 "technique": "bounded symbolic model checking (CBMC/SAT): real policy units vs documented reference function, all inputs symbolic",
 "assumptions": [
  "client_suites_num <= 4 (list entries fully symbolic: any wire id, any 16-bit translated flags incl. undefined key-exchange nibbles)",
  "private keys, RSA/EC implementations and chain contents are dummies (choose never dereferences them; EC client key carries only a symbolic curve id)",
  "client-certificate check: chain_len >= 1 configured",
 ],
 "outside_claim": [
  "ClientHello/ServerHello parsing, version choice, suite intersection and server-preference reordering, curve choice, ALPN, SNI, secure renegotiation flag (T0 code in ssl_hs_server.t0 / ssl_hs_client.t0)",
  "more than 4 common suites",
  "do_keyx / do_sign of the handlers (C10/C11)",
  "preference between static ECDH and ECDSA in the EC client handler (not documented; only admissibility is checked)",
 ],
 "mutants_tried": [
  "CAUGHT sr_choose iterates from the last suite (picks last usable instead of first) -> scert-rsa-choose 'FIRST usable entry'",
  "CAUGHT se_choose ECDH_RSA case ignores allowed_usages & BR_KEYTYPE_KEYX -> scert-ec-choose 'succeeds iff the reference finds a usable suite'",
  "CAUGHT br_ssl_choose_hash pref[] order SHA-384 before SHA-256 -> choose-hash, and algo_id/hash checks of all four handler queries",
  "CAUGHT sr_choose TLS 1.2 test inverted (version >= BR_TLS12 takes the MD5+SHA-1 branch) -> scert-rsa-choose",
  "CAUGHT se_choose keeps the negotiated hash below TLS 1.2 instead of forcing SHA-1 -> scert-ec-choose",
  "CAUGHT se_choose picks the hash from the RSA bits (hashes not shifted by 8) -> scert-ec-choose",
  "CAUGHT se_choose ECDH_ECDSA case ignores cert_issuer_key_type -> scert-ec-choose",
  "CAUGHT sr_choose algo_id = hash_id without 0xFF00 -> scert-rsa-choose 'algo_id is 0xFF00 + documented signature hash'",
  "CAUGHT client EC cc_choose ignores BR_KEYTYPE_SIGN -> ccert-ec-choose",
  "CAUGHT client EC cc_choose ignores the server-curve == key-curve condition for static ECDH -> ccert-ec-choose",
  "CAUGHT client RSA cc_choose takes the hash from the ECDSA bits -> ccert-rsa-choose",
  "all 11 counterexamples reproduced by the native ASan/UBSan replay",
 ],
 "findings": [
  "ccert-rsa-nochain: genuine (also upstream): ssl_ccert_single_rsa.c cc_choose has no return after memset(choices,0) -> for auth_types without any RSA bit (e.g. 0) it still reports the configured chain, auth_type RSA, hash_id 0, contradicting 'shall set chain to NULL and chain_len to 0'",
 ],
}


def _base_queries():
    qs = []
    qs.append(Q("choose-hash", "C15_hash.c", units=["src/ssl/ssl_hashes.c"], unwind=8,
                desc="br_ssl_choose_hash == documented preference order, every 32-bit mask; 0 iff no SHA-1..SHA-512 bit"))
    qs.append(Q("scert-rsa-choose", "C15_scert.c", units=["src/ssl/ssl_hashes.c"], defs=["-DPOLICY_EC=0"], unwind=8,
                native_units=["src/ssl/ssl_hashes.c", "src/rsa/rsa_ssl_decrypt.c"],
                desc="sr_choose == reference: first usable of <=4 symbolic suites, usages, version, hashes symbolic; algo_id, chain"))
    qs.append(Q("scert-ec-choose", "C15_scert.c", units=["src/ssl/ssl_hashes.c"], defs=["-DPOLICY_EC=1"], unwind=8,
                desc="se_choose == reference: first usable of <=4 symbolic suites, usages, issuer key type, version, hashes symbolic; algo_id, chain"))
    qs.append(Q("ccert-rsa-choose", "C15_ccert.c", units=["src/ssl/ssl_hashes.c"], defs=["-DPOLICY_EC=0"], unwind=40,
                native_units=["src/ssl/ssl_hashes.c", "src/ssl/ssl_scert_single_rsa.c", "src/rsa/rsa_ssl_decrypt.c"],
                desc="client single-RSA cc_choose: chain, auth type and preferred hash whenever the server accepts an RSA signature type, every auth_types mask"))
    qs.append(Q("ccert-rsa-nochain", "C15_ccert.c", units=["src/ssl/ssl_hashes.c"], defs=["-DPOLICY_EC=0", "-DNOCHAIN_CHECK=1"], unwind=40,
                native_units=["src/ssl/ssl_hashes.c", "src/ssl/ssl_scert_single_rsa.c", "src/rsa/rsa_ssl_decrypt.c"],
                desc="client single-RSA cc_choose: chain NULL / chain_len 0 iff the server accepts no RSA signature type (documented 'cannot send' convention)"))
    qs.append(Q("ccert-ec-choose", "C15_ccert.c", units=["src/ssl/ssl_hashes.c"], defs=["-DPOLICY_EC=1"], unwind=40,
                desc="client single-EC cc_choose vs documented contract, every auth_types mask, usages, issuer type, curves"))
    return qs


def queries():
    qs = _base_queries()
    if _t0 is not None:
        qs = qs + _t0.queries()
    return qs

if _t0 is not None:
    META["assumptions"] = list(META.get("assumptions", [])) + list(getattr(_t0, "ASSUMPTIONS", []))
    META["mutants_tried"] = list(META.get("mutants_tried", [])) + list(getattr(_t0, "MUTANTS", []))


# ---- cross-included by the main session: version-rollback protection of TLS_RSA key exchange (premaster version bytes =
# the client's MAXIMUM offered version on both sides; anchors src/ssl/ssl_hs_server.c, ssl_hs_client.c) is decided by
# the C03 queries server-do_rsa_decrypt and client-make_pms_rsa-*.
_c15_queries = queries
def queries():
    qs = _c15_queries()
    try:
        import C03
        qs = qs + [q for q in C03._base_queries() if q.name == "server-do_rsa_decrypt" or (q.name.startswith("client-make_pms_rsa") and q.tier == "quick")]
    except Exception:
        pass
    return qs
