"""ssl_io.c part of C19.  checks/C19.py can do
     from C19_sslio_part import queries as sslio_queries, SSLIO_ASSUMPTIONS, SSLIO_MUTANTS, SSLIO_FINDINGS
   `queries()` returns ordinary Q objects (harness/C19_sslio.c + harness/C19_sslio_model.h)."""
from verif import Q

SSLIO_ASSUMPTIONS = [
 "ssl_io.c is checked over an abstract engine model (harness/C19_sslio_model.h) bound at the br_ssl_engine_* link seam, not over ssl_engine.c: in/out buffers of CAP (1..3) bytes, toy record layer, state word and buf/ack regions per the contract documented in bearssl_ssl.h, nondeterministic failure on every ack, nondeterministic record kinds (application data / close_notify / handshake or other / still incomplete), optional half-duplex (shared buffer) behaviour; each call starts from ANY valid model state (handshake, open, closing, peer-closed, closed)",
 "low_read / low_write are contract stubs: any count in 1..len or -1 (errors permanent); they never return 0 (progress), which is what bounds the loops of ssl_io.c",
 "per call at most WIN_MAX bytes from low_read and WOUT_MAX bytes to low_write (values in each query's -D list; longer runs are cut by ASSUME), user length <= LEN_MAX; run_until / read_all / write_all / close loops are unwound to the --unwindset bound of the query with unwinding assertions on (the bound is proved sufficient under these budgets)",
 "position-coded contents: plaintext-in byte i is salt+37i (salt symbolic), transport-in byte i is 0x80+i; source bytes of writes are symbolic",
 "sslio-close: low_write does not fail while shutdown_recv is set (that case is the separate query sslio-close-wfail-after-peer-cn)",
]

SSLIO_MUTANTS = [
 "CAUGHT br_sslio_write_all ignores a short write (len = 0 after the first br_sslio_write) -> sslio-write-all '0 only after all len bytes were injected'",
 "CAUGHT br_sslio_read returns 0 instead of -1 at clean closure -> sslio-read 'never returns 0 when len > 0'; sslio-read-all loop no longer terminates (unwinding assertion)",
 "CAUGHT br_sslio_flush only calls br_ssl_engine_flush and does not push SENDREC bytes -> sslio-flush '0 only when all buffered data was accepted by low_write'",
 "CAUGHT run_until acknowledges len instead of wlen to sendrec_ack -> 'sendrec_ack acknowledges exactly what low_write accepted' (read/write/flush/close)",
 "CAUGHT run_until does not fail the engine on low_read error -> 'low_read error: engine failed with BR_ERR_IO', '-1 only when the engine is closed' (all six), close no longer terminates",
 "CAUGHT run_until tests the target before draining SENDREC -> sslio-flush",
 "CAUGHT br_sslio_read acks the engine's full length before clamping to len -> sslio-read 'exactly the returned count was consumed'",
 "CAUGHT br_sslio_close does not discard late application data -> sslio-close unwinding assertion (non-termination)",
 "all 8 counterexamples reproduced by the native ASan/UBSan replay (non-termination ones by replay timeout)",
]

SSLIO_FINDINGS = [
 "sslio-close-retdoc: br_sslio_close returns `last_error == BR_ERR_OK` (1 on success, 0 on error) while bearssl_ssl.h documents '0 on success, -1 on error' (same in upstream BearSSL); a caller testing `< 0` never sees a failed closure, a caller testing `!= 0` takes success for failure",
 "sslio-close-wfail-after-peer-cn: br_sslio_close never returns when low_write fails after the peer's close_notify was processed (shutdown_recv set, our close_notify still to be sent): run_until deliberately does not fail the engine in that case, the engine stays in SENDREC, and the close loop calls low_write forever (callback errors are documented as permanent). Shown over the abstract engine model; the model state corresponds to ssl_hs_common.t0 do-close with cnr=-1 waiting for can-output",
]

U = ["src/ssl/ssl_io.c"]
SMALL = ["-DCAP=2", "-DLEN_MAX=3", "-DWIN_MAX=3", "-DWOUT_MAX=4"]
BIG = ["-DCAP=3", "-DLEN_MAX=4", "-DWIN_MAX=5", "-DWOUT_MAX=6"]
ALLQ = ["-DCAP=1", "-DLEN_MAX=2", "-DWIN_MAX=2", "-DWOUT_MAX=2"]
ALLT = ["-DCAP=2", "-DLEN_MAX=3", "-DWIN_MAX=2", "-DWOUT_MAX=2"]
CLS = ["-DCAP=2", "-DLEN_MAX=3", "-DWIN_MAX=1", "-DWOUT_MAX=2"]
CLST = ["-DCAP=2", "-DLEN_MAX=3", "-DWIN_MAX=2", "-DWOUT_MAX=3"]


def _q(name, op, defs, ru, desc, us=(), tier="quick", timeout=240):
    return Q(name, "C19_sslio.c", units=U, defs=["-DOP=%d" % op] + list(defs), unwind=12,
             unwindset=["run_until.0:%d" % ru] + list(us), tier=tier, timeout=timeout,
             desc=desc + " [" + " ".join(d[2:] for d in defs) + "; run_until unwound %d]" % ru)


def queries():
    qs = []
    d_read = "br_sslio_read from any model state: -1 only when closed (or low_write failed after the peer's close_notify), never 0 for len>0, returned bytes == next bytes of the plaintext-in queue, nothing consumed on -1, every ack within the offered length"
    d_write = "br_sslio_write from any model state: -1 only when closed / low_write failed after close_notify / unread data blocks a shared buffer; injected bytes == next bytes of src, count == return value"
    d_flush = "br_sslio_flush: 0 only when buffered plaintext and pending record bytes were all accepted by low_write in order; -1 only when closed"
    d_rall = "br_sslio_read_all: 0 only after exactly len bytes of the plaintext-in queue, in order, across records; -1 only when closed and fewer than len obtained"
    d_wall = "br_sslio_write_all: 0 only after all len bytes were injected in order across buffer fills; -1 only when closed and fewer than len injected"
    qs.append(_q("sslio-read", 1, SMALL, 9, d_read))
    qs.append(_q("sslio-write", 3, SMALL, 9, d_write))
    qs.append(_q("sslio-flush", 5, SMALL, 9, d_flush))
    qs.append(_q("sslio-read-all", 2, ALLQ, 6, d_rall, us=["br_sslio_read_all.0:3"]))
    qs.append(_q("sslio-write-all", 4, ALLQ, 6, d_wall, us=["br_sslio_write_all.0:3"]))
    qs.append(_q("sslio-close", 6, CLS + ["-DWFAIL_SHUT=0"], 5,
                 "br_sslio_close terminates with the engine closed, discards late application data, injects nothing; clean closure only after earlier data and the close_notify went to low_write",
                 us=["br_sslio_close.0:4"]))
    qs.append(_q("sslio-close-wfail-after-peer-cn", 6, CLS + ["-DWFAIL_SHUT=1"], 5,
                 "br_sslio_close terminates also when low_write fails (permanently) after the peer's close_notify was received (shutdown_recv set)",
                 us=["br_sslio_close.0:4"]))
    qs.append(_q("sslio-close-retdoc", 6, ["-DCAP=1", "-DLEN_MAX=3", "-DWIN_MAX=1", "-DWOUT_MAX=2", "-DWFAIL_SHUT=0", "-DCLOSE_RET_DOC=1"], 6,
                 "br_sslio_close return value as documented in bearssl_ssl.h: 0 on success, -1 on error",
                 us=["br_sslio_close.0:4"]))
    # thorough tier: larger buffers / budgets
    qs.append(_q("sslio-read-big", 1, BIG, 14, d_read, tier="thorough", timeout=900))
    qs.append(_q("sslio-write-big", 3, BIG, 14, d_write, tier="thorough", timeout=900))
    qs.append(_q("sslio-flush-big", 5, BIG, 14, d_flush, tier="thorough", timeout=900))
    qs.append(_q("sslio-read-all-big", 2, ALLT, 7, d_rall, us=["br_sslio_read_all.0:4"], tier="thorough", timeout=900))
    qs.append(_q("sslio-write-all-big", 4, ALLT, 7, d_wall, us=["br_sslio_write_all.0:4"], tier="thorough", timeout=900))
    qs.append(_q("sslio-close-big", 6, CLST + ["-DWFAIL_SHUT=0"], 7,
                 "br_sslio_close terminates with the engine closed (larger budgets)", us=["br_sslio_close.0:5"], tier="thorough", timeout=900))
    return qs
