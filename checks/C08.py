"""
C08 -- secrets never influence branches or memory addresses (constant-time),
decided on LLVM IR by self-composition (DESIGN.md section 4, encoder E5).

Pipeline per entry point, optimisation level and size configuration (all of it
regenerated from the CURRENT repo tree, $VERIF_REPO, on every run):

  clang-14 -O{0,s,2} -S -emit-llvm  real .c files   ->  llvm-link  ->  IR
  encoders/ir2c.py                                  ->  build/C08/gen/<entry>_<opt>.c
  gcc: generated C vs. the real C on random inputs  ->  translation validation (TV)
  goto-cc + cbmc on harness/C08_<entry>.c           ->  self-composition query

queries() performs the first three steps (the query needs the generated file and
the observation count measured by the TV run); extra_checks() reports the TV
results, the negative controls and the coverage list.
"""
import os, sys, re, json, subprocess, time, hashlib, threading
from concurrent.futures import ThreadPoolExecutor

ROOT = os.path.dirname(os.path.dirname(os.path.abspath(__file__)))
sys.path.insert(0, os.path.join(ROOT, "encoders"))
from verif import Q, REPO, HARN, BUILD, repo_cflags_defs, ESP_DEFS, GUARD, run_query
import ir2c

GEN = os.path.join(BUILD, "C08", "gen")
CLANG = "clang-14"
LLVM_LINK = "llvm-link-14"
OPTS = ("O0", "Os", "O2")

META = {
 "level_text": "IR-level constant-time by self-composition, decided by CBMC/SAT: for each listed entry point, optimisation level (-O0/-Os/-O2 of clang-14) and public size, the LLVM IR of the real source files is translated to C with an observation hook before every conditional branch/switch, every load/store/block copy (address, length), every indirect call (target) and every division (operands); the translated function is run twice in one program on the same public inputs and the same memory objects with independent symbolic secrets, and the two observation sequences are asserted equal entry by entry. Partial: the listed entry points, sizes and optimisation levels only; machine code, and the lowering of IR 'select' to branches by a back end, are outside.",
 "level_note": "Trusted: clang-14's IR as the object of the claim, encoders/ir2c.py (re-validated on every run against the gcc-compiled real code on random inputs, bit-for-bit), CBMC. Stubs behind BearSSL's vtables are listed in assumptions. A counterexample is a pair of secrets; it is replayed natively on the translated code (the two logs are diffed), since the claim is about IR.",
 "technique": "self-composition over LLVM IR translated to C, decided by CBMC/SAT",
 "assumptions": [
  "public = sizes/lengths (concrete per query), buffer addresses, announced bit lengths (m[0] header words), vtable pointers; secret = everything else the harness draws in c08_secret()",
  "allocas are per-site static objects and both runs use the same harness buffers, so equal (object, offset) observations mean equal addresses; recursion is refused by the translator",
  "IR 'select', integer multiplication and shifts are taken as constant-time; udiv/sdiv/urem/srem operands are observed (reported as 'variable-time division')",
 ],
 "outside_claim": [
  "machine code (Xtensa/x86) and back-end lowering of select/cmov, multiplication latency",
  "implementations not listed: i32, i62, ec m31/m62/m64, x86ni/pclmul/sse2/power8 intrinsics",
  "production sizes (RSA/EC operand sizes, record lengths beyond the listed ones)",
  "the T0 handshake code (server handling of bad premaster / bad ECDH point)",
 ],
 "not_covered": [],
 "mutants_tried": [],
}

# ---------------------------------------------------------------------------
# entry-point table
# ---------------------------------------------------------------------------
ENTRIES = []


def entry(name, harness, tus, entries, sizes, opts=OPTS, quick_opts=("Os",), real_units=None, config="host",
          backend="cadical", timeout=240, desc="", secret="", public="", cdefs=(), expect_refused=False, control=False):
    """sizes: list of dict(tag=, defs={..}, unwind=, unwindset=[..], tier=)"""
    ENTRIES.append(dict(name=name, harness=harness, tus=list(tus), entries=list(entries), sizes=sizes, opts=opts,
                        quick_opts=quick_opts, real_units=list(real_units if real_units is not None else tus),
                        config=config, backend=backend, timeout=timeout, desc=desc, secret=secret, public=public,
                        cdefs=list(cdefs), expect_refused=expect_refused, control=control))


def S(tag, unwind, tier="quick", unwindset=(), **defs):
    return dict(tag=tag, defs=defs, unwind=unwind, unwindset=list(unwindset), tier=tier)


W = os.path.join(HARN, "C08_wrap_inner.c")

# (a) primitives
entry("prims", "C08_prims.c", [W], ["c08w_all"], [S("all", 20)], quick_opts=OPTS,
      desc="inner.h NOT MUX EQ NEQ GT GE LT LE CMP EQ0 GT0 GE0 LT0 LE0 BIT_LENGTH MIN MAX", secret="all operands", public="-")
entry("ccopy", "C08_ccopy.c", ["src/codec/ccopy.c"], ["br_ccopy"], [S("L8", 12, LEN=8), S("L33", 36, LEN=33, tier="thorough")],
      quick_opts=OPTS, desc="br_ccopy", secret="ctl, dst and src contents", public="len, buffer addresses")

# ---------------------------------------------------------------------------
# generation + translation validation
# ---------------------------------------------------------------------------
_lock = threading.Lock()
_prepared = None


def sh(cmd, timeout=300, cwd=None):
    try:
        p = subprocess.run(cmd, stdout=subprocess.PIPE, stderr=subprocess.STDOUT, timeout=timeout, cwd=cwd)
        return p.returncode, p.stdout.decode("utf-8", "replace")
    except subprocess.TimeoutExpired:
        return -999, "timeout"


def cfg_defs(config):
    d = repo_cflags_defs() + ["-D" + GUARD]
    if config == "esp":
        d += ESP_DEFS
    return d


def tu_path(t):
    return t if os.path.isabs(t) else os.path.join(REPO, t)


def gen_one(e, opt):
    """clang + llvm-link + ir2c for one (entry, opt). Returns dict(ok, file, reason, funcs, ninstr, sites)."""
    base = "%s_%s" % (e["name"], opt)
    lls = []
    for t in e["tus"]:
        ll = os.path.join(GEN, "%s__%s.ll" % (base, re.sub(r"[^A-Za-z0-9]", "_", os.path.basename(t))))
        cmd = [CLANG, "-" + opt, "-fno-vectorize", "-fno-slp-vectorize", "-fno-unroll-loops", "-S", "-emit-llvm", "-w",
               "-I" + os.path.join(REPO, "inc"), "-I" + os.path.join(REPO, "src"), "-I" + HARN] + cfg_defs(e["config"]) + e["cdefs"] + [tu_path(t), "-o", ll]
        rc, out = sh(cmd)
        if rc != 0:
            return dict(ok=False, reason="clang failed on %s: %s" % (t, out[-400:]))
        lls.append(ll)
    allll = os.path.join(GEN, base + ".ll")
    if len(lls) > 1:
        rc, out = sh([LLVM_LINK, "-S"] + lls + ["-o", allll])
        if rc != 0:
            return dict(ok=False, reason="llvm-link failed: " + out[-400:])
    else:
        os.replace(lls[0], allll)
    try:
        r = ir2c.translate(open(allll).read(), e["entries"])
    except ir2c.Unsupported as ex:
        return dict(ok=False, reason="ir2c refused: %s" % ex)
    except Exception as ex:  # a crash of the translator is a refusal too, never a silent skip
        return dict(ok=False, reason="ir2c crashed: %r" % (ex,))
    cfile = os.path.join(GEN, base + ".c")
    with open(cfile, "w") as f:
        f.write(r.c_text)
    with open(os.path.join(GEN, base + ".sites.json"), "w") as f:
        json.dump(r.sites, f)
    return dict(ok=True, file=base + ".c", funcs=r.funcs, ninstr=r.ninstr, nsites=len(r.sites),
                externs=[x[0] for x in r.externs], extern_globals=[x[0] for x in r.extern_globals])


def size_defs(sz):
    return ["-D%s=%s" % (k, v) for (k, v) in sorted(sz["defs"].items())]


def tv_one(e, opt, sz, g):
    """translation validation + observation count for one (entry, opt, size)."""
    tag = "%s_%s_%s" % (e["name"], opt, sz["tag"])
    exe = os.path.join(GEN, tag + ".tv")
    cmd = ["gcc", "-O1", "-w", "-fno-strict-aliasing", "-DC08_TV=1", "-DNATIVE_REPLAY=1", "-DC08_GEN=\"%s\"" % g["file"], "-I" + GEN, "-I" + HARN,
           "-I" + os.path.join(REPO, "inc"), "-I" + os.path.join(REPO, "src"), "-I" + REPO] + cfg_defs(e["config"]) + e["cdefs"] + size_defs(sz) + \
          [os.path.join(HARN, e["harness"])] + [tu_path(t) for t in e["real_units"]] + ["-o", exe]
    rc, out = sh(cmd)
    if rc != 0:
        return dict(ok=False, reason="TV build failed: " + out[-1500:])
    seed = os.environ.get("VERIF_SEED", "0") or "0"
    rc, out = sh([exe, str(int(seed) + 1)], timeout=300)
    m = re.search(r"TV-OK matched=(\d+) skipped=(\d+) outbytes=(\d+) obs_min=(\d+) obs_max=(\d+)", out)
    if rc != 0 or not m:
        return dict(ok=False, reason="TV run rc=%d: %s" % (rc, out[-600:]))
    return dict(ok=True, matched=int(m.group(1)), skipped=int(m.group(2)), outbytes=int(m.group(3)),
                obs_min=int(m.group(4)), obs_max=int(m.group(5)))


def prepare():
    global _prepared
    with _lock:
        if _prepared is not None:
            return _prepared
        os.makedirs(GEN, exist_ok=True)
        jobs = int(os.environ.get("VERIF_JOBS", "6"))
        gens = {}
        tvs = {}
        t0 = time.time()
        with ThreadPoolExecutor(max_workers=jobs) as ex:
            futs = {}
            for e in ENTRIES:
                for opt in e["opts"]:
                    futs[(e["name"], opt)] = ex.submit(gen_one, e, opt)
            for k, f in futs.items():
                gens[k] = f.result()
            futs = {}
            for e in ENTRIES:
                for opt in e["opts"]:
                    g = gens[(e["name"], opt)]
                    if not g["ok"]:
                        continue
                    for sz in e["sizes"]:
                        futs[(e["name"], opt, sz["tag"])] = ex.submit(tv_one, e, opt, sz, g)
            for k, f in futs.items():
                tvs[k] = f.result()
        _prepared = dict(gens=gens, tvs=tvs, wall=round(time.time() - t0, 1))
        nc = []
        for e in ENTRIES:
            for opt in e["opts"]:
                g = gens[(e["name"], opt)]
                if not g["ok"]:
                    nc.append("%s -%s: %s" % (e["name"], opt, g["reason"][:200]))
        META["not_covered"] = nc
        return _prepared


def mkq(e, opt, sz, tv):
    logn = tv["obs_max"] + 8
    tier = sz["tier"] if opt in e["quick_opts"] else "thorough"
    mem = sz["defs"].get("MEMMAX", 0)
    uw = ["c08_cmploop.0:%d" % (logn + 2)] + sz["unwindset"]
    return Q("%s-%s-%s" % (e["name"], opt, sz["tag"]), e["harness"],
             defs=["-I" + GEN, "-DC08_GEN=\"%s_%s.c\"" % (e["name"], opt), "-DC08_LOGN=%d" % logn, "-DVLOG_MAX=20000"] + e["cdefs"] + size_defs(sz),
             unwind=sz["unwind"], unwindset=uw, fsarray=max(logn + 8, 20010), backend=e["backend"], timeout=e["timeout"] if tier == "quick" else 900,
             tier=tier, config=e["config"], checks=False,
             desc="%s at clang -%s, %s: same branch/address/length/call-target/division-operand trace for all secrets (%s); public: %s; %d observations per run" %
                  (e["desc"], opt, sz["tag"], e["secret"], e["public"], tv["obs_max"]))


def queries():
    p = prepare()
    qs = []
    for e in ENTRIES:
        if e["control"]:
            continue
        for opt in e["opts"]:
            if not p["gens"][(e["name"], opt)]["ok"]:
                continue
            for sz in e["sizes"]:
                tv = p["tvs"][(e["name"], opt, sz["tag"])]
                if not tv["ok"]:
                    continue
                qs.append(mkq(e, opt, sz, tv))
    return qs


def extra_checks(tier, repo, builddir):
    p = prepare()
    res = []
    # translation validation results: one evaluation per (entry, opt, size)
    total = 0
    for e in ENTRIES:
        for opt in e["opts"]:
            g = p["gens"][(e["name"], opt)]
            if not g["ok"]:
                if e["expect_refused"]:
                    continue
                res.append({"query": "translate-%s-%s" % (e["name"], opt), "verdict": "INCONCLUSIVE", "kind": "encoding",
                            "reason": "NOT COVERED: " + g["reason"], "failed": [], "stats": {}})
                continue
            for sz in e["sizes"]:
                tv = p["tvs"][(e["name"], opt, sz["tag"])]
                if not tv["ok"]:
                    res.append({"query": "tv-%s-%s-%s" % (e["name"], opt, sz["tag"]), "verdict": "INCONCLUSIVE", "kind": "encoding",
                                "reason": "translation validation failed (encoder bug or harness bug): " + tv["reason"], "failed": [], "stats": {}})
                else:
                    total += tv["matched"]
    res.append({"query": "translation-validation", "verdict": "PASS", "nontrivial": False, "failed": [], "stats": {},
                "desc": "encoder E5 re-validated on this run: translated C vs gcc-compiled real C, bit-for-bit equal outputs on random inputs",
                "tv": {"%s-%s-%s" % k: {kk: vv for kk, vv in v.items() if kk != "ok"} for k, v in p["tvs"].items() if v["ok"]},
                "tv_total_cases": total,
                "translated": {"%s-%s" % k: {"functions": v["funcs"], "ir_instructions": v["ninstr"], "sites": v["nsites"]} for k, v in p["gens"].items() if v["ok"]},
                "not_covered": META["not_covered"], "prepare_wall_s": p["wall"]})
    # negative controls: the encoder must be able to see a leak
    ctl_q = []
    for e in ENTRIES:
        if not e["control"]:
            continue
        for opt in e["opts"]:
            if not p["gens"][(e["name"], opt)]["ok"]:
                continue
            for sz in e["sizes"]:
                tv = p["tvs"][(e["name"], opt, sz["tag"])]
                if tv["ok"] and (tier == "thorough" or (sz["tier"] == "quick" and opt in e["quick_opts"])):
                    ctl_q.append(mkq(e, opt, sz, tv))
    for q in ctl_q:
        q.witness = False
        q.native_ok = True
        r = run_query("C08", q)
        ok = r["verdict"] == "FAIL" and any("same " in f["description"] for f in r["failed"])
        rep = [f.get("replay", {}) for f in r.get("failed", [])]
        res.append({"query": "control-" + q.name, "verdict": "PASS" if ok else "INCONCLUSIVE", "kind": "encoding", "nontrivial": ok,
                    "reason": "" if ok else "negative control NOT flagged (encoder/harness insensitive): verdict %s %s" % (r["verdict"], r.get("reason", "")),
                    "desc": "negative control (known non-constant-time code must yield a counterexample): " + q.desc,
                    "control_failed_assertions": [f["description"] for f in r["failed"]],
                    "control_native_replay": [x.get("reproduced") for x in rep if x],
                    "failed": [], "stats": r.get("stats", {}), "wall_s": r.get("wall_s")})
    return res
