"""
C08 -- secrets never influence branches or memory addresses (constant-time),
decided on LLVM IR by self-composition (DESIGN.md section 4, encoder E5).

Pipeline per entry point, optimisation level and size configuration (all of it
regenerated from the CURRENT repo tree, $VERIF_REPO, on every run):

  clang-14 -O{0,s,2} -S -emit-llvm  real .c files   ->  llvm-link  ->  IR
  encoders/ir2c.py                                  ->  build/C08/gen/<entry>_<opt>.c
  gcc: generated C vs. the real C on random inputs  ->  translation validation (TV)
  goto-cc + cbmc on harness/C08_<entry>.c           ->  self-composition query

queries() performs the first three steps (the query needs the generated file and
the observation count measured by the TV run); extra_checks() reports the TV
results, the negative controls and the coverage list.
"""
import os, sys, re, json, subprocess, time, hashlib, threading
from concurrent.futures import ThreadPoolExecutor

ROOT = os.path.dirname(os.path.dirname(os.path.abspath(__file__)))
sys.path.insert(0, os.path.join(ROOT, "encoders"))
from verif import Q, REPO, HARN, BUILD, repo_cflags_defs, ESP_DEFS, GUARD, run_query
import ir2c

# generated files live in a directory of their own per repo tree (a scratch worktree given by
# VERIF_REPO must not share files with a concurrent run on /repo)
GEN = os.path.join(BUILD, "C08", "gen" if os.path.abspath(REPO) == "/repo" else "gen_" + hashlib.sha1(os.path.abspath(REPO).encode()).hexdigest()[:8])
CLANG = "clang-14"
LLVM_LINK = "llvm-link-14"
OPTS = ("O0", "Os", "O2")

META = {
 "level_text": "IR-level constant-time by self-composition, decided by CBMC/SAT: for each listed entry point, optimisation level (-O0/-Os/-O2 of clang-14) and public size, the LLVM IR of the real source files is translated to C with an observation hook before every conditional branch/switch, every load/store/block copy (address, length), every indirect call (target) and every division (operands); the translated function is run twice in one program on the same public inputs and the same memory objects with independent symbolic secrets, and the two observation sequences are asserted equal entry by entry. Partial: the listed entry points, sizes and optimisation levels only; machine code, and the lowering of IR 'select' to branches by a back end, are outside.",
 "level_note": "Trusted: clang-14's IR as the object of the claim, encoders/ir2c.py (re-validated on every run against the gcc-compiled real code on random inputs, bit-for-bit), CBMC. Stubs behind BearSSL's vtables are listed in assumptions. A counterexample is a pair of secrets; it is replayed natively on the translated code (the two logs are diffed), since the claim is about IR.",
 "technique": "self-composition over LLVM IR translated to C, decided by CBMC/SAT",
 "assumptions": [
  "public = sizes/lengths (concrete per query), buffer addresses, announced bit lengths (m[0] header words), vtable pointers; secret = everything else the harness draws in c08_secret()",
  "allocas are per-site static objects and both runs use the same harness buffers, so equal (object, offset) observations mean equal addresses; recursion is refused by the translator",
  "EC driver queries (ec_prime_i15_drv_*, ec_p256_m15_drv_*, ec_c25519_m15_drv_*): the listed callees are observation-only stubs (harness/C08_ecdrv.c, C08_ecdrv2.c): they log their pointer arguments (object+offset), lengths and bit-length header words, write unconstrained (ND) values to their outputs and return ND; the ctl arguments of br_i15_add/sub and br_ccopy are NOT logged (secret by design; br_ccopy is modelled functionally). The claim 'the driver's branches and addresses do not depend on scalar or point' therefore rests on the stubbed callees being constant-time themselves: br_i15_{add,sub,montymul,modpow,decode_mod,encode,iszero} and br_ccopy are the entry points of the i15_* / ccopy-* queries of this property; the p256_m15 field primitives and p256_double/p256_add are callees of the un-stubbed ec_p256_m15_p256_mul query (thorough tier); the c25519_m15 field primitives f255_mulgen/f255_add/f255_sub/mul20 are NOT covered un-stubbed",
  "stubs inside the translated TU (p256_m15, c25519_m15): translation validation compares the real code with the same IR translated WITHOUT stub substitution; the stubbed file differs only by omitting the bodies of the listed functions. ec_prime_i15: stubs sit at the link seam, and the real ec_prime_i15.c linked against the same stubs is what the translated driver is validated against",
  "entries marked online (the EC driver queries): run 1 checks each observation against run 0's log at once and then assumes it, and cbmc runs with --paths lifo (one path at a time), so that a diverged pair of paths ends at the divergence; the final log comparison is still performed",
  "IR 'select', integer multiplication and shifts are taken as constant-time; udiv/sdiv/urem/srem operands are observed (reported as 'variable-time division')",
  "queries run with --no-standard-checks (CBMC's pointer/bounds instrumentation triples symex time): memory safety of the same functions at these sizes is the obligation of C05/C09/C12; an out-of-bounds address would still be an (object, offset) observation here",
 ],
 "outside_claim": [
  "machine code (Xtensa/x86) and back-end lowering of select/cmov, multiplication latency",
  "implementations not listed: i32, i62, ec m31/m62/m64, x86ni/pclmul/sse2/power8 intrinsics",
  "production sizes (RSA/EC operand sizes, record lengths beyond the listed ones; in particular CBC records longer than mac_len+256 bytes, where min_len = len-256: a 320-byte record did not finish in 15 min)",
  "the T0 handshake code (server handling of bad premaster / bad ECDH point)",
  "complete EC point multiplication with real arithmetic (api_mul of ec_p256_m15 / ec_prime_i15 / ec_c25519_m15 translate and validate, but >10^6 observations per run: dropped); covered instead: the control structure of api_mul/api_mulgen over observation-only arithmetic stubs (ec_*_drv_* queries) and the un-stubbed p256_m15 core p256_mul (thorough tier); ECDSA/ECDH on top and api_muladd are not covered",
  "RSA private-key operation br_rsa_i15_private / i31 (modular exponentiation is covered only as br_i15_modpow/modpow_opt at 42..77-bit moduli with 2-byte exponents)",
 ],
 "not_covered": [],
 "mutants_tried": [
  "caught: 'if (ctl)' around the copy loop of br_ccopy (src/codec/ccopy.c) -> ccopy-{O0,Os,O2}-L8 'same branch condition ...' + 'same number of observations', natively reproduced (also breaks every entry that calls br_ccopy)",
  "caught: br_hmac_outCT padded-length km computed from len instead of max_len (src/mac/hmac_ct.c) -> hmac_outCT-Os-stub-50-60 (the sizes where the block count differs: len 50..55 vs 56..60); ~17 min incl. native replay; NOT distinguishable at stub-0-40 / stub-13-77 (same number of blocks for every len), there the query still passes",
  "caught: early 'if (!good) return 0' after the padding check of cbc_decrypt (src/ssl/ssl_rec_cbc.c) -> cbc_decrypt_md5-Os-RL48-expl (the accept/reject declassification does not hide it: the number of observations differs between two rejected records)",
  "caught: 'if (data[0] != 0x00) return 0' in br_rsa_ssl_decrypt -> rsa_ssl_decrypt-Os-L64",
  "caught: 'if (buf[0] != 0) return 0' before the constant-time scan of br_rsa_oaep_unpad -> rsa_oaep_unpad_md5-Os-k36",
  "caught: table S-box (br_aes_S[] indexed by key bytes) in sub_word of src/symcipher/aes_ct.c -> aes_ct_cbcenc-Os-k16-n32 (address trace differs)",
  "caught: direct secret-indexed window look-up 'base = t2 + mwlen * bits' in br_i15_modpow_opt (src/int/i15_modpow2.c) -> i15_modpow_opt-Os-b42-w2 (address trace differs)",
  "caught: memcmp() instead of the OR-accumulating loop in br_gcm_check_tag_trunc (src/aead/gcm.c) -> gcm_check_tag-Os-n20-a7-t16 (~10 min)",
  "caught: 'if (ctl) a[u] = ...' instead of MUX in br_i15_add -> i15_add-{O0,Os,O2}-b42",
  "caught (seeded/C08c-ec-prime-i15/patch.diff, written from the property text): point_mul of src/ec/ec_prime_i15.c skips a zero multiplier byte while the accumulator is still infinity -> ec_prime_i15_drv_mul-Os-p256-x2 VIOLATION, natively reproduced ('same branch condition ...' at the new branch; replay: first scalar byte zero in one run, non-zero in the other); ~9 min with cbmc --paths (the default path-merging symex did not finish in 10 min); the unchanged tree passes in ~65 s + witness",
  "caught: window look-up by secret index 'memcpy(&T, W[bits], sizeof T)' with W = {P, P, &P2, &P3} instead of the two CCOPYs in point_mul of ec_prime_i15.c -> ec_prime_i15_drv_mul-Os-p256-x2 (address of the block copy differs), 3 min",
  "caught: the same zero-byte skip in p256_mul of src/ec/ec_p256_m15.c -> ec_p256_m15_drv_mul-Os-x2, 3 min",
  "caught: direct indexing 'Gwin[(idx + 14) % 15][u] & -NEQ(idx, 0)' in lookup_Gwin of ec_p256_m15.c -> ec_p256_m15_drv_mulgen-Os-x2 (both 'same division operands' and the address observation), 2 min",
  "NOT decided in time: 'if (idx != 0) xy[u] = Gwin[idx - 1][u]' in lookup_Gwin (a secret branch per nibble AND a secret index) -> ec_p256_m15_drv_mulgen-Os-x2 timed out after 20 min (INCONCLUSIVE, never a pass): 2^4 x 2^4 path pairs with symbolic table indices",
 ],
}

# ---------------------------------------------------------------------------
# entry-point table
# ---------------------------------------------------------------------------
ENTRIES = []


def entry(name, harness, tus, entries, sizes, opts=OPTS, quick_opts=("Os",), real_units=None, config="host",
          backend="cadical", timeout=600, fsarray=256, online=False, stubs=(), desc="", secret="", public="", cdefs=(), expect_refused=False, control=False):
    """sizes: list of dict(tag=, defs={..}, unwind=, unwindset=[..], tier=)"""
    ENTRIES.append(dict(name=name, harness=harness, tus=list(tus), entries=list(entries), sizes=sizes, opts=opts,
                        quick_opts=quick_opts, real_units=list(real_units if real_units is not None else tus),
                        config=config, backend=backend, timeout=timeout, fsarray=fsarray, online=online, stubs=list(stubs), desc=desc, secret=secret, public=public,
                        cdefs=list(cdefs), expect_refused=expect_refused, control=control))


def S(tag, unwind, tier="quick", unwindset=(), memn=None, **defs):
    return dict(tag=tag, defs=defs, unwind=unwind, unwindset=list(unwindset), tier=tier, memn=memn)


W = os.path.join(HARN, "C08_wrap_inner.c")

# (a) primitives
entry("prims", "C08_prims.c", [W], ["c08w_all"], [S("all", 20)], quick_opts=OPTS,
      desc="inner.h NOT MUX EQ NEQ GT GE LT LE CMP EQ0 GT0 GE0 LT0 LE0 BIT_LENGTH MIN MAX", secret="all operands", public="-")
entry("ccopy", "C08_ccopy.c", ["src/codec/ccopy.c"], ["br_ccopy"], [S("L8", 12, LEN=8), S("L33", 36, LEN=33, tier="thorough")],
      quick_opts=OPTS, desc="br_ccopy", secret="ctl, dst and src contents", public="len, buffer addresses")

# (b) big integers
import glob as _glob


def _int_tus(w):
    return sorted("src/int/" + os.path.basename(f) for f in _glob.glob(os.path.join(REPO, "src", "int", "i%d_*.c" % w))) + \
        ["src/codec/ccopy.c", "src/int/i32_div32.c"]


BIG = [  # (fn number, name, sizes)
    (1, "add", {}), (2, "sub", {}), (3, "montymul", {}), (4, "muladd_small", {}), (5, "decode_mod", {}), (6, "encode", {}),
    (7, "modpow", {}), (8, "modpow_opt", {}), (9, "to_monty", {}), (10, "from_monty", {}), (11, "decode_reduce", {}),
    (12, "reduce", {}), (13, "iszero", {}), (14, "bit_length", {}), (16, "moddiv", {}),
]
for iw in (15, 31):
    tus = _int_tus(iw)
    for (fn, nm, _) in BIG:
        szs = []
        for bits, tier in (((42, "quick"), (48, "thorough"), (77, "thorough")) if iw == 15 else ((75, "quick"), (93, "thorough"))):
            d = dict(IW=iw, FN=fn, BITS=bits)
            tag = "b%d" % bits
            if nm == "modpow_opt":
                ln = ((bits + 15) >> 4) if iw == 15 else ((bits + 31) >> 5)
                mw = ln + 1 + ((ln + 1) & 1)
                szs.append(S(tag + "-w1", 40, tier=tier, TW=2 * mw, **d))
                szs.append(S(tag + "-w2", 40, tier=tier, TW=5 * mw, **d))
            elif nm == "moddiv":
                ln = ((bits + 15) >> 4) if iw == 15 else ((bits + 31) >> 5)
                szs.append(S(tag, 200, tier=tier, TW=4 * (ln + 2), **d))
            else:
                szs.append(S(tag, 40, tier=tier, **d))
        entry("i%d_%s" % (iw, nm), "C08_bigint.c", tus, ["br_i%d_%s" % (iw, nm)], szs, real_units=tus,
              quick_opts=OPTS if iw == 15 else ("Os",),
              desc="br_i%d_%s" % (iw, nm), secret="all value words of all operands incl. modulus and m0i, exponent/source bytes, ctl",
              public="announced bit length (header word), byte/word lengths, addresses")

# (c) HMAC with hidden length
HM = ["src/mac/hmac_ct.c", "src/codec/ccopy.c"]
entry("hmac_outCT", "C08_hmac.c", HM, ["br_hmac_outCT"],
      [S("stub-50-60", 140, MINLEN=50, MAXLEN=60), S("stub-0-40", 70, MINLEN=0, MAXLEN=40), S("stub-13-77", 140, MINLEN=13, MAXLEN=77),
       S("stub-60-200", 300, MINLEN=60, MAXLEN=200, tier="thorough")],
      quick_opts=OPTS, desc="br_hmac_outCT over a stub Merkle-Damgard hash class",
      secret="len within [min_len,max_len], data bytes, hash state, kso", public="min_len, max_len, addresses, hash class")
entry("hmac_outCT_sha1", "C08_hmac.c", HM + ["src/hash/sha1.c", "src/codec/enc32be.c", "src/codec/dec32be.c"], ["br_hmac_outCT", "br_sha1_vtable"],
      [S("sha1-5-37", 90, MINLEN=5, MAXLEN=37, REALHASH=1), S("sha1-0-120", 200, MINLEN=0, MAXLEN=120, REALHASH=1, tier="thorough")],
      desc="br_hmac_outCT over the translated br_sha1 (vtable, update, state, set_state, out, sha1_round all at IR level)",
      secret="len within [min_len,max_len], data bytes, hash state, kso", public="min_len, max_len, addresses")
entry("hmac_outCT_md5", "C08_hmac.c", HM + ["src/hash/md5.c", "src/codec/enc32le.c", "src/codec/dec32le.c"], ["br_hmac_outCT", "br_md5_vtable"],
      [S("md5-5-37", 90, MINLEN=5, MAXLEN=37, REALHASH=2)],
      desc="br_hmac_outCT over the translated br_md5", secret="len within [min_len,max_len], data bytes, hash state, kso", public="min_len, max_len, addresses")

# (d) CBC record decryption (padding + MAC check), real HMAC + hash at IR level, stand-in cipher
CBC = ["src/ssl/ssl_rec_cbc.c", "src/mac/hmac.c", "src/mac/hmac_ct.c", "src/codec/ccopy.c"]
SHA1 = ["src/hash/sha1.c", "src/codec/enc32be.c", "src/codec/dec32be.c"]
MD5 = ["src/hash/md5.c", "src/codec/enc32le.c", "src/codec/dec32le.c"]
entry("cbc_decrypt_sha1", "C08_cbc.c", CBC + SHA1, ["cbc_decrypt", "br_sha1_vtable"],
      [S("RL64-expl", 130, RL=64, EXPL=1, MACH=1), S("RL48-impl", 130, RL=48, EXPL=0, MACH=1),
       S("RL96-expl", 200, RL=96, EXPL=1, MACH=1, tier="thorough"), S("RL160-expl", 300, RL=160, EXPL=1, MACH=1, tier="thorough")],
      desc="cbc_decrypt + br_hmac_init/update/outCT + br_sha1 (all IR), stand-in block cipher",
      secret="all record bytes (padding length, padding, MAC, payload), cipher key, MAC key states", public="record length, explicit-IV flag, mac_len, seq/type/version, addresses; accept/reject declassified")
entry("cbc_decrypt_md5", "C08_cbc.c", CBC + MD5, ["cbc_decrypt", "br_md5_vtable"],
      [S("RL48-expl", 130, RL=48, EXPL=1, MACH=2)],
      desc="cbc_decrypt + br_hmac_* + br_md5 (all IR), stand-in block cipher",
      secret="all record bytes, cipher key, MAC key states", public="record length, explicit-IV flag, mac_len, seq/type/version, addresses; accept/reject declassified")

# (e) RSA padding checks
entry("rsa_ssl_decrypt", "C08_rsa.c", ["src/rsa/rsa_ssl_decrypt.c"], ["br_rsa_ssl_decrypt"],
      [S("L64", 70, FN=1, LEN=64), S("L128", 140, FN=1, LEN=128, tier="thorough")], quick_opts=OPTS,
      desc="br_rsa_ssl_decrypt (padding check; modular exponentiation core = stand-in)",
      secret="the decrypted block, the core's status bit", public="modulus length, addresses")
entry("rsa_oaep_unpad_md5", "C08_rsa.c", ["src/rsa/rsa_oaep_unpad.c", "src/hash/mgf1.c"] + MD5, ["br_rsa_oaep_unpad", "br_md5_vtable"],
      [S("k36", 70, unwindset=["ir_memmove_.0:38", "ir_memmove_.1:38"], FN=2, LEN=36, OH=2)],
      desc="br_rsa_oaep_unpad + br_mgf1_xor + br_md5 (all IR)",
      secret="the encoded message (seed, DB)", public="k, label, addresses; validity and message length declassified (documented)")
entry("rsa_oaep_unpad", "C08_rsa.c", ["src/rsa/rsa_oaep_unpad.c", "src/hash/mgf1.c"] + SHA1, ["br_rsa_oaep_unpad", "br_sha1_vtable"],
      [S("k44", 70, unwindset=["ir_memmove_.0:46", "ir_memmove_.1:46"], FN=2, LEN=44, tier="thorough"),
       S("k50", 70, unwindset=["ir_memmove_.0:52", "ir_memmove_.1:52"], FN=2, LEN=50, tier="thorough"),
       S("k64", 80, unwindset=["ir_memmove_.0:66", "ir_memmove_.1:66"], FN=2, LEN=64, tier="thorough")],
      desc="br_rsa_oaep_unpad + br_mgf1_xor + br_sha1 (all IR)",
      secret="the encoded message (seed, DB)", public="k, label, addresses; validity and message length declassified (documented)")

# (f) symmetric primitives
SC = "src/symcipher/"
AESCT = [SC + "aes_ct.c", SC + "aes_common.c", SC + "aes_ct_enc.c", SC + "aes_ct_dec.c", SC + "aes_ct_cbcenc.c", SC + "aes_ct_cbcdec.c", SC + "aes_ct_ctr.c",
         "src/codec/enc32le.c", "src/codec/dec32le.c", "src/codec/enc32be.c", "src/codec/dec32be.c"]
AESCT64 = [SC + "aes_ct64.c", SC + "aes_ct64_enc.c", SC + "aes_ct64_dec.c", SC + "aes_ct64_cbcenc.c", SC + "aes_ct64_cbcdec.c",
           "src/codec/enc32le.c", "src/codec/dec32le.c"]
DESCT = [SC + "des_ct.c", SC + "des_ct_cbcenc.c", SC + "des_ct_cbcdec.c", SC + "des_support.c", "src/codec/enc32be.c", "src/codec/dec32be.c"]
SYMSEC = "key, IV, data"
SYMPUB = "key length, data length, addresses"
entry("aes_ct_cbcenc", "C08_sym.c", AESCT, ["br_aes_ct_cbcenc_init", "br_aes_ct_cbcenc_run"],
      [S("k16-n32", 70, FN=1, KL=16, NB=32), S("k32-n32", 70, FN=1, KL=32, NB=32, tier="thorough")],
      desc="aes_ct key schedule + bitsliced encryption (br_aes_ct_cbcenc_init/run)", secret=SYMSEC, public=SYMPUB)
entry("aes_ct_cbcdec", "C08_sym.c", AESCT, ["br_aes_ct_cbcdec_init", "br_aes_ct_cbcdec_run"],
      [S("k16-n32", 70, FN=2, KL=16, NB=32), S("k24-n48", 70, FN=2, KL=24, NB=48, tier="thorough")],
      desc="aes_ct key schedule + bitsliced decryption (br_aes_ct_cbcdec_init/run)", secret=SYMSEC, public=SYMPUB)
entry("aes_ct_ctr", "C08_sym.c", AESCT, ["br_aes_ct_ctr_init", "br_aes_ct_ctr_run"],
      [S("k16-n37", 70, FN=13, KL=16, NB=37)],
      desc="aes_ct CTR (br_aes_ct_ctr_init/run)", secret=SYMSEC + ", counter", public=SYMPUB)
entry("aes_ct64_cbcenc", "C08_sym.c", AESCT64, ["br_aes_ct64_cbcenc_init", "br_aes_ct64_cbcenc_run"],
      [S("k16-n16", 70, FN=3, KL=16, NB=16), S("k32-n32", 70, FN=3, KL=32, NB=32, tier="thorough")],
      desc="aes_ct64 key schedule + bitsliced encryption (br_aes_ct64_cbcenc_init/run)", secret=SYMSEC, public=SYMPUB)
entry("aes_ct64_cbcdec", "C08_sym.c", AESCT64, ["br_aes_ct64_cbcdec_init", "br_aes_ct64_cbcdec_run"],
      [S("k16-n64", 80, FN=4, KL=16, NB=64)],
      desc="aes_ct64 key schedule + bitsliced decryption (br_aes_ct64_cbcdec_init/run)", secret=SYMSEC, public=SYMPUB)
entry("des_ct_cbcenc", "C08_sym.c", DESCT, ["br_des_ct_cbcenc_init", "br_des_ct_cbcenc_run"],
      [S("k8-n8", 100, FN=5, KL=8, NB=8), S("k24-n16", 100, FN=5, KL=24, NB=16)],
      desc="des_ct key schedule + bitsliced DES/3DES encryption (br_des_ct_cbcenc_init/run)", secret=SYMSEC, public=SYMPUB)
entry("des_ct_cbcdec", "C08_sym.c", DESCT, ["br_des_ct_cbcdec_init", "br_des_ct_cbcdec_run"],
      [S("k24-n8", 100, FN=6, KL=24, NB=8)],
      desc="des_ct key schedule + 3DES decryption (br_des_ct_cbcdec_init/run)", secret=SYMSEC, public=SYMPUB)
CHA = [SC + "chacha20_ct.c", "src/codec/enc32le.c", "src/codec/dec32le.c"]
entry("chacha20_ct", "C08_sym.c", CHA, ["br_chacha20_ct_run"],
      [S("n1", 70, FN=7, NB=1), S("n70", 80, FN=7, NB=70), S("n200", 210, FN=7, NB=200, tier="thorough")], quick_opts=OPTS,
      desc="br_chacha20_ct_run", secret="key, IV, counter, data", public="data length, addresses")
for (fn, nm) in ((8, "ctmul"), (9, "ctmul32")):
    entry("poly1305_" + nm, "C08_sym.c", CHA + [SC + "poly1305_%s.c" % nm, "src/codec/enc64le.c", "src/codec/dec64le.c"], ["br_poly1305_%s_run" % nm, "br_chacha20_ct_run"],
          [S("n16-a5-enc", 80, FN=fn, NB=16, AL=5, ENC=1), S("n35-a13-dec", 80, FN=fn, NB=35, AL=13, ENC=0)],
          desc="br_poly1305_%s_run with br_chacha20_ct_run (all IR)" % nm, secret="key, IV, data, AAD contents", public="lengths, direction, addresses")
for (fn, nm) in ((10, "ctmul"), (11, "ctmul32"), (12, "ctmul64")):
    entry("ghash_" + nm, "C08_sym.c", ["src/hash/ghash_%s.c" % nm, "src/codec/enc32be.c", "src/codec/dec32be.c", "src/codec/enc64be.c", "src/codec/dec64be.c"], ["br_ghash_" + nm],
          [S("n16", 40, FN=fn, NB=16), S("n37", 60, FN=fn, NB=37)], quick_opts=OPTS,
          desc="br_ghash_" + nm, secret="y, h, data", public="data length, addresses")
AEC = ["src/codec/enc32le.c", "src/codec/dec32le.c", "src/codec/enc32be.c", "src/codec/dec32be.c", "src/codec/enc64be.c", "src/codec/dec64be.c", "src/codec/ccopy.c"]
AEADSEC = "key, nonce, AAD contents, ciphertext, received tag (validity of the tag)"
entry("gcm_check_tag", "C08_aead.c", ["src/aead/gcm.c", "src/hash/ghash_ctmul32.c", SC + "aes_ct.c", SC + "aes_ct_enc.c", SC + "aes_ct_ctr.c"] + AEC,
      ["br_aes_ct_ctr_init", "br_gcm_init", "br_gcm_reset", "br_gcm_aad_inject", "br_gcm_flip", "br_gcm_run", "br_gcm_check_tag_trunc", "br_ghash_ctmul32"],
      [S("n20-a7-t16", 70, MODE=1, NB=20, AL=7, TL=16), S("n37-a20-t12", 70, MODE=1, NB=37, AL=20, TL=12, tier="thorough")],
      desc="GCM decryption sequence up to br_gcm_check_tag_trunc over aes_ct CTR + ghash_ctmul32 (all IR)", secret=AEADSEC, public="all lengths, addresses")
entry("ccm_check_tag", "C08_aead.c", ["src/aead/ccm.c", SC + "aes_ct.c", SC + "aes_ct_enc.c", SC + "aes_ct_ctrcbc.c"] + AEC,
      ["br_aes_ct_ctrcbc_init", "br_ccm_init", "br_ccm_reset", "br_ccm_aad_inject", "br_ccm_flip", "br_ccm_run", "br_ccm_check_tag"],
      [S("n20-a7-t16", 70, MODE=2, NB=20, AL=7, TL=16), S("n33-a20-t8", 70, MODE=2, NB=33, AL=20, TL=8, tier="thorough")],
      desc="CCM decryption sequence up to br_ccm_check_tag over aes_ct CTR+CBC-MAC (all IR)", secret=AEADSEC, public="all lengths, addresses")
entry("eax_check_tag", "C08_aead.c", ["src/aead/eax.c", SC + "aes_ct.c", SC + "aes_ct_enc.c", SC + "aes_ct_ctrcbc.c"] + AEC,
      ["br_aes_ct_ctrcbc_init", "br_eax_init", "br_eax_reset", "br_eax_aad_inject", "br_eax_flip", "br_eax_run", "br_eax_check_tag_trunc"],
      [S("n5-a3-t16", 70, MODE=3, NB=5, AL=3, TL=16), S("n20-a7-t16", 70, MODE=3, NB=20, AL=7, TL=16, tier="thorough")],
      desc="EAX decryption sequence up to br_eax_check_tag_trunc over aes_ct CTR+CBC-MAC (all IR)", secret=AEADSEC, public="all lengths, addresses")
# (g) EC: only the scalar-multiplication core of ec_p256_m15 (thorough tier).  The complete api_mul of
# ec_p256_m15 / ec_prime_i15 / ec_c25519_m15 translates and validates, but one run is 1.0-1.3 million
# observations even for a 1-byte scalar (point decoding, modular inversion for the affine conversion,
# 255 ladder steps for Curve25519 whatever the scalar length) -- hours of symex; dropped (META outside_claim).
ECC = ["src/codec/ccopy.c", "src/codec/enc32be.c", "src/codec/dec32be.c"]
ECP = ["src/ec/ec_prime_i15.c", "src/ec/ec_secp256r1.c", "src/ec/ec_secp384r1.c", "src/ec/ec_secp521r1.c"]
ECSTUB = "scalar bytes, point bytes, all data produced by the stubbed callees"
ECPUB = "xlen, curve, addresses, bit-length header words; br_i15_{add,sub,montymul,modpow,decode_mod,encode,iszero} and br_ccopy are observation-only stubs (ctl arguments not logged)"
entry("ec_prime_i15_drv_mul", "C08_ecdrv.c", ECP, ["api_mul"],
      [S("p256-x2", 240, FN=1, CURVE=23, XLEN=2), S("p256-x3", 240, FN=1, CURVE=23, XLEN=3, tier="thorough"), S("p384-x2", 240, FN=1, CURVE=24, XLEN=2, tier="thorough")],
      quick_opts=("Os",), online=True, timeout=1200, desc="control structure of ec_prime_i15 api_mul (point_decode, point_mul, point_encode, run_code) over observation-only big-integer stubs",
      secret=ECSTUB, public=ECPUB)
entry("ec_prime_i15_drv_mulgen", "C08_ecdrv.c", ECP, ["api_mulgen"],
      [S("p256-x2", 240, FN=2, CURVE=23, XLEN=2, tier="thorough"), S("p384-x2", 240, FN=2, CURVE=24, XLEN=2, tier="thorough")],
      quick_opts=("Os",), online=True, timeout=1200, desc="control structure of ec_prime_i15 api_mulgen over observation-only big-integer stubs",
      secret=ECSTUB, public=ECPUB)
P256STUB = ["br_ccopy", "p256_double", "p256_add", "mul_f256", "square_f256", "reduce_f256", "reduce_final_f256", "mul20", "square20"]
for _fn, _nm in ((1, "mul"), (2, "mulgen")):
    entry("ec_p256_m15_drv_" + _nm, "C08_ecdrv2.c", ["src/ec/ec_p256_m15.c", "src/ec/ec_secp256r1.c"] + ECC, ["api_" + _nm],
          [S("x2", 300, IMPL=1, FN=_fn, XLEN=2), S("x3", 300, IMPL=1, FN=_fn, XLEN=3, tier="thorough")], quick_opts=("Os",), online=True, timeout=1200, stubs=P256STUB,
          desc="control structure of ec_p256_m15 api_%s (decode, scalar loop, window look-up, double/add, to-affine, encode) over observation-only field-primitive stubs" % _nm,
          secret="scalar bytes, point bytes, all limbs produced by the stubbed field primitives",
          public="xlen, addresses; stubs: " + " ".join(P256STUB))
entry("ec_c25519_m15_drv_mul", "C08_ecdrv2.c", ["src/ec/ec_c25519_m15.c"] + ECC, ["api_mul"],
      [S("x2", 300, IMPL=3, FN=1, XLEN=2, tier="thorough")], opts=("Os",), online=True, timeout=1200, stubs=["br_ccopy", "f255_mulgen", "f255_add", "f255_sub", "mul20"],
      desc="control structure of ec_c25519_m15 api_mul (X25519 ladder, cswap, mul_a24, inversion, encode) over observation-only field-primitive stubs",
      secret="scalar bytes, u coordinate, all limbs produced by the stubbed field primitives", public="xlen, addresses; stubs: f255_mulgen f255_add f255_sub mul20")
entry("ec_p256_m15_p256_mul", "C08_ecmul.c", ["src/ec/ec_p256_m15.c"] + ECC, ["p256_mul"],
      [S("x1", 300, XLEN=1, tier="thorough")], opts=("Os",), real_units=["src/ec/ec_secp256r1.c"] + ECC, timeout=900,
      desc="ec_p256_m15 p256_mul (window look-up by CCOPY, Jacobian double/add), 1-byte scalar", secret="scalar, point coordinate limbs", public="xlen, addresses")
# ESP8266-like configuration (portable 32-bit code paths: BR_64=0, BR_LOMUL=1, no unaligned access) for the
# implementations the ESP8266 build selects
import copy as _copy
for _nm in ("i15_montymul", "i15_muladd_small", "i15_modpow_opt", "ccopy", "hmac_outCT", "cbc_decrypt_md5", "aes_ct_cbcenc", "aes_ct_cbcdec", "des_ct_cbcenc",
            "chacha20_ct", "poly1305_ctmul32", "ghash_ctmul32", "rsa_ssl_decrypt", "gcm_check_tag"):
    _e = [x for x in ENTRIES if x["name"] == _nm][0]
    _c = _copy.deepcopy(_e)
    _c["name"] = _nm + "_esp"
    _c["config"] = "esp"
    _c["opts"] = ("Os",)
    _c["quick_opts"] = ("Os",)
    _c["sizes"] = [s for s in _c["sizes"] if s["tier"] == "quick"][-1:]
    _c["desc"] = _e["desc"] + " [ESP8266-like config]"
    ENTRIES.append(_c)
# negative controls (reported through extra_checks; they must FAIL)
entry("aes_big_cbcenc", "C08_sym.c", [SC + "aes_big_enc.c", SC + "aes_big_cbcenc.c", SC + "aes_common.c", "src/codec/enc32be.c", "src/codec/dec32be.c"],
      ["br_aes_big_cbcenc_init", "br_aes_big_cbcenc_run"], [S("k16-n16", 70, FN=20, KL=16, NB=16)], control=True,
      desc="NEGATIVE CONTROL aes_big encryption (S-box/T-table look-ups indexed by secret bytes)", secret=SYMSEC, public=SYMPUB)
entry("memcmp_tag", "C08_sym.c", [W], ["c08w_tagcmp"], [S("n16", 40, FN=22)], control=True,
      desc="NEGATIVE CONTROL memcmp-style early-exit tag comparison", secret="both buffers", public="length")

# ---------------------------------------------------------------------------
# generation + translation validation
# ---------------------------------------------------------------------------
_lock = threading.Lock()
_prepared = None


def sh(cmd, timeout=300, cwd=None):
    try:
        p = subprocess.run(cmd, stdout=subprocess.PIPE, stderr=subprocess.STDOUT, timeout=timeout, cwd=cwd)
        return p.returncode, p.stdout.decode("utf-8", "replace")
    except subprocess.TimeoutExpired:
        return -999, "timeout"


def cfg_defs(config):
    d = repo_cflags_defs() + ["-D" + GUARD]
    if config == "esp":
        d += ESP_DEFS
    return d


def tu_path(t):
    return t if os.path.isabs(t) else os.path.join(REPO, t)


_cache = {}
_cache_lock = threading.Lock()


def once(key, fn):
    """run fn() once per key per process (thread-safe), return its result"""
    with _cache_lock:
        ent = _cache.get(key)
        if ent is None:
            ent = _cache[key] = {"lock": threading.Lock(), "done": False, "res": None}
    with ent["lock"]:
        if not ent["done"]:
            ent["res"] = fn()
            ent["done"] = True
    return ent["res"]


def clang_ll(t, opt, config, cdefs):
    """IR of one translation unit (compiled once per run and (opt, config, defs))"""
    key = ("ll", t, opt, config, tuple(cdefs))

    def f():
        h = hashlib.sha1(repr(key).encode()).hexdigest()[:8]
        ll = os.path.join(GEN, "tu_%s_%s_%s.ll" % (re.sub(r"[^A-Za-z0-9]", "_", os.path.basename(t)), opt, h))
        cmd = [CLANG, "-" + opt, "-fno-vectorize", "-fno-slp-vectorize", "-fno-unroll-loops", "-S", "-emit-llvm", "-w",
               "-I" + os.path.join(REPO, "inc"), "-I" + os.path.join(REPO, "src"), "-I" + HARN] + cfg_defs(config) + list(cdefs) + [tu_path(t), "-o", ll]
        rc, out = sh(cmd)
        return (rc, out, ll)
    return once(key, f)


def real_obj(t, config, cdefs):
    """gcc object of one real translation unit for the translation validation (once per run)"""
    key = ("obj", t, config, tuple(cdefs))

    def f():
        h = hashlib.sha1(repr(key).encode()).hexdigest()[:8]
        o = os.path.join(GEN, "real_%s_%s.o" % (re.sub(r"[^A-Za-z0-9]", "_", os.path.basename(t)), h))
        cmd = ["gcc", "-O1", "-w", "-c", "-I" + os.path.join(REPO, "inc"), "-I" + os.path.join(REPO, "src"), "-I" + HARN] + cfg_defs(config) + list(cdefs) + [tu_path(t), "-o", o]
        rc, out = sh(cmd)
        return (rc, out, o)
    return once(key, f)


def linked_module(e, opt):
    key = ("mod", tuple(e["tus"]), opt, e["config"], tuple(e["cdefs"]))

    def f():
        lls = []
        for t in e["tus"]:
            rc, out, ll = clang_ll(t, opt, e["config"], e["cdefs"])
            if rc != 0:
                return (None, "clang failed on %s: %s" % (t, out[-400:]))
            lls.append(ll)
        h = hashlib.sha1(repr(key).encode()).hexdigest()[:10]
        allll = os.path.join(GEN, "mod_%s_%s.ll" % (opt, h))
        if len(lls) > 1:
            rc, out = sh([LLVM_LINK, "-S"] + lls + ["-o", allll])
            if rc != 0:
                return (None, "llvm-link failed: " + out[-400:])
        else:
            allll = lls[0]
        try:
            return (ir2c.Module(open(allll).read()), allll)
        except ir2c.Unsupported as ex:
            return (None, "ir2c refused (module level): %s" % ex)
        except Exception as ex:
            return (None, "ir2c crashed (module level): %r" % (ex,))
    return once(key, f)


def gen_one(e, opt):
    """clang + llvm-link + ir2c for one (entry, opt). Returns dict(ok, file, reason, funcs, ninstr, sites)."""
    base = "%s_%s" % (e["name"], opt)
    mod, info = linked_module(e, opt)
    if mod is None:
        return dict(ok=False, reason=info)
    try:
        r = ir2c.Translator(mod, stubs=e["stubs"]).translate(e["entries"])
        if e["stubs"]:
            # twin without stub substitution: this is what the translation validation compares with the real code
            rfull = ir2c.Translator(mod).translate(e["entries"])
            with open(os.path.join(GEN, base + "_full.c"), "w") as f:
                f.write(rfull.c_text)
    except ir2c.Unsupported as ex:
        return dict(ok=False, reason="ir2c refused: %s" % ex)
    except Exception as ex:  # a crash of the translator is a refusal too, never a silent skip
        return dict(ok=False, reason="ir2c crashed: %r" % (ex,))
    cfile = os.path.join(GEN, base + ".c")
    with open(cfile, "w") as f:
        f.write(r.c_text)
    with open(os.path.join(GEN, base + ".sites.json"), "w") as f:
        json.dump(r.sites, f)
    return dict(ok=True, file=base + ".c", funcs=r.funcs, ninstr=r.ninstr, nsites=len(r.sites), elided=r.elided, ir=os.path.basename(info),
                externs=[x[0] for x in r.externs], extern_globals=[x[0] for x in r.extern_globals])


def size_defs(sz):
    return ["-D%s=%s" % (k, v) for (k, v) in sorted(sz["defs"].items())]


def tv_one(e, opt, sz, g):
    """translation validation + observation count for one (entry, opt, size).
    Entries with in-TU stubs: the validation runs on the twin translated WITHOUT stub substitution (same IR,
    same translator; the stubbed file differs only by omitting the bodies of the listed functions), and the
    observation count comes from a separate native run of the stubbed file."""
    tag = "%s_%s_%s" % (e["name"], opt, sz["tag"])
    objs = []
    for t in e["real_units"]:
        rc, out, o = real_obj(t, e["config"], e["cdefs"])
        if rc != 0:
            return dict(ok=False, reason="TV: gcc failed on real unit %s: %s" % (t, out[-600:]))
        objs.append(o)
    seed = os.environ.get("VERIF_SEED", "0") or "0"

    def build_run(exe, gen, extra, objs_):
        cmd = ["gcc", "-O1", "-w", "-fno-strict-aliasing", "-DC08_TV=1", "-DNATIVE_REPLAY=1", "-DC08_GEN=\"%s\"" % gen, "-I" + GEN, "-I" + HARN,
               "-I" + os.path.join(REPO, "inc"), "-I" + os.path.join(REPO, "src"), "-I" + REPO] + cfg_defs(e["config"]) + e["cdefs"] + size_defs(sz) + extra + \
              [os.path.join(HARN, e["harness"])] + objs_ + ["-o", exe]
        rc, out = sh(cmd)
        if rc != 0:
            return None, "TV build failed: " + out[-1500:]
        rc, out = sh([exe, str(int(seed) + 1)], timeout=300)
        m = re.search(r"TV-OK matched=(\d+) skipped=(\d+) outbytes=(\d+) obs_min=(\d+) obs_max=(\d+) div_max=(\d+)", out)
        if rc != 0 or not m:
            return None, "TV run rc=%d: %s" % (rc, out[-600:])
        return m, None
    if e["stubs"]:
        m, err = build_run(os.path.join(GEN, tag + ".tv"), g["file"][:-2] + "_full.c", ["-DC08_NOSTUB=1"], objs)
        if m is None:
            return dict(ok=False, reason=err)
        m2, err = build_run(os.path.join(GEN, tag + ".cnt"), g["file"], ["-DC08_COUNTONLY=1"], [])
        if m2 is None:
            return dict(ok=False, reason="count run: " + err)
        return dict(ok=True, matched=int(m.group(1)), skipped=int(m.group(2)), outbytes=int(m.group(3)),
                    obs_min=int(m2.group(4)), obs_max=int(m2.group(5)), div_max=int(m2.group(6)), validated="twin without stub substitution")
    m, err = build_run(os.path.join(GEN, tag + ".tv"), g["file"], [], objs)
    if m is None:
        return dict(ok=False, reason=err)
    return dict(ok=True, matched=int(m.group(1)), skipped=int(m.group(2)), outbytes=int(m.group(3)),
                obs_min=int(m.group(4)), obs_max=int(m.group(5)), div_max=int(m.group(6)))


def run_mode():
    """(tier, only): what this process was asked to do (queries() needs the generated files of
    exactly the queries the driver is going to run)"""
    a = sys.argv
    tier = os.environ.get("VERIF_TIER", "quick")
    only = None
    if len(a) > 1 and a[1] == "list":
        return "list", None
    if len(a) > 2 and a[1] == "replay":
        try:
            return "thorough", "=" + json.load(open(a[2]))["query"]
        except Exception:
            return "thorough", None
    if "--tier" in a:
        tier = a[a.index("--tier") + 1]
    if "--only" in a:
        only = a[a.index("--only") + 1]
    return tier, only


def qname(e, opt, sz):
    return "%s-%s-%s" % (e["name"], opt, sz["tag"])


def q_tier(e, opt, sz):
    return sz["tier"] if opt in e["quick_opts"] else "thorough"


def wanted(e, opt, sz, tier, only):
    if tier == "list":
        return False
    if tier != "thorough" and q_tier(e, opt, sz) != "quick":
        return False
    if only:
        n = ("control-" if e["control"] else "") + qname(e, opt, sz)
        if only.startswith("="):
            return n == only[1:]
        return only in n
    return True


def prepare():
    global _prepared
    with _lock:
        if _prepared is not None:
            return _prepared
        os.makedirs(GEN, exist_ok=True)
        tier, only = run_mode()
        jobs = int(os.environ.get("VERIF_JOBS", "6"))
        gens = {}
        tvs = {}
        t0 = time.time()
        with ThreadPoolExecutor(max_workers=jobs) as ex:
            futs = {}
            for e in ENTRIES:
                for opt in e["opts"]:
                    if any(wanted(e, opt, sz, tier, only) for sz in e["sizes"]):
                        futs[(e["name"], opt)] = ex.submit(gen_one, e, opt)
            for k, f in futs.items():
                gens[k] = f.result()
            futs = {}
            for e in ENTRIES:
                for opt in e["opts"]:
                    g = gens.get((e["name"], opt))
                    if g is None or not g["ok"]:
                        continue
                    for sz in e["sizes"]:
                        if wanted(e, opt, sz, tier, only):
                            futs[(e["name"], opt, sz["tag"])] = ex.submit(tv_one, e, opt, sz, g)
            for k, f in futs.items():
                tvs[k] = f.result()
        _prepared = dict(gens=gens, tvs=tvs, wall=round(time.time() - t0, 1), tier=tier)
        nc = []
        for e in ENTRIES:
            for opt in e["opts"]:
                g = gens.get((e["name"], opt))
                if g is not None and not g["ok"]:
                    nc.append("%s -%s: %s" % (e["name"], opt, g["reason"][:200]))
        META["not_covered"] = nc
        return _prepared


def write_logh(name, logn, divn):
    """chunked observation logs for CBMC (see harness/C08_rt.h): 64-entry chunks behind a two-level
    table of pointers, every table at most 64 entries (so that each stays field-sensitive)"""
    o = ["#define C08_LOGN %d" % logn, "#define C08_DIVN %d" % divn]
    for fam, n in (("v0", logn), ("v1", logn), ("d0", divn), ("d1", divn)):
        k = (n + 63) // 64
        if k > 64 * 64:
            raise RuntimeError("observation log too large")
        for i in range(k):
            o.append("static uint64_t c08_%s_%d[64];" % (fam, i))
        k2 = (k + 63) // 64
        for j in range(k2):
            o.append("static uint64_t *const c08_%s_t%d[] = {%s};" % (fam, j, ", ".join("c08_%s_%d" % (fam, i) for i in range(64 * j, min(k, 64 * j + 64)))))
        o.append("static uint64_t *const *const c08_%s[] = {%s};" % (fam, ", ".join("c08_%s_t%d" % (fam, j) for j in range(k2))))
    with open(os.path.join(GEN, name), "w") as f:
        f.write("\n".join(o) + "\n")


def mkq(e, opt, sz, tv):
    logn = tv["obs_max"] + 8
    logh = "%s_%s_%s.log.h" % (e["name"], opt, sz["tag"])
    divn = tv["div_max"] + 8
    write_logh(logh, logn, divn)
    tier = q_tier(e, opt, sz)
    memn = sz["memn"] or max(300, sz["unwind"])
    uwd = {"c08_cmploop.0": logn + 2, "c08_cmpdiv.0": divn + 2, "ir_memcpy_.0": memn, "ir_memcpy_.1": memn, "ir_memcpy_.2": memn, "ir_memset_.0": memn,
           "ir_memmove_.0": memn, "ir_memmove_.1": memn}
    for x in sz["unwindset"]:
        k, _, v = x.rpartition(":")
        uwd[k] = int(v)
    uw = ["%s:%d" % kv for kv in uwd.items()]
    return Q(qname(e, opt, sz), e["harness"],
             defs=["-I" + GEN, "-DC08_GEN=\"%s_%s.c\"" % (e["name"], opt), "-DC08_LOGN=%d" % logn, "-DC08_DIVN=%d" % divn, "-DC08_LOGH=\"%s\"" % logh, "-DVLOG_MAX=200000"] + (["-DC08_ONLINE=1"] if e["online"] else []) + e["cdefs"] + size_defs(sz),
             unwind=sz["unwind"], unwindset=uw, fsarray=e["fsarray"], backend=e["backend"], timeout=e["timeout"] if tier == "quick" else 900,
             tier=tier, config=e["config"], checks=False, flags=["--no-standard-checks"] + (["--paths", "lifo"] if e["online"] else []), objbits=16,
             desc="%s at clang -%s, %s: same branch/address/length/call-target/division-operand trace for all secrets (%s); public: %s; %d observations per run" %
                  (e["desc"], opt, sz["tag"], e["secret"], e["public"], tv["obs_max"]))


def queries():
    p = prepare()
    qs = []
    for e in ENTRIES:
        if e["control"]:
            continue
        for opt in e["opts"]:
            g = p["gens"].get((e["name"], opt))
            for sz in e["sizes"]:
                if p["tier"] == "list":
                    qs.append(Q(qname(e, opt, sz), e["harness"], tier=q_tier(e, opt, sz), desc="%s at clang -%s, %s" % (e["desc"], opt, sz["tag"])))
                    continue
                tv = p["tvs"].get((e["name"], opt, sz["tag"]))
                if g is None or not g["ok"] or tv is None or not tv["ok"]:
                    continue
                qs.append(mkq(e, opt, sz, tv))
    return qs


def extra_checks(tier, repo, builddir):
    p = prepare()
    res = []
    # translation validation results: one evaluation per (entry, opt, size)
    total = 0
    for e in ENTRIES:
        for opt in e["opts"]:
            g = p["gens"].get((e["name"], opt))
            if g is None:
                continue
            if not g["ok"]:
                if e["expect_refused"]:
                    continue
                res.append({"query": "translate-%s-%s" % (e["name"], opt), "verdict": "INCONCLUSIVE", "kind": "encoding",
                            "reason": "NOT COVERED: " + g["reason"], "failed": [], "stats": {}})
                continue
            for sz in e["sizes"]:
                tv = p["tvs"].get((e["name"], opt, sz["tag"]))
                if tv is None:
                    continue
                if not tv["ok"]:
                    res.append({"query": "tv-%s-%s-%s" % (e["name"], opt, sz["tag"]), "verdict": "INCONCLUSIVE", "kind": "encoding",
                                "reason": "translation validation failed (encoder bug or harness bug): " + tv["reason"], "failed": [], "stats": {}})
                else:
                    total += tv["matched"]
    res.append({"query": "translation-validation", "verdict": "PASS", "nontrivial": False, "failed": [], "stats": {},
                "desc": "encoder E5 re-validated on this run: translated C vs gcc-compiled real C, bit-for-bit equal outputs on random inputs",
                "tv": {"%s-%s-%s" % k: {kk: vv for kk, vv in v.items() if kk != "ok"} for k, v in p["tvs"].items() if v["ok"]},
                "tv_total_cases": total,
                "translated": {"%s-%s" % k: {"functions": v["funcs"], "ir_instructions": v["ninstr"], "sites": v["nsites"], "const_address_accesses_not_logged": v["elided"]} for k, v in p["gens"].items() if v["ok"]},
                "not_covered": META["not_covered"], "prepare_wall_s": p["wall"]})
    # negative controls: the encoder must be able to see a leak
    ctl_q = []
    for e in ENTRIES:
        if not e["control"]:
            continue
        for opt in e["opts"]:
            for sz in e["sizes"]:
                tv = p["tvs"].get((e["name"], opt, sz["tag"]))
                if tv is not None and tv["ok"]:
                    ctl_q.append(mkq(e, opt, sz, tv))
    for q in ctl_q:
        q.witness = False
        q.native_ok = True
        r = run_query("C08", q)
        ok = r["verdict"] == "FAIL" and any("same " in f["description"] for f in r["failed"])
        rep = [f.get("replay", {}) for f in r.get("failed", [])]
        for x in rep:
            if x and x.get("path") and os.path.exists(x["path"]):
                os.remove(x["path"])   # encoder self-test, not a finding: leave no replay file behind
        res.append({"query": "control-" + q.name, "verdict": "PASS" if ok else "INCONCLUSIVE", "kind": "encoding", "nontrivial": ok,
                    "reason": "" if ok else "negative control NOT flagged (encoder/harness insensitive): verdict %s %s" % (r["verdict"], r.get("reason", "")),
                    "desc": "negative control (known non-constant-time code must yield a counterexample): " + q.desc,
                    "control_failed_assertions": [f["description"] for f in r["failed"]],
                    "control_native_replay": [x.get("reproduced") for x in rep if x],
                    "failed": [], "stats": r.get("stats", {}), "wall_s": r.get("wall_s")})
    return res


# ---- cross-included by the main session: the server's RSA key exchange must not reveal, through WHICH functions run,
# whether the PKCS#1 padding of the decrypted premaster was valid (Bleichenbacher): the random substitute is drawn and
# the master secret computed on both outcomes.  Decided by the C03 query server-do_rsa_decrypt (real do_rsa_decrypt over
# recording stubs of the policy, the DRBG and compute_master: one call of each whatever the secret validity bit).
_c08_queries_base = queries
def queries():
    qs = _c08_queries_base()
    try:
        import C03
        qs = qs + [q for q in C03._base_queries() if q.name in ("server-do_rsa_decrypt", "server-do_ecdh", "server-do_static_ecdh")]
    except Exception:
        pass
    try:
        # Lucky13 shape: the [min_len, max_len] range cbc_decrypt announces to br_hmac_outCT is a function of public values
        # only (C02 query family cbc-dec-*, recording stub at the br_hmac_outCT seam).  The IR-level cbc_decrypt_* queries
        # decide the same at 96/160-byte records only in the thorough tier (210 s; on seeded change C08g: no verdict in 900 s).
        import C02
        qs = qs + [q for q in C02.queries() if q.name.startswith("cbc-dec-") and q.tier == "quick"]
    except Exception:
        pass
    return qs
