"""C03, T0 part: functional claims about single native words of the handshake
programs (extracted by encoders/t0tool.py, E2).  Imported by checks/C03.py."""
import os, sys
from verif import Q

ROOT = os.path.dirname(os.path.dirname(os.path.abspath(__file__)))
sys.path.insert(0, os.path.join(ROOT, "encoders"))
import t0tool


def _inc(key):
    p = t0tool.load(key)
    return ["-I" + t0tool.gen_dir(p), "-I" + os.path.join(ROOT, "encoders")]


ASSUMPTIONS = [
 "T0 part: the native words are the bodies of the generated interpreter's `case` blocks extracted verbatim by encoders/t0tool.py (E2), whose extraction is re-validated against the real interpreter on every C05 run (e2-validation-hsc/-hss)",
 "memcmp native: operands are the context offsets used at its call sites (pad/pad+len, saved_finished/pad, session_id/pad); len concrete per query (1, 2, 12, 24, 32)",
 "compute-Finished-inner: PRF reached through br_ssl_engine_get_PRF and the transcript hash through br_multihash_out are recording stubs at the link seam",
]
MUTANTS = [
 "CAUGHT seeded/C03f-ssl-hs-server (copy-hash-CV tests the identifier range instead of br_multihash_getimpl: stale pad bytes become the CertificateVerify hash): t0-hash-CV-hss-id{2..6}",
 "CAUGHT seeded/C03-finished-xor-compare (memcmp native accumulates the XOR of all byte differences): t0-memcmp-hsc-* and t0-memcmp-hss-* with LEN >= 2 (9 of 11 queries; LEN=1 is exact under XOR)",
 "CAUGHT ssl_hs_client.c memcmp native compares len-1 bytes: all six t0-memcmp-hsc-*",
 "CAUGHT ssl_hs_server.c compute-Finished-inner labels swapped: t0-finished-hss",
 "CAUGHT ssl_hs_client.c compute-Finished-inner `version >= BR_TLS12` -> `>`: t0-finished-hsc",
]


def queries():
    qs = []
    for side, key in ((0, "hsc"), (1, "hss")):
        inc = _inc(key)
        for (pair, ln) in ((0, 12), (0, 2), (1, 12), (1, 24), (2, 32), (2, 1)):
            if pair == 1 and ln == 24 and side == 1:
                continue
            qs.append(Q("t0-memcmp-%s-P%d-L%d" % (key, pair, ln), "C03_t0_memcmp.c", units=[],
                        defs=["-DSIDE=%d" % side, "-DPAIR=%d" % pair, "-DLEN=%d" % ln] + inc, unwind=ln + 2, timeout=120,
                        desc="native `memcmp` of %s (Finished / saved_finished / session-id comparison): true exactly when all %d bytes are equal (region pair %d), all bytes symbolic" % (t0tool.PROGRAMS[key], ln, pair)))
        qs.append(Q("t0-finished-%s" % key, "C03_t0_finished.c", units=[], defs=["-DSIDE=%d" % side] + inc, unwind=66, timeout=120,
                    desc="native `compute-Finished-inner` of %s: PRF of the given id, master secret, label by direction, seed = transcript hash (TLS 1.2) or MD5||SHA-1 (TLS 1.0/1.1), 12 bytes into the pad; PRF and multihash are recording stubs" % t0tool.PROGRAMS[key]))
    for hid in (0, 2, 3, 4, 5, 6):
        qs.append(Q("t0-hash-CV-hss-id%d" % hid, "C03_t0_hashcv.c", units=[], defs=["-DSIDE=1", "-DT0N_NO_RUN=1", "-DID=%d" % hid] + _inc("hss"), unwind=210, timeout=200, backend="cadical",
                    desc="natives compute-hash-CV + copy-hash-CV of ssl_hs_server.c, hash identifier %d: CertificateVerify hash = transcript digest of the named function, refused when the engine does not implement it (every implemented-set, every stale pad content); br_multihash_out recording stub" % hid))
    return qs
