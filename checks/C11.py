from verif import Q

META = {
 "level_text": "Bounded symbolic model checking (CBMC) of the real ECDSA encoding/gate code. Partial: (1) br_ecdsa_asn1_to_raw / br_ecdsa_raw_to_asn1 for EVERY input of every length 0..24 bytes (quick: 0..17) against a reference reader/DER encoder written from X.690 and the documented leniency, plus the round trip; (2) br_ecdsa_i15/i31_vrfy_raw with the EC implementation replaced by a contract stub: every gate (curve supported, even length, qlen, r<n, 0<s<n) with the real P-256/P-384/P-521 orders decided before any curve operation, and the whole function (result == gates && muladd flag && X mod n == r; muladd called once with the right arguments) with all real big-integer code over toy 2/3/4-byte prime orders; bits2int against RFC 6979's bit-level definition for order sizes 13..33, 256, 384, 521 bits; (3) length/format gates of ec_prime_i15, ec_p256_m15, ec_c25519_m15 and the dispatch of ec_all_m15; (4) br_ec_keygen (key = first masked candidate in [1,n-1] for the real orders) and br_ec_compute_pub plumbing. Group-law correctness, RFC 6979 values and cross-implementation agreement are outside.",
 "level_note": "Trusted: CBMC 6.11 front end and bit-precise semantics, loop models of memcpy/memset. Public sizes (input length, signature length, hash length, curve) are concrete per query and enumerated; contents and in-band lengths are symbolic. Stubs are at BearSSL's own seams (br_ec_impl function pointers, br_prng_class vtable, link-time symbols br_secp256r1 / br_iNN_modpow / br_i15_montymul / br_ccopy / br_ec_*_m15). Value semantics of the raw format: halves longer than the order with leading zero bytes are accepted by design (vrfy_asn1 relies on shorter-than-order halves), so 'over-long' is only rejected in the sense value >= n.",
 "technique": "bounded symbolic model checking (CBMC/SAT) of real C units vs references written from X.690 / FIPS 186-4 / RFC 6979; contract stubs at vtable and link seams",
 "assumptions": [
  "br_ec_impl = contract stub in the vrfy/keygen/compute_pub harnesses: muladd returns an arbitrary 0/1 flag and arbitrary point bytes (no assumption that a zero multiplier is reported as an error: the real implementations do not report it), order() returns the real curve constants, mulgen returns an arbitrary length",
  "vrfy_raw whole-function queries: br_secp256r1 bound at the link seam to a toy curve definition with prime order 0xF13D / 0xD35A7F / 0xC90FDACB (top bit set, as for every supported curve: X < 2n); all src/int code real",
  "vrfy_raw real-order gate queries: br_i15_modpow / br_i31_modpow bound to a probe (asserts every gate passed, ends the path); nothing after the inversion is claimed there",
  "pk->curve in [0,32) in the vrfy_raw curve-gate query (the shift supported_curves >> curve is undefined outside; keygen/compute_pub check the range themselves)",
  "PRNG = stub br_prng_class handing out symbolic bytes; executions of br_ec_keygen needing more than KITER (2 or 3) candidates are cut",
  "ec_prime_i15 length gate: br_i15_montymul / br_i15_modpow = probes; format gate: cheap stand-ins (xor with a symbolic salt), scalars of 0 bytes",
  "ec_p256_m15 length gate: br_ccopy = probe; ec_all_m15: the three target implementations are recording stubs",
  "input lengths, signature/hash lengths and curve ids are concrete per query and enumerated by the driver",
 ],
 "outside_claim": [
  "group-law / scalar-multiplication correctness of every EC implementation, on-curve check, agreement with an independent implementation (symbolic 256-bit field multiplication is out of reach)",
  "documented muladd contract 'a zero multiplier is reported as an error' (needs the field arithmetic; natively observed NOT to hold: muladd(x=0) returns 1)",
  "RFC 6979 deterministic nonces, signing, ECDH",
  "vrfy_raw arithmetic after the gates with the real 256/384/521-bit orders (only toy orders); scalars handed to muladd only for i15 with a 1-byte order (i31: no verdict in 900 s on three SAT back ends)",
  "br_ecdsa_iNN_vrfy_asn1 wrapper (buffer sizing around asn1_to_raw for inputs up to 144 bytes)",
  "asn1_to_raw / raw_to_asn1 inputs longer than 24 bytes (except the single 130-byte header case), i.e. the 0x81 long-form output of raw_to_asn1 and the 125-byte integer limit",
  "first-byte / coordinate-range gate of ec_p256_m15 (all field arithmetic static, no seam); for ec_prime_i15 the format gate is decided on point_decode itself (three curves) and on api_mul for P-256 with a 0-byte scalar only - api_muladd and longer scalars are not run to the end (724k symex steps for the shortest case)",
  "unsupported curve id passed directly to br_ec_impl methods (documented precondition 'curve MUST be supported'; id_to_curve indexes out of bounds otherwise) - the callers' gates are covered instead",
  "m31/m62/m64/i31 EC implementations, ec_all_m31, ec_default",
 ],
 "mutants_tried": [
  "CAUGHT ecdsa_atr.c: 'slen != sig_len - off' -> '>' (trailing bytes accepted): atr-L10/L12 'anything that is not SEQUENCE{..} is rejected'",
  "CAUGHT ecdsa_atr.c: leading zeros of s not fully stripped (slen > 1): atr-L09 length/halves, rtt-L04 round trip",
  "CAUGHT ecdsa_rta.c: long-form length used from 0x10 (non-minimal DER length): rta-L12 (round trip alone passes: asn1_to_raw is lenient by design)",
  "CAUGHT ecdsa_rta.c: sign octet test '*x >= 0x80' -> '> 0x80': rta-L06",
  "EQUIVALENT ecdsa_i15_vrfy_raw.c: result of decode_mod(s) ignored - decode_mod stores 0 when s >= n and the s == 0 test then rejects; all queries pass, correctly",
  "CAUGHT ecdsa_i15_vrfy_raw.c: result of decode_mod(r) ignored (r >= n accepted): vrfy-i15-p256-gates-SL64 and vrfy-i15-toy2-SL4-HL2",
  "CAUGHT ecdsa_i15_vrfy_raw.c: 's == 0' test removed: vrfy-i15-p256-gates-SL64, vrfy-i15-toy2-SL4-HL2",
  "CAUGHT ecdsa_i15_vrfy_raw.c: odd-length test removed: vrfy-i15-p256-gates-SL63",
  "CAUGHT ecdsa_i31_vrfy_raw.c: qlen test removed: vrfy-i31-p256-gates-SL64-qlen+1",
  "EQUIVALENT ecdsa_i31_vrfy_raw.c: 'res &= ~br_i31_sub(t1, r, 1)' -> plain subtraction (the following iszero(t1) already implies equality)",
  "CAUGHT ecdsa_i31_vrfy_raw.c: final 'res &= br_i31_iszero(t1)' removed: vrfy-i31-toy2-SL4-HL2",
  "CAUGHT ecdsa_i31_vrfy_raw.c: reduction of X modulo n removed: vrfy-i31-toy2-SL4-HL2, vrfy-i31-toy3-SL6-HL3",
  "CAUGHT ecdsa_i15_bits.c: shift '& 7' -> '& 3': bits2int-i15-q521-h65-67 (not by q13: shift there is 3)",
  "CAUGHT ecdsa_i31_bits.c: 'ebitlen >> 5' -> '>> 4': bits2int-i31-q256-h31-33, bits2int-i31-q33-h0-7",
  "CAUGHT ec_keygen.c: zero key accepted ('&& zz != 0' removed): keygen-c23-k2, keygen-c1-k2",
  "CAUGHT ec_keygen.c: 'mask |= mask >> 4' removed: keygen-c1-k2 only (toy order 00 41 13 37; invisible with the real orders whose top bytes are FF/01/7F - reason the toy order was added)",
  "CAUGHT ec_keygen.c: borrow chain broken (x == n accepted): keygen-c29-k2",
  "CAUGHT ec_pubkey.c: pk->qlen = len - 1: compute_pub",
  "CAUGHT ec_prime_i15.c: api_mul length test removed: ecgate-prime_i15-c23-mul-len",
  "CAUGHT ec_prime_i15.c: point_decode accepts first byte 04..07: ecgate-prime_i15-c23-point_decode",
  "CAUGHT ec_prime_i15.c: point_decode ignores Y >= p: ecgate-prime_i15-c24-point_decode",
  "CAUGHT ec_all_m15.c: mulgen of Curve25519 sent to prime_i15: ecgate-all_m15-dispatch",
  "DETECTED (non-PASS, no clean violation) ec_c25519_m15.c: 'Glen != 32' -> 'Glen > 32': ecgate-c25519_m15-len fails its unwinding assertions (whole ladder gets explored), reported INCONCLUSIVE",
  "DETECTED (non-PASS, timeout) ec_p256_m15.c: api_mul 'Glen != 65' -> 'Glen < 65': ecgate-p256_m15-len times out instead of passing in 4 s",
 ],
}


def int_units(impl):
    return ["src/int/i%d_%s.c" % (impl, x) for x in
            ("decode", "decmod", "ninv%d" % impl, "iszero", "fmont", "montmul", "sub", "add", "encode",
             "bitlen", "rshift", "tmont", "muladd")] + ["src/int/i32_div32.c", "src/codec/ccopy.c"]


CURVE_UNITS = ["src/ec/ec_secp256r1.c", "src/ec/ec_secp384r1.c", "src/ec/ec_secp521r1.c"]


def queries():
    qs = []

    # ---- 1a. asn1_to_raw: every input of every length 0..24 ----
    for L in range(0, 25):
        qs.append(Q("atr-L%02d" % L, "C11_atr.c", units=["src/ec/ecdsa_atr.c"],
                    defs=["-DL=%d" % L], unwind=2 * L + 3,
                    unwindset=["br_ecdsa_asn1_to_raw.0:%d" % max(L - 4, 2), "br_ecdsa_asn1_to_raw.1:%d" % max(L - 4, 2),
                               "memset.0:%d" % max(2 * L - 10, 2), "memcpy.0:%d" % max(2 * L - 10, 2)],
                    tier="quick" if L <= 17 else "thorough", timeout=240 if L <= 17 else 900,
                    desc="br_ecdsa_asn1_to_raw == reference reader (documented leniency) for every %d-byte input; output halves; buffer contract < 2L" % L))
    # 1a'. read safety on an exact-size object (seeded change C05g: the second INTEGER header is read without a bounds test)
    for L in (1, 2, 3, 5, 6, 7, 8, 9, 10, 12, 16):
        qs.append(Q("atr-exact-L%02d" % L, "C11_atr_exact.c", units=["src/ec/ecdsa_atr.c"], defs=["-DL=%d" % L], unwind=2 * L + 70,
                    tier="quick" if L <= 10 else "thorough", timeout=240,
                    desc="br_ecdsa_asn1_to_raw on an object of exactly %d bytes: no access beyond sig_len for every rejected input and every accepted input whose raw form fits" % L))
    # deviations outside the documented leniency (negative / empty INTEGER)
    qs.append(Q("atr-strict-indef-L130", "C11_atr.c", units=["src/ec/ecdsa_atr.c"],
                defs=["-DL=130", "-DFIXFROM=2"], unwind=263, tier="thorough", timeout=900,
                desc="br_ecdsa_asn1_to_raw, 130-byte input with symbolic 2-byte header over a fixed well-formed 128-byte body: length byte 0x80 (BER indefinite form) must not be read as the length 128"))
    for L in (9,):
        qs.append(Q("atr-strict-L%02d" % L, "C11_atr.c", units=["src/ec/ecdsa_atr.c"],
                    defs=["-DL=%d" % L, "-DSTRICT=1"], unwind=2 * L + 3,
                    desc="br_ecdsa_asn1_to_raw rejects negative and empty INTEGERs (X.690; not in the documented leniency), every %d-byte input" % L))

    # ---- 1b. raw_to_asn1: every raw signature of every length 0..24 ----
    for L in range(0, 25):
        qs.append(Q("rta-L%02d" % L, "C11_rta.c", units=["src/ec/ecdsa_rta.c"],
                    defs=["-DL=%d" % L, "-DMODE=0"], unwind=L + 12,
                    desc="br_ecdsa_raw_to_asn1 output == DER encoding of SEQUENCE{INTEGER r, INTEGER s} for every %d-byte raw signature (odd: rejected); grows by <= 9" % L))
    for L in range(0, 25, 2):
        H = L // 2
        qs.append(Q("rtt-L%02d" % L, "C11_rta.c", units=["src/ec/ecdsa_rta.c", "src/ec/ecdsa_atr.c"],
                    defs=["-DL=%d" % L, "-DMODE=1"], unwind=2 * L + 20,
                    unwindset=["br_ecdsa_asn1_to_raw.0:%d" % (H + 3), "br_ecdsa_asn1_to_raw.1:%d" % (H + 3),
                               "asn1_int_length.0:%d" % (H + 2), "memset.0:%d" % (L + 3), "memcpy.0:%d" % (L + 11)],
                    tier="quick" if L <= 12 else "thorough", timeout=240 if L <= 12 else 900,
                    desc="asn1_to_raw(raw_to_asn1(x)) == x with common leading zero bytes removed, every %d-byte raw signature" % L))

    # ---- 2. vrfy_raw gates and plumbing, EC implementation = contract stub ----
    for impl in (15, 31):
        base = ["src/ec/ecdsa_i%d_vrfy_raw.c" % impl, "src/ec/ecdsa_i%d_bits.c" % impl] + int_units(impl)
        # (a) real orders, gates only (modpow = probe at the link seam)
        real = [(23, 64, 0, 0), (23, 62, 0, 0), (23, 66, 0, 0), (23, 63, 0, 0), (23, 65, 0, 0), (23, 0, 0, 0),
                (23, 64, 1, 0), (23, 64, -1, 0), (23, 64, 0, 1),
                (24, 96, 0, 0), (24, 95, 0, 0), (24, 96, -32, 0), (25, 132, 0, 0), (25, 134, 0, 0), (25, 132, -68, 0)]
        quick_real = {(23, 64, 0, 0), (23, 62, 0, 0), (23, 66, 0, 0), (23, 63, 0, 0), (23, 0, 0, 0), (23, 64, 1, 0), (23, 64, 0, 1),
                      (24, 96, 0, 0), (24, 96, -32, 0), (25, 132, 0, 0), (25, 134, 0, 0)}
        for (cv, sl, qld, cs) in real:
            cname = {23: "p256", 24: "p384", 25: "p521"}[cv]
            nm = "vrfy-i%d-%s-gates-SL%d%s%s" % (impl, cname, sl, ("-qlen%+d" % qld) if qld else "", "-curve" if cs else "")
            qs.append(Q(nm, "C11_vrfy.c", units=base + CURVE_UNITS,
                        defs=["-DIMPL=%d" % impl, "-DTOY_NL=0", "-DCURVE=%d" % cv, "-DSL=%d" % sl, "-DHL=32", "-DQLD=(%d)" % qld, "-DCURVESYM=%d" % cs],
                        unwind=150 if cv == 25 else (110 if cv == 24 else (80 if cs else 72)),
                        tier="quick" if (cv, sl, qld, cs) in quick_real else "thorough",
                        desc="br_ecdsa_i%d_vrfy_raw, real %s order, %d-byte signature%s: returns 0 without any curve operation unless curve supported, length even, qlen right, r<n, 0<s<n; inputs passing the gates go on to the arithmetic" % (impl, cname, sl, ", every curve id in [0,32) not supported" if cs else "")))
        # (b) toy order, whole function with real big-integer code
        for nl in (2, 3, 4):
            for sl in (2 * nl, 2 * nl - 2, 2 * nl + 2):
                for hl in ((0, nl, nl + 2) if sl == 2 * nl else (nl,)):
                    qs.append(Q("vrfy-i%d-toy%d-SL%d-HL%d" % (impl, nl, sl, hl), "C11_vrfy.c", units=base + ["src/int/i%d_modpow.c" % impl],
                                defs=["-DIMPL=%d" % impl, "-DTOY_NL=%d" % nl, "-DSL=%d" % sl, "-DHL=%d" % hl],
                                unwind=40, tier="quick" if (nl == 2 or (sl == 2 * nl and hl == nl)) else "thorough",
                                desc="br_ecdsa_i%d_vrfy_raw, toy %d-byte prime order bound at br_secp256r1, %d-byte signature, %d-byte hash: result == gates && muladd flag && (X mod n == r); muladd called once with (Q, NULL, nlen, nlen, curve)" % (impl, nl, sl, hl)))
        # (c) r == 0 must be rejected (FIPS 186-4 6.4.2 step 1 / property text)
        qs.append(Q("vrfy-i%d-toy2-rzero" % impl, "C11_vrfy.c", units=base + ["src/int/i%d_modpow.c" % impl],
                    defs=["-DIMPL=%d" % impl, "-DTOY_NL=2", "-DSL=4", "-DHL=2", "-DRZERO=1"], unwind=40,
                    desc="br_ecdsa_i%d_vrfy_raw rejects r == 0 whatever muladd returns (toy 2-byte order)" % impl))
        # (d) scalars handed to muladd (i31: no verdict in 900 s on minisat/cadical/kissat -> dropped)
        if impl == 15:
            qs.append(Q("vrfy-i15-toy1-scalars", "C11_vrfy.c", units=base + ["src/int/i15_modpow.c"],
                        defs=["-DIMPL=15", "-DTOY_NL=1", "-DSL=2", "-DHL=2", "-DARITH=1"], unwind=40, timeout=900, tier="thorough",
                        desc="br_ecdsa_i15_vrfy_raw hands muladd x = r/s mod n and y = bits2int(hash)/s mod n (toy 1-byte prime order 251, 2-byte hash; real modpow/montymul/to-from Montgomery)"))
    # ---- 2e. bits2int vs RFC 6979 bit-level statement ----
    for impl in (15, 31):
        bu = ["src/ec/ecdsa_i%d_bits.c" % impl] + ["src/int/i%d_%s.c" % (impl, x) for x in ("decode", "rshift", "bitlen")]
        for (bl, h0, h1) in ((13, 0, 4), (15, 0, 4), (16, 0, 4), (17, 0, 5), (31, 0, 6), (32, 0, 6), (33, 0, 7),
                             (256, 0, 1), (256, 20, 20), (256, 31, 33), (256, 48, 48), (256, 64, 64),
                             (384, 0, 0), (384, 32, 32), (384, 48, 48), (384, 47, 49), (384, 64, 64),
                             (521, 0, 0), (521, 32, 32), (521, 64, 64), (521, 66, 66), (521, 65, 67)):
            qs.append(Q("bits2int-i%d-q%d-h%d-%d" % (impl, bl, h0, h1), "C11_bits.c", units=bu,
                        defs=["-DIMPL=%d" % impl, "-DBITLEN=%d" % bl, "-DHLMIN=%d" % h0, "-DHLMAX=%d" % h1],
                        unwind=max(bl + 40, 80), tier="thorough" if h1 - h0 >= 2 and bl >= 384 else "quick", timeout=900 if h1 - h0 >= 2 and bl >= 384 else 240,
                        desc="br_ecdsa_i%d_bits2int == leftmost min(8*hlen, %d) bits of the hash, every hash of every length %d..%d; stays inside the callers' array size" % (impl, bl, h0, h1)))
    # ---- 3. argument gates of the EC implementations ----
    pu = ["src/ec/ec_prime_i15.c"] + CURVE_UNITS + ["src/int/i15_%s.c" % x for x in ("decmod", "add", "sub", "encode", "iszero")] + ["src/codec/ccopy.c"]
    fnn = {0: "mul", 1: "muladd", 2: "muladd-gen"}
    for cv in (23, 24, 25):
        for fn in (0, 1, 2):
            qs.append(Q("ecgate-prime_i15-c%d-%s-len" % (cv, fnn[fn]), "C11_ecgate.c", units=pu,
                        defs=["-DTARGET=1", "-DMODE=0", "-DCURVE=%d" % cv, "-DFN=%d" % fn], unwind=240,
                        desc="br_ec_prime_i15.%s, curve %d: every point length 0..140 other than the curve's => 0 before any field multiplication (montymul/modpow = probes)" % (fnn[fn], cv)))
            if cv == 23 and fn == 0:   # muladd variant: 1049 s under load, too close to the cap -> dropped
                qs.append(Q("ecgate-prime_i15-c%d-%s-fmt-xl0" % (cv, fnn[fn]), "C11_ecgate.c", units=pu,
                            defs=["-DTARGET=1", "-DMODE=1", "-DCURVE=%d" % cv, "-DFN=%d" % fn, "-DXL=0"], unwind=240,
                            tier="thorough", timeout=900,
                            desc="br_ec_prime_i15.%s, curve %d, right length: first byte != 0x04 or a coordinate >= p => 0 (0-byte scalars; montymul/modpow = cheap stand-ins)" % (fnn[fn], cv)))
        qs.append(Q("ecgate-prime_i15-c%d-point_decode" % cv, "C11_ecgate.c", units=[u for u in pu if u != "src/ec/ec_prime_i15.c"],
                    defs=["-DTARGET=1", "-DMODE=2", "-DCURVE=%d" % cv], unwind=240,
                    tier="quick" if cv == 23 else "thorough", timeout=240 if cv == 23 else 900,
                    desc="ec_prime_i15.c point_decode, curve %d: every byte string of 0..140 bytes with wrong length, first byte != 0x04 or a coordinate >= p => 0 (montymul/modpow = cheap stand-ins)" % cv))
    qs.append(Q("ecgate-p256_m15-len", "C11_ecgate.c", units=["src/ec/ec_p256_m15.c", "src/ec/ec_secp256r1.c"],
                defs=["-DTARGET=2"], unwind=142,
                desc="br_ec_p256_m15 mul/muladd: every length 0..140 except 65 => 0 (curve id ignored)"))
    qs.append(Q("ecgate-c25519_m15-len", "C11_ecgate.c", units=["src/ec/ec_c25519_m15.c", "src/ec/ec_curve25519.c"],
                defs=["-DTARGET=3"], unwind=42,
                desc="br_ec_c25519_m15 mul: point length != 32 or scalar length > 32 => 0; muladd => 0"))
    qs.append(Q("ecgate-all_m15-dispatch", "C11_alldisp.c", units=["src/ec/ec_all_m15.c"], unwind=8,
                desc="br_ec_all_m15: every method forwards unchanged to p256_m15 (id 23) / c25519_m15 (id 29) / prime_i15 (any other int id) and returns its result"))

    qs.append(Q("p256_m15-reduce_final", "C11_f256final.c", units=["src/ec/ec_secp256r1.c", "src/codec/ccopy.c"], unwind=82, timeout=240,
                desc="ec_p256_m15.c reduce_final_f256, every 20x13-bit input below 2p: returns (d >= p), result == d - ret*p, canonical, all limbs zero iff d == 0 mod p (the zero test of api_muladd relies on it)"))

    # ---- 4. keygen / compute_pub ----
    ku = ["src/ec/ec_keygen.c", "src/ec/ec_pubkey.c", "src/ec/ec_curve25519.c"] + CURVE_UNITS
    for (cv, kiter, kn, sn, tier) in ((1, 2, 0, 0, "quick"), (23, 2, 0, 0, "quick"), (24, 2, 0, 0, "quick"), (25, 2, 0, 0, "quick"), (29, 2, 0, 0, "quick"),
                                      (23, 1, 1, 0, "quick"), (25, 2, 0, 1, "quick"), (23, 3, 0, 0, "quick"), (25, 3, 0, 0, "quick")):
        qs.append(Q("keygen-c%d-k%d%s%s" % (cv, kiter, "-nokbuf" if kn else "", "-nosk" if sn else ""), "C11_keygen.c", units=ku,
                    defs=["-DMODE=0", "-DCURVE=%d" % cv, "-DKITER=%d" % kiter, "-DKBUFNULL=%d" % kn, "-DSKNULL=%d" % sn],
                    unwind=76, tier=tier, timeout=240 if tier == "quick" else 900,
                    desc="br_ec_keygen, real order of curve %d, stub PRNG (symbolic bytes), up to %d candidates: key = first masked candidate in [1,n-1], length = order length, sk filled" % (cv, kiter)))
    qs.append(Q("keygen-gate", "C11_keygen.c", units=ku, defs=["-DMODE=1"], unwind=76,
                desc="br_ec_keygen: every int curve id that is negative, >= 32 or unsupported => 0, no PRNG/implementation call"))
    qs.append(Q("compute_pub", "C11_keygen.c", units=ku, defs=["-DMODE=2"], unwind=76,
                desc="br_ec_compute_pub: every int curve id; unsupported => 0; kbuf NULL => table length; else mulgen(kbuf, x, xlen, curve) once, its length returned, pk filled"))
    return qs
