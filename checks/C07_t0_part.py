"""C07, T0 part: chunking / resume lemmas for the input-consuming native words (E2 extraction)."""
import os, sys
from verif import Q

ROOT = os.path.dirname(os.path.dirname(os.path.abspath(__file__)))
sys.path.insert(0, os.path.join(ROOT, "encoders"))
import t0tool

ASSUMPTIONS = [
 "T0 part: native words extracted verbatim by encoders/t0tool.py (E2; re-validated against the real interpreter by C05 e2-validation-*)",
 "the T0 programs read their input only through read8-native (pem), read8-low and read-blob-inner (decoders): checked on the bytecode by C05's layer 2 (no other native touches hbuf/hlen); the lemmas are per word, the T0-level loops around them (read8-nc, read-blob: `co` while no data) are not executed",
 "chunk length N concrete per query (4..6), content, split point, element length and callback switches symbolic; destination of read-blob-inner = pad+1",
 "x509_minimal: br_multihash_update (link seam) and dn_hash_impl->update are recording stubs; x509_decoder: append_dn/append_in recording stubs",
]
MUTANTS = [
 "CAUGHT seeded/C07-pemdec-cr-at-chunk-end (read8-native delivers a CR that ends a chunk): t0-pem-read8-split-N4, t0-pem-read8-split-N6 (CR never delivered / same values in both schedules)",
 "CAUGHT pkey_decoder.c read-blob-inner pushes len instead of len - clen: t0-pkey-read-blob-split",
 "CAUGHT skey_decoder.c read8-low does not decrement hlen: t0-skey-read8-low",
 "CAUGHT x509_decoder.c read8-low gates append_in on copy_dn: t0-x509dec-read8-low",
 "CAUGHT x509_minimal.c read-blob-inner hashes len instead of clen bytes: t0-x509min-read-blob-split",
]


def queries():
    qs = []
    p = t0tool.load("pem")
    inc = ["-I" + t0tool.gen_dir(p), "-I" + os.path.join(ROOT, "encoders")]
    for n in (4, 6):
        qs.append(Q("t0-pem-read8-split-N%d" % n, "C07_t0_resume.c", units=[], defs=["-DC07_KEY_pem=1", "-DMODE=0", "-DN=%d" % n] + inc,
                    unwind=n + 3, timeout=120,
                    desc="pemdec read8-native: for every %d-byte chunk and every split point the values handed to the T0 code are the non-CR bytes in order; CR never delivered; -1 exactly when no non-CR byte remains" % n))
    for key in ("pkey", "skey", "x509dec", "x509min"):
        p = t0tool.load(key)
        inc = ["-I" + t0tool.gen_dir(p), "-I" + os.path.join(ROOT, "encoders")]
        qs.append(Q("t0-%s-read8-low" % key, "C07_t0_resume.c", units=[], defs=["-DC07_KEY_%s=1" % key, "-DMODE=1", "-DN=4"] + inc,
                    unwind=8, timeout=120,
                    desc="%s read8-low: empty chunk = -1 and nothing changes; else next byte, cursor + 1, enabled hash/append callbacks see exactly that byte" % t0tool.PROGRAMS[key]))
        qs.append(Q("t0-%s-read-blob-split" % key, "C07_t0_resume.c", units=[], defs=["-DC07_KEY_%s=1" % key, "-DMODE=2", "-DN=5"] + inc,
                    unwind=9, timeout=120,
                    desc="%s read-blob-inner: chunk (b,5) vs (b,k)+(b+k,5-k) for every k, element length 0..7: same final operands, destination bytes, cursor and callback byte stream" % t0tool.PROGRAMS[key]))
    return qs
