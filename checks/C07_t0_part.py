"""C07, T0 part: chunking / resume lemmas for the input-consuming native words (E2 extraction)."""
import os, sys
from verif import Q

ROOT = os.path.dirname(os.path.dirname(os.path.abspath(__file__)))
sys.path.insert(0, os.path.join(ROOT, "encoders"))
import t0tool

ASSUMPTIONS = [
 "T0 part: native words extracted verbatim by encoders/t0tool.py (E2; re-validated against the real interpreter by C05 e2-validation-*)",
 "the T0 programs read their input only through read8-native (pem), read8-low and read-blob-inner (decoders): checked on the bytecode by C05's layer 2 (no other native touches hbuf/hlen); the lemmas are per word, the T0-level loops around them (read8-nc, read-blob: `co` while no data) are not executed",
 "chunk length N concrete per query (4..6), content, split point, element length and callback switches symbolic; destination of read-blob-inner = pad+1",
 "hsio queries: br_multihash_update is a recording stub at the link seam; room/data and requested length concrete per query (0, 3, 5, 8 / 5), bytes and record types symbolic",
 "x509_minimal: br_multihash_update (link seam) and dn_hash_impl->update are recording stubs; x509_decoder: append_dn/append_in recording stubs",
]
MUTANTS = [
 "CAUGHT seeded/C01d-ssl-hs-server (write8-native hashes the byte even when the output buffer is full, so it is hashed again on the retry): t0-hsio-hss-write8-H0",
 "CAUGHT seeded/C07d-ssl-hs-server (read-chunk-native hashes `len` bytes from the destination instead of `clen` bytes of input): t0-hsio-hss-readchunk-H3-L5",
 "CAUGHT seeded/C07-pemdec-cr-at-chunk-end (read8-native delivers a CR that ends a chunk): t0-pem-read8-split-N4, t0-pem-read8-split-N6 (CR never delivered / same values in both schedules)",
 "CAUGHT pkey_decoder.c read-blob-inner pushes len instead of len - clen: t0-pkey-read-blob-split",
 "CAUGHT skey_decoder.c read8-low does not decrement hlen: t0-skey-read8-low",
 "CAUGHT x509_decoder.c read8-low gates append_in on copy_dn: t0-x509dec-read8-low",
 "CAUGHT x509_minimal.c read-blob-inner hashes len instead of clen bytes: t0-x509min-read-blob-split",
]


def queries():
    qs = []
    p = t0tool.load("pem")
    inc = ["-I" + t0tool.gen_dir(p), "-I" + os.path.join(ROOT, "encoders")]
    for n in (4, 6):
        qs.append(Q("t0-pem-read8-split-N%d" % n, "C07_t0_resume.c", units=[], defs=["-DC07_KEY_pem=1", "-DMODE=0", "-DN=%d" % n] + inc,
                    unwind=n + 3, timeout=120,
                    desc="pemdec read8-native: for every %d-byte chunk and every split point the values handed to the T0 code are the non-CR bytes in order; CR never delivered; -1 exactly when no non-CR byte remains" % n))
    for key in ("pkey", "skey", "x509dec", "x509min"):
        p = t0tool.load(key)
        inc = ["-I" + t0tool.gen_dir(p), "-I" + os.path.join(ROOT, "encoders")]
        qs.append(Q("t0-%s-read8-low" % key, "C07_t0_resume.c", units=[], defs=["-DC07_KEY_%s=1" % key, "-DMODE=1", "-DN=4"] + inc,
                    unwind=8, timeout=120,
                    desc="%s read8-low: empty chunk = -1 and nothing changes; else next byte, cursor + 1, enabled hash/append callbacks see exactly that byte" % t0tool.PROGRAMS[key]))
        qs.append(Q("t0-%s-read-blob-split" % key, "C07_t0_resume.c", units=[], defs=["-DC07_KEY_%s=1" % key, "-DMODE=2", "-DN=5"] + inc,
                    unwind=9, timeout=120,
                    desc="%s read-blob-inner: chunk (b,5) vs (b,k)+(b+k,5-k) for every k, element length 0..7: same final operands, destination bytes, cursor and callback byte stream" % t0tool.PROGRAMS[key]))
    qs += hsio_queries()
    return qs


def hsio_queries():
    """handshake byte I/O natives of the TLS client / server programs (main session)"""
    qs = []
    for side, key in ((0, "hsc"), (1, "hss")):
        p = t0tool.load(key)
        inc = ["-I" + t0tool.gen_dir(p), "-I" + os.path.join(ROOT, "encoders")]
        for (w, nm, hl, ln) in ((1, "write8", 3, 0), (1, "write8", 0, 0), (2, "read8", 3, 0), (2, "read8", 0, 0),
                                (3, "readchunk", 3, 5), (3, "readchunk", 8, 5), (3, "readchunk", 0, 5), (3, "readchunk", 5, 5)):
            qs.append(Q("t0-hsio-%s-%s-H%d%s" % (key, nm, hl, ("-L%d" % ln) if ln else ""), "C07_t0_hsio.c", units=[],
                        defs=["-DSIDE=%d" % side, "-DWHICH=%d" % w, "-DHL=%d" % hl, "-DLEN=%d" % (ln or 5), "-DT0N_NO_RUN=1"] + inc, unwind=12, timeout=120,
                        desc="%s %s-native with %d byte(s) of room/data%s: no progress => no side effect and nothing hashed; progress => exactly the bytes that crossed are copied, consumed and (handshake records only) hashed once, in order" % (t0tool.PROGRAMS[key], nm, hl, (", %d requested" % ln) if ln else "")))
    return qs
