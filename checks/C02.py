from verif import Q

META = {
 "level_text": "Bounded symbolic model checking (CBMC) of the real record-decryption functions with every byte of the record body symbolic: acceptance is equivalent to an RFC reference (CBC) / to an RFC 5288 / 6655+3610 / 7905 reference, i.e. full-tag (16 bytes, 8 for CCM_8) equality with the stub authenticator over the specified AAD and nonce (AEAD), same plaintext region and bytes on accept, seq advanced by one either way, check_length equal to the closed-form interval for all rlen. Partial: the structural half of the property; unforgeability of the real MACs is assumed (idealised stub primitives), sessions/45 suites/drop-dup-reorder are outside.",
 "level_note": "Trusted: CBMC; toy cipher and toy MAC stand-ins bound at BearSSL's own vtable/link seams (listed in assumptions); record lengths concrete per query.",
 "technique": "bounded symbolic model checking (CBMC/SAT): differential equivalence of real decrypt functions vs RFC reference, all record bytes symbolic",
 "assumptions": [
  "block cipher = toy CBC class (x -> x^K with real CBC chaining) behind br_block_cbcdec_class",
  "HMAC = toy MAC (16 one-byte lanes, 8-bit add / rotate-by-one-xor; the key, every input byte, its position and the total length influence the output; br_hmac_out(update(d)) == br_hmac_outCT(d)) bound at the link-time seam br_hmac_{key_init,init,update,out,outCT}; the toy outCT asserts its min<=len<=max precondition",
  "record body length, MAC length, block size and explicit/implicit IV are concrete per query and enumerated by the driver",
  "AEAD (C02.b): block cipher behind br_block_ctr_class / br_block_ctrcbc_class = toy 16-byte block function (byte sum + neighbour byte + key) with the documented CTR / CTR+CBC-MAC semantics; br_ghash = toy accumulator honouring the 16-byte-block zero-padding contract; br_chacha20_run / br_poly1305_run = toy keystream and a toy 16-byte authenticator over (MAC key from block 0, aad_len, aad, len, ciphertext) (harness/C02_aead_stubs.h); src/aead/ccm.c is the real file",
  "AEAD (C02.b): the reference is written in the harness from RFC 5288 + SP 800-38D (GCM), RFC 6655 + RFC 3610 (CCM/CCM_8), RFC 7905 (ChaCha20+Poly1305) with AAD = seq||type||version||plaintext length of RFC 5246 6.2.3.3; plaintext length and key length are concrete per query, check_length is compared for all size_t rlen",
 ],
 "outside_claim": ["unforgeability of HMAC/GHASH/Poly1305", "whole sessions, drop/dup/reorder across records (reduced to seq in MAC input, C20)", "all 45 suites with real ciphers", "record bodies longer than the listed lengths"],
 "mutants_tried": [
  "C02.a caught: MAC compare loop of cbc_decrypt starts at byte 1 -> all cbc-dec-* 'cbc_decrypt accepts iff the RFC reference accepts'",
  "C02.a caught: LT(u, len) -> LE(u, len) in the padding check loop (first padding byte unchecked) -> all cbc-dec-*",
  "C02.a caught: MAC input header shortened to 11 bytes (length field dropped) -> all cbc-dec-*",
  "C02.a caught: MAC input header without seq (tmp2+8, 5 bytes) -> all cbc-dec-*",
  "C02.a caught: br_hmac_outCT called with len_nomac+1 -> all cbc-dec-*",
  "C02.a caught: br_hmac_outCT called with max_len-1 -> all cbc-dec-* (stub precondition assertion and acceptance mismatch)",
  "C02.a caught: LE(pad_len, max_len - min_len) -> LT (empty-plaintext records refused) -> all cbc-dec-*",
  "C02.a NOT caught (expected): 'good &= LE(len_nomac, 16384)' removed - no record length within the bounds of the queries can carry more than 16384 plaintext bytes, so the test is dead code at these sizes",
  "C02.b caught: gcm_decrypt compares 15 tag bytes -> aead-gcm-* 'accepts iff the RFC 5288 reference accepts'",
  "C02.b caught: GCM AAD length field = ciphertext+overhead length instead of plaintext length -> aead-gcm-*",
  "C02.b caught: GCM nonce copied from record offset 1 -> aead-gcm-*",
  "C02.b caught: gcm_check_length upper bound 16384+25 -> 'gcm_check_length admits exactly 24 <= rlen <= 16384+24'",
  "C02.b caught: GCM data keystream starts at counter 1 -> aead-gcm-P>=1 'same plaintext bytes as the reference'",
  "C02.b caught: gcm_decrypt advances seq by a tag-dependent extra step -> 'sequence number advances by exactly one'",
  "C02.b caught: br_ccm_check_tag compares 16 bytes for CCM_8 -> aead-ccm8-* (bounds violation on tmp[] and acceptance mismatch)",
  "C02.b caught: br_ccm_check_tag compares tag_len-1 bytes -> aead-ccm-*, aead-ccm8-*",
  "C02.b caught: CCM AAD length field = record length -> aead-ccm*",
  "C02.b caught: CCM nonce copied from record offset 1 -> aead-ccm*",
  "C02.b caught: ccm_check_length upper bound exclusive -> 'ccm_check_length admits exactly ...'",
  "C02.b caught: CCM B_0 without the Adata flag (src/aead/ccm.c) -> aead-ccm*",
  "C02.b caught: ccm_decrypt runs br_ccm_run in encrypt direction (MAC over ciphertext) -> aead-ccm-P>=1",
  "C02.b caught: chapol_decrypt compares 15 tag bytes -> aead-chapol-*",
  "C02.b caught: ChaPol nonce XORs only the low 4 bytes of seq -> aead-chapol-*",
  "C02.b caught: ChaPol AAD length field = ciphertext+tag length -> aead-chapol-*",
  "C02.b caught: chapol_check_length lower bound exclusive -> 'chapol_check_length admits exactly 16 <= rlen <= 16384+16'",
 ],
}

def queries():
    qs = []
    # (RL, ML, EXPL, BLK, tier)
    cases = [(48, 20, 1, 16, "quick"), (32, 16, 0, 16, "quick"), (64, 32, 1, 16, "quick"),
             (32, 20, 0, 8, "quick"), (40, 20, 1, 8, "quick"),
             (64, 20, 1, 16, "thorough"), (64, 48, 0, 16, "thorough"), (96, 48, 0, 16, "thorough"), (80, 20, 1, 16, "thorough"), (48, 16, 0, 8, "thorough")]
    for (rl, ml, ex, blk, tier) in cases:
        qs.append(Q("cbc-dec-RL%d-ML%d-%s-B%d" % (rl, ml, "expl" if ex else "impl", blk), "C02_cbc.c",
                    defs=["-DRL=%d" % rl, "-DML=%d" % ml, "-DEXPL=%d" % ex, "-DTOY_BLK=%d" % blk],
                    unwind=rl + 2, tier=tier, timeout=900 if tier == "thorough" else 300, backend="cadical",
                    desc="cbc_decrypt == RFC 5246 reference for every %d-byte record body, mac_len %d, %s IV, block %d" % (rl, ml, "explicit" if ex else "implicit", blk)))
    # ---- CBC record length admission, every rlen (size_t) ----
    for ml in (16, 20, 32, 48):
        for ex in (0, 1):
            for blk in (8, 16):
                qs.append(Q("cbc-checklen-ML%d-%s-B%d" % (ml, "expl" if ex else "impl", blk), "C02_cbc_checklen.c",
                            defs=["-DML=%d" % ml, "-DEXPL=%d" % ex, "-DTOY_BLK=%d" % blk], unwind=50, timeout=120,
                            desc="cbc_check_length(rlen) == RFC admissible set (whole blocks, MAC+1 .. 16384+MAC+256, +IV) for every size_t rlen"))
    # ---- C02.b AEAD (GCM / CCM / CCM_8 / ChaCha20+Poly1305) ----
    # (mode, PLEN, extra defs, tier)
    aead = []
    for pl in (0, 1, 17, 33):
        aead += [("gcm", pl, [], "quick"), ("ccm", pl, ["-DTAGLEN=16"], "quick"),
                 ("ccm8", pl, ["-DTAGLEN=8"], "quick"), ("chapol", pl, [], "quick")]
    aead += [("gcm", 16, ["-DKL=32"], "quick"), ("ccm", 16, ["-DTAGLEN=16", "-DKL=32"], "quick")]
    for pl in (48, 64):
        aead += [("gcm", pl, [], "thorough"), ("ccm", pl, ["-DTAGLEN=16"], "thorough"),
                 ("ccm8", pl, ["-DTAGLEN=8"], "thorough"), ("chapol", pl, [], "thorough")]
    aead += [("gcm", 128, [], "thorough"), ("ccm", 128, ["-DTAGLEN=16"], "thorough"), ("ccm8", 100, ["-DTAGLEN=8"], "thorough"),
             ("chapol", 100, [], "thorough"), ("chapol", 256, [], "thorough"), ("gcm", 256, [], "thorough")]
    what = {"gcm": ("C02_aead_gcm.c", [], "gcm_decrypt/gcm_check_length == RFC 5288 reference (nonce = salt||explicit, AAD = seq||type||ver||plen, 16-byte tag)", 24),
            "ccm": ("C02_aead_ccm.c", ["src/aead/ccm.c"], "ccm_decrypt/ccm_check_length over real ccm.c == RFC 6655/3610 reference (16-byte tag)", 24),
            "ccm8": ("C02_aead_ccm.c", ["src/aead/ccm.c"], "ccm_decrypt/ccm_check_length over real ccm.c == RFC 6655/3610 reference (CCM_8: 8-byte tag)", 16),
            "chapol": ("C02_aead_chapol.c", [], "chapol_decrypt/chapol_check_length == RFC 7905 reference (nonce = iv xor seq, AAD = seq||type||ver||plen, 16-byte tag)", 16)}
    for (mode, pl, defs, tier) in aead:
        h, units, d, over = what[mode]
        kl = "-K32" if "-DKL=32" in defs else ""
        qs.append(Q("aead-%s-P%d%s" % (mode, pl, kl), h, units=units, defs=["-DPLEN=%d" % pl] + defs,
                    unwind=pl + 70, tier=tier, timeout=900 if tier == "thorough" else 300, backend="cadical",
                    desc="%s; every %d-byte record body (plaintext length %d) symbolic, keys/iv/seq/type/version symbolic; check_length for all size_t rlen" % (d, pl + over, pl)))
    return qs


# ---- cross-included by the main session (C02.c, engine reaction): the C06 inductive step of br_ssl_engine_recvrec_ack
# decides that a rejected record closes the engine with BR_ERR_BAD_MAC, that records are decrypted only when complete,
# and that with encryption active a header is accepted only if the record layer admits its length (no unauthenticated
# empty record).  A seeded change there (C02c) must fail C02 as well.
_c02_queries = queries
def queries():
    import C06
    return _c02_queries() + [q for q in C06.queries() if q.name.startswith("step-recvrec_ack-") and q.tier == "quick"]
