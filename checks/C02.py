from verif import Q

META = {
 "level_text": "Bounded symbolic model checking (CBMC) of the real record-decryption functions with every byte of the record body symbolic: acceptance is equivalent to an RFC reference (CBC) / to full-tag equality with the stub authenticator over the specified AAD and nonce (AEAD). Partial: the structural half of the property; unforgeability of the real MACs is assumed (idealised stub primitives), sessions/45 suites/drop-dup-reorder are outside.",
 "level_note": "Trusted: CBMC; toy cipher and toy MAC stand-ins bound at BearSSL's own vtable/link seams (listed in assumptions); record lengths concrete per query.",
 "technique": "bounded symbolic model checking (CBMC/SAT): differential equivalence of real decrypt functions vs RFC reference, all record bytes symbolic",
 "assumptions": [
  "block cipher = toy CBC class (x -> x^K with real CBC chaining) behind br_block_cbcdec_class",
  "HMAC = toy MAC (sum/rotate accumulator) bound at the link-time seam br_hmac_{key_init,init,update,out,outCT}; the toy outCT asserts its min<=len<=max precondition",
  "record body length, MAC length, block size and explicit/implicit IV are concrete per query and enumerated by the driver",
 ],
 "outside_claim": ["unforgeability of HMAC/GHASH/Poly1305", "whole sessions, drop/dup/reorder across records (reduced to seq in MAC input, C20)", "all 45 suites with real ciphers", "record bodies longer than the listed lengths"],
}

def queries():
    qs = []
    # (RL, ML, EXPL, BLK, tier)
    cases = [(48, 20, 1, 16, "quick"), (32, 16, 0, 16, "quick"), (64, 32, 1, 16, "quick"),
             (32, 20, 0, 8, "quick"), (40, 20, 1, 8, "quick"),
             (64, 20, 1, 16, "thorough"), (64, 48, 0, 16, "thorough"), (80, 20, 1, 16, "thorough"), (48, 16, 0, 8, "thorough")]
    for (rl, ml, ex, blk, tier) in cases:
        qs.append(Q("cbc-dec-RL%d-ML%d-%s-B%d" % (rl, ml, "expl" if ex else "impl", blk), "C02_cbc.c",
                    defs=["-DRL=%d" % rl, "-DML=%d" % ml, "-DEXPL=%d" % ex, "-DTOY_BLK=%d" % blk],
                    unwind=rl + 2, tier=tier, timeout=900 if tier == "thorough" else 300,
                    desc="cbc_decrypt == RFC 5246 reference for every %d-byte record body, mac_len %d, %s IV, block %d" % (rl, ml, "explicit" if ex else "implicit", blk)))
    return qs
