from verif import Q

META = {
 "level_text": "Bounded symbolic model checking (CBMC) of the real src/ssl/ssl_lru.c (save, load, forget, init and all static tree/list helpers; nothing stubbed inside the unit). (B) Inductive step: from EVERY cache state that satisfies an explicit representation invariant R (recency list head->tail doubly linked over exactly the allocated entries; index tree a binary search tree on the masked IDs over the same entries; store_ptr = 100*n) with n = 0..capacity entries, capacity 0..3 (store sizes 0, 99, 100, 199, 200, 250, 300, 399; capacity 4 in the thorough tier), one save/load/forget with symbolic session ID and parameters re-establishes R and produces exactly the transition of an abstract LRU map written from the documentation (load returns 1 with exactly the version/suite/master secret stored under that ID iff an enabled entry holds it and makes it most recently used; save of a new ID fills a fresh slot or replaces exactly the least recently used entry; forget disables in place; no other entry changes). The real init establishes R with the empty map, so the LRU-map behaviour follows for histories of ANY length at those capacities. (A) Independent cross-check without R: all histories of 3 operations (4 in the thorough tier, plus 5-operation histories with fixed operation kinds and symbolic IDs), operation kinds and IDs symbolic, from the real initial state in lock-step with a ghost LRU map, with R and the abstraction function checked on the reached state (shows R is not vacuous / too strong for reachable states). Partial: the session-resumption half of C17 (T0 handshake flow) is not covered here; masking is an injective stand-in for HMAC.",
 "level_note": "Trusted: CBMC 6.11 (cadical back end), loop models of memcpy/memcmp. The unit's byte-access helpers (br_enc/dec16be/32be, memcpy, memcmp) are rebound inside the harness TU to case-splitting equivalents that perform the same access through the original helper at a concrete entry-field address and FAIL the query for any store address that is not a field of a whole entry (C17_lru.h); CBMC's own pointer checks remain enabled for the unit's code and are disabled only inside harness-side code (one query, hist-*-fullchecks, runs with everything enabled). Ghost-model choices that follow the code's documentation rather than an idealised map (reported as deviations from the property text, shown by the three literal-scen* queries, which fail): a save under an ID the cache still holds (enabled or disabled) is rejected, a forgotten entry keeps its slot and recency position until it ages out, parameters saved with version 0 are born disabled.",
 "technique": "bounded symbolic model checking (CBMC/SAT): inductive step over an explicit representation invariant + bounded symbolic histories, both against a ghost abstract LRU map",
 "assumptions": [
  "mask_id's HMAC is replaced at the link-time seam br_hmac_{key_init,init,update,out} by masked[i] = id[31-i] ^ key[i] (injective, keyed); injectivity of the real HMAC masking on the IDs in use is assumed, its computation is C13's concern; the stubs assert the call contract (cc->hash, 32-byte key, one 32-byte update, 32-byte output)",
  "br_hmac_drbg_generate (lazy index-key draw on the first save) is a stub that delivers symbolic bytes; only the hist-*-lazy query goes through it, all others construct the context with init_done = 1 and a symbolic index key",
  "session IDs, index key and master secrets are symbolic in 3 byte positions each (first/middle/last) and 0 elsewhere in the quick tier (fields are only ever copied whole: enforced by the typed store access); fully symbolic 32/48 bytes in the thorough *-fullsym queries",
  "histories (A) start from a zero-filled store except hist-*-symstore (symbolic initial store); the inductive step (B) has symbolic content in allocated and unallocated entries",
  "store_len, number of entries in the pre-state and the operation kind are concrete per query and enumerated by the driver",
  "R is the invariant of C17_lru.h:c17_repr_ok; states outside R are not considered (R holds initially and is preserved, both checked)",
 ],
 "outside_claim": ["capacities > 3 (quick) / > 4 (thorough); the step is uniform in the capacity but that is not proved", "resumption decision in ssl_hs_server.t0 / ssl_hs_client.t0 (check-resume, save-session natives, full vs abbreviated handshake)", "real HMAC masking (collisions of masked IDs are treated by the code as 'ID already used')", "behaviour when the same ID is saved again while still held, or re-saved after forget: the code rejects the save (documented in ssl_lru.c), which differs from a literal 'most recently saved' reading", "store sizes >= 2^32 and stores changed behind the cache's back"],
 "mutants_tried": [
  "M1 lru_save evicts the list head (MRU) instead of the tail: VIOLATION in step-S300-n3-save, hist-S250-K3-N3",
  "M2 lru_load does not move the found entry to the front: VIOLATION in step-S300-n2-load, step-S300-n3-load, hist-S250-K3-N3",
  "M3 remove_node: replacement node does not adopt the removed node's left child (set_left dropped): VIOLATION in step-S300-n3-save, hist-S300-K4-N4-SSSS",
  "M4 forget clears the cipher suite instead of the version (entry not disabled): VIOLATION in step-S300-n{1,2,3}-forget, hist-S100-K3-N2, hist-S100-K3-N2-lazy",
  "M5 save of an ID still held inserts a duplicate (existence test removed): VIOLATION in step-S300-n{1,2,3}-save, hist-S250-K3-N3",
  "M6 capacity test store_ptr >= store_len-100 (one entry less at exact multiples): VIOLATION in step-S300-n2-save, hist-S100-K3-N2, hist-S100-K3-N2-lazy",
  "M7 remove_node: replacement's child taken from get_left only (right child of the replacement lost): VIOLATION in step-S300-n3-save, hist-S300-K4-N4-SSSS",
  "M8 lru_load does not fix next->prev when unlinking a middle node: VIOLATION in step-S300-n3-load; NOT caught by hist-S250-K3-N3 (needs 3 list nodes, i.e. capacity >= 3)",
  "M9 eviction does not null the new tail's next link: VIOLATION in step-S300-n3-save",
  "M10 lru_load returns the cipher suite of the list head instead of the found node: VIOLATION in step-S300-n2-load, step-S300-n3-load; NOT caught by hist-S100-K3-N2 (capacity 1: head is the found node)",
  "M11 lru_save does not reset the right tree link of the (re)used slot: VIOLATION in step-S300-n{0,1,2,3}-save",
  "M12 capacity rounds up at non-multiples (store_ptr >= store_len): VIOLATION in step-S250-n2-save, hist-S199-K3-N2",
 ],
}

QT = 900      # generous caps: the machine is shared; idle-machine times are in the descriptions


def tree_unwind(cap):
    n = max(cap, 1) + 1
    return ["find_node.0:%d" % n, "find_replacement_node.0:%d" % n, "find_replacement_node.1:%d" % n]


def hist(store_len, k, nids, tier, fullsym=0, lazy=0, opseq=None, symstore=0, fullchecks=0, timeout=None):
    cap = store_len // 100
    nm = "hist-S%d-K%d-N%d" % (store_len, k, nids)
    defs = ["-DSTORE_LEN=%d" % store_len, "-DK_OPS=%d" % k, "-DNIDS=%d" % nids]
    what = "all histories of %d ops, each symbolically save/load/forget" % k
    if opseq:
        nm += "-" + "".join("SLF"[o] for o in opseq)
        defs.append("-DOPSEQ=" + ",".join(str(o) for o in opseq))
        what = "all histories with op kinds %s" % "".join("SLF"[o] for o in opseq)
    if fullsym:
        nm += "-fullsym"; defs.append("-DFULLSYM_IDS=1")
    if lazy:
        nm += "-lazy"; defs.append("-DLAZY_INIT=1")
    if symstore:
        nm += "-symstore"; defs.append("-DSYM_STORE=1")
    if fullchecks:
        nm += "-fullchecks"; defs.append("-DC17_FULLCHECKS=1")
    return Q(nm, "C17_hist.c", defs=defs, unwind=(store_len + 2 if symstore else 50), unwindset=tree_unwind(cap), tier=tier,
             timeout=timeout or (QT if tier == "quick" else 2400),
             fsarray=max(64, store_len + 8), backend="cadical", objbits=10,
             desc="%s over %d distinct symbolic IDs from the initialised empty cache, store_len %d (capacity %d), lock-step vs ghost LRU map + R and abstraction function at the end + lookup of every ID" % (what, nids, store_len, cap))


OPN = {0: "save", 1: "load", 2: "forget"}


def step(store_len, nent, opk, tier, fullsym=0, fullchecks=0, timeout=None):
    cap = store_len // 100
    nm = "step-S%d-n%d-%s%s%s" % (store_len, nent, OPN[opk], "-fullsym" if fullsym else "", "-fullchecks" if fullchecks else "")
    defs = ["-DSTORE_LEN=%d" % store_len, "-DNENT=%d" % nent, "-DOPK=%d" % opk]
    if fullsym:
        defs.append("-DFULLSYM_IDS=1")
    if fullchecks:
        defs.append("-DC17_FULLCHECKS=1")
    return Q(nm, "C17_step.c", defs=defs, unwind=max(50, store_len % 100 + 2), unwindset=tree_unwind(cap), tier=tier,
             timeout=timeout or (QT if tier == "quick" else 2400),
             fsarray=max(64, store_len + 8), backend="cadical", objbits=10,
             desc="inductive step: one %s with symbolic ID/params from EVERY state satisfying R with %d entries, store_len %d (capacity %d): R again + exact abstract LRU-map transition" % (OPN[opk], nent, store_len, cap))


def queries():
    qs = []
    # --- B: inductive step, all (capacity, #entries, operation) up to capacity 3
    for sl in (0, 100, 200, 300):
        for n in range(sl // 100 + 1):
            for opk in (0, 1, 2):
                qs.append(step(sl, n, opk, "quick"))
    # store sizes that are not multiples of the entry size: the capacity decision is in save
    for sl in (99, 199, 250, 399):
        for n in range(sl // 100 + 1):
            qs.append(step(sl, n, 0, "quick"))
    qs.append(step(200, 2, 0, "quick", fullchecks=1))
    qs.append(step(399, 3, 1, "quick"))
    qs.append(step(399, 3, 2, "quick"))
    # --- A: bounded histories from the real initial state
    qs.append(hist(0, 3, 2, "quick"))
    qs.append(hist(99, 3, 2, "quick"))
    qs.append(hist(100, 3, 2, "quick"))
    qs.append(hist(199, 3, 2, "quick"))
    qs.append(hist(100, 3, 2, "quick", lazy=1))
    qs.append(hist(100, 2, 2, "quick", fullchecks=1))
    qs.append(hist(250, 3, 3, "thorough"))
    qs.append(hist(200, 3, 3, "thorough", symstore=1))
    qs.append(hist(300, 4, 4, "thorough", opseq=(0, 0, 0, 0)))
    qs.append(hist(300, 4, 4, "thorough"))
    qs.append(hist(250, 4, 3, "thorough"))
    qs.append(hist(300, 5, 4, "thorough", opseq=(0, 0, 0, 1, 0)))
    qs.append(hist(300, 5, 4, "thorough", opseq=(0, 0, 2, 0, 0)))
    # --- thorough: capacity 4, fully symbolic IDs/secrets
    for opk in (0, 1, 2):
        qs.append(step(400, 4, opk, "thorough"))
        qs.append(step(300, 3, opk, "thorough", fullsym=1))
    qs.append(step(400, 3, 0, "thorough"))
    # --- literal reading of the property text on three scripted histories where the code's
    #     documented behaviour differs (these FAIL on the current tree: see C17_literal.c; each is
    #     isolated in its own query with its own assertion text, for known_findings.txt)
    for scen, sl in ((1, 100), (2, 100), (3, 200)):
        qs.append(Q("literal-scen%d-S%d" % (scen, sl), "C17_literal.c",
                    defs=["-DSTORE_LEN=%d" % sl, "-DSCEN=%d" % scen], unwind=50,
                    unwindset=tree_unwind(sl // 100), tier="quick", timeout=QT,
                    fsarray=max(64, sl + 8), backend="cadical", objbits=10,
                    desc="literal reading of the property text, scripted history %d (fails on the current tree: documented behaviour of ssl_lru.c deviates from the property text)" % scen))
    return qs
