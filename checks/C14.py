from verif import Q

META = {
 "level_text": "Bounded symbolic model checking (CBMC) of the real AEAD glue src/aead/gcm.c, ccm.c, eax.c with key, nonce, AAD, data, candidate tags and all split points symbolic, lengths concrete per query (residues 0,1,15,16,17,33 mod-16 classes; thorough tier up to 48): (1) every two-way split of AAD and data (three-way in the thorough tier) gives the one-shot result; (2) decrypt(encrypt(m)) == m with check_tag == 1, through the direct functions, the truncating functions and the br_aead_class vtables; (3) output and tag equal references written from SP 800-38D / RFC 3610 / the EAX paper over the same toy block function; (4) check_tag == 1 iff all tag_len bytes are equal; (5) br_ccm_reset accepts exactly the admissible (nonce_len, tag_len, data_len) with all four length arguments symbolic, and its start state is the RFC 3610 closed form incl. the three l(a) encodings; (6) EAX capture/reset_pre_aad/reset_post_aad give the full-reset result; (7) a context reset after an abandoned or finished message behaves as a fresh one. Partial: the block cipher and GHASH are idealised stand-ins, so 'any changed bit of nonce/AAD/ciphertext fails the tag check' is reduced to tag-comparison exactness plus equality with the reference; lengths beyond the listed ones and multi-way random splits are outside. FINDING: the splitting law does NOT hold for EAX additional data -- br_eax_aad_inject drops a completed 16-byte block whenever a call starts with 1..15 buffered bytes (or with the empty buffer left by br_eax_reset_pre_aad) and brings more bytes than complete the block (queries splitA-eax-*-A17/A33 and short-eax-*-aad17 reproduce it; confirmed natively with real AES).",
 "level_note": "Trusted: CBMC 6.11 front end and bit-precise semantics, CaDiCaL; byte-loop models of memcpy/memset; the toy block function / toy GHASH behind BearSSL's own br_block_ctr_class, br_block_ctrcbc_class and br_ghash seams (contracts of bearssl_block.h/bearssl_hash.h implemented literally; ctrcbc len%16==0 precondition asserted); the references of harness/C14_ref.h.",
 "technique": "bounded symbolic model checking (CBMC/SAT): algebraic laws (splitting, round trip, reset) and differential equivalence of the real mode glue vs references written from the specifications, over stub primitives at the vtable seams",
 "assumptions": [
  "block cipher under GCM = toy br_block_ctr_class (harness/C14_stubs.h): block iv||be32(cc), E_K(x)[i] = rotl8(t[i+1],1) ^ (t[i] & t[i+2]) ^ (17i+1), t = x^K; real CTR semantics incl. returned counter (mod 2^32) and truncated last block",
  "block cipher under CCM/EAX = toy br_block_ctrcbc_class over the same E_K: 128-bit big-endian post-incremented counter, CBC-MAC cbcmac = E_K(cbcmac ^ block), encrypt MACs the CTR output, decrypt the CTR input; the documented precondition len % 16 == 0 is asserted in every method",
  "GHASH = toy br_ghash: y = F_h(y ^ block) per 16-byte block, last block zero-padded, F of the same shape as E_K with other constants (not a field multiplication)",
  "inside harness/C14_stubs.h CBMC's per-access pointer/bounds instrumentation is switched off; instead every stub entry point asserts once (__CPROVER_r_ok/__CPROVER_w_ok) that iv[12], ctr[16], cbcmac[16], y[16], h[16] and data[len] handed in by the unit are readable/writable over the documented extent; the real units, memcpy/memset models and harnesses keep the full instrumentation",
  "all lengths (nonce, AAD, data, tag) are concrete per query and enumerated by the driver, except in ccm-reset-gate where the four length arguments are fully symbolic",
  "split points are symbolic; they are presented to the unit through a guarded enumeration (each call has concrete lengths, every cut in [0,len] is covered in the same query)",
  "EAX shortcut queries respect the documented preconditions of reset_pre_aad/reset_post_aad (at least one AAD byte and one data byte)",
  "CCM end-to-end queries use AAD shorter than 0xFF00 bytes (two-octet l(a)); the 6- and 10-octet encodings are checked on the reset state only",
 ],
 "outside_claim": [
  "equality with OpenSSL EVP / published vectors with real AES and real GHASH (C12 holds the primitive lemmas)",
  "unforgeability: that a changed nonce/AAD/ciphertext bit changes the tag (property of the real primitives, not of the glue)",
  "AAD/data lengths other than those listed per query (max 48 in the thorough tier); nonce lengths other than those listed; random multi-way splits beyond three pieces",
  "GCM data beyond 2^32 blocks, counters near the 2^39-256 bit limit",
 ],
 "mutants_tried": [
  "CAUGHT gcm.c br_gcm_aad_inject `if (len < clen)` -> `<=` (block lost when a chunk exactly completes the partial AAD block): split-gcm-*-A16-* (two-way AAD split) only, as predicted",
  "CAUGHT gcm.c br_gcm_run `if (ptr + clen < 16)` -> `<=`: split-gcm-*-D16/D17",
  "CAUGHT gcm.c br_gcm_get_tag length block in bytes instead of bits (`count_ctr << 3` -> `count_ctr`): ref-gcm-* only (splitting law and round trip are blind to it, as expected)",
  "CAUGHT gcm.c br_gcm_reset J0 length block `len << 3` -> `len` for nonces != 12 bytes: ref-gcm-N16-* (N12 queries unaffected, as expected)",
  "CAUGHT gcm.c br_gcm_check_tag_trunc loop `u + 1 < len` (last byte not compared): all tag-gcm-*",
  "CAUGHT gcm.c br_gcm_run decrypt path feeds plaintext instead of ciphertext to GHASH in the final partial block: rt-gcm-*, ref-gcm-*-dec, split-gcm-*-dec",
  "CAUGHT gcm.c br_gcm_reset without clearing y: rt-gcm-* (VIOLATION), reuse-gcm-* (solver FAIL; native replay reads uninitialised memory and is not deterministic)",
  "CAUGHT ccm.c B_0 flags `(q - 1)` -> `(q - 1) & 6` (wrong L field for nonce_len 13/11/9/7): ccm-reset-gate, ref-ccm-N13-*",
  "CAUGHT ccm.c B_0 l(m) loop one byte short for nonce_len 13: ccm-reset-gate, ref-ccm-N13-* (ref-ccm-N12-* unaffected, as expected)",
  "CAUGHT ccm.c gate `nonce_len > 13` -> `> 12`: ccm-reset-gate",
  "CAUGHT ccm.c gate accepts odd tag_len: ccm-reset-gate",
  "CAUGHT ccm.c l(a) form boundary `aad_len >= 0xFF00` -> `> 0xFF00`: ccm-reset-gate (closed-form state check)",
  "CAUGHT ccm.c br_ccm_run decrypt partial block MACs ciphertext instead of plaintext: rt-ccm-*, ref-ccm-*-dec",
  "CAUGHT ccm.c br_ccm_check_tag loop from u = 1: all tag-ccm-*",
  "EQUIVALENT ccm.c br_ccm_aad_inject `if (clen > len)` -> `>=`: a full buffered block with ptr == 16 is MACed by the next call or by flip, identical result; no query fails and none should",
  "CAUGHT eax.c br_eax_reset_post_aad restores cbcmac from st[1] instead of st[2]: all short-eax-*",
  "CAUGHT eax.c br_eax_capture tweak of st[2] wrong: all short-eax-*",
  "CAUGHT eax.c do_pad uses L4 for a full last block (L2/L4 swapped): ref-eax-* only (round trip blind, as expected)",
  "CAUGHT eax.c double_gf128 reduction constant 0x87 -> 0x86: ref-eax-*",
  "CAUGHT eax.c br_eax_run `if (len <= clen)` -> `<`: split-eax-*-A15-D16 (data chunk exactly completing the block)",
  "CAUGHT eax.c br_eax_check_tag_trunc loop to len - 1: all tag-eax-*",
 ],
}

MODES = {1: ("gcm", "src/aead/gcm.c"), 2: ("ccm", "src/aead/ccm.c"), 3: ("eax", "src/aead/eax.c")}
DEFNL = {1: 12, 2: 13, 3: 16}
DIRN = {1: "enc", 0: "dec"}


def mq(kind, harness, mode, nl, al, dl, tl=16, extra=(), tier="quick", name_extra="", desc="", timeout=None, unwind_extra=0):
    mname, unit = MODES[mode]
    defs = ["-DMODE=%d" % mode, "-DNL=%d" % nl, "-DAL=%d" % al, "-DDL=%d" % dl, "-DTL=%d" % tl] + list(extra)
    name = "%s-%s-N%d-A%d-D%d-T%d%s" % (kind, mname, nl, al, dl, tl, name_extra)
    bound = "%s, nonce %d, AAD %d, data %d, tag %d bytes; key/nonce/AAD/data symbolic" % (mname.upper(), nl, al, dl, tl)
    return Q(name, harness, units=[unit], defs=defs, unwind=max(nl, al, dl, 16, unwind_extra) + 4, tier=tier,
             timeout=timeout or (900 if tier == "thorough" else 240), desc=desc + " [" + bound + "]",
             backend="cadical", objbits=12)


# every residue class of interest appears once as AAD length and once as data length
QUICK_PAIRS = [(0, 17), (1, 33), (15, 16), (16, 15), (17, 0), (33, 1)]        # reference queries (cheap)
QUICK_SPLIT_PAIRS = [(0, 17), (1, 15), (15, 16), (16, 1), (17, 0)]            # symbolic-split queries (cost ~ AL + DL branches)
ALL_LENS = [0, 1, 15, 16, 17, 33]


def split_queries(mode, nl, al, dl, d, tier, three=False):
    """joint symbolic AAD/data splits; for EAX with AAD > 16 the AAD split and the
    data split are decided by separate queries (the AAD one reproduces a defect of
    br_eax_aad_inject, the data one must not be masked by it)"""
    out = []
    ex = ["-DDIR=%d" % d] + (["-DTHREE=1"] if three else [])
    k = "split3" if three else "split"
    what = "three-way" if three else "two-way"
    if mode == 3 and al > 16:
        out.append(mq(k + "A", "C14_split.c", mode, nl, al, dl, extra=ex + ["-DSPLITD=0"], tier=tier, name_extra="-" + DIRN[d],
                      desc="every %s split of the AAD across aad_inject calls == single call (%s)" % (what, DIRN[d])))
        if dl > 0:
            out.append(mq(k + "D", "C14_split.c", mode, nl, al, dl, extra=ex + ["-DSPLITA=0"], tier=tier, name_extra="-" + DIRN[d],
                          desc="every %s split of the data across run calls == single call (%s)" % (what, DIRN[d])))
    else:
        out.append(mq(k, "C14_split.c", mode, nl, al, dl, extra=ex, tier=tier, name_extra="-" + DIRN[d],
                      desc="every %s split of the AAD across aad_inject calls and of the data across run calls == single calls (%s)" % (what, DIRN[d])))
    return out


def ref_query(mode, nl, al, dl, d, tl=16, tier="quick", splits=False):
    ex = ["-DDIR=%d" % d, "-DREF=1"] + ([] if splits else ["-DSPLITA=0", "-DSPLITD=0"])
    spec = {1: "NIST SP 800-38D", 2: "RFC 3610", 3: "the EAX paper (OMAC^t, pad with 2L/4L)"}[mode]
    return mq("splitref" if splits else "ref", "C14_split.c", mode, nl, al, dl, tl=tl, extra=ex, tier=tier, name_extra="-" + DIRN[d],
              desc="output and tag of the %s == reference written from %s (%s)" % ("split run (all two-way splits)" if splits else "single-call run", spec, DIRN[d]))


def queries():
    qs = []
    for mode in (1, 2, 3):
        nl = DEFNL[mode]
        # 1. splitting law
        for (al, dl) in QUICK_SPLIT_PAIRS:
            for d in (1, 0):
                # decrypt direction of two of the five pairs only in the thorough tier (quick-tier budget)
                qs += split_queries(mode, nl, al, dl, d, "quick" if (d == 1 or (al, dl) in ((0, 17), (15, 16), (17, 0))) else "thorough")
        for (al, dl) in [(1, 33), (33, 1), (33, 33), (17, 33), (48, 16), (16, 48)]:
            for d in (1, 0):
                qs += split_queries(mode, nl, al, dl, d, "thorough")
        for (al, dl, d) in [(17, 1, 1), (1, 17, 0), (16, 0, 0), (0, 16, 1)]:
            qs += split_queries(mode, nl, al, dl, d, "thorough", three=True)
        # 3. independent reference
        done = set()
        for (al, dl) in QUICK_PAIRS + [(33, 33)]:
            for d in (1, 0):
                qs.append(ref_query(mode, nl, al, dl, d, tier="quick" if (d == 1 or (al, dl) in ((1, 33), (16, 15), (33, 33))) else "thorough"))
                done.add((al, dl))
        for al in ALL_LENS + [48]:
            for dl in ALL_LENS + [48]:
                if (al, dl) not in done:
                    for d in (1, 0):
                        qs.append(ref_query(mode, nl, al, dl, d, tier="thorough"))
        for d in (1, 0):
            # EAX: 16-byte AAD, so that the br_eax_aad_inject defect (AAD > 16 only) does not mask the data side
            qs.append(ref_query(mode, nl, 16 if mode == 3 else 17, 17, d, tier="thorough", splits=True))
    # nonce-length (and CCM tag-length) variants against the reference
    for nl in (0, 1, 11, 13, 16, 17, 33):
        qs.append(ref_query(1, nl, 17, 17, 1))           # GCM: J0 = GHASH(IV || pad || len) for len != 12
        qs.append(ref_query(1, nl, 1, 16, 0, tier="thorough"))
    for (nl, tl) in ((7, 4), (8, 6), (9, 8), (10, 10), (11, 12), (12, 14), (13, 16), (7, 16), (13, 4)):
        qs.append(ref_query(2, nl, 17, 17, 1, tl=tl))    # CCM: L = 15 - nonce_len, M = tag_len in B_0
        qs.append(ref_query(2, nl, 0, 33, 0, tl=tl, tier="thorough"))
    for nl in (0, 1, 15, 17, 32, 33):
        qs.append(ref_query(3, nl, 17, 17, 1))           # EAX: OMAC^0 over the nonce
        qs.append(ref_query(3, nl, 1, 16, 0, tier="thorough"))
    # 2. round trip (+ truncated tags, + vtable dispatch)
    for mode in (1, 2, 3):
        nl = DEFNL[mode]
        vt = ["-DVTAB=1"] if mode != 2 else []
        qs.append(mq("rt", "C14_roundtrip.c", mode, nl, 17, 33, tl=16, extra=vt, name_extra="-vtab" if vt else "",
                     desc="decrypt(encrypt(m)) == m on the same context after reset, check_tag(tag) == 1" + (", all calls through br_aead_class" if vt else "")))
        qs.append(mq("rt", "C14_roundtrip.c", mode, nl, 16, 16, tl=16, extra=["-DRT_DECFIRST=1"], name_extra="-decfirst",
                     desc="encrypt(decrypt(c)) == c and both directions compute the same tag"))
        qs.append(mq("rt", "C14_roundtrip.c", mode, nl, 0, 1, tl=4, extra=vt, name_extra="-vtab" if vt else "",
                     desc="round trip with 4-byte tag (get_tag_trunc/check_tag_trunc; CCM tag_len 4)"))
        qs.append(mq("rt", "C14_roundtrip.c", mode, nl, 33, 0, tl=12,
                     desc="round trip, empty message, 12-byte tag"))
        qs.append(mq("rt", "C14_roundtrip.c", mode, nl, 1, 15, tl=16,
                     desc="round trip, short message"))
        qs.append(mq("rt", "C14_roundtrip.c", mode, nl, 48, 48, tl=16, tier="thorough",
                     desc="round trip, three full blocks each"))
    # 4. tag comparison exactness
    for mode in (1, 2, 3):
        nl = DEFNL[mode]
        for (tl, d, vt) in ((16, 0, 0), (4, 0, 0), (13 if mode != 2 else 14, 1, 1), (1 if mode != 2 else 6, 0, 1)):
            ex = ["-DDIR=%d" % d] + (["-DVTAB=1"] if (vt and mode != 2) else [])
            qs.append(mq("tag", "C14_tag.c", mode, nl, 5, 17, tl=tl, extra=ex, name_extra="-" + DIRN[d] + ("-vtab" if (vt and mode != 2) else ""),
                         desc="check_tag(t) == 1 iff all tag_len bytes of symbolic t equal get_tag's; one flipped bit => 0"))
    # 5. CCM reset gate and RFC 3610 start state, all four length arguments symbolic
    qs.append(Q("ccm-reset-gate", "C14_ccm_reset.c", units=["src/aead/ccm.c"], unwind=18, backend="cadical", objbits=12,
                desc="br_ccm_reset == 1 iff 7<=nonce_len<=13, tag_len in {4..16 even}, data_len < 2^(8(15-nonce_len)); accepted state == RFC 3610 B_0/l(a)/A_0/A_1; nonce_len, tag_len, aad_len, data_len fully symbolic"))
    # 6. EAX shortcuts
    for (nl, al, dl, d, sa, tier) in ((16, 5, 17, 1, 0, "quick"), (0, 1, 1, 0, 1, "quick"), (17, 16, 16, 1, 1, "quick"), (1, 15, 2, 0, 1, "quick"),
                                      (16, 16, 33, 1, 1, "thorough"), (33, 15, 33, 0, 1, "thorough"), (15, 8, 48, 1, 0, "thorough")):
        qs.append(mq("short", "C14_eax_short.c", 3, nl, al, dl, extra=["-DDIR=%d" % d, "-DSPLITA=%d" % sa], tier=tier, name_extra="-" + DIRN[d] + ("-splitA" if sa else ""),
                     unwind_extra=48, desc="br_eax_capture + reset_pre_aad / get_aad_mac + reset_post_aad == br_eax_reset path; data in two pieces (symbolic cut)"))
    # AAD > 16 bytes in ONE aad_inject call after reset_pre_aad: second face of the br_eax_aad_inject defect (first block dropped)
    qs.append(mq("short", "C14_eax_short.c", 3, 16, 17, 1, extra=["-DDIR=1", "-DSPLITA=0"], name_extra="-enc-aad17",
                 unwind_extra=48, desc="as above with a 17-byte AAD given in one call (reproduces the br_eax_aad_inject defect on the reset_pre_aad path)"))
    # 7. reset and reuse
    for mode in (1, 2, 3):
        nl = DEFNL[mode]
        qs.append(mq("reuse", "C14_reuse.c", mode, nl, 17, 33, extra=["-DDIR=1"], unwind_extra=21, name_extra="-enc",
                     desc="message B on a context that processed message A up to a symbolic stage and was reset == B on a fresh context"))
        qs.append(mq("reuse", "C14_reuse.c", mode, nl, 1, 0, extra=["-DDIR=0", "-DA2L=16", "-DD2L=32"], unwind_extra=32, name_extra="-dec",
                     desc="as above; A has whole blocks, B is nearly empty"))
    return qs


# ---- cross-included by the main session: C14's own queries run the AEAD glue over toy CTR / CTR+CBC-MAC classes; the
# real counter/CBC-MAC classes under CCM and EAX (anchors src/symcipher/aes_ct_ctr.c, aes_ct_ctrcbc.c) are decided by
# the C12 mode queries (every entry point == textbook CTR / CBC-MAC over an uninterpreted block function, incl. the
# 128-bit counter carries); a seeded change there (C14b) must fail C14 as well.
_c14_queries = queries
def queries():
    import C12
    return _c14_queries() + [q for q in C12.queries() if q.tier == "quick" and q.name.startswith("modes-aes_ct") and ("ctrcbc" in q.name or "-ctr-" in q.name)]   # -ctr-: the CTR class under GCM (seeded change C14e)
