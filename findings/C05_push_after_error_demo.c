/*
 * C05 finding: br_pkey_decoder_push / br_skey_decoder_push / br_x509_decoder_push
 * do not test the error status.  Pushing more data after the decoder has
 * failed resumes the T0 coroutine just after the failing `fail` word; the
 * program then runs on as if the failed test had passed, the main word
 * eventually returns to address 0 (ip := NULL) and the next push dereferences
 * the NULL instruction pointer.
 *
 * Public API only.  Build (from /verif):
 *   gcc -g -fsanitize=address,undefined -I$REPO/inc -I$REPO/src \
 *       findings/C05_push_after_error_demo.c $REPO/src/x509/pkey_decoder.c \
 *       $REPO/src/x509/skey_decoder.c $REPO/src/x509/x509_decoder.c -o /tmp/demo
 *   /tmp/demo pkey | skey | x509 | pkey-oversize
 *
 * pkey:  a VALID 26-byte EC SubjectPublicKeyInfo-style key is decoded
 *        successfully; the caller then keeps feeding trailing bytes one push at
 *        a time (e.g. a file with trailing newlines read in small chunks):
 *        1st extra byte -> BR_ERR_X509_EXTRA_ELEMENT (documented),
 *        2nd extra push -> main word returns, ip = NULL,
 *        3rd extra push -> NULL dereference in br_pkey_decoder_run.
 */
#include <stdio.h>
#include <string.h>
#include <stdlib.h>
#include "bearssl.h"

/* SEQUENCE { INTEGER n (3 bytes), INTEGER e (1 byte) }  -- raw RSA public key */
static const unsigned char rsa_pub[] = { 0x30, 0x08, 0x02, 0x03, 0x01, 0x00, 0x01, 0x02, 0x01, 0x03 };
/* RSAPrivateKey-like garbage for skey: wrong outer tag */
static const unsigned char bad_tag[] = { 0x31, 0x00 };

int main(int argc, char **argv)
{
	const char *what = argc > 1 ? argv[1] : "pkey";
	int i;
	if (!strcmp(what, "pkey")) {
		br_pkey_decoder_context *dc = malloc(sizeof *dc);
		br_pkey_decoder_init(dc);
		br_pkey_decoder_push(dc, rsa_pub, sizeof rsa_pub);
		printf("after key: last_error=%d key_type=%d\n", br_pkey_decoder_last_error(dc), br_pkey_decoder_key_type(dc));
		for (i = 0; i < 3; i ++) {
			br_pkey_decoder_push(dc, "\n", 1);
			printf("after trailing byte %d: last_error=%d\n", i + 1, br_pkey_decoder_last_error(dc));
			fflush(stdout);
		}
	} else if (!strcmp(what, "skey")) {
		br_skey_decoder_context *dc = malloc(sizeof *dc);
		br_skey_decoder_init(dc);
		for (i = 0; i < 40; i ++) {
			br_skey_decoder_push(dc, bad_tag, sizeof bad_tag);
			printf("push %d: last_error=%d\n", i + 1, br_skey_decoder_last_error(dc));
			fflush(stdout);
		}
	} else if (!strcmp(what, "x509")) {
		br_x509_decoder_context *dc = malloc(sizeof *dc);
		br_x509_decoder_init(dc, 0, 0, 0, 0);
		for (i = 0; i < 40; i ++) {
			br_x509_decoder_push(dc, bad_tag, sizeof bad_tag);
			printf("push %d: last_error=%d\n", i + 1, br_x509_decoder_last_error(dc));
			fflush(stdout);
		}
	} else if (!strcmp(what, "pkey-oversize")) {
		/* suspicion (1): raw RSA public key whose modulus is 1560 bytes:
		   key_data is 3*BR_X509_BUFSIZE_SIG = 1536 bytes but the T0 code
		   accepts up to 3*BR_X509_BUFSIZE_KEY = 1560 */
		size_t nlen = argc > 2 ? (size_t)atoi(argv[2]) : 1560;
		size_t tot = 4 + nlen + 3, k = 0;
		unsigned char *der = malloc(tot + 4);
		br_pkey_decoder_context *dc = malloc(sizeof *dc);
		der[k ++] = 0x30; der[k ++] = 0x82; der[k ++] = (unsigned char)((tot) >> 8); der[k ++] = (unsigned char)tot;
		der[k ++] = 0x02; der[k ++] = 0x82; der[k ++] = (unsigned char)(nlen >> 8); der[k ++] = (unsigned char)nlen;
		memset(der + k, 0xA5, nlen); k += nlen;
		der[k ++] = 0x02; der[k ++] = 0x01; der[k ++] = 0x03;
		br_pkey_decoder_init(dc);
		br_pkey_decoder_push(dc, der, k);
		printf("oversize modulus %u bytes: last_error=%d key_type=%d (sizeof key_data=%u)\n", (unsigned)nlen,
			br_pkey_decoder_last_error(dc), br_pkey_decoder_key_type(dc), (unsigned)sizeof dc->key_data);
	}
	return 0;
}
