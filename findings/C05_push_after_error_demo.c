/*
 * C05 finding: br_pkey_decoder_push / br_skey_decoder_push / br_x509_decoder_push
 * do not test the error status.  Pushing more data after the decoder has
 * failed resumes the T0 coroutine just after the failing `fail` word; the
 * program then runs on as if the failed test had passed, the main word
 * eventually returns to address 0 (ip := NULL) and the next push dereferences
 * the NULL instruction pointer.
 *
 * Public API only.  Build (from /verif):
 *   gcc -g -fsanitize=address,undefined -I$REPO/inc -I$REPO/src \
 *       findings/C05_push_after_error_demo.c $REPO/src/x509/pkey_decoder.c \
 *       $REPO/src/x509/skey_decoder.c $REPO/src/x509/x509_decoder.c -o /tmp/demo
 *   /tmp/demo pkey | skey | x509 | pkey-oversize
 *
 * pkey:  a VALID RSA SubjectPublicKeyInfo (64-byte modulus) is decoded
 *        successfully; the caller then keeps feeding trailing bytes one push at
 *        a time (e.g. a file with trailing newlines read in small chunks):
 *        1st extra byte -> BR_ERR_X509_EXTRA_ELEMENT (documented),
 *        2nd extra push -> main word returns, ip = NULL,
 *        3rd extra push -> NULL dereference in br_pkey_decoder_run.
 */
#include <stdio.h>
#include <string.h>
#include <stdlib.h>
#include "bearssl.h"

/* DER length */
static size_t
put_len(unsigned char *b, size_t len)
{
	if (len < 0x80) { b[0] = (unsigned char)len; return 1; }
	b[0] = 0x82; b[1] = (unsigned char)(len >> 8); b[2] = (unsigned char)len; return 3;
}
/* SubjectPublicKeyInfo { AlgorithmIdentifier rsaEncryption NULL, BIT STRING { SEQUENCE { INTEGER n, INTEGER e } } },
   modulus = nlen bytes 0xA5.., exponent 3 */
static size_t
make_spki(unsigned char *out, size_t nlen)
{
	static const unsigned char alg[] = { 0x30, 0x0D, 0x06, 0x09, 0x2A, 0x86, 0x48, 0x86, 0xF7, 0x0D, 0x01, 0x01, 0x01, 0x05, 0x00 };
	unsigned char l1[3], l2[3], l3[3], l4[3];
	size_t n1 = put_len(l1, nlen);                 /* INTEGER n */
	size_t seq = 1 + n1 + nlen + 3;                /* n + e */
	size_t n2 = put_len(l2, seq);
	size_t bits = 1 + 1 + n2 + seq;                /* unused-bits byte + SEQUENCE */
	size_t n3 = put_len(l3, bits);
	size_t tot = sizeof alg + 1 + n3 + bits;
	size_t n4 = put_len(l4, tot);
	size_t k = 0;
	out[k ++] = 0x30; memcpy(out + k, l4, n4); k += n4;
	memcpy(out + k, alg, sizeof alg); k += sizeof alg;
	out[k ++] = 0x03; memcpy(out + k, l3, n3); k += n3;
	out[k ++] = 0x00;
	out[k ++] = 0x30; memcpy(out + k, l2, n2); k += n2;
	out[k ++] = 0x02; memcpy(out + k, l1, n1); k += n1;
	memset(out + k, 0xA5, nlen); out[k] = 0x7F; k += nlen;
	out[k ++] = 0x02; out[k ++] = 0x01; out[k ++] = 0x03;
	return k;
}
/* RSAPrivateKey-like garbage for skey: wrong outer tag */
static const unsigned char bad_tag[] = { 0x31, 0x00 };

int main(int argc, char **argv)
{
	const char *what = argc > 1 ? argv[1] : "pkey";
	int i;
	if (!strcmp(what, "pkey")) {
		br_pkey_decoder_context *dc = malloc(sizeof *dc);
		unsigned char rsa_pub[200];
		size_t rl = make_spki(rsa_pub, 64);
		br_pkey_decoder_init(dc);
		br_pkey_decoder_push(dc, rsa_pub, rl);
		printf("after key: last_error=%d key_type=%d\n", br_pkey_decoder_last_error(dc), br_pkey_decoder_key_type(dc));
		for (i = 0; i < 3; i ++) {
			br_pkey_decoder_push(dc, "\n", 1);
			printf("after trailing byte %d: last_error=%d\n", i + 1, br_pkey_decoder_last_error(dc));
			fflush(stdout);
		}
	} else if (!strcmp(what, "skey")) {
		br_skey_decoder_context *dc = malloc(sizeof *dc);
		br_skey_decoder_init(dc);
		for (i = 0; i < 40; i ++) {
			br_skey_decoder_push(dc, bad_tag, sizeof bad_tag);
			printf("push %d: last_error=%d\n", i + 1, br_skey_decoder_last_error(dc));
			fflush(stdout);
		}
	} else if (!strcmp(what, "x509")) {
		br_x509_decoder_context *dc = malloc(sizeof *dc);
		br_x509_decoder_init(dc, 0, 0, 0, 0);
		for (i = 0; i < 40; i ++) {
			br_x509_decoder_push(dc, bad_tag, sizeof bad_tag);
			printf("push %d: last_error=%d\n", i + 1, br_x509_decoder_last_error(dc));
			fflush(stdout);
		}
	} else if (!strcmp(what, "pkey-oversize")) {
		/* suspicion (1): raw RSA public key whose modulus is 1560 bytes:
		   key_data is 3*BR_X509_BUFSIZE_SIG = 1536 bytes but the T0 code
		   accepts up to 3*BR_X509_BUFSIZE_KEY = 1560 */
		size_t nlen = argc > 2 ? (size_t)atoi(argv[2]) : 1560;
		unsigned char *der = malloc(nlen + 64);
		br_pkey_decoder_context *dc = malloc(sizeof *dc);
		size_t k = make_spki(der, nlen);
		br_pkey_decoder_init(dc);
		br_pkey_decoder_push(dc, der, k);
		printf("oversize modulus %u bytes: last_error=%d key_type=%d (sizeof key_data=%u)\n", (unsigned)nlen,
			br_pkey_decoder_last_error(dc), br_pkey_decoder_key_type(dc), (unsigned)sizeof dc->key_data);
	}
	return 0;
}
