/*
 * In-memory TLS client + server built from the real library (public API only),
 * used to demonstrate engine-level findings on real call histories.
 *
 *   hs_demo flush      : br_ssl_engine_flush(force=1) while a record is being received (shared buffer)
 *   hs_demo flush2     : forced empty record on an idle shared buffer, then incoming bytes before it is sent
 *   hs_demo mfln       : server context reused after a connection that negotiated max_fragment_length
 *   hs_demo reneg [c|s] [p] : renegotiation requested while the client's/server's written bytes are still unflushed (p: requested by the peer's application)
 *   hs_demo closehang  : br_sslio_close with a failing low_write after the peer's close_notify
 *
 * Build: gcc -I/repo/inc -I/repo/samples hs_demo.c <libbearssl.a>
 */
#include <stdio.h>
#include <stdlib.h>
#include <string.h>
#include "bearssl.h"
#include "chain-rsa.h"
#include "key-rsa.h"

/* X.509 "validator" that accepts any chain and extracts the leaf key */
typedef struct {
	const br_x509_class *vtable;
	br_x509_decoder_context dc;
	int ncert;
} xany_ctx;
static void xa_start_chain(const br_x509_class **c, const char *sn) { (void)sn; ((xany_ctx *)c)->ncert = 0; }
static void xa_start_cert(const br_x509_class **c, uint32_t len) { xany_ctx *x = (xany_ctx *)c; (void)len; if (x->ncert == 0) br_x509_decoder_init(&x->dc, 0, 0, 0, 0); }
static void xa_append(const br_x509_class **c, const unsigned char *b, size_t len) { xany_ctx *x = (xany_ctx *)c; if (x->ncert == 0) br_x509_decoder_push(&x->dc, b, len); }
static void xa_end_cert(const br_x509_class **c) { ((xany_ctx *)c)->ncert++; }
static unsigned xa_end_chain(const br_x509_class **c) { (void)c; return 0; }
static const br_x509_pkey *xa_get_pkey(const br_x509_class *const *c, unsigned *usages)
{ xany_ctx *x = (xany_ctx *)c; if (usages) *usages = BR_KEYTYPE_KEYX | BR_KEYTYPE_SIGN; return br_x509_decoder_get_pkey(&x->dc); }
static const br_x509_class xany_vtable = { sizeof(xany_ctx), xa_start_chain, xa_start_cert, xa_append, xa_end_cert, xa_end_chain, xa_get_pkey };

static br_ssl_client_context cc;
static br_ssl_server_context sc;
static br_x509_minimal_context xm;
static xany_ctx xa;
static unsigned char cbuf[BR_SSL_BUFSIZE_BIDI], sbuf[BR_SSL_BUFSIZE_BIDI];

static void client_setup(size_t buflen, int bidi)
{
	br_ssl_client_init_full(&cc, &xm, NULL, 0);
	xa.vtable = &xany_vtable;
	br_ssl_engine_set_x509(&cc.eng, &xa.vtable);
	br_ssl_engine_set_buffer(&cc.eng, cbuf, buflen, bidi);
	br_ssl_engine_inject_entropy(&cc.eng, "0123456789abcdef0123456789abcdef", 32);
	br_ssl_client_reset(&cc, "localhost", 0);
}
static void server_setup(size_t buflen, int bidi)
{
	br_ssl_server_init_full_rsa(&sc, CHAIN, CHAIN_LEN, &RSA);
	br_ssl_engine_set_buffer(&sc.eng, sbuf, buflen, bidi);
	br_ssl_engine_inject_entropy(&sc.eng, "fedcba9876543210fedcba9876543210", 32);
	br_ssl_server_reset(&sc);
}
/* move pending record bytes a -> b, at most max bytes; returns bytes moved */
static size_t pump(br_ssl_engine_context *a, br_ssl_engine_context *b, size_t max)
{
	size_t la, lb, n;
	unsigned char *pa = br_ssl_engine_sendrec_buf(a, &la);
	unsigned char *pb = br_ssl_engine_recvrec_buf(b, &lb);
	if (!pa || !pb) return 0;
	n = la < lb ? la : lb;
	if (n > max) n = max;
	memcpy(pb, pa, n);
	br_ssl_engine_sendrec_ack(a, n);
	br_ssl_engine_recvrec_ack(b, n);
	return n;
}
static int handshake(void)
{
	for (int i = 0; i < 100000; i++) {
		unsigned s1 = br_ssl_engine_current_state(&cc.eng), s2 = br_ssl_engine_current_state(&sc.eng);
		if ((s1 & BR_SSL_CLOSED) || (s2 & BR_SSL_CLOSED)) return 0;
		if ((s1 & BR_SSL_SENDAPP) && (s2 & BR_SSL_SENDAPP)) return 1;
		if (!pump(&cc.eng, &sc.eng, (size_t)-1) && !pump(&sc.eng, &cc.eng, (size_t)-1)) return 0;
	}
	return 0;
}
static size_t app_write(br_ssl_engine_context *e, const void *d, size_t n)
{
	size_t l; unsigned char *p = br_ssl_engine_sendapp_buf(e, &l);
	if (!p) return 0;
	if (n > l) n = l;
	memcpy(p, d, n); br_ssl_engine_sendapp_ack(e, n); br_ssl_engine_flush(e, 0);
	return n;
}

static int low_write_fail(void *ctx, const unsigned char *b, size_t n)
{
	int *cnt = ctx; (void)b; (void)n;
	if (++*cnt > 1000) { printf("FINDING: br_sslio_close called low_write %d times after it started failing (no termination)\n", *cnt); exit(1); }
	return -1;
}
static int low_read_none(void *ctx, unsigned char *b, size_t n) { (void)ctx; (void)b; (void)n; return -1; }

int main(int argc, char **argv)
{
	const char *mode = argc > 1 ? argv[1] : "flush";
	if (!strcmp(mode, "flush")) {
		/* server uses a shared (half-duplex) buffer */
		client_setup(sizeof cbuf, 1); server_setup(16384 + 325, 0);
		if (!handshake()) { printf("handshake failed %d %d\n", br_ssl_engine_last_error(&cc.eng), br_ssl_engine_last_error(&sc.eng)); return 2; }
		unsigned char msg[300]; memset(msg, 'A', sizeof msg);
		app_write(&cc.eng, msg, sizeof msg);
		/* deliver only the first 40 bytes of the client's record to the server */
		for (size_t got = 0; got < 40; ) { size_t k = pump(&cc.eng, &sc.eng, 40 - got); if (!k) break; got += k; }
		unsigned st = br_ssl_engine_current_state(&sc.eng);
		printf("server state after partial record: sendapp=%d recvrec=%d\n", !!(st & BR_SSL_SENDAPP), !!(st & BR_SSL_RECVREC));
		/* documented: "If no application data has been buffered but the engine would be ready to accept some,
		   AND force is non-zero, an empty record is assembled. In all other cases, this function does nothing." */
		br_ssl_engine_flush(&sc.eng, 1);
		while (pump(&cc.eng, &sc.eng, (size_t)-1)) { }
		size_t l; unsigned char *p = br_ssl_engine_recvapp_buf(&sc.eng, &l);
		int err = br_ssl_engine_last_error(&sc.eng);
		if (err != 0 || !p || l != sizeof msg || memcmp(p, msg, l) != 0) {
			printf("FINDING: flush(force=1) during reception corrupted the connection: server err=%d, delivered=%zu bytes\n", err, p ? l : (size_t)0);
			return 1;
		}
		printf("record delivered to the server application (%zu bytes)\n", l);
		br_ssl_engine_recvapp_ack(&sc.eng, l);
		/* whatever the server now has to send goes to the client */
		while (pump(&sc.eng, &cc.eng, (size_t)-1)) { }
		if (br_ssl_engine_current_state(&cc.eng) == BR_SSL_CLOSED) {
			printf("FINDING: the record assembled by flush(force=1) during reception was overwritten by incoming bytes; client closed with err=%d\n", br_ssl_engine_last_error(&cc.eng));
			return 1;
		}
		printf("OK\n");
		return 0;
	}
	if (!strcmp(mode, "flush2")) {
		/* idle server with a shared buffer: forced empty record, then incoming bytes arrive before it is sent */
		client_setup(sizeof cbuf, 1); server_setup(16384 + 325, 0);
		if (!handshake()) { printf("handshake failed\n"); return 2; }
		br_ssl_engine_flush(&sc.eng, 1);
		unsigned st = br_ssl_engine_current_state(&sc.eng);
		printf("server after flush(force=1): sendrec=%d recvrec=%d\n", !!(st & BR_SSL_SENDREC), !!(st & BR_SSL_RECVREC));
		unsigned char snap[64], msg[100]; size_t sl = 0, sl2 = 0;
		unsigned char *sp = br_ssl_engine_sendrec_buf(&sc.eng, &sl);
		if (!sp || sl > sizeof snap) { printf("no pending record\n"); return 2; }
		memcpy(snap, sp, sl);
		memset(msg, 'B', sizeof msg);
		app_write(&cc.eng, msg, sizeof msg);
		size_t moved = 0, k;
		while ((k = pump(&cc.eng, &sc.eng, (size_t)-1)) != 0) moved += k;      /* client -> server first */
		sp = br_ssl_engine_sendrec_buf(&sc.eng, &sl2);
		if (moved > 0 && (!sp || sl2 != sl || memcmp(sp, snap, sl) != 0)) {
			printf("FINDING: %zu incoming bytes were accepted while a forced record was pending in the shared buffer; the pending record changed\n", moved);
			return 1;
		}
		printf("OK (incoming bytes accepted while the record was pending: %zu)\n", moved);
		return 0;
	}
	if (!strcmp(mode, "mfln")) {
		/* connection 1: client with a small buffer asks for max_fragment_length */
		client_setup(1024 + 325 + 85 + 100, 0); server_setup(sizeof sbuf, 1);
		if (!handshake()) { printf("handshake 1 failed %d %d\n", br_ssl_engine_last_error(&cc.eng), br_ssl_engine_last_error(&sc.eng)); return 2; }
		printf("connection 1: client negotiated=%d server max_frag_len=%u\n", br_ssl_engine_get_mfln_negotiated(&cc.eng), (unsigned)sc.eng.max_frag_len);
		/* connection 2: same server context reset; new client with full buffers sends no extension */
		br_ssl_server_reset(&sc);
		client_setup(sizeof cbuf, 1);
		int ok = handshake();
		printf("connection 2: ok=%d client err=%d server err=%d server max_frag_len=%u\n", ok, br_ssl_engine_last_error(&cc.eng), br_ssl_engine_last_error(&sc.eng), (unsigned)sc.eng.max_frag_len);
		if (!ok || sc.eng.max_frag_len != 16384) { printf("FINDING: max_fragment_length state of the previous connection survived br_ssl_server_reset\n"); return 1; }
		printf("OK\n");
		return 0;
	}
	if (!strcmp(mode, "reneg")) {
		int server_side = argc > 2 && argv[2][0] == 's';
		client_setup(sizeof cbuf, 1); server_setup(sizeof sbuf, 1);
		if (!handshake()) { printf("handshake failed\n"); return 2; }
		br_ssl_engine_context *a = server_side ? &sc.eng : &cc.eng, *b = server_side ? &cc.eng : &sc.eng;
		/* the application writes 100 bytes and does NOT flush, then asks for a renegotiation */
		unsigned char msg[100], got[400]; size_t l, ngot = 0; memset(msg, 'R', sizeof msg);
		unsigned char *p = br_ssl_engine_sendapp_buf(a, &l); if (!p || l < sizeof msg) return 2;
		memcpy(p, msg, sizeof msg); br_ssl_engine_sendapp_ack(a, sizeof msg);
		/* third variant ("p"): the PEER's application asks for the renegotiation while our bytes are unflushed */
		int peer_req = (argc > 2 && argv[2][0] == 'p') || (argc > 3 && argv[3][0] == 'p');
		int r = br_ssl_engine_renegotiate(peer_req ? b : a);
		printf("renegotiate() by the %s returned %d\n", peer_req ? "peer" : "writer", r);
		for (int i = 0; i < 100000; i++) {
			size_t k = pump(a, b, (size_t)-1) + pump(b, a, (size_t)-1);
			unsigned char *q = br_ssl_engine_recvapp_buf(b, &l);
			if (q) { if (ngot + l > sizeof got) l = sizeof got - ngot; memcpy(got + ngot, q, l); ngot += l; br_ssl_engine_recvapp_ack(b, l); k++; }
			if (!k) {
				/* nothing moves any more: a well-behaved application flushes what it wrote (documented way to push data out) */
				if (i < 50000) { i = 50000; br_ssl_engine_flush(a, 0); continue; }
				break;
			}
		}
		int ea = br_ssl_engine_last_error(a), eb = br_ssl_engine_last_error(b);
		unsigned sa = br_ssl_engine_current_state(a), sb = br_ssl_engine_current_state(b);
		printf("after renegotiation request: requester err=%d state=0x%02x, peer err=%d state=0x%02x, peer application received %zu bytes\n", ea, sa, eb, sb, ngot);
		if (ea || eb || ngot != sizeof msg || memcmp(got, msg, sizeof msg) != 0 || !(sa & BR_SSL_SENDAPP) || !(sb & BR_SSL_SENDAPP)) {
			printf("FINDING: renegotiation requested with unflushed application data: the bytes written before the request did not reach the peer intact / the connection did not survive\n");
			return 1;
		}
		printf("OK\n");
		return 0;
	}
	if (!strcmp(mode, "closehang")) {
		client_setup(sizeof cbuf, 1); server_setup(sizeof sbuf, 1);
		if (!handshake()) { printf("handshake failed\n"); return 2; }
		/* client closes; its close_notify reaches the server, whose own close_notify is then pending */
		br_ssl_engine_close(&cc.eng);
		while (pump(&cc.eng, &sc.eng, (size_t)-1)) { }
		size_t l; int pending = br_ssl_engine_sendrec_buf(&sc.eng, &l) != NULL;
		printf("server: shutdown_recv=%d close_notify pending=%d state=%u\n", sc.eng.shutdown_recv, pending, br_ssl_engine_current_state(&sc.eng));
		br_sslio_context io; int cnt = 0;
		br_sslio_init(&io, &sc.eng, low_read_none, NULL, low_write_fail, &cnt);
		int r = br_sslio_close(&io);
		printf("OK: br_sslio_close returned %d after %d low_write calls\n", r, cnt);
		return 0;
	}
	return 2;
}
