/* demonstration: a CBC record whose length is not a multiple of the block size
   passes check_length and makes the CBC decryption loop run past the record */
#include <stdio.h>
#include <stdlib.h>
#include <string.h>
#include "bearssl.h"
int main(int argc, char **argv)
{
	size_t rlen = argc > 1 ? (size_t)atoi(argv[1]) : 49;
	br_sslrec_in_cbc_context rc;
	unsigned char key[16] = {1}, mkey[20] = {2};
	const br_block_cbcdec_class *bc = argc > 2 && !strcmp(argv[2], "ct") ? &br_aes_ct_cbcdec_vtable : &br_aes_big_cbcdec_vtable;
	br_sslrec_in_cbc_vtable.init(&rc.vtable, bc, key, 16, &br_sha1_vtable, mkey, 20, 20, NULL);
	int ok = rc.vtable->inner.check_length((const br_sslrec_in_class *const *)&rc.vtable, rlen);
	printf("check_length(%zu) = %d\n", rlen, ok);
	if (!ok) return 0;
	unsigned char *rec = malloc(rlen);   /* exact-size record body */
	memset(rec, 0x41, rlen);
	size_t len = rlen;
	unsigned char *p = rc.vtable->inner.decrypt((const br_sslrec_in_class **)&rc.vtable, 23, 0x0303, rec, &len);
	printf("decrypt -> %p\n", (void *)p);
	return 0;
}
