/*
 * C05_env_hs.h -- environment of ONE native word of the TLS handshake programs
 * (ssl_hs_client.c / ssl_hs_server.c): everything the native reaches outside
 * the generated file is a contract stub at the nearest seam.
 *
 *  link seams   : br_ssl_engine_* (engine data path: C06), br_hmac_drbg_generate,
 *                 br_multihash_* (C13)
 *  pointer seams: X.509 validator class, client certificate handler class, server
 *                 policy / session cache classes, br_ec_impl, RSA / ECDSA functions
 */
#ifndef C05_ENV_HS_H
#define C05_ENV_HS_H

#define C05_OB 8
static unsigned char c05_out[C05_OB];

/* ------------------------------------------------------------------ link seams */
void
br_ssl_engine_fail(br_ssl_engine_context *cc, int err)
{
	if (cc->iomode != BR_IO_FAILED) {
		cc->iomode = BR_IO_FAILED;
		cc->err = err;
	}
}
void br_ssl_engine_flush_record(br_ssl_engine_context *cc) { (void)cc; }
int br_ssl_engine_recvrec_finished(const br_ssl_engine_context *cc) { (void)cc; return ND_U8() & 1; }
void br_ssl_engine_new_max_frag_len(br_ssl_engine_context *cc, unsigned max_frag_len) { (void)cc; (void)max_frag_len; }
void
br_ssl_engine_compute_master(br_ssl_engine_context *cc, int prf_id, const void *pms, size_t len)
{
	(void)cc; (void)prf_id;
	c05_need_r(pms, len);
}
static void
c05_prf(void *dst, size_t len, const void *secret, size_t secret_len, const char *label,
	size_t seed_num, const br_tls_prf_seed_chunk *seed)
{
	size_t u;
	(void)label;
	c05_need_r(secret, secret_len);
	for (u = 0; u < seed_num && u < 2; u ++) c05_need_r(seed[u].data, seed[u].len);
	c05_need_w(dst, len);
}
br_tls_prf_impl br_ssl_engine_get_PRF(br_ssl_engine_context *cc, int prf_id) { (void)cc; (void)prf_id; return &c05_prf; }
void br_ssl_engine_switch_cbc_in(br_ssl_engine_context *cc, int is_client, int prf_id, int mac_id, const br_block_cbcdec_class *bc_impl, size_t cipher_key_len) { (void)cc; (void)is_client; (void)prf_id; (void)mac_id; (void)bc_impl; (void)cipher_key_len; }
void br_ssl_engine_switch_cbc_out(br_ssl_engine_context *cc, int is_client, int prf_id, int mac_id, const br_block_cbcenc_class *bc_impl, size_t cipher_key_len) { (void)cc; (void)is_client; (void)prf_id; (void)mac_id; (void)bc_impl; (void)cipher_key_len; }
void br_ssl_engine_switch_gcm_in(br_ssl_engine_context *cc, int is_client, int prf_id, const br_block_ctr_class *bc_impl, size_t cipher_key_len) { (void)cc; (void)is_client; (void)prf_id; (void)bc_impl; (void)cipher_key_len; }
void br_ssl_engine_switch_gcm_out(br_ssl_engine_context *cc, int is_client, int prf_id, const br_block_ctr_class *bc_impl, size_t cipher_key_len) { (void)cc; (void)is_client; (void)prf_id; (void)bc_impl; (void)cipher_key_len; }
void br_ssl_engine_switch_ccm_in(br_ssl_engine_context *cc, int is_client, int prf_id, const br_block_ctrcbc_class *bc_impl, size_t cipher_key_len, size_t tag_len) { (void)cc; (void)is_client; (void)prf_id; (void)bc_impl; (void)cipher_key_len; (void)tag_len; }
void br_ssl_engine_switch_ccm_out(br_ssl_engine_context *cc, int is_client, int prf_id, const br_block_ctrcbc_class *bc_impl, size_t cipher_key_len, size_t tag_len) { (void)cc; (void)is_client; (void)prf_id; (void)bc_impl; (void)cipher_key_len; (void)tag_len; }
void br_ssl_engine_switch_chapol_in(br_ssl_engine_context *cc, int is_client, int prf_id) { (void)cc; (void)is_client; (void)prf_id; }
void br_ssl_engine_switch_chapol_out(br_ssl_engine_context *cc, int is_client, int prf_id) { (void)cc; (void)is_client; (void)prf_id; }
/* DRBG stand-in: never yields a zero first byte (the non-zero-padding retry loop of make_pms_rsa
   then runs once per byte; further iterations would repeat the same call) */
void
br_hmac_drbg_generate(br_hmac_drbg_context *ctx, void *out, size_t len)
{
	(void)ctx;
	c05_need_w(out, len);
	if (len > 0) {
		((unsigned char *)out)[0] = (unsigned char)(ND_U8() | 1);
	}
}
void br_ccopy(uint32_t ctl, void *dst, const void *src, size_t len) { (void)ctl; c05_need_r(src, len); c05_need_w(dst, len); }
void br_multihash_zero(br_multihash_context *ctx) { (void)ctx; }
void br_multihash_init(br_multihash_context *ctx) { (void)ctx; }
void br_multihash_update(br_multihash_context *ctx, const void *data, size_t len) { (void)ctx; c05_need_r(data, len); }
size_t
br_multihash_out(const br_multihash_context *ctx, int id, void *dst)
{
	/* output length of hash function `id` (documented), 0 when not configured */
	static const unsigned char olen[] = { 0, 16, 20, 28, 32, 48, 64 };
	(void)ctx;
	if (id < 1 || id > 6 || (ND_U8() & 1)) {
		return 0;
	}
	c05_need_w(dst, olen[id]);
	return olen[id];
}

/* ------------------------------------------------------------------ pointer seams */
static unsigned char c05_k1[64], c05_k2[8];
static br_x509_pkey c05_pkey;
static int c05_x_calls;
static void c05_x_start_chain(const br_x509_class **ctx, const char *server_name) { (void)ctx; (void)server_name; c05_x_calls ++; }
static void c05_x_start_cert(const br_x509_class **ctx, uint32_t length) { (void)ctx; (void)length; c05_x_calls ++; }
static void c05_x_append(const br_x509_class **ctx, const unsigned char *buf, size_t len) { (void)ctx; c05_x_calls ++; c05_need_r(buf, len); }
static void c05_x_end_cert(const br_x509_class **ctx) { (void)ctx; c05_x_calls ++; }
static unsigned c05_x_end_chain(const br_x509_class **ctx) { (void)ctx; c05_x_calls ++; return ND_U32(); }
static int c05_pkey_known;      /* the chain was validated: get_pkey returns the key */
static const br_x509_pkey *
c05_x_get_pkey(const br_x509_class *const *ctx, unsigned *usages)
{
	(void)ctx;
	if (usages != 0) {
		*usages = ND_U32();
	}
	if (!c05_pkey_known && (ND_U8() & 1)) {
		return 0;
	}
	return &c05_pkey;
}
/* hash class seam (implementations registered in the multihash context) */
static void c05_h_init(const br_hash_class **hc) { (void)hc; }
static void c05_h_update(const br_hash_class **hc, const void *data, size_t len) { (void)hc; c05_need_r(data, len); }
#define C05_HOUT(n) static void c05_h_out_ ## n(const br_hash_class *const *hc, void *dst) { (void)hc; c05_need_w(dst, n); }
C05_HOUT(16) C05_HOUT(20) C05_HOUT(28) C05_HOUT(32) C05_HOUT(48) C05_HOUT(64)
static br_hash_class c05_hcs[6];      /* MD5, SHA-1, SHA-224, SHA-256, SHA-384, SHA-512: documented output lengths */
static const br_x509_class c05_x_vtable = { sizeof(br_x509_minimal_context), c05_x_start_chain, c05_x_start_cert,
	c05_x_append, c05_x_end_cert, c05_x_end_chain, c05_x_get_pkey };
static const br_x509_class *c05_x_obj = &c05_x_vtable;

static int c05_force_kt;         /* 0: any key type; else the key type the T0 code checked before the word runs */
static void
c05_pkey_setup(void)
{
	ND_BYTES(c05_k1, sizeof c05_k1); ND_BYTES(c05_k2, sizeof c05_k2);
	c05_pkey.key_type = (ND_U8() & 1) ? BR_KEYTYPE_RSA : BR_KEYTYPE_EC;     /* what a validator returns */
	if (c05_force_kt) {
		c05_pkey.key_type = (unsigned char)c05_force_kt;
	}
	if (c05_pkey.key_type == BR_KEYTYPE_EC) {
		size_t q = ND_SIZE();
		ASSUME(q <= 8);
		c05_pkey.key.ec.curve = ND_INT();
		ASSUME(c05_pkey.key.ec.curve >= 0 && c05_pkey.key.ec.curve <= 31);    /* curve identifiers are small (X.509 decoder: 23..25) */
		c05_pkey.key.ec.q = c05_k1;
		c05_pkey.key.ec.qlen = q;
	} else {
		size_t n = ND_SIZE(), e = ND_SIZE();
		ASSUME(n <= 8 && e <= sizeof c05_k2);
		if (c05_force_kt == BR_KEYTYPE_RSA) {
			/* two concrete modulus lengths: 8 bytes (refused as too short) and 64 bytes (accepted), no leading zero */
			n = (ND_U8() & 1) ? 8 : sizeof c05_k1; e = 3;
			ASSUME(c05_k1[0] != 0);
		}
		c05_pkey.key.rsa.n = c05_k1;
		c05_pkey.key.rsa.nlen = n;
		c05_pkey.key.rsa.e = c05_k2;
		c05_pkey.key.rsa.elen = e;
	}
}

/* EC implementation: curve parameters of at most 8 bytes */
static unsigned char c05_ec_buf[8];
static const unsigned char *c05_ec_generator(int curve, size_t *len) { size_t l = ND_SIZE(); (void)curve; ASSUME(l >= 1 && l <= sizeof c05_ec_buf); *len = l; return c05_ec_buf; }
static const unsigned char *c05_ec_order(int curve, size_t *len) { size_t l = ND_SIZE(); (void)curve; ASSUME(l >= 1 && l <= sizeof c05_ec_buf); *len = l; return c05_ec_buf; }
static size_t c05_ec_xoff(int curve, size_t *len) { size_t o = ND_SIZE(), l = ND_SIZE(); (void)curve; ASSUME(o <= 4 && l <= 4); *len = l; return o; }
static uint32_t c05_ec_mul(unsigned char *G, size_t Glen, const unsigned char *x, size_t xlen, int curve) { (void)curve; c05_need_r(x, xlen); c05_need_w(G, Glen); return ND_U32() & 1; }
static size_t c05_ec_mulgen(unsigned char *R, const unsigned char *x, size_t xlen, int curve) { size_t l = ND_SIZE(); (void)curve; ASSUME(l <= 8); c05_need_r(x, xlen); c05_need_w(R, l); return l; }
static uint32_t c05_ec_muladd(unsigned char *A, const unsigned char *B, size_t len, const unsigned char *x, size_t xlen, const unsigned char *y, size_t ylen, int curve)
{ (void)curve; (void)B; c05_need_r(x, xlen); c05_need_r(y, ylen); c05_need_w(A, len); return ND_U32() & 1; }
static br_ec_impl c05_ec;

static uint32_t
c05_irsavrfy(const unsigned char *x, size_t xlen, const unsigned char *hash_oid, size_t hash_len,
	const br_rsa_public_key *pk, unsigned char *hash_out)
{
	(void)hash_oid;
	c05_need_r(x, xlen);
	c05_need_r(pk->n, pk->nlen);
	c05_need_r(pk->e, pk->elen);
	c05_need_w(hash_out, hash_len);
	return ND_U32() & 1;
}
static uint32_t
c05_iecdsa(const br_ec_impl *impl, const void *hash, size_t hash_len, const br_ec_public_key *pk, const void *sig, size_t sig_len)
{
	(void)impl;
	c05_need_r(hash, hash_len);
	c05_need_r(pk->q, pk->qlen);
	c05_need_r(sig, sig_len);
	return ND_U32() & 1;
}

/* certificate chain to send: at most 2 certificates of at most 8 bytes */
static unsigned char c05_cert0[8], c05_cert1[8];
static br_x509_certificate c05_chain[2];
static char c05_pn0[6], c05_pn1[6];
static const char *c05_pnames[2];

static void
c05_engine_env(br_ssl_engine_context *e)
{
	size_t l0 = ND_SIZE(), l1 = ND_SIZE(), k = ND_SIZE(), cl = ND_SIZE(), co = ND_SIZE();
	/* handshake input / output regions */
	C05_IN_REGION(e->hbuf_in, e->hlen_in);
	{
		size_t off_ = ND_SIZE(), n_ = ND_SIZE();
		ASSUME(off_ <= C05_OB && n_ <= C05_OB - off_);
		e->hbuf_out = c05_out + off_; e->hlen_out = n_;
	}
	e->saved_hbuf_out = e->hbuf_out;
	c05_pkey_setup();
	e->x509ctx = &c05_x_obj;
	/* chain cursor: `chain` points into c05_chain with chain_len entries left; current certificate region */
	ASSUME(l0 <= sizeof c05_cert0 && l1 <= sizeof c05_cert1 && k <= 2);
	c05_chain[0].data = c05_cert0; c05_chain[0].data_len = l0;
	c05_chain[1].data = c05_cert1; c05_chain[1].data_len = l1;
	e->chain = c05_chain + k; e->chain_len = 2 - k;
	ASSUME(co <= sizeof c05_cert0 && cl <= sizeof c05_cert0 - co);
	e->cert_cur = c05_cert0 + co; e->cert_len = cl;
	/* ALPN names: at most two strings of at most 5 characters */
	{ size_t i; for (i = 0; i < 5; i ++) { c05_pn0[i] = (char)ND_U8(); c05_pn1[i] = (char)ND_U8(); } c05_pn0[5] = 0; c05_pn1[5] = 0; }
	c05_pnames[0] = c05_pn0; c05_pnames[1] = c05_pn1;
	e->protocol_names = c05_pnames;
	ASSUME(e->protocol_names_num <= 2);
	/* crypto seams */
	ND_BYTES(c05_ec_buf, sizeof c05_ec_buf);
	ASSUME(c05_ec_buf[0] != 0);           /* first byte of a curve order / generator is non-zero */
	c05_ec.supported_curves = ND_U32();
	c05_ec.generator = c05_ec_generator; c05_ec.order = c05_ec_order; c05_ec.xoff = c05_ec_xoff;
	c05_ec.mul = c05_ec_mul; c05_ec.mulgen = c05_ec_mulgen; c05_ec.muladd = c05_ec_muladd;
	if (ND_U8() & 1) { e->iec = &c05_ec; } else { e->iec = 0; }
	if (ND_U8() & 1) { e->irsavrfy = c05_irsavrfy; } else { e->irsavrfy = 0; }
	if (ND_U8() & 1) { e->iecdsa = c05_iecdsa; } else { e->iecdsa = 0; }
	/* hash implementations: each of the six slots empty or a stub class with the documented output length */
	{
		static const unsigned char olen[6] = { 16, 20, 28, 32, 48, 64 };
		size_t i;
		for (i = 0; i < 6; i ++) {
			c05_hcs[i].context_size = sizeof(br_sha512_context);
			c05_hcs[i].desc = (uint32_t)olen[i] << BR_HASHDESC_OUT_OFF;
			c05_hcs[i].init = c05_h_init; c05_hcs[i].update = c05_h_update;
			if (ND_U8() & 1) { e->mhash.impl[i] = &c05_hcs[i]; } else { e->mhash.impl[i] = 0; }
		}
		c05_hcs[0].out = c05_h_out_16; c05_hcs[1].out = c05_h_out_20; c05_hcs[2].out = c05_h_out_28;
		c05_hcs[3].out = c05_h_out_32; c05_hcs[4].out = c05_h_out_48; c05_hcs[5].out = c05_h_out_64;
	}
	/* invariants of the engine fields the natives index with */
	ASSUME(e->ecdhe_point_len <= sizeof e->ecdhe_point);
	ASSUME(e->ecdhe_curve <= 31);                /* set by the T0 code from the supported-curves mask (32 bits) */
	ASSUME(e->session.session_id_len <= sizeof e->session.session_id);
	e->server_name[15] = 0;           /* NUL-terminated (br_ssl_engine_set_server_name / the T0 code); harness bound: at most 15 characters */
}

/* stated call-site preconditions common to both handshake programs */
static void
c05_hs_common_pre(T0N_CTXT *c)
{
	br_ssl_engine_context *e = &c->eng;
	(void)e;
	/* lengths of data assembled in the pad by the T0 code are bounded by its size (length checks in
	   ssl_hs_client.t0 / ssl_hs_server.t0 before the bytes are read) */
#ifdef C05_OP_x509_append
	if (OP == C05_OP_x509_append) { ASSUME(C05_TOP(0) <= sizeof e->pad); }
#endif
#ifdef C05_OP_anchor_dn_append_name
	if (OP == C05_OP_anchor_dn_append_name) { ASSUME(C05_TOP(0) <= sizeof e->pad); }
#endif
#ifdef C05_OP_verify_SKE_sig
	if (OP == C05_OP_verify_SKE_sig) { ASSUME(C05_TOP(0) <= sizeof e->pad); }
#endif
#ifdef C05_OP_verify_CV_sig
	if (OP == C05_OP_verify_CV_sig) { ASSUME(C05_TOP(0) <= sizeof e->pad); }
#endif
#ifdef C05_OP_do_rsa_decrypt
	if (OP == C05_OP_do_rsa_decrypt) { ASSUME(C05_TOP(1) >= 48 && C05_TOP(1) <= sizeof e->pad); }   /* ( len prf_id ): RSA-decrypted value has the modulus length */
#endif
#ifdef C05_OP_do_ecdhe_part2
	if (OP == C05_OP_do_ecdhe_part2) { ASSUME(C05_TOP(1) <= sizeof e->pad); }
#endif
#if defined(C05_KEY_hss) && defined(C05_OP_do_ecdh)
	if (OP == C05_OP_do_ecdh) { ASSUME(C05_TOP(1) <= sizeof e->pad); }
#endif
	/* compute-Finished-inner ( from_client prf_id ): the PRF hash is SHA-256 or SHA-384 */
	if (OP == C05_OP_compute_Finished_inner) { ASSUME(C05_TOP(0) == br_sha256_ID || C05_TOP(0) == br_sha384_ID); }
	/* copy-protocol-name ( idx ): index of a configured ALPN name */
	if (OP == C05_OP_copy_protocol_name) { ASSUME(C05_TOP(0) < e->protocol_names_num); }
	/* value stored into ecdhe_point_len: the point length, checked against the buffer size by the T0 code */
	if (OP == C05_OP_set8 && C05_TOP(0) == offsetof(br_ssl_engine_context, ecdhe_point_len)) { ASSUME(C05_TOP(1) <= sizeof e->ecdhe_point); }
}

/* ================================================================== client */
#if defined(C05_KEY_hsc)
static int c05_ca_calls;
static void c05_ca_start_name_list(const br_ssl_client_certificate_class **p) { (void)p; c05_ca_calls ++; }
static void c05_ca_start_name(const br_ssl_client_certificate_class **p, size_t len) { (void)p; (void)len; c05_ca_calls ++; }
static void c05_ca_append_name(const br_ssl_client_certificate_class **p, const unsigned char *data, size_t len) { (void)p; c05_ca_calls ++; c05_need_r(data, len); }
static void c05_ca_end_name(const br_ssl_client_certificate_class **p) { (void)p; c05_ca_calls ++; }
static void c05_ca_end_name_list(const br_ssl_client_certificate_class **p) { (void)p; c05_ca_calls ++; }
static void
c05_ca_choose(const br_ssl_client_certificate_class **p, const br_ssl_client_context *cc, uint32_t auth_types, br_ssl_client_certificate *choices)
{
	size_t k = ND_SIZE();
	(void)p; (void)cc; (void)auth_types;
	ASSUME(k <= 2);
	choices->auth_type = ND_INT();
	choices->hash_id = ND_INT();
	choices->chain = c05_chain;
	choices->chain_len = k;
}
static uint32_t
c05_ca_do_keyx(const br_ssl_client_certificate_class **p, unsigned char *data, size_t *len)
{
	size_t l = ND_SIZE();
	(void)p;
	ASSUME(l <= *len);
	c05_need_w(data, *len);
	*len = l;
	return ND_U32() & 1;
}
static size_t
c05_ca_do_sign(const br_ssl_client_certificate_class **p, int hash_id, size_t hv_len, unsigned char *data, size_t len)
{
	size_t l = ND_SIZE();
	(void)p; (void)hash_id;
	ASSUME(l <= len);
	c05_need_r(data, hv_len);
	c05_need_w(data, l);
	return l;
}
static const br_ssl_client_certificate_class c05_ca_vtable = { sizeof(br_ssl_client_certificate_rsa_context),
	c05_ca_start_name_list, c05_ca_start_name, c05_ca_append_name, c05_ca_end_name, c05_ca_end_name_list,
	c05_ca_choose, c05_ca_do_keyx, c05_ca_do_sign };
static const br_ssl_client_certificate_class *c05_ca_obj = &c05_ca_vtable;
static uint32_t
c05_irsapub(unsigned char *x, size_t xlen, const br_rsa_public_key *pk)
{
	c05_need_r(pk->n, pk->nlen);
	c05_need_w(x, xlen);
	return ND_U32() & 1;
}
static void
c05_env(T0N_CTXT *c)
{
	/* key type of the validated server certificate, as checked by the T0 code (get-key-type-usages
	   against the cipher suite) before these words run */
	if (OP == C05_OP_do_rsa_encrypt) c05_force_kt = BR_KEYTYPE_RSA;
	if (OP == C05_OP_do_static_ecdh) c05_force_kt = BR_KEYTYPE_EC;
	if (OP == C05_OP_do_ecdh && C05_TOP(1) == 0) c05_force_kt = BR_KEYTYPE_EC;                /* static ECDH */
	if (OP == C05_OP_verify_SKE_sig) c05_force_kt = C05_TOP(1) ? BR_KEYTYPE_RSA : BR_KEYTYPE_EC;   /* use_rsa operand */
	c05_engine_env(&c->eng);
	c05_hs_common_pre(c);
	if (ND_U8() & 1) { c->client_auth_vtable = &c05_ca_obj; } else { c->client_auth_vtable = 0; }
	c->irsapub = c05_irsapub;
	/* stated call-site preconditions (established by the T0 code before these words run) */
	if (OP == C05_OP_do_client_sign || OP == C05_OP_do_static_ecdh) {
		ASSUME(c->client_auth_vtable != 0);      /* a client certificate was selected */
	}
	if (OP == C05_OP_do_ecdh) {
		ASSUME(c->eng.iec != 0);                 /* an EC suite was negotiated */
	}
	/* verify-SKE-sig ( hash use_rsa sig_len ): hash identifier 0 or 2..6 (checked by the T0 code); the
	   verifier for the negotiated suite is configured (suites without one are not offered) */
	if (OP == C05_OP_verify_SKE_sig) {
		ASSUME(C05_TOP(2) == 0 || (C05_TOP(2) >= 2 && C05_TOP(2) <= 6));
		ASSUME(C05_TOP(1) ? c->eng.irsavrfy != 0 : c->eng.iecdsa != 0);
		ASSUME(C05_TOP(1) || C05_TOP(2) != 0);          /* ECDSA: never the MD5+SHA-1 pseudo-hash */
	}
	/* these words run after the server chain was validated: the validator returns the key */
	if (OP == C05_OP_do_ecdh || OP == C05_OP_do_rsa_encrypt || OP == C05_OP_do_static_ecdh
		|| OP == C05_OP_verify_SKE_sig || OP == C05_OP_set_server_curve) {
		c05_pkey_known = 1;
	}
}
#endif

/* ================================================================== server */
#if defined(C05_KEY_hss)
static int c05_pol_calls;
static int
c05_pol_choose(const br_ssl_server_policy_class **p, const br_ssl_server_context *cc, br_ssl_server_choices *choices)
{
	size_t k = ND_SIZE();
	(void)p; (void)cc;
	c05_pol_calls ++;
	ASSUME(k <= 2);
	choices->cipher_suite = ND_U16();
	choices->algo_id = ND_U32();
	choices->chain = c05_chain;
	choices->chain_len = k;
	return ND_INT();
}
static uint32_t
c05_pol_do_keyx(const br_ssl_server_policy_class **p, unsigned char *data, size_t *len)
{
	size_t l = ND_SIZE();
	(void)p;
	ASSUME(l <= *len);
	c05_need_w(data, *len);
	*len = l;
	return ND_U32() & 1;
}
static size_t
c05_pol_do_sign(const br_ssl_server_policy_class **p, unsigned algo_id, unsigned char *data, size_t hv_len, size_t len)
{
	size_t l = ND_SIZE();
	(void)p; (void)algo_id;
	ASSUME(l <= len);
	c05_need_r(data, hv_len);
	c05_need_w(data, l);
	return l;
}
static const br_ssl_server_policy_class c05_pol_vtable = { sizeof(br_ssl_server_policy_rsa_context), c05_pol_choose, c05_pol_do_keyx, c05_pol_do_sign };
static const br_ssl_server_policy_class *c05_pol_obj = &c05_pol_vtable;
static void
c05_cache_save(const br_ssl_session_cache_class **p, br_ssl_server_context *sc, const br_ssl_session_parameters *params)
{
	(void)p; (void)sc;
	CHECK(params == &sc->eng.session, "the cache is handed the session parameters of the engine");
}
static int
c05_cache_load(const br_ssl_session_cache_class **p, br_ssl_server_context *sc, br_ssl_session_parameters *params)
{
	(void)p; (void)sc; (void)params;
	return ND_U8() & 1;
}
static const br_ssl_session_cache_class c05_cache_vtable = { sizeof(br_ssl_session_cache_lru), c05_cache_save, c05_cache_load };
static const br_ssl_session_cache_class *c05_cache_obj = &c05_cache_vtable;
static unsigned char c05_dn0[8];
static br_x500_name c05_names[2];
static br_x509_trust_anchor c05_tas[2];
static void
c05_env(T0N_CTXT *c)
{
	size_t a = ND_SIZE(), b = ND_SIZE(), o = ND_SIZE(), l = ND_SIZE();
	if (OP == C05_OP_do_static_ecdh) c05_force_kt = BR_KEYTYPE_EC;
	c05_engine_env(&c->eng);
	c05_hs_common_pre(c);
	c->policy_vtable = &c05_pol_obj;
	if (ND_U8() & 1) { c->cache_vtable = &c05_cache_obj; } else { c->cache_vtable = 0; }
	/* trust anchor names for the CertificateRequest: at most two, at most 8 bytes */
	ASSUME(a <= sizeof c05_dn0 && b <= sizeof c05_dn0);
	c05_names[0].data = c05_dn0; c05_names[0].len = a;
	c05_names[1].data = c05_dn0; c05_names[1].len = b;
	c05_tas[0].dn = c05_names[0]; c05_tas[1].dn = c05_names[1];
	if (ND_U8() & 1) { c->ta_names = c05_names; } else { c->ta_names = 0; }
	c->tas = c05_tas;
	ASSUME(c->num_tas <= 2);
	ASSUME(o <= sizeof c05_dn0 && l <= sizeof c05_dn0 - o);
	c->cur_dn = c05_dn0 + o; c->cur_dn_len = l;
	/* invariants of the server fields the natives index with */
	ASSUME(c->ecdhe_key_len <= sizeof c->ecdhe_key);
	ASSUME(c->hash_CV_len <= sizeof c->hash_CV);
	ASSUME(c->hash_CV_id == 0 || (c->hash_CV_id >= 2 && c->hash_CV_id <= 6));
	/* sign_hash_id (set from the policy handler's choice): 0xFF00 + hash id (0, 2..6) or a signature scheme */
	ASSUME(c->sign_hash_id < 0xFF00 || (c->sign_hash_id & 0xFF) == 0 || ((c->sign_hash_id & 0xFF) >= 2 && (c->sign_hash_id & 0xFF) <= 6));
	if (OP == C05_OP_do_ecdhe_part1) {
		ASSUME((int32_t)C05_TOP(0) >= 0 && C05_TOP(0) <= 31);      /* curve identifier */
	}
	/* stated call-site preconditions */
	if (OP == C05_OP_do_ecdhe_part1 || OP == C05_OP_do_ecdhe_part2) {
		ASSUME(c->eng.iec != 0);                 /* an ECDHE suite was negotiated */
	}
	/* these words run after the client chain was validated */
	if (OP == C05_OP_verify_CV_sig || OP == C05_OP_do_static_ecdh) {
		c05_pkey_known = 1;
	}
	/* copy-hash-CV: hash identifier 0 (MD5+SHA-1) or 2..6, checked by the T0 code */
	if (OP == C05_OP_copy_hash_CV) {
		ASSUME(C05_TOP(0) == 0 || (C05_TOP(0) >= 2 && C05_TOP(0) <= 6));
	}
}
#endif

static void
c05_post(T0N_CTXT *c, unsigned op)
{
	br_ssl_engine_context *e = &c->eng;
	(void)op;
	CHECK(C05_IN_REGION_OK(e->hbuf_in, e->hlen_in), "handshake input cursor stays inside the region given by the engine");
	CHECK(e->hbuf_out >= c05_out && e->hbuf_out <= c05_out + C05_OB && e->hlen_out <= (size_t)(c05_out + C05_OB - e->hbuf_out),
		"handshake output cursor stays inside the region given by the engine");
	CHECK(e->ecdhe_point_len <= sizeof e->ecdhe_point, "invariant: ecdhe_point_len within ecdhe_point");
}

#endif
