/* placeholder */
static void c05_env(T0N_CTXT *c) { (void)c; }
static void c05_post(T0N_CTXT *c, unsigned op) { (void)c; (void)op; }
