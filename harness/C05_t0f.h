/*
 * C05_t0f.h -- pre-include of the E2-generated file (t0n_<key>.c) for FUNCTIONAL
 * claims about single native words (C03/C04/C07/C15/C16/C18 "t0 parts").
 * Unlike C05_pre.h the string functions are the real loop models (strmodel.c),
 * so that results depend on the memory contents; every stack access of the
 * native is CHECKED to be in range.
 *
 * Usage in a harness:
 *     #define T0N_PRE_INCLUDE "C05_t0f.h"
 *     #include "t0n_<key>.c"          (-I<gen dir> -I/verif/encoders)
 *     ... T0F_PUSH(v), T0F_TOP(k), T0F_RUN(fn, &ctx) ...
 */
#ifndef C05_T0F_H
#define C05_T0F_H
#include "common.h"
#define T0N_ASSUME(c) ASSUME(c)
#define T0N_CHECK(c, m) CHECK(c, m)
#define T0N_GUARD 1
#define T0F_DS(c)     (T0N_STK(c)->dp_stack)
#define T0F_PUSH(c, v)  do { T0F_DS(c)[t0n_dpi] = (uint32_t)(v); t0n_dpi ++; } while (0)
#define T0F_TOP(c, k)   (T0F_DS(c)[t0n_dpi - 1 - (k)])
/* symbolic start depth leaving room for `room` more slots */
#define T0F_DEPTH(room) do { t0n_dpi = ND_U32(); ASSUME(t0n_dpi <= T0N_NDP - (room)); t0n_rpi = ND_U32(); ASSUME(t0n_rpi <= T0N_NRP); } while (0)
/* concrete start depth: with a symbolic depth every operand read back from the stack is an array read at a
   symbolic index, so context offsets become symbolic pointers into the 3-4 kB context (measured: 10x cost);
   independence of the depth is C05's business (per-access range CHECKs, E4) */
#define T0F_DEPTH_AT(k) do { t0n_dpi = (k); t0n_rpi = 4; } while (0)
#endif
