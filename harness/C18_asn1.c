/*
 * C18.a: src/x509/asn1enc.c
 *
 *   -DMODE=1  br_asn1_encode_length for EVERY size_t len (64 bits, symbolic)
 *   -DMODE=2  br_asn1_uint_prepare + br_asn1_encode_uint for every byte
 *             string of XLEN bytes (XLEN concrete, contents symbolic, so
 *             every number of leading zero bytes 0..XLEN occurs)
 *
 * Oracle: the DER reader of C18_der.h (X.690), value semantics on explicit
 * 64-bit integers where they fit.
 */
#include "common.h"
#include "inner.h"
#include "C18_der.h"

#if defined(MODE) && MODE == 4
/*
 * -DMODE=4 (opt-in, see checks/C18.py): strict C11 7.24.1p2 conformance of the
 * memcpy call in br_asn1_encode_uint ("pointer arguments on such a call shall
 * still have valid values" even when n == 0).  asn1enc.c is compiled as part
 * of this translation unit with memcpy bound to a byte-loop model that asserts
 * both pointers are non-null; the native replay links the unmodified file and
 * lets UBSan's nonnull-attribute check speak.  The input is the library's own
 * call pattern for the RSAPrivateKey version field:
 * br_asn1_uint_prepare(NULL, 0) then br_asn1_encode_uint(buf, ...).
 */
#ifndef NATIVE_REPLAY
static void *
c18_memcpy_nonnull(void *d, const void *s, size_t n)
{
	unsigned char *p = d;
	const unsigned char *q = s;
	size_t i;

	CHECK(d != NULL && s != NULL, "memcpy called with a null pointer argument (C11 7.24.1p2, also for n == 0)");
	for (i = 0; i < n; i++) p[i] = q[i];
	return d;
}
#define memcpy c18_memcpy_nonnull
#include "src/x509/asn1enc.c"
#undef memcpy
#endif

int main(void)
{
	unsigned char out[8];
	unsigned char s = ND_U8();
	br_asn1_uint t;
	size_t r;

	c18_fill(out, sizeof out, s);
	t = br_asn1_uint_prepare(NULL, 0);
	r = br_asn1_encode_uint(out, t);
	CHECK(r == 3 && out[0] == 0x02 && out[1] == 0x01 && out[2] == 0x00, "INTEGER 0 is 02 01 00");
	WITNESS_POINT("end");
	return 0;
}
#define C18_ASN1_DONE
#endif

#ifndef C18_ASN1_DONE
#ifndef MODE
#define MODE 2
#endif
#ifndef XLEN
#define XLEN 3
#endif

#if MODE == 1

#define OUTSZ 24

int main(void)
{
	unsigned char out[OUTSZ];
	unsigned char s = ND_U8();
	size_t len = ND_SIZE();
	size_t r0, r1, i;

	for (i = 0; i < OUTSZ; i++) out[i] = s;
	r0 = br_asn1_encode_length(NULL, len);
	r1 = br_asn1_encode_length(out, len);
	CHECK(r0 == r1, "encode_length: announced size (dest == NULL) == returned size when writing");
	CHECK(r1 >= 1 && r1 <= 9, "encode_length: 1..9 octets");
	for (i = 0; i < OUTSZ; i++) {
		if (i >= r1) CHECK(out[i] == s, "encode_length: nothing written beyond the returned size");
	}

	/* X.690 8.1.3 / 10.1 decoded independently, 64-bit */
	{
		uint64_t v = 0;
		size_t used;
		int ok = 1;
		if (out[0] < 0x80) {
			v = out[0];
			used = 1;
		} else {
			unsigned k = out[0] & 0x7F, j;
			if (k == 0 || k > 8) ok = 0;
			for (j = 0; j < 8; j++) {
				if (j < k) v = (v << 8) | out[1 + j];
			}
			used = 1 + (size_t)k;
			if (out[1] == 0) ok = 0;      /* fewest possible length octets */
			if (v < 0x80) ok = 0;         /* short form whenever it fits */
		}
		CHECK(ok, "encode_length: well-formed minimal DER length");
		CHECK(used == r1, "encode_length: returned size == size of the encoded length");
		CHECK(v == (uint64_t)len, "encode_length: decodes to len");
		/* closed form of the size, X.690 10.1 */
		{
			size_t expect = 1;
			if (len >= 0x80) {
				uint64_t t = len;
				for (i = 0; i < 8; i++) { if (t != 0) { expect++; t >>= 8; } }
			}
			CHECK(r0 == expect, "encode_length: size is 1 (<128) or 1 + number of significant octets");
		}
		/* every byte below r1 is determined by len whatever the previous
		   buffer contents (s is symbolic): all of them were written */
	}
	if (len < 0x80) { WITNESS_POINT("short form"); }
	if (len == 0x80) { WITNESS_POINT("first long form value"); }
	if (len > 0xFFFFFFFFu) { WITNESS_POINT("more than 32 bits"); }
	return 0;
}

#elif MODE == 3

/*
 * br_asn1_encode_uint alone on a prepared integer of XLEN >= 1 octets
 * (inner.h contract: data[0] != 0, asn1len = len or len + 1): larger sizes,
 * crossing the 127/128 and 255/256 length-of-length boundaries.
 */
#define OUTSZ (XLEN + 24)

int main(void)
{
	unsigned char x[XLEN];
	unsigned char out[OUTSZ];
	unsigned char s = ND_U8();
	br_asn1_uint t;
	size_t i, r0, r1, hl, cl;

	ND_BYTES(x, XLEN);
	ASSUME(x[0] != 0);
	for (i = 0; i < OUTSZ; i++) out[i] = s;
	t.data = x;
	t.len = XLEN;
	t.asn1len = XLEN + (x[0] >= 0x80 ? 1 : 0);
	r0 = br_asn1_encode_uint(NULL, t);
	r1 = br_asn1_encode_uint(out, t);
	CHECK(r0 == r1, "encode_uint: announced size (dest == NULL) == returned size when writing");
	for (i = 0; i < OUTSZ; i++) {
		if (i >= r1) CHECK(out[i] == s, "encode_uint: nothing written beyond the returned size");
	}
	/* expected bytes, X.690 8.3 + 10.1, both cases spelled out */
	cl = XLEN;
	if (x[0] >= 0x80) cl = XLEN + 1;
	CHECK(out[0] == 0x02, "encode_uint: INTEGER tag");
	if (cl < 0x80) {
		hl = 2;
		CHECK(out[1] == cl, "encode_uint: short-form length");
	} else if (cl < 0x100) {
		hl = 3;
		CHECK(out[1] == 0x81 && out[2] == cl, "encode_uint: 0x81 long-form length");
	} else {
		hl = 4;
		CHECK(out[1] == 0x82 && out[2] == (cl >> 8) && out[3] == (cl & 0xFF), "encode_uint: 0x82 long-form length");
	}
	CHECK(r1 == hl + cl, "encode_uint: size == header + contents");
	for (i = 2; i <= 4; i++) {
		if (hl == i) {
			size_t k;
			if (cl == XLEN + 1) {
				CHECK(out[i] == 0x00, "encode_uint: sign octet");
				for (k = 0; k < XLEN; k++) CHECK(out[i + 1 + k] == x[k], "encode_uint: magnitude octets");
			} else {
				for (k = 0; k < XLEN; k++) CHECK(out[i + k] == x[k], "encode_uint: magnitude octets");
			}
		}
	}
	if (x[0] >= 0x80) { WITNESS_POINT("top bit set"); }
	if (x[0] < 0x80) { WITNESS_POINT("top bit clear"); }
	return 0;
}

#else /* MODE 2 */

#define OUTSZ (XLEN + 24)

int main(void)
{
	unsigned char x[XLEN ? XLEN : 1];
	unsigned char out[OUTSZ];
	unsigned char s = ND_U8();
	br_asn1_uint t;
	size_t i, z, r0, r1;
	int found;

	ND_BYTES(x, XLEN);
	for (i = 0; i < OUTSZ; i++) out[i] = s;

	/* XLEN == 0: the library itself calls prepare(NULL, 0) (version field) */
	t = br_asn1_uint_prepare(XLEN ? x : NULL, XLEN);

	/* specification: z = number of leading zero octets */
	z = 0;
	found = 0;
	for (i = 0; i < XLEN; i++) {
		if (!found) {
			if (x[i] == 0) z++; else found = 1;
		}
	}
	CHECK(t.len == XLEN - z, "uint_prepare: len == xlen minus the number of leading zero octets");
	if (XLEN) CHECK(t.data == x + z, "uint_prepare: data points just after the leading zero octets");
	CHECK(t.len == 0 || t.data[0] != 0, "uint_prepare: minimal-length data (inner.h contract)");
	CHECK(t.asn1len == t.len + ((t.len == 0 || t.data[0] >= 0x80) ? 1u : 0u),
		"uint_prepare: asn1len == len, +1 iff value is zero or top bit set");
#if XLEN <= 8
	{
		/* value semantics on an explicit integer */
		uint64_t v = 0;
		size_t nb = 0, cl = 1;
		for (i = 0; i < XLEN; i++) v = (v << 8) | x[i];
		/* nb: least number of octets with v < 2^(8 nb); cl: least number >= 1
		   of octets with v < 2^(8 cl - 1) (two's complement, non-negative) */
		for (i = 1; i <= 8; i++) {
			if ((v >> (8 * (i - 1))) != 0) nb = i;
		}
		for (i = 1; i <= 8; i++) {
			if ((v >> (8 * i - 1)) != 0) cl = i + 1;
		}
		CHECK(t.len == nb, "uint_prepare: len == least number of octets holding the value");
		CHECK(t.asn1len == cl, "uint_prepare: asn1len == least two's complement INTEGER content length");
	}
#endif

	r0 = br_asn1_encode_uint(NULL, t);
	r1 = br_asn1_encode_uint(out, t);
	CHECK(r0 == r1, "encode_uint: announced size (dest == NULL) == returned size when writing");
	CHECK(r1 <= OUTSZ - 8, "encode_uint: fits");
	for (i = 0; i < OUTSZ; i++) {
		if (i >= r1) CHECK(out[i] == s, "encode_uint: nothing written beyond the returned size");
	}
	{
		rd_t r;
		size_t off, len;
		r.b = out; r.pos = 0; r.end = r1; r.ok = 1;
		rd_uint(&r, &off, &len);
		CHECK(r.ok, "encode_uint: output is a well-formed minimal DER non-negative INTEGER");
		CHECK(rd_done(&r), "encode_uint: returned size == tag + length + contents, nothing else");
		CHECK(len == t.asn1len, "encode_uint: content length == asn1len");
		CHECK(val_eq(out + off, len, x, XLEN, XLEN + 1), "encode_uint: decodes to the same unsigned value");
	}
	if (z == XLEN) { WITNESS_POINT("value zero"); }
#if XLEN > 0
	if (z == 0 && x[0] >= 0x80) { WITNESS_POINT("top bit set, no leading zero"); }
	if (z == 0 && x[0] < 0x80) { WITNESS_POINT("top bit clear, no leading zero"); }
#endif
#if XLEN > 1
	if (z == 1 && x[1] >= 0x80) { WITNESS_POINT("one leading zero then top bit set"); }
	if (z == XLEN - 1) { WITNESS_POINT("only the last octet non-zero"); }
#endif
	return 0;
}

#endif
#endif /* C18_ASN1_DONE */
