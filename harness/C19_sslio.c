/*
 * C19 (ssl_io part): the real src/ssl/ssl_io.c (linked) over the abstract
 * engine model of C19_sslio_model.h, from ANY valid model state, one
 * br_sslio_* call per run (OP):
 *   1 br_sslio_read   2 br_sslio_read_all   3 br_sslio_write
 *   4 br_sslio_write_all   5 br_sslio_flush   6 br_sslio_close
 * CLOSE_RET_DOC=1 additionally checks the documented return value of
 * br_sslio_close ("0 on success, -1 on error").
 * Bounds: buffers of CAP bytes, user length <= LEN_MAX, at most WIN_MAX
 * bytes from low_read and WOUT_MAX bytes to low_write per run (callbacks
 * make progress: 1..len bytes or -1), seven 64-bit choice streams.
 */
#include "common.h"
#include "C19_sslio_model.h"

#ifndef OP
#define OP 1
#endif
#ifndef LEN_MAX
#define LEN_MAX 4
#endif
#ifndef CLOSE_RET_DOC
#define CLOSE_RET_DOC 0
#endif

/* -1 is allowed only: engine closed, or low_write failed after the peer's
   close_notify (ssl_io.c then deliberately does not fail the engine), or -
   for writes - the documented-in-code half-duplex dead end (application data
   must be read first: RECVAPP without SENDAPP) */
static int minus1_allowed(int writing)
{
	unsigned s = m_state();
	if (s == BR_SSL_CLOSED) return 1;
	if (wfail_shut) return 1;
	if (writing && (s & BR_SSL_RECVAPP) && !(s & BR_SSL_SENDAPP)) return 1;
	return 0;
}

int main(void)
{
	br_sslio_context io;
	unsigned char ubuf[LEN_MAX], ubuf0[LEN_MAX];
	m_init();
	for (int i = 0; i < LEN_MAX; i++) ubuf[i] = ubuf0[i] = g_src[i] = ND_U8();
	size_t len = ND_U8();
	ASSUME(len <= LEN_MAX);
	g_src_len = (OP == 3 || OP == 4) ? (unsigned)len : 0;
	br_sslio_init(&io, &eng, low_read, &rd_ctx_tag, low_write, &wr_ctx_tag);
	unsigned c0 = pin_consumed, p0 = pout_n;
	int r;

#if OP == 1
	r = br_sslio_read(&io, ubuf, len);
	m_final_common();
	CHECK(r == -1 || (r >= 0 && (size_t)r <= len), "read: returns -1 or a count <= len");
	if (len == 0) {
		CHECK(r == 0 && ev_acks + ev_flush + ev_close + ev_fail + cb_calls == 0, "read: len 0 returns 0 immediately");
		WITNESS_POINT("read with len 0");
		FINISH();
	}
	CHECK(r != 0, "read: never returns 0 when len > 0 (closure is reported as -1)");
	if (r == -1) {
		CHECK(minus1_allowed(0), "read: -1 only when the engine is closed (or low_write failed after the peer's close_notify)");
		CHECK(pin_consumed == c0, "read: -1 consumes no application data");
		for (int i = 0; i < LEN_MAX; i++) CHECK(ubuf[i] == ubuf0[i], "read: -1 leaves the destination untouched");
		if (m_closed && eng.err == 0) { WITNESS_POINT("read: -1 at clean closure"); }
		if (rfail) { WITNESS_POINT("read: -1 after low_read error"); }
	} else {
		CHECK(pin_consumed == c0 + (unsigned)r, "read: exactly the returned count was consumed from the engine");
		for (int i = 0; i < LEN_MAX; i++) {
			if (i < r) CHECK(ubuf[i] == PIN(c0 + i), "read: returned bytes are the next bytes of the plaintext-in queue, in order");
			else CHECK(ubuf[i] == ubuf0[i], "read: bytes beyond the returned count are untouched");
		}
		if (win_n > 0 && m_phase0 == PH_HS) { WITNESS_POINT("read: data obtained after finishing a handshake"); }
		if (ev_flush > 0) { WITNESS_POINT("read: had to flush buffered output first (shared buffer)"); }
		if (r == LEN_MAX - 1) { WITNESS_POINT("read: several bytes"); }
	}
#elif OP == 2
	r = br_sslio_read_all(&io, ubuf, len);
	m_final_common();
	CHECK(r == 0 || r == -1, "read_all: returns 0 or -1");
	CHECK(pin_consumed - c0 <= len, "read_all: never consumes more than len");
	for (int i = 0; i < LEN_MAX; i++) {
		if ((unsigned)i < pin_consumed - c0) CHECK(ubuf[i] == PIN(c0 + i), "read_all: obtained bytes are the next bytes of the plaintext-in queue, in order");
		else CHECK(ubuf[i] == ubuf0[i], "read_all: bytes beyond the obtained count are untouched");
	}
	if (r == 0) {
		CHECK(pin_consumed == c0 + len, "read_all: 0 only after all len bytes were obtained");
		if (len == LEN_MAX && win_n > 0) { WITNESS_POINT("read_all: LEN_MAX bytes over more than one record"); }
	} else {
		CHECK(minus1_allowed(0), "read_all: -1 only when the engine is closed (or low_write failed after the peer's close_notify)");
		CHECK(pin_consumed - c0 < len, "read_all: -1 only if fewer than len bytes were obtained");
		if (pin_consumed > c0) { WITNESS_POINT("read_all: failure after a partial read"); }
	}
#elif OP == 3
	r = br_sslio_write(&io, ubuf, len);
	m_final_common();
	CHECK(r == -1 || (r >= 0 && (size_t)r <= len), "write: returns -1 or a count <= len");
	CHECK(pin_consumed == c0, "write: consumes no incoming application data");
	if (len == 0) {
		CHECK(r == 0 && ev_acks + ev_flush + ev_close + ev_fail + cb_calls == 0, "write: len 0 returns 0 immediately");
		WITNESS_POINT("write with len 0");
		FINISH();
	}
	CHECK(r != 0, "write: never returns 0 when len > 0");
	if (r == -1) {
		CHECK(minus1_allowed(1), "write: -1 only when the engine is closed, low_write failed after close_notify, or application data must be read first");
		CHECK(pout_n == p0, "write: -1 injects nothing");
		if (!m_closed && !wfail_shut) { WITNESS_POINT("write: -1 because unread application data blocks a shared buffer"); }
		if (wfail && !wfail_shut) { WITNESS_POINT("write: -1 after low_write error"); }
	} else {
		CHECK(pout_n == p0 + (unsigned)r, "write: exactly the returned count was injected (content checked on line by the model)");
		if (wout_n > 0) { WITNESS_POINT("write: a pending record was pushed out first"); }
		if (r == LEN_MAX - 1) { WITNESS_POINT("write: several bytes"); }
	}
	for (int i = 0; i < LEN_MAX; i++) CHECK(ubuf[i] == ubuf0[i], "write: source buffer not modified");
#elif OP == 4
	r = br_sslio_write_all(&io, ubuf, len);
	m_final_common();
	CHECK(r == 0 || r == -1, "write_all: returns 0 or -1");
	CHECK(pin_consumed == c0, "write_all: consumes no incoming application data");
	CHECK(pout_n - p0 <= len, "write_all: never injects more than len");
	if (r == 0) {
		CHECK(pout_n == p0 + len, "write_all: 0 only after all len bytes were injected");
		if (len == LEN_MAX && wout_n >= CAP) { WITNESS_POINT("write_all: LEN_MAX bytes, a full record went out in between"); }
	} else {
		CHECK(minus1_allowed(1), "write_all: -1 only when the engine is closed, low_write failed after close_notify, or application data must be read first");
		CHECK(pout_n - p0 < len, "write_all: -1 only if fewer than len bytes were injected");
		if (pout_n > p0) { WITNESS_POINT("write_all: failure after a partial write"); }
	}
#elif OP == 5
	(void)len;
	r = br_sslio_flush(&io);
	m_final_common();
	CHECK(r == 0 || r == -1, "flush: returns 0 or -1");
	CHECK(pin_consumed == c0 && pout_n == p0, "flush: neither consumes nor injects application data");
	if (r == 0) {
		CHECK(!m_closed, "flush: 0 is not returned on a closed engine");
		CHECK(o_fill == 0 && !out_pending(), "flush: 0 only when all buffered data was accepted by low_write");
		if (ev_acks > 0 && m_phase0 == PH_OPEN) { WITNESS_POINT("flush: buffered data pushed to the wire"); }
		if (cb_calls == 0) { WITNESS_POINT("flush: nothing pending, success without I/O"); }
	} else {
		CHECK(minus1_allowed(0), "flush: -1 only when the engine is closed (or low_write failed after the peer's close_notify)");
		if (wfail_shut) { WITNESS_POINT("flush: -1, low_write failed after the peer's close_notify"); }
		if (m_closed && eng.err == 0) { WITNESS_POINT("flush: -1 at clean closure"); }
	}
#elif OP == 6
	(void)len;
	r = br_sslio_close(&io);
	m_final_common();
	CHECK(m_state() == BR_SSL_CLOSED, "close: the engine is closed on return");
	CHECK(ev_close >= 1, "close: br_ssl_engine_close was called");
	CHECK(pout_n == p0, "close: injects no application data");
	if (eng.err == 0 && m_phase0 != PH_CLOSED) {
		CHECK(o_fill == 0 && !out_pending() && cn_state == 3, "close: clean closure only after everything written earlier and the close_notify went to low_write");
		if (m_phase0 == PH_OPEN && win_n > 0) { WITNESS_POINT("close: full closure protocol from the open state"); }
		if (m_phase0 == PH_PEERCLOSED) { WITNESS_POINT("close: answer to the peer's close_notify sent"); }
	}
	if (eng.err != 0) { WITNESS_POINT("close: closed with an error"); }
	if (pin_consumed > c0) { WITNESS_POINT("close: late application data discarded"); }
#if CLOSE_RET_DOC
	CHECK(r == (eng.err == 0 ? 0 : -1), "close: documented return value, 0 on success and -1 on error");
#endif
#endif
	return 0;
}
