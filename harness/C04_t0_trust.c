/*
 * C04 (T0 part): check-direct-trust (-DMODE=0) and check-trust-anchor-CA
 * (-DMODE=1) of x509_minimal.c (E2 extraction): the port's DYNAMIC trust anchor
 * lookup gives the same verdict as the STATIC anchor table.
 *
 * Two runs of the word from the same validation state (err == 0, decoded EE key,
 * DN hashes, signature state all symbolic):
 *   A: static table of NT <= 2 anchors (DN, flags, RSA or EC key symbolic),
 *      no dynamic callback;
 *   B: empty static table, trust_anchor_dynamic = a lookup that returns, for a
 *      hashed DN, the anchor of the same table whose DN hashes to it (its
 *      dn.data holding the hashed DN, as the port documents), NULL otherwise;
 *      trust_anchor_dynamic_free optional.
 * Claim: same outcome (validation ends with BR_ERR_X509_OK or goes on with err
 * unchanged); the lookup is asked once with the right hash (current_dn_hash for
 * direct trust, saved_dn_hash for CA anchors) and the DN-hash length; the free
 * callback is invoked exactly once per returned anchor, with that anchor.
 * DN hash = toy 2-byte hash class (sum / xor lanes); anchors have pairwise
 * distinct DN hashes; signature verifiers = deterministic stubs keyed by the
 * anchor key they are given.
 */
#define T0N_PRE_INCLUDE "C05_t0f.h"
#define T0N_NO_RUN 1
#include "t0n_x509min.c"
#include "t0n_x509min_ops.h"
void T0N_RUN_FN(void *t0ctx) { (void)t0ctx; }
#ifndef MODE
#define MODE 0
#endif
#define H 2
#define DL 3
#ifndef KL
#define KL 3
#endif

/* toy hash class */
static unsigned char hacc[H];
static void th_init(const br_hash_class **hc) { (void)hc; hacc[0] = 0; hacc[1] = 0x5A; }
static void th_update(const br_hash_class **hc, const void *data, size_t len)
{ size_t i; (void)hc; for (i = 0; i < DL; i ++) if (i < len) { hacc[0] = (unsigned char)(hacc[0] + ((const unsigned char *)data)[i]); hacc[1] = (unsigned char)(((hacc[1] << 1) | (hacc[1] >> 7)) ^ ((const unsigned char *)data)[i]); } }
static void th_out(const br_hash_class *const *hc, void *dst) { (void)hc; ((unsigned char *)dst)[0] = hacc[0]; ((unsigned char *)dst)[1] = hacc[1]; }
static br_hash_class thc;

static unsigned char dn[2][DL], kn[2][KL], ke[2][1], hd[2][H];
static size_t dnl[2];
static br_x509_trust_anchor T[2], D[2];
static size_t NT;
static int lookups, returned, frees, free_ok = 1, look_ok = 1;
static const unsigned char *expect_hash;

static const br_x509_trust_anchor *
dyn(void *dctx, void *hashed_dn, size_t len)
{
	size_t i;
	(void)dctx;
	lookups ++;
	if (len != H || hashed_dn != (void *)expect_hash) look_ok = 0;
	for (i = 0; i < 2; i ++) if (i < NT && ((unsigned char *)hashed_dn)[0] == hd[i][0] && ((unsigned char *)hashed_dn)[1] == hd[i][1]) {
		returned ++;
		return &D[i];
	}
	return 0;
}
static void
dfree(void *dctx, const br_x509_trust_anchor *ta)
{
	(void)dctx;
	frees ++;
	if (ta != &D[0] && ta != &D[1]) free_ok = 0;
}
/* verifiers: verdict depends only on which anchor key they are given */
static int vr[2];
static unsigned char vout[64];
static uint32_t
rsa_v(const unsigned char *x, size_t xlen, const unsigned char *oid, size_t hl, const br_rsa_public_key *pk, unsigned char *out)
{
	size_t i;
	(void)x; (void)xlen; (void)oid;
	for (i = 0; i < 4; i ++) if (i < hl) out[i] = vout[i];
	return (uint32_t)vr[pk->n == kn[0] ? 0 : 1];
}
static uint32_t
ec_v(const br_ec_impl *impl, const void *hash, size_t hl, const br_ec_public_key *pk, const void *sig, size_t sl)
{
	(void)impl; (void)hash; (void)hl; (void)sig; (void)sl;
	return (uint32_t)vr[pk->q == kn[0] ? 0 : 1];
}

struct state {
	unsigned kt, skt, hl; size_t a, b; int curve;
	unsigned char ee[2 * KL], cur[H], sav[H], tbs[4];
	int has_rsa, has_ec, has_free;
};
static void
setup(T0N_CTXT *c, const struct state *s)
{
	size_t i;
	c->err = 0;
	c->dn_hash_impl = &thc;
	c->pkey.key_type = (unsigned char)s->kt;
	for (i = 0; i < 2 * KL; i ++) c->ee_pkey_data[i] = s->ee[i];
	if (s->kt == BR_KEYTYPE_RSA) {
		c->pkey.key.rsa.n = c->ee_pkey_data; c->pkey.key.rsa.nlen = s->a;
		/* split point enumerated: a pointer at a symbolic offset into the 3 kB context costs minutes */
		{ size_t k_; for (k_ = 0; k_ <= KL; k_ ++) if (s->a == k_) c->pkey.key.rsa.e = c->ee_pkey_data + k_; }
		c->pkey.key.rsa.elen = s->b;
	} else {
		c->pkey.key.ec.curve = s->curve; c->pkey.key.ec.q = c->ee_pkey_data; c->pkey.key.ec.qlen = s->a;
	}
	for (i = 0; i < H; i ++) { c->current_dn_hash[i] = s->cur[i]; c->saved_dn_hash[i] = s->sav[i]; }
	for (i = 0; i < 4; i ++) c->tbs_hash[i] = s->tbs[i];
	c->cert_signer_key_type = (unsigned char)s->skt;
	c->cert_sig_hash_len = (unsigned char)s->hl;
	c->cert_sig_hash_oid = 1;
	c->cert_sig_len = 4;
	if (s->has_rsa) { c->irsa = rsa_v; } else { c->irsa = 0; }
	if (s->has_ec) { c->iecdsa = ec_v; } else { c->iecdsa = 0; }
	c->iec = 0;
	c->trust_anchor_dynamic_ctx = 0;
}

int
main(void)
{
	T0N_CTXT ca, cb;
	struct state s;
	size_t i, k;
	int coA, coB, errA, errB;
#ifdef NATIVE_REPLAY
	NATIVE_FILL(&ca, sizeof ca); NATIVE_FILL(&cb, sizeof cb);
#endif
	thc.desc = (uint32_t)H << BR_HASHDESC_OUT_OFF;
	thc.init = th_init; thc.update = th_update; thc.out = th_out;
#ifndef NTA
#define NTA 2
#endif
	NT = NTA;       /* concrete anchor count per query (a symbolic count unrolls the anchor loop to the unwinding bound) */
	for (k = 0; k < 2; k ++) {
		unsigned akt = ND_U8();
		dnl[k] = ND_U8();
		ASSUME(dnl[k] <= DL && (akt == BR_KEYTYPE_RSA || akt == BR_KEYTYPE_EC));
		for (i = 0; i < DL; i ++) dn[k][i] = ND_U8();
		for (i = 0; i < KL; i ++) kn[k][i] = ND_U8();
		ke[k][0] = ND_U8();
		T[k].dn.data = dn[k]; T[k].dn.len = dnl[k];
		T[k].flags = ND_U8() & 1 ? BR_X509_TA_CA : 0;
		T[k].pkey.key_type = (unsigned char)akt;
		if (akt == BR_KEYTYPE_RSA) {
			size_t nl = ND_U8(); ASSUME(nl <= KL);
			T[k].pkey.key.rsa.n = kn[k]; T[k].pkey.key.rsa.nlen = nl; T[k].pkey.key.rsa.e = ke[k]; T[k].pkey.key.rsa.elen = ND_U8() & 1;
		} else {
			size_t ql = ND_U8(); ASSUME(ql <= KL);
			T[k].pkey.key.ec.curve = ND_INT(); T[k].pkey.key.ec.q = kn[k]; T[k].pkey.key.ec.qlen = ql;
		}
		/* reference hash of the DN (what the lookup keys on), and the dynamic form of the anchor */
		th_init(0); th_update(0, dn[k], dnl[k]); hd[k][0] = hacc[0]; hd[k][1] = hacc[1];
		D[k] = T[k];
		D[k].dn.data = hd[k]; D[k].dn.len = H;
		vr[k] = ND_U8() & 1;
	}
	ASSUME(hd[0][0] != hd[1][0] || hd[0][1] != hd[1][1]);        /* pairwise distinct DN hashes */
	for (i = 0; i < 4; i ++) vout[i] = ND_U8();
	s.kt = ND_U8(); s.skt = ND_U8(); s.hl = ND_U8(); s.a = ND_U8(); s.b = ND_U8(); s.curve = ND_INT();
	ASSUME((s.kt == BR_KEYTYPE_RSA || s.kt == BR_KEYTYPE_EC) && s.hl <= 4 && s.a <= KL && s.b <= KL);
	for (i = 0; i < 2 * KL; i ++) s.ee[i] = ND_U8();
	for (i = 0; i < H; i ++) { s.cur[i] = ND_U8(); s.sav[i] = ND_U8(); }
	for (i = 0; i < 4; i ++) s.tbs[i] = ND_U8();
	s.has_rsa = ND_U8() & 1; s.has_ec = ND_U8() & 1; s.has_free = ND_U8() & 1;

	/* run A: static table */
	setup(&ca, &s);
	ca.trust_anchors = T; ca.trust_anchors_num = NT;
	ca.trust_anchor_dynamic = 0; ca.trust_anchor_dynamic_free = 0;
	T0F_DEPTH_AT(6);
	t0n_co = 0;
#if MODE == 0
	C05_DISPATCH(&ca, C05_OP_check_direct_trust);
#else
	C05_DISPATCH(&ca, C05_OP_check_trust_anchor_CA);
#endif
	coA = t0n_co; errA = ca.err;
	CHECK(t0n_dpi == 6, "no stack effect");
	CHECK((coA && errA == BR_ERR_X509_OK) || (!coA && errA == 0), "either validation ends with BR_ERR_X509_OK or err is unchanged");

	/* run B: dynamic lookup */
	setup(&cb, &s);
	cb.trust_anchors = T; cb.trust_anchors_num = 0;
	cb.trust_anchor_dynamic = dyn;
	if (s.has_free) { cb.trust_anchor_dynamic_free = dfree; } else { cb.trust_anchor_dynamic_free = 0; }
#if MODE == 0
	expect_hash = cb.current_dn_hash;
#else
	expect_hash = cb.saved_dn_hash;
#endif
	t0n_co = 0;
#if MODE == 0
	C05_DISPATCH(&cb, C05_OP_check_direct_trust);
#else
	C05_DISPATCH(&cb, C05_OP_check_trust_anchor_CA);
#endif
	coB = t0n_co; errB = cb.err;
	CHECK(lookups == 1 && look_ok, "the dynamic lookup is asked once, with the relevant DN hash of the context and the DN-hash length");
	CHECK(coA == coB && errA == errB, "dynamic lookup gives the same verdict as the static table holding the same anchors");
	CHECK(frees == (s.has_free ? returned : 0) && free_ok, "the free callback is invoked exactly once per returned anchor, with that anchor");
	if (coA) { WITNESS_POINT("anchor accepted"); } else { WITNESS_POINT("no anchor accepted"); }
	if (returned && !coB) { WITNESS_POINT("anchor found but refused"); }
	if (returned && s.has_free) { WITNESS_POINT("anchor freed"); }
	return 0;
}
