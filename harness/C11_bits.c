/*
 * C11.b: br_ecdsa_i15_bits2int / br_ecdsa_i31_bits2int (real
 * src/ec/ecdsa_iNN_bits.c + real decode/rshift/bit_length) against a
 * bit-level statement of RFC 6979 2.3.2 bits2int: the result is the
 * leftmost min(8*hlen, qlen) bits of the hash read as a big-endian integer.
 *
 * IMPL 15|31, BITLEN = qlen (bit length of the order, concrete per query),
 * every hash length HLMIN..HLMAX (concrete loop), hash bytes symbolic.
 * The destination has exactly the size of the arrays in
 * ecdsa_iNN_vrfy_raw.c / sign_raw.c, so CBMC's bounds checks decide that
 * the decoding of a hash longer than the order stays inside them.
 */
#include "common.h"
#include "inner.h"

#ifndef IMPL
#define IMPL 15
#endif
#ifndef BITLEN
#define BITLEN 256
#endif
#ifndef HLMIN
#define HLMIN 0
#endif
#ifndef HLMAX
#define HLMAX 34
#endif

#if IMPL == 15
typedef uint16_t word;
#define WBITS 15
#define WSHIFT 4
#define XLEN ((BR_MAX_EC_SIZE + 29) / 15)      /* I15_LEN of the callers */
#define BITS2INT br_ecdsa_i15_bits2int
#else
typedef uint32_t word;
#define WBITS 31
#define WSHIFT 5
#define XLEN ((BR_MAX_EC_SIZE + 61) / 31)      /* I31_LEN of the callers */
#define BITS2INT br_ecdsa_i31_bits2int
#endif

#define NWORDS ((BITLEN + WBITS - 1) / WBITS)
#define EBITLEN ((uint32_t)(((BITLEN / WBITS) << WSHIFT) + (BITLEN % WBITS)))

int main(void)
{
	for (size_t hl = HLMIN; hl <= HLMAX; hl++) {
		unsigned char hash[HLMAX > 0 ? HLMAX : 1];
		word x[XLEN];
		for (size_t i = 0; i < HLMAX; i++) hash[i] = (i < hl) ? ND_U8() : 0;
		for (size_t i = 0; i < XLEN; i++) x[i] = (word)ND_U32();   /* garbage before the call */

		BITS2INT(x, hash, hl, EBITLEN);

		size_t hbits = 8 * hl;
		size_t sc = hbits > BITLEN ? hbits - BITLEN : 0;   /* bits dropped on the right */
		CHECK(x[0] == EBITLEN, "announced bit length is the order's");
		for (size_t w = 0; w < NWORDS; w++) {
			CHECK((x[1 + w] >> WBITS) == 0, "value words have WBITS bits");
		}
		{
			/* for every bit position i of the result (one symbolic
			   index stands for all of them) */
			size_t i = ND_SIZE();
			if (i < (size_t)NWORDS * WBITS) {
				unsigned got = (unsigned)(x[1 + i / WBITS] >> (i % WBITS)) & 1;
				size_t j = i + sc;                      /* bit j of the hash, 0 = rightmost */
				unsigned want = (j < hbits) ? ((unsigned)(hash[hl - 1 - j / 8] >> (j % 8)) & 1) : 0;
				CHECK(got == want, "bit i of the result is bit i+shift of the hash (leftmost qlen bits kept)");
			}
		}
	}
	WITNESS_POINT("all hash lengths done");
	return 0;
}
