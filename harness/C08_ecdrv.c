/*
 * C08 (g''): CONTROL STRUCTURE of EC scalar multiplication in src/ec/ec_prime_i15.c
 * (api_mul / api_mulgen -> point_decode, point_mul, point_encode, run_code), with
 * every big-integer callee and br_ccopy replaced by an OBSERVATION-ONLY STUB at the
 * link seam (ec_prime_i15.c is translated alone; br_i15_* / br_ccopy are externals):
 *
 *   stub                         logs (public)                         effect on data
 *   br_i15_add / br_i15_sub      a, b (addresses), a[0] (bit length)   value words of a := ND, returns ND&1
 *   br_i15_montymul              d, x, y, m, m[0]                       d[0] := m[0], value words := ND
 *   br_i15_modpow                x, e, elen, m, m[0], t1, t2            value words of x := ND
 *   br_i15_decode_mod            x, src, len, m, m[0]                   x[0] := m[0], value words := ND, returns ND&1
 *   br_i15_encode                dst, len, x                            dst[0..len) := ND
 *   br_i15_iszero                x, x[0]                                returns ND&1
 *   br_ccopy                     dst, src, len   (NOT ctl: it is secret) dst := ctl ? src : dst (functional model)
 *
 * The ctl arguments of add/sub/ccopy are NOT logged (they are secret by design).
 * Run 1 and run 2 therefore differ arbitrarily in data, but must perform the same
 * sequence of calls with the same addresses / lengths and take the same branches.
 * Sound for "branches and addresses of the scalar-multiplication driver do not
 * depend on the scalar or the point" PROVIDED the stubbed callees are themselves
 * constant-time: they are the entry points of the i15_* and ccopy queries of this
 * property (checks/C08.py group (a), (b)).
 * Secret: scalar bytes, point bytes, everything the stubs return.
 * Public: xlen, curve, addresses, bit-length header words.
 */
#include "C08_rt.h"
#include "inner.h"
#include C08_GEN
#ifndef XLEN
#define XLEN 2
#endif
#ifndef CURVE
#define CURVE 23
#endif
#if CURVE == 23
#define GLEN 65
#elif CURVE == 24
#define GLEN 97
#else
#define GLEN 133
#endif
#define I15W ((BR_MAX_EC_SIZE + 29) / 15)

/* value words 1..n of x := ND (n from the public bit-length header, concrete) */
static void nd_words(unsigned char *x, unsigned bitlen)
{
	unsigned n = (bitlen + 15) >> 4;
	uint16_t *w = (uint16_t *)x;
	if (n > I15W) n = I15W;
	for (unsigned u = 1; u <= n; u += 4) {
		uint64_t v = ND_U64();          /* four independent 15-bit words per draw */
		w[u] = (uint16_t)(v & 0x7FFF);
		if (u + 1 <= n) w[u + 1] = (uint16_t)((v >> 16) & 0x7FFF);
		if (u + 2 <= n) w[u + 2] = (uint16_t)((v >> 32) & 0x7FFF);
		if (u + 3 <= n) w[u + 3] = (uint16_t)((v >> 48) & 0x7FFF);
	}
}
static uint32_t s_add(unsigned char *a, unsigned char *b, uint32_t ctl)
{
	(void)ctl;
	OBS_ADDR(1000001, a); OBS_ADDR(1000002, b); OBS_LEN(1000003, ((uint16_t *)a)[0]);
	nd_words(a, ((uint16_t *)a)[0]);
	return ND_U32() & 1;
}
static uint32_t s_sub(unsigned char *a, unsigned char *b, uint32_t ctl)
{
	(void)ctl;
	OBS_ADDR(1000011, a); OBS_ADDR(1000012, b); OBS_LEN(1000013, ((uint16_t *)a)[0]);
	nd_words(a, ((uint16_t *)a)[0]);
	return ND_U32() & 1;
}
static void s_montymul(unsigned char *d, unsigned char *x, unsigned char *y, unsigned char *m, uint16_t m0i)
{
	(void)m0i;
	OBS_ADDR(1000021, d); OBS_ADDR(1000022, x); OBS_ADDR(1000023, y); OBS_ADDR(1000024, m); OBS_LEN(1000025, ((uint16_t *)m)[0]);
	((uint16_t *)d)[0] = ((uint16_t *)m)[0];
	nd_words(d, ((uint16_t *)m)[0]);
}
static void s_modpow(unsigned char *x, unsigned char *e, uint64_t elen, unsigned char *m, uint16_t m0i, unsigned char *t1, unsigned char *t2)
{
	(void)m0i;
	OBS_ADDR(1000031, x); OBS_ADDR(1000032, e); OBS_LEN(1000033, elen); OBS_ADDR(1000034, m); OBS_LEN(1000035, ((uint16_t *)m)[0]);
	OBS_ADDR(1000036, t1); OBS_ADDR(1000037, t2);
	nd_words(x, ((uint16_t *)m)[0]);
}
static uint32_t s_decode_mod(unsigned char *x, unsigned char *src, uint64_t len, unsigned char *m)
{
	OBS_ADDR(1000041, x); OBS_ADDR(1000042, src); OBS_LEN(1000043, len); OBS_ADDR(1000044, m); OBS_LEN(1000045, ((uint16_t *)m)[0]);
	((uint16_t *)x)[0] = ((uint16_t *)m)[0];
	nd_words(x, ((uint16_t *)m)[0]);
	return ND_U32() & 1;
}
static void s_encode(unsigned char *dst, uint64_t len, unsigned char *x)
{
	OBS_ADDR(1000051, dst); OBS_LEN(1000052, len); OBS_ADDR(1000053, x);
	for (uint64_t u = 0; u < len; u++) dst[u] = ND_U8();
}
static uint32_t s_iszero(unsigned char *x)
{
	OBS_ADDR(1000061, x); OBS_LEN(1000062, ((uint16_t *)x)[0]);
	return ND_U32() & 1;
}
static void s_ccopy(uint32_t ctl, unsigned char *dst, unsigned char *src, uint64_t len)
{
	OBS_ADDR(1000071, dst); OBS_ADDR(1000072, src); OBS_LEN(1000073, len);
	uint64_t u = 0;
	if (((len | (uint64_t)IR_PTR_LOWBITS(dst) | (uint64_t)IR_PTR_LOWBITS(src)) & 1) == 0) {
		for (; u < len; u += 2) *(uint16_t *)(dst + u) = (ctl & 1) ? *(uint16_t *)(src + u) : *(uint16_t *)(dst + u);
	}
	for (; u < len; u++) dst[u] = (ctl & 1) ? src[u] : dst[u];
}
/* the externals of the translated ec_prime_i15.c */
uint32_t ir_br_i15_add(unsigned char *a, unsigned char *b, uint32_t ctl) { return s_add(a, b, ctl); }
uint32_t ir_br_i15_sub(unsigned char *a, unsigned char *b, uint32_t ctl) { return s_sub(a, b, ctl); }
void ir_br_i15_montymul(unsigned char *d, unsigned char *x, unsigned char *y, unsigned char *m, uint16_t m0i) { s_montymul(d, x, y, m, m0i); }
void ir_br_i15_modpow(unsigned char *x, unsigned char *e, uint64_t elen, unsigned char *m, uint16_t m0i, unsigned char *t1, unsigned char *t2) { s_modpow(x, e, elen, m, m0i, t1, t2); }
uint32_t ir_br_i15_decode_mod(unsigned char *x, unsigned char *src, uint64_t len, unsigned char *m) { return s_decode_mod(x, src, len, m); }
void ir_br_i15_encode(unsigned char *dst, uint64_t len, unsigned char *x) { s_encode(dst, len, x); }
uint32_t ir_br_i15_iszero(unsigned char *x) { return s_iszero(x); }
void ir_br_ccopy(uint32_t ctl, unsigned char *dst, unsigned char *src, uint64_t len) { s_ccopy(ctl, dst, src, len); }
#ifdef C08_TV
/* the same stand-ins at the real link seam, for the differential run of the real ec_prime_i15.c */
#define UC(p) ((unsigned char *)(p))
uint32_t br_i15_add(uint16_t *a, const uint16_t *b, uint32_t ctl) { return s_add(UC(a), UC(b), ctl); }
uint32_t br_i15_sub(uint16_t *a, const uint16_t *b, uint32_t ctl) { return s_sub(UC(a), UC(b), ctl); }
void br_i15_montymul(uint16_t *d, const uint16_t *x, const uint16_t *y, const uint16_t *m, uint16_t m0i) { s_montymul(UC(d), UC(x), UC(y), UC(m), m0i); }
void br_i15_modpow(uint16_t *x, const unsigned char *e, size_t elen, const uint16_t *m, uint16_t m0i, uint16_t *t1, uint16_t *t2) { s_modpow(UC(x), UC(e), elen, UC(m), m0i, UC(t1), UC(t2)); }
uint32_t br_i15_decode_mod(uint16_t *x, const void *src, size_t len, const uint16_t *m) { return s_decode_mod(UC(x), UC(src), len, UC(m)); }
void br_i15_encode(void *dst, size_t len, const uint16_t *x) { s_encode(UC(dst), len, UC(x)); }
uint32_t br_i15_iszero(const uint16_t *x) { return s_iszero(UC(x)); }
void br_ccopy(uint32_t ctl, void *dst, const void *src, size_t len) { s_ccopy(ctl, UC(dst), UC(src), len); }
#endif

static unsigned char G[GLEN + 1] __attribute__((aligned(16))), x[XLEN + 1];
static uint32_t ret;
static void c08_public(void) { }
static void c08_secret(void)
{
	ND_BYTES(G, GLEN);
	ND_BYTES(x, XLEN);
	ret = 0;
}
static void c08_call(void)
{
#if FN == 1
	ret = ir_api_mul(G, GLEN, x, XLEN, CURVE);
#else
	ret = (uint32_t)ir_api_mulgen(G, x, XLEN, CURVE);
#endif
}
#ifdef C08_TV
static void c08_call_real(void)
{
#if FN == 1
	ret = br_ec_prime_i15.mul(G, GLEN, x, XLEN, CURVE);
#else
	ret = (uint32_t)br_ec_prime_i15.mulgen(G, x, XLEN, CURVE);
#endif
}
static void c08_out(void) { C08_OUT(G, GLEN); C08_OUTV(ret); }
#endif
#include "C08_main.h"
