/*
 * C11: ec_p256_m15.c reduce_final_f256 (the canonicalisation api_muladd's
 * "sum is the point at infinity" test relies on), every input:
 * d = 20 limbs of 13 bits, value < 2p (the documented precondition, met by
 * mul_f256/reduce_f256 outputs).  Decides: returns (d >= p); the result is
 * d - ret*p, canonical (< p, 13-bit limbs); all limbs zero iff d is 0 or p.
 */
#include "common.h"
#include "inner.h"
#include "src/ec/ec_p256_m15.c"

/* a < b on 20 limbs of 13 bits (little-endian) */
static int
lt20(const uint32_t *a, const uint32_t *b)
{
	int i, lt = 0, decided = 0;

	for (i = 19; i >= 0; i --) {
		if (!decided && a[i] != b[i]) {
			lt = a[i] < b[i];
			decided = 1;
		}
	}
	return lt;
}

int
main(void)
{
	uint32_t d[20], d0[20], p2[20], s[20];
	uint32_t r, cc, z, z0, isp;
	int i;

	cc = 0;
	for (i = 0; i < 20; i ++) {
		uint32_t w = (F256[i] << 1) + cc;
		p2[i] = w & 0x1FFF;
		cc = w >> 13;
	}
	ASSUME(cc == 0);
	for (i = 0; i < 20; i ++) {
		d[i] = ND_U32();
		ASSUME(d[i] <= 0x1FFF);
		d0[i] = d[i];
	}
	ASSUME(lt20(d, p2));

	r = reduce_final_f256(d);

	CHECK(r == (uint32_t)!lt20(d0, F256), "returns 1 exactly when the value is not lower than p");
	z = 0;
	for (i = 0; i < 20; i ++) {
		CHECK(d[i] <= 0x1FFF, "limbs stay 13 bits");
		z |= d[i];
	}
	CHECK(lt20(d, F256), "result is canonical (< p)");
	cc = 0;
	for (i = 0; i < 20; i ++) {
		uint32_t w = d[i] + (r ? F256[i] : 0) + cc;
		s[i] = w & 0x1FFF;
		cc = w >> 13;
	}
	z0 = 0;
	isp = 1;
	for (i = 0; i < 20; i ++) {
		CHECK(s[i] == d0[i], "result == input - ret*p");
		z0 |= d0[i];
		isp &= (d0[i] == F256[i]);
	}
	CHECK(cc == 0, "no carry out");
	CHECK((z == 0) == (z0 == 0 || isp), "all limbs zero exactly when the input is 0 mod p");
	WITNESS_POINT("reduce_final_f256 lemma ran to the end");
	return 0;
}
