/*
 * C10.5b: gates and CRT recombination of the RSA private operation,
 * br_rsa_iNN_private (real src/rsa/rsa_iNN_priv.c with the real
 * src/int/iNN_*.c big-integer code at toy sizes), C10_IMPL in {15,31,32,62}.
 *
 * The factors are CONCRETE per query (C10_P, C10_Q, stored in C10_PL / C10_QL
 * bytes, i.e. with leading zero bytes when PL/QL are larger than needed):
 * with symbolic factors every word count inside the big-integer code becomes
 * symbolic and symbolic execution does not finish (measured).  x is symbolic.
 *
 * C10_REAL_MODPOW=0 (default): the two modular exponentiations are replaced
 * at the link seam by the identity stand-in of C10_modpow_stub.h; dp, dq
 * symbolic.  Decided:
 *   - returns 1 <=> x < p*q numerically, p odd and q odd;
 *   - nothing is written outside the ceil(n_bitlen/8) bytes of x;
 *   - C10_CRT=1, for odd coprime p, q and iq == 1/q mod p (C10_IQ, checked
 *     in the harness): the CRT recombination s2 + q*((s1 - s2)*iq mod p) of
 *     (x mod p, x mod q) gives x back, for every x < p*q.
 * C10_REAL_MODPOW=1: real exponentiation, C10_DP, C10_DQ, C10_E concrete and
 *   checked consistent in the harness (e*dp == 1 mod p-1, ...):
 *   C10_ORDER 0/1: public(private(x)) == x / private(public(x)) == x for
 *   every x < n; C10_ORDER 2: private(x)^e mod n == x with the public side
 *   done in explicit integer arithmetic (needs n < 2^32).
 * C10_BIGF=1: a factor of C10_PL bytes with first byte 0x80, longer than the
 *   implementation supports: returns 0.
 */
#include "common.h"
#include "inner.h"

#ifndef C10_IMPL
#define C10_IMPL 15
#endif
#if C10_IMPL == 15
#define PRIV br_rsa_i15_private
#define PUB  br_rsa_i15_public
#elif C10_IMPL == 31
#define PRIV br_rsa_i31_private
#define PUB  br_rsa_i31_public
#elif C10_IMPL == 32
#define PRIV br_rsa_i32_private
#define PUB  br_rsa_i32_public
#else
#define PRIV br_rsa_i62_private
#define PUB  br_rsa_i62_public
#endif
#ifndef C10_P
#define C10_P 251
#endif
#ifndef C10_Q
#define C10_Q 241
#endif
#ifndef C10_PL
#define C10_PL 1
#endif
#ifndef C10_QL
#define C10_QL 1
#endif
#ifndef C10_NBITS
#define C10_NBITS 16
#endif
#ifndef C10_IQ
#define C10_IQ 0
#endif
#ifndef C10_BIGF
#define C10_BIGF 0
#endif
#ifndef C10_CRT
#define C10_CRT 0
#endif
#if C10_CRT && C10_IQ == 0
#error "C10_CRT needs C10_IQ"
#endif
#define XL ((C10_NBITS + 7) / 8)
#define NN ((uint64_t)C10_P * (uint64_t)C10_Q)

#include "C10_modpow_stub.h"

static void put_be(unsigned char *d, int len, uint64_t v)
{
	for (int i = len - 1; i >= 0; i--) { d[i] = (unsigned char)v; v >>= 8; }
}

int main(void)
{
	unsigned char p[C10_PL + 1], q[C10_QL + 1], dp[5], dq[5], iq[5], x[XL + 1], x0[XL + 1];
	br_rsa_private_key sk;
	int i;

	put_be(p, C10_PL, C10_P);
	put_be(q, C10_QL, C10_Q);
	put_be(iq, 4, C10_IQ);
#if C10_REAL_MODPOW
	put_be(dp, 4, C10_DP);
	put_be(dq, 4, C10_DQ);
#else
	ND_BYTES(dp, 4);
	ND_BYTES(dq, 4);
#endif
	for (i = 0; i < XL + 1; i++) x[i] = x0[i] = ND_U8();
#if C10_BIGF
	ND_BYTES(p, C10_PL);
	p[0] = 0x80;
#endif
	sk.n_bitlen = C10_NBITS;
	sk.p = p; sk.plen = C10_PL; sk.q = q; sk.qlen = C10_QL;
	sk.dp = dp; sk.dplen = 4; sk.dq = dq; sk.dqlen = 4; sk.iq = iq; sk.iqlen = 4;

#if C10_BIGF
	uint32_t r = PRIV(x, &sk);
	CHECK(r == 0, "private returns 0 for an over-long factor");
	CHECK(x[XL] == x0[XL], "private writes nothing past the modulus length");
	WITNESS_POINT("over-long factor refused");
	return 0;
#else
	uint64_t X = 0, Y = 0;
	for (i = 0; i < XL; i++) X = (X << 8) | x0[i];
	/* the harness parameters describe a structurally consistent key */
	CHECK((NN >> (C10_NBITS - 1)) == 1, "harness: n_bitlen is the bit length of p*q");
	int valid = (C10_P & 1) && (C10_Q & 1);
#if C10_IQ != 0
	CHECK(((uint64_t)C10_IQ * C10_Q) % C10_P == 1, "harness: iq == 1/q mod p");
#endif

#if !C10_REAL_MODPOW
	uint32_t r = PRIV(x, &sk);
	for (i = 0; i < XL; i++) Y = (Y << 8) | x[i];
	CHECK(r == 0 || r == 1, "private returns 0 or 1");
	CHECK(x[XL] == x0[XL], "private writes nothing past the modulus length");
	CHECK((r == 1) == (X < NN && valid), "private succeeds iff x < p*q, p odd, q odd");
	if (r) {
#if C10_CRT
		CHECK(Y == X, "CRT recombination of (x mod p, x mod q) gives x back");
#endif
#if (C10_P & 1) && (C10_Q & 1)
		WITNESS_POINT("private succeeds");
#endif
	} else {
		WITNESS_POINT("private refuses");
	}
	return 0;
#else
	/* real arithmetic: the two operations are mutual inverses */
	unsigned char n[XL], e[4];
	br_rsa_public_key pk;
	put_be(n, XL, NN);
	put_be(e, 4, C10_E);
	pk.n = n; pk.nlen = XL; pk.e = e; pk.elen = 4;
	CHECK(((uint64_t)C10_E * C10_DP) % (C10_P - 1) == 1, "harness: e*dp == 1 mod p-1");
	CHECK(((uint64_t)C10_E * C10_DQ) % (C10_Q - 1) == 1, "harness: e*dq == 1 mod q-1");
	ASSUME(X < NN);
#if C10_ORDER == 2
	/* private operation alone, public side = explicit integer arithmetic:
	   the result is the e-th root of x modulo n */
	uint32_t r1 = PRIV(x, &sk);
	CHECK(r1 == 1, "private succeeds on x < n");
	for (i = 0; i < XL; i++) Y = (Y << 8) | x[i];
	CHECK(Y < NN, "private result is below n");
	{
		uint64_t R = 1 % NN, B = Y % NN;
		uint32_t ee = C10_E;
		for (i = 0; i < 32; i++) { if (ee & 1) R = (R * B) % NN; B = (B * B) % NN; ee >>= 1; }
		CHECK(R == X, "private(x)^e mod n == x (integer reference)");
	}
	CHECK(x[XL] == x0[XL], "nothing written past the modulus length");
	(void)pk;
	WITNESS_POINT("private result checked against integer arithmetic");
	return 0;
#elif C10_ORDER == 0
	uint32_t r1 = PRIV(x, &sk);
	uint32_t r2 = PUB(x, XL, &pk);
#else
	uint32_t r2 = PUB(x, XL, &pk);
	uint32_t r1 = PRIV(x, &sk);
#endif
#if C10_ORDER != 2
	CHECK(r1 == 1 && r2 == 1, "both operations succeed on x < n");
	for (i = 0; i < XL; i++) CHECK(x[i] == x0[i], "public and private operations are mutual inverses");
	CHECK(x[XL] == x0[XL], "nothing written past the modulus length");
	WITNESS_POINT("inverse pair checked");
	return 0;
#endif
#endif
#endif
}
