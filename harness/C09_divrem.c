/* C09: br_divrem / br_rem / br_div (real src/int/i32_div32.c).
 *
 * Documented contract (inner.h): hi:lo divided by d, quotient returned,
 * remainder in *r; precondition hi <= d; for hi == d the quotient does not
 * fit and "is thus truncated" (i.e. its low 32 bits are returned; the
 * remainder is still exact); hi > d is outside the contract.
 *
 * Two independent references, selected per query:
 *  default   multiplication form on 64-bit integers: r < d and q*d + r == hi:lo
 *            (unique).  Needs a 32x32 multiplier circuit: only finishes with a
 *            bounded divisor (-DDMAX=...).
 *  REF_LONG  text-book long division on the 64-bit dividend, one quotient bit
 *            per step (subtract d*2^k when it fits; no multiplication, no '/'):
 *            all 2^96 inputs.  -DREF_SELFCHECK checks that text-book loop
 *            itself against the multiplication form (bounded d), so the
 *            reference is not taken on faith.
 *  HI_EQ_D   the documented hi == d case.
 *  DMAX / QBITS  bound the divisor (d < DMAX) / the quotient (< 2^QBITS).
 *  LAWK=k    one step of an induction over the quotient length (splitting
 *            law of long division, both sides are the real function):
 *            k = -1: N < d gives (0, N);  k >= 0: for N < d*2^(k+1),
 *            F(N) = (b<<k | F(N - b*d*2^k).q, F(N - b*d*2^k).r), b = [N >= d*2^k].
 *            LAWK = -1, 0, ..., k together decide F for every N < d*2^(k+1),
 *            i.e. every divisor and every quotient below 2^(k+1).
 */
#include "common.h"
#include "inner.h"

/* long division of N = hi:lo by d (hi <= d): for every quotient bit k from
   the top, subtract d*2^k from N when it fits.  hi == d: bit 32 of the
   quotient is dropped first (documented truncation). */
static uint32_t
ref_long(uint32_t hi, uint32_t lo, uint32_t d, uint32_t *r)
{
	uint64_t n = ((uint64_t)hi << 32) | lo;
	uint32_t q = 0;
	if (hi == d) n -= (uint64_t)d << 32;
	for (int k = 31; k >= 0; k--) {
		uint64_t dk = (uint64_t)d << k;
		if (n >= dk) { n -= dk; q |= (uint32_t)1 << k; }
	}
	*r = (uint32_t)n;
	return q;
}

int main(void)
{
	uint32_t hi = ND_U32(), lo = ND_U32(), d = ND_U32(), r = 0, r2 = 0;
#ifdef DMAX
	ASSUME(d < DMAX);
#endif
#ifdef HI_EQ_D
	ASSUME(hi == d && d != 0);
#else
	ASSUME(hi < d);
#endif
	uint64_t n = ((uint64_t)hi << 32) | lo;
#ifdef QBITS
	ASSUME(n < ((uint64_t)d << QBITS));	/* quotient below 2^QBITS */
#endif
#if defined(LAWK)
#if LAWK < 0
	ASSUME(hi == 0 && lo < d);
	uint32_t q = br_divrem(hi, lo, d, &r);
	CHECK(q == 0 && r == lo, "N < d: quotient 0, remainder N");
#else
	uint64_t dk = (uint64_t)d << LAWK;
#if LAWK < 31
	ASSUME(n < (dk << 1));
#endif
	uint32_t b = n >= dk;
	uint64_t n2 = b ? n - dk : n;
	uint32_t q = br_divrem(hi, lo, d, &r);
	uint32_t q2 = br_divrem((uint32_t)(n2 >> 32), (uint32_t)n2, d, &r2);
	CHECK(q == ((b << LAWK) | q2), "splitting law: quotient");
	CHECK(r == r2, "splitting law: remainder");
#endif
#elif defined(REF_SELFCHECK)
	uint32_t q = ref_long(hi, lo, d, &r);
	CHECK(r < d, "reference: remainder below divisor");
#ifdef HI_EQ_D
	CHECK((uint64_t)q * d + r + ((uint64_t)d << 32) == n, "reference: (2^32+q)*d + r == hi:lo");
#else
	CHECK((uint64_t)q * d + r == n, "reference: q*d + r == hi:lo");
#endif
#else
	uint32_t q = br_divrem(hi, lo, d, &r);
#ifdef T_WRAP
	CHECK(br_rem(hi, lo, d) == r, "br_rem returns the remainder of br_divrem");
	CHECK(br_div(hi, lo, d) == q, "br_div returns the quotient of br_divrem");
#endif
#ifdef REF_LONG
	uint32_t q2 = ref_long(hi, lo, d, &r2);
	CHECK(r == r2, "remainder equals long-division remainder");
	CHECK(q == q2, "quotient equals long-division quotient (mod 2^32)");
#else
	CHECK(r < d, "remainder below divisor");
#ifdef HI_EQ_D
	/* true quotient is 2^32 + q' with q' < 2^32; truncated value is q' */
	CHECK((uint64_t)q * d + r + ((uint64_t)d << 32) == n, "hi == d: (2^32+q)*d + r == hi:lo");
#else
	CHECK((uint64_t)q * d + r == n, "q*d + r == hi:lo");
#endif
#endif
#endif
	WITNESS_POINT("end");
	return 0;
}
