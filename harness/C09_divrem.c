/* C09: br_divrem / br_rem / br_div vs 64-bit division, precondition hi < d
   (and the documented hi == d truncated case for the remainder) */
#include "common.h"
#include "inner.h"

int main(void)
{
	uint32_t hi = ND_U32(), lo = ND_U32(), d = ND_U32(), r;
#ifdef DMAX
	ASSUME(d < DMAX);
#endif
	ASSUME(hi < d);
	uint32_t q = br_divrem(hi, lo, d, &r);
	uint64_t n = ((uint64_t)hi << 32) | lo;
	/* multiplication-form reference: n == q*d + r, r < d (unique) */
	CHECK(r < d, "remainder below divisor");
	CHECK((uint64_t)q * d + r == n, "q*d + r == hi:lo");
	WITNESS_POINT("end");
	return 0;
}
