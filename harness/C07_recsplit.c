/*
 * C07.b: the record layer of the real ssl_engine.c assembles incoming records
 * independently of how the transport chunks them: from any engine state in
 * which input is accepted (record header phase, or body of an encrypted
 * record), acknowledging a bytes and then b bytes leaves the engine in exactly
 * the same state as acknowledging a+b bytes at once - including when the
 * split falls inside the 5-byte record header.
 *
 * Two contexts over two equal buffers are run side by side.  The record
 * decryption stub and the handshake-coroutine stub are deterministic
 * functions of their inputs (same answers in both runs).
 * (Clear-text record bodies are handed to the T0 coroutine chunk by chunk;
 * its chunk independence is the T0-level part of C07.)
 */
#include "common.h"
#include "inner.h"

#ifndef ILEN
#define ILEN 837
#endif

static unsigned char buf1[ILEN], buf2[ILEN];
static size_t st_cl_min, st_cl_max, st_off, st_pl;
static int st_dec_null;
static int dec_calls[2], hs_calls[2], which;

static int stub_check_length(const br_sslrec_in_class *const *ctx, size_t rlen) { (void)ctx; return rlen >= st_cl_min && rlen <= st_cl_max; }
static unsigned char *stub_decrypt(const br_sslrec_in_class **ctx, int type, unsigned ver, void *data, size_t *len)
{
	(void)ctx; (void)type; (void)ver;
	dec_calls[which]++;
	if (st_dec_null) return NULL;
	size_t off = st_off <= *len ? st_off : *len;
	size_t pl = st_pl <= *len - off ? st_pl : *len - off;
	*len = pl;
	return (unsigned char *)data + off;
}
static const br_sslrec_in_class stub_in_vtable = { sizeof(br_sslrec_in_cbc_context), stub_check_length, stub_decrypt };
static br_ssl_engine_context *ctxs[2];
static void stub_hsrun(void *t0ctx)
{
	br_ssl_engine_context *cc = ctxs[which];
	(void)t0ctx;
	hs_calls[which]++;
	if (cc->hlen_in > 0) { cc->hbuf_in += cc->hlen_in; cc->hlen_in = 0; }   /* consumes all offered input, deterministic */
}

static void setup(br_ssl_engine_context *cc, unsigned char *buf, const br_ssl_engine_context *src)
{
	cc->ibuf = buf; cc->obuf = buf; cc->ibuf_len = ILEN; cc->obuf_len = ILEN;
	cc->iomode = src->iomode; cc->err = src->err; cc->incrypt = src->incrypt;
	cc->ixa = src->ixa; cc->ixb = src->ixb; cc->ixc = src->ixc;
	cc->oxa = src->oxa; cc->oxb = src->oxb; cc->oxc = src->oxc;
	cc->record_type_in = src->record_type_in; cc->record_type_out = src->record_type_out;
	cc->version_in = src->version_in; cc->version_out = src->version_out;
	cc->application_data = src->application_data; cc->shutdown_recv = 0;
	cc->max_frag_len = 512;
	cc->hsrun = stub_hsrun;
	cc->in.vtable = &stub_in_vtable;
	cc->out.vtable = &br_sslrec_out_clear_vtable;
	cc->hbuf_in = NULL; cc->hbuf_out = NULL; cc->saved_hbuf_out = NULL; cc->hlen_in = 0; cc->hlen_out = 0; cc->action = 0;
}

int main(void)
{
	br_ssl_engine_context c1, c2, s;
#ifdef NATIVE_REPLAY
	NATIVE_FILL(&c1, sizeof c1); NATIVE_FILL(&c2, sizeof c2); NATIVE_FILL(&s, sizeof s);
#endif
	s.iomode = ND_U8(); s.err = 0; s.incrypt = ND_U8() & 1;
	s.ixa = ND_SIZE(); s.ixb = s.ixa; s.ixc = ND_SIZE();
	s.oxa = 5; s.oxb = 5 + 512; s.oxc = 5;
	s.record_type_in = ND_U8(); s.record_type_out = ND_U8();
	s.version_in = ND_U16(); s.version_out = ND_U16();
	s.application_data = ND_U8() % 3;
	st_cl_min = ND_SIZE(); st_cl_max = ND_SIZE(); st_off = ND_SIZE(); st_pl = ND_SIZE(); st_dec_null = ND_U8() & 1;
	/* states in which the transport may push bytes (C06 invariant, input side) */
	ASSUME(s.iomode == BR_IO_IN || s.iomode == BR_IO_INOUT);
	ASSUME(s.iomode == BR_IO_INOUT ? (s.ixa == 0 && s.ixc == 5) : 1);
	if (s.ixa < 5) { ASSUME(s.ixc == 5 - s.ixa); }
	else { ASSUME(s.incrypt && s.ixc >= 1 && s.ixc <= ILEN && s.ixa <= ILEN - s.ixc); }
	for (int i = 0; i < 5; i++) { unsigned char b = ND_U8(); buf1[i] = b; buf2[i] = b; }
	setup(&c1, buf1, &s); setup(&c2, buf2, &s);
	ctxs[0] = &c1; ctxs[1] = &c2;

	size_t len1, len2;
	unsigned char *p1 = br_ssl_engine_recvrec_buf(&c1, &len1);
	unsigned char *p2 = br_ssl_engine_recvrec_buf(&c2, &len2);
	ASSUME(p1 != NULL);
	CHECK(p2 != NULL && len1 == len2 && (p1 - buf1) == (p2 - buf2), "same offer in both runs");
	size_t a = ND_SIZE(), b = ND_SIZE();
	ASSUME(a >= 1 && b >= 1 && a <= len1 && b <= len1 - a);
	/* the transport writes the same bytes in both runs (only header bytes are read by the engine) */
	{
		size_t o = (size_t)(p1 - buf1);
		for (size_t i = 0; i < 5; i++) if (o + i < 5 && i < a + b) { unsigned char x = ND_U8(); buf1[o + i] = x; buf2[o + i] = x; }
	}
	which = 0;
	br_ssl_engine_recvrec_ack(&c1, a);
	{
		size_t l; unsigned char *q = br_ssl_engine_recvrec_buf(&c1, &l);
		CHECK(!br_ssl_engine_closed(&c1), "a proper prefix of the offered bytes never completes (or fails) a header or record");
		CHECK(q == p1 + a && l >= b, "after a partial acknowledge the engine asks for the following bytes");
		br_ssl_engine_recvrec_ack(&c1, b);
	}
	which = 1;
	br_ssl_engine_recvrec_ack(&c2, a + b);
	CHECK(c1.iomode == c2.iomode && c1.err == c2.err, "same mode and error");
	CHECK(c1.ixa == c2.ixa && c1.ixb == c2.ixb && c1.ixc == c2.ixc, "same input registers");
	CHECK(c1.record_type_in == c2.record_type_in && c1.version_in == c2.version_in, "same record type and version");
	CHECK(dec_calls[0] == dec_calls[1] && hs_calls[0] == hs_calls[1], "same record-layer and coroutine activity");
	if (dec_calls[0]) { WITNESS_POINT("record completed and decrypted"); }
	if (s.ixa < 5 && s.ixa + a + b == 5) { WITNESS_POINT("split inside the header"); }
	WITNESS_POINT("end");
	return 0;
}
