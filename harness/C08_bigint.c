/*
 * C08 (b): big-integer kernels br_i15_* / br_i31_* (-DIW=15|31, -DFN=<n>,
 * -DBITS=<announced bit length of the modulus>, -DELEN exponent bytes,
 * -DSLEN source bytes, -DTW window buffer words).
 * Secret: every value word of every operand (x, y, modulus words, m0i),
 * exponent bytes, source bytes, ctl.  Public: the announced bit length header
 * word (x[0] = m[0] = BITS), the byte/word lengths, buffer addresses.
 */
#include "C08_rt.h"
#include C08_GEN
#ifdef C08_TV
#include "inner.h"
#endif
#ifndef IW
#define IW 15
#endif
#ifndef BITS
#define BITS 42
#endif
#ifndef ELEN
#define ELEN 2
#endif
#ifndef SLEN
#define SLEN 7
#endif
#if IW == 15
typedef uint16_t W;
#define WMASK 0x7FFFu
#define LEN ((BITS + 15) >> 4)
#define R(f) br_i15_##f
#define I(f) ir_br_i15_##f
#else
typedef uint32_t W;
#define WMASK 0x7FFFFFFFu
#define LEN ((BITS + 31) >> 5)
#define R(f) br_i31_##f
#define I(f) ir_br_i31_##f
#endif
#ifndef TW
#define TW (2 * (LEN + 2))
#endif
#define NWA (LEN + 5)
#define P(x) ((unsigned char *)(x))

static W x[NWA] __attribute__((aligned(8))), y[NWA] __attribute__((aligned(8))), m[NWA] __attribute__((aligned(8)));
static W d[NWA] __attribute__((aligned(8))), t1[NWA] __attribute__((aligned(8))), t2[NWA] __attribute__((aligned(8)));
static W tmp[TW + 4] __attribute__((aligned(8)));
static unsigned char e[ELEN + 1], src[SLEN + 1], dst[SLEN + 1];
static W m0i, z;
static uint32_t ctl, ret;

static void c08_public(void) { }
static void c08_secret(void)
{
	for (int i = 0; i < NWA; i++) {
		x[i] = (W)(ND_U32() & WMASK);
		y[i] = (W)(ND_U32() & WMASK);
		m[i] = (W)(ND_U32() & WMASK);
		d[i] = 0; t1[i] = 0; t2[i] = 0;
	}
	for (int i = 0; i < TW + 4; i++) tmp[i] = 0;
	x[0] = y[0] = m[0] = BITS;          /* announced bit length: public */
	m[1] |= 1;
	m0i = (W)(ND_U32() & WMASK);
	z = (W)(ND_U32() & WMASK);
	ctl = ND_U32() & 1;
	ND_BYTES(e, ELEN);
	ND_BYTES(src, SLEN);
	for (int i = 0; i < SLEN + 1; i++) dst[i] = 0;
	ret = 0;
}
static void c08_call(void)
{
#if FN == 1
	ret = I(add)(P(x), P(y), ctl);
#elif FN == 2
	ret = I(sub)(P(x), P(y), ctl);
#elif FN == 3
	I(montymul)(P(d), P(x), P(y), P(m), m0i);
#elif FN == 4
	I(muladd_small)(P(x), z, P(m));
#elif FN == 5
	ret = I(decode_mod)(P(x), src, SLEN, P(m));
#elif FN == 6
	I(encode)(dst, SLEN, P(x));
#elif FN == 7
	I(modpow)(P(x), e, ELEN, P(m), m0i, P(t1), P(t2));
#elif FN == 8
	ret = I(modpow_opt)(P(x), e, ELEN, P(m), m0i, P(tmp), TW);
#elif FN == 9
	I(to_monty)(P(x), P(m));
#elif FN == 10
	I(from_monty)(P(x), P(m), m0i);
#elif FN == 11
	I(decode_reduce)(P(x), src, SLEN, P(m));
#elif FN == 12
	I(reduce)(P(d), P(x), P(m));
#elif FN == 13
	ret = I(iszero)(P(x));
#elif FN == 14
	ret = I(bit_length)(P(x) + sizeof(W), LEN);
#elif FN == 15 && IW == 15
	ret = ir_br_i15_ninv15(x[1] | 1);
#elif FN == 15
	ret = ir_br_i31_ninv31(x[1] | 1);
#elif FN == 16
	ret = I(moddiv)(P(x), P(y), P(m), m0i, P(tmp));
#endif
}
#ifdef C08_TV
static void c08_call_real(void)
{
#if FN == 1
	ret = R(add)(x, y, ctl);
#elif FN == 2
	ret = R(sub)(x, y, ctl);
#elif FN == 3
	R(montymul)(d, x, y, m, m0i);
#elif FN == 4
	R(muladd_small)(x, z, m);
#elif FN == 5
	ret = R(decode_mod)(x, src, SLEN, m);
#elif FN == 6
	R(encode)(dst, SLEN, x);
#elif FN == 7
	R(modpow)(x, e, ELEN, m, m0i, t1, t2);
#elif FN == 8
	ret = R(modpow_opt)(x, e, ELEN, m, m0i, tmp, TW);
#elif FN == 9
	R(to_monty)(x, m);
#elif FN == 10
	R(from_monty)(x, m, m0i);
#elif FN == 11
	R(decode_reduce)(x, src, SLEN, m);
#elif FN == 12
	R(reduce)(d, x, m);
#elif FN == 13
	ret = R(iszero)(x);
#elif FN == 14
	ret = R(bit_length)(x + 1, LEN);
#elif FN == 15 && IW == 15
	ret = br_i15_ninv15(x[1] | 1);
#elif FN == 15
	ret = br_i31_ninv31(x[1] | 1);
#elif FN == 16
	ret = R(moddiv)(x, y, m, m0i, tmp);
#endif
}
static void c08_out(void)
{
	C08_OUT(x, sizeof x); C08_OUT(d, sizeof d); C08_OUT(t1, sizeof t1); C08_OUT(t2, sizeof t2);
	C08_OUT(dst, sizeof dst); C08_OUTV(ret);
#if FN == 8
	C08_OUT(tmp, sizeof tmp);
#endif
}
#endif
#include "C08_main.h"
