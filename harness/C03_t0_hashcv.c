/*
 * C03 (T0 part, main session; seeded change C03f): server natives compute-hash-CV and copy-hash-CV.
 * The hash over which the client's CertificateVerify signature is checked must be the transcript digest of the hash
 * function named in the message, and the message must be refused (false) when the engine does not implement that
 * function - otherwise hash_CV would be taken from stale pad bytes (client-controlled: tail of its Certificate).
 *   br_multihash_out is a recording stub at the link seam: writes the digest of an implemented function, nothing otherwise.
 */
#define T0N_PRE_INCLUDE "C05_t0f.h"
#include "t0n_hss.c"
#include "t0n_hss_ops.h"
#ifndef ID
#define ID 4
#endif

static const unsigned char OLEN[7] = { 0, 16, 20, 28, 32, 48, 64 };
static const unsigned char OFF[7] = { 0, 0, 16, 36, 64, 96, 144 };   /* slot of function id in the pad (RFC order md5, sha1, sha224, ...) */
static unsigned char digest[7][64];
static unsigned impl_mask;
static T0N_CTXT *the;
static br_hash_class dummy_class;

size_t
br_multihash_out(const br_multihash_context *ctx, int id, void *dst)
{
	CHECK(ctx == &the->eng.mhash, "transcript digests come from the engine's multihash context");
	if (id < 1 || id > 6 || !((impl_mask >> id) & 1)) return 0;
	for (int i = 0; i < OLEN[id]; i ++) ((unsigned char *)dst)[i] = digest[id][i];
	return OLEN[id];
}

int
main(void)
{
	T0N_CTXT cc;
	T0N_CTXT *c = &cc;
	uint32_t d0;
	int i, k, id = ID;      /* -DID=<0,2..6>: concrete per query (a symbolic id makes the copy a symbolic-offset/length memcpy: no verdict in 200 s) */
#ifdef NATIVE_REPLAY
	NATIVE_FILL(c, sizeof *c);
#endif
	the = c;
	impl_mask = ND_U8() & 0x7E;
	for (k = 1; k <= 6; k ++) {
		c->eng.mhash.impl[k - 1] = ((impl_mask >> k) & 1) ? &dummy_class : NULL;
		for (i = 0; i < 64; i ++) digest[k][i] = ND_U8();
	}
	for (i = 0; i < 208; i ++) c->eng.pad[i] = ND_U8();      /* whatever earlier messages left in the pad */
	/* what read-CertificateVerify establishes (ssl_hs_server.t0:1350-1361): 0 (MD5+SHA-1) or 2..6 */
	c->hash_CV_len = 0; c->hash_CV_id = 0xFF;
	T0F_DEPTH_AT(5);
	d0 = t0n_dpi;
	t0n_co = 0;
	C05_DISPATCH(c, C05_OP_compute_hash_CV);
	CHECK(t0n_dpi == d0 && t0n_co == 0, "compute-hash-CV leaves the stack unchanged");
	T0F_PUSH(c, id);
	C05_DISPATCH(c, C05_OP_copy_hash_CV);
	CHECK(t0n_dpi == d0 + 1 && t0n_co == 0, "copy-hash-CV replaces the identifier by a flag");
	{
		uint32_t r = T0F_TOP(c, 0);
		int have = id == 0 ? 1 : (int)((impl_mask >> id) & 1);
		CHECK(r == 0 || r == 0xFFFFFFFFu, "flag is a T0 boolean");
		CHECK((r != 0) == (have != 0) || (id == 0), "CertificateVerify naming a hash function the engine does not implement is refused, an implemented one accepted");
#if ID != 0
		if (r != 0) {
			CHECK(c->hash_CV_id == id && c->hash_CV_len == OLEN[id], "hash identifier and length recorded for the signature check");
			for (i = 0; i < 64; i ++) if (i < OLEN[id]) CHECK(c->hash_CV[i] == digest[id][i], "hash_CV is the transcript digest of the named function (not stale pad content)");
			WITNESS_POINT("accepted, TLS 1.2 hash");
		}
		if (r == 0) { WITNESS_POINT("refused"); }
#else
		if (r != 0) {
			CHECK(c->hash_CV_id == 0 && c->hash_CV_len == 36, "MD5+SHA-1: 36 bytes");
			for (i = 0; i < 36; i ++) {
				int f = i < 16 ? 1 : 2, j = i < 16 ? i : i - 16;
				if ((impl_mask >> f) & 1) CHECK(c->hash_CV[i] == digest[f][j], "MD5 || SHA-1 of the transcript");
			}
			WITNESS_POINT("accepted, MD5+SHA-1");
		}
#endif
	}
	return 0;
}
