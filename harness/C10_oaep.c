/*
 * C10.3a: OAEP (real src/rsa/rsa_oaep_pad.c, rsa_oaep_unpad.c, real
 * src/hash/mgf1.c) over the stub hash class c10_hash_a (C10_stubs.h).
 *
 * C10_MODE 0 (encode):  message (length symbolic, 0..max+1), label, seed (from
 *   the stub PRNG), dst_max_len and the modulus bytes symbolic.
 *   br_rsa_oaep_pad returns 0 exactly when the modulus is too short, the
 *   message too long or the destination too small, else C10_K (the modulus
 *   length); C10_RT=0: the output decodes, by the RFC 8017 7.1.2 reference
 *   written in this file, to the message; C10_RT=1: br_rsa_oaep_unpad of the
 *   output returns 1, the message and its length (round trip).
 * C10_MODE 1 (decode): every byte of the C10_K-byte block and of the label symbolic.
 *   br_rsa_oaep_unpad accepts <=> the reference accepts (Y == 0, lHash' ==
 *   Hash(L), PS all zero, 0x01 separator present); on accept the message is
 *   moved to the start of the buffer and *len is its length; on reject *len
 *   is untouched.
 * C10_MODE 2 (documented length): modulus stored with C10_NLZ leading zero bytes;
 *   the padded length must be the mathematical modulus length
 *   (bearssl_rsa.h: "not counting extra leading zeros").
 *
 * C10_K = modulus length in bytes, C10_LL = label length, concrete per query.
 */
#include "common.h"
#include "C10_stubs.h"

#ifndef C10_K
#define C10_K 24
#endif
#ifndef C10_LL
#define C10_LL 2
#endif
#ifndef C10_MODE
#define C10_MODE 0
#endif
#ifndef C10_NLZ
#define C10_NLZ 0
#endif
#ifndef C10_NLAST
#define C10_NLAST 0xC5
#endif
#ifndef C10_RT
#define C10_RT 0
#endif
#define HLEN C10_HA
#define DIG (&c10_hash_a)
#define TOO_SHORT (C10_K < 2 * HLEN + 2)
#define SMAX (TOO_SHORT ? 0 : C10_K - 2 * HLEN - 2)

/*
 * RFC 8017 7.1.2 step 3 (EME-OAEP decoding) on a private copy of the block.
 * Returns 1 and the message position/length, or 0.
 */
static int
ref_oaep_decode(const unsigned char *em, const unsigned char *label, int *mpos, int *mlen, unsigned char *work)
{
	unsigned char lhash[8];
	int i, ok, found, sep;

	if (TOO_SHORT) return 0;
	for (i = 0; i < C10_K; i++) work[i] = em[i];
	c10_hash3(DIG, lhash, label, C10_LL, 0, 0, 0, 0);
	/* seed = maskedSeed xor MGF(maskedDB, hLen); DB = maskedDB xor MGF(seed, k-hLen-1) */
	c10_ref_mgf1_xor(work + 1, HLEN, DIG, HLEN, work + 1 + HLEN, C10_K - HLEN - 1);
	c10_ref_mgf1_xor(work + 1 + HLEN, C10_K - HLEN - 1, DIG, HLEN, work + 1, HLEN);
	ok = (work[0] == 0);
	for (i = 0; i < HLEN; i++) if (work[1 + HLEN + i] != lhash[i]) ok = 0;
	/* DB = lHash' || PS (zeros) || 01 || M */
	found = 0; sep = 0;
	for (i = 1 + 2 * HLEN; i < C10_K; i++) {
		if (!found && work[i] != 0) {
			found = 1;
			sep = i;
			if (work[i] != 0x01) ok = 0;
		}
	}
	if (!found) ok = 0;
	*mpos = sep + 1;
	*mlen = C10_K - sep - 1;
	return ok;
}

int main(void)
{
	unsigned char label[C10_LL + 1];
	ND_BYTES(label, C10_LL);

#if C10_MODE == 0 || C10_MODE == 2
	/* dst and src live in one object: the API allows them to overlap, and the
	   memmove model of strmodel.c compares the two pointers */
	unsigned char n[C10_NLZ + C10_K], arena[C10_NLZ + C10_K + 1 + SMAX + 1], src0[SMAX + 1], work[C10_K];
	unsigned char *dst = arena, *src = arena + C10_NLZ + C10_K + 1;
	c10_rng rng;
	br_rsa_public_key pk;
	size_t src_len, dst_max;
	int i;

	ND_BYTES(n, C10_NLZ + C10_K);
	for (i = 0; i < C10_NLZ; i++) n[i] = 0;
	/* first significant byte: fixed non-zero constant, last byte: fixed odd
	   constant (valid moduli are odd).  oaep_pad looks at n only to find its
	   length; concrete end bytes keep that length concrete in symex whichever
	   end the code scans from */
	n[C10_NLZ] = 0xB7;
	n[C10_NLZ + C10_K - 1] = C10_NLAST;
	pk.n = n; pk.nlen = C10_NLZ + C10_K; pk.e = 0; pk.elen = 0;
	rng.vtable = &c10_rng_vtable; rng.ptr = 0;
	ND_BYTES(rng.pool, C10_RNG_MAX);
	for (i = 0; i < SMAX + 1; i++) src[i] = src0[i] = ND_U8();
	for (i = 0; i < C10_NLZ + C10_K + 1; i++) dst[i] = ND_U8();
	unsigned char guard = dst[C10_NLZ + C10_K];
	src_len = ND_SIZE();
	ASSUME(src_len <= SMAX + 1);
	dst_max = ND_SIZE();
	ASSUME(dst_max <= C10_NLZ + C10_K);

	size_t r = br_rsa_oaep_pad(&rng.vtable, DIG, label, C10_LL, &pk, dst, dst_max, src, src_len);

	CHECK(dst[C10_NLZ + C10_K] == guard, "oaep_pad writes nothing past dst_max_len");
#if C10_MODE == 2
	if (dst_max >= C10_K && src_len <= SMAX && !TOO_SHORT) {
		CHECK(r == C10_K, "oaep_pad output length is the mathematical modulus length (leading zero bytes of n not counted)");
		WITNESS_POINT("modulus with leading zero bytes padded");
	}
	return 0;
#else
	int bad = TOO_SHORT || src_len > SMAX || dst_max < C10_K;
	CHECK((r == 0) == (bad != 0), "oaep_pad returns 0 exactly when modulus too short / message too long / destination too small");
	if (r == 0) {
		WITNESS_POINT("oaep_pad refuses");
		return 0;
	}
	CHECK(r == C10_K, "oaep_pad returns the modulus length");
	CHECK(rng.ptr == HLEN, "oaep_pad draws exactly hLen seed bytes");
	{
		int mpos = 0, mlen = 0;
		size_t len = C10_K;
		uint32_t ok;
#if !C10_RT
		/* made here, accepted by the RFC reference */
		CHECK(ref_oaep_decode(dst, label, &mpos, &mlen, work) == 1, "oaep_pad output decodes under the RFC 8017 reference");
		CHECK((size_t)mlen == src_len, "reference recovers the message length");
		/* the message is the tail of the decoded block */
		for (i = 0; i < SMAX; i++) if ((size_t)i < src_len)
			CHECK(work[C10_K - 1 - i] == src0[src_len - 1 - i], "reference recovers the message bytes");
#else
		/* round trip through the real decoder */
		ok = br_rsa_oaep_unpad(DIG, label, C10_LL, dst, &len);
		CHECK(ok == 1, "oaep_unpad accepts what oaep_pad produced");
		CHECK(len == src_len, "oaep_unpad(oaep_pad(M)) has the length of M");
		for (i = 0; i < SMAX; i++) if ((size_t)i < src_len) CHECK(dst[i] == src0[i], "oaep_unpad(oaep_pad(M)) == M");
#endif
	}
#if !TOO_SHORT
	WITNESS_POINT("oaep round trip checked");
#endif
	return 0;
#endif

#else  /* C10_MODE 1 */
	unsigned char em[C10_K + 1], em0[C10_K], work[C10_K];
	int i, m, mpos = 0, mlen = 0;
	size_t len = C10_K;

	for (i = 0; i < C10_K; i++) em[i] = em0[i] = ND_U8();
	em[C10_K] = 0x77;
	int ref = ref_oaep_decode(em0, label, &mpos, &mlen, work);
	uint32_t r = br_rsa_oaep_unpad(DIG, label, C10_LL, em, &len);

	CHECK(r == 0 || r == 1, "oaep_unpad returns 0 or 1");
	CHECK((r == 1) == (ref == 1), "oaep_unpad accepts iff the block has the exact EME-OAEP structure (reference)");
	CHECK(em[C10_K] == 0x77, "oaep_unpad writes nothing past the block");
	if (r) {
		CHECK(len == (size_t)mlen, "message length as in the reference");
		for (m = 0; m <= SMAX; m++) if (mlen == m)
			for (i = 0; i < m; i++) CHECK(em[i] == work[C10_K - m + i], "message bytes moved to the start of the buffer");
#if !TOO_SHORT
		WITNESS_POINT("some block is accepted");
#endif
	} else {
		CHECK(len == C10_K, "*len untouched on rejection");
		WITNESS_POINT("some block is rejected");
	}
	return 0;
#endif
}
