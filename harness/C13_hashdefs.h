/*
 * C13: per-hash-function bindings and the independent padding reference.
 *
 * HF selects the function under test (TLS ids; 7 = MD5+SHA-1):
 *   1 md5, 2 sha1, 3 sha224, 4 sha256, 5 sha384, 6 sha512, 7 md5sha1
 *
 * ref_hash() is written from RFC 1321 3.1-3.2 / FIPS 180-4 5.1, 5.3, 6.x:
 * initial value from the standard (typed here, not taken from /repo),
 * message || 0x80 || 0x00.. || bit length (64 bits LE for MD5, 64 bits BE
 * for SHA-1/224/256, 128 bits BE for SHA-384/512), then the REAL compression
 * function symbol of /repo on every padded block (bound to the call-log
 * oracle under CBMC, see C13_oracle.h; the real one in replays and KATs).
 * So what is decided is the buffering / padding / length-encoding /
 * output-encoding logic of update()/out()/state()/set_state(), for every
 * compression function.
 *
 * For SHA-384/512 the compression function is static: the harness must
 * #include "C13_oracle.h" then "src/hash/sha2big.c" BEFORE this header
 * (and not link sha2big.c).
 */
#ifndef C13_HASHDEFS_H
#define C13_HASHDEFS_H
#include "inner.h"
#include "C13_oracle.h"

#ifndef HF
#define HF 1
#endif

#if HF == 1
#define H_CTX br_md5_context
#define H_PFX(x) br_md5_ ## x
#define H_BS 64
#define H_OUTLEN 16
#define H_STLEN 16
#elif HF == 2
#define H_CTX br_sha1_context
#define H_PFX(x) br_sha1_ ## x
#define H_BS 64
#define H_OUTLEN 20
#define H_STLEN 20
#elif HF == 3
#define H_CTX br_sha224_context
#define H_PFX(x) br_sha224_ ## x
#define H_BS 64
#define H_OUTLEN 28
#define H_STLEN 32
#elif HF == 4
#define H_CTX br_sha256_context
#define H_PFX(x) br_sha256_ ## x
#define H_BS 64
#define H_OUTLEN 32
#define H_STLEN 32
#elif HF == 5
#define H_CTX br_sha384_context
#define H_PFX(x) br_sha384_ ## x
#define H_BS 128
#define H_OUTLEN 48
#define H_STLEN 64
#elif HF == 6
#define H_CTX br_sha512_context
#define H_PFX(x) br_sha512_ ## x
#define H_BS 128
#define H_OUTLEN 64
#define H_STLEN 64
#elif HF == 7
#define H_CTX br_md5sha1_context
#define H_PFX(x) br_md5sha1_ ## x
#define H_BS 64
#define H_OUTLEN 36
#define H_STLEN 36
#else
#error "HF"
#endif

#define H_INIT(c)            H_PFX(init)(c)
#define H_UPDATE(c, d, l)    H_PFX(update)(c, d, l)
#define H_OUT(c, o)          H_PFX(out)(c, o)
#define H_STATE(c, o)        H_PFX(state)(c, o)
#define H_SETSTATE(c, s, n)  H_PFX(set_state)(c, s, n)
#define H_VTABLE             H_PFX(vtable)

/* ---- constants of the standards ---- */
static const uint32_t ref_iv_md5[4] = { 0x67452301, 0xEFCDAB89, 0x98BADCFE, 0x10325476 };
static const uint32_t ref_iv_sha1[5] = { 0x67452301, 0xEFCDAB89, 0x98BADCFE, 0x10325476, 0xC3D2E1F0 };
static const uint32_t ref_iv_sha224[8] = {
	0xC1059ED8, 0x367CD507, 0x3070DD17, 0xF70E5939, 0xFFC00B31, 0x68581511, 0x64F98FA7, 0xBEFA4FA4 };
static const uint32_t ref_iv_sha256[8] = {
	0x6A09E667, 0xBB67AE85, 0x3C6EF372, 0xA54FF53A, 0x510E527F, 0x9B05688C, 0x1F83D9AB, 0x5BE0CD19 };
static const uint64_t ref_iv_sha384[8] = {
	0xCBBB9D5DC1059ED8ull, 0x629A292A367CD507ull, 0x9159015A3070DD17ull, 0x152FECD8F70E5939ull,
	0x67332667FFC00B31ull, 0x8EB44A8768581511ull, 0xDB0C2E0D64F98FA7ull, 0x47B5481DBEFA4FA4ull };
static const uint64_t ref_iv_sha512[8] = {
	0x6A09E667F3BCC908ull, 0xBB67AE8584CAA73Bull, 0x3C6EF372FE94F82Bull, 0xA54FF53A5F1D36F1ull,
	0x510E527FADE682D1ull, 0x9B05688C2B3E6C1Full, 0x1F83D9ABFB41BD6Bull, 0x5BE0CD19137E2179ull };

/* ---- byte codecs written out (not the library's) ---- */
static uint32_t ref_ld32le(const unsigned char *p) { return (uint32_t)p[0] | ((uint32_t)p[1] << 8) | ((uint32_t)p[2] << 16) | ((uint32_t)p[3] << 24); }
static uint32_t ref_ld32be(const unsigned char *p) { return (uint32_t)p[3] | ((uint32_t)p[2] << 8) | ((uint32_t)p[1] << 16) | ((uint32_t)p[0] << 24); }
static void ref_st32le(unsigned char *p, uint32_t x) { p[0] = (unsigned char)x; p[1] = (unsigned char)(x >> 8); p[2] = (unsigned char)(x >> 16); p[3] = (unsigned char)(x >> 24); }
static void ref_st32be(unsigned char *p, uint32_t x) { p[3] = (unsigned char)x; p[2] = (unsigned char)(x >> 8); p[1] = (unsigned char)(x >> 16); p[0] = (unsigned char)(x >> 24); }
static uint64_t ref_ld64be(const unsigned char *p) { return ((uint64_t)ref_ld32be(p) << 32) | ref_ld32be(p + 4); }
static void ref_st64be(unsigned char *p, uint64_t x) { ref_st32be(p, (uint32_t)(x >> 32)); ref_st32be(p + 4, (uint32_t)x); }
static void ref_st64le(unsigned char *p, uint64_t x) { ref_st32le(p, (uint32_t)x); ref_st32le(p + 4, (uint32_t)(x >> 32)); }

/*
 * Padded message builder.  pm must hold ((L + 1 + lenbytes + bs - 1) / bs) * bs
 * bytes; returns the padded length.  total = number of message bytes hashed
 * in all (bytes before this tail + L).  L is concrete in every caller.
 *   kind 0: 64-bit little-endian bit length (MD5)
 *   kind 1: 64-bit big-endian bit length (SHA-1, SHA-224, SHA-256)
 *   kind 2: 128-bit big-endian bit length (SHA-384, SHA-512)
 */
static size_t
ref_pad(unsigned char *pm, const unsigned char *msg, size_t L, uint64_t total, int kind, size_t bs)
{
	size_t n = 0, lb = (kind == 2) ? 16 : 8;
	for (size_t i = 0; i < L; i++) pm[n++] = msg[i];
	pm[n++] = 0x80;
	while ((n % bs) != bs - lb) pm[n++] = 0x00;
	uint64_t lo = total << 3;          /* bit length mod 2^64 */
	uint64_t hi = total >> 61;         /* bits 64.. of the bit length */
	if (kind == 0) {
		ref_st64le(pm + n, lo);
	} else if (kind == 1) {
		ref_st64be(pm + n, lo);
	} else {
		ref_st64be(pm + n, hi);
		ref_st64be(pm + n + 8, lo);
	}
	return n + lb;
}

#define REF_PM_MAX(L, bs)  ((((L) + 17 + (bs) - 1) / (bs)) * (bs))

/*
 * ref_hash: digest of (earlier data whose chaining value is `st`, cnt0 bytes,
 * cnt0 a multiple of the block size) || msg[0..L).  st == NULL: start of
 * message (standard initial value, cnt0 must be 0).  `st` uses the documented
 * state() encoding (words in the function's byte order).
 */
#if HF == 1 || HF == 7
static void
ref_md5(const unsigned char *st, uint64_t cnt0, const unsigned char *msg, size_t L, unsigned char *out)
{
	uint32_t v[4];
	unsigned char pm[REF_PM_MAX(H_MSGMAX, 64)];
	for (int i = 0; i < 4; i++) v[i] = st ? ref_ld32le(st + 4 * i) : ref_iv_md5[i];
	size_t n = ref_pad(pm, msg, L, cnt0 + L, 0, 64);
	for (size_t b = 0; b < n; b += 64) br_md5_round(pm + b, v);
	for (int i = 0; i < 4; i++) ref_st32le(out + 4 * i, v[i]);
}
#endif
#if HF == 2 || HF == 7
static void
ref_sha1(const unsigned char *st, uint64_t cnt0, const unsigned char *msg, size_t L, unsigned char *out)
{
	uint32_t v[5];
	unsigned char pm[REF_PM_MAX(H_MSGMAX, 64)];
	for (int i = 0; i < 5; i++) v[i] = st ? ref_ld32be(st + 4 * i) : ref_iv_sha1[i];
	size_t n = ref_pad(pm, msg, L, cnt0 + L, 1, 64);
	for (size_t b = 0; b < n; b += 64) br_sha1_round(pm + b, v);
	for (int i = 0; i < 5; i++) ref_st32be(out + 4 * i, v[i]);
}
#endif

static void
ref_hash(const unsigned char *st, uint64_t cnt0, const unsigned char *msg, size_t L, unsigned char *out)
{
#if HF == 1
	ref_md5(st, cnt0, msg, L, out);
#elif HF == 2
	ref_sha1(st, cnt0, msg, L, out);
#elif HF == 7
	ref_md5(st, cnt0, msg, L, out);
	ref_sha1(st ? st + 16 : 0, cnt0, msg, L, out + 16);
#elif HF == 3 || HF == 4
	uint32_t v[8];
	unsigned char pm[REF_PM_MAX(H_MSGMAX, 64)];
	for (int i = 0; i < 8; i++) v[i] = st ? ref_ld32be(st + 4 * i) : (HF == 3 ? ref_iv_sha224[i] : ref_iv_sha256[i]);
	size_t n = ref_pad(pm, msg, L, cnt0 + L, 1, 64);
	for (size_t b = 0; b < n; b += 64) br_sha2small_round(pm + b, v);
	for (int i = 0; i < (HF == 3 ? 7 : 8); i++) ref_st32be(out + 4 * i, v[i]);
#else
	uint64_t v[8];
	unsigned char pm[REF_PM_MAX(H_MSGMAX, 128)];
	for (int i = 0; i < 8; i++) v[i] = st ? ref_ld64be(st + 8 * i) : (HF == 5 ? ref_iv_sha384[i] : ref_iv_sha512[i]);
	size_t n = ref_pad(pm, msg, L, cnt0 + L, 2, 128);
	for (size_t b = 0; b < n; b += 128) C13_SHA2BIG_ROUND(pm + b, v);
	for (int i = 0; i < (HF == 5 ? 6 : 8); i++) ref_st64be(out + 8 * i, v[i]);
#endif
}

/*
 * Proves that, in this very goto binary, the round-function symbol the
 * library calls is the oracle (fails or times out if the link order ever
 * lets the real body win).
 */
static void
c13_seam_check(void)
{
	/* drawn in every build mode: the replay stream must stay aligned */
	unsigned char blk[128];
	uint64_t w[8];
	uint32_t v[8];
	ND_BYTES(blk, 128);
	for (int i = 0; i < 8; i++) w[i] = ND_U64();
	for (int i = 0; i < 8; i++) v[i] = (uint32_t)w[i];
	(void)v;
#if C13_UF_ACTIVE
	c13_A(0);
#ifdef C13_UF_MD5
	br_md5_round(blk, v);
	CHECK(c13_md5_n[0] == 1 && v[0] == c13_md5_log[0][0].out[0] && v[3] == c13_md5_log[0][0].out[3], "seam: br_md5_round is the oracle");
#endif
#ifdef C13_UF_SHA1
	br_sha1_round(blk, v);
	CHECK(c13_sha1_n[0] == 1 && v[0] == c13_sha1_log[0][0].out[0] && v[4] == c13_sha1_log[0][0].out[4], "seam: br_sha1_round is the oracle");
#endif
#ifdef C13_UF_SHA2S
	br_sha2small_round(blk, v);
	CHECK(c13_sha2s_n[0] == 1 && v[0] == c13_sha2s_log[0][0].out[0] && v[7] == c13_sha2s_log[0][0].out[7], "seam: br_sha2small_round is the oracle");
#endif
#ifdef C13_UF_SHA2B
	{
		br_sha512_context t;
		br_sha512_init(&t);
		br_sha512_update(&t, blk, 128);
		CHECK(c13_sha2b_n[0] == 1 && t.val[0] == c13_sha2b_log[0][0].out[0] && t.val[7] == c13_sha2b_log[0][0].out[7], "seam: sha2big_round calls go to the oracle");
	}
#endif
	c13_X();
#endif
}

#endif
