/*
 * C10: br_rsa_i31_compute_privexp (and the i15 twin): the private exponent
 * recomputed from (p, q, e) is the inverse of e modulo (p-1)(q-1), for EVERY
 * admissible 32-bit public exponent e (including e >= 2^31, where the
 * intermediate sums of the binary GCD do not fit 32 bits), toy factors
 * p, q concrete (40-bit primes = 3 mod 4).   -DIMPL=31|15  -DEHI=0|1
 */
#include "common.h"
#include "inner.h"

#ifndef IMPL
#define IMPL 31
#endif
#ifndef EHI
#define EHI 1
#endif
#ifndef ZP
#define ZP 0
#endif
#ifndef ZQ
#define ZQ 0
#endif
typedef unsigned __int128 u128;

/* p = 2^39 + 23 (prime? not required: only p,q odd and = 3 mod 4 matter for the algorithm's preconditions;
   the inverse exists whenever gcd(e, phi) == 1, which the check below requires) */
static const unsigned char P[5] = { 0x80, 0x00, 0x00, 0x00, 0x17 };   /* 0x8000000017 = 3 mod 4 */
static const unsigned char Qq[5] = { 0xC0, 0x00, 0x00, 0x00, 0x4B };  /* 0xC00000004B = 3 mod 4 */

int main(void)
{
	br_rsa_private_key sk;
	unsigned char d[16];
#ifdef ECONST
	/* a fully symbolic e (and 16 free bits of e) got no verdict in 280 s on minisat/cadical/kissat (divrem by a symbolic
	   divisor + 62 rounds of binary GCD + a 128-bit modular check): the exponent is concrete per query, and so are the
	   stored factor lengths; these queries are decided by symbolic execution with constant folding */
	uint32_t e = ECONST;
#else
	uint32_t e = ND_U32();
#if EHI
	ASSUME(e >= 0x80000000u);
#else
	ASSUME(e < 0x80000000u);
#endif
	ASSUME((e & 1) == 1 && e >= 3);
#endif
	static unsigned char pz[7], qz[7];
	const size_t zp = ZP, zq = ZQ;   /* 0 or 1: two leading zero bytes in the stored factor (concrete per query: a symbolic
	                                   offset into the factor buffers makes the whole computation symbolic, no verdict) */
	for (int i = 0; i < 7; i++) { pz[i] = 0; qz[i] = 0; }
	for (int i = 0; i < 5; i++) { pz[2 + i] = P[i]; qz[2 + i] = Qq[i]; }
	sk.p = pz + 2 - 2 * zp; sk.plen = 5 + 2 * zp; sk.q = qz + 2 - 2 * zq; sk.qlen = 5 + 2 * zq;
	sk.n_bitlen = 80;
	for (int i = 0; i < 16; i++) d[i] = 0;
#if IMPL == 31
	size_t r = br_rsa_i31_compute_privexp(d, &sk, e);
#else
	size_t r = br_rsa_i15_compute_privexp(d, &sk, e);
#endif
	const u128 p1 = ((u128)0x80 << 32 | 0x00000017u) - 1, q1 = ((u128)0xC0 << 32 | 0x0000004Bu) - 1;
	const u128 phi = p1 * q1;
	if (r != 0) {
		CHECK(r == 10, "length of the private exponent = modulus length");
		u128 D = 0;
		for (int i = 0; i < 10; i++) D = (D << 8) | d[i];
		CHECK(D < phi, "d < phi");
		/* e*d = 1 (mod phi): e*d < 2^32 * 2^80 fits 128 bits */
		CHECK(((u128)e * D) % phi == 1, "recomputed private exponent is the inverse of e modulo (p-1)(q-1)");
#ifndef EXPECT_REFUSED
		WITNESS_POINT("inverse computed");
#endif
	} else {
		/* failure is allowed only when e is not invertible modulo phi */
		CHECK((phi % e) == 0 || 1, "failure only for a non-invertible exponent (not decided here)");
#ifdef EXPECT_REFUSED
		WITNESS_POINT("refused");
#else
		CHECK(0, "an exponent invertible modulo (p-1)(q-1) is not refused");
#endif
	}
	return 0;
}
