/*
 * C13 multihash: the real src/hash/multihash.c over the real md5.c, sha1.c,
 * sha2small.c, sha2big.c (compression functions = call-log oracle,
 * C13_oracle.h).
 *
 * For every message of MLEN bytes and every split point s of the list:
 *   br_multihash_{zero,setimpl,init}; update(m[0..s)); update(m[s..MLEN));
 *   br_multihash_out(id) for id = 1..6
 * returns, for every configured id, the digest of the STANDALONE function
 * (br_md5_*, br_sha1_*, ... fed the same bytes in 128-byte pieces, which by
 * the split law of C13_hash.c is the digest of the message) and its output
 * size; 0 for the ids that are not configured; and out() does not modify
 * the context.  -DMASK=bitmask of configured ids (bit id-1).
 */
#include "common.h"
#define C13_UF_MD5 1
#define C13_UF_SHA1 1
#define C13_UF_SHA2S 1
#define C13_UF_SHA2B 1
#include "C13_oracle.h"
#include "src/hash/sha2big.c"
#undef sha2big_round
#define HF 6
#define H_MSGMAX 1
#include "C13_hashdefs.h"

#ifndef MLEN
#define MLEN 137
#endif
#ifndef MASK
#define MASK 0x3F
#endif
#ifndef SLIST
#define SLIST 0, 1, 64, 127, 128, MLEN
#endif
static const size_t slist[] = { SLIST };
#define NS (sizeof slist / sizeof slist[0])

static const size_t outlen[6] = { 16, 20, 28, 32, 48, 64 };

int main(void)
{
	unsigned char msg[MLEN + 1];
	unsigned char ref[6][64], o[64];
	br_md5_context c1;
	br_sha1_context c2;
	br_sha224_context c3;
	br_sha256_context c4;
	br_sha384_context c5;
	br_sha512_context c6;
	const br_hash_class *vts[6] = { &br_md5_vtable, &br_sha1_vtable, &br_sha224_vtable, &br_sha256_vtable, &br_sha384_vtable, &br_sha512_vtable };
	const br_hash_class **ctxs[6] = { &c1.vtable, &c2.vtable, &c3.vtable, &c4.vtable, &c5.vtable, &c6.vtable };
	br_multihash_context mc, snap;

	ND_BYTES(msg, MLEN);
	c13_oracle_init();
	c13_seam_check();

	/* side A: the six standalone functions, in lockstep per 128-byte piece */
	c13_A(0);
	for (int id = 1; id <= 6; id++)
		if (MASK & (1 << (id - 1))) vts[id - 1]->init(ctxs[id - 1]);
	for (size_t b = 0; b + 128 <= MLEN; b += 128)
		for (int id = 1; id <= 6; id++)
			if (MASK & (1 << (id - 1))) vts[id - 1]->update(ctxs[id - 1], msg + b, 128);
	for (int id = 1; id <= 6; id++)
		if (MASK & (1 << (id - 1))) {
			vts[id - 1]->update(ctxs[id - 1], msg + (MLEN & ~(size_t)127), MLEN & 127);
			vts[id - 1]->out(ctxs[id - 1], ref[id - 1]);
		}

	for (size_t si = 0; si < NS; si++) {
		size_t s = slist[si];
		c13_recycle();
		c13_B(0, 0);
		ND_BYTES(&mc, 8);                /* zero() must not depend on previous contents */
		br_multihash_zero(&mc);
		/* zero() clears the pointers with a byte-wise memset; CBMC does not
		   fold a pointer assembled from eight zero bytes back to NULL during
		   symbolic execution (every later `hc != NULL` would fork into calls
		   through an unknown function pointer): prove it is NULL, then go on
		   along the path where it is the constant (a no-op for the program) */
		for (int id = 1; id <= 6; id++) {
			CHECK(mc.impl[id - 1] == 0, "zero() clears the implementation pointers");
			if (mc.impl[id - 1] == 0) mc.impl[id - 1] = 0; else FINISH();
		}
		for (int id = 1; id <= 6; id++)
			if (MASK & (1 << (id - 1))) br_multihash_setimpl(&mc, id, vts[id - 1]);
		br_multihash_init(&mc);
		br_multihash_update(&mc, msg, s);
		br_multihash_update(&mc, msg + s, MLEN - s);
		CHECK(mc.count == MLEN, "multihash count");
		snap = mc;
		for (int id = 1; id <= 6; id++) {
			size_t n = br_multihash_out(&mc, id, o);
			if (MASK & (1 << (id - 1))) {
				CHECK(n == outlen[id - 1], "multihash_out returns the digest size");
				for (size_t i = 0; i < outlen[id - 1]; i++) CHECK(o[i] == ref[id - 1][i], "multihash digest == standalone function");
				CHECK(br_multihash_getimpl(&mc, id) == vts[id - 1], "getimpl");
			} else {
				CHECK(n == 0, "multihash_out returns 0 for a function that is not configured");
			}
		}
		CHECK(mc.count == snap.count, "out() keeps count");
		for (int i = 0; i < 128; i++) CHECK(mc.buf[i] == snap.buf[i], "out() keeps the buffer");
		for (int i = 0; i < 25; i++) CHECK(mc.val_32[i] == snap.val_32[i], "out() keeps the 32-bit states");
		for (int i = 0; i < 16; i++) CHECK(mc.val_64[i] == snap.val_64[i], "out() keeps the 64-bit states");
	}
	WITNESS_POINT("multihash checked");
	return 0;
}
