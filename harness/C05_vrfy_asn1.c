/*
 * C05: br_ecdsa_i15_vrfy_asn1 / br_ecdsa_i31_vrfy_asn1 on an arbitrary
 * (attacker-chosen) signature of SL bytes: the in-place ASN.1 -> raw
 * conversion on the function's own work area stays inside that work area
 * (a malformed signature with lopsided INTEGERs EXPANDS when converted),
 * and what is handed to the raw verifier lies inside it.
 * br_ecdsa_iNN_vrfy_raw is a recording stub at the link seam (its own input
 * gates are decided in C11).   -DIMPL=15|31  -DSL=<n>
 */
#include "common.h"
#include "inner.h"

#ifndef IMPL
#define IMPL 15
#endif
#ifndef SL
#define SL 134
#endif
#ifndef RL
#define RL 0
#endif
#ifndef LONGF
#define LONGF 1
#endif

static int raw_calls; static size_t raw_len; static unsigned raw_sum;
#if IMPL == 15
uint32_t br_ecdsa_i15_vrfy_raw(const br_ec_impl *impl, const void *hash, size_t hash_len, const br_ec_public_key *pk, const void *sig, size_t sig_len)
#else
uint32_t br_ecdsa_i31_vrfy_raw(const br_ec_impl *impl, const void *hash, size_t hash_len, const br_ec_public_key *pk, const void *sig, size_t sig_len)
#endif
{
	(void)impl; (void)hash; (void)hash_len; (void)pk;
	raw_calls++; raw_len = sig_len;
	/* the raw verifier reads sig[0..sig_len): every byte must be readable */
	for (size_t i = 0; i < 300; i++) if (i < sig_len) raw_sum += ((const unsigned char *)sig)[i];
	return ND_U8() & 1;
}

int main(void)
{
	unsigned char sig[SL > 0 ? SL : 1], hash[4];
	br_ec_public_key pk;
	/* Structure-aware symbolic input (all 2^(8*SL) strings do not finish: 2.9M variables, no verdict in 10 min):
	   the bytes that steer the converter are symbolic - SEQUENCE header, both INTEGER headers (the second one at the
	   position implied by the concrete first length RL and header form LONGF) and the first two content bytes of each
	   INTEGER (leading-zero stripping); the remaining content bytes are 0x01. */
	{
		const size_t off = LONGF ? 3 : 2;
		const size_t h2 = off + 2 + RL;
		for (size_t i = 0; i < SL; i++) sig[i] = 0x01;
		for (size_t i = 0; i < SL; i++) if (i < off + 4 || (i >= h2 && i < h2 + 4)) sig[i] = ND_U8();
		/* the first INTEGER has the length this query is about, in the header form this query is about */
		if (off + 1 < SL) ASSUME(sig[off + 1] == RL);
		if (LONGF) { if (SL > 1) ASSUME(sig[1] == 0x81); } else { if (SL > 1) ASSUME(sig[1] < 0x80); }
	}
	ND_BYTES(hash, 4);
	pk.curve = 23; pk.q = hash; pk.qlen = 4;
#if IMPL == 15
	uint32_t r = br_ecdsa_i15_vrfy_asn1(NULL, hash, 4, &pk, sig, SL);
#else
	uint32_t r = br_ecdsa_i31_vrfy_asn1(NULL, hash, 4, &pk, sig, SL);
#endif
	CHECK(r <= 1, "result is 0 or 1");
	CHECK(raw_calls <= 1, "at most one raw verification");
	if (raw_calls) { CHECK(raw_len <= 2 * 127, "raw signature length within what the converter can produce"); WITNESS_POINT("converted and verified"); }
#ifdef EXPECT_EXPAND
	if (raw_calls && raw_len > SL) { WITNESS_POINT("conversion expanded the signature"); }
#endif
	return 0;
}
