/*
 * C16.c: br_ssl_engine_new_max_frag_len (real src/ssl/ssl_engine.c) on an
 * ARBITRARY output-register state allowed by the documented protocol
 * ("Output mode" notes at the top of ssl_engine.c):
 *   accumulating: oxc <= oxa < oxb <= obuf_len   (oxc = start of the data)
 *   sending:      oxa == oxb <= oxc <= obuf_len  (oxc = end of the record)
 * and any new length: oxb never grows, oxa <= oxb is kept, an accumulating
 * record stays accumulating (oxa < oxb), and unless more than the new length
 * is already accumulated the record is capped at the new length.
 * Assumed: obuf_len <= SIZE_MAX/2 (a real buffer; oxc + max_frag_len cannot wrap).
 */
#include "common.h"
#include "src/ssl/ssl_engine.c"

/* the context is an uninitialised local of main (arbitrary previous content);
 * a zero-initialised static one makes CBMC's union write in set_buffers_bidi
 * (rc->out.vtable = ...) blow up */
static br_ssl_engine_context *rcp;
#define rc (*rcp)

int main(void)
{
	br_ssl_engine_context store;
#ifdef NATIVE_REPLAY
	NATIVE_FILL(&store, sizeof store);
#endif
	rcp = &store;
	size_t ol = ND_SIZE(), a = ND_SIZE(), b = ND_SIZE(), c = ND_SIZE();
	unsigned mfl = ND_U32();
	ASSUME(mfl <= 16384);	/* max_frag_len is a uint16_t field; callers pass a standard length */
	ASSUME(ol <= (size_t)-1 / 2);
	int acc = ND_U8() & 1;
	if (acc) ASSUME(c <= a && a < b && b <= ol);
	else ASSUME(a == b && b <= c && c <= ol);
	rc.obuf_len = ol; rc.oxa = a; rc.oxb = b; rc.oxc = c;
	rc.max_frag_len = ND_SIZE();
	/* fields the function might (wrongly) consult are explicit symbolic inputs, so that a counterexample replays natively */
	rc.iomode = ND_U8();
	ASSUME(rc.iomode <= 3);
	rc.incrypt = ND_U8() & 1;
	br_ssl_engine_new_max_frag_len(&rc, mfl);
	CHECK(rc.max_frag_len == mfl, "new length recorded");
	CHECK(rc.oxa == a && rc.oxc == c, "oxa and oxc untouched");
	CHECK(rc.oxb <= b, "oxb never grows");
	CHECK(rc.oxa <= rc.oxb, "oxa <= oxb kept");
	if (acc) {
		CHECK(rc.oxa < rc.oxb, "an accumulating record stays accumulating");
		if (a - c < mfl) CHECK(rc.oxb - c <= mfl, "record capped at the new length unless more is already accumulated");
		if (rc.oxb < b) { WITNESS_POINT("area shrunk"); }
		if (rc.oxb == b) { WITNESS_POINT("area unchanged"); }
	} else {
		CHECK(rc.oxb == b, "a record being sent is not affected");
		WITNESS_POINT("sending state");
	}
	return 0;
}
