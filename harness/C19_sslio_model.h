/*
 * C19 (ssl_io part): abstract engine model bound at the link seam of
 * src/ssl/ssl_io.c.  ssl_engine.c is NOT linked; every br_ssl_engine_*
 * function ssl_io.c calls is defined here and obeys the contract documented
 * in inc/bearssl_ssl.h (state flags; xxx_buf/xxx_ack; flush; close;
 * last_error reads eng.err; run_until reads eng.shutdown_recv):
 *   - BR_SSL_CLOSED is exclusive; a non-closed model never has state 0;
 *   - xxx_buf returns a non-empty region iff the matching flag is set,
 *     NULL / 0 otherwise, and does not change the state;
 *   - xxx_ack(n) requires 1 <= n <= offered length (CHECKed: this is an
 *     obligation of ssl_io.c);
 *   - any ack may nondeterministically fail the engine (closed, err != 0);
 *     completed incoming records are nondeterministically application data,
 *     a close_notify, a handshake/other record, or are still incomplete.
 * Buffers hold CAP bytes.  The record layer is a toy (plaintext ^ 0x5A, no
 * header; close_notify is the single byte 0xC0).
 *
 * Byte conservation is checked on line, against position-coded streams:
 *   plaintext-in queue  PIN(i)  = pin_salt + 37 i   (pin_salt symbolic);
 *                       pin_exposed bytes were placed in the recvapp region,
 *                       pin_consumed were acknowledged by recvapp_ack;
 *   transport-in stream WIN(i)  = 0x80 + i: low_read delivers the next bytes,
 *                       recvrec_ack checks that the acked region holds them;
 *   plaintext-out queue: sendapp_ack checks that the acked region holds the
 *                       next bytes of the caller's source buffer g_src[];
 *   transport-out:      low_write checks that it is given the next unsent
 *                       record bytes of the model; sendrec_ack checks that
 *                       exactly the accepted count is acknowledged.
 *
 * All nondeterminism of the model and of the callbacks comes from seven
 * 64-bit choice streams drawn with ND_U64 in m_init (straight-line); a
 * consumer takes a few bits per call; an exhausted stream reads as
 * "fail", so every run is finite.
 */
#ifndef C19_SSLIO_MODEL_H
#define C19_SSLIO_MODEL_H
#include "inner.h"

#ifndef CAP
#define CAP 3
#endif
#ifndef LEN_MAX
#define LEN_MAX 4
#endif
#ifndef WIN_MAX
#define WIN_MAX 5        /* low_read delivers at most WIN_MAX bytes per run */
#endif
#ifndef WOUT_MAX
#define WOUT_MAX 6       /* low_write accepts at most WOUT_MAX bytes per run */
#endif
#ifndef WFAIL_SHUT
#define WFAIL_SHUT 1     /* low_write may fail while shutdown_recv is set */
#endif

static br_ssl_engine_context eng;

static uint64_t s_rd, s_wr, s_ra, s_sa, s_pa, s_qa, s_ex;
static unsigned take(uint64_t *s, unsigned bits)
{
	unsigned v = (unsigned)(*s & ((1u << bits) - 1u));
	*s >>= bits;
	return v;
}

/* phases of the abstract engine */
static unsigned m_closed;     /* BR_SSL_CLOSED */
static unsigned m_hs;         /* handshake in progress: no application data */
static unsigned m_app;        /* application data accepted/delivered */
static unsigned cn_state;     /* our close_notify: 0 none, 1 queued, 2 in flight, 3 sent */
static unsigned m_shared;     /* half-duplex behaviour of a shared in/out buffer */
static unsigned m_liberal;    /* may still deliver application data after close */

static unsigned char obuf[CAP];
static unsigned o_fill;                 /* buffered plaintext (sendapp side) */
static unsigned o_rec_len, o_rec_sent;  /* record being sent */
static unsigned char ibuf[CAP];
static unsigned i_fill;                 /* bytes of the incoming record so far */
static unsigned i_app_len, i_app_rd;    /* decrypted application data */

static unsigned char pin_salt;
#define PIN(i) ((unsigned char)(pin_salt + 37u * (unsigned)(i)))
static unsigned pin_exposed, pin_consumed;
static unsigned char g_src[LEN_MAX];    /* copy of the caller's source buffer */
static unsigned g_src_len;              /* bytes the caller asked to write */
static unsigned pout_n;                 /* bytes injected by sendapp_ack */
static unsigned wout_n, o_ack_total;
static unsigned win_n, win_acked;

static unsigned ev_acks, ev_flush, ev_close, ev_fail, cb_calls;
static unsigned rfail, wfail, wfail_shut, w_after_fail, r_after_fail;

static int out_pending(void) { return o_rec_sent < o_rec_len; }
static int in_unread(void) { return i_app_rd < i_app_len; }

static unsigned m_state(void)
{
	unsigned s = 0;
	if (m_closed) return BR_SSL_CLOSED;
	if (out_pending()) s |= BR_SSL_SENDREC;
	else if (m_app && !(m_shared && in_unread())) s |= BR_SSL_SENDAPP;
	if (in_unread()) s |= BR_SSL_RECVAPP;
	else if (!eng.shutdown_recv && !(m_shared && o_fill > 0)) s |= BR_SSL_RECVREC;
	return s;
}

static void m_set_closed(int err)
{
	m_closed = 1;
	eng.err = err;
}

static void m_form_record(void)
{
	for (unsigned j = 0; j < CAP; j++)
		if (j < o_fill) obuf[j] = (unsigned char)(obuf[j] ^ 0x5A);
	o_rec_len = o_fill;
	o_rec_sent = 0;
	o_fill = 0;
}

static void m_form_cn(void)
{
	obuf[0] = 0xC0;
	o_rec_len = 1;
	o_rec_sent = 0;
	cn_state = 2;
}

/* local close request, or reaction to the peer's close_notify */
static void m_request_close(void)
{
	m_app = 0;
	m_hs = 0;
	i_app_len = i_app_rd = 0;
	if (cn_state == 0) {
		cn_state = 1;
		if (!out_pending()) {
			if (o_fill > 0) m_form_record();
			else m_form_cn();
		}
	}
}

static void m_out_done(unsigned d)
{
	o_rec_len = o_rec_sent = 0;
	if (cn_state == 2) {
		cn_state = 3;
		if (eng.shutdown_recv) m_set_closed(0);
	} else if (cn_state == 1) {
		m_form_cn();
	} else if (m_hs && (d & 0x8)) {
		m_hs = 0;
		m_app = 1;
	}
}

static void m_expose_app(void)
{
	unsigned k = 1 + take(&s_ex, 2) % CAP;
	for (unsigned j = 0; j < CAP; j++)
		if (j < k) ibuf[j] = PIN(pin_exposed + j);
	pin_exposed += k;
	i_app_len = k;
	i_app_rd = 0;
}

static void m_peer_close_notify(void)
{
	eng.shutdown_recv = 1;
	if (cn_state == 3) m_set_closed(0);
	else m_request_close();
}

/* ------------------------------------------------------------------ */
/* link-seam functions                                                  */

unsigned br_ssl_engine_current_state(const br_ssl_engine_context *cc)
{
	__CPROVER_assert(cc == &eng, "engine pointer");
	return m_state();
}

unsigned char *br_ssl_engine_sendapp_buf(const br_ssl_engine_context *cc, size_t *len)
{
	__CPROVER_assert(cc == &eng, "engine pointer");
	if (m_state() & BR_SSL_SENDAPP) { *len = CAP - o_fill; return obuf + o_fill; }
	*len = 0;
	return 0;
}

unsigned char *br_ssl_engine_recvapp_buf(const br_ssl_engine_context *cc, size_t *len)
{
	__CPROVER_assert(cc == &eng, "engine pointer");
	if (m_state() & BR_SSL_RECVAPP) { *len = i_app_len - i_app_rd; return ibuf + i_app_rd; }
	*len = 0;
	return 0;
}

unsigned char *br_ssl_engine_sendrec_buf(const br_ssl_engine_context *cc, size_t *len)
{
	__CPROVER_assert(cc == &eng, "engine pointer");
	if (m_state() & BR_SSL_SENDREC) { *len = o_rec_len - o_rec_sent; return obuf + o_rec_sent; }
	*len = 0;
	return 0;
}

unsigned char *br_ssl_engine_recvrec_buf(const br_ssl_engine_context *cc, size_t *len)
{
	__CPROVER_assert(cc == &eng, "engine pointer");
	if (m_state() & BR_SSL_RECVREC) { *len = CAP - i_fill; return ibuf + i_fill; }
	*len = 0;
	return 0;
}

void br_ssl_engine_sendapp_ack(br_ssl_engine_context *cc, size_t len)
{
	ev_acks++;
	__CPROVER_assert(cc == &eng, "engine pointer");
	__CPROVER_assert((m_state() & BR_SSL_SENDAPP) != 0, "sendapp_ack called only when SENDAPP is offered");
	__CPROVER_assert(len >= 1 && len <= CAP - o_fill, "sendapp_ack: 1 <= len <= offered length");
	__CPROVER_assert(pout_n + len <= g_src_len, "no more application data is injected than the caller asked to write");
	for (unsigned j = 0; j < CAP; j++)
		if (j < len && pout_n + j < LEN_MAX && o_fill + j < CAP)
			__CPROVER_assert(obuf[o_fill + j] == g_src[pout_n + j],
				"bytes injected into the engine are the next bytes of the caller's buffer, in order");
	pout_n += (unsigned)len;
	o_fill += (unsigned)len;
	unsigned d = take(&s_pa, 3);
	if (d == 0) { m_set_closed(7); return; }
	if (o_fill == CAP) m_form_record();
}

void br_ssl_engine_recvapp_ack(br_ssl_engine_context *cc, size_t len)
{
	ev_acks++;
	__CPROVER_assert(cc == &eng, "engine pointer");
	__CPROVER_assert((m_state() & BR_SSL_RECVAPP) != 0, "recvapp_ack called only when RECVAPP is offered");
	__CPROVER_assert(len >= 1 && len <= i_app_len - i_app_rd, "recvapp_ack: 1 <= len <= offered length");
	pin_consumed += (unsigned)len;
	i_app_rd += (unsigned)len;
	if (i_app_rd == i_app_len) i_app_len = i_app_rd = 0;
	unsigned d = take(&s_qa, 3);
	if (d == 0) { m_set_closed(8); return; }
}

void br_ssl_engine_sendrec_ack(br_ssl_engine_context *cc, size_t len)
{
	ev_acks++;
	__CPROVER_assert(cc == &eng, "engine pointer");
	__CPROVER_assert((m_state() & BR_SSL_SENDREC) != 0, "sendrec_ack called only when SENDREC is offered");
	__CPROVER_assert(len >= 1 && len <= o_rec_len - o_rec_sent, "sendrec_ack: 1 <= len <= offered length");
	__CPROVER_assert(o_ack_total + len == wout_n, "sendrec_ack acknowledges exactly what low_write accepted");
	o_rec_sent += (unsigned)len;
	o_ack_total += (unsigned)len;
	unsigned d = take(&s_sa, 4);
	if ((d & 7) == 0) { m_set_closed(9); return; }
	if (o_rec_sent == o_rec_len) m_out_done(d);
}

void br_ssl_engine_recvrec_ack(br_ssl_engine_context *cc, size_t len)
{
	ev_acks++;
	__CPROVER_assert(cc == &eng, "engine pointer");
	__CPROVER_assert((m_state() & BR_SSL_RECVREC) != 0, "recvrec_ack called only when RECVREC is offered");
	__CPROVER_assert(len >= 1 && len <= CAP - i_fill, "recvrec_ack: 1 <= len <= offered length");
	__CPROVER_assert(win_acked + len <= win_n, "recvrec_ack acknowledges no more than low_read delivered");
	for (unsigned j = 0; j < CAP; j++)
		if (j < len && i_fill + j < CAP)
			__CPROVER_assert(ibuf[i_fill + j] == (unsigned char)(0x80 + win_acked + j),
				"bytes acked to the engine are the bytes low_read delivered, in order");
	win_acked += (unsigned)len;
	i_fill += (unsigned)len;
	unsigned d = take(&s_ra, 6);
	if ((d & 7) == 0) { m_set_closed(10); return; }
	if (i_fill < CAP && !(d & 0x08)) return;     /* record still incomplete */
	i_fill = 0;
	unsigned kind = (d >> 4) & 3;
	if (m_hs) {
		if (kind == 1) {
			if (!out_pending()) {                /* answer with a handshake record */
				obuf[0] = 0x16;
				o_rec_len = 1; o_rec_sent = 0;
			}
		} else if (kind >= 2) {
			m_hs = 0; m_app = 1;                 /* handshake finished */
		}
	} else if (m_app) {
		if (kind <= 1) m_expose_app();
		else if (kind == 2) m_peer_close_notify();
		/* kind 3: a record that is neither (e.g. a warning alert) */
	} else {
		/* closing: application data is discarded (kind 0), or still
		   delivered by a liberal engine (kind 1) */
		if (kind == 1) { if (m_liberal) m_expose_app(); }
		else if (kind == 2) m_peer_close_notify();
	}
}

void br_ssl_engine_flush(br_ssl_engine_context *cc, int force)
{
	ev_flush++;
	__CPROVER_assert(cc == &eng, "engine pointer");
	(void)force;
	if (!m_closed && m_app && !out_pending() && o_fill > 0) m_form_record();
}

void br_ssl_engine_close(br_ssl_engine_context *cc)
{
	ev_close++;
	__CPROVER_assert(cc == &eng, "engine pointer");
	if (!m_closed) m_request_close();
}

void br_ssl_engine_fail(br_ssl_engine_context *cc, int err)
{
	ev_fail++;
	__CPROVER_assert(cc == &eng, "engine pointer");
	__CPROVER_assert(err == BR_ERR_IO && (rfail || wfail), "engine failed by ssl_io.c only with BR_ERR_IO after a callback error");
	if (!m_closed) m_set_closed(err);
}

/* ------------------------------------------------------------------ */
/* transport callbacks: contract stubs ("at least one byte, at most len,
   or -1; errors are permanent")                                        */

static int rd_ctx_tag, wr_ctx_tag;

static int low_read(void *ctx, unsigned char *data, size_t len)
{
	cb_calls++;
	__CPROVER_assert(ctx == &rd_ctx_tag, "low_read gets its context");
	__CPROVER_assert(len >= 1 && len < 20000, "low_read: len is never zero and lower than 20000");
	if (rfail) {
		r_after_fail++;
		__CPROVER_assert(r_after_fail <= 2, "low_read is not called again and again after its permanent error");
		return -1;
	}
	unsigned d = take(&s_rd, 5);
	if ((d & 7) == 0) { rfail = 1; return -1; }
	unsigned k = 1 + (d >> 3) % CAP;
	ASSUME(k <= len);
	ASSUME(win_n + k <= WIN_MAX);
	for (unsigned j = 0; j < CAP; j++)
		if (j < k) data[j] = (unsigned char)(0x80 + win_n + j);
	win_n += k;
	return (int)k;
}

static int low_write(void *ctx, const unsigned char *data, size_t len)
{
	cb_calls++;
	__CPROVER_assert(ctx == &wr_ctx_tag, "low_write gets its context");
	__CPROVER_assert(len >= 1 && len < 20000, "low_write: len is never zero and lower than 20000");
	if (wfail) {
		w_after_fail++;
		__CPROVER_assert(w_after_fail <= 2, "low_write is not called again and again after its permanent error (termination)");
		return -1;
	}
	__CPROVER_assert(out_pending() && len <= o_rec_len - o_rec_sent, "low_write is asked to send no more than the engine's pending record bytes");
	__CPROVER_assert(o_ack_total == wout_n, "bytes accepted earlier by low_write were acknowledged before the next low_write");
	unsigned d = take(&s_wr, 5);
	if ((d & 7) == 0) {
#if !WFAIL_SHUT
		ASSUME(!eng.shutdown_recv);
#endif
		wfail = 1;
		if (eng.shutdown_recv) wfail_shut = 1;
		return -1;
	}
	unsigned k = 1 + (d >> 3) % CAP;
	ASSUME(k <= len);
	ASSUME(wout_n + k <= WOUT_MAX);
	for (unsigned j = 0; j < CAP; j++)
		if (j < k && o_rec_sent + j < CAP)
			__CPROVER_assert(data[j] == obuf[o_rec_sent + j], "bytes given to low_write are the engine's next unsent record bytes, in order");
	wout_n += k;
	return (int)k;
}

/* ------------------------------------------------------------------ */
/* any valid model state                                                */

#define PH_HS 0
#define PH_OPEN 1
#define PH_CLOSING 2      /* we asked for closure earlier */
#define PH_PEERCLOSED 3   /* peer's close_notify seen, our answer not yet sent */
#define PH_CLOSED 4

static unsigned m_phase0;

static void m_init(void)
{
	s_rd = ND_U64(); s_wr = ND_U64(); s_ra = ND_U64(); s_sa = ND_U64();
	s_pa = ND_U64(); s_qa = ND_U64(); s_ex = ND_U64();
	pin_salt = ND_U8();
	ND_BYTES(obuf, CAP);
	ND_BYTES(ibuf, CAP);
	unsigned fl = ND_U8();
	unsigned ph = ND_U8();
	unsigned cn = ND_U8();
	unsigned orl = ND_U8(), ors = ND_U8(), ofl = ND_U8();
	unsigned ial = ND_U8(), iar = ND_U8(), ifl = ND_U8();
	int err0 = ND_INT();

	m_shared = fl & 1;
	m_liberal = (fl >> 1) & 1;
	ASSUME(ph <= PH_CLOSED);
	m_phase0 = ph;
	ASSUME(orl <= CAP && ors < CAP && ofl < CAP && ial <= CAP && iar < CAP && ifl < CAP);
	eng.err = 0;
	eng.shutdown_recv = 0;
	if (ph == PH_CLOSED) {
		m_closed = 1;
		eng.err = err0;
		eng.shutdown_recv = (unsigned char)((fl >> 2) & 1);
		return;
	}
	if (ph == PH_HS) { m_hs = 1; ASSUME(ofl == 0 && ial == 0); }
	if (ph == PH_OPEN) { m_app = 1; }
	if (ph == PH_CLOSING) {
		ASSUME(cn >= 1 && cn <= 3);
		cn_state = cn;
		ASSUME(ofl == 0);
		ASSUME(ial == 0 || m_liberal);
		if (cn == 3) ASSUME(orl == 0); else ASSUME(orl >= 1);
	}
	if (ph == PH_PEERCLOSED) {
		ASSUME(cn >= 1 && cn <= 2);
		cn_state = cn;
		eng.shutdown_recv = 1;
		ASSUME(ofl == 0 && ial == 0 && ifl == 0 && orl >= 1);
	}
	if (orl > 0) {
		ASSUME(ors < orl);
		o_rec_len = orl;
		o_rec_sent = ors;
	} else {
		o_fill = ofl;
	}
	if (ial > 0) {
		ASSUME(iar < ial);
		for (unsigned j = 0; j < CAP; j++)
			if (j < ial) ibuf[j] = PIN(j);
		pin_exposed = ial;
		pin_consumed = iar;
		i_app_len = ial;
		i_app_rd = iar;
	} else {
		i_fill = ifl;
	}
	ASSUME(m_state() != 0);
}

/* conservation facts that must hold after every br_sslio_* call */
static void m_final_common(void)
{
	CHECK(o_ack_total == wout_n, "every byte low_write accepted was acknowledged to the engine");
	CHECK(win_acked == win_n, "every byte low_read delivered was acknowledged to the engine");
	if (rfail) CHECK(m_closed && eng.err == BR_ERR_IO && ev_fail == 1, "low_read error: engine failed with BR_ERR_IO");
	if (wfail && !wfail_shut) CHECK(m_closed && eng.err == BR_ERR_IO && ev_fail == 1, "low_write error before the peer's close_notify: engine failed with BR_ERR_IO");
	if (!rfail && !wfail) CHECK(ev_fail == 0, "br_ssl_engine_fail is not called without a callback error");
	{
		unsigned s = m_state();
		CHECK(s != 0 && (!(s & BR_SSL_CLOSED) || s == BR_SSL_CLOSED), "model state word obeys the contract");
	}
}

#endif
