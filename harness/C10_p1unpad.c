/*
 * C10.1: br_rsa_pkcs1_sig_unpad (real src/rsa/rsa_pkcs1_sig_unpad.c) accepts
 * a block of SL bytes  <=>  the block is exactly
 *      00 01 FF{>=8} 00 || DigestInfo(with or without NULL params) || H
 * (no DigestInfo when hash_oid == NULL), and on accept hash_out == H.
 * Every byte of the block is symbolic.  SL, OIDSEL (and HL) are concrete
 * per query.  Reference: C10_p1ref.h (RFC 8017 9.2 tables).
 *
 * EXPECT_ACCEPT=0 is for lengths at which no block can be accepted (fewer
 * than eight FF bytes would be needed): there the vacuity witness sits on
 * the reject path only.
 */
#include "common.h"
#include "inner.h"
#include "C10_p1ref.h"

#ifndef SL
#define SL 46
#endif
#ifndef EXPECT_ACCEPT
#define EXPECT_ACCEPT 1
#endif

int main(void)
{
	unsigned char sig[SL], sig0[SL], out[HL + 1], out0[HL + 1];
	int i;

	for (i = 0; i < SL; i++) sig[i] = sig0[i] = ND_U8();
	for (i = 0; i < HL + 1; i++) out[i] = out0[i] = ND_U8();

	uint32_t r = br_rsa_pkcs1_sig_unpad(sig, SL, P1_OID, HL, out);
	int ref = (SL >= 11) ? p1_ref_accepts(sig0, SL) : 0;

	CHECK(r == 0 || r == 1, "sig_unpad returns 0 or 1");
	CHECK((r == 1) == (ref != 0), "sig_unpad accepts iff block is the canonical EMSA-PKCS1-v1_5 encoding (either DigestInfo form)");
	for (i = 0; i < SL; i++) CHECK(sig[i] == sig0[i], "sig_unpad does not modify the block");
	CHECK(out[HL] == out0[HL], "sig_unpad does not write past hash_len bytes of hash_out");
	if (r) {
#if HL <= SL
		for (i = 0; i < HL; i++) CHECK(out[i] == sig0[SL - HL + i], "hash_out is the trailing hash value H");
#endif
#if EXPECT_ACCEPT
		WITNESS_POINT("some block is accepted");
#endif
	} else {
		WITNESS_POINT("some block is rejected");
	}
#if !EXPECT_ACCEPT
	CHECK(r == 0, "no block of this length is acceptable");
#endif
	return 0;
}
