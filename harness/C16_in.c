/*
 * C16.d: incoming record admission.  Real set_buffers_bidi and recvrec_ack
 * (src/ssl/ssl_engine.c, included for the static function: header decoding,
 * check_length, the "fits the input buffer" test) composed with the real
 * check_length of one record protection (src/ssl/ssl_rec_*.c, linked,
 * reached through its public vtable).
 *
 * For EVERY admissible pair of buffer sizes (symbolic, whole size_t range)
 * and every 16-bit length field:
 *   soundness     an admitted encrypted record satisfies 5 + rlen <= ibuf_len
 *                 (it will be stored completely inside the input buffer);
 *   completeness  every conformant record (length = RFC encoding of a
 *                 plaintext of p <= 16384 bytes, any legal padding) with
 *                 p <= max_frag_len (the length this endpoint advertises), or
 *                 that simply fits the buffer, is admitted, and the engine
 *                 then waits for exactly rlen bytes;
 *   rejections carry BR_ERR_BAD_LENGTH / BR_ERR_TOO_LARGE as documented.
 * MODE 0 clear text (no buffer limit: records are processed by chunks),
 * 1 cbc (ML, BLK, EXPL), 2 gcm, 3 ccm (TAG), 4 chapol.
 * Only the 5 header bytes of the input buffer are touched.
 */
#include "common.h"
#include "src/ssl/ssl_engine.c"

#ifndef MODE
#define MODE 0
#endif
#ifndef ML
#define ML 20
#endif
#ifndef BLK
#define BLK 16
#endif
#ifndef EXPL
#define EXPL 1
#endif
#ifndef TAG
#define TAG 16
#endif
#define IN_OVH ((size_t)BR_SSL_BUFSIZE_INPUT - 16384)

/* the context is an uninitialised local of main (arbitrary previous content);
 * a zero-initialised static one makes CBMC's union write in set_buffers_bidi
 * (rc->out.vtable = ...) blow up */
static br_ssl_engine_context *rcp;
#define rc (*rcp)
static unsigned char ib[8], ob[8];
static const br_block_cbcdec_class blkclass = { 0, BLK, (BLK == 16 ? 4 : 3), 0, 0 };

int main(void)
{
	br_ssl_engine_context store;
#ifdef NATIVE_REPLAY
	NATIVE_FILL(&store, sizeof store);
#endif
	rcp = &store;
	size_t ilen = ND_SIZE(), olen = ND_SIZE();
	int shared = ND_U8() & 1;
	if (shared) br_ssl_engine_set_buffers_bidi(&rc, ib, ilen, NULL, 0);
	else br_ssl_engine_set_buffers_bidi(&rc, ib, ilen, ob, olen);
	if (rc.iomode == BR_IO_FAILED) FINISH();
	const size_t F = (size_t)1 << rc.log_max_frag_len;	/* what the endpoint advertises / expects */
	CHECK(rc.ibuf_len >= F + IN_OVH, "input buffer holds the advertised fragment length plus the documented overhead");

#if MODE == 1
	rc.in.cbc.vtable = &br_sslrec_in_cbc_vtable;
	rc.in.cbc.bc.vtable = &blkclass;
	rc.in.cbc.mac_len = ML;
	rc.in.cbc.explicit_IV = EXPL;
#elif MODE == 2
	rc.in.gcm.vtable.in = &br_sslrec_in_gcm_vtable;
#elif MODE == 3
	rc.in.ccm.vtable.in = &br_sslrec_in_ccm_vtable;
	rc.in.ccm.tag_len = TAG;
#elif MODE == 4
	rc.in.chapol.vtable.in = &br_sslrec_in_chapol_vtable;
#endif
	rc.incrypt = (MODE != 0);

	/* a 5-byte record header arrives */
	unsigned type = ND_U8(), minor = ND_U8(), rlen = ND_U16();
	ib[0] = (unsigned char)type; ib[1] = 3; ib[2] = (unsigned char)minor;
	ib[3] = (unsigned char)(rlen >> 8); ib[4] = (unsigned char)rlen;
	recvrec_ack(&rc, 5);
	const int admitted = rc.iomode != BR_IO_FAILED;

	/* a conformant record carrying p plaintext bytes */
	size_t p = ND_SIZE(), pad = ND_U16();
	ASSUME(p <= 16384);
#if MODE == 0
	const int conf = (rlen == p);
	(void)pad;
#elif MODE == 1
	/* RFC 5246 6.2.3.2: [IV] + content + MAC + padding + padding_length, padding 0..255, total multiple of the block */
	ASSUME(pad >= 1 && pad <= 256);
	const int conf = ((p + ML + pad) % BLK == 0) && (rlen == (EXPL ? BLK : 0) + p + ML + pad);
#elif MODE == 2
	const int conf = (rlen == 8 + p + 16);
	(void)pad;
#elif MODE == 3
	const int conf = (rlen == 8 + p + TAG);
	(void)pad;
#else
	const int conf = (rlen == p + 16);
	(void)pad;
#endif

#if MODE == 0
	CHECK(admitted == (rlen <= 16384), "clear text: admitted iff at most 16384 bytes, whatever the buffer size");
	if (!admitted) CHECK(rc.err == BR_ERR_BAD_LENGTH, "clear text: oversize is BR_ERR_BAD_LENGTH");
#else
	if (admitted) CHECK(5 + (size_t)rlen <= rc.ibuf_len, "admitted encrypted record fits the input buffer");
	if (!admitted) CHECK(rc.err == BR_ERR_BAD_LENGTH || rc.err == BR_ERR_TOO_LARGE, "rejection is BAD_LENGTH or TOO_LARGE");
	if (conf && !admitted) CHECK(rc.err == BR_ERR_TOO_LARGE && 5 + (size_t)rlen > rc.ibuf_len, "a conformant record is only ever refused for not fitting the buffer");
#endif
	if (conf && (p <= F || 5 + (size_t)rlen <= rc.ibuf_len)) {
		CHECK(admitted, "conformant record within the advertised fragment length (or fitting the buffer) is admitted");
		if (admitted && rlen != 0) {
			CHECK(rc.ixa == 5 && rc.ixb == 5 && rc.ixc == rlen, "engine now waits for exactly rlen body bytes after the header");
			CHECK(rc.record_type_in == type && rc.version_in == (0x300 | minor), "type and version recorded");
		}
		if (p == F) { WITNESS_POINT("maximum advertised fragment admitted"); }
	}
	if (!admitted) { WITNESS_POINT("some record refused"); }
#if MODE != 0
	if (!admitted && rc.err == BR_ERR_TOO_LARGE) { WITNESS_POINT("refused for not fitting the buffer"); }
#endif
	return 0;
}
