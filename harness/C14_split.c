/*
 * C14.1 splitting law: for every key, nonce, AAD and input, and EVERY two-way
 * split of the AAD across two aad_inject calls (sa in [0,AL]) and of the data
 * across two run calls (sd in [0,DL]), output and tag equal those of the
 * single-call run.  DIR=1 encrypt, DIR=0 decrypt (arbitrary "ciphertext").
 *   SPLITA=0 / SPLITD=0 : do not split the AAD / the data (one call)
 *   THREE=1             : three-way splits (two symbolic cut points each)
 *   REF=1               : compare against the specification reference of
 *                         C14_ref.h instead of the single-call run of the
 *                         unit, which decides "equals an independent
 *                         implementation" for every split at once.
 */
#include "C14_api.h"

#ifndef REF
#define REF 0
#endif
#ifndef SPLITA
#define SPLITA 1
#endif
#ifndef SPLITD
#define SPLITD 1
#endif
#ifndef THREE
#define THREE 0
#endif

int main(void)
{
	unsigned char key[16], nonce[NLA], aad[ALA], in[DLA];
	unsigned char d1[DLA], d2[DLA], t1[16], t2[16];
	ND_BYTES(key, 16);
	ND_BYTES(nonce, NLA);
	ND_BYTES(aad, ALA);
	ND_BYTES(in, DLA);
	size_t sa = ND_SIZE(), sd = ND_SIZE();
	ASSUME(sa <= AL);
	ASSUME(sd <= DL);
#if THREE
	size_t sa2 = ND_SIZE(), sd2 = ND_SIZE();
	ASSUME(sa2 <= AL - sa);
	ASSUME(sd2 <= DL - sd);
#endif
	for (int i = 0; i < DLA; i++) d1[i] = d2[i] = in[i];

	aead_t a;
	A_init(&a, key);
	A_reset(&a, nonce, NL, AL, DL, TL);
#if SPLITA && THREE
	A_aad_split3(&a, aad, AL, sa, sa2);
#elif SPLITA
	A_aad_split(&a, aad, AL, sa);
#else
	A_aad(&a, aad, AL);
#endif
	A_flip(&a);
#if SPLITD && THREE
	A_run_split3(&a, DIR, d1, DL, sd, sd2);
#elif SPLITD
	A_run_split(&a, DIR, d1, DL, sd);
#else
	A_run(&a, DIR, d1, DL);
#endif
	A_get_tag(&a, t1);

#if REF
	A_ref(key, nonce, aad, in, DIR, d2, t2);
#else
	aead_t b;
	A_init(&b, key);
	A_oneshot(&b, nonce, aad, DIR, d2, t2);
#endif

	for (int i = 0; i < DL; i++) CHECK(d1[i] == d2[i], "split run: same output bytes as the one-shot computation");
	for (int i = 0; i < TL; i++) CHECK(t1[i] == t2[i], "split run: same tag as the one-shot computation");
	WITNESS_POINT("split run completed");
	return 0;
}
