/*
 * C15: reference functions written from the documentation
 * (inc/bearssl_ssl.h: br_suite_translated, br_ssl_server_choices.algo_id,
 * br_ssl_server_get_client_hashes, br_ssl_server_set_single_rsa/_ec,
 * br_ssl_client_certificate_class.choose; src/inner.h: br_ssl_choose_hash).
 * None of them calls code of /repo.
 */
#ifndef C15_REF_H
#define C15_REF_H
#include "inner.h"

/*
 * inner.h: "strict choice order (namely SHA-256, SHA-384, SHA-512, SHA-224,
 * SHA-1). If the mask does not document support of any of these hash
 * functions, then this functions returns 0."  Hash ids: SHA-1 2, SHA-224 3,
 * SHA-256 4, SHA-384 5, SHA-512 6 (bearssl_hash.h).
 */
static int
ref_pref_hash(unsigned bf)
{
	if (bf & (1u << 4)) return 4;   /* SHA-256 */
	if (bf & (1u << 5)) return 5;   /* SHA-384 */
	if (bf & (1u << 6)) return 6;   /* SHA-512 */
	if (bf & (1u << 3)) return 3;   /* SHA-224 */
	if (bf & (1u << 2)) return 2;   /* SHA-1 */
	return 0;
}

/* key-exchange nibble of a translated suite: bits 12..15 */
#define REF_KX(tt)   (((unsigned)(tt) >> 12) & 0xF)

typedef struct {
	int ok;              /* some entry usable */
	unsigned suite;      /* wire id of the first usable entry */
	int signs;           /* that entry is an ECDHE suite (algo_id meaningful) */
	unsigned algo_id;    /* documented algo_id for it */
} ref_choice;

/*
 * Server with a single RSA key.  TLS_RSA_* needs the KEYX usage;
 * TLS_ECDHE_RSA_* needs the SIGN usage and a signature hash: TLS 1.0/1.1
 * "RSA signature must use MD5+SHA-1 (so use 0xFF00)", TLS 1.2 the
 * preferred hash among those the client accepts with RSA (bits 0..7 of
 * the client hashes), 0xFF00 + id.
 */
static ref_choice
ref_choose_rsa(const uint16_t (*st)[2], size_t n, unsigned usages,
	unsigned version, uint32_t hashes)
{
	ref_choice r = { 0, 0, 0, 0 };
	for (size_t u = 0; u < 4; u++) {
		if (u >= n || r.ok) continue;
		unsigned kx = REF_KX(st[u][1]);
		if (kx == 0 /* RSA */) {
			if (usages & 0x10 /* KEYX */) { r.ok = 1; r.suite = st[u][0]; r.signs = 0; }
		} else if (kx == 1 /* ECDHE_RSA */) {
			if (usages & 0x20 /* SIGN */) {
				if (version < 0x0303) {
					r.ok = 1; r.suite = st[u][0]; r.signs = 1; r.algo_id = 0xFF00;
				} else {
					int h = ref_pref_hash(hashes & 0xFF);
					if (h != 0) { r.ok = 1; r.suite = st[u][0]; r.signs = 1; r.algo_id = 0xFF00 + (unsigned)h; }
				}
			}
		}
	}
	return r;
}

/*
 * Server with a single EC key.  TLS_ECDH_RSA_* / TLS_ECDH_ECDSA_* need the
 * KEYX usage and a certificate issued by an RSA / EC CA key respectively;
 * TLS_ECDHE_ECDSA_* needs the SIGN usage and a signature hash: TLS 1.0/1.1
 * "ECDSA must use SHA-1 (0xFF02)", TLS 1.2 the preferred hash among those
 * the client accepts with ECDSA (bits 8..15 of the client hashes).
 */
static ref_choice
ref_choose_ec(const uint16_t (*st)[2], size_t n, unsigned usages,
	unsigned issuer, unsigned version, uint32_t hashes)
{
	ref_choice r = { 0, 0, 0, 0 };
	for (size_t u = 0; u < 4; u++) {
		if (u >= n || r.ok) continue;
		unsigned kx = REF_KX(st[u][1]);
		if (kx == 3 /* ECDH_RSA */) {
			if ((usages & 0x10) && issuer == 1 /* BR_KEYTYPE_RSA */) { r.ok = 1; r.suite = st[u][0]; }
		} else if (kx == 4 /* ECDH_ECDSA */) {
			if ((usages & 0x10) && issuer == 2 /* BR_KEYTYPE_EC */) { r.ok = 1; r.suite = st[u][0]; }
		} else if (kx == 2 /* ECDHE_ECDSA */) {
			if (usages & 0x20) {
				if (version < 0x0303) {
					r.ok = 1; r.suite = st[u][0]; r.signs = 1; r.algo_id = 0xFF02;
				} else {
					int h = ref_pref_hash((hashes >> 8) & 0xFF);
					if (h != 0) { r.ok = 1; r.suite = st[u][0]; r.signs = 1; r.algo_id = 0xFF00 + (unsigned)h; }
				}
			}
		}
	}
	return r;
}

#endif
