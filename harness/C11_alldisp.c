/*
 * C11.c: dispatch of br_ec_all_m15 (real src/ec/ec_all_m15.c).  The three
 * implementations it forwards to (br_ec_p256_m15, br_ec_c25519_m15,
 * br_ec_prime_i15) are link-time symbols; here they are recording stubs.
 * For EVERY curve id (any int) and every argument value: each of the six
 * methods calls exactly the same method of p256_m15 (id 23), c25519_m15
 * (id 29) or prime_i15 (anything else) once, with unchanged arguments, and
 * hands back its result; supported_curves = {23,24,25,29}.
 */
#include "common.h"
#include "inner.h"

static unsigned calls;
static int who, what;
static const void *a_p1, *a_p2, *a_p3, *a_p4;
static size_t a_l1, a_l2, a_l3;
static int a_curve;
static size_t *a_lenp;

static uint32_t ret_u32;
static size_t ret_size, ret_len;
static const unsigned char retbuf[3][4];

#define IMPL_STUBS(ID) \
static const unsigned char *gen_##ID(int curve, size_t *len) { calls++; who = ID; what = 0; a_curve = curve; a_lenp = len; *len = ret_len; return retbuf[ID - 1]; } \
static const unsigned char *ord_##ID(int curve, size_t *len) { calls++; who = ID; what = 1; a_curve = curve; a_lenp = len; *len = ret_len; return retbuf[ID - 1] + 1; } \
static size_t xoff_##ID(int curve, size_t *len) { calls++; who = ID; what = 2; a_curve = curve; a_lenp = len; *len = ret_len; return ret_size; } \
static uint32_t mul_##ID(unsigned char *G, size_t Glen, const unsigned char *x, size_t xlen, int curve) \
{ calls++; who = ID; what = 3; a_p1 = G; a_l1 = Glen; a_p2 = x; a_l2 = xlen; a_curve = curve; return ret_u32; } \
static size_t mulgen_##ID(unsigned char *R, const unsigned char *x, size_t xlen, int curve) \
{ calls++; who = ID; what = 4; a_p1 = R; a_p2 = x; a_l2 = xlen; a_curve = curve; return ret_size; } \
static uint32_t muladd_##ID(unsigned char *A, const unsigned char *B, size_t len, const unsigned char *x, size_t xlen, const unsigned char *y, size_t ylen, int curve) \
{ calls++; who = ID; what = 5; a_p1 = A; a_p2 = B; a_l1 = len; a_p3 = x; a_l2 = xlen; a_p4 = y; a_l3 = ylen; a_curve = curve; return ret_u32; }

IMPL_STUBS(1)
IMPL_STUBS(2)
IMPL_STUBS(3)

const br_ec_impl br_ec_p256_m15   = { 0x00800000, gen_1, ord_1, xoff_1, mul_1, mulgen_1, muladd_1 };
const br_ec_impl br_ec_c25519_m15 = { 0x20000000, gen_2, ord_2, xoff_2, mul_2, mulgen_2, muladd_2 };
const br_ec_impl br_ec_prime_i15  = { 0x03800000, gen_3, ord_3, xoff_3, mul_3, mulgen_3, muladd_3 };

int main(void)
{
	unsigned char A[4], B[4], x[4], y[4];
	int curve = ND_INT();
	int expect = curve == BR_EC_secp256r1 ? 1 : curve == BR_EC_curve25519 ? 2 : 3;
	size_t l1 = ND_SIZE(), l2 = ND_SIZE(), l3 = ND_SIZE(), out;
	ret_u32 = ND_U32();
	ret_size = ND_SIZE();
	ret_len = ND_SIZE();
	int bnull = ND_U8() & 1;
	const unsigned char *Bp = bnull ? NULL : B;

	CHECK(br_ec_all_m15.supported_curves ==
		(((uint32_t)1 << BR_EC_secp256r1) | ((uint32_t)1 << BR_EC_secp384r1) | ((uint32_t)1 << BR_EC_secp521r1) | ((uint32_t)1 << BR_EC_curve25519)),
		"all_m15 announces P-256, P-384, P-521, Curve25519");

	calls = 0; out = 0;
	const unsigned char *g = br_ec_all_m15.generator(curve, &out);
	CHECK(calls == 1 && who == expect && what == 0 && a_curve == curve && a_lenp == &out, "generator forwarded to the right implementation");
	CHECK(g == retbuf[expect - 1] && out == ret_len, "generator result handed back");

	calls = 0; out = 0;
	const unsigned char *o = br_ec_all_m15.order(curve, &out);
	CHECK(calls == 1 && who == expect && what == 1 && a_curve == curve && a_lenp == &out, "order forwarded to the right implementation");
	CHECK(o == retbuf[expect - 1] + 1 && out == ret_len, "order result handed back");

	calls = 0; out = 0;
	size_t xo = br_ec_all_m15.xoff(curve, &out);
	CHECK(calls == 1 && who == expect && what == 2 && a_curve == curve && a_lenp == &out, "xoff forwarded to the right implementation");
	CHECK(xo == ret_size && out == ret_len, "xoff result handed back");

	calls = 0;
	uint32_t r = br_ec_all_m15.mul(A, l1, x, l2, curve);
	CHECK(calls == 1 && who == expect && what == 3 && a_p1 == A && a_l1 == l1 && a_p2 == x && a_l2 == l2 && a_curve == curve, "mul forwarded unchanged to the right implementation");
	CHECK(r == ret_u32, "mul result handed back");

	calls = 0;
	size_t gl = br_ec_all_m15.mulgen(A, x, l2, curve);
	CHECK(calls == 1 && who == expect && what == 4 && a_p1 == A && a_p2 == x && a_l2 == l2 && a_curve == curve, "mulgen forwarded unchanged to the right implementation");
	CHECK(gl == ret_size, "mulgen result handed back");

	calls = 0;
	r = br_ec_all_m15.muladd(A, Bp, l1, x, l2, y, l3, curve);
	CHECK(calls == 1 && who == expect && what == 5 && a_p1 == A && a_p2 == Bp && a_l1 == l1 && a_p3 == x && a_l2 == l2 && a_p4 == y && a_l3 == l3 && a_curve == curve, "muladd forwarded unchanged to the right implementation");
	CHECK(r == ret_u32, "muladd result handed back");

	if (expect == 1) { WITNESS_POINT("P-256 goes to p256_m15"); }
	if (expect == 2) { WITNESS_POINT("Curve25519 goes to c25519_m15"); }
	if (expect == 3) { WITNESS_POINT("everything else goes to prime_i15"); }
	return 0;
}
