/*
 * C20.b (CBC record contexts): sequence numbers, MAC input and explicit IV.
 * Units: the real in_cbc_init / cbc_decrypt / out_cbc_init / cbc_encrypt of
 * src/ssl/ssl_rec_cbc.c.  HMAC (link seam br_hmac_*) and the CBC encryption
 * class are the RECORDING toys of C20_cbc_stubs.h.
 *
 * For one call with all contents / keys / type / version symbolic and two
 * symbolic starting sequence numbers s1, s2 < 2^64-2 (other inputs equal):
 *   - init sets seq = 0;
 *   - decrypt (accepted or rejected): seq = s + 1, exactly one MAC computation
 *     whose input starts with seq||type||version||length;
 *   - encrypt with explicit IV (TLS 1.1+): seq = s + 1; first HMAC computation
 *     is over exactly the 8 bytes be64(seq) with output length = block size and
 *     its output is the first plaintext block handed to CBC encryption (the
 *     per-record IV); second one is the record MAC over
 *     seq||type||version||length||data;
 *   - encrypt with implicit IV (TLS 1.0): application data of more than one
 *     byte is split 1/n-1 into two records MAC'ed with seq and seq+1, seq = s+2;
 *     anything else is one record, seq = s + 1;
 *   - every recorded HMAC input is injective in seq (equal inputs => s1 == s2),
 *     and the IV computation (8 input bytes) can never coincide with a record
 *     MAC computation (>= 13 input bytes).
 * DIR 0 in / 1 out; TYPE (optional: concrete record type); EXPL; PLEN plaintext length (out) ; RL record body length
 * (in); ML MAC length; TOY_BLK block size.
 */
#include "common.h"
#include "C20_cbc_stubs.h"
#include "src/ssl/ssl_rec_cbc.c"

#ifndef DIR
#define DIR 1
#endif
#ifndef EXPL
#define EXPL 1
#endif
#ifndef ML
#define ML 20
#endif
#ifndef PLEN
#define PLEN 5
#endif
#ifndef RL
#define RL 48
#endif

typedef struct {
	uint64_t seq_after;
	unsigned nmac, nenc;
	unsigned char in[HREC_MAX][16], out0[TOY_BLK], enc_first[ENC_MAX][TOY_BLK];
	size_t inlen[HREC_MAX], outlen[HREC_MAX], enc_len[ENC_MAX];
	int accepted;
	size_t out_len;
} obs_t;

static void grab(obs_t *o)
{
	o->nmac = hrec_n;
	o->nenc = encrec_n;
	for (int k = 0; k < HREC_MAX; k++) {
		for (int i = 0; i < 16; i++) o->in[k][i] = hrec_in[k][i];
		o->inlen[k] = hrec_inlen[k];
		o->outlen[k] = hrec_outlen[k];
	}
	for (int i = 0; i < TOY_BLK; i++) o->out0[i] = hrec_out[0][i];
	for (int k = 0; k < ENC_MAX; k++) {
		for (int i = 0; i < TOY_BLK; i++) o->enc_first[k][i] = encrec_first[k][i];
		o->enc_len[k] = encrec_len[k];
	}
}

static int same(const unsigned char *a, const unsigned char *b, size_t n)
{
	int eq = 1;
	for (size_t i = 0; i < n; i++) if (a[i] != b[i]) eq = 0;
	return eq;
}

static void hdr13(unsigned char *h, uint64_t s, int type, unsigned ver, size_t len)
{
	br_enc64be(h, s);
	h[8] = (unsigned char)type;
	br_enc16be(h + 9, ver);
	br_enc16be(h + 11, (unsigned)len);
}

#if DIR
#define SPLIT_ROOM (4 + ((ML + TOY_BLK + 1) & ~(TOY_BLK - 1)))
#define HEAD (5 + (EXPL ? TOY_BLK : SPLIT_ROOM))
#define TAIL (ML + TOY_BLK)
static void one_record(const br_sslrec_out_cbc_context *c0, uint64_t s, int type, unsigned ver, const unsigned char *in, obs_t *o)
{
	br_sslrec_out_cbc_context c = *c0;
	unsigned char buf[HEAD + PLEN + TAIL];
	c.seq = s;
	c20_rec_reset();
	for (size_t i = 0; i < sizeof buf; i++) buf[i] = 0;
	for (size_t i = 0; i < PLEN; i++) buf[HEAD + i] = in[i];
	size_t len = PLEN;
	unsigned char *p = cbc_encrypt(&c, type, ver, buf + HEAD, &len);
	CHECK(p >= buf && p + len <= buf + sizeof buf, "emitted record(s) stay inside the buffer");
	o->accepted = 1;
	o->out_len = len;
	o->seq_after = c.seq;
	grab(o);
}
#else
static void one_record(const br_sslrec_in_cbc_context *c0, uint64_t s, int type, unsigned ver, const unsigned char *in, obs_t *o)
{
	br_sslrec_in_cbc_context c = *c0;
	unsigned char buf[RL];
	c.seq = s;
	c20_rec_reset();
	for (size_t i = 0; i < RL; i++) buf[i] = in[i];
	size_t len = RL;
	unsigned char *p = cbc_decrypt(&c, type, ver, buf, &len);
	o->accepted = p != 0;
	o->out_len = len;
	o->seq_after = c.seq;
	grab(o);
}
#endif

int main(void)
{
	unsigned char key[16], mkey[ML], iv[16], in[(DIR ? PLEN : RL) + 1], h[13];
	ND_BYTES(key, 16);
	ND_BYTES(mkey, ML);
	ND_BYTES(iv, 16);
	ND_BYTES(in, DIR ? PLEN : RL);
#ifdef TYPE
	int type = TYPE;      /* record type concrete for this query (keeps the split / no-split paths apart) */
#else
	int type = ND_U8();
#endif
	unsigned ver = ND_U16();
	uint64_t s1 = ND_U64(), s2 = ND_U64();
	ASSUME(s1 < UINT64_MAX - 1 && s2 < UINT64_MAX - 1);
	obs_t o1, o2;

#if DIR
	br_sslrec_out_cbc_context c0;
	c0.seq = ND_U64();   /* memory content before init: explicit input */
	out_cbc_init(&c0, &rec_cbcenc_vtable, key, 16, 0, mkey, ML, ML, EXPL ? NULL : iv);
#else
	br_sslrec_in_cbc_context c0;
	c0.seq = ND_U64();   /* memory content before init: explicit input */
	in_cbc_init(&c0, &toy_cbcdec_vtable, key, 16, 0, mkey, ML, ML, EXPL ? NULL : iv);
	CHECK(cbc_check_length(&c0, RL), "record length RL is admissible");
#endif
	CHECK(c0.seq == 0, "init sets the sequence number to 0");
	one_record(&c0, s1, type, ver, in, &o1);
	one_record(&c0, s2, type, ver, in, &o2);

#if !DIR
	CHECK(o1.seq_after == s1 + 1 && o2.seq_after == s2 + 1, "decrypt advances the sequence number by exactly one, accepted or not");
	CHECK(o1.nmac == 1 && o1.outlen[0] == ML, "decrypt runs exactly one MAC computation of mac_len bytes");
	br_enc64be(h, s1);
	h[8] = (unsigned char)type;
	br_enc16be(h + 9, ver);
	CHECK(same(o1.in[0], h, 11), "MAC input starts with seq||type||version");
	CHECK(!same(o1.in[0], o2.in[0], 13) || s1 == s2, "equal MAC input headers imply equal sequence numbers");
	if (o1.accepted) {
		hdr13(h, s1, type, ver, o1.out_len);
		CHECK(same(o1.in[0], h, 13), "accepted: MAC input header carries the plaintext length returned");
		WITNESS_POINT("record accepted");
	} else {
		WITNESS_POINT("record rejected");
	}
#elif EXPL
	CHECK(o1.seq_after == s1 + 1 && o2.seq_after == s2 + 1, "encrypt advances the sequence number by exactly one");
	CHECK(o1.nmac == 2 && o1.nenc == 1, "two HMAC computations (IV, MAC) and one CBC run per record");
	br_enc64be(h, s1);
	CHECK(o1.inlen[0] == 8 && o1.outlen[0] == TOY_BLK && same(o1.in[0], h, 8), "explicit IV = HMAC over exactly be64(seq), truncated to the block size");
	CHECK(same(o1.enc_first[0], o1.out0, TOY_BLK), "first block handed to CBC encryption is that HMAC output");
	hdr13(h, s1, type, ver, PLEN);
	CHECK(o1.inlen[1] == 13 + PLEN && o1.outlen[1] == ML && same(o1.in[1], h, 13), "record MAC over seq||type||version||length||data");
	CHECK(o1.inlen[0] != o1.inlen[1], "IV computation and MAC computation have different input lengths");
	CHECK(!same(o1.in[0], o2.in[0], 8) || s1 == s2, "equal IV-HMAC inputs imply equal sequence numbers");
	CHECK(!same(o1.in[1], o2.in[1], 13) || s1 == s2, "equal MAC input headers imply equal sequence numbers");
	CHECK(o1.out_len == 5 + o1.enc_len[0] && (o1.enc_len[0] & (TOY_BLK - 1)) == 0 && o1.enc_len[0] >= TOY_BLK + PLEN + ML + 1
		&& o1.enc_len[0] <= TOY_BLK + PLEN + ML + TOY_BLK, "record = header + IV block + data + MAC + padding to the block size");
	WITNESS_POINT("record encrypted with explicit IV");
	if (s1 != s2) { WITNESS_POINT("distinct sequence numbers"); }
#else
	if (type == BR_SSL_APPLICATION_DATA && PLEN > 1) {
		CHECK(o1.seq_after == s1 + 2 && o2.seq_after == s2 + 2, "TLS 1.0 application data: 1/n-1 split consumes two sequence numbers");
		CHECK(o1.nmac == 2 && o1.nenc == 2, "split: two MACs, two CBC runs");
		hdr13(h, s1, type, ver, 1);
		CHECK(o1.inlen[0] == 14 && same(o1.in[0], h, 13), "split: first record MAC over seq||type||version||1||byte");
		hdr13(h, s1 + 1, type, ver, PLEN - 1);
		CHECK(o1.inlen[1] == 13 + PLEN - 1 && same(o1.in[1], h, 13), "split: second record MAC uses seq+1 and length n-1");
		CHECK(!same(o1.in[1], o2.in[1], 13) || s1 == s2, "equal MAC input headers imply equal sequence numbers (second record)");
#if PLEN > 1 && (!defined(TYPE) || TYPE == 23)
		WITNESS_POINT("application data split in two records");
#endif
	} else {
		CHECK(o1.seq_after == s1 + 1 && o2.seq_after == s2 + 1, "encrypt advances the sequence number by exactly one");
		CHECK(o1.nmac == 1 && o1.nenc == 1, "one MAC, one CBC run");
		hdr13(h, s1, type, ver, PLEN);
		CHECK(o1.inlen[0] == 13 + PLEN && same(o1.in[0], h, 13), "record MAC over seq||type||version||length||data");
#if PLEN <= 1 || !defined(TYPE) || TYPE != 23
		WITNESS_POINT("single record with implicit IV");
#endif
	}
	CHECK(o1.outlen[0] == ML, "MAC output length is mac_len");
	CHECK(!same(o1.in[0], o2.in[0], 13) || s1 == s2, "equal MAC input headers imply equal sequence numbers");
#endif
	return 0;
}
