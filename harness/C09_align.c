/*
 * C09: the ESP8266-port-specific part of br_i15_montymul
 * (src/int/i15_montmul.c): y[] and m[] are read with 32-bit loads of pairs
 * of uint16_t words, on one of four code paths selected by
 * ((intptr_t)y & 2, (intptr_t)m & 2).
 *
 * The real file is #included (not copied).  Parameters, all concrete per
 * query: LEN (value words of the modulus), XOFF/YOFF/MOFF/DOFF in {0,1}:
 * the operand starts at that uint16_t index of its array.  CBMC gives every
 * object a base address whose low bits are 0, so offset 0 is a 4-byte
 * aligned operand and offset 1 a 2-byte-aligned one.
 *
 *  T_MEMSAFE  every operand is an object of exactly OFF + LEN + 1 words (no
 *             slack after the last value word); all contents symbolic.  The
 *             obligations are CBMC's own pointer checks inside the real
 *             function: any read or write outside an operand object fails.
 *             With -DBASE2=1 the pointer-to-integer conversion inside the
 *             included file is displaced by 2, i.e. the model is "every
 *             object base is at an address = 2 mod 4" (legal for a
 *             uint16_t[] object): offset 0 is then the 2-byte-aligned case
 *             with nothing in front of the operand.
 *  T_VALUE    result equals the plain word-serial Montgomery loop (one
 *             16-bit read per word, as in the architecture-neutral
 *             algorithm), for every content.  MUL15 is replaced on both
 *             sides by one uninterpreted function (sound for an equivalence:
 *             it holds for every interpretation, hence for the real
 *             multiplier), so that the solver only has to match the loads.
 *             Operands get one slack word after the last value word here (and
 *             the OFF words in front), so that the
 *             verdict is about values only.
 */
#include "common.h"
#include "inner.h"

#ifndef LEN
#define LEN 4
#endif
#ifndef XOFF
#define XOFF 0
#endif
#ifndef YOFF
#define YOFF 0
#endif
#ifndef MOFF
#define MOFF 0
#endif
#ifndef DOFF
#define DOFF 0
#endif
#ifndef BLBITS
#define BLBITS (15 * LEN)	/* announced bit length: LEN full words unless overridden */
#endif
#define HDR ((((BLBITS) / 15) << 4) + ((BLBITS) % 15))

#ifdef T_VALUE
#ifndef NATIVE_REPLAY
uint32_t __CPROVER_uninterpreted_mul15(uint32_t, uint32_t);
#undef MUL15
#define MUL15(x, y) __CPROVER_uninterpreted_mul15((uint32_t)(x), (uint32_t)(y))
#endif
#define SLACK 1
#else
#define SLACK 0
#endif

#if defined(BASE2) && !defined(NATIVE_REPLAY)
/* (((intptr_t)py) & 2) in the included file becomes
   ((((uintptr_t)2 + (uintptr_t)py)) & 2): object bases at 2 mod 4 */
#define intptr_t uintptr_t)2 + (uintptr_t
#endif
#include "src/int/i15_montmul.c"
#if defined(BASE2) && !defined(NATIVE_REPLAY)
#undef intptr_t
#endif

#ifdef T_VALUE
/* word-serial Montgomery multiplication, 16-bit reads only */
static void
ref_montymul(uint16_t *d, const uint16_t *x, const uint16_t *y, const uint16_t *m, uint16_t m0i)
{
	uint32_t dh = 0;
	for (unsigned i = 0; i <= LEN; i++) d[i] = 0;
	for (unsigned u = 0; u < LEN; u++) {
		uint32_t xu = x[u + 1];
		uint32_t f = MUL15((d[1] + MUL15(xu, y[1])) & 0x7FFF, m0i) & 0x7FFF;
		uint32_t r = 0;
		for (unsigned v = 0; v < LEN; v++) {
			uint32_t z = d[v + 1] + MUL15(xu, y[v + 1]) + MUL15(f, m[v + 1]) + r;
			r = z >> 15;
			d[v] = z & 0x7FFF;
		}
		uint32_t zh = dh + r;
		d[LEN] = zh & 0x7FFF;
		dh = zh >> 15;
	}
	d[0] = m[0];
	/* d >= m or overflow: subtract m once */
	uint32_t b = 0;
	for (unsigned i = 1; i <= LEN; i++) b = ((uint32_t)d[i] - m[i] - b) >> 31;
	if (dh != 0 || b == 0) {
		b = 0;
		for (unsigned i = 1; i <= LEN; i++) {
			uint32_t w = (uint32_t)d[i] - m[i] - b;
			b = w >> 31;
			d[i] = w & 0x7FFF;
		}
	}
}
#endif

int main(void)
{
	uint16_t xb[XOFF + LEN + 1 + SLACK], yb[YOFF + LEN + 1 + SLACK], mb[MOFF + LEN + 1 + SLACK], db[DOFF + LEN + 1 + SLACK];
	uint16_t *x = xb + XOFF, *y = yb + YOFF, *m = mb + MOFF, *d = db + DOFF;
	for (unsigned i = 0; i < XOFF + LEN + 1 + SLACK; i++) xb[i] = ND_U16();
	for (unsigned i = 0; i < YOFF + LEN + 1 + SLACK; i++) yb[i] = ND_U16();
	for (unsigned i = 0; i < MOFF + LEN + 1 + SLACK; i++) mb[i] = ND_U16();
	for (unsigned i = 0; i < DOFF + LEN + 1 + SLACK; i++) db[i] = ND_U16();
	for (unsigned i = 1; i <= LEN; i++) { x[i] &= 0x7FFF; y[i] &= 0x7FFF; m[i] &= 0x7FFF; }
	x[0] = y[0] = m[0] = HDR;
	uint16_t m0i = ND_U16() & 0x7FFF;
#ifdef T_VALUE
	uint16_t dr[LEN + 1];
	uint16_t y_after = y[LEN + 1], m_after = m[LEN + 1];
	br_i15_montymul(d, x, y, m, m0i);
	ref_montymul(dr, x, y, m, m0i);
	for (unsigned i = 0; i <= LEN; i++) CHECK(d[i] == dr[i], "montymul result equals the word-serial loop, whatever the alignment");
	(void)y_after; (void)m_after;
#else
	br_i15_montymul(d, x, y, m, m0i);
#endif
	WITNESS_POINT("end");
	return 0;
}
