/*
 * C04.c: verdict plumbing of the X.509 "minimal" validator's C entry points
 * (xm_start_cert / xm_append / xm_end_cert / xm_end_chain / xm_get_pkey,
 * static functions of src/x509/x509_minimal.c reached by #include), from an
 * arbitrary context state:
 *  - a recorded error is never overwritten (first defect wins) and appended
 *    bytes are ignored once an error is recorded;
 *  - end_chain returns 0 exactly when the engine reached BR_ERR_X509_OK;
 *    an unfinished or empty chain is an error (NOT_TRUSTED / EMPTY_CHAIN);
 *  - get_pkey returns the leaf key and its usages exactly for OK / NOT_TRUSTED.
 */
#include "common.h"
#include "inner.h"
#include "src/x509/x509_minimal.c"

int main(void)
{
	br_x509_minimal_context xc;
#ifdef NATIVE_REPLAY
	NATIVE_FILL(&xc, sizeof xc);
#endif
	const br_x509_class **ctx = &xc.vtable;
	xc.vtable = &br_x509_minimal_vtable;
	xc.err = ND_INT();
	xc.num_certs = ND_U32();
	xc.cert_length = ND_U32();
	xc.key_usages = ND_U8();
	ASSUME(xc.err >= 0 && xc.err < 64);
	int err0 = xc.err;
	unsigned op = ND_U8();
	unsigned char buf[4];
	if (op == 0) {
		uint32_t len = ND_U32();
		xm_start_cert(ctx, len);
		CHECK(err0 == 0 ? (xc.err == (len == 0 ? BR_ERR_X509_TRUNCATED : 0)) : xc.err == err0, "start_cert: empty certificate is TRUNCATED; a recorded error is kept");
		WITNESS_POINT("start_cert");
	} else if (op == 1) {
		ASSUME(err0 != 0);   /* with err == 0 the T0 decoder runs (covered elsewhere) */
		/* concretise err so that the (unreachable) interpreter call is pruned during symex */
		for (int k = 1; k < 64; k++) if (err0 == k) { xc.err = k; xm_append(ctx, buf, 4); }
		CHECK(xc.err == err0, "append: bytes are ignored once an error is recorded");
		WITNESS_POINT("append after error");
	} else if (op == 2) {
		uint32_t n0 = xc.num_certs;
		xm_end_cert(ctx);
		CHECK(err0 != 0 ? xc.err == err0 : xc.err == (xc.cert_length != 0 ? BR_ERR_X509_TRUNCATED : 0), "end_cert: missing bytes are TRUNCATED; a recorded error is kept");
		CHECK(xc.num_certs == n0 + 1, "end_cert counts the certificate");
		WITNESS_POINT("end_cert");
	} else if (op == 3) {
		unsigned r = xm_end_chain(ctx);
		CHECK((r == 0) == (err0 == BR_ERR_X509_OK), "end_chain reports success exactly when validation reached OK");
		if (err0 == 0) CHECK(r == (xc.num_certs == 0 ? BR_ERR_X509_EMPTY_CHAIN : BR_ERR_X509_NOT_TRUSTED), "unfinished validation: EMPTY_CHAIN or NOT_TRUSTED");
		if (err0 != 0 && err0 != BR_ERR_X509_OK) CHECK(r == (unsigned)err0, "the recorded defect is reported with its own code");
		if (r == 0) { WITNESS_POINT("end_chain ok"); } else { WITNESS_POINT("end_chain error"); }
	} else {
		unsigned usages = 0x55;
		const br_x509_pkey *pk = xm_get_pkey(ctx, &usages);
		int ok = (err0 == BR_ERR_X509_OK || err0 == BR_ERR_X509_NOT_TRUSTED);
		CHECK((pk != NULL) == ok, "get_pkey returns a key exactly for OK / NOT_TRUSTED");
		CHECK(ok ? (pk == &xc.pkey && usages == xc.key_usages) : usages == 0x55, "get_pkey returns the leaf key and its usages");
		if (ok) { WITNESS_POINT("get_pkey key"); } else { WITNESS_POINT("get_pkey none"); }
	}
	return 0;
}
