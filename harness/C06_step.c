/*
 * C06 (also C02.c, C07.b, C19 engine part): one inductive step of the real
 * src/ssl/ssl_engine.c from an ARBITRARY engine state satisfying the
 * invariant inv() below.
 *
 * Parameters: -DOP=<n> which API call is the step, -DSHARED=0|1 buffer
 * layout, -DILEN / -DOLEN buffer lengths (concrete per query).
 *
 * Seams: cc->hsrun is a contract stub of the T0 handshake coroutine;
 * cc->in.vtable / cc->out.vtable are contract stubs of the record layers
 * (contracts: see stub comments; the contracts themselves are proved for the
 * real record layers in C01/C16).
 */
#include "common.h"
#include "inner.h"

#ifndef OP
#define OP 1
#endif
#ifndef SHARED
#define SHARED 1
#endif
#ifndef ILEN
#define ILEN 837
#endif
#ifndef OLEN
#define OLEN 597
#endif

#define OP_RECVREC_ACK 1
#define OP_SENDREC_ACK 2
#define OP_RECVAPP_ACK 3
#define OP_SENDAPP_ACK 4
#define OP_FLUSH       5
#define OP_CLOSE       6
#define OP_RENEG       7
#define OP_CLOSED_ANY  8   /* pre-state closed: every entry point keeps it closed */
#define OP_BASE        9   /* br_ssl_engine_set_buffer establishes the invariant */
#define OP_NEWFRAG    10   /* br_ssl_engine_new_max_frag_len keeps the invariant */

#if SHARED
static unsigned char iobuf[ILEN];
#define IBUF iobuf
#define OBUF iobuf
#undef OLEN
#define OLEN ILEN
#else
static unsigned char ibuf_[ILEN];
static unsigned char obuf_[OLEN];
#define IBUF ibuf_
#define OBUF obuf_
#endif

/* ------------------------------------------------------------------ */
/* record layer contract stubs */

/* stub parameters live in globals: writing them into the cc->in / cc->out
   unions through a cast costs minutes of symex (byte-level union updates) */
static struct { size_t cl_min, cl_max; } stub_in;
static struct { size_t head, tail; } stub_out;   /* bytes the layer may use before / after the plaintext */

static int dec_calls, dec_null, enc_calls;
static size_t enc_off, enc_len;          /* ghost: what was handed to encrypt */
static size_t dec_off, dec_len;          /* ghost: region returned by decrypt */

static int stub_check_length(const br_sslrec_in_class *const *ctx, size_t rlen)
{
	(void)ctx;
	return rlen >= stub_in.cl_min && rlen <= stub_in.cl_max;
}
static unsigned char *stub_decrypt(const br_sslrec_in_class **ctx, int type, unsigned ver, void *data, size_t *len)
{
	(void)ctx; (void)type; (void)ver;
	dec_calls++;
	CHECK((unsigned char *)data == IBUF + 5, "decrypt is given the record body at ibuf+5");
	CHECK(*len >= 1 && *len <= ILEN - 5, "decrypt is given a complete record that fits the input buffer");
	if (ND_U8() & 1) { dec_null = 1; return NULL; }
	size_t off = ND_SIZE(), pl = ND_SIZE();
	ASSUME(off <= *len && pl <= *len - off);
	dec_off = 5 + off; dec_len = pl;
	*len = pl;
	return (unsigned char *)data + off;
}
static const br_sslrec_in_class stub_in_vtable = { sizeof(br_sslrec_in_cbc_context), stub_check_length, stub_decrypt };

static void stub_max_plaintext(const br_sslrec_out_class *const *ctx, size_t *start, size_t *end)
{
	(void)ctx;
	/* contract: shrinks [start,end) by its overheads, caps at 16384, leaves >= 512 when the caller gave >= 512+80 */
	*start += stub_out.head;
	size_t len = *end - *start - stub_out.tail;
	if (len > 16384) len = 16384;
	*end = *start + len;
}
static unsigned char *stub_encrypt(const br_sslrec_out_class **ctx, int type, unsigned ver, void *data, size_t *len)
{
	(void)ctx; (void)type; (void)ver;
	enc_calls++;
	enc_off = (size_t)((unsigned char *)data - OBUF);
	enc_len = *len;
	CHECK(enc_off >= 5 + stub_out.head && enc_off + enc_len + stub_out.tail <= OLEN, "encrypt is given a region that leaves room for the record overhead inside obuf");
	size_t h = ND_SIZE(), t = ND_SIZE();
	ASSUME(h <= stub_out.head && t <= stub_out.tail);
	*len = 5 + h + enc_len + t;
	return (unsigned char *)data - 5 - h;
}
static const br_sslrec_out_class stub_out_vtable = { sizeof(br_sslrec_out_cbc_context), stub_max_plaintext, stub_encrypt };

/* ------------------------------------------------------------------ */
/* handshake coroutine contract stub */

static int hs_calls, hs_action_seen, hs_in_offered_appdata, hs_start_over_pending;
static size_t hs_consumed, hs_produced;

static void draw_out_overheads(br_ssl_engine_context *cc)
{
	size_t h = ND_SIZE(), t = ND_SIZE();
	ASSUME(h <= 40 && t <= 40 && 5 + h + t <= 85);
	stub_out.head = h; stub_out.tail = t;
}

/* The context is a LOCAL object of main (unconstrained under CBMC): a zeroed
   static br_ssl_engine_context costs CBMC minutes of constant propagation
   through its unions (measured: 390 s static vs 0.2 s local).  Every field the
   engine code reads in these steps is then set explicitly by arbitrary_state();
   natively the object is zeroed first. */
static const br_sslrec_in_class stub_in_vtable;
static const br_sslrec_out_class stub_out_vtable;
static br_ssl_engine_context *ccp;
#define cc_ (*ccp)

static void stub_hsrun(void *t0ctx)
{
	/* direct pointer to the context (deriving it from t0ctx by byte arithmetic
	   makes every field access a byte-level extraction; DESIGN section 3) */
	br_ssl_engine_context *cc = &cc_;
	CHECK(t0ctx == (void *)&cc_.cpu, "coroutine entered with the engine's own T0 context");
	hs_calls++;
	CHECK(hs_calls <= 3, "coroutine resumed at most three times per API call in this model");
	if (cc->action) hs_action_seen = cc->action;
	/* The real handshake programs start a (re)negotiation on an explicit request (action 2 while application_data == 1,
	   ssl_hs_common.t0 wait-co) or on an incoming handshake message while application data flows (main loops of
	   ssl_hs_client.t0 / ssl_hs_server.t0); do-handshake then sets application_data = 0 and record_type_out = 22 at once,
	   WITHOUT flush-record (ssl_hs_client.t0:1158-1164, ssl_hs_server.t0:1382-1384): application payload still buffered
	   at that moment can no longer be sent (flush() needs application_data & 1; the processor is offered no room). */
	if (cc->application_data == 1 && br_ssl_engine_has_pld_to_send(cc)
		&& (cc->action == 2 || (cc->hlen_in > 0 && cc->record_type_in == BR_SSL_HANDSHAKE)))
		hs_start_over_pending = 1;
	CHECK(cc->hlen_in == 0 || (cc->hbuf_in >= IBUF + 5 && cc->hbuf_in + cc->hlen_in <= IBUF + ILEN), "handshake input region inside ibuf");
	CHECK(cc->hlen_out == 0 || (cc->hbuf_out >= OBUF + 5 && cc->hbuf_out + cc->hlen_out <= OBUF + OLEN), "handshake output region inside obuf");
	CHECK(cc->hlen_in == 0 || cc->record_type_in != BR_SSL_APPLICATION_DATA, "application data is never offered to the handshake coroutine");
	CHECK(cc->hlen_in == 0 || cc->hlen_out == 0 || IBUF != OBUF, "input and output offered together only with disjoint buffers");
	/* consume some input */
	size_t cin = ND_SIZE();
	ASSUME(cin <= cc->hlen_in);
	if (cin > 0) { cc->hbuf_in += cin; cc->hlen_in -= cin; hs_consumed += cin; }
	/* produce some output; the coroutine never leaves an unfinished record (ssl_engine.c comment in jump_handshake) */
	if (ND_U8() & 1) {
		size_t cout = ND_SIZE();
		ASSUME(cout <= cc->hlen_out);
		if (cout > 0 && !br_ssl_engine_has_pld_to_send(cc)) {
			cc->record_type_out = ND_U8();   /* wait-rectype-out sets the type only on an empty output buffer */
		}
		if (cout > 0) { cc->hbuf_out += cout; cc->hlen_out -= cout; hs_produced += cout; }
		br_ssl_engine_flush_record(cc);
		CHECK(!br_ssl_engine_has_pld_to_send(cc), "flush-record leaves no buffered payload unsent: the application's earlier bytes go out in their own record before close_notify / HelloRequest / a warning is written (C19)");
		if (cc->oxa == cc->oxb) draw_out_overheads(cc);   /* switch-encryption (out) right after flush-record */
	}
	/* switch-encryption (in) only when no more incoming bytes (ssl_hs_common.t0 read-CCS-Finished) */
	if ((ND_U8() & 1) && cc->hlen_in == 0 && br_ssl_engine_recvrec_finished(cc)) {
		stub_in.cl_min = ND_SIZE(); stub_in.cl_max = ND_SIZE();
		ASSUME(stub_in.cl_min >= 1 && stub_in.cl_max <= 16384 + 325);
		cc->incrypt = 1;
	}
	{
		unsigned char ad = ND_U8();
		if (ad <= 2) cc->application_data = ad;
	}
	if (ND_U8() & 1) cc->shutdown_recv = 1;
	if (ND_U8() & 1) br_ssl_engine_fail(cc, (int)(ND_U16()));   /* 0 = clean closure */
}

/* ------------------------------------------------------------------ */
/* the invariant */

static int inv(const br_ssl_engine_context *cc)
{
	if (cc->ibuf != IBUF || cc->obuf != OBUF || cc->ibuf_len != ILEN || cc->obuf_len != OLEN) return 0;
	if (cc->iomode > 3) return 0;
	if (cc->application_data > 2) return 0;
	if (cc->incrypt > 1) return 0;
	if (cc->shutdown_recv > 1) return 0;
	if (cc->iomode == BR_IO_FAILED) return 1;
	if (cc->max_frag_len < 512 || cc->max_frag_len > 16384) return 0;
	{
		if (cc->out.vtable != &stub_out_vtable) return 0;
		if (stub_out.head > 40 || stub_out.tail > 40 || 5 + stub_out.head + stub_out.tail > 85) return 0;
		/* output registers */
		if (cc->oxa == cc->oxb) {
			/* a finished record is being sent */
			if (!(cc->oxa < cc->oxc && cc->oxc <= OLEN)) return 0;
		} else {
			/* accumulating plaintext in [oxc, oxa), room up to oxb */
			if (!(cc->oxc <= cc->oxa && cc->oxa < cc->oxb)) return 0;
			if (!(cc->oxc >= 5 + stub_out.head && cc->oxb <= OLEN && stub_out.tail <= OLEN - cc->oxb)) return 0;
		}
	}
	/* input registers */
	if (cc->ixa < 5) {
		if (cc->ixa != cc->ixb || cc->ixc != 5 - cc->ixa) return 0;
	} else if (!cc->incrypt) {
		if (cc->ixa == cc->ixb) {
			if (!(cc->ixa == 5 && cc->ixc >= 1 && cc->ixc <= 16384)) return 0;
		} else {
			if (!(cc->ixa < cc->ixb && cc->ixb <= ILEN && cc->ixc <= 16384 && (cc->ixb - 5) <= 16384 - cc->ixc)) return 0;
		}
	} else {
		if (cc->in.vtable != &stub_in_vtable) return 0;
		if (cc->ixa == cc->ixb) {
			if (!(cc->ixc >= 1 && cc->ixc <= ILEN && cc->ixa <= ILEN - cc->ixc)) return 0;
		} else {
			if (!(cc->ixa < cc->ixb && cc->ixb <= ILEN && cc->ixc == 0)) return 0;
		}
	}
	/* half-duplex coupling of a shared buffer */
	{
		int in_idle = (cc->ixa == 0 && cc->ixb == 0 && cc->ixc == 5);
		int out_idle = (cc->oxa != cc->oxb && cc->oxa == cc->oxc);
		if (IBUF == OBUF) {
			if (cc->iomode == BR_IO_IN && !out_idle) return 0;
			if (cc->iomode == BR_IO_OUT && !in_idle) return 0;
			if (cc->iomode == BR_IO_INOUT && !(in_idle && out_idle)) return 0;
			if (cc->iomode == BR_IO_IN && in_idle) return 0;
			if (cc->iomode == BR_IO_OUT && out_idle) return 0;
		} else {
			if (cc->iomode != BR_IO_INOUT) return 0;
		}
	}
	return 1;
}

static int region_ok(const unsigned char *p, size_t len, const unsigned char *base, size_t blen)
{
	return p != NULL && len > 0 && p >= base && len <= blen && (size_t)(p - base) <= blen - len;
}

#define cc cc_

static void arbitrary_state(void)
{
	cc.ibuf = IBUF; cc.obuf = OBUF; cc.ibuf_len = ILEN; cc.obuf_len = OLEN;
	cc.iomode = ND_U8(); cc.err = ND_INT(); cc.incrypt = ND_U8();
	cc.ixa = ND_SIZE(); cc.ixb = ND_SIZE(); cc.ixc = ND_SIZE();
	cc.oxa = ND_SIZE(); cc.oxb = ND_SIZE(); cc.oxc = ND_SIZE();
	cc.record_type_in = ND_U8(); cc.record_type_out = ND_U8();
	cc.version_in = ND_U16(); cc.version_out = ND_U16();
	cc.application_data = ND_U8(); cc.shutdown_recv = ND_U8();
	cc.max_frag_len = ND_SIZE();
	cc.reneg = ND_U8(); cc.flags = ND_U32();
	cc.hsrun = stub_hsrun;
	cc.in.vtable = &stub_in_vtable;
	cc.out.vtable = &stub_out_vtable;
	cc.hbuf_in = NULL; cc.hbuf_out = NULL; cc.saved_hbuf_out = NULL; cc.hlen_in = 0; cc.hlen_out = 0; cc.action = 0;
	{
		stub_out.head = ND_SIZE(); stub_out.tail = ND_SIZE();
		stub_in.cl_min = ND_SIZE(); stub_in.cl_max = ND_SIZE();
		ASSUME(stub_in.cl_min >= 1 && stub_in.cl_max <= 16384 + 325);
	}
	for (int i = 0; i < 5; i++) IBUF[i] = ND_U8();
	ASSUME(inv(&cc));
}

static void post_checks(int was_closed, int old_err)
{
	unsigned st = br_ssl_engine_current_state(&cc);
	size_t l; unsigned char *p;

	CHECK(inv(&cc), "engine invariant preserved by the step");
	if (was_closed) {
		CHECK(br_ssl_engine_closed(&cc) && cc.err == old_err, "closed is permanent and the first error code is retained");
	}
	CHECK(!(st & BR_SSL_CLOSED) || st == BR_SSL_CLOSED, "closed excludes every other flag");
	CHECK(!((st & BR_SSL_RECVREC) && (st & BR_SSL_RECVAPP)), "need-record-bytes never offered together with plaintext-available");
	CHECK(!((st & BR_SSL_SENDREC) && (st & BR_SSL_SENDAPP)), "records-to-send never offered together with room-for-plaintext");
	p = br_ssl_engine_recvrec_buf(&cc, &l);
	CHECK((p != NULL) == ((st & BR_SSL_RECVREC) != 0), "recvrec flag iff buffer offered");
	CHECK(p == NULL ? l == 0 : region_ok(p, l, IBUF, ILEN), "recvrec region non-empty and inside ibuf");
	p = br_ssl_engine_recvapp_buf(&cc, &l);
	CHECK((p != NULL) == ((st & BR_SSL_RECVAPP) != 0), "recvapp flag iff buffer offered");
	CHECK(p == NULL ? l == 0 : region_ok(p, l, IBUF, ILEN), "recvapp region non-empty and inside ibuf");
	p = br_ssl_engine_sendapp_buf(&cc, &l);
	CHECK((p != NULL) == ((st & BR_SSL_SENDAPP) != 0), "sendapp flag iff buffer offered");
	CHECK(p == NULL ? l == 0 : region_ok(p, l, OBUF, OLEN), "sendapp region non-empty and inside obuf");
	p = br_ssl_engine_sendrec_buf(&cc, &l);
	CHECK((p != NULL) == ((st & BR_SSL_SENDREC) != 0), "sendrec flag iff buffer offered");
	CHECK(p == NULL ? l == 0 : region_ok(p, l, OBUF, OLEN), "sendrec region non-empty and inside obuf");
	if (br_ssl_engine_closed(&cc)) {
		CHECK(br_ssl_engine_recvrec_buf(&cc, &l) == NULL && br_ssl_engine_recvapp_buf(&cc, &l) == NULL
			&& br_ssl_engine_sendapp_buf(&cc, &l) == NULL && br_ssl_engine_sendrec_buf(&cc, &l) == NULL,
			"all four buffer queries return NULL once closed");
	} else {
		/* liveness as a safety condition: some operation is offered, unless the
		   engine is waiting on the handshake coroutine (handshake-type payload pending)
		   or the receive side was shut down by the coroutine */
		size_t pl;
		int hs_pending = (cc.ixa != cc.ixb && cc.record_type_in != BR_SSL_APPLICATION_DATA)
			|| (cc.ixa != cc.ixb && !(cc.application_data & 1));
		(void)pl;
		CHECK(st != 0 || hs_pending || cc.shutdown_recv || !(cc.application_data & 1), "while not closed some operation is offered (data phase)");
	}
}

int main(void)
{
	br_ssl_engine_context the_context;
#ifdef NATIVE_REPLAY
	NATIVE_FILL(&the_context, sizeof the_context);
#endif
	ccp = &the_context;
#if OP == OP_BASE
	{
		size_t blen = ND_SIZE();
		int bidi = ND_U8() & 1;
		static unsigned char big[ILEN];
		ASSUME(blen <= ILEN);
		cc.ibuf = NULL;
		br_ssl_engine_set_buffer(&cc, big, blen, bidi);
		if (blen < 512 + 325 || (bidi && blen < 512 + 325 + 512 + 85)) {
			CHECK(br_ssl_engine_closed(&cc) && cc.err == BR_ERR_BAD_PARAM, "set_buffer refuses too small a buffer with BR_ERR_BAD_PARAM");
			WITNESS_POINT("base: too small");
		} else {
			CHECK(!br_ssl_engine_closed(&cc), "set_buffer accepts a buffer of at least the documented minimum");
			CHECK(cc.ibuf == big && cc.ibuf_len + (bidi ? cc.obuf_len : 0) == blen, "buffer split covers the given memory exactly");
			CHECK(bidi ? (cc.obuf == big + cc.ibuf_len) : (cc.obuf == big && cc.obuf_len == blen), "output buffer placement");
			CHECK(cc.ixa == 0 && cc.ixb == 0 && cc.ixc == 5 && cc.iomode == BR_IO_INOUT, "input side ready for a record header");
			CHECK(cc.oxa == cc.oxc && cc.oxc == 5 && cc.oxa < cc.oxb && cc.oxb <= cc.obuf_len && cc.oxb - cc.oxa <= cc.max_frag_len, "output side ready, room within obuf and max_frag_len");
			CHECK(cc.max_frag_len >= 512 && cc.max_frag_len <= 16384 && cc.obuf_len >= cc.max_frag_len + 85 && cc.ibuf_len >= cc.max_frag_len + 325, "max_frag_len fits both buffers with the documented overheads");
			CHECK(cc.ibuf_len <= blen && cc.obuf_len <= blen && (!bidi || (cc.ibuf + cc.ibuf_len <= cc.obuf && cc.obuf + cc.obuf_len <= big + blen)), "input and output parts lie inside the caller's buffer and do not overlap");
#ifdef BASE_BIDI
			if (bidi) { WITNESS_POINT("base: accepted bidi"); }
#endif
			WITNESS_POINT("base: accepted");
		}
		return 0;
	}
#else
	arbitrary_state();
	int was_closed = br_ssl_engine_closed(&cc);
	int old_err = cc.err;
	size_t len, n;
	unsigned char *b;

#if OP == OP_CLOSED_ANY
	ASSUME(was_closed);
	{
		unsigned which = ND_U8();
		if (which == 0) br_ssl_engine_flush(&cc, ND_U8() & 1);
		else if (which == 1) br_ssl_engine_close(&cc);
		else if (which == 2) { int r = br_ssl_engine_renegotiate(&cc); CHECK(r == 0, "renegotiate refused when closed"); }
	}
	CHECK(hs_calls == 0, "coroutine never entered once closed");
	post_checks(was_closed, old_err);
	WITNESS_POINT("closed pre-state");
	return 0;
#else
	ASSUME(!was_closed);
#endif

#if OP == OP_RECVREC_ACK
	b = br_ssl_engine_recvrec_buf(&cc, &len);
	ASSUME(b != NULL);
	CHECK(region_ok(b, len, IBUF, ILEN), "offered recvrec region is non-empty and inside ibuf");
	n = ND_SIZE();
	ASSUME(n >= 1 && n <= len);
	{
		size_t boff = (size_t)(b - IBUF);
		for (size_t i = 0; i < 5; i++) if (boff + i < 5 && i < n) IBUF[boff + i] = ND_U8();   /* transport writes header bytes */
	}
	size_t pre_ixa = cc.ixa, pre_ixc = cc.ixc;
	int pre_incrypt = cc.incrypt;
	unsigned char pre_ad = cc.application_data;
	br_ssl_engine_recvrec_ack(&cc, n);
	CHECK(!hs_start_over_pending, "an incoming handshake message is never handed to the handshake processor over unflushed application data (peer-initiated renegotiation; C19)");
	/* C02.c */
	if (dec_null) {
		CHECK(br_ssl_engine_closed(&cc) && cc.err == BR_ERR_BAD_MAC, "a record rejected by the record layer closes the engine with BR_ERR_BAD_MAC");
		WITNESS_POINT("decrypt rejected");
	}
	if (dec_calls) {
		CHECK(pre_incrypt && pre_ixa >= 5 && pre_ixc == n, "records are decrypted only when complete");
		WITNESS_POINT("decrypt called");
	}
	if (pre_ixa + n == 5 && !br_ssl_engine_closed(&cc) && hs_calls == 0) {
		unsigned rlen = ((unsigned)IBUF[3] << 8) | IBUF[4];
		CHECK(pre_incrypt ? rlen <= ILEN - 5 : rlen <= 16384, "over-long record length refused at the header, before any body byte is accepted");
		/* C02: once protection is active EVERY record - also an empty one - must have a length the record layer
		   admits (room for MAC / tag); otherwise a bare header would be accepted without any authentication */
		CHECK(!pre_incrypt || (rlen >= stub_in.cl_min && rlen <= stub_in.cl_max), "with encryption active a record header is accepted only if the record layer admits its length");
		WITNESS_POINT("header completed");
	}
	/* C19: data arriving after the local close request is discarded, never delivered */
	if (!br_ssl_engine_closed(&cc) && hs_calls == 0 && pre_ad == 2) {
		size_t l2;
		CHECK(br_ssl_engine_recvapp_buf(&cc, &l2) == NULL, "application data arriving after a local close request is not delivered");
	}
#elif OP == OP_SENDREC_ACK
	b = br_ssl_engine_sendrec_buf(&cc, &len);
	ASSUME(b != NULL);
	CHECK(region_ok(b, len, OBUF, OLEN), "offered sendrec region is non-empty and inside obuf");
	n = ND_SIZE();
	ASSUME(n >= 1 && n <= len);
	size_t pre_oxa = cc.oxa, pre_oxc = cc.oxc;
	unsigned char pre_ad2 = cc.application_data, pre_rt_out = cc.record_type_out;
	br_ssl_engine_sendrec_ack(&cc, n);
	if (n == len) {
		/* ssl_engine.c implementation notes: the handshake processor is invoked when "an outgoing record has
		   just finished being sent, and the application data flag is cleared" (application_data 0, or 2 =
		   closing: close_notify still has to be produced), and for non-application records (renegotiation) */
		int must_resume = (pre_rt_out != BR_SSL_APPLICATION_DATA) || pre_ad2 != 1;
		CHECK((hs_calls >= 1) == must_resume, "coroutine resumed after the record is fully sent exactly when application data is not flowing (handshake, or closure in progress)");
		if (pre_ad2 == 2 && pre_rt_out == BR_SSL_APPLICATION_DATA) { WITNESS_POINT("pending data sent during closure"); }
	}
	if (n < len && !br_ssl_engine_closed(&cc)) {
		size_t l2; unsigned char *b2 = br_ssl_engine_sendrec_buf(&cc, &l2);
		CHECK(b2 == b + n && l2 == len - n, "partial sendrec ack leaves exactly the remaining record bytes, in order");
		CHECK(hs_calls == 0, "coroutine not entered before the record is fully sent");
		WITNESS_POINT("partial sendrec ack");
	}
	(void)pre_oxa; (void)pre_oxc;
#elif OP == OP_RECVAPP_ACK
	b = br_ssl_engine_recvapp_buf(&cc, &len);
	ASSUME(b != NULL);
	CHECK(region_ok(b, len, IBUF, ILEN), "offered recvapp region is non-empty and inside ibuf");
	n = ND_SIZE();
	ASSUME(n >= 1 && n <= len);
	br_ssl_engine_recvapp_ack(&cc, n);
	CHECK(hs_calls == 0, "recvapp ack does not enter the coroutine");
	if (n < len) {
		size_t l2; unsigned char *b2 = br_ssl_engine_recvapp_buf(&cc, &l2);
		CHECK(b2 == b + n && l2 == len - n, "partial recvapp ack leaves exactly the remaining plaintext bytes, in order");
		WITNESS_POINT("partial recvapp ack");
	} else {
		size_t l2;
		CHECK(br_ssl_engine_recvapp_buf(&cc, &l2) == NULL, "fully acknowledged plaintext is not offered again");
	}
#elif OP == OP_SENDAPP_ACK
	b = br_ssl_engine_sendapp_buf(&cc, &len);
	ASSUME(b != NULL);
	CHECK(region_ok(b, len, OBUF, OLEN), "offered sendapp region is non-empty and inside obuf");
	n = ND_SIZE();
	ASSUME(n >= 1 && n <= len);
	size_t pre_oxa = cc.oxa, pre_oxc = cc.oxc;
	br_ssl_engine_sendapp_ack(&cc, n);
	CHECK(hs_calls == 0, "sendapp ack does not enter the coroutine");
	if (enc_calls) {
		CHECK(enc_calls == 1 && enc_off == pre_oxc && enc_len == (pre_oxa - pre_oxc) + n, "a flushed record carries exactly the accumulated plaintext bytes, once and in order");
		CHECK(n == len, "automatic flush only when the offered room is used up");
		WITNESS_POINT("sendapp ack filled the record");
	} else {
		size_t l2; unsigned char *b2 = br_ssl_engine_sendapp_buf(&cc, &l2);
		CHECK(b2 == b + n && l2 == len - n && cc.oxc == pre_oxc, "partial sendapp ack keeps the accumulated bytes and offers the rest of the room");
		WITNESS_POINT("partial sendapp ack");
	}
#elif OP == OP_FLUSH
	{
		int force = ND_U8() & 1;
		size_t pre_oxa = cc.oxa, pre_oxc = cc.oxc, l0;
		int could_send = br_ssl_engine_sendapp_buf(&cc, &l0) != NULL;
		br_ssl_engine_flush(&cc, force);
		CHECK(hs_calls == 0, "flush does not enter the coroutine");
		if (enc_calls) {
			CHECK(could_send, "flush assembles a record only when the engine is ready to accept application data");
			CHECK(enc_calls == 1 && enc_off == pre_oxc && enc_len == pre_oxa - pre_oxc && (enc_len > 0 || force), "flush wraps exactly the buffered application bytes (empty record only when forced)");
			WITNESS_POINT("flush produced a record");
		} else {
			CHECK(cc.oxa == pre_oxa && cc.oxc == pre_oxc, "flush with nothing to do changes nothing");
		}
	}
#elif OP == OP_CLOSE
	{
		size_t l0;
		int unread = br_ssl_engine_recvapp_buf(&cc, &l0) != NULL;
		br_ssl_engine_close(&cc);
		CHECK(hs_calls >= 1 && hs_action_seen == 1, "close enters the coroutine with the close action");
		CHECK(!hs_in_offered_appdata, "unread application data is not handed to the coroutine");
		if (!br_ssl_engine_closed(&cc) && unread && hs_calls == 1 && cc.application_data != 1) {
			CHECK(br_ssl_engine_recvapp_buf(&cc, &l0) == NULL, "close discards unread application data");
		}
		/* the discard must really happen (not merely become invisible because the coroutine cleared the
		   application-data flag): no received plaintext may stay pending in the input buffer */
		if (!br_ssl_engine_closed(&cc) && unread) {
			CHECK(cc.ixa == cc.ixb, "after close no unread application data stays pending in the input buffer");
			WITNESS_POINT("close with unread data");
		}
		WITNESS_POINT("close");
	}
#elif OP == OP_RENEG
	{
		size_t l0;
		int unread = br_ssl_engine_recvapp_buf(&cc, &l0) != NULL;
		int refuse = cc.reneg == 1 || (cc.flags & BR_OPT_NO_RENEGOTIATION) != 0 || unread;
		int r = br_ssl_engine_renegotiate(&cc);
		CHECK(r == !refuse, "renegotiate refused exactly when disabled, unsupported by the peer, or unread data is pending");
		CHECK(refuse ? hs_calls == 0 : (hs_calls >= 1 && hs_action_seen == 2), "coroutine entered with the renegotiate action only when accepted");
		CHECK(!hs_start_over_pending, "a renegotiation is never handed to the handshake processor over unflushed application data (C19: the bytes written before the request must still reach the peer)");
		if (!refuse && cc.oxa != cc.oxb && hs_calls >= 1) { WITNESS_POINT("renegotiate with a record to send"); }
		if (refuse) { WITNESS_POINT("renegotiate refused"); } else { WITNESS_POINT("renegotiate accepted"); }
	}
#elif OP == OP_NEWFRAG
	{
		unsigned mf = ND_U32();
		ASSUME(mf == 512 || mf == 1024 || mf == 2048 || mf == 4096);
		ASSUME(mf <= cc.max_frag_len);
		size_t pre_oxb = cc.oxb, pre_oxa = cc.oxa;
		br_ssl_engine_new_max_frag_len(&cc, mf);
		CHECK(cc.oxb <= pre_oxb && cc.oxa == pre_oxa, "new_max_frag_len never grows the room and keeps buffered bytes");
		WITNESS_POINT("new max frag len");
	}
#endif
#if OP != OP_CLOSED_ANY
	post_checks(was_closed, old_err);
	WITNESS_POINT("step done");
#endif
	return 0;
#endif
}
