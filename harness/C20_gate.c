/*
 * C20.a seed gate: the real br_ssl_client_reset / br_ssl_server_reset
 * (src/ssl/ssl_client.c, ssl_server.c) over the real br_ssl_engine_init_rand,
 * br_ssl_engine_inject_entropy, br_ssl_engine_set_buffer,
 * br_ssl_engine_hs_reset (src/ssl/ssl_engine.c, linked unmodified).
 *
 * Stubs (link seam / function pointers; none of them is the unit):
 *   br_prng_seeder_system   contract stub: by a symbolic choice returns 0 (no
 *                           system source), a seeder that fails (returns 0),
 *                           or a seeder that succeeds (injects 32 bytes with
 *                           the PRNG's update method, returns 1); counts calls
 *   br_hmac_drbg_*          recording stubs (counts, last update arguments)
 *   br_ssl_hs_{client,server}_{init_main,run}
 *                           recording stubs "coroutine entered"; the run stub
 *                           behaves like a handshake that wants to talk: if it
 *                           is offered output room it writes one handshake
 *                           byte and flushes the record, so an entered
 *                           coroutine is visible as pending output
 *
 * History explored: fresh context (see main), any subset of {sha256, sha384,
 * sha1} configured, buffer set (bidi or not), then two rounds of
 * [optionally inject 16 symbolic bytes of entropy; reset].
 *
 * ROLE: 0 client, 1 server.
 */
#include "common.h"
#include "inner.h"

#ifndef ROLE
#define ROLE 0
#endif

static int sys_mode;                 /* 0: none, 1: failing seeder, 2: succeeding seeder */
static unsigned n_sys_query, n_seeder_run, n_drbg_init, n_drbg_update, n_hs_init, n_hs_run;
static const void *last_update_seed;
static size_t last_update_len;
static const br_hmac_drbg_context *last_update_ctx;

static void stub_prng_init(const br_prng_class **ctx, const void *params, const void *seed, size_t len)
{
	(void)ctx; (void)params; (void)seed; (void)len;
}
static void stub_prng_generate(const br_prng_class **ctx, void *out, size_t len)
{
	(void)ctx; (void)out; (void)len;
}
static void stub_prng_update(const br_prng_class **ctx, const void *seed, size_t len)
{
	br_hmac_drbg_update((br_hmac_drbg_context *)(void *)ctx, seed, len);
}
const br_prng_class br_hmac_drbg_vtable = { sizeof(br_hmac_drbg_context), stub_prng_init, stub_prng_generate, stub_prng_update };

void br_hmac_drbg_init(br_hmac_drbg_context *ctx, const br_hash_class *digest_class, const void *seed, size_t seed_len)
{
	(void)seed; (void)seed_len;
	ctx->vtable = &br_hmac_drbg_vtable;
	ctx->digest_class = digest_class;
	n_drbg_init++;
}
void br_hmac_drbg_update(br_hmac_drbg_context *ctx, const void *seed, size_t seed_len)
{
	last_update_ctx = ctx;
	last_update_seed = seed;
	last_update_len = seed_len;
	n_drbg_update++;
}
void br_hmac_drbg_generate(br_hmac_drbg_context *ctx, void *out, size_t len)
{
	(void)ctx; (void)out; (void)len;
}

static int seeder_fail(const br_prng_class **ctx)
{
	(void)ctx;
	n_seeder_run++;
	return 0;
}
static int seeder_ok(const br_prng_class **ctx)
{
	static const unsigned char os_bytes[32] = { 1, 2, 3 };
	n_seeder_run++;
	(*ctx)->update(ctx, os_bytes, sizeof os_bytes);
	return 1;
}
br_prng_seeder br_prng_seeder_system(const char **name)
{
	n_sys_query++;
	if (name != NULL) *name = sys_mode == 0 ? "none" : "stub";
	if (sys_mode == 0) return 0;
	return sys_mode == 1 ? &seeder_fail : &seeder_ok;
}

static br_ssl_engine_context *the_engine;
static void hs_init_stub(void *t0ctx)
{
	(void)t0ctx;
	n_hs_init++;
}
static void hs_run_stub(void *t0ctx)
{
	br_ssl_engine_context *eng = the_engine;   /* == container of t0ctx (checked) */
	__CPROVER_assert(t0ctx == (void *)&eng->cpu, "hsrun is handed the engine's own T0 context");
	n_hs_run++;
	if (eng->hlen_out > 0) {
		eng->record_type_out = BR_SSL_HANDSHAKE;
		eng->version_out = BR_TLS10;
		*eng->hbuf_out++ = 1;
		eng->hlen_out--;
		br_ssl_engine_flush_record(eng);
	}
}
void br_ssl_hs_client_init_main(void *t0ctx) { hs_init_stub(t0ctx); }
void br_ssl_hs_client_run(void *t0ctx) { hs_run_stub(t0ctx); }
void br_ssl_hs_server_init_main(void *t0ctx) { hs_init_stub(t0ctx); }
void br_ssl_hs_server_run(void *t0ctx) { hs_run_stub(t0ctx); }

static const br_hash_class dummy_hash;   /* never run: the DRBG is a stub */

#define ENG (&ctx.eng)
static unsigned char iobuf[1600];
static unsigned char seed[2][16];

int main(void)
{
	/*
	 * Pre-state. Natively: the documented br_ssl_{client,server}_zero.
	 * Under CBMC the context is a local object whose fields are all
	 * UNCONSTRAINED except the ones the gate reads before writing
	 * (rng_init_done, rng_os_rand_done, the hash table): more general than
	 * the zeroed context, and it avoids a 4 kB constant structure
	 * (symex constant propagation over it did not finish in 240 s).
	 */
#if ROLE == 0
	br_ssl_client_context ctx;
#else
	br_ssl_server_context ctx;
#endif
#ifdef NATIVE_REPLAY
#if ROLE == 0
	br_ssl_client_zero(&ctx);
#else
	br_ssl_server_zero(&ctx);
#endif
#endif
	ctx.eng.rng_init_done = 0;
	ctx.eng.rng_os_rand_done = 0;
	for (int i = 0; i < 6; i++) ctx.eng.mhash.impl[i] = 0;
	the_engine = ENG;
	sys_mode = ND_U8();
	ASSUME(sys_mode <= 2);
	int have256 = ND_U8() & 1, have384 = ND_U8() & 1, have1 = ND_U8() & 1, bidi = ND_U8() & 1;
	int with_name = ND_U8() & 1, resume = ND_U8() & 1;
	int inject[2];
	inject[0] = ND_U8() & 1;
	inject[1] = ND_U8() & 1;
	ND_BYTES(seed[0], 16);
	ND_BYTES(seed[1], 16);

	if (have256) br_ssl_engine_set_hash(ENG, br_sha256_ID, &dummy_hash);
	if (have384) br_ssl_engine_set_hash(ENG, br_sha384_ID, &dummy_hash);
	if (have1) br_ssl_engine_set_hash(ENG, br_sha1_ID, &dummy_hash);
	br_ssl_engine_set_buffer(ENG, iobuf, sizeof iobuf, bidi);
	int have_hash = have256 || have384 || have1;
	int injected = 0;

	for (int round = 0; round < 2; round++) {
		if (inject[round]) {
			unsigned u0 = n_drbg_update;
			br_ssl_engine_inject_entropy(ENG, seed[round], 16);
			if (have_hash) {
				CHECK(n_drbg_update == u0 + 1 && last_update_ctx == &ENG->rng
					&& last_update_seed == seed[round] && last_update_len == 16,
					"injected entropy is handed to the engine DRBG");
				injected = 1;
			}
		}
		unsigned i0 = n_hs_init, r0 = n_hs_run;
#if ROLE == 0
		int r = br_ssl_client_reset(&ctx, with_name ? "a.b" : NULL, resume);
#else
		int r = br_ssl_server_reset(&ctx);
#endif
		size_t olen = 7;
		unsigned char *obuf = br_ssl_engine_sendrec_buf(ENG, &olen);
		int seeded = injected || sys_mode == 2;
		int refused = (r == 0 && n_hs_init == i0 && n_hs_run == r0 && obuf == NULL && olen == 0
			&& br_ssl_engine_current_state(ENG) == BR_SSL_CLOSED);
		CHECK(n_sys_query <= 1 && n_seeder_run <= 1, "the system seeder is queried and run at most once per context");
		CHECK(n_sys_query == (unsigned)have_hash && n_seeder_run == (unsigned)(have_hash && sys_mode != 0), "the system seeder is tried exactly once as soon as a DRBG could be set up");
		if (!have_hash) {
			CHECK(refused && br_ssl_engine_last_error(ENG) == BR_ERR_BAD_STATE, "no hash function for the DRBG: reset refuses with BAD_STATE, nothing entered or emitted");
			WITNESS_POINT("reset without any hash function");
		} else if (!seeded) {
			CHECK(r == 0, "unseeded: reset returns 0");
			CHECK(br_ssl_engine_last_error(ENG) == BR_ERR_NO_RANDOM, "unseeded: last error is BR_ERR_NO_RANDOM");
			CHECK(n_hs_init == i0 && n_hs_run == r0, "unseeded: the handshake coroutine is never entered");
			CHECK(obuf == NULL && olen == 0, "unseeded: no output record is pending");
			CHECK(br_ssl_engine_current_state(ENG) == BR_SSL_CLOSED, "unseeded: engine is in failed/closed state");
			if (round == 0) { WITNESS_POINT("first reset refused for lack of randomness"); }
			else { WITNESS_POINT("second reset refused for lack of randomness"); }
		} else {
			CHECK(r == 1 && br_ssl_engine_last_error(ENG) == BR_ERR_OK, "seeded: reset returns 1 without error");
			CHECK(n_hs_init == i0 + 1 && n_hs_run > r0, "seeded: the handshake coroutine is initialised and entered");
			CHECK(obuf != NULL && olen == 6, "seeded: the (stub) handshake's first record is pending");
			CHECK(ENG->rng_init_done == 2, "seeded: DRBG marked as seeded");
			if (injected && sys_mode != 2) { WITNESS_POINT("injected entropy alone lets the handshake start"); }
			if (!injected) { WITNESS_POINT("system seeder alone lets the handshake start"); }
			if (round == 1 && !inject[0] && inject[1] && sys_mode != 2) { WITNESS_POINT("refused first, accepted after injection"); }
		}
		/* the two-sided statement of the property */
		CHECK((refused && br_ssl_engine_last_error(ENG) == BR_ERR_NO_RANDOM) == (have_hash && !seeded),
			"reset refuses with NO_RANDOM, coroutine never entered, no output <=> no entropy injected and system seeder absent or failing");
	}
	return 0;
}
