/*
 * C10.2: br_rsa_pkcs1_sig_pad (real src/rsa/rsa_pkcs1_sig_pad.c), hash value
 * symbolic, modulus bit length NBITS and hash (OIDSEL) concrete per query:
 *   - returns 0 exactly when the modulus is too short for
 *     00 01 FF{8} 00 || DigestInfo || H (RFC 8017 9.2 step 3), 1 otherwise,
 *   - on success the output is the canonical encoding in the with-NULL form
 *     (reference C10_p1ref.h) and it ends with the hash value,
 *   - br_rsa_pkcs1_sig_unpad (real) of that output succeeds and gives the
 *     hash value back (round trip),
 *   - nothing is written outside the ceil(NBITS/8) bytes of x.
 */
#include "common.h"
#include "inner.h"
#include "C10_p1ref.h"

#ifndef NBITS
#define NBITS 512
#endif
#define XL ((NBITS + 7) >> 3)
#define TOO_SHORT (XL < P1_TA + HL + 11)

int main(void)
{
	unsigned char hash[HL], x[XL + 1], x0[XL + 1], out[HL];
	int i;

	ND_BYTES(hash, HL);
	for (i = 0; i < XL + 1; i++) x[i] = x0[i] = ND_U8();

	uint32_t r = br_rsa_pkcs1_sig_pad(P1_OID, hash, HL, NBITS, x);

	CHECK(r == (TOO_SHORT ? 0u : 1u), "sig_pad returns 0 exactly when the modulus is too short, else 1");
	CHECK(x[XL] == x0[XL], "sig_pad writes nothing past the modulus length");
#if !TOO_SHORT
	if (r == 1) {
		CHECK(p1_ref_match(x, XL, 0), "sig_pad output is the canonical encoding with NULL parameters");
		for (i = 0; i < HL; i++) CHECK(x[XL - HL + i] == hash[i], "sig_pad output ends with the hash value");
		uint32_t r2 = br_rsa_pkcs1_sig_unpad(x, XL, P1_OID, HL, out);
		CHECK(r2 == 1, "sig_unpad accepts what sig_pad produced");
		for (i = 0; i < HL; i++) CHECK(out[i] == hash[i], "unpad(pad(H)) == H");
		WITNESS_POINT("padding succeeded and round trip checked");
	}
#else
	if (r == 0) { WITNESS_POINT("padding refused: modulus too short"); }
#endif
	return 0;
}
