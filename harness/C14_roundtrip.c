/*
 * C14.2 round trip: for every key, nonce, AAD and message,
 *   encrypt -> (ciphertext C, tag T);  reset the same context;
 *   decrypt C  -> the original message, and check_tag(T) returns 1;
 * the tag functions used are get_tag/check_tag for TL == 16 and
 * get_tag_trunc/check_tag_trunc for TL < 16 (GCM, EAX); CCM has its tag length
 * fixed at reset.  VTAB=1 goes through br_aead_class (GCM, EAX).
 * Also: the ciphertext differs from what decrypting would give only by the
 * key stream, i.e. run(encrypt) and run(decrypt) are mutually inverse maps on
 * the data (checked in both orders: dec(enc(m)) == m here, enc(dec(c)) == c
 * with RT_DECFIRST=1).
 */
#include "C14_api.h"

#ifndef RT_DECFIRST
#define RT_DECFIRST 0
#endif

int main(void)
{
	unsigned char key[16], nonce[NLA], aad[ALA], msg[DLA], buf[DLA], tag[16], tag2[16];
	ND_BYTES(key, 16);
	ND_BYTES(nonce, NLA);
	ND_BYTES(aad, ALA);
	ND_BYTES(msg, DLA);
	for (int i = 0; i < DLA; i++) buf[i] = msg[i];

	aead_t a;
	A_init(&a, key);
#if VTAB && MODE != 2
	CHECK((*A_VT(&a))->tag_size == 16, "br_aead_class.tag_size is 16");
#endif
	A_oneshot(&a, nonce, aad, !RT_DECFIRST, buf, tag);

	/* same context, reset */
	A_reset(&a, nonce, NL, AL, DL, TL);
	A_aad(&a, aad, AL);
	A_flip(&a);
	A_run(&a, RT_DECFIRST, buf, DL);
	for (int i = 0; i < DL; i++) CHECK(buf[i] == msg[i], "round trip returns the original data");
#if RT_DECFIRST
	/* enc(dec(c)) == c and both directions authenticate the same ciphertext */
	A_get_tag(&a, tag2);
	for (int i = 0; i < TL; i++) CHECK(tag2[i] == tag[i], "encrypt and decrypt directions compute the same tag for the same ciphertext");
#else
	uint32_t r = A_check_tag(&a, tag);
	CHECK(r == 1, "check_tag accepts the tag produced by encryption");
	(void)tag2;
#endif
	WITNESS_POINT("round trip completed");
	return 0;
}
