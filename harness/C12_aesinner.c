/*
 * C12 AES inner round, linear layers: the static round steps of
 * aes_small_{enc,dec}.c, aes_ct_{enc,dec}.c, aes_ct64_{enc,dec}.c (reached by
 * including the real file) equal the FIPS-197 steps for every state and round
 * key, in every lane:
 *   DIR 0: shift_rows; mix_columns; add_round_key  == ShiftRows; MixColumns; AddRoundKey
 *   DIR 1: inv_shift_rows == InvShiftRows,  and
 *          add_round_key; inv_mix_columns == AddRoundKey; InvMixColumns
 * (the order in which the cores' round loops apply them around the S-box
 * layer).  The S-box layers themselves are C12_aescomp.c WHAT 1/2 (bitsliced
 * circuits == table in every lane) and, for aes_small, the sub_bytes /
 * inv_sub_bytes checks here.  C12_aesround.c NR=1 covers the first
 * AddRoundKey and the final round through the real entry point; that the
 * entry point's loop strings the steps together for NR >= 2 is the
 * thorough-tier C12_aesround.c NR=2 / NR=10.
 * IMPL 2 small 3 ct 4 ct64; DIR 0 enc 1 dec.
 */
#include "C12_aesref.h"

#if IMPL == 2 && DIR == 0
#include "src/symcipher/aes_small_enc.c"
#elif IMPL == 2
#include "src/symcipher/aes_small_dec.c"
#elif IMPL == 3 && DIR == 0
#include "src/symcipher/aes_ct_enc.c"
#elif IMPL == 3
#include "src/symcipher/aes_ct_dec.c"
#elif IMPL == 4 && DIR == 0
#include "src/symcipher/aes_ct64_enc.c"
#elif IMPL == 4
#include "src/symcipher/aes_ct64_dec.c"
#endif

#if IMPL == 2
#define LANES 1
typedef unsigned state_t[16];
static void load(state_t st, unsigned char blk[LANES][16]) { for (int i = 0; i < 16; i++) st[i] = blk[0][i]; }
static void store(unsigned char out[LANES][16], state_t st) { for (int i = 0; i < 16; i++) { CHECK(st[i] < 256, "state stays in byte range"); out[0][i] = (unsigned char)st[i]; } }
typedef uint32_t key_t[4];
static void loadkey(key_t sk, const unsigned char *rk) { fmt_words_be(sk, rk, 4); }
#elif IMPL == 3
#define LANES 2
typedef uint32_t state_t[8];
#define load(st, blk) pack_ct(st, blk)
#define store(out, st) unpack_ct(out, st)
typedef uint32_t key_t[8];
#define loadkey(sk, rk) fmt_ct(sk, rk, 0)
#else
#define LANES 4
typedef uint64_t state_t[8];
#define load(st, blk) pack_ct64(st, blk)
#define store(out, st) unpack_ct64(out, st)
typedef uint64_t key_t[8];
#define loadkey(sk, rk) fmt_ct64(sk, rk, 0)
#endif

int main(void)
{
	unsigned char rk[16], blk[LANES][16], out[LANES][16];
	state_t st;
	key_t sk;
	ND_BYTES(rk, 16);
	for (int l = 0; l < LANES; l++) ND_BYTES(blk[l], 16);
	loadkey(sk, rk);
	load(st, blk);
#if DIR == 0
	shift_rows(st); mix_columns(st); add_round_key(st, sk);
	store(out, st);
	for (int l = 0; l < LANES; l++) {
		unsigned char t[16];
		for (int c = 0; c < 4; c++) for (int r = 0; r < 4; r++) t[r + 4 * c] = blk[l][r + 4 * ((c + r) & 3)];
		for (int c = 0; c < 4; c++) ref_mix_column(t + 4 * c, 0);
		for (int i = 0; i < 16; i++) CHECK(out[l][i] == (unsigned char)(t[i] ^ rk[i]), "shift_rows; mix_columns; add_round_key == FIPS-197 steps, in each lane");
	}
#else
	inv_shift_rows(st);
	store(out, st);
	for (int l = 0; l < LANES; l++)
		for (int c = 0; c < 4; c++) for (int r = 0; r < 4; r++)
			CHECK(out[l][r + 4 * ((c + r) & 3)] == blk[l][r + 4 * c], "inv_shift_rows == InvShiftRows, in each lane");
	load(st, blk);
	add_round_key(st, sk); inv_mix_columns(st);
	store(out, st);
	for (int l = 0; l < LANES; l++) {
		unsigned char t[16];
		for (int i = 0; i < 16; i++) t[i] = blk[l][i] ^ rk[i];
		for (int c = 0; c < 4; c++) ref_mix_column(t + 4 * c, 1);
		for (int i = 0; i < 16; i++) CHECK(out[l][i] == t[i], "add_round_key; inv_mix_columns == FIPS-197 steps, in each lane");
	}
#endif
#if IMPL == 2
	/* aes_small S-box layer: the table of the reference */
	ref_init();
	load(st, blk);
#if DIR == 0
	sub_bytes(st);
	for (int i = 0; i < 16; i++) CHECK(st[i] == br_aes_S[blk[0][i]], "sub_bytes applies br_aes_S to every byte");
#else
	inv_sub_bytes(st);
	for (int i = 0; i < 16; i++) CHECK(br_aes_S[st[i] & 0xFF] == blk[0][i] && st[i] < 256, "inv_sub_bytes applies the inverse of br_aes_S to every byte");
#endif
#endif
	WITNESS_POINT("inner round steps compared");
	return 0;
}
