/*
 * C12: block-cipher cores abstracted at BearSSL's own link-time seam.
 *
 * The mode files (aes_*_cbcenc.c, ..._ctr.c, ..._ctrcbc.c, des_*_cbc*.c) call
 * one core function per implementation:
 *   aes_big    br_aes_big_encrypt / br_aes_big_decrypt      (1 block, bytes)
 *   aes_small  br_aes_small_encrypt / br_aes_small_decrypt  (1 block, bytes)
 *   aes_ct     br_aes_ct_bitslice_encrypt / _decrypt        (2 blocks, bitsliced)
 *   aes_ct64   br_aes_ct64_bitslice_encrypt / _decrypt      (4 blocks, bitsliced)
 *   des_tab    br_des_tab_process_block                     (1 block, bytes)
 *   des_ct     br_des_ct_process_block                      (1 block, bytes)
 * Under CBMC these are defined here as "apply the uninterpreted function
 * E (or D) to every block lane" -- the mode logic is then decided for EVERY
 * deterministic block function, hence for the real one.  Each stand-in also
 * checks that the mode code hands it the right round keys and round count.
 * For the bitsliced cores the lanes are located with the real
 * br_aes_ct_ortho / br_aes_ct64_ortho / interleave_in/out (decided to be
 * involutive / mutually inverse in C12_aescomp.c); that the real bitsliced
 * cores act lane-wise as the AES round function is decided in C12_aesround.c.
 *
 * Natively (counterexample replay) nothing is stubbed: the real cores are
 * linked and E/D are the real aes_small / des_tab block functions.
 *
 * IMPLK: 1 aes_big, 2 aes_small, 3 aes_ct, 4 aes_ct64, 5 des_tab, 6 des_ct
 */
#ifndef C12_UFCORE_H
#define C12_UFCORE_H
#include "common.h"
#include "inner.h"

#if IMPLK <= 4
#define C12_BS 16
typedef unsigned __int128 c12_blk;
#else
#define C12_BS 8
typedef uint64_t c12_blk;
#endif

/* what the mode code must pass to the core */
static unsigned c12_nr;
static const void *c12_skey_ptr;	/* big, small, des_tab: ctx->skey itself */
#if IMPLK == 4
static uint64_t c12_skexp[120];		/* ct64: expansion of ctx->skey */
#else
static uint32_t c12_skexp[288];		/* ct / des_ct: expansion of ctx->skey */
#endif
static unsigned c12_skexp_n;
static const unsigned char *c12_key;
static size_t c12_klen;
static int c12_dec_ctx;			/* DES: the one context is a decryption context */

static c12_blk
c12_pack(const unsigned char *b)
{
	c12_blk x = 0;
	for (int i = 0; i < C12_BS; i++) x |= (c12_blk)b[i] << (8 * i);
	return x;
}

static void
c12_unpack(unsigned char *b, c12_blk x)
{
	for (int i = 0; i < C12_BS; i++) b[i] = (unsigned char)(x >> (8 * i));
}

#ifndef NATIVE_REPLAY
c12_blk __CPROVER_uninterpreted_c12E(c12_blk);
c12_blk __CPROVER_uninterpreted_c12D(c12_blk);

static c12_blk
c12_E(c12_blk x)
{
	c12_blk y = __CPROVER_uninterpreted_c12E(x);
#ifdef C12_INVERSE_AXIOM
	/* instance of "D is the inverse of E" (true of every block cipher) */
	ASSUME(__CPROVER_uninterpreted_c12D(y) == x);
#endif
	return y;
}

static c12_blk
c12_D(c12_blk x)
{
	c12_blk y = __CPROVER_uninterpreted_c12D(x);
#ifdef C12_INVERSE_AXIOM
	ASSUME(__CPROVER_uninterpreted_c12E(y) == x);
#endif
	return y;
}

/*
 * Bitsliced cores get a locally expanded key: compare its contents.  For
 * aes_ct64 and des_ct (expansion by (x << 4) - x) this comparison is the
 * expensive part of a query, so the driver enables it in one dedicated
 * one-block query per entry point (C12_KEYCHECK=1) and leaves it out of the
 * multi-block queries of the same entry point (same code path: the expansion
 * is done once at the top of every run call, whatever the length).
 */
#ifndef C12_KEYCHECK
#define C12_KEYCHECK 1
#endif
#if IMPLK == 3 || IMPLK == 4 || IMPLK == 6
static void
#if IMPLK == 4
c12_keycheck(const uint64_t *skey)
#else
c12_keycheck(const uint32_t *skey)
#endif
{
#if C12_KEYCHECK
	int same = 1;
	for (unsigned i = 0; i < c12_skexp_n; i++) if (skey[i] != c12_skexp[i]) same = 0;
	CHECK(same, "mode code passes the expanded round keys of the context to the core");
#else
	(void)skey;
#endif
}
#endif

static void
c12_bytes_core(int dec, unsigned nr, const void *skey, void *data)
{
	CHECK(nr == c12_nr, "mode code passes the context's round count to the core");
	CHECK(skey == c12_skey_ptr, "mode code passes the context's round keys to the core");
	c12_blk x = c12_pack(data);
	c12_unpack(data, dec ? c12_D(x) : c12_E(x));
}

#if IMPLK == 1
/* br_aes_big_keysched_inv lives in the same file as the decryption core:
   pull the file in with the core renamed */
#define br_aes_big_decrypt c12_real_aes_big_decrypt
#include "src/symcipher/aes_big_dec.c"
#undef br_aes_big_decrypt
void br_aes_big_encrypt(unsigned nr, const uint32_t *skey, void *data) { c12_bytes_core(0, nr, skey, data); }
void br_aes_big_decrypt(unsigned nr, const uint32_t *skey, void *data) { c12_bytes_core(1, nr, skey, data); }
#elif IMPLK == 2
void br_aes_small_encrypt(unsigned nr, const uint32_t *skey, void *data) { c12_bytes_core(0, nr, skey, data); }
void br_aes_small_decrypt(unsigned nr, const uint32_t *skey, void *data) { c12_bytes_core(1, nr, skey, data); }
#elif IMPLK == 3
static void
c12_ct_core(int dec, unsigned nr, const uint32_t *skey, uint32_t *q)
{
	uint32_t t[8];
	CHECK(nr == c12_nr, "mode code passes the context's round count to the core");
	c12_keycheck(skey);
	for (int i = 0; i < 8; i++) t[i] = q[i];
	br_aes_ct_ortho(t);
	for (int l = 0; l < 2; l++) {
		c12_blk x = (c12_blk)t[l] | (c12_blk)t[l + 2] << 32 | (c12_blk)t[l + 4] << 64 | (c12_blk)t[l + 6] << 96;
		x = dec ? c12_D(x) : c12_E(x);
		t[l] = (uint32_t)x; t[l + 2] = (uint32_t)(x >> 32); t[l + 4] = (uint32_t)(x >> 64); t[l + 6] = (uint32_t)(x >> 96);
	}
	br_aes_ct_ortho(t);
	for (int i = 0; i < 8; i++) q[i] = t[i];
}
void br_aes_ct_bitslice_encrypt(unsigned nr, const uint32_t *skey, uint32_t *q) { c12_ct_core(0, nr, skey, q); }
void br_aes_ct_bitslice_decrypt(unsigned nr, const uint32_t *skey, uint32_t *q) { c12_ct_core(1, nr, skey, q); }
#elif IMPLK == 4
static void
c12_ct64_core(int dec, unsigned nr, const uint64_t *skey, uint64_t *q)
{
	uint64_t t[8];
	CHECK(nr == c12_nr, "mode code passes the context's round count to the core");
	c12_keycheck(skey);
	for (int i = 0; i < 8; i++) t[i] = q[i];
	br_aes_ct64_ortho(t);
	for (int l = 0; l < 4; l++) {
		uint32_t w[4];
		br_aes_ct64_interleave_out(w, t[l], t[l + 4]);
		c12_blk x = (c12_blk)w[0] | (c12_blk)w[1] << 32 | (c12_blk)w[2] << 64 | (c12_blk)w[3] << 96;
		x = dec ? c12_D(x) : c12_E(x);
		w[0] = (uint32_t)x; w[1] = (uint32_t)(x >> 32); w[2] = (uint32_t)(x >> 64); w[3] = (uint32_t)(x >> 96);
		br_aes_ct64_interleave_in(&t[l], &t[l + 4], w);
	}
	br_aes_ct64_ortho(t);
	for (int i = 0; i < 8; i++) q[i] = t[i];
}
void br_aes_ct64_bitslice_encrypt(unsigned nr, const uint64_t *skey, uint64_t *q) { c12_ct64_core(0, nr, skey, q); }
void br_aes_ct64_bitslice_decrypt(unsigned nr, const uint64_t *skey, uint64_t *q) { c12_ct64_core(1, nr, skey, q); }
#elif IMPLK == 5
/* the real key schedule lives in the same file as the core: pull the file
   in with the core renamed */
#define br_des_tab_process_block c12_real_des_tab_process_block
#include "src/symcipher/des_tab.c"
#undef br_des_tab_process_block
void br_des_tab_process_block(unsigned nr, const uint32_t *skey, void *block) { c12_bytes_core(c12_dec_ctx, nr, skey, block); }
#elif IMPLK == 6
#define br_des_ct_process_block c12_real_des_ct_process_block
#include "src/symcipher/des_ct.c"
#undef br_des_ct_process_block
void br_des_ct_process_block(unsigned nr, const uint32_t *skey, void *block)
{
	CHECK(nr == c12_nr, "mode code passes the context's round count to the core");
	c12_keycheck(skey);
	c12_blk x = c12_pack(block);
	c12_unpack(block, c12_dec_ctx ? c12_D(x) : c12_E(x));
}
#endif

#else /* NATIVE_REPLAY: real cores everywhere, E/D = real reference cipher */

static c12_blk
c12_native(int dec, c12_blk x)
{
	unsigned char b[C12_BS];
	c12_unpack(b, x);
#if IMPLK <= 4
	uint32_t sk[60];
	unsigned nr = br_aes_keysched(sk, c12_key, c12_klen);
	if (dec) br_aes_small_decrypt(nr, sk, b); else br_aes_small_encrypt(nr, sk, b);
#else
	br_des_tab_cbcenc_keys ke;
	br_des_tab_cbcdec_keys kd;
	if (dec) { br_des_tab_cbcdec_init(&kd, c12_key, c12_klen); br_des_tab_process_block(kd.num_rounds, kd.skey, b); }
	else { br_des_tab_cbcenc_init(&ke, c12_key, c12_klen); br_des_tab_process_block(ke.num_rounds, ke.skey, b); }
#endif
	return c12_pack(b);
}
static c12_blk c12_E(c12_blk x) { return c12_native(0, x); }
static c12_blk c12_D(c12_blk x) { return c12_native(1, x); }
#endif

/* block function on bytes, for the references */
static void c12_Eb(unsigned char *b) { c12_unpack(b, c12_E(c12_pack(b))); }
static void c12_Db(unsigned char *b) { c12_unpack(b, c12_D(c12_pack(b))); }

#endif
