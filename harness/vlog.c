/* linked only in -DVLOG builds (counterexample extraction) */
#include <stdint.h>
uint64_t vin(uint64_t v) { return v; }
