/* linked only in -DVLOG builds (counterexample extraction) */
#include <stdint.h>
#ifndef VLOG_MAX
#define VLOG_MAX 4096
#endif
uint64_t vlog[VLOG_MAX];
unsigned vlog_n;
uint64_t vin(uint64_t v){ if (vlog_n < VLOG_MAX) vlog[vlog_n++] = v; return v; }
