/*
 * C03 (T0 part): the handshake native `memcmp ( addr1 addr2 len -- bool )` of
 * ssl_hs_client.c (-DSIDE=0) / ssl_hs_server.c (-DSIDE=1), extracted by
 * encoders/t0tool.py (body verbatim from the generated interpreter).  It is what
 * compares the received Finished verify_data with the computed one
 * (ssl_hs_common.t0: `addr-pad dup 12 + 12 memcmp`), the saved Finished values
 * of a renegotiation (`addr-saved_finished addr-pad 12|24 memcmp`) and the
 * session identifier (`addr-session_id addr-pad idlen memcmp`).
 *
 * Claim (ssl_hs_common.t0 stack comment + use sites): pushes -1 (true) exactly
 * when ALL `len` bytes at the two context offsets are equal, 0 otherwise; pops
 * exactly three operands; the context is not modified.
 * -DLEN = number of bytes (concrete per query); -DPAIR selects the two regions:
 *   0: pad / pad+LEN        (received vs computed Finished)
 *   1: saved_finished / pad (renegotiation)
 *   2: session.session_id / pad (resumption)
 * All 2*LEN bytes symbolic; reference = byte-wise comparison written here.
 */
#define T0N_PRE_INCLUDE "C05_t0f.h"
#ifndef SIDE
#define SIDE 0
#endif
#if SIDE == 0
#include "t0n_hsc.c"
#include "t0n_hsc_ops.h"
#else
#include "t0n_hss.c"
#include "t0n_hss_ops.h"
#endif
#ifndef LEN
#define LEN 12
#endif
#ifndef PAIR
#define PAIR 0
#endif

int
main(void)
{
	T0N_CTXT cc;
	T0N_CTXT *c = &cc;
	uint32_t a1, a2, d0;
	unsigned char x[LEN], y[LEN];
	int eq = 1, i;
#ifdef NATIVE_REPLAY
	NATIVE_FILL(c, sizeof *c);
#endif
	/* regions written through their fields (byte-level writes into the context cost minutes) */
#if PAIR == 0
#define R1(i) c->eng.pad[i]
#define R2(i) c->eng.pad[LEN + (i)]
	a1 = offsetof(br_ssl_engine_context, pad);
	a2 = offsetof(br_ssl_engine_context, pad) + LEN;
#elif PAIR == 1
#define R1(i) c->eng.saved_finished[i]
#define R2(i) c->eng.pad[i]
	a1 = offsetof(br_ssl_engine_context, saved_finished);
	a2 = offsetof(br_ssl_engine_context, pad);
#else
#define R1(i) c->eng.session.session_id[i]
#define R2(i) c->eng.pad[i]
	a1 = offsetof(br_ssl_engine_context, session) + offsetof(br_ssl_session_parameters, session_id);
	a2 = offsetof(br_ssl_engine_context, pad);
#endif
	for (i = 0; i < LEN; i ++) {
		x[i] = ND_U8(); y[i] = ND_U8();
		R1(i) = x[i];
		R2(i) = y[i];
		if (x[i] != y[i]) eq = 0;
	}
	T0F_DEPTH_AT(5);
	d0 = t0n_dpi;
	T0F_PUSH(c, a1); T0F_PUSH(c, a2); T0F_PUSH(c, LEN);
	t0n_co = 0;
	C05_DISPATCH(c, C05_OP_memcmp);
	CHECK(t0n_dpi == d0 + 1 && t0n_co == 0, "memcmp pops three operands, pushes one result and does not yield");
	CHECK(T0F_TOP(c, 0) == (eq ? 0xFFFFFFFFu : 0u), "memcmp pushes -1 exactly when all len bytes are equal, else 0");
	for (i = 0; i < LEN; i ++) {
		CHECK(R1(i) == x[i] && R2(i) == y[i], "compared regions unmodified");
	}
	if (eq) { WITNESS_POINT("equal"); } else { WITNESS_POINT("different"); }
	return 0;
}
