/*
 * C05: the entry point that resumes the T0 coroutine refuses to do so once the
 * decoder has failed (err != 0).  This is the assumption under which the E4
 * stack system treats a yield with err != 0 as terminal ("no resume after
 * fail"); without the gate, data pushed after a failure resumes the program
 * right after the failing `fail` word.
 *
 * The real push function is taken from the preamble of the generated file (the
 * E2 output t0n_<key>.c carries it verbatim); the interpreter entry *_run is
 * replaced by a recording stub.  -DC05_KEY_<key>, -I<gen dir>.
 */
#include "common.h"
#define T0N_NO_RUN 1
#if defined(C05_KEY_pkey)
#include "t0n_pkey.c"
#define RUN br_pkey_decoder_run
#define PUSH(c, b, n) br_pkey_decoder_push((c), (b), (n))
#elif defined(C05_KEY_skey)
#include "t0n_skey.c"
#define RUN br_skey_decoder_run
#define PUSH(c, b, n) br_skey_decoder_push((c), (b), (n))
#elif defined(C05_KEY_x509dec)
#include "t0n_x509dec.c"
#define RUN br_x509_decoder_run
#define PUSH(c, b, n) br_x509_decoder_push((c), (b), (n))
#elif defined(C05_KEY_x509min)
#include "t0n_x509min.c"
#define RUN br_x509_minimal_run
#define PUSH(c, b, n) xm_append(&(c)->vtable, (b), (n))
#else
#error "no program selected"
#endif

static int run_calls;
void RUN(void *t0ctx) { (void)t0ctx; run_calls ++; }

int
main(void)
{
	T0N_CTXT c;
	static unsigned char chunk[4];
	size_t n = ND_SIZE();
	int err = ND_INT();
#ifdef NATIVE_REPLAY
	NATIVE_FILL(&c, sizeof c);
#endif
	ASSUME(n <= sizeof chunk);
	c.err = err;
	/* status fields a push function might (wrongly) look at are explicit symbolic inputs, so that a
	   counterexample replays natively (the rest of the context is unconstrained under CBMC, zero natively) */
#if defined(C05_KEY_pkey) || defined(C05_KEY_skey)
	c.key_type = ND_U8();
#elif defined(C05_KEY_x509dec)
	c.decoded = ND_U8();
#endif
	PUSH(&c, chunk, n);
	if (err != 0) {
		CHECK(run_calls == 0, "the coroutine is not resumed once the decoder has failed (err != 0)");
		WITNESS_POINT("push after failure");
	} else {
		CHECK(run_calls == 1, "the coroutine is resumed while there is no error");
		WITNESS_POINT("push without error");
	}
	return 0;
}
