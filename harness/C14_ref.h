/*
 * C14: reference implementations of GCM, CCM and EAX written from the
 * specifications, over the SAME toy block function toy_E / toy GHASH
 * multiply toy_F as the stubs (called directly: no vtable helper, no code of
 * src/aead).  All lengths are concrete at every call site, so every loop has
 * a concrete bound.  One-shot: the whole AAD and message are given at once.
 *
 *   ref_gcm   NIST SP 800-38D sections 6.2 (inc32), 6.4 (GHASH), 6.5 (GCTR),
 *             7.1 (J0 for 96-bit and other IV lengths, S, T)
 *   ref_ccm   RFC 3610 section 2.2 (B_0 flags, l(m) encoding, l(a) prefix,
 *             zero padding, CBC-MAC), 2.3 (A_i, S_i, U = T xor S_0)
 *   ref_eax   Bellare/Rogaway/Wagner "The EAX mode of operation" fig. 1-3:
 *             L = E(0), B = 2L, P = 4L, pad(M;B,P), OMAC^t, CTR^N', tag
 */
#ifndef C14_REF_H
#define C14_REF_H
#include "C14_stubs.h"

#define REF_MAX 64   /* largest AAD / message / nonce length used by any query */

static void ref_put64be(unsigned char *d, uint64_t v)
{
	for (int i = 0; i < 8; i++) d[i] = (unsigned char)(v >> (56 - 8 * i));
}

/* ===================================================================== GCM */

/* Y <- (Y xor X) . H   (SP 800-38D 6.4, one block) */
static void ref_ghash_block(unsigned char *y, const unsigned char *h, const unsigned char *x)
{
	unsigned char t[16];
	for (int i = 0; i < 16; i++) t[i] = (unsigned char)(y[i] ^ x[i]);
	toy_F(h, t, y);
}

/* GHASH over s || 0^v, v minimal such that the length is a multiple of 128 bits */
static void ref_ghash_padded(unsigned char *y, const unsigned char *h, const unsigned char *s, size_t n)
{
	for (size_t off = 0; off < n; off += 16) {
		unsigned char x[16];
		for (size_t j = 0; j < 16; j++) x[j] = (off + j < n) ? s[off + j] : 0;
		ref_ghash_block(y, h, x);
	}
}

static void ref_gcm(const unsigned char *key, const unsigned char *iv, size_t ivlen,
	const unsigned char *aad, size_t alen, const unsigned char *in, size_t dlen,
	int encrypt, unsigned char *out, unsigned char *tag)
{
	unsigned char H[16], J0[16], S[16], x[16], ks[16], zero[16];
	for (int i = 0; i < 16; i++) zero[i] = 0;
	toy_E(key, zero, H);                                   /* H = CIPH_K(0^128) */
	if (ivlen == 12) {                                     /* J0 = IV || 0^31 || 1 */
		for (int i = 0; i < 12; i++) J0[i] = iv[i];
		J0[12] = 0; J0[13] = 0; J0[14] = 0; J0[15] = 1;
	} else {                                               /* J0 = GHASH(IV || 0^(s+64) || [len(IV)]_64) */
		for (int i = 0; i < 16; i++) J0[i] = 0;
		ref_ghash_padded(J0, H, iv, ivlen);
		for (int i = 0; i < 8; i++) x[i] = 0;
		ref_put64be(x + 8, (uint64_t)ivlen * 8);
		ref_ghash_block(J0, H, x);
	}
	uint32_t c0 = ((uint32_t)J0[12] << 24) | ((uint32_t)J0[13] << 16) | ((uint32_t)J0[14] << 8) | J0[15];
	/* C = GCTR_K(inc32(J0), P): i-th block uses J0[0..12) || (c0 + 1 + i mod 2^32) */
	for (size_t off = 0, i = 0; off < dlen; off += 16, i++) {
		uint32_t c = c0 + 1 + (uint32_t)i;
		for (int j = 0; j < 12; j++) x[j] = J0[j];
		x[12] = (unsigned char)(c >> 24); x[13] = (unsigned char)(c >> 16);
		x[14] = (unsigned char)(c >> 8);  x[15] = (unsigned char)c;
		toy_E(key, x, ks);
		for (size_t j = 0; j < 16; j++) if (off + j < dlen) out[off + j] = (unsigned char)(in[off + j] ^ ks[j]);
	}
	const unsigned char *C = encrypt ? out : in;
	/* S = GHASH(A || 0^v || C || 0^u || [len(A)]_64 || [len(C)]_64) */
	for (int i = 0; i < 16; i++) S[i] = 0;
	ref_ghash_padded(S, H, aad, alen);
	ref_ghash_padded(S, H, C, dlen);
	ref_put64be(x, (uint64_t)alen * 8);
	ref_put64be(x + 8, (uint64_t)dlen * 8);
	ref_ghash_block(S, H, x);
	/* T = GCTR_K(J0, S) */
	toy_E(key, J0, ks);
	for (int i = 0; i < 16; i++) tag[i] = (unsigned char)(S[i] ^ ks[i]);
}

/* ===================================================================== CCM */

static void ref_cbc_block(const unsigned char *key, unsigned char *x, const unsigned char *b)
{
	unsigned char t[16];
	for (int i = 0; i < 16; i++) t[i] = (unsigned char)(x[i] ^ b[i]);
	toy_E(key, t, x);
}

/* CBC-MAC continuation over s || zero padding to a multiple of 16 */
static void ref_cbc_padded(const unsigned char *key, unsigned char *x, const unsigned char *s, size_t n)
{
	for (size_t off = 0; off < n; off += 16) {
		unsigned char b[16];
		for (size_t j = 0; j < 16; j++) b[j] = (off + j < n) ? s[off + j] : 0;
		ref_cbc_block(key, x, b);
	}
}

/* A_i = Flags(L-1) || N || i encoded over L octets, most significant first */
static void ref_ccm_Ai(unsigned char *A, const unsigned char *nonce, size_t nlen, uint64_t i)
{
	size_t L = 15 - nlen;
	A[0] = (unsigned char)(L - 1);
	for (size_t j = 0; j < nlen; j++) A[1 + j] = nonce[j];
	for (size_t j = 0; j < L; j++) A[15 - j] = (j < 8) ? (unsigned char)(i >> (8 * j)) : 0;
}

/* alen < 2^16 - 2^8 (two-octet l(a) form) is all the end-to-end queries use */
static void ref_ccm(const unsigned char *key, const unsigned char *nonce, size_t nlen,
	const unsigned char *aad, size_t alen, const unsigned char *in, size_t dlen, size_t tlen,
	int encrypt, unsigned char *out, unsigned char *tag)
{
	unsigned char X[16], B[16], A[16], S[16];
	unsigned char abuf[2 + REF_MAX];
	size_t L = 15 - nlen;
	/* encryption / decryption with S_1, S_2, ... */
	for (size_t off = 0, i = 1; off < dlen; off += 16, i++) {
		ref_ccm_Ai(A, nonce, nlen, i);
		toy_E(key, A, S);
		for (size_t j = 0; j < 16; j++) if (off + j < dlen) out[off + j] = (unsigned char)(in[off + j] ^ S[j]);
	}
	const unsigned char *m = encrypt ? in : out;           /* the MAC covers the plaintext */
	/* B_0 = Flags || N || l(m);  Flags = 64*Adata + 8*((M-2)/2) + (L-1) */
	B[0] = (unsigned char)((alen > 0 ? 64 : 0) + 8 * ((tlen - 2) / 2) + (L - 1));
	for (size_t j = 0; j < nlen; j++) B[1 + j] = nonce[j];
	for (size_t j = 0; j < L; j++) B[15 - j] = (j < 8) ? (unsigned char)((uint64_t)dlen >> (8 * j)) : 0;
	for (int i = 0; i < 16; i++) X[i] = 0;
	ref_cbc_block(key, X, B);                              /* X_1 = E(K, B_0) */
	if (alen > 0) {                                        /* l(a) as two octets, then a, zero padded */
		abuf[0] = (unsigned char)(alen >> 8);
		abuf[1] = (unsigned char)alen;
		for (size_t j = 0; j < alen; j++) abuf[2 + j] = aad[j];
		ref_cbc_padded(key, X, abuf, 2 + alen);
	}
	ref_cbc_padded(key, X, m, dlen);                       /* message blocks, zero padded */
	/* U = T xor first-M-bytes(S_0) */
	ref_ccm_Ai(A, nonce, nlen, 0);
	toy_E(key, A, S);
	for (size_t j = 0; j < tlen; j++) tag[j] = (unsigned char)(X[j] ^ S[j]);
}

/* ===================================================================== EAX */

/* multiplication by x in GF(2^128), x^128 + x^7 + x^2 + x + 1, big-endian bit order */
static void ref_gf_double(unsigned char *d, const unsigned char *s)
{
	unsigned msb = s[0] >> 7;
	for (int i = 0; i < 16; i++) {
		unsigned lo = (i < 15) ? (unsigned)(s[i + 1] >> 7) : 0;
		d[i] = (unsigned char)((s[i] << 1) | lo);
	}
	if (msb) d[15] ^= 0x87;
}

/* OMAC^t_K(M) = CBC_K(pad([t]_n || M; B, P)) */
static void ref_omac_t(const unsigned char *key, unsigned t, const unsigned char *M, size_t mlen, unsigned char *out)
{
	unsigned char zero[16], Lk[16], Bk[16], Pk[16];
	unsigned char buf[16 + REF_MAX + 16];
	size_t n = 16 + mlen;
	for (int i = 0; i < 16; i++) zero[i] = 0;
	toy_E(key, zero, Lk);
	ref_gf_double(Bk, Lk);
	ref_gf_double(Pk, Bk);
	for (int i = 0; i < 16; i++) buf[i] = 0;
	buf[15] = (unsigned char)t;
	for (size_t j = 0; j < mlen; j++) buf[16 + j] = M[j];
	if ((n & 15) == 0) {                                   /* |M'| in {n, 2n, ...}: xor B into the end */
		for (size_t j = 0; j < 16; j++) buf[n - 16 + j] ^= Bk[j];
	} else {                                               /* M' || 1 0^(n-1-(|M'| mod n)), xor P into the end */
		buf[n++] = 0x80;
		while ((n & 15) != 0) buf[n++] = 0;
		for (size_t j = 0; j < 16; j++) buf[n - 16 + j] ^= Pk[j];
	}
	for (int i = 0; i < 16; i++) out[i] = 0;
	for (size_t off = 0; off < n; off += 16) ref_cbc_block(key, out, buf + off);
}

static void ref_eax(const unsigned char *key, const unsigned char *nonce, size_t nlen,
	const unsigned char *aad, size_t alen, const unsigned char *in, size_t dlen,
	int encrypt, unsigned char *out, unsigned char *tag)
{
	unsigned char Np[16], Hp[16], Cp[16], ctr[16], ks[16];
	ref_omac_t(key, 0, nonce, nlen, Np);                   /* N' = OMAC^0(N) */
	ref_omac_t(key, 1, aad, alen, Hp);                     /* H' = OMAC^1(H) */
	for (int i = 0; i < 16; i++) ctr[i] = Np[i];           /* C = CTR^N'(M): counter N' + i mod 2^128 */
	for (size_t off = 0; off < dlen; off += 16) {
		toy_E(key, ctr, ks);
		for (size_t j = 0; j < 16; j++) if (off + j < dlen) out[off + j] = (unsigned char)(in[off + j] ^ ks[j]);
		for (int j = 15; j >= 0; j--) {                    /* ctr <- ctr + 1 */
			ctr[j] = (unsigned char)(ctr[j] + 1);
			if (ctr[j] != 0) break;
		}
	}
	ref_omac_t(key, 2, encrypt ? out : in, dlen, Cp);      /* C' = OMAC^2(C) */
	for (int i = 0; i < 16; i++) tag[i] = (unsigned char)(Np[i] ^ Hp[i] ^ Cp[i]);
}

#endif
