/*
 * C11 / C05 (main session; seeded change C05g): br_ecdsa_asn1_to_raw reads no byte beyond the sig_len bytes it is
 * given.  The conversion is in place, so a caller's buffer is in general larger than the input - but for an input that
 * is REJECTED nothing needs to be written, and e.g. br_ecdsa_i15_vrfy_asn1 hands over its stack buffer completely full
 * when sig_len == sizeof rsig.  Here the object is exactly L bytes (cbmc's bounds checks see any access at index >= L)
 * and the inputs are those the reference reader rejects or whose raw form fits in L bytes.
 */
#include "common.h"
#include "inner.h"
#include "C11_asn1ref.h"
#ifndef L
#define L 8
#endif
#define W 66

int main(void)
{
	unsigned char in[L > 0 ? L : 1], buf[L > 0 ? L : 1];
	unsigned char rv[W], sv[W];
	c11_sigref ref;
	ND_BYTES(in, L);
	for (size_t i = 0; i < L; i++) buf[i] = in[i];
	c11_ref_parse(&ref, in, L, rv, sv, W);
	{
		size_t mr = c11_siglen(rv, W), ms = c11_siglen(sv, W), m = mr > ms ? mr : ms;
		ASSUME(!ref.ok || 2 * m <= (size_t)L);      /* accepted conversions may need a larger buffer: documented contract */
	}
	size_t ret = br_ecdsa_asn1_to_raw(buf, L);
	CHECK(ret <= (size_t)L, "result fits the exact-size buffer in the cases considered");
	if (!ref.ok) { CHECK(ret == 0, "rejected"); WITNESS_POINT("rejected input, exact-size buffer"); }
	return 0;
}
