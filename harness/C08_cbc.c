/*
 * C08 (d): cbc_decrypt (static, src/ssl/ssl_rec_cbc.c) -- verification of an
 * incoming CBC record: padding length, padding bytes, MAC position and value.
 * Everything below cbc_decrypt is translated IR too: br_hmac_init/update/outCT
 * (src/mac) over the translated br_sha1 (-DMACH=1, mac_len 20) or br_md5
 * (-DMACH=2, mac_len 16); only the block cipher behind br_block_cbcdec_class
 * is a stand-in (x -> x ^ K with real CBC chaining), which observes the
 * arguments a real implementation's trace depends on (ctx, iv, data, len).
 * Secret: every byte of the record body (hence the decrypted padding length,
 * padding bytes, MAC and payload), cipher key, MAC key states.
 * Public: record length RL (concrete per query), explicit-IV flag, mac_len,
 * seq / type / version (symbolic, same in both runs), addresses.
 * Documented declassification (source comment "the critical constant-time
 * section ends"): accept/reject -- both runs are assumed to agree on it.
 */
#include "C08_rt.h"
#include "inner.h"
#include C08_GEN
#ifndef RL
#define RL 64
#endif
#ifndef EXPL
#define EXPL 1
#endif
#ifndef MACH
#define MACH 1
#endif
#if MACH == 1
#define ML 20
#define VT_IR ((const void *)&ir_g_br_sha1_vtable)
#define VT_REAL ((const void *)&br_sha1_vtable)
#else
#define ML 16
#define VT_IR ((const void *)&ir_g_br_md5_vtable)
#define VT_REAL ((const void *)&br_md5_vtable)
#endif
#define BLK 16

/* stand-in cipher class, layout of br_block_cbcdec_class */
typedef struct { const void *vtable; unsigned char k[BLK]; } toy_keys;
static void toy_init(unsigned char *c, unsigned char *key, uint64_t len) { (void)c; (void)key; (void)len; }
static void toy_run(unsigned char *c, unsigned char *iv, unsigned char *data, uint64_t len)
{
	toy_keys *cc = (toy_keys *)c;
	OBS_ADDR(1000001, c);
	OBS_ADDR(1000002, iv);
	OBS_ADDR(1000003, data);
	OBS_LEN(1000004, len);
	for (uint64_t u = 0; u + BLK <= len; u += BLK) {
		unsigned char t[BLK];
		for (int i = 0; i < BLK; i++) t[i] = data[u + i];
		for (int i = 0; i < BLK; i++) data[u + i] = (unsigned char)(data[u + i] ^ cc->k[i] ^ iv[i]);
		for (int i = 0; i < BLK; i++) iv[i] = t[i];
	}
}
static const struct {
	uint64_t context_size;
	uint32_t block_size;
	uint32_t log_block_size;
	void (*init)(unsigned char *, unsigned char *, uint64_t);
	void (*run)(unsigned char *, unsigned char *, unsigned char *, uint64_t);
} toy_vtable = { sizeof(toy_keys), BLK, 4, toy_init, toy_run };
_Static_assert(sizeof toy_vtable == sizeof(br_block_cbcdec_class), "layout");

/* union-free mirror of br_sslrec_in_cbc_context */
typedef struct {
	const void *vtable;
	uint64_t seq;
	struct { const void *vtable; unsigned char k[sizeof(((br_sslrec_in_cbc_context *)0)->bc) - 8]; } bc;
	struct { const void *dig_vtable; unsigned char ksi[64], kso[64]; } mac;
	size_t mac_len;
	unsigned char iv[16];
	int explicit_IV;
} cbc_ctx;
_Static_assert(sizeof(cbc_ctx) == sizeof(br_sslrec_in_cbc_context), "layout");
_Static_assert(__builtin_offsetof(cbc_ctx, mac) == __builtin_offsetof(br_sslrec_in_cbc_context, mac), "layout");
_Static_assert(__builtin_offsetof(cbc_ctx, mac_len) == __builtin_offsetof(br_sslrec_in_cbc_context, mac_len), "layout");
_Static_assert(__builtin_offsetof(cbc_ctx, iv) == __builtin_offsetof(br_sslrec_in_cbc_context, iv), "layout");
_Static_assert(__builtin_offsetof(cbc_ctx, explicit_IV) == __builtin_offsetof(br_sslrec_in_cbc_context, explicit_IV), "layout");

static cbc_ctx cc;
static unsigned char rec[RL + 1];
static size_t dlen;
static unsigned char *ret;
static uint64_t pub_seq;
static uint32_t pub_type, pub_ver;

static void c08_public(void)
{
	pub_seq = ND_U64();
	pub_type = ND_U8();
	pub_ver = ND_U16();
}
static void c08_secret(void)
{
	cc.vtable = 0;
	cc.seq = pub_seq;
	cc.bc.vtable = &toy_vtable;
	ND_BYTES(cc.bc.k, BLK);
	cc.mac.dig_vtable = VT_IR;
	for (int i = 0; i < 64; i++) { cc.mac.ksi[i] = i < ML ? ND_U8() : 0; cc.mac.kso[i] = i < ML ? ND_U8() : 0; }
	cc.mac_len = ML;
	ND_BYTES(cc.iv, 16);
	cc.explicit_IV = EXPL;
	ND_BYTES(rec, RL);
	dlen = RL;
	ret = 0;
}
static void c08_call(void)
{
	ret = ir_cbc_decrypt((unsigned char *)&cc, pub_type, pub_ver, rec, (unsigned char *)&dlen);
}
#define C08_DECLASS() (ret != 0)
#ifdef C08_TV
/* the real cbc_decrypt is static: reached through the real vtable */
static void c08_call_real(void)
{
	const br_sslrec_in_class *vt = &br_sslrec_in_cbc_vtable.inner;
	cc.mac.dig_vtable = VT_REAL;
	cc.vtable = &br_sslrec_in_cbc_vtable;
	ret = vt->decrypt((const br_sslrec_in_class **)&cc, (int)pub_type, pub_ver, rec, &dlen);
	cc.vtable = 0;
	cc.mac.dig_vtable = VT_IR;
}
static void c08_out(void)
{
	C08_OUT(rec, RL); C08_OUTV(dlen); C08_OUTV(ret ? (uint64_t)(ret - rec) + 1 : 0); C08_OUTV(cc.seq); C08_OUT(cc.iv, 16);
}
#endif
#include "C08_main.h"
