/*
 * C02.b (CCM / CCM_8): ccm_decrypt / ccm_check_length / in_ccm_init (real
 * src/ssl/ssl_rec_ccm.c over the real src/aead/ccm.c, linked) accept exactly
 * what RFC 6655 + RFC 5246 6.2.3.3 + RFC 3610 say, for EVERY record body of
 * 8 + PLEN + TAGLEN bytes (explicit nonce, ciphertext, tag all symbolic):
 *   N   = salt(4) || explicit nonce(8)            (L = 3, M = TAGLEN)
 *   AAD = seq(8) || type(1) || version(2) || plaintext length(2)
 *   B_0 = (0x40 | ((M-2)/2)<<3 | (L-1)) || N || be24(PLEN)
 *   B_1 = be16(13) || AAD || 00,   B_2.. = pad16(P)
 *   T   = first M bytes of CBC-MAC_K(B_0 ..),  S_i = E_K((L-1) || N || be24(i))
 *   P   = C ^ S_1 S_2 ...,  accept <=> T ^ first M bytes of S_0 == tag, all M bytes.
 * The block cipher behind br_block_ctrcbc_class is the toy of
 * C02_aead_stubs.h; the reference calls the raw toy block function.
 * Parameters: PLEN plaintext length, TAGLEN 16 or 8, KL key length.
 */
#include "common.h"
#include "C02_aead_stubs.h"
#include "src/ssl/ssl_rec_ccm.c"

#ifndef PLEN
#define PLEN 17
#endif
#ifndef TAGLEN
#define TAGLEN 16
#endif
#ifndef KL
#define KL 16
#endif
#define RL (8 + PLEN + TAGLEN)
#define PPAD ((PLEN + 15) & ~15)

static int
ref_ccm(const unsigned char *key, const unsigned char *salt, uint64_t seq, int type, unsigned ver,
	const unsigned char *rec, unsigned char *pt)
{
	unsigned char k[16], a[16], sblk[16], x[16], b[32 + PPAD], s0[16];
	toy_fold_key(k, key, KL);
	/* counter blocks A_i */
	a[0] = 2;
	for (int i = 0; i < 4; i++) a[1 + i] = salt[i];
	for (int i = 0; i < 8; i++) a[5 + i] = rec[i];
	a[13] = a[14] = a[15] = 0;
	toy_blk(k, a, s0);
	for (size_t i = 0; i < sizeof b; i++) b[i] = 0;
	for (size_t blk = 0; blk * 16 < PLEN; blk++) {
		a[13] = (unsigned char)((blk + 1) >> 16);
		a[14] = (unsigned char)((blk + 1) >> 8);
		a[15] = (unsigned char)(blk + 1);
		toy_blk(k, a, sblk);
		for (size_t i = 0; i < 16 && blk * 16 + i < PLEN; i++)
			b[32 + blk * 16 + i] = pt[blk * 16 + i] = rec[8 + blk * 16 + i] ^ sblk[i];
	}
	/* B_0, B_1 */
	b[0] = (unsigned char)(0x40 | (((TAGLEN - 2) / 2) << 3) | 2);
	for (int i = 0; i < 4; i++) b[1 + i] = salt[i];
	for (int i = 0; i < 8; i++) b[5 + i] = rec[i];
	b[13] = (unsigned char)((size_t)PLEN >> 16);
	b[14] = (unsigned char)((size_t)PLEN >> 8);
	b[15] = (unsigned char)PLEN;
	b[16] = 0;
	b[17] = 13;
	br_enc64be(b + 18, seq);
	b[26] = (unsigned char)type;
	br_enc16be(b + 27, ver);
	br_enc16be(b + 29, PLEN);
	/* CBC-MAC */
	for (int i = 0; i < 16; i++) x[i] = 0;
	for (size_t u = 0; u < sizeof b; u += 16) {
		unsigned char t[16];
		for (int i = 0; i < 16; i++) t[i] = x[i] ^ b[u + i];
		toy_blk(k, t, x);
	}
	int ok = 1;
	for (int i = 0; i < TAGLEN; i++)
		if ((unsigned char)(x[i] ^ s0[i]) != rec[8 + PLEN + i]) ok = 0;
	return ok;
}

int main(void)
{
	unsigned char key[KL], salt[4], rec1[RL], rec2[RL], pt[PLEN + 1];
	ND_BYTES(key, KL);
	ND_BYTES(salt, 4);
	for (int i = 0; i < RL; i++) rec1[i] = rec2[i] = ND_U8();
	br_sslrec_ccm_context c1;
	in_ccm_init(&c1, &toy_ctrcbc_vtable, key, KL, salt, TAGLEN);
	CHECK(c1.seq == 0, "init sets the sequence number to 0");
	uint64_t s = ND_U64();
	c1.seq = s;
	int type = ND_U8();
	unsigned ver = ND_U16();
	size_t rlen = ND_SIZE();
	/* RFC 6655: body = nonce_explicit(8) + ciphertext(= plaintext length <= 2^14) + tag(16, or 8 for CCM_8) */
	CHECK((ccm_check_length(&c1, rlen) != 0) == (rlen >= 8 + TAGLEN && rlen - 8 - TAGLEN <= 16384),
		"ccm_check_length admits exactly 8+TAGLEN <= rlen <= 16384+8+TAGLEN");
	CHECK(ccm_check_length(&c1, RL), "record length RL is admissible");
	size_t l1 = RL;
	unsigned char *p1 = ccm_decrypt(&c1, type, ver, rec1, &l1);
	int ok2 = ref_ccm(key, salt, s, type, ver, rec2, pt);
	CHECK((p1 != 0) == (ok2 != 0), "ccm_decrypt accepts iff the RFC 6655/3610 reference accepts");
	CHECK(c1.seq == s + 1, "sequence number advances by exactly one");
	if (p1) {
		CHECK(l1 == PLEN && p1 == rec1 + 8, "plaintext region is body+8, length PLEN");
		for (size_t i = 0; i < PLEN; i++) CHECK(p1[i] == pt[i], "same plaintext bytes as the reference");
		WITNESS_POINT("some record is accepted");
	} else {
		WITNESS_POINT("some record is rejected");
	}
	return 0;
}
