/*
 * C12 ChaCha20: br_chacha20_ct_run == RFC 7539 2.3/2.4 (reference below,
 * written from the RFC) for every key, nonce, initial block counter (wrap
 * included) and every data of LEN bytes, in place; returned counter ==
 * start + ceil(LEN/64) mod 2^32.
 */
#include "common.h"
#include "inner.h"

#ifndef LEN
#error LEN
#endif

#define ROTL(x, n) (((x) << (n)) | ((x) >> (32 - (n))))
#define QR(a, b, c, d) do { \
	a += b; d ^= a; d = ROTL(d, 16); \
	c += d; b ^= c; b = ROTL(b, 12); \
	a += b; d ^= a; d = ROTL(d, 8); \
	c += d; b ^= c; b = ROTL(b, 7); } while (0)

static uint32_t ld32(const unsigned char *p) { return (uint32_t)p[0] | (uint32_t)p[1] << 8 | (uint32_t)p[2] << 16 | (uint32_t)p[3] << 24; }

/* RFC 7539 2.3: the ChaCha20 block function */
static void
ref_block(unsigned char out[64], const unsigned char key[32], uint32_t counter, const unsigned char nonce[12])
{
	uint32_t s[16], x[16];
	s[0] = 0x61707865; s[1] = 0x3320646e; s[2] = 0x79622d32; s[3] = 0x6b206574;
	for (int i = 0; i < 8; i++) s[4 + i] = ld32(key + 4 * i);
	s[12] = counter;
	for (int i = 0; i < 3; i++) s[13 + i] = ld32(nonce + 4 * i);
	for (int i = 0; i < 16; i++) x[i] = s[i];
	for (int r = 0; r < 10; r++) {
		QR(x[0], x[4], x[8], x[12]); QR(x[1], x[5], x[9], x[13]);
		QR(x[2], x[6], x[10], x[14]); QR(x[3], x[7], x[11], x[15]);
		QR(x[0], x[5], x[10], x[15]); QR(x[1], x[6], x[11], x[12]);
		QR(x[2], x[7], x[8], x[13]); QR(x[3], x[4], x[9], x[14]);
	}
	for (int i = 0; i < 16; i++) {
		uint32_t v = x[i] + s[i];
		out[4 * i] = (unsigned char)v; out[4 * i + 1] = (unsigned char)(v >> 8);
		out[4 * i + 2] = (unsigned char)(v >> 16); out[4 * i + 3] = (unsigned char)(v >> 24);
	}
}

int main(void)
{
	unsigned char key[32], nonce[12], d[LEN + 1], r[LEN + 1];
	ND_BYTES(key, 32);
	ND_BYTES(nonce, 12);
	uint32_t cc = ND_U32();
	for (int i = 0; i < LEN; i++) d[i] = r[i] = ND_U8();
	d[LEN] = r[LEN] = 0x5A;

	uint32_t ret = br_chacha20_ct_run(key, nonce, cc, d, LEN);

	/* RFC 7539 2.4: block j of the key stream uses counter cc + j */
	uint32_t c = cc;
	for (size_t o = 0; o < LEN; o += 64) {
		unsigned char ks[64];
		ref_block(ks, key, c, nonce);
		for (size_t i = 0; i < 64 && o + i < LEN; i++) r[o + i] ^= ks[i];
		c++;
	}
	for (int i = 0; i <= LEN; i++) CHECK(d[i] == r[i], "br_chacha20_ct_run output == RFC 7539 (nothing past LEN written)");
	CHECK(ret == (uint32_t)(cc + (LEN + 63) / 64), "returned block counter == start + number of blocks (mod 2^32)");
	if (cc == 0xFFFFFFFFu) { WITNESS_POINT("counter starts at 0xFFFFFFFF"); }
	WITNESS_POINT("compared");
	return 0;
}
