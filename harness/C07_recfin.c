/*
 * C07.b (continued): br_ssl_engine_recvrec_finished(), the predicate behind the
 * T0 word more-incoming-bytes? that decides whether handshake data "ends here".
 * inner.h: "returns 0 only if a complete record header has been received, but
 * some of the (possibly encrypted) payload has not yet been obtained."
 * If it answered "finished" while body bytes are outstanding, the verdict of
 * the handshake parser would depend on where the transport cut the stream.
 */
#include "common.h"
#include "inner.h"

int main(void)
{
	br_ssl_engine_context cc;
#ifdef NATIVE_REPLAY
	NATIVE_FILL(&cc, sizeof cc);
#endif
	cc.iomode = ND_U8();
	cc.incrypt = ND_U8() & 1;
	cc.ixa = ND_SIZE(); cc.ixb = ND_SIZE(); cc.ixc = ND_SIZE();
	ASSUME(cc.iomode <= 3);
	/* input-side register invariant of the engine (C06) */
	if (cc.ixa < 5) { ASSUME(cc.ixa == cc.ixb && cc.ixc == 5 - cc.ixa); }
	else { ASSUME(cc.ixa <= cc.ixb && cc.ixb <= 17000 && cc.ixc <= 17000); }
	int r = br_ssl_engine_recvrec_finished(&cc);
	int header_complete = cc.ixa >= 5;
	int body_outstanding = cc.ixc > 0;
	if (cc.iomode == BR_IO_IN || cc.iomode == BR_IO_INOUT) {
		CHECK((r == 0) == (header_complete && body_outstanding), "record reported unfinished exactly when its header is complete and body bytes are still outstanding");
		if (r) { WITNESS_POINT("finished"); } else { WITNESS_POINT("unfinished"); }
	} else {
		CHECK(r != 0, "no record in progress when the engine is not receiving");
		WITNESS_POINT("not receiving");
	}
	return 0;
}
