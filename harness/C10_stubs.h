/*
 * C10: cheap deterministic stand-ins bound behind BearSSL's own seams
 * (DESIGN.md 1.3 (b)); none of them is a unit under test.
 *
 *  - two stub hash classes with the REAL br_hash_class vtable layout and a
 *    real `desc` word (output size is read from it by br_digest_size() in
 *    mgf1.c / rsa_oaep_*.c / rsa_pss_*.c):
 *        c10_hash_a : C10_HA-byte output (default 4)
 *        c10_hash_b : C10_HB-byte output (default 8; rsa_pss_sig_pad.c uses the
 *                     H field as an 8-byte scratch area, so hf_data needs >= 8)
 *    State = two 32-bit words (see below where they live).  update(b):
 *    lo = rotl(lo,3) ^ (b<<8) ^ 1; hi = rotl(hi,5) ^ b ^ 0x100 -- every input
 *    byte, its position and the total length influence the output; out():
 *    bytes of (hi ^ IV) || (lo ^ rotl(hi,13)).  Rotate/xor only: measured, even
 *    8-bit adders in the state made the MGF1(MGF1()) chain of OAEP 100x harder
 *    for the SAT solver (two copies of the chain have to be proved equal).
 *  - a stub PRNG (real br_prng_class layout) that hands out bytes from a pool
 *    the harness filled with symbolic values.
 */
#ifndef C10_STUBS_H
#define C10_STUBS_H
#include "inner.h"

#ifndef C10_HA
#define C10_HA 4
#endif
#ifndef C10_HB
#define C10_HB 8
#endif

static inline uint32_t c10_rotl(uint32_t x, int n) { return (x << n) | (x >> (32 - n)); }

/*
 * The running state lives in globals, not in the context: the real callers
 * allocate a br_hash_compat_context (a union of all hash contexts), and every
 * store into a union makes CBMC re-derive all of its members (bulky symex).  All users here (mgf1.c, rsa_oaep_*.c, rsa_pss_*.c and the
 * references) run init -> update* -> out strictly one computation at a time;
 * that is ASSERTED, not assumed: init records the owning context and
 * update/out check it.
 */
static uint32_t c10h_lo, c10h_hi;
static const void *c10h_owner;

static void c10h_update(const br_hash_class **ctx, const void *data, size_t len)
{
	const unsigned char *p = data;
	__CPROVER_assert((const void *)ctx == c10h_owner, "stub hash: computations are not interleaved");
	uint32_t lo = c10h_lo, hi = c10h_hi;
	for (size_t i = 0; i < len; i++) {
		uint32_t b = p[i];
		lo = c10_rotl(lo, 3) ^ (b << 8) ^ 1;
		hi = c10_rotl(hi, 5) ^ b ^ 0x100;
	}
	c10h_lo = lo;
	c10h_hi = hi;
}
static void c10h_out_n(const br_hash_class *const *ctx, void *dst, size_t n, uint32_t iv)
{
	__CPROVER_assert((const void *)ctx == c10h_owner, "stub hash: computations are not interleaved");
	uint32_t lo = c10h_lo, hi = c10h_hi;
	uint32_t w0 = hi ^ iv;
	uint32_t w1 = lo ^ c10_rotl(hi, 13);
	unsigned char *o = dst;
	for (size_t i = 0; i < n; i++)
		o[i] = (unsigned char)((i < 4 ? w0 : w1) >> (8 * (i & 3)));
}
static uint64_t c10h_state(const br_hash_class *const *ctx, void *dst)
{
	(void)ctx;
	br_enc32le(dst, c10h_lo);
	br_enc32le((unsigned char *)dst + 4, c10h_hi);
	return 0;
}
static void c10h_set_state(const br_hash_class **ctx, const void *stb, uint64_t count)
{
	(void)count;
	c10h_owner = (const void *)ctx;
	c10h_lo = br_dec32le(stb);
	c10h_hi = br_dec32le((const unsigned char *)stb + 4);
}

static const br_hash_class c10_hash_a, c10_hash_b;

static void c10ha_init(const br_hash_class **ctx)
{
	*ctx = &c10_hash_a;
	c10h_owner = (const void *)ctx;
	c10h_lo = 0x0000A001u;
	c10h_hi = 0x13579BDFu;
}
static void c10ha_out(const br_hash_class *const *ctx, void *dst) { c10h_out_n(ctx, dst, C10_HA, 0x5A5A5A5Au); }
static void c10hb_init(const br_hash_class **ctx)
{
	*ctx = &c10_hash_b;
	c10h_owner = (const void *)ctx;
	c10h_lo = 0x0000B003u;
	c10h_hi = 0x2468ACE1u;
}
static void c10hb_out(const br_hash_class *const *ctx, void *dst) { c10h_out_n(ctx, dst, C10_HB, 0xC3C3C3C3u); }

static const br_hash_class c10_hash_a = {
	sizeof(br_md5_context),
	BR_HASHDESC_ID(14) | BR_HASHDESC_OUT(C10_HA) | BR_HASHDESC_STATE(8) | BR_HASHDESC_LBLEN(6),
	c10ha_init, c10h_update, c10ha_out, c10h_state, c10h_set_state
};
static const br_hash_class c10_hash_b = {
	sizeof(br_md5_context),
	BR_HASHDESC_ID(15) | BR_HASHDESC_OUT(C10_HB) | BR_HASHDESC_STATE(8) | BR_HASHDESC_LBLEN(6),
	c10hb_init, c10h_update, c10hb_out, c10h_state, c10h_set_state
};

/* one-shot helpers for the references in the harnesses: H(p1 || p2 || p3) */
static void
c10_hash3(const br_hash_class *hf, unsigned char *out,
	const unsigned char *p1, size_t l1, const unsigned char *p2, size_t l2,
	const unsigned char *p3, size_t l3)
{
	br_hash_compat_context hc;
	hf->init(&hc.vtable);
	if (l1) hf->update(&hc.vtable, p1, l1);
	if (l2) hf->update(&hc.vtable, p2, l2);
	if (l3) hf->update(&hc.vtable, p3, l3);
	hf->out(&hc.vtable, out);
}

/*
 * Reference MGF1 (RFC 8017 B.2.1), written from the RFC:
 *   T = Hash(seed || I2OSP(0,4)) || Hash(seed || I2OSP(1,4)) || ...
 *   mask = leading masklen bytes of T;   here XORed into buf.
 * hlen concrete (the stub's output size), masklen concrete.
 */
static void
c10_ref_mgf1_xor(unsigned char *buf, int masklen, const br_hash_class *hf, int hlen,
	const unsigned char *seed, int seedlen)
{
	int c, j;
	for (c = 0; c * hlen < masklen; c++) {
		unsigned char ctr[4], t[8];
		ctr[0] = 0; ctr[1] = 0; ctr[2] = (unsigned char)(c >> 8); ctr[3] = (unsigned char)c;
		c10_hash3(hf, t, seed, (size_t)seedlen, ctr, 4, 0, 0);
		for (j = 0; j < hlen && c * hlen + j < masklen; j++) buf[c * hlen + j] ^= t[j];
	}
}

/* stub PRNG: bytes come from a pool filled by the harness */
#ifndef C10_RNG_MAX
#define C10_RNG_MAX 16
#endif
typedef struct {
	const br_prng_class *vtable;
	unsigned char pool[C10_RNG_MAX];
	size_t ptr;
} c10_rng;
static void c10rng_init(const br_prng_class **ctx, const void *params, const void *seed, size_t seed_len)
{ (void)ctx; (void)params; (void)seed; (void)seed_len; }
static void c10rng_generate(const br_prng_class **ctx, void *out, size_t len)
{
	c10_rng *r = (c10_rng *)ctx;
	unsigned char *o = out;
	for (size_t i = 0; i < len; i++) {
		__CPROVER_assert(r->ptr < C10_RNG_MAX, "stub PRNG pool large enough");
		o[i] = r->pool[r->ptr++];
	}
}
static void c10rng_update(const br_prng_class **ctx, const void *seed, size_t seed_len)
{ (void)ctx; (void)seed; (void)seed_len; }
static const br_prng_class c10_rng_vtable = { sizeof(c10_rng), c10rng_init, c10rng_generate, c10rng_update };

#endif
