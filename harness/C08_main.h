/*
 * C08 driver: included at the END of a C08_*.c spec file, which defines
 *
 *   static void c08_public(void);   draw the public inputs (ND_*), once
 *   static void c08_secret(void);   draw the secrets of one run and (re)initialise
 *                                   ALL memory the entry point reads; same objects in both runs
 *   static void c08_call(void);     call the translated entry point (ir_*)
 *   static void c08_call_real(void);  [C08_TV]  call the real function on the same memory
 *   static void c08_out(void);        [C08_TV]  C08_OUT(ptr, len) / C08_OUTV(x) for every output
 *   #define C08_DECLASS() expr      [optional] value the source declares public at the end of the
 *                                   constant-time section; both runs are ASSUMED to agree on it
 *
 * Self-composition (CBMC and native replay): public once; run 0 and run 1 with
 * independent secrets; the two observation logs must be equal.
 * Translation validation (-DC08_TV): the translated and the real function are
 * run on the same random inputs, outputs must agree bit for bit.
 */
#ifndef C08_TV

int main(void)
{
	uint64_t d0 = 0, d1 = 0;
	c08_public();
	c08_run = 0;
	c08_secret();
	c08_call();
#ifdef C08_DECLASS
	d0 = (uint64_t)(C08_DECLASS());
#endif
	c08_run = 1;
	c08_secret();
	c08_call();
#ifdef C08_DECLASS
	d1 = (uint64_t)(C08_DECLASS());
#endif
	ASSUME(d0 == d1);
	c08_compare();
	WITNESS_POINT("both runs completed, traces compared");
#ifdef C08_WITNESS_EXTRA
	C08_WITNESS_EXTRA
#endif
	return 0;
}

#else

#include <stdio.h>
#include <stdlib.h>
#ifndef C08_TV_N
#define C08_TV_N 300
#endif

int main(int argc, char **argv)
{
	unsigned long done = 0, skipped = 0, cmin = ~0ul, cmax = 0, dmax = 0;
	uint64_t seed = argc > 1 ? strtoull(argv[1], 0, 0) : 1;
	for (unsigned long it = 0; done < C08_TV_N && it < 200ul * C08_TV_N; it++) {
		size_t l0;
		uint64_t s0 = seed * 0x9E3779B97F4A7C15ull + it * 0xD1B54A32D192ED03ull + 1, s1 = it + 0x1234567;
		if (setjmp(c08_skip)) { skipped++; continue; }
		c08_rng_s[0] = s0; c08_rng_s[1] = s1;
		c08_which = 0; c08_olen = 0; c08_cnt = 0; c08_dcnt = 0;
		c08_public(); c08_secret(); c08_call(); c08_out();
		l0 = c08_olen;
		if (c08_cnt < cmin) cmin = c08_cnt;
		if (c08_cnt > cmax) cmax = c08_cnt;
		if (c08_dcnt > dmax) dmax = c08_dcnt;
#ifdef C08_COUNTONLY
		/* observation count of a stubbed translation (its validation is done on the unstubbed twin) */
		done++;
		continue;
#endif
		c08_rng_s[0] = s0; c08_rng_s[1] = s1;
		c08_which = 1; c08_olen = 0;
		c08_public(); c08_secret(); c08_call_real(); c08_out();
		if (l0 != c08_olen || memcmp(c08_obuf[0], c08_obuf[1], l0) != 0) {
			size_t k = 0;
			while (k < l0 && k < c08_olen && c08_obuf[0][k] == c08_obuf[1][k]) k++;
			printf("TV-MISMATCH iteration %lu: output byte %lu differs (translated 0x%02x, real 0x%02x; lengths %lu/%lu)\n",
				it, (unsigned long)k, c08_obuf[0][k], c08_obuf[1][k], (unsigned long)l0, (unsigned long)c08_olen);
			return 1;
		}
		done++;
	}
	printf("TV-OK matched=%lu skipped=%lu outbytes=%lu obs_min=%lu obs_max=%lu div_max=%lu\n", done, skipped, (unsigned long)c08_olen, cmin, cmax, dmax);
	return done ? 0 : 2;
}
#endif
