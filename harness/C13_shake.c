/*
 * C13 SHAKE: buffering / padding / squeezing logic of the real
 * src/kdf/shake.c (br_shake_init, inject, flip, produce) against the FIPS 202
 * sponge written from the standard, for every message of ML bytes, every
 * listed split of the injection and of the production, and for EVERY
 * permutation: the static process_block() is bound to a call-log oracle in
 * the way C13_oracle.h explains (the include below renames the definition
 * `process_block(uint64_t *A)` to c13_process_block_real and the two calls
 * `process_block(sc->A)` / `process_block(A)` to the oracle; any other
 * spelling is a compile error).
 *
 * shake.c keeps lanes 1, 2, 8, 12, 17, 20 complemented ("lane
 * complementing"); the reference sponge works on the plain state S and uses
 * f(S) = C(process_block(C(S))), C = complement of those six lanes, which is
 * the contract of process_block with respect to Keccak-f[1600] (that
 * process_block really is Keccak-f is outside this query: see the
 * known-answer query).
 *
 *  -DSEC=128|256  security level (rate 168 / 136)
 *  -DML=n         message length;  -DOUTL=n output length
 *  -DISPLITS=..   list of injection split points (<= ML)
 *  -DOSPLITS=..   list of production split points (<= OUTL)
 */
#include "common.h"
#include "inner.h"

#ifndef SEC
#define SEC 128
#endif
#define RATE (200 - (SEC / 4))
#ifndef ML
#define ML (RATE + 9)
#endif
#ifndef OUTL
#define OUTL (RATE + 5)
#endif
#ifndef ISPLITS
#define ISPLITS 0, 1, RATE - 1, RATE, ML
#endif
#ifndef OSPLITS
#define OSPLITS 0, 1, RATE, OUTL
#endif
#ifndef MAXP
#define MAXP 6
#endif

/* ---- permutation oracle (see C13_oracle.h for the argument) ---- */
static uint64_t p_in[MAXP][25], p_out[MAXP][25], p_fresh[MAXP][25];
static unsigned p_n, p_cur, p_nfresh;
static int p_mode;        /* 1 = record, 2 = replay */

static void
c13_process_block(uint64_t *A)
{
	if (p_mode == 1) {
		unsigned k = p_n;
		__CPROVER_assert(k < MAXP, "oracle: log capacity (raise MAXP)");
		for (int i = 0; i < 25; i++) { p_in[k][i] = A[i]; A[i] = p_out[k][i]; }
		p_n = k + 1;
		return;
	}
	unsigned f = p_nfresh;
	__CPROVER_assert(f < MAXP, "oracle: fresh pool capacity (raise MAXP)");
	p_nfresh = f + 1;
	if (p_cur < p_n) {
		unsigned j = p_cur;
		int same = 1;
		p_cur = j + 1;
		for (int i = 0; i < 25; i++) same &= (p_in[j][i] == A[i]);
		for (int i = 0; i < 25; i++) A[i] = same ? p_out[j][i] : p_fresh[f][i];
		return;
	}
	for (int i = 0; i < 25; i++) A[i] = p_fresh[f][i];
}

#if !defined(NATIVE_REPLAY) && !defined(C13_REAL_ROUNDS)
#define process_block(a)   C13_PSEL_ ## a)
#define C13_PSEL_uint64_t  c13_process_block_real(uint64_t
#define C13_PSEL_sc        c13_process_block(sc
#define C13_PSEL_A         c13_process_block(A
#include "src/kdf/shake.c"
#undef process_block
#define PERM(a) c13_process_block(a)
#else
#include "src/kdf/shake.c"
#define PERM(a) process_block(a)
#endif

/* ---- FIPS 202 sponge on the plain state ---- */
static void
ref_f(uint64_t *S)
{
	static const int cl[6] = { 1, 2, 8, 12, 17, 20 };
	for (int i = 0; i < 6; i++) S[cl[i]] = ~S[cl[i]];
	PERM(S);
	for (int i = 0; i < 6; i++) S[cl[i]] = ~S[cl[i]];
}

static void
ref_xor_block(uint64_t *S, const unsigned char *blk)
{
	for (size_t i = 0; i < RATE / 8; i++) {
		uint64_t x = 0;
		for (int j = 7; j >= 0; j--) x = (x << 8) | blk[8 * i + j];
		S[i] ^= x;
	}
}

static void
ref_shake(const unsigned char *msg, size_t mlen, unsigned char *out, size_t olen)
{
	uint64_t S[25];
	unsigned char blk[RATE];
	size_t off = 0, done = 0;
	for (int i = 0; i < 25; i++) S[i] = 0;
	while (mlen - off >= RATE) {
		ref_xor_block(S, msg + off);
		ref_f(S);
		off += RATE;
	}
	/* pad10*1 with the SHAKE suffix 1111 */
	for (size_t i = 0; i < RATE; i++) blk[i] = 0;
	for (size_t i = 0; i < mlen - off; i++) blk[i] = msg[off + i];
	blk[mlen - off] ^= 0x1F;
	blk[RATE - 1] ^= 0x80;
	ref_xor_block(S, blk);
	while (done < olen) {
		ref_f(S);
		for (size_t i = 0; i < RATE && done < olen; i++) out[done++] = (unsigned char)(S[i >> 3] >> (8 * (i & 7)));
	}
}

static const size_t isplits[] = { ISPLITS };
static const size_t osplits[] = { OSPLITS };

int main(void)
{
	unsigned char msg[ML + 1], r[OUTL + 1], o[OUTL + 1];
	br_shake_context sc;
	ND_BYTES(msg, ML);
	for (int k = 0; k < MAXP; k++) for (int i = 0; i < 25; i++) { p_out[k][i] = ND_U64(); p_fresh[k][i] = ND_U64(); }

	p_mode = 1;
	p_n = 0;
	ref_shake(msg, ML, r, OUTL);

	for (size_t a = 0; a < sizeof isplits / sizeof isplits[0]; a++) {
		for (size_t b = 0; b < sizeof osplits / sizeof osplits[0]; b++) {
			size_t s = isplits[a], t = osplits[b];
			p_mode = 2;
			p_cur = 0;
			p_nfresh = 0;
			ND_BYTES(&sc, 1);
			br_shake_init(&sc, SEC);
			br_shake_inject(&sc, msg, s);
			br_shake_inject(&sc, msg + s, 0);
			br_shake_inject(&sc, msg + s, ML - s);
			br_shake_flip(&sc);
			br_shake_produce(&sc, o, t);
			br_shake_produce(&sc, o + t, OUTL - t);
			for (size_t i = 0; i < OUTL; i++) CHECK(o[i] == r[i], "SHAKE output == FIPS 202 sponge reference");
		}
	}
	WITNESS_POINT("SHAKE checked");
	return 0;
}
