/*
 * C12 Poly1305, final reduction (main session; seeded change C12e): br_poly1305_{ctmul,ctmul32,i15}_run against the
 * definition for r = 1 (bounded claim), where the polynomial evaluation degenerates to the SUM of the padded blocks:
 *     tag = ((sum of (block_i + 2^128)) mod (2^130 - 5) + s) mod 2^128
 * for every s and every DLEN data bytes (the accumulator can take every value near p = 2^130 - 5, including p itself
 * and p+1..p+4, which random inputs reach with probability 2^-128).  ChaCha20 is replaced at the function-pointer
 * seam: block 0 yields r = 1 and the symbolic s, the data key stream is zero.
 *   -DIMPL=1 ctmul, 2 ctmul32, 3 i15;  -DDLEN=32 (multiple of 16)
 */
#include "common.h"
#include "inner.h"
#ifndef IMPL
#define IMPL 1
#endif
#ifndef DLEN
#define DLEN 32
#endif
typedef unsigned __int128 u128;

static unsigned char S[16];
static uint32_t
stub_chacha(const void *key, const void *iv, uint32_t cc, void *data, size_t len)
{
	(void)key; (void)iv;
	if (cc == 0) {
		unsigned char *d = data;       /* the zeroed 32-byte one-time key buffer */
		d[0] ^= 1;                     /* r = 1 */
		for (int i = 0; i < 16; i ++) d[16 + i] ^= S[i];
	}
	return cc + (uint32_t)((len + 63) >> 6);
}

static u128 le128(const unsigned char *b)
{
	u128 v = 0;
	for (int i = 15; i >= 0; i --) v = (v << 8) | b[i];
	return v;
}

int main(void)
{
	unsigned char key[32], iv[12], d[DLEN], tag[16];
	ND_BYTES(key, 32); ND_BYTES(iv, 12); ND_BYTES(d, DLEN); ND_BYTES(S, 16);
	int enc = ND_U8() & 1;
	/* reference: t * 2^128 + L = sum of padded blocks (data blocks, then the length footer) */
	u128 L = 0; unsigned t = 0;
	for (int i = 0; i < DLEN; i += 16) { u128 b = le128(d + i); L += b; t += (L < b); t ++; }
	{ u128 f = (u128)DLEN << 64; L += f; t += (L < f); t ++; }
	unsigned hi = t >> 2; t &= 3;                           /* mod p: 2^130 == 5 */
	{ u128 a = 5 * (u128)hi; L += a; t += (L < a); }
	if (t > 3 || (t == 3 && L >= (u128)0 - 5)) { L += 5; t += (L < 5); t -= 4; }
	u128 want = L + le128(S);

#if IMPL == 1
	br_poly1305_ctmul_run(key, iv, d, DLEN, NULL, 0, tag, &stub_chacha, enc);
#elif IMPL == 2
	br_poly1305_ctmul32_run(key, iv, d, DLEN, NULL, 0, tag, &stub_chacha, enc);
#else
	br_poly1305_i15_run(key, iv, d, DLEN, NULL, 0, tag, &stub_chacha, enc);
#endif
	CHECK(le128(tag) == want, "Poly1305 tag == (sum of padded blocks mod 2^130-5) + s mod 2^128 (r = 1)");
	WITNESS_POINT("tag compared");
	return 0;
}
