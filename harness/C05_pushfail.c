/*
 * C05 "any fragmentation": the caller keeps pushing after the decoder reported
 * an error.  Public API only; the input bytes are CONCRETE (the T0 interpreter
 * then runs with a constant instruction pointer, which CBMC can execute), the
 * number of extra pushes is concrete per query (-DNPUSH).
 *
 *  -DWHICH=1  br_pkey_decoder: a valid RSA SubjectPublicKeyInfo (16-byte modulus),
 *             then single trailing bytes, one push each
 *  -DWHICH=2  br_skey_decoder: the two bytes 31 00 (wrong outer tag), pushed repeatedly
 *  -DWHICH=3  br_x509_decoder: the same
 *
 * Decided: no pointer / bounds failure inside the decoder whatever the number
 * of pushes (<= NPUSH), and the status stays consistent.
 */
#include "common.h"
#include "inner.h"

#ifndef WHICH
#define WHICH 1
#endif
#ifndef NPUSH
#define NPUSH 4
#endif

/* SEQUENCE { SEQUENCE { OID rsaEncryption, NULL }, BIT STRING { 00, SEQUENCE { INTEGER n(16 bytes), INTEGER 3 } } } */
static const unsigned char spki[] = {
	0x30, 0x2A,
	0x30, 0x0D, 0x06, 0x09, 0x2A, 0x86, 0x48, 0x86, 0xF7, 0x0D, 0x01, 0x01, 0x01, 0x05, 0x00,
	0x03, 0x19, 0x00,
	0x30, 0x16,
	0x02, 0x10, 0x7F, 0xA5, 0xA5, 0xA5, 0xA5, 0xA5, 0xA5, 0xA5, 0xA5, 0xA5, 0xA5, 0xA5, 0xA5, 0xA5, 0xA5, 0xA5,
	0x02, 0x01, 0x03
};
static const unsigned char bad[] = { 0x31, 0x00 };
static const unsigned char nl[] = { 0x0A };

int
main(void)
{
	unsigned n = NPUSH, i;      /* concrete: a symbolic number of pushes makes the instruction pointer symbolic */
#if WHICH == 1
	{
		br_pkey_decoder_context dc;
		br_pkey_decoder_init(&dc);
		br_pkey_decoder_push(&dc, spki, sizeof spki);
		CHECK(br_pkey_decoder_last_error(&dc) == 0 && br_pkey_decoder_key_type(&dc) == BR_KEYTYPE_RSA, "the key decodes");
		WITNESS_POINT("key decoded");
		for (i = 0; i < NPUSH; i ++) {
			if (i < n) {
				br_pkey_decoder_push(&dc, nl, sizeof nl);
				CHECK(br_pkey_decoder_last_error(&dc) != 0 && br_pkey_decoder_key_type(&dc) == 0, "trailing bytes: an error and no key");
			}
		}
	}
#elif WHICH == 2
	{
		br_skey_decoder_context dc;
		br_skey_decoder_init(&dc);
		WITNESS_POINT("initialised");
		for (i = 0; i < NPUSH; i ++) {
			if (i < n) {
				br_skey_decoder_push(&dc, bad, sizeof bad);
				CHECK(br_skey_decoder_last_error(&dc) != 0 && br_skey_decoder_key_type(&dc) == 0, "malformed key: an error and no key");
			}
		}
	}
#else
	{
		br_x509_decoder_context dc;
		br_x509_decoder_init(&dc, 0, 0, 0, 0);
		WITNESS_POINT("initialised");
		for (i = 0; i < NPUSH; i ++) {
			if (i < n) {
				br_x509_decoder_push(&dc, bad, sizeof bad);
				CHECK(br_x509_decoder_last_error(&dc) != 0, "malformed certificate: an error");
			}
		}
	}
#endif
	return 0;
}
