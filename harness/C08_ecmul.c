/*
 * C08 (g'): the scalar-multiplication core of ec_p256_m15, p256_mul() (static):
 * 2-bit window, window look-up by conditional copies, Jacobian doubling and
 * addition -- without point decoding / conversion to affine (modular
 * inversion), which make the full api_mul too large for the quick tier.
 * Secret: scalar bytes, all coordinate limbs of the point.  Public: xlen.
 */
#include "C08_rt.h"
#include "inner.h"
#ifdef C08_TV
#include "src/ec/ec_p256_m15.c"   /* the real static function, for the differential run only */
#else
typedef struct { uint32_t x[20], y[20], z[20]; } p256_jacobian;
#endif
#include C08_GEN
#ifndef XLEN
#define XLEN 1
#endif
static p256_jacobian Pt __attribute__((aligned(16)));
static unsigned char x[XLEN + 1];
static void c08_public(void) { }
static void c08_secret(void)
{
	for (int i = 0; i < 20; i++) {
		Pt.x[i] = ND_U32() & 0x1FFF;
		Pt.y[i] = ND_U32() & 0x1FFF;
		Pt.z[i] = ND_U32() & 0x1FFF;
	}
	ND_BYTES(x, XLEN);
}
static void c08_call(void) { ir_p256_mul((unsigned char *)&Pt, x, XLEN); }
#ifdef C08_TV
static void c08_call_real(void) { p256_mul(&Pt, x, XLEN); }
static void c08_out(void) { C08_OUT(&Pt, sizeof Pt); }
#endif
#include "C08_main.h"
