/*
 * C18.b: br_encode_rsa_raw_der / br_encode_rsa_pkcs8_der
 * (real src/x509/encode_rsa_rawder.c, encode_rsa_pk8der.c, asn1enc.c).
 *
 *   -DPK8=0|1      raw RSAPrivateKey / PKCS#8 wrapper
 *   -DFOCUS=k      k in 0..7 (n e d p q dp dq iq): component k is "free":
 *                  CF fully symbolic bytes (every number of leading zero
 *                  octets, every top bit) and, with -DSYMLEN=1, a symbolic
 *                  length 0..CF; the other seven are "fillers" of CO bytes:
 *                    -DFILL=0  fully symbolic too
 *                    -DFILL=1  first byte 0x80|s  (top bit set: sign octet)
 *                    -DFILL=2  first byte 0x40|s  (top bit clear, non-zero)
 *                  (bit-constant shapes: positions after them are constants
 *                  for the solver, which is what makes sizes > 100 bytes
 *                  tractable).  FOCUS < 0 (default): all eight are free.
 *   -DEXACT=1      the destination is an exact-size region at the very end
 *                  of an array (any overrun leaves the object => CBMC bounds
 *                  check / ASan)
 *
 * Checks: (a) announced size (dest == NULL) == returned size == bytes written
 * (guard region of symbolic sentinel bytes), (b) the strict DER reader of
 * C18_der.h finds RFC 8017 A.1.2 RSAPrivateKey { 0, n, e, d, p, q, dP, dQ,
 * qInv } (inside RFC 5208 PrivateKeyInfo { 0, { rsaEncryption, NULL },
 * OCTET STRING } for PK8) with every INTEGER equal to the input component,
 * and nothing else.
 */
#include "common.h"
#include "inner.h"
#include "C18_der.h"

#ifndef PK8
#define PK8 0
#endif
#ifndef FOCUS
#define FOCUS (-1)
#endif
#ifndef CF
#define CF 3
#endif
#ifndef CO
#define CO 1
#endif
#ifndef FILL
#define FILL 0
#endif
#ifndef SYMLEN
#define SYMLEN 0
#endif
#ifndef EXACT
#define EXACT 0
#endif

/* component order: 0 n, 1 e, 2 d, 3 p, 4 q, 5 dp, 6 dq, 7 iq */
#define IS_FREE(i)  (FOCUS < 0 || FOCUS == (i))
#define CLEN(i)     (IS_FREE(i) ? CF : CO)
#define NL_N   CLEN(0)
#define NL_E   CLEN(1)
#define NL_D   CLEN(2)
#define NL_P   CLEN(3)
#define NL_Q   CLEN(4)
#define NL_DP  CLEN(5)
#define NL_DQ  CLEN(6)
#define NL_IQ  CLEN(7)

#define SUMLEN  (NL_N + NL_E + NL_D + NL_P + NL_Q + NL_DP + NL_DQ + NL_IQ)
/* every INTEGER <= tag + 3 length octets + sign octet + len; version 3;
   SEQUENCE header <= 4; PKCS#8 wrapper <= 4 + 18 + 4 */
#define LENOCT  ((CF + 1 < 128 && CO + 1 < 128) ? 1 : 3)
#define MAXENC  (SUMLEN + 8 * (2 + LENOCT) + 3 + 4 + (PK8 ? 26 : 0))
#define GUARD   8
#define OUTSZ   (MAXENC + GUARD)

#define ARR(n)  ((n) ? (n) : 1)

#if PK8 && !defined(NATIVE_REPLAY)
/*
 * Under CBMC encode_rsa_pk8der.c is compiled as part of this translation
 * unit with its single memcpy call (the fixed 19-byte PK8_HEAD) bound to a
 * second copy of the framework's byte-loop memcpy model.  Purpose: loops are
 * bounded per function name, and the symbolic-length memcpy calls of
 * br_asn1_encode_uint would otherwise be unwound 20 times each.  The native
 * replay links the unmodified file against libc.
 */
static void *
c18_memcpy_head(void *d, const void *s, size_t n)
{
	unsigned char *p = d;
	const unsigned char *q = s;
	size_t i;

	for (i = 0; i < n; i++) p[i] = q[i];
	return d;
}
#define memcpy c18_memcpy_head
#include "src/x509/encode_rsa_pk8der.c"
#undef memcpy
#endif

/* symbolic contents (and length) of component idx */
static size_t
init_comp(unsigned char *x, size_t max, int idx)
{
	size_t i;

	for (i = 0; i < max; i++) x[i] = ND_U8();
	if (!IS_FREE(idx)) {
#if FILL == 1
		if (max) x[0] |= 0x80;
#elif FILL == 2
		if (max) x[0] = 0x40 | (x[0] & 0x3F);
#endif
		return max;
	}
#if SYMLEN
	{
		size_t l = ND_SIZE();
		ASSUME(l <= max);
		return l;
	}
#else
	return max;
#endif
}

static size_t
encode(void *dest, const br_rsa_private_key *sk, const br_rsa_public_key *pk,
	const void *d, size_t dlen)
{
#if PK8
	return br_encode_rsa_pkcs8_der(dest, sk, pk, d, dlen);
#else
	return br_encode_rsa_raw_der(dest, sk, pk, d, dlen);
#endif
}

/* RFC 8017 A.1.2 */
static void
read_rsa_private_key(rd_t *outer, const br_rsa_private_key *sk,
	const br_rsa_public_key *pk, const unsigned char *d, size_t dlen, int *fields_ok)
{
	rd_t r = rd_enter(outer, 0x30);
	size_t off, len;
	int ok = 1;

	rd_uint(&r, &off, &len);   /* version: two-prime(0) */
	if (!r.ok || !val_is_small(r.b, off, len, 0)) ok = 0;
	rd_uint(&r, &off, &len);   /* modulus */
	if (!r.ok || !val_eq(r.b + off, len, pk->n, pk->nlen, NL_N + 1)) ok = 0;
	rd_uint(&r, &off, &len);   /* publicExponent */
	if (!r.ok || !val_eq(r.b + off, len, pk->e, pk->elen, NL_E + 1)) ok = 0;
	rd_uint(&r, &off, &len);   /* privateExponent */
	if (!r.ok || !val_eq(r.b + off, len, d, dlen, NL_D + 1)) ok = 0;
	rd_uint(&r, &off, &len);   /* prime1 */
	if (!r.ok || !val_eq(r.b + off, len, sk->p, sk->plen, NL_P + 1)) ok = 0;
	rd_uint(&r, &off, &len);   /* prime2 */
	if (!r.ok || !val_eq(r.b + off, len, sk->q, sk->qlen, NL_Q + 1)) ok = 0;
	rd_uint(&r, &off, &len);   /* exponent1 */
	if (!r.ok || !val_eq(r.b + off, len, sk->dp, sk->dplen, NL_DP + 1)) ok = 0;
	rd_uint(&r, &off, &len);   /* exponent2 */
	if (!r.ok || !val_eq(r.b + off, len, sk->dq, sk->dqlen, NL_DQ + 1)) ok = 0;
	rd_uint(&r, &off, &len);   /* coefficient */
	if (!r.ok || !val_eq(r.b + off, len, sk->iq, sk->iqlen, NL_IQ + 1)) ok = 0;
	if (!rd_done(&r)) ok = 0;  /* no otherPrimeInfos, no garbage */
	if (!r.ok) outer->ok = 0;
	*fields_ok = ok;
}

int main(void)
{
	unsigned char n[ARR(NL_N)], e[ARR(NL_E)], d[ARR(NL_D)], p[ARR(NL_P)], q[ARR(NL_Q)];
	unsigned char dp[ARR(NL_DP)], dq[ARR(NL_DQ)], iq[ARR(NL_IQ)];
	unsigned char out[OUTSZ];
	unsigned char s = ND_U8();
	br_rsa_private_key sk;
	br_rsa_public_key pk;
	size_t dlen, r0, r1, i;
	unsigned char *dest;

	pk.n = n; pk.nlen = init_comp(n, NL_N, 0);
	pk.e = e; pk.elen = init_comp(e, NL_E, 1);
	dlen = init_comp(d, NL_D, 2);
	sk.n_bitlen = ND_U32();     /* not used by the encoders */
	sk.p = p; sk.plen = init_comp(p, NL_P, 3);
	sk.q = q; sk.qlen = init_comp(q, NL_Q, 4);
	sk.dp = dp; sk.dplen = init_comp(dp, NL_DP, 5);
	sk.dq = dq; sk.dqlen = init_comp(dq, NL_DQ, 6);
	sk.iq = iq; sk.iqlen = init_comp(iq, NL_IQ, 7);
	c18_fill(out, OUTSZ, s);

	r0 = encode(NULL, &sk, &pk, d, dlen);
	CHECK(r0 >= 2 && r0 <= MAXENC, "announced size within the expected range");
#if EXACT
	dest = out + (OUTSZ - r0);
#else
	dest = out;
#endif
	r1 = encode(dest, &sk, &pk, d, dlen);
	CHECK(r0 == r1, "announced size (dest == NULL) == returned size when writing");
	CHECK(c18_untouched(out, OUTSZ, (size_t)(dest - out), (size_t)(dest - out) + r1, s),
		"nothing written outside dest[0 .. returned size)");

	{
		rd_t top;
		int fields_ok = 0;

		top.b = dest; top.pos = 0; top.end = r1; top.ok = 1;
#if PK8
		{
			/* RFC 5208 5: PrivateKeyInfo */
			rd_t pki = rd_enter(&top, 0x30), alg, pkey;
			size_t off, len;
			int wrap_ok = 1;

			rd_uint(&pki, &off, &len);                 /* version v1(0) */
			if (!pki.ok || !val_is_small(pki.b, off, len, 0)) wrap_ok = 0;
			alg = rd_enter(&pki, 0x30);                /* AlgorithmIdentifier */
			rd_oid(&alg, ARCS_rsaEncryption, NARCS(ARCS_rsaEncryption));
			rd_prim(&alg, 0x05, &off, &len);           /* parameters: NULL (RFC 8017 A.1) */
			if (!alg.ok || len != 0 || !rd_done(&alg)) wrap_ok = 0;
			pkey = rd_enter(&pki, 0x04);               /* privateKey OCTET STRING */
			read_rsa_private_key(&pkey, &sk, &pk, d, dlen, &fields_ok);
			if (!rd_done(&pkey)) wrap_ok = 0;
			if (!rd_done(&pki)) wrap_ok = 0;           /* no attributes */
			CHECK(wrap_ok, "PKCS#8 PrivateKeyInfo { 0, { rsaEncryption, NULL }, OCTET STRING { RSAPrivateKey } } exactly");
		}
#else
		read_rsa_private_key(&top, &sk, &pk, d, dlen, &fields_ok);
#endif
		CHECK(top.ok, "output is well-formed strict DER");
		CHECK(fields_ok, "RSAPrivateKey { 0, n, e, d, p, q, dp, dq, iq }: every INTEGER minimal and equal to the input component");
		CHECK(rd_done(&top), "returned size == size of the structure: no trailing byte");
	}
#ifdef WIT_FREE
	/* shapes of the free component(s), seen on component WIT_FREE */
	{
		const unsigned char *fx = WIT_FREE == 0 ? n : WIT_FREE == 1 ? e : WIT_FREE == 2 ? d : WIT_FREE == 3 ? p
			: WIT_FREE == 4 ? q : WIT_FREE == 5 ? dp : WIT_FREE == 6 ? dq : iq;
		size_t fl = WIT_FREE == 0 ? pk.nlen : WIT_FREE == 1 ? pk.elen : WIT_FREE == 2 ? dlen : WIT_FREE == 3 ? sk.plen
			: WIT_FREE == 4 ? sk.qlen : WIT_FREE == 5 ? sk.dplen : WIT_FREE == 6 ? sk.dqlen : sk.iqlen;
		int zero = 1;
		for (i = 0; i < CF; i++) { if (i < fl && fx[i] != 0) zero = 0; }
		if (zero) { WITNESS_POINT("free component of value zero"); }
		if (fl == CF && fx[0] >= 0x80) { WITNESS_POINT("free component with top bit set, full length"); }
		if (fl == CF && fx[0] != 0 && fx[0] < 0x80) { WITNESS_POINT("free component with top bit clear, full length"); }
#if CF > 1
		if (fl == CF && fx[0] == 0 && fx[1] >= 0x80) { WITNESS_POINT("free component: leading zero octet then top bit set"); }
#endif
	}
#endif
#ifdef WIT_LONG
	if (dest[1] >= 0x80) { WITNESS_POINT("outer length in long form"); }
#endif
#ifdef WIT_SHORT
	if (dest[1] < 0x80) { WITNESS_POINT("outer length in short form"); }
#endif
	WITNESS_POINT("end");
	return 0;
}
