/*
 * C12 mode logic: every mode entry point of one implementation equals the
 * textbook definition of the mode over the block function E/D, for every key,
 * IV/nonce, counter (32-bit wrap and 128-bit carries included), MAC state and
 * data of LEN bytes, in place; and the chaining state it leaves makes
 * run(d,LEN) == run(d,S); run(d+S,LEN-S) for every admissible S.
 * The block function is the uninterpreted stand-in of C12_ufcore.h bound at
 * the core link seam (real key schedule, real mode file, real ortho /
 * interleave code for the bitsliced implementations).
 *
 * MODE 1 cbcenc  2 cbcdec  3 ctr  4 ctrcbc_encrypt  5 ctrcbc_decrypt
 *      6 ctrcbc_ctr  7 ctrcbc_mac
 * KEYS_T INIT RUN KLEN LEN, IMPLK (see C12_ufcore.h)
 * CHECK_TAIL_COUNTER (MODE 3: also compare the returned counter when LEN is
 * not a multiple of 16), DO_REF (compare with the definition), S_LO..S_HI (split points handled by
 * this query; the driver covers 0..LEN over the queries of one entry point)
 */
#include "C12_ufcore.h"

#define BS C12_BS
#define NBLK ((LEN + BS - 1) / BS)

/* ---- references: SP 800-38A CBC / CTR, CBC-MAC, over E/D ---- */
static void
ref_cbcenc(unsigned char *iv, unsigned char *d, size_t len)
{
	for (size_t o = 0; o < len; o += BS) {
		for (int i = 0; i < BS; i++) d[o + i] ^= iv[i];
		c12_Eb(d + o);
		for (int i = 0; i < BS; i++) iv[i] = d[o + i];
	}
}

static void
ref_cbcdec(unsigned char *iv, unsigned char *d, size_t len)
{
	for (size_t o = 0; o < len; o += BS) {
		unsigned char c[BS];
		for (int i = 0; i < BS; i++) c[i] = d[o + i];
		c12_Db(d + o);
		for (int i = 0; i < BS; i++) { d[o + i] ^= iv[i]; iv[i] = c[i]; }
	}
}

#if BS == 16
static uint32_t
ref_ctr(const unsigned char *iv, uint32_t cc, unsigned char *d, size_t len)
{
	for (size_t o = 0; o < len; o += 16) {
		unsigned char b[16];
		for (int i = 0; i < 12; i++) b[i] = iv[i];
		b[12] = (unsigned char)(cc >> 24); b[13] = (unsigned char)(cc >> 16);
		b[14] = (unsigned char)(cc >> 8); b[15] = (unsigned char)cc;
		c12_Eb(b);
		for (size_t i = 0; i < 16 && o + i < len; i++) d[o + i] ^= b[i];
		cc++;
	}
	return cc;
}

static void
ref_ctr128(unsigned char *ctr, unsigned char *d, size_t len)
{
	for (size_t o = 0; o < len; o += 16) {
		unsigned char b[16];
		for (int i = 0; i < 16; i++) b[i] = ctr[i];
		c12_Eb(b);
		for (int i = 0; i < 16; i++) d[o + i] ^= b[i];
		/* big-endian 128-bit increment */
		unsigned c = 1;
		for (int i = 15; i >= 0; i--) { c += ctr[i]; ctr[i] = (unsigned char)c; c >>= 8; }
	}
}

static void
ref_mac(unsigned char *mac, const unsigned char *d, size_t len)
{
	for (size_t o = 0; o < len; o += 16) {
		for (int i = 0; i < 16; i++) mac[i] ^= d[o + i];
		c12_Eb(mac);
	}
}
#endif

static void
ref_one(unsigned char *iv, unsigned char *mac, uint32_t *cc, unsigned char *d, size_t len)
{
#if MODE == 1
	ref_cbcenc(iv, d, len);
#elif MODE == 2
	ref_cbcdec(iv, d, len);
#elif MODE == 3
	*cc = ref_ctr(iv, *cc, d, len);
#elif MODE == 4
	ref_ctr128(iv, d, len); ref_mac(mac, d, len);
#elif MODE == 5
	ref_mac(mac, d, len); ref_ctr128(iv, d, len);
#elif MODE == 6
	ref_ctr128(iv, d, len);
#elif MODE == 7
	ref_mac(mac, d, len);
#endif
	(void)iv; (void)mac; (void)cc;
}

static void
run_one(const KEYS_T *ctx, unsigned char *iv, unsigned char *mac, uint32_t *cc, unsigned char *d, size_t len)
{
#if MODE == 1 || MODE == 2 || MODE == 6
	RUN(ctx, iv, d, len);
#elif MODE == 3
	*cc = RUN(ctx, iv, *cc, d, len);
#elif MODE == 4 || MODE == 5
	RUN(ctx, iv, mac, d, len);
#elif MODE == 7
	RUN(ctx, mac, d, len);
#endif
	(void)iv; (void)mac; (void)cc;
}

#define IVL 16

int main(void)
{
	unsigned char key[KLEN], iv0[IVL], mac0[IVL], d0[LEN + 1];
	uint32_t cc0;
	KEYS_T kctx;

	ND_BYTES(key, KLEN);
	ND_BYTES(iv0, IVL);
	ND_BYTES(mac0, IVL);
	cc0 = ND_U32();
	ND_BYTES(d0, LEN);
	d0[LEN] = 0x5A;		/* guard byte */
	c12_key = key; c12_klen = KLEN;
	INIT(&kctx, key, KLEN);
	CHECK(kctx.vtable->block_size == BS && (1u << kctx.vtable->log_block_size) == BS, "vtable announces the block size");
	c12_nr = kctx.num_rounds;
	c12_skey_ptr = kctx.skey;
#if IMPLK <= 4
	CHECK(c12_nr == 6 + KLEN / 4, "AES round count for the key size");
#else
	CHECK(c12_nr == (KLEN == 8 ? 1 : 3), "DES / 3DES pass count for the key size");
#endif
#if MODE == 2
	c12_dec_ctx = 1;
#endif
#ifndef NATIVE_REPLAY
	/* what the bitsliced cores must be handed: the expanded form of ctx->skey
	   (aes_ct: the real expansion; aes_ct64 / des_ct: "every bit of the
	   compressed word replicated over its nibble", written without the
	   (x << 4) - x arithmetic of the real code) */
#if IMPLK == 3
	c12_skexp_n = (c12_nr + 1) << 3;
	br_aes_ct_skey_expand(c12_skexp, c12_nr, kctx.skey);
#elif IMPLK == 4
	c12_skexp_n = (c12_nr + 1) << 3;
	for (unsigned u = 0; u < (c12_nr + 1) << 1; u++)
		for (int j = 0; j < 4; j++) {
			uint64_t w = (kctx.skey[u] >> j) & (uint64_t)0x1111111111111111;
			c12_skexp[4 * u + j] = w | (w << 1) | (w << 2) | (w << 3);
		}
#elif IMPLK == 6
	c12_skexp_n = c12_nr * 96;
	for (unsigned u = 0; u < c12_nr * 16; u++)
		for (int j = 0; j < 6; j++) {
			uint32_t w = (kctx.skey[2 * u + (j >> 2)] >> (j & 3)) & (uint32_t)0x11111111;
			c12_skexp[6 * u + j] = w | (w << 1) | (w << 2) | (w << 3);
		}
#endif
#endif

	/* ---- whole message: implementation vs definition ---- */
	unsigned char ivA[IVL], macA[IVL], dA[LEN + 1], ivR[IVL], macR[IVL], dR[LEN + 1];
	uint32_t ccA = cc0, ccR = cc0;
	for (int i = 0; i < IVL; i++) { ivA[i] = ivR[i] = iv0[i]; macA[i] = macR[i] = mac0[i]; }
	for (int i = 0; i <= LEN; i++) dA[i] = dR[i] = d0[i];
	run_one(&kctx, ivA, macA, &ccA, dA, LEN);
	CHECK(dA[LEN] == 0x5A, "nothing past LEN is written");
#if DO_REF
	ref_one(ivR, macR, &ccR, dR, LEN);
	for (int i = 0; i < LEN; i++) CHECK(dA[i] == dR[i], "output bytes equal the mode definition");
	for (int i = 0; i < IVL; i++) CHECK(ivA[i] == ivR[i], "IV / counter block left as the mode definition says");
	for (int i = 0; i < IVL; i++) CHECK(macA[i] == macR[i], "CBC-MAC value equals the definition");
#if MODE == 3
	if (LEN % 16 == 0) CHECK(ccA == (uint32_t)(cc0 + LEN / 16), "returned counter == start + number of blocks (mod 2^32)");
#ifdef CHECK_TAIL_COUNTER
	/* final chunk with a partial block: the key-stream block of the partial
	   block is consumed, so the "new counter value" is start + ceil(LEN/16);
	   br_aesctr_drbg_generate() passes arbitrary lengths and continues with
	   the returned value, i.e. relies on this to never reuse a block */
	CHECK(ccA == ccR, "CTR with a partial final block: returned counter == start + number of key-stream blocks consumed (ceil(len/16))");
#endif
#endif
#endif

	/* ---- splitting law ---- */
	for (size_t s = 0; s <= LEN; s += BS) {
		if (s < S_LO || s > S_HI) continue;
#if MODE != 3
		if ((LEN - s) % BS != 0) continue;
#endif
		unsigned char ivB[IVL], macB[IVL], dB[LEN + 1];
		uint32_t ccB = cc0;
		for (int i = 0; i < IVL; i++) { ivB[i] = iv0[i]; macB[i] = mac0[i]; }
		for (int i = 0; i <= LEN; i++) dB[i] = d0[i];
		run_one(&kctx, ivB, macB, &ccB, dB, s);
		for (size_t i = s; i <= LEN; i++) CHECK(dB[i] == d0[i], "first call does not touch data beyond its length");
		run_one(&kctx, ivB, macB, &ccB, dB + s, LEN - s);
		for (int i = 0; i <= LEN; i++) CHECK(dB[i] == dA[i], "split run yields the same bytes as the single run");
		for (int i = 0; i < IVL; i++) CHECK(ivB[i] == ivA[i], "split run leaves the same IV / counter block as the single run");
		for (int i = 0; i < IVL; i++) CHECK(macB[i] == macA[i], "split run leaves the same CBC-MAC value as the single run");
		CHECK(ccB == ccA, "split run returns the same counter as the single run");
	}

#if MODE == 3
#if LEN > 16
	if (cc0 > 0xFFFFFFFFu - (NBLK - 1)) { WITNESS_POINT("32-bit counter wraps inside the message"); }
#endif
	if (cc0 == 0xFFFFFFFFu) { WITNESS_POINT("start counter 0xFFFFFFFF"); }
#endif
#if MODE == 4 || MODE == 5 || MODE == 6
	{
		int allff = 1;
		for (int i = 0; i < 15; i++) if (iv0[i] != 0xFF) allff = 0;
		if (allff && iv0[15] == 0xFF) { WITNESS_POINT("128-bit counter wraps from 2^128-1"); }
		if (iv0[15] == 0xFF && iv0[14] == 0xFF && iv0[13] == 0xFF && iv0[12] == 0xFF && iv0[11] != 0xFF) { WITNESS_POINT("carry out of the low counter word"); }
	}
#endif
	(void)ivR; (void)macR; (void)dR; (void)ccR;
	WITNESS_POINT("all comparisons of this query done");
	return 0;
}
