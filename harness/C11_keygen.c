/*
 * C11.d: br_ec_keygen (real src/ec/ec_keygen.c) and br_ec_compute_pub (real
 * src/ec/ec_pubkey.c).
 *
 * MODE 0 (keygen): PRNG = stub br_prng_class whose generate() hands out
 *   symbolic bytes drawn in main() (candidate j = rnd[j]); EC implementation
 *   = stub whose order() returns the REAL order of curve CURVE (23, 24, 25:
 *   src/ec/ec_secp*r1.c; 29: src/ec/ec_curve25519.c; CURVE 1: a toy order
 *   00 41 13 37 to exercise zero stripping and a sparse top byte).  Executions that need
 *   more than KITER candidates are cut (generate() ends the path), every
 *   other execution is covered.  Decides: returned length = order length
 *   (leading zero bytes of the order not counted), key = FIRST candidate
 *   that, after masking its top byte to the order's bit length, is in
 *   [1, n-1]; so 1 <= x < n; exactly len bytes are requested per candidate;
 *   sk = {curve, kbuf, len}; the rest of kbuf is untouched.
 *   KBUFNULL=1: kbuf == NULL => length only, no PRNG call.  SKNULL=1.
 * MODE 1 (keygen gate): every int curve id that is < 0, >= 32 or not in
 *   supported_curves => 0, neither PRNG nor order() called.
 * MODE 2 (compute_pub): stub mulgen records its arguments and returns a
 *   symbolic length; every curve id (any int), kbuf/pk NULL or not.
 */
#include "common.h"
#include "inner.h"

#ifndef MODE
#define MODE 0
#endif
#ifndef CURVE
#define CURVE 23
#endif
#ifndef KITER
#define KITER 2
#endif
#ifndef KBUFNULL
#define KBUFNULL 0
#endif
#ifndef SKNULL
#define SKNULL 0
#endif

#if CURVE == 1
/* toy order with a leading zero byte and a sparse top byte (mask must be 0x7F) */
static const unsigned char TOY_ORDER[] = { 0x00, 0x41, 0x13, 0x37 };
static const br_ec_curve_def toy_cd = { 1, TOY_ORDER, sizeof TOY_ORDER, TOY_ORDER, 1 };
#define CD toy_cd
#elif CURVE == 23
#define CD br_secp256r1
#elif CURVE == 24
#define CD br_secp384r1
#elif CURVE == 25
#define CD br_secp521r1
#else
#define CD br_curve25519
#endif
#define KMAX BR_EC_KBUF_PRIV_MAX_SIZE

/* ---------------- stub PRNG ---------------- */
typedef struct {
	const br_prng_class *vtable;
} stub_prng;
static unsigned gen_calls;
static unsigned char rnd[KITER][KMAX];
static size_t gen_len[KITER];
static void *gen_out[KITER];

static void stub_init(const br_prng_class **ctx, const void *params, const void *seed, size_t seed_len)
{
	(void)ctx; (void)params; (void)seed; (void)seed_len;
	CHECK(0, "keygen does not re-initialise the PRNG");
}
static void stub_update(const br_prng_class **ctx, const void *seed, size_t seed_len)
{
	(void)ctx; (void)seed; (void)seed_len;
	CHECK(0, "keygen does not reseed the PRNG");
}
static void stub_generate(const br_prng_class **ctx, void *out, size_t len)
{
	(void)ctx;
	if (gen_calls >= KITER) {
		FINISH();           /* more than KITER candidates: outside this query */
	}
	gen_len[gen_calls] = len;
	gen_out[gen_calls] = out;
	for (size_t i = 0; i < KMAX; i++) {
		if (i < len) ((unsigned char *)out)[i] = rnd[gen_calls][i];
	}
	gen_calls++;
}
static const br_prng_class stub_prng_vtable = { sizeof(stub_prng), &stub_init, &stub_generate, &stub_update };

/* ---------------- stub EC implementation ---------------- */
static unsigned order_calls, mulgen_calls, other_calls;
static int ord_curve;
static const unsigned char *stub_generator(int curve, size_t *len) { (void)curve; (void)len; other_calls++; return 0; }
static const unsigned char *stub_order(int curve, size_t *len)
{
	order_calls++;
	ord_curve = curve;
	*len = CD.order_len;
	return CD.order;
}
static size_t stub_xoff(int curve, size_t *len) { (void)curve; (void)len; other_calls++; return 0; }
static uint32_t stub_mul(unsigned char *G, size_t Glen, const unsigned char *x, size_t xlen, int curve)
{ (void)G; (void)Glen; (void)x; (void)xlen; (void)curve; other_calls++; return 0; }
static unsigned char *mg_R;
static const unsigned char *mg_x;
static size_t mg_xlen, mg_ret;
static int mg_curve;
static size_t stub_mulgen(unsigned char *R, const unsigned char *x, size_t xlen, int curve)
{
	mulgen_calls++;
	mg_R = R; mg_x = x; mg_xlen = xlen; mg_curve = curve;
	return mg_ret;
}
static uint32_t stub_muladd(unsigned char *A, const unsigned char *B, size_t len,
	const unsigned char *x, size_t xlen, const unsigned char *y, size_t ylen, int curve)
{ (void)A; (void)B; (void)len; (void)x; (void)xlen; (void)y; (void)ylen; (void)curve; other_calls++; return 0; }

/* big-endian a < b, both w bytes */
static int be_lt(const unsigned char *a, const unsigned char *b, size_t w)
{
	int lt = 0, decided = 0;
	for (size_t i = 0; i < w; i++) {
		if (!decided && a[i] != b[i]) { decided = 1; lt = a[i] < b[i]; }
	}
	return lt;
}
static int be_iszero(const unsigned char *a, size_t w)
{
	int z = 1;
	for (size_t i = 0; i < w; i++) if (a[i] != 0) z = 0;
	return z;
}

int main(void)
{
	br_ec_impl impl;
	stub_prng rng;
	rng.vtable = &stub_prng_vtable;
	impl.supported_curves = ND_U32();
	impl.generator = &stub_generator;
	impl.order = &stub_order;
	impl.xoff = &stub_xoff;
	impl.mul = &stub_mul;
	impl.mulgen = &stub_mulgen;
	impl.muladd = &stub_muladd;

#if MODE == 0
	unsigned char kbuf[KMAX], kbuf0[KMAX];
	br_ec_private_key sk;
	for (unsigned j = 0; j < KITER; j++) ND_BYTES(rnd[j], KMAX);
	ND_BYTES(kbuf0, KMAX);
	for (size_t i = 0; i < KMAX; i++) kbuf[i] = kbuf0[i];
	sk.curve = -1; sk.x = 0; sk.xlen = 12345;
	ASSUME((impl.supported_curves >> CURVE) & 1);

	/* reference: significant part of the order, bit mask of its top byte */
	size_t olen = CD.order_len, ooff = 0;
	for (size_t i = 0; i < CD.order_len; i++) {
		if (ooff == i && CD.order[i] == 0) { ooff = i + 1; olen--; }
	}
	const unsigned char *N = CD.order + ooff;     /* ooff is 0 for all real curves */
	unsigned mask = 0;
	for (int b = 7; b >= 0; b--) if (N[0] >> b) { mask = (1u << (b + 1)) - 1; break; }

	size_t ret = br_ec_keygen(&rng.vtable, &impl, SKNULL ? (br_ec_private_key *)0 : &sk, KBUFNULL ? (void *)0 : (void *)kbuf, CURVE);

	CHECK(ret == olen, "returned length is the order length");
	CHECK(order_calls == 1 && ord_curve == CURVE && other_calls == 0 && mulgen_calls == 0, "only order(curve) is asked from the implementation");
#if KBUFNULL
	CHECK(gen_calls == 0, "kbuf == NULL: no random bytes drawn");
	CHECK(sk.curve == -1 && sk.x == 0 && sk.xlen == 12345, "kbuf == NULL: sk untouched");
	WITNESS_POINT("length query");
#else
	CHECK(gen_calls >= 1 && gen_calls <= KITER, "at least one candidate drawn");
	for (unsigned j = 0; j < KITER; j++) {
		if (j < gen_calls) {
			CHECK(gen_len[j] == olen && gen_out[j] == (void *)kbuf, "each candidate: exactly len bytes, into kbuf");
			/* candidate j after masking */
			unsigned char c[KMAX];
			for (size_t i = 0; i < KMAX; i++) c[i] = rnd[j][i];
			c[0] &= mask;
			int inrange = !be_iszero(c, olen) && be_lt(c, N, olen);
			if (j + 1 < gen_calls) {
				CHECK(!inrange, "a candidate is discarded only if it is 0 or >= n");
			} else {
				CHECK(inrange, "the accepted candidate is in [1, n-1]");
				for (size_t i = 0; i < KMAX; i++) {
					if (i < olen) CHECK(kbuf[i] == c[i], "key = accepted candidate, top byte masked to the order's bit length");
				}
			}
		}
	}
	CHECK(!be_iszero(kbuf, olen) && be_lt(kbuf, N, olen), "1 <= x < n");
	for (size_t i = 0; i < KMAX; i++) {
		if (i >= olen) CHECK(kbuf[i] == kbuf0[i], "kbuf past the key is untouched");
	}
#if SKNULL
	WITNESS_POINT("key generated without sk");
#else
	CHECK(sk.curve == CURVE && sk.x == kbuf && sk.xlen == olen, "sk = {curve, kbuf, len}");
	if (gen_calls == 1) { WITNESS_POINT("first candidate accepted"); }
	if (gen_calls == 2) { WITNESS_POINT("first candidate rejected, second accepted"); }
#endif
#endif
	return 0;

#elif MODE == 1
	unsigned char kbuf[KMAX];
	br_ec_private_key sk;
	int curve = ND_INT();
	int kn = ND_U8() & 1, sn = ND_U8() & 1;
	int bad = curve < 0 || curve >= 32 || ((impl.supported_curves >> (curve & 31)) & 1) == 0;
	ASSUME(bad);
	sk.curve = -1; sk.x = 0; sk.xlen = 12345;
	size_t ret = br_ec_keygen(&rng.vtable, &impl, sn ? (br_ec_private_key *)0 : &sk, kn ? (void *)0 : (void *)kbuf, curve);
	CHECK(ret == 0, "unsupported / out-of-range curve id => 0");
	CHECK(gen_calls == 0 && order_calls == 0 && other_calls == 0 && mulgen_calls == 0, "nothing is called for an unsupported curve");
	CHECK(sk.curve == -1 && sk.x == 0 && sk.xlen == 12345, "sk untouched");
	WITNESS_POINT("unsupported curve rejected");
	return 0;

#else
	static const unsigned char plen[32] = {   /* RFC 4492/8422 curves: 1 + 2*ceil(field bits / 8); 25519: 32; 448: 56 */
		0, 43, 43, 43, 51, 51, 61, 61, 61, 73, 73, 105, 105, 145, 145, 41, 41, 41, 49, 49, 57, 57, 65, 65, 97, 133, 65, 97, 129, 32, 56, 0 };
	unsigned char kbuf[BR_EC_KBUF_PUB_MAX_SIZE], xb[KMAX];
	br_ec_private_key sk;
	br_ec_public_key pk;
	int curve = ND_INT();
	int kn = ND_U8() & 1, pn = ND_U8() & 1;
	mg_ret = ND_SIZE();
	sk.curve = curve; sk.x = xb; sk.xlen = ND_SIZE();
	pk.curve = -1; pk.q = 0; pk.qlen = 12345;
	int ok = curve >= 0 && curve < 31 && ((impl.supported_curves >> (curve & 31)) & 1) != 0;
	size_t ret = br_ec_compute_pub(&impl, pn ? (br_ec_public_key *)0 : &pk, kn ? (void *)0 : (void *)kbuf, &sk);
	CHECK(order_calls == 0 && other_calls == 0 && gen_calls == 0, "only mulgen may be called");
	if (!ok) {
		CHECK(ret == 0 && mulgen_calls == 0, "unsupported / out-of-range curve id => 0, nothing computed");
		CHECK(pk.curve == -1 && pk.q == 0 && pk.qlen == 12345, "pk untouched");
		WITNESS_POINT("unsupported curve rejected");
	} else if (kn) {
		CHECK(mulgen_calls == 0, "kbuf == NULL: nothing computed");
		CHECK(pk.curve == -1 && pk.q == 0 && pk.qlen == 12345, "kbuf == NULL: pk untouched");
		for (int c = 0; c < 31; c++) if (curve == c) CHECK(ret == plen[c], "kbuf == NULL: encoded point length of the curve");
		WITNESS_POINT("length query");
	} else {
		CHECK(mulgen_calls == 1 && mg_R == kbuf && mg_x == xb && mg_xlen == sk.xlen && mg_curve == curve, "mulgen(kbuf, sk.x, sk.xlen, curve) called once");
		CHECK(ret == mg_ret, "length reported by mulgen is returned");
		if (!pn) {
			CHECK(pk.curve == curve && pk.q == kbuf && pk.qlen == mg_ret, "pk = {curve, kbuf, len}");
			WITNESS_POINT("public key computed");
		} else {
			WITNESS_POINT("public key computed without pk");
		}
	}
	return 0;
#endif
}
