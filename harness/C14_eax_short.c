/*
 * C14.6 EAX saved-state shortcuts (src/aead/eax.c):
 *   F: br_eax_reset(nonce); aad_inject(aad); flip; run(data); get_tag      (full path)
 *   P: br_eax_capture(st0); br_eax_reset_pre_aad(st0, nonce); aad_inject(aad);
 *      flip; run(data); get_tag                                            (pre-AAD state)
 *   Q: st1 = st0 updated by br_eax_get_aad_mac() of a run with ANOTHER nonce
 *      (nonce1) and the same AAD; br_eax_reset_post_aad(st1, nonce);
 *      run(data); get_tag   -- no aad_inject, no flip                      (post-AAD state)
 * P and Q must give the same output bytes and tag as F, for every key, both
 * nonces, AAD and data.  Documented preconditions of the shortcuts: AL >= 1
 * and DL >= 1.  The data is given to P and Q in two pieces with a symbolic cut
 * (the shortcut contexts start run() with ptr == 0, the state the full path
 * never has); the AAD is given to P in two pieces when SPLITA=1.
 */
#include "C14_api.h"

#if MODE != 3
#error "EAX only"
#endif
#ifndef SPLITA
#define SPLITA 0
#endif

int main(void)
{
	unsigned char key[16], nonce[NLA], nonce1[NLA], aad[ALA], in[DLA];
	unsigned char dF[DLA], dP[DLA], dQ[DLA], tF[16], tP[16], tQ[16];
	ND_BYTES(key, 16);
	ND_BYTES(nonce, NLA);
	ND_BYTES(nonce1, NLA);
	ND_BYTES(aad, ALA);
	ND_BYTES(in, DLA);
	size_t sa = ND_SIZE(), sp = ND_SIZE(), sq = ND_SIZE();
	ASSUME(sa <= AL);
	ASSUME(sp <= DL);
	ASSUME(sq <= DL);
	for (int i = 0; i < DLA; i++) dF[i] = dP[i] = dQ[i] = in[i];

	/* F: full path */
	aead_t f;
	A_init(&f, key);
	A_oneshot(&f, nonce, aad, DIR, dF, tF);

	/* P: pre-AAD captured state */
	aead_t p;
	br_eax_state st0, st1;
	A_init(&p, key);
	br_eax_capture(&p.c, &st0);
	br_eax_reset_pre_aad(&p.c, &st0, nonce, NL);
#if SPLITA
	A_aad_split(&p, aad, AL, sa);
#else
	A_aad(&p, aad, AL);
#endif
	A_flip(&p);
	A_run_split(&p, DIR, dP, DL, sp);
	A_get_tag(&p, tP);
	for (int i = 0; i < DL; i++) CHECK(dP[i] == dF[i], "reset_pre_aad path: same output bytes as the full reset path");
	for (int i = 0; i < TL; i++) CHECK(tP[i] == tF[i], "reset_pre_aad path: same tag as the full reset path");

	/* the AAD MAC is taken from a run under another nonce (it must not depend on it) */
	aead_t s;
	A_init(&s, key);
	st1 = st0;
	br_eax_reset(&s.c, nonce1, NL);
	A_aad(&s, aad, AL);
	A_flip(&s);
	br_eax_get_aad_mac(&s.c, &st1);

	/* Q: post-AAD captured state, on the context already used for P */
	br_eax_reset_post_aad(&p.c, &st1, nonce, NL);
	A_run_split(&p, DIR, dQ, DL, sq);
	A_get_tag(&p, tQ);
	for (int i = 0; i < DL; i++) CHECK(dQ[i] == dF[i], "reset_post_aad path: same output bytes as the full reset path");
	for (int i = 0; i < TL; i++) CHECK(tQ[i] == tF[i], "reset_post_aad path: same tag as the full reset path");
	WITNESS_POINT("both shortcut paths completed");
	return 0;
}
