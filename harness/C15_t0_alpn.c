/*
 * C15 (T0 part): negotiation natives of ssl_hs_client.c (-DSIDE=0) /
 * ssl_hs_server.c (-DSIDE=1), extracted by encoders/t0tool.py (E2).
 *
 * -DMODE=0  test-protocol-name ( len -- n ): index of the FIRST configured ALPN
 *           name equal to pad[0..len) -- same length AND same bytes (RFC 7301:
 *           protocol names are compared as opaque byte strings, no prefix
 *           matching) -- or -1 when none.  <= 3 configured names of <= 4
 *           characters, all name bytes, the count, len (0..5) and pad symbolic.
 * -DMODE=1  copy-protocol-name ( idx -- len ): copies the idx-th configured
 *           name into the pad and pushes its length.
 * -DMODE=2  supported-curves, supported-hash-functions, supports-rsa-sign?,
 *           supports-ecdsa?: report exactly what is configured in the engine
 *           (curve mask of the EC implementation or 0; bit i for every hash
 *           SHA-1..SHA-512 with an implementation, and their number; verifier
 *           configured or not).
 * -DMODE=3  (client) set-server-curve: server_curve = curve of the validated
 *           EC key, 0 for an RSA key.
 * -DMODE=4  (server) call-policy-handler: the handler's choices (suite,
 *           algo_id, chain) are installed unchanged and its verdict is pushed
 *           as a boolean.
 */
#define T0N_PRE_INCLUDE "C05_t0f.h"
#ifndef SIDE
#define SIDE 0
#endif
#if SIDE == 0
#include "t0n_hsc.c"
#include "t0n_hsc_ops.h"
#else
#include "t0n_hss.c"
#include "t0n_hss_ops.h"
#endif
#ifndef MODE
#define MODE 0
#endif
#define NN 3
#define NL 4

static char names[NN][NL + 1];
static const char *nptr[NN];

static size_t
ref_len(const char *s)          /* length of a configured name (<= NL by construction) */
{
	size_t k;
	for (k = 0; k < NL; k ++) if (s[k] == 0) return k;
	return NL;
}

#if MODE == 3
static br_x509_pkey pkey;
static const br_x509_pkey *xget(const br_x509_class *const *ctx, unsigned *usages) { (void)ctx; if (usages) *usages = 0; return &pkey; }
static const br_x509_class xvt = { 0, 0, 0, 0, 0, 0, xget };
static const br_x509_class *xobj = &xvt;
#endif
#if MODE == 4
static br_x509_certificate chain[2];
static unsigned h_suite, h_algo; static size_t h_n; static int h_ret, h_calls;
static int
pchoose(const br_ssl_server_policy_class **p, const br_ssl_server_context *cc, br_ssl_server_choices *ch)
{
	(void)p; (void)cc;
	h_calls ++;
	ch->cipher_suite = (uint16_t)h_suite; ch->algo_id = h_algo; ch->chain = chain; ch->chain_len = h_n;
	return h_ret;
}
static const br_ssl_server_policy_class pvt = { 0, pchoose, 0, 0 };
static const br_ssl_server_policy_class *pobj = &pvt;
#endif

int
main(void)
{
	T0N_CTXT cc;
	T0N_CTXT *c = &cc;
	uint32_t d0;
	size_t u, i;
#ifdef NATIVE_REPLAY
	NATIVE_FILL(c, sizeof *c);
#endif
	T0F_DEPTH_AT(5);
	d0 = t0n_dpi;
	t0n_co = 0;
#if MODE == 0 || MODE == 1
	for (u = 0; u < NN; u ++) {
		for (i = 0; i < NL; i ++) names[u][i] = (char)ND_U8();
		names[u][NL] = 0;
		nptr[u] = names[u];
	}
	c->eng.protocol_names = nptr;
	{
		unsigned num = ND_U8();
		ASSUME(num <= NN);
		c->eng.protocol_names_num = (uint16_t)num;
	}
#endif
#if MODE == 0
	{
		uint32_t len = ND_U32();
		int32_t expect = -1;
		unsigned char pad[NL + 1];
		ASSUME(len <= NL + 1);
		for (i = 0; i <= NL; i ++) { pad[i] = ND_U8(); c->eng.pad[i] = pad[i]; }
		/* reference: first name with the same length and the same bytes */
		for (u = NN; u > 0; u --) {
			size_t k = u - 1, nl = ref_len(names[k]);
			int same = (nl == len);
			for (i = 0; i < NL; i ++) if (i < nl && i < len && (unsigned char)names[k][i] != pad[i]) same = 0;
			if (k < c->eng.protocol_names_num && same) expect = (int32_t)k;
		}
		T0F_PUSH(c, len);
		C05_DISPATCH(c, C05_OP_test_protocol_name);
		CHECK(t0n_dpi == d0 + 1 && t0n_co == 0, "test-protocol-name replaces its operand by one result");
		CHECK((int32_t)T0F_TOP(c, 0) == expect, "test-protocol-name returns the index of the first configured name equal (length and bytes) to pad[0..len), -1 if none");
		if (expect >= 0) { WITNESS_POINT("a name matches"); } else { WITNESS_POINT("no name matches"); }
		if (expect == 1) { WITNESS_POINT("second name is the first match"); }
	}
#elif MODE == 1
	{
		uint32_t idx = ND_U32();
		size_t nl;
		ASSUME(idx < c->eng.protocol_names_num);
		for (u = 0; u < NN; u ++) if (idx == u) {
			nl = ref_len(names[u]);
			T0F_PUSH(c, idx);
			C05_DISPATCH(c, C05_OP_copy_protocol_name);
			CHECK(t0n_dpi == d0 + 1 && T0F_TOP(c, 0) == nl, "copy-protocol-name pushes the length of the selected name");
			for (i = 0; i < NL; i ++) if (i < nl) CHECK(c->eng.pad[i] == (unsigned char)names[u][i], "copy-protocol-name copies the bytes of the selected name into the pad");
			WITNESS_POINT("name copied");
		}
	}
#elif MODE == 2
	{
		static br_ec_impl ec;
		static br_hash_class hc;
		uint32_t mask = ND_U32();
		unsigned have[7], xm = 0, n = 0;
		int k, has_ec = ND_U8() & 1, has_rsa = ND_U8() & 1, has_ecdsa = ND_U8() & 1;
		ec.supported_curves = mask;
		if (has_ec) { c->eng.iec = &ec; } else { c->eng.iec = 0; }
		if (has_rsa) { c->eng.irsavrfy = &br_rsa_i31_pkcs1_vrfy; } else { c->eng.irsavrfy = 0; }
		if (has_ecdsa) { c->eng.iecdsa = &br_ecdsa_i31_vrfy_asn1; } else { c->eng.iecdsa = 0; }
		for (k = 1; k <= 6; k ++) {
			have[k] = ND_U8() & 1;
			if (have[k]) { c->eng.mhash.impl[k - 1] = &hc; } else { c->eng.mhash.impl[k - 1] = 0; }
			if (k >= br_sha1_ID && have[k]) { xm |= 1u << k; n ++; }
		}
		C05_DISPATCH(c, C05_OP_supported_curves);
		CHECK(t0n_dpi == d0 + 1 && T0F_TOP(c, 0) == (has_ec ? mask : 0), "supported-curves = curve mask of the configured EC implementation, 0 without one");
		C05_DISPATCH(c, C05_OP_supported_hash_functions);
		CHECK(t0n_dpi == d0 + 3 && T0F_TOP(c, 1) == xm && T0F_TOP(c, 0) == n, "supported-hash-functions = bit mask and count of SHA-1..SHA-512 with an implementation (MD5 not reported)");
		C05_DISPATCH(c, C05_OP_supports_rsa_sign_q);
		CHECK(t0n_dpi == d0 + 4 && T0F_TOP(c, 0) == (has_rsa ? 0xFFFFFFFFu : 0), "supports-rsa-sign? iff an RSA verifier is configured");
		C05_DISPATCH(c, C05_OP_supports_ecdsa_q);
		CHECK(t0n_dpi == d0 + 5 && T0F_TOP(c, 0) == (has_ecdsa ? 0xFFFFFFFFu : 0), "supports-ecdsa? iff an ECDSA verifier is configured");
		if (has_ec && n > 0) { WITNESS_POINT("EC and hashes configured"); } else { WITNESS_POINT("something missing"); }
	}
#elif MODE == 3
	{
		int curve = ND_INT();
		unsigned kt = ND_U8();
		ASSUME(kt == BR_KEYTYPE_RSA || kt == BR_KEYTYPE_EC);
		pkey.key_type = (unsigned char)kt;
		pkey.key.ec.curve = curve;      /* for an RSA key this is whatever overlays the union: must be ignored */
		c->eng.x509ctx = &xobj;
		C05_DISPATCH(c, C05_OP_set_server_curve);
		CHECK(t0n_dpi == d0, "set-server-curve leaves the stack alone");
		CHECK(c->server_curve == (kt == BR_KEYTYPE_EC ? curve : 0), "server_curve = curve of the validated EC key, 0 for RSA");
		if (kt == BR_KEYTYPE_EC) { WITNESS_POINT("EC key"); } else { WITNESS_POINT("RSA key"); }
	}
#else
	{
		h_suite = ND_U16(); h_algo = ND_U32(); h_n = ND_SIZE(); h_ret = ND_INT();
		c->policy_vtable = &pobj;
		C05_DISPATCH(c, C05_OP_call_policy_handler);
		CHECK(h_calls == 1 && t0n_dpi == d0 + 1, "the policy handler is consulted once, one result pushed");
		CHECK(T0F_TOP(c, 0) == (h_ret != 0 ? 0xFFFFFFFFu : 0), "pushed boolean = the handler accepted");
		CHECK(c->eng.session.cipher_suite == (uint16_t)h_suite && c->sign_hash_id == (uint16_t)h_algo
			&& c->eng.chain == chain && c->eng.chain_len == h_n, "the handler's suite, algorithm and chain are installed unchanged");
		if (h_ret) { WITNESS_POINT("accepted"); } else { WITNESS_POINT("refused"); }
	}
#endif
	return 0;
}
