/*
 * C18.d: br_pem_encode (real src/codec/pemenc.c).
 *
 *   -DDLEN=n      data length (concrete; data bytes symbolic)
 *   -DFLAGS=f     0, BR_PEM_LINE64 (1), BR_PEM_CRLF (2), 3
 *   -DBLEN=n      banner length (concrete; banner characters symbolic non-NUL)
 *   -DOVERLAP=0   data in its own exact-size array
 *   -DDOFF=k      with OVERLAP: -1 (default) symbolic start as described
 *                 below; -2: source at the very end of dest (dest + announced
 *                 + 1 - len); -3: source at dest + announced - len
 *   -DOVERLAP=1   data inside / around the destination: one array
 *                 [DLEN bytes | dest: announced + 1 bytes | guard]; the data
 *                 start is symbolic anywhere from the array start (disjoint,
 *                 just before dest) over every partial overlap up to the
 *                 very end of dest ("The data and dest buffers may overlap")
 *
 * Reference: ref_pem() below, written from RFC 7468 2/3 (encapsulation
 * boundaries, Base64 text wrapped so that every line but the last has
 * exactly 64 characters - or 76, the RFC 2045 limit, without BR_PEM_LINE64)
 * and RFC 4648 4 (alphabet table, '=' padding).
 * bearssl_pem.h: the returned length does NOT include the terminating zero
 * "that this function nevertheless adds"; dest == NULL only computes.
 */
#include "common.h"
#include "bearssl.h"
#include "C18_der.h"

#ifndef DLEN
#define DLEN 5
#endif
#ifndef FLAGS
#define FLAGS 0
#endif
#ifndef BLEN
#define BLEN 1
#endif
#ifndef OVERLAP
#define OVERLAP 0
#endif

#ifndef DOFF
#define DOFF (-1)
#endif
#define LINECH   ((FLAGS & 1) ? 64 : 76)
#define EOLN     ((FLAGS & 2) ? 2 : 1)
#define B64CH    (((DLEN + 2) / 3) * 4)
#define NLINES   ((B64CH + LINECH - 1) / LINECH)
/* size computed from the format description, not from the code's formula */
#define EXPLEN   ((11 + BLEN + 5 + EOLN) + B64CH + NLINES * EOLN + (9 + BLEN + 5 + EOLN))
#define GUARD    8
#define ARR(n)   ((n) > 0 ? (n) : 1)

/* RFC 4648 table 1 */
static const char B64TAB[65] =
	"ABCDEFGHIJKLMNOPQRSTUVWXYZ" "abcdefghijklmnopqrstuvwxyz" "0123456789" "+/";

static size_t
put_str(char *o, size_t pos, const char *s, size_t n)
{
	size_t i;

	for (i = 0; i < n; i++) o[pos + i] = s[i];
	return pos + n;
}

static size_t
put_eol(char *o, size_t pos)
{
	if (FLAGS & 2) o[pos++] = '\r';
	o[pos++] = '\n';
	return pos;
}

static size_t
ref_pem(char *o, const unsigned char *data, const char *banner)
{
	size_t pos = 0, i, col = 0;

	pos = put_str(o, pos, "-----BEGIN ", 11);
	pos = put_str(o, pos, banner, BLEN);
	pos = put_str(o, pos, "-----", 5);
	pos = put_eol(o, pos);
	for (i = 0; i < DLEN; i += 3) {
		size_t rem = DLEN - i, k;
		unsigned b0 = data[i];
		unsigned b1 = rem > 1 ? data[i + 1] : 0;
		unsigned b2 = rem > 2 ? data[i + 2] : 0;
		char c[4];

		c[0] = B64TAB[b0 >> 2];
		c[1] = B64TAB[((b0 & 0x03) << 4) | (b1 >> 4)];
		c[2] = rem > 1 ? B64TAB[((b1 & 0x0F) << 2) | (b2 >> 6)] : '=';
		c[3] = rem > 2 ? B64TAB[b2 & 0x3F] : '=';
		for (k = 0; k < 4; k++) {
			o[pos++] = c[k];
			if (++col == LINECH) {
				pos = put_eol(o, pos);
				col = 0;
			}
		}
	}
	if (col != 0) pos = put_eol(o, pos);
	pos = put_str(o, pos, "-----END ", 9);
	pos = put_str(o, pos, banner, BLEN);
	pos = put_str(o, pos, "-----", 5);
	pos = put_eol(o, pos);
	return pos;
}

int main(void)
{
	char banner[BLEN + 1];
	char expect[EXPLEN + 4];
	unsigned char copy[ARR(DLEN)];
	unsigned char s = ND_U8();
	size_t i, r0, r1, el;
#if OVERLAP
	/* [0, DLEN): room before dest; dest = arr + DLEN */
	unsigned char arr[DLEN + EXPLEN + 1 + GUARD];
	unsigned char *out = arr + DLEN;
	unsigned char *data;
	size_t doff;
#else
	unsigned char data[ARR(DLEN)];
	unsigned char arr[EXPLEN + 1 + GUARD];
	unsigned char *out = arr;
#endif

	for (i = 0; i < BLEN; i++) {
		banner[i] = (char)ND_U8();
		ASSUME(banner[i] != 0);
	}
	banner[BLEN] = 0;
	c18_fill(arr, sizeof arr, s);
#if OVERLAP
#if DOFF == -1
	doff = ND_SIZE();
	ASSUME(doff <= (size_t)EXPLEN + 1);     /* data + DLEN <= dest + announced + 1 */
#elif DOFF == -2
	doff = (size_t)EXPLEN + 1;
#else
	doff = (size_t)EXPLEN;
#endif
	data = arr + doff;
	for (i = 0; i < DLEN; i++) {
		copy[i] = ND_U8();
		data[i] = copy[i];
	}
#else
	for (i = 0; i < DLEN; i++) {
		copy[i] = ND_U8();
		data[i] = copy[i];
	}
#endif

	r0 = br_pem_encode(NULL, DLEN ? data : NULL, DLEN, banner, FLAGS);
	CHECK(r0 == EXPLEN, "announced length (dest == NULL) == length of the RFC 7468 text");
	r1 = br_pem_encode(out, DLEN ? data : NULL, DLEN, banner, FLAGS);
	CHECK(r1 == r0, "returned length when writing == announced length");

	el = ref_pem(expect, copy, banner);
	CHECK(el == EXPLEN, "reference: closed-form length == length produced");
	for (i = 0; i < EXPLEN; i++) {
		CHECK(out[i] == (unsigned char)expect[i], "output text == reference PEM text (banner lines, Base64 alphabet, padding, line breaks)");
	}
	CHECK(out[EXPLEN] == 0, "terminating zero right after the announced length");
#if OVERLAP
	/* outside dest[0 .. announced] only the source bytes may differ from the
	   sentinel (and they are not written: still the source values) */
	for (i = 0; i < DLEN; i++) {
		CHECK(arr[i] == ((i >= doff) ? copy[i - doff] : s), "bytes before dest not written");
	}
	CHECK(c18_untouched(arr + DLEN, EXPLEN + 1 + GUARD, 0, EXPLEN + 1, s), "nothing written beyond announced length + 1");
#if DOFF == -1
	if (doff == 0 && DLEN > 0) { WITNESS_POINT("source entirely before dest"); }
	if (doff == (size_t)EXPLEN + 1) { WITNESS_POINT("source at the very end of dest"); }
	if (doff == DLEN) { WITNESS_POINT("source at the start of dest"); }
	if (doff == 1) { WITNESS_POINT("source straddles the start of dest (or is just before it)"); }
#endif
#else
	CHECK(c18_untouched(arr, sizeof arr, 0, EXPLEN + 1, s), "nothing written beyond announced length + 1");
	for (i = 0; i < DLEN; i++) CHECK(data[i] == copy[i], "disjoint source left intact");
#endif
	WITNESS_POINT("end");
	return 0;
}
