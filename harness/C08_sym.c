/*
 * C08 (f): symmetric primitives documented as constant-time.
 *  FN 1..6   CBC encrypt/decrypt classes of aes_ct, aes_ct64, des_ct: init (key
 *            schedule) + run (bitsliced rounds) on NB bytes.
 *            Secret: key, IV, data.  Public: key length, data length.
 *  FN 7      br_chacha20_ct_run.  Secret: key, IV, counter, data.  Public: len.
 *  FN 8, 9   br_poly1305_ctmul_run / ctmul32_run with the translated
 *            br_chacha20_ct_run as the ChaCha20 implementation.
 *            Secret: key, IV, data, AAD contents.  Public: lengths, direction.
 *  FN 10..12 br_ghash_ctmul / ctmul32 / ctmul64.  Secret: y, h, data.  Public: len.
 *  FN 13     aes_ct CTR class (init + run).
 *  FN 20, 21 NEGATIVE CONTROLS (must be flagged): aes_big / des_tab CBC encryption
 *            (table look-ups indexed by secrets).
 *  FN 22     NEGATIVE CONTROL: libc-style memcmp tag comparison (early exit).
 */
#include "C08_rt.h"
#include "inner.h"
#include C08_GEN
#ifndef KL
#define KL 16
#endif
#ifndef NB
#define NB 16
#endif
#ifndef AL
#define AL 5
#endif
#define P(x) ((unsigned char *)(x))

#if FN == 1
#define CTXT br_aes_ct_cbcenc_keys
#define NAME(s) br_aes_ct_cbcenc_##s
#define INAME(s) ir_br_aes_ct_cbcenc_##s
#elif FN == 2
#define CTXT br_aes_ct_cbcdec_keys
#define NAME(s) br_aes_ct_cbcdec_##s
#define INAME(s) ir_br_aes_ct_cbcdec_##s
#elif FN == 3
#define CTXT br_aes_ct64_cbcenc_keys
#define NAME(s) br_aes_ct64_cbcenc_##s
#define INAME(s) ir_br_aes_ct64_cbcenc_##s
#elif FN == 4
#define CTXT br_aes_ct64_cbcdec_keys
#define NAME(s) br_aes_ct64_cbcdec_##s
#define INAME(s) ir_br_aes_ct64_cbcdec_##s
#elif FN == 5
#define CTXT br_des_ct_cbcenc_keys
#define NAME(s) br_des_ct_cbcenc_##s
#define INAME(s) ir_br_des_ct_cbcenc_##s
#elif FN == 6
#define CTXT br_des_ct_cbcdec_keys
#define NAME(s) br_des_ct_cbcdec_##s
#define INAME(s) ir_br_des_ct_cbcdec_##s
#elif FN == 13
#define CTXT br_aes_ct_ctr_keys
#define NAME(s) br_aes_ct_ctr_##s
#define INAME(s) ir_br_aes_ct_ctr_##s
#elif FN == 20
#define CTXT br_aes_big_cbcenc_keys
#define NAME(s) br_aes_big_cbcenc_##s
#define INAME(s) ir_br_aes_big_cbcenc_##s
#elif FN == 21
#define CTXT br_des_tab_cbcenc_keys
#define NAME(s) br_des_tab_cbcenc_##s
#define INAME(s) ir_br_des_tab_cbcenc_##s
#endif

#ifdef CTXT
static CTXT ctx __attribute__((aligned(16)));
#endif
static unsigned char key[32] __attribute__((aligned(16))), iv[16] __attribute__((aligned(16)));
static unsigned char data[NB + 16] __attribute__((aligned(16))), aad[AL + 16] __attribute__((aligned(16)));
static unsigned char tag[16] __attribute__((aligned(16))), yy[16] __attribute__((aligned(16))), hh[16] __attribute__((aligned(16)));
static uint32_t cnt, ret;

static void c08_public(void) { }
static void c08_secret(void)
{
	ND_BYTES(key, 32);
	ND_BYTES(iv, 16);
	ND_BYTES(data, NB);
	ND_BYTES(aad, AL);
	ND_BYTES(yy, 16);
	ND_BYTES(hh, 16);
	for (int i = 0; i < 16; i++) tag[i] = 0;
	cnt = ND_U32();
	ret = 0;
}
static void c08_call(void)
{
#if defined(CTXT) && FN != 13
	INAME(init)(P(&ctx), key, KL);
	INAME(run)(P(&ctx), iv, data, NB);
#elif FN == 13
	INAME(init)(P(&ctx), key, KL);
	ret = INAME(run)(P(&ctx), iv, cnt, data, NB);
#elif FN == 7
	ret = ir_br_chacha20_ct_run(key, iv, cnt, data, NB);
#elif FN == 8
	ir_br_poly1305_ctmul_run(key, iv, data, NB, aad, AL, tag, ir_br_chacha20_ct_run, ENC);
#elif FN == 9
	ir_br_poly1305_ctmul32_run(key, iv, data, NB, aad, AL, tag, ir_br_chacha20_ct_run, ENC);
#elif FN == 10
	ir_br_ghash_ctmul(yy, hh, data, NB);
#elif FN == 11
	ir_br_ghash_ctmul32(yy, hh, data, NB);
#elif FN == 12
	ir_br_ghash_ctmul64(yy, hh, data, NB);
#elif FN == 22
	ret = ir_c08w_tagcmp(yy, hh, 16);
#endif
}
#ifdef C08_TV
#if FN == 22
uint32_t c08w_tagcmp(const void *a, const void *b, size_t n);
#endif
static void c08_call_real(void)
{
#if defined(CTXT) && FN != 13
	NAME(init)(&ctx, key, KL);
	NAME(run)(&ctx, iv, data, NB);
#elif FN == 13
	NAME(init)(&ctx, key, KL);
	ret = NAME(run)(&ctx, iv, cnt, data, NB);
#elif FN == 7
	ret = br_chacha20_ct_run(key, iv, cnt, data, NB);
#elif FN == 8
	br_poly1305_ctmul_run(key, iv, data, NB, aad, AL, tag, br_chacha20_ct_run, ENC);
#elif FN == 9
	br_poly1305_ctmul32_run(key, iv, data, NB, aad, AL, tag, br_chacha20_ct_run, ENC);
#elif FN == 10
	br_ghash_ctmul(yy, hh, data, NB);
#elif FN == 11
	br_ghash_ctmul32(yy, hh, data, NB);
#elif FN == 12
	br_ghash_ctmul64(yy, hh, data, NB);
#elif FN == 22
	ret = c08w_tagcmp(yy, hh, 16);
#endif
}
static void c08_out(void)
{
	C08_OUT(data, NB); C08_OUT(iv, 16); C08_OUT(tag, 16); C08_OUT(yy, 16); C08_OUTV(ret);
}
#endif
#include "C08_main.h"
