/*
 * C14: cheap deterministic stand-ins behind the seams of src/aead/{gcm,ccm,eax}.c
 * (DESIGN.md 1.3 (b)).  They are NOT the units under test; they honour the
 * documented contracts of inc/bearssl_block.h / inc/bearssl_hash.h exactly:
 *
 *   toy_E(k, x)        16-byte "block cipher": t = x ^ k,
 *                      out[i] = rotl8(t[(i+1)%16],1) ^ (t[i] & t[(i+2)%16]) ^ (17*i+1)
 *                      (every key/input byte and its position matter, not
 *                      linear, one layer of and/xor/wiring only: adders made
 *                      the equivalence queries 100x slower)
 *   toy_F(h, x)        same shape with other constants: the GHASH "multiply"
 *   toy_ctr_*          br_block_ctr_class: block = iv[0..12) || be32(cc),
 *                      keystream xored, partial last block truncated, returns
 *                      cc + number of blocks (mod 2^32)
 *   toy_ctrcbc_*       br_block_ctrcbc_class: 128-bit big-endian counter,
 *                      post-incremented once per block; CBC-MAC
 *                      cbcmac = E(cbcmac ^ block); encrypt = MAC over CTR
 *                      output, decrypt = MAC over CTR input; len % 16 == 0 is
 *                      asserted (documented precondition)
 *   toy_ghash          br_ghash: y = F_h(y ^ block) per 16-byte block, last
 *                      block zero-padded; len == 0 leaves y unchanged
 *
 * Memory contract: each entry point asserts ONCE that the buffers the unit
 * hands in are readable/writable over the documented extent
 * (__CPROVER_r_ok / __CPROVER_w_ok on iv[12], ctr[16], cbcmac[16], y[16], h[16],
 * data[len]); in exchange CBMC's per-access pointer instrumentation is
 * switched off inside this file (it was 80 % of symex time).  A wrong pointer
 * or length coming out of the unit therefore still fails the query.
 */
#ifndef C14_STUBS_H
#define C14_STUBS_H
#include "inner.h"

#ifdef NATIVE_REPLAY
#define TOY_R_OK(p, n, msg) do { } while (0)     /* ASan does it natively */
#define TOY_W_OK(p, n, msg) do { } while (0)
#else
#define TOY_R_OK(p, n, msg) __CPROVER_assert((n) == 0 || __CPROVER_r_ok((p), (n)), msg)
#define TOY_W_OK(p, n, msg) __CPROVER_assert((n) == 0 || __CPROVER_w_ok((p), (n)), msg)
#endif

#pragma CPROVER check push
#pragma CPROVER check disable "pointer"
#pragma CPROVER check disable "bounds"
#pragma CPROVER check disable "pointer-overflow"
#pragma CPROVER check disable "signed-overflow"
#pragma CPROVER check disable "undefined-shift"

#define TOY_ROTL8(x, n) ((((unsigned)(x) << (n)) | ((unsigned)(x) >> (8 - (n)))) & 0xFFu)
#define TOY_REP16(M) M(0) M(1) M(2) M(3) M(4) M(5) M(6) M(7) M(8) M(9) M(10) M(11) M(12) M(13) M(14) M(15)

/* in and out may alias */
static void toy_E(const unsigned char *k, const unsigned char *in, unsigned char *out)
{
	unsigned char t[16];
#define TOY_X(i) t[i] = (unsigned char)(in[i] ^ k[i]);
	TOY_REP16(TOY_X)
#undef TOY_X
#define TOY_X(i) out[i] = (unsigned char)(TOY_ROTL8(t[((i) + 1) & 15], 1) ^ (t[i] & t[((i) + 2) & 15]) ^ (17 * (i) + 1));
	TOY_REP16(TOY_X)
#undef TOY_X
}

static void toy_F(const unsigned char *h, const unsigned char *in, unsigned char *out)
{
	unsigned char t[16];
#define TOY_X(i) t[i] = (unsigned char)(in[i] ^ h[i]);
	TOY_REP16(TOY_X)
#undef TOY_X
#define TOY_X(i) out[i] = (unsigned char)(TOY_ROTL8(t[((i) + 5) & 15], 3) ^ (t[i] & t[((i) + 2) & 15]) ^ (29 * (i) + 7));
	TOY_REP16(TOY_X)
#undef TOY_X
}

/* ---- br_block_ctr_class ------------------------------------------------ */
typedef struct { const br_block_ctr_class *vtable; unsigned char k[16]; } toy_ctr_keys;
static const br_block_ctr_class toy_ctr_vtable;

static void toy_ctr_init(const br_block_ctr_class **c, const void *key, size_t len)
{
	toy_ctr_keys *kc = (void *)c;
	kc->vtable = &toy_ctr_vtable;
	for (int i = 0; i < 16; i++) kc->k[i] = ((const unsigned char *)key)[(size_t)i % len];
}

static uint32_t toy_ctr_run(const br_block_ctr_class *const *c, const void *iv, uint32_t cc, void *data, size_t len)
{
	const toy_ctr_keys *kc = (const void *)c;
	const unsigned char *ivb = iv;
	unsigned char *buf = data;
	TOY_R_OK(iv, 12, "ctr.run contract: iv readable over block_size - 4 bytes");
	TOY_W_OK(data, len, "ctr.run contract: data writable over len bytes");
	TOY_R_OK(data, len, "ctr.run contract: data readable over len bytes");
	while (len > 0) {
		unsigned char blk[16];
		size_t n = len < 16 ? len : 16;
		for (int i = 0; i < 12; i++) blk[i] = ivb[i];
		blk[12] = (unsigned char)(cc >> 24);
		blk[13] = (unsigned char)(cc >> 16);
		blk[14] = (unsigned char)(cc >> 8);
		blk[15] = (unsigned char)cc;
		toy_E(kc->k, blk, blk);
		for (size_t i = 0; i < n; i++) buf[i] ^= blk[i];
		buf += n;
		len -= n;
		cc++;
	}
	return cc;
}
static const br_block_ctr_class toy_ctr_vtable = { sizeof(toy_ctr_keys), 16, 4, toy_ctr_init, toy_ctr_run };

/* ---- br_block_ctrcbc_class --------------------------------------------- */
typedef struct { const br_block_ctrcbc_class *vtable; unsigned char k[16]; } toy_ctrcbc_keys;
static const br_block_ctrcbc_class toy_ctrcbc_vtable;

static void toy_ctrcbc_init(const br_block_ctrcbc_class **c, const void *key, size_t len)
{
	toy_ctrcbc_keys *kc = (void *)c;
	kc->vtable = &toy_ctrcbc_vtable;
	for (int i = 0; i < 16; i++) kc->k[i] = ((const unsigned char *)key)[(size_t)i % len];
}

/* 128-bit big-endian increment, straight-line carry chain */
static void toy_inc128(unsigned char *ctr)
{
	unsigned c = 1, s;
#define TOY_X(i) s = ctr[15 - (i)] + c; ctr[15 - (i)] = (unsigned char)s; c = s >> 8;
	TOY_REP16(TOY_X)
#undef TOY_X
}

/* cm <- E(cm ^ blk) */
static void toy_cbc_step(const unsigned char *k, unsigned char *cm, const unsigned char *blk)
{
	unsigned char t[16];
#define TOY_X(i) t[i] = (unsigned char)(cm[i] ^ blk[i]);
	TOY_REP16(TOY_X)
#undef TOY_X
	toy_E(k, t, cm);
}

/* blk <- blk ^ E(ctr); ctr <- ctr + 1 */
static void toy_ctr_step(const unsigned char *k, unsigned char *ctr, unsigned char *blk)
{
	unsigned char ks[16];
	toy_E(k, ctr, ks);
	toy_inc128(ctr);
#define TOY_X(i) blk[i] ^= ks[i];
	TOY_REP16(TOY_X)
#undef TOY_X
}

static void toy_ctrcbc_encrypt(const br_block_ctrcbc_class *const *c, void *ctr, void *cbcmac, void *data, size_t len)
{
	const toy_ctrcbc_keys *kc = (const void *)c;
	unsigned char *buf = data;
	__CPROVER_assert((len & 15) == 0, "ctrcbc.encrypt precondition: len is a multiple of the block size");
	TOY_W_OK(ctr, 16, "ctrcbc.encrypt contract: ctr is a 16-byte read/write buffer");
	TOY_W_OK(cbcmac, 16, "ctrcbc.encrypt contract: cbcmac is a 16-byte read/write buffer");
	TOY_W_OK(data, len, "ctrcbc.encrypt contract: data writable over len bytes");
	TOY_R_OK(data, len, "ctrcbc.encrypt contract: data readable over len bytes");
	for (size_t u = 0; u + 16 <= len; u += 16) {
		toy_ctr_step(kc->k, ctr, buf + u);
		toy_cbc_step(kc->k, cbcmac, buf + u);
	}
}

static void toy_ctrcbc_decrypt(const br_block_ctrcbc_class *const *c, void *ctr, void *cbcmac, void *data, size_t len)
{
	const toy_ctrcbc_keys *kc = (const void *)c;
	unsigned char *buf = data;
	__CPROVER_assert((len & 15) == 0, "ctrcbc.decrypt precondition: len is a multiple of the block size");
	TOY_W_OK(ctr, 16, "ctrcbc.decrypt contract: ctr is a 16-byte read/write buffer");
	TOY_W_OK(cbcmac, 16, "ctrcbc.decrypt contract: cbcmac is a 16-byte read/write buffer");
	TOY_W_OK(data, len, "ctrcbc.decrypt contract: data writable over len bytes");
	TOY_R_OK(data, len, "ctrcbc.decrypt contract: data readable over len bytes");
	for (size_t u = 0; u + 16 <= len; u += 16) {
		toy_cbc_step(kc->k, cbcmac, buf + u);
		toy_ctr_step(kc->k, ctr, buf + u);
	}
}

static void toy_ctrcbc_ctr(const br_block_ctrcbc_class *const *c, void *ctr, void *data, size_t len)
{
	const toy_ctrcbc_keys *kc = (const void *)c;
	unsigned char *buf = data;
	__CPROVER_assert((len & 15) == 0, "ctrcbc.ctr precondition: len is a multiple of the block size");
	TOY_W_OK(ctr, 16, "ctrcbc.ctr contract: ctr is a 16-byte read/write buffer");
	TOY_W_OK(data, len, "ctrcbc.ctr contract: data writable over len bytes");
	TOY_R_OK(data, len, "ctrcbc.ctr contract: data readable over len bytes");
	for (size_t u = 0; u + 16 <= len; u += 16) {
		toy_ctr_step(kc->k, ctr, buf + u);
	}
}

static void toy_ctrcbc_mac(const br_block_ctrcbc_class *const *c, void *cbcmac, const void *data, size_t len)
{
	const toy_ctrcbc_keys *kc = (const void *)c;
	const unsigned char *buf = data;
	__CPROVER_assert((len & 15) == 0, "ctrcbc.mac precondition: len is a multiple of the block size");
	TOY_W_OK(cbcmac, 16, "ctrcbc.mac contract: cbcmac is a 16-byte read/write buffer");
	TOY_R_OK(data, len, "ctrcbc.mac contract: data readable over len bytes");
	for (size_t u = 0; u + 16 <= len; u += 16) {
		toy_cbc_step(kc->k, cbcmac, buf + u);
	}
}
static const br_block_ctrcbc_class toy_ctrcbc_vtable = {
	sizeof(toy_ctrcbc_keys), 16, 4, toy_ctrcbc_init,
	toy_ctrcbc_encrypt, toy_ctrcbc_decrypt, toy_ctrcbc_ctr, toy_ctrcbc_mac
};

/* ---- br_ghash ---------------------------------------------------------- */
static void toy_ghash(void *y, const void *h, const void *data, size_t len)
{
	unsigned char *yb = y;
	const unsigned char *src = data, *hb = h;
	TOY_W_OK(y, 16, "ghash contract: y is a 16-byte read/write buffer");
	TOY_R_OK(h, 16, "ghash contract: h readable over 16 bytes");
	TOY_R_OK(data, len, "ghash contract: data readable over len bytes");
	while (len > 0) {
		unsigned char blk[16];
		size_t n = len < 16 ? len : 16;
		if (n == 16) {
#define TOY_X(i) blk[i] = (unsigned char)(yb[i] ^ src[i]);
			TOY_REP16(TOY_X)
#undef TOY_X
		} else {
			for (size_t i = 0; i < 16; i++) blk[i] = (unsigned char)(yb[i] ^ (i < n ? src[i] : 0));
		}
		toy_F(hb, blk, yb);
		src += n;
		len -= n;
	}
}
#pragma CPROVER check pop

#endif
