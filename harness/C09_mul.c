/* C09: MUL31 / MUL31_lo / MUL15 macro variants equal plain multiplication
   on their documented domain */
#include "common.h"
#include "inner.h"

int main(void)
{
	uint32_t x = ND_U32(), y = ND_U32();
#ifdef YBITS
	ASSUME(y < ((uint32_t)1 << YBITS));	/* bounded claim: one operand below 2^YBITS  */
#endif
#if defined(T_MUL31)
	ASSUME(x < 0x80000000u && y < 0x80000000u);
	CHECK(MUL31(x, y) == (uint64_t)x * (uint64_t)y, "MUL31");
#elif defined(T_MUL31LO)
	ASSUME(x < 0x80000000u && y < 0x80000000u);
	CHECK(MUL31_lo(x, y) == (uint32_t)(((uint64_t)x * (uint64_t)y) & 0x7FFFFFFF), "MUL31_lo");
#else
	/* MUL15: sum of operand bit lengths <= 31 */
	uint32_t lx = BIT_LENGTH(x), ly = BIT_LENGTH(y);
	ASSUME(lx + ly <= 31);
	CHECK(MUL15(x, y) == (uint32_t)((uint64_t)x * (uint64_t)y), "MUL15");
#endif
	WITNESS_POINT("end");
	return 0;
}
