/*
 * C07 / C01 / C03 (T0 part, main session): the byte-level handshake I/O natives
 * of ssl_hs_client.c (-DSIDE=0) / ssl_hs_server.c (-DSIDE=1), extracted by
 * encoders/t0tool.py:  write8-native, read8-native, read-chunk-native.
 * Claim: the transcript hash (input of Finished / CertificateVerify) receives
 * exactly the bytes that cross the wire, once each and in order, whatever the
 * chunking: a call that cannot make progress (no room / no data) has NO side
 * effect at all - the T0 code retries it after the buffer was flushed/refilled -
 * and a partial chunk hashes exactly the bytes it consumed.
 *   -DWHICH=1 write8  2 read8  3 read-chunk ;  -DHL=<bytes available>  -DLEN=<bytes requested>
 */
#define T0N_PRE_INCLUDE "C05_t0f.h"
#ifndef SIDE
#define SIDE 1
#endif
#if SIDE == 0
#include "t0n_hsc.c"
#include "t0n_hsc_ops.h"
#else
#include "t0n_hss.c"
#include "t0n_hss_ops.h"
#endif
#ifndef WHICH
#define WHICH 1
#endif
#ifndef HL
#define HL 3
#endif
#ifndef LEN
#define LEN 5
#endif

static unsigned char hlog[32]; static size_t hlog_n; static int h_calls;
static T0N_CTXT *the;
void
br_multihash_update(br_multihash_context *ctx, const void *data, size_t len)
{
	size_t i;
	CHECK(ctx == &the->eng.mhash, "transcript hashing uses the engine's multihash context");
	h_calls ++;
	for (i = 0; i < len; i ++) { if (hlog_n < sizeof hlog) hlog[hlog_n] = ((const unsigned char *)data)[i]; hlog_n ++; }
}

int
main(void)
{
	T0N_CTXT cc;
	T0N_CTXT *c = &cc;
	unsigned char iobuf[8], orig[8];
	uint32_t d0;
	int i, hs;
#ifdef NATIVE_REPLAY
	NATIVE_FILL(c, sizeof *c);
#endif
	the = c;
	for (i = 0; i < 8; i ++) { iobuf[i] = ND_U8(); orig[i] = iobuf[i]; }
	c->eng.record_type_in = ND_U8();
	c->eng.record_type_out = ND_U8();
	T0F_DEPTH_AT(5);
	d0 = t0n_dpi;
	t0n_co = 0;
#if WHICH == 1
	{
		unsigned char x = ND_U8();
		hs = (c->eng.record_type_out == BR_SSL_HANDSHAKE);
		c->eng.hbuf_out = iobuf; c->eng.hlen_out = HL;
		T0F_PUSH(c, x);
		C05_DISPATCH(c, C05_OP_write8_native);
		CHECK(t0n_dpi == d0 + 1 && t0n_co == 0, "write8-native replaces its operand by a flag");
#if HL > 0
		CHECK(T0F_TOP(c, 0) == 0xFFFFFFFFu && iobuf[0] == x && c->eng.hbuf_out == iobuf + 1 && c->eng.hlen_out == HL - 1, "one byte written, room reduced by one, success flag");
		CHECK(hs ? (hlog_n == 1 && hlog[0] == x) : hlog_n == 0, "a written handshake byte is hashed exactly once");
		WITNESS_POINT("byte written");
#else
		CHECK(T0F_TOP(c, 0) == 0 && c->eng.hbuf_out == iobuf && c->eng.hlen_out == 0, "no room: failure flag, nothing written");
		CHECK(hlog_n == 0 && h_calls == 0, "no room: nothing hashed (the byte will be written, and hashed, on the retry)");
		WITNESS_POINT("no room");
#endif
	}
#elif WHICH == 2
	hs = (c->eng.record_type_in == BR_SSL_HANDSHAKE);
	c->eng.hbuf_in = iobuf; c->eng.hlen_in = HL;
	C05_DISPATCH(c, C05_OP_read8_native);
	CHECK(t0n_dpi == d0 + 1 && t0n_co == 0, "read8-native pushes one value");
#if HL > 0
	CHECK(T0F_TOP(c, 0) == orig[0] && c->eng.hbuf_in == iobuf + 1 && c->eng.hlen_in == HL - 1, "next input byte delivered, input advanced by one");
	CHECK(hs ? (hlog_n == 1 && hlog[0] == orig[0]) : hlog_n == 0, "a consumed handshake byte is hashed exactly once");
	WITNESS_POINT("byte read");
#else
	CHECK(T0F_TOP(c, 0) == 0xFFFFFFFFu && c->eng.hbuf_in == iobuf && h_calls == 0, "no data: -1, nothing consumed, nothing hashed");
	WITNESS_POINT("no data");
#endif
#else
	{
		uint32_t addr = offsetof(br_ssl_engine_context, pad);
		const size_t clen = HL < LEN ? HL : LEN;
		hs = (c->eng.record_type_in == BR_SSL_HANDSHAKE);
		c->eng.hbuf_in = iobuf; c->eng.hlen_in = HL;
		for (i = 0; i < 8; i ++) c->eng.pad[i] = (unsigned char)(0xA0 + i);
		T0F_PUSH(c, addr); T0F_PUSH(c, LEN);
		C05_DISPATCH(c, C05_OP_read_chunk_native);
		CHECK(t0n_dpi == d0 + 2 && t0n_co == 0, "read-chunk-native keeps two values on the stack");
		CHECK(T0F_TOP(c, 1) == addr + clen && T0F_TOP(c, 0) == LEN - clen, "destination advanced and residual length reduced by the bytes consumed");
		CHECK(c->eng.hbuf_in == iobuf + clen && c->eng.hlen_in == HL - clen, "input advanced by the bytes consumed");
		for (i = 0; i < 8; i ++) CHECK(c->eng.pad[i] == ((size_t)i < clen ? orig[i] : (unsigned char)(0xA0 + i)), "exactly the consumed bytes are copied");
		CHECK(hs ? hlog_n == clen : hlog_n == 0, "exactly the consumed bytes are hashed (no more, no less)");
		for (i = 0; i < 8; i ++) if (hs && (size_t)i < clen) CHECK(hlog[i] == orig[i], "the hashed bytes are the wire bytes, in order");
		WITNESS_POINT("chunk processed");
	}
#endif
	return 0;
}
