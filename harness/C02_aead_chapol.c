/*
 * C02.b (ChaCha20+Poly1305): chapol_decrypt / chapol_check_length /
 * in_chapol_init (real src/ssl/ssl_rec_chapol.c) accept exactly what RFC 7905
 * + RFC 5246 6.2.3.3 say, for EVERY record body of PLEN + 16 bytes
 * (ciphertext and tag bytes all symbolic):
 *   nonce = iv(12) XOR (00 00 00 00 || be64(seq))
 *   AAD   = seq(8) || type(1) || version(2) || plaintext length(2)
 *   (P, T) = AEAD_CHACHA20_POLY1305(key, nonce, AAD, C);  accept <=> all 16 tag bytes equal.
 * The AEAD primitive (br_poly1305_run + br_chacha20_run function pointers) is
 * the toy of C02_aead_stubs.h, in which every key / nonce / AAD / ciphertext
 * byte and both lengths influence the tag.
 * Parameter: PLEN plaintext length.
 */
#include "common.h"
#include "C02_aead_stubs.h"
#include "src/ssl/ssl_rec_chapol.c"

#ifndef PLEN
#define PLEN 17
#endif
#define RL (PLEN + 16)

static int
ref_chapol(const unsigned char *key, const unsigned char *iv, uint64_t seq, int type, unsigned ver,
	const unsigned char *rec, unsigned char *pt)
{
	unsigned char nonce[12], aad[13], tag[16];
	for (int i = 0; i < 12; i++) nonce[i] = iv[i];
	for (int i = 0; i < 8; i++) nonce[4 + i] ^= (unsigned char)(seq >> (56 - 8 * i));
	for (int i = 0; i < 8; i++) aad[i] = (unsigned char)(seq >> (56 - 8 * i));
	aad[8] = (unsigned char)type;
	aad[9] = (unsigned char)(ver >> 8);
	aad[10] = (unsigned char)ver;
	aad[11] = (unsigned char)((size_t)PLEN >> 8);
	aad[12] = (unsigned char)PLEN;
	for (size_t i = 0; i < PLEN; i++) pt[i] = rec[i];
	toy_poly1305_run(key, nonce, pt, PLEN, aad, 13, tag, &toy_chacha20_run, 0);
	int ok = 1;
	for (int i = 0; i < 16; i++)
		if (tag[i] != rec[PLEN + i]) ok = 0;
	return ok;
}

int main(void)
{
	unsigned char key[32], iv[12], rec1[RL], rec2[RL], pt[PLEN + 1];
	ND_BYTES(key, 32);
	ND_BYTES(iv, 12);
	for (int i = 0; i < RL; i++) rec1[i] = rec2[i] = ND_U8();
	br_sslrec_chapol_context c1;
	in_chapol_init(&c1, &toy_chacha20_run, &toy_poly1305_run, key, iv);
	CHECK(c1.seq == 0, "init sets the sequence number to 0");
	uint64_t s = ND_U64();
	c1.seq = s;
	int type = ND_U8();
	unsigned ver = ND_U16();
	size_t rlen = ND_SIZE();
	/* RFC 7905: body = ciphertext(= plaintext length <= 2^14) + tag(16), no explicit nonce */
	CHECK((chapol_check_length(&c1, rlen) != 0) == (rlen >= 16 && rlen - 16 <= 16384),
		"chapol_check_length admits exactly 16 <= rlen <= 16384+16");
	CHECK(chapol_check_length(&c1, RL), "record length RL is admissible");
	size_t l1 = RL;
	unsigned char *p1 = chapol_decrypt(&c1, type, ver, rec1, &l1);
	int ok2 = ref_chapol(key, iv, s, type, ver, rec2, pt);
	CHECK((p1 != 0) == (ok2 != 0), "chapol_decrypt accepts iff the RFC 7905 reference accepts");
	CHECK(c1.seq == s + 1, "sequence number advances by exactly one");
	if (p1) {
		CHECK(l1 == PLEN && p1 == rec1, "plaintext region is the body start, length PLEN");
		for (size_t i = 0; i < PLEN; i++) CHECK(p1[i] == pt[i], "same plaintext bytes as the reference");
		WITNESS_POINT("some record is accepted");
	} else {
		WITNESS_POINT("some record is rejected");
	}
	return 0;
}
