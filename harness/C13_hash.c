/*
 * C13 hashes: call-pattern independence and padding correctness of the real
 * md5.c / sha1.c / sha2small.c / sha2big.c / md5sha1.c (buffering, padding,
 * bit-length encoding, state save/restore), for EVERY compression function
 * (see C13_oracle.h), every message content of MLEN bytes.
 *
 *  -DHF=1..7      function (see C13_hashdefs.h)
 *  -DMLEN=n       message length in bytes (concrete per query)
 *  -DMODE=
 *    1 SPLIT   for every split s in SLO..SHI (default 0..MLEN; concrete loop):
 *              update(m[0..MLEN)) == update(m[0..s)); update(m[s..MLEN)):
 *              digest, state(), count, live part of the block buffer; with
 *              -DTHREE=1 a third cut at s + (MLEN-s)/2 plus an empty update
 *    2 OUTND   for every s in SLO..SHI: out() after s bytes leaves every
 *              field of the context unchanged, returns the reference digest
 *              of m[0..s) (standard padding), and the computation continued
 *              after it ends like the uninterrupted one
 *    3 SAVE    state() after MLEN1 bytes (multiple of the block size) and
 *              set_state() into a fresh (garbage-filled, then init'ed)
 *              context continues identically over the remaining bytes
 *    4 PAD     out() == padding reference of the standard; with -DUSE_ST=1
 *              the chaining value is symbolic and injected with
 *              set_state(st, CNT0) (CNT0 concrete, multiple of the block
 *              size) so that the bit-length encoding is exercised around the
 *              2^32-bit / 2^64-bit carries; also through the vtable, and the
 *              descriptor fields
 */
#include "common.h"
#ifndef HF
#define HF 1
#endif
#if HF == 1 || HF == 7
#define C13_UF_MD5 1
#endif
#if HF == 2 || HF == 7
#define C13_UF_SHA1 1
#endif
#if HF == 3 || HF == 4
#define C13_UF_SHA2S 1
#endif
#if HF == 5 || HF == 6
#define C13_UF_SHA2B 1
#endif
#include "C13_oracle.h"
#if HF == 5 || HF == 6
#include "src/hash/sha2big.c"
#undef sha2big_round
#endif
#ifndef MLEN
#define MLEN 65
#endif
#define H_MSGMAX MLEN
#include "C13_hashdefs.h"

#ifndef MODE
#define MODE 1
#endif
#ifndef CNT0
#define CNT0 0
#endif
#ifndef MLEN1
#define MLEN1 H_BS
#endif
#ifndef SLO
#define SLO 0
#endif
#ifndef SHI
#define SHI MLEN
#endif
/* split points: SLO..SHI, or the explicit list -DSLIST=a,b,c */
#ifdef SLIST
static const size_t slist[] = { SLIST };
#define FOR_SPLITS(s) for (size_t si_ = 0, s = slist[0]; si_ < sizeof slist / sizeof slist[0]; si_++, s = slist[si_ < sizeof slist / sizeof slist[0] ? si_ : 0])
#else
#define FOR_SPLITS(s) for (size_t s = SLO; s <= SHI; s++)
#endif

static void
check_same_ctx(const H_CTX *a, const H_CTX *b)
{
	CHECK(a->count == b->count, "same byte count");
	size_t ptr = (size_t)a->count & (H_BS - 1);
	for (size_t i = 0; i < H_BS; i++)
		if (i < ptr) CHECK(a->buf[i] == b->buf[i], "same buffered partial block");
#if HF == 7
	for (int i = 0; i < 4; i++) CHECK(a->val_md5[i] == b->val_md5[i], "same MD5 chaining value");
	for (int i = 0; i < 5; i++) CHECK(a->val_sha1[i] == b->val_sha1[i], "same SHA-1 chaining value");
#else
	for (size_t i = 0; i < sizeof a->val / sizeof a->val[0]; i++) CHECK(a->val[i] == b->val[i], "same chaining value");
#endif
}

typedef struct { unsigned char o[H_OUTLEN], st[H_STLEN]; uint64_t n; } outst;

static void
get_out_state(const H_CTX *a, outst *r)
{
	H_OUT(a, r->o);
	r->n = H_STATE(a, r->st);
}

static outst rb_scratch;       /* one object, not one per loop iteration */

static void
check_same_out_state(const H_CTX *a, const outst *ra, const H_CTX *b)
{
	get_out_state(b, &rb_scratch);
	for (int i = 0; i < H_OUTLEN; i++) CHECK(ra->o[i] == rb_scratch.o[i], "same digest");
	CHECK(ra->n == rb_scratch.n && ra->n == a->count, "state() returns the byte count");
	for (int i = 0; i < H_STLEN; i++) CHECK(ra->st[i] == rb_scratch.st[i], "same state() bytes");
}

int main(void)
{
	unsigned char msg[MLEN + 1];
	ND_BYTES(msg, MLEN);
	msg[MLEN] = 0;
	H_CTX c1, c2;
	outst r1;
	c13_oracle_init();
	c13_seam_check();

#if MODE == 1
	c13_A(0);
	H_INIT(&c1);
	H_UPDATE(&c1, msg, MLEN);
	get_out_state(&c1, &r1);
	CHECK(c1.count == MLEN, "count is the message length");
	FOR_SPLITS(s) {
		c13_recycle();
		c13_B(0, 0);
		H_INIT(&c2);
		H_UPDATE(&c2, msg, s);
#if THREE
		size_t t = (MLEN - s) / 2;
		H_UPDATE(&c2, msg + s, t);
		H_UPDATE(&c2, msg + s + t, 0);
		H_UPDATE(&c2, msg + s + t, MLEN - s - t);
#else
		H_UPDATE(&c2, msg + s, MLEN - s);
#endif
		check_same_ctx(&c1, &c2);
		check_same_out_state(&c1, &r1, &c2);
	}
	WITNESS_POINT("split law checked");
#elif MODE == 2
	H_CTX c0;
	c13_A(0);
	H_INIT(&c0);
	H_UPDATE(&c0, msg, MLEN);
	get_out_state(&c0, &r1);
	unsigned char tmp[H_OUTLEN], r[H_OUTLEN];
	FOR_SPLITS(s) {
		c13_recycle();
		c13_A_linked(1, 0);
		ref_hash(0, 0, msg, s, r);
		c13_B(1, 0);
		H_INIT(&c1);
		H_UPDATE(&c1, msg, s);
		c2 = c1;
		H_OUT(&c1, tmp);
		CHECK(c1.vtable == c2.vtable, "out() keeps the vtable");
		check_same_ctx(&c1, &c2);
		for (size_t i = 0; i < H_BS; i++) CHECK(c1.buf[i] == c2.buf[i], "out() does not touch the block buffer");
		for (int i = 0; i < H_OUTLEN; i++) CHECK(tmp[i] == r[i], "intermediate digest == standard padding reference");
		c13_B(0, (unsigned)(s / H_BS));
		H_UPDATE(&c1, msg + s, MLEN - s);
		check_same_ctx(&c0, &c1);
		check_same_out_state(&c0, &r1, &c1);
	}
	WITNESS_POINT("out() non-destructive checked");
#elif MODE == 3
	unsigned char st[H_STLEN];
	c13_A(0);
	H_INIT(&c1);
	H_UPDATE(&c1, msg, MLEN1);
	uint64_t cnt = H_STATE(&c1, st);
	CHECK(cnt == MLEN1, "state() returns the byte count");
	H_UPDATE(&c1, msg + MLEN1, MLEN - MLEN1);
	get_out_state(&c1, &r1);
	c13_B(0, MLEN1 / H_BS);
	ND_BYTES(&c2, sizeof c2);        /* previous contents are to be ignored */
	H_INIT(&c2);
	H_SETSTATE(&c2, st, cnt);
	H_UPDATE(&c2, msg + MLEN1, MLEN - MLEN1);
	check_same_ctx(&c1, &c2);
	check_same_out_state(&c1, &r1, &c2);
	WITNESS_POINT("save/restore checked");
#elif MODE == 4
	unsigned char o[H_OUTLEN], r[H_OUTLEN];
	c13_A(0);
#if USE_ST
	unsigned char st[H_STLEN];
	ND_BYTES(st, H_STLEN);
	ref_hash(st, (uint64_t)CNT0, msg, MLEN, r);
	c13_B(0, 0);
	H_INIT(&c1);
	H_SETSTATE(&c1, st, (uint64_t)CNT0);
	H_UPDATE(&c1, msg, MLEN);
	H_OUT(&c1, o);
#else
	ref_hash(0, 0, msg, MLEN, r);
	c13_B(0, 0);
	H_INIT(&c1);
	H_UPDATE(&c1, msg, MLEN);
	H_OUT(&c1, o);
#endif
	CHECK(c1.count == (uint64_t)CNT0 + MLEN, "count is the total length");
	for (int i = 0; i < H_OUTLEN; i++) CHECK(o[i] == r[i], "digest == standard padding + compression function");
	/* through the vtable too (this is how HMAC, PRF, X.509 call it) */
	{
		unsigned char o2[64];
		const br_hash_class *vt = &H_VTABLE;
		c13_B(0, 0);
		ND_BYTES(&c2, sizeof c2);
		vt->init(&c2.vtable);
		CHECK(c2.vtable == vt, "init() sets the vtable");
#if USE_ST
		vt->set_state(&c2.vtable, st, (uint64_t)CNT0);
#endif
		vt->update(&c2.vtable, msg, MLEN);
		vt->out(&c2.vtable, o2);
		CHECK(((vt->desc >> BR_HASHDESC_OUT_OFF) & BR_HASHDESC_OUT_MASK) == H_OUTLEN, "descriptor output size");
		CHECK(((vt->desc >> BR_HASHDESC_STATE_OFF) & BR_HASHDESC_STATE_MASK) == H_STLEN, "descriptor state size");
		CHECK(((size_t)1 << ((vt->desc >> BR_HASHDESC_LBLEN_OFF) & BR_HASHDESC_LBLEN_MASK)) == H_BS, "descriptor block size");
		CHECK(((vt->desc >> BR_HASHDESC_ID_OFF) & BR_HASHDESC_ID_MASK) == (HF == 7 ? 0 : HF), "descriptor id");
		CHECK(vt->context_size == sizeof(H_CTX), "descriptor context size");
		for (int i = 0; i < H_OUTLEN; i++) CHECK(o2[i] == r[i], "vtable digest == reference");
	}
	WITNESS_POINT("padding reference checked");
#endif
	return 0;
}
