/*
 * C12: FIPS-197 written from the standard, for use as the oracle of the AES
 * component checks.  Bytes throughout; state byte i = s[r + 4c] as in
 * FIPS-197 3.4.
 */
#ifndef C12_AESREF_H
#define C12_AESREF_H
#include "common.h"
#include "inner.h"

/* GF(2^8) multiplication, FIPS-197 4.2 (shift-and-add, reduction by 0x11B) */
static unsigned
ref_gmul(unsigned a, unsigned b)
{
	unsigned r = 0;
	for (int i = 0; i < 8; i++) {
		if (b & 1) r ^= a;
		a <<= 1;
		if (a & 0x100) a ^= 0x11B;
		b >>= 1;
	}
	return r & 0xFF;
}

/* S-box by definition (FIPS-197 5.1.1): multiplicative inverse (x^254, 0 -> 0)
   followed by the affine map.  Concrete argument only. */
static unsigned
ref_sbox_def(unsigned x)
{
	unsigned x2 = ref_gmul(x, x), x4 = ref_gmul(x2, x2), x8 = ref_gmul(x4, x4);
	unsigned x16 = ref_gmul(x8, x8), x32 = ref_gmul(x16, x16), x64 = ref_gmul(x32, x32), x128 = ref_gmul(x64, x64);
	/* 254 = 128+64+32+16+8+4+2 */
	unsigned inv = ref_gmul(ref_gmul(ref_gmul(x128, x64), ref_gmul(x32, x16)), ref_gmul(ref_gmul(x8, x4), x2));
	unsigned s = inv;
	for (int k = 1; k <= 4; k++) s ^= ((inv << k) | (inv >> (8 - k))) & 0xFF;
	return s ^ 0x63;
}

/*
 * The table used by the references below is br_aes_S; query "aes-sbox-table"
 * (C12_aescomp.c WHAT 0) decides br_aes_S[x] == ref_sbox_def(x) for all 256 x,
 * so that the table IS the definition.  ref_iS is its inverse, built here.
 */
static unsigned char ref_iS[256];

static void
ref_check_table(void)
{
	for (unsigned x = 0; x < 256; x++)
		CHECK(br_aes_S[x] == ref_sbox_def(x), "br_aes_S equals the FIPS-197 S-box definition");
}

static void
ref_init(void)
{
	for (unsigned x = 0; x < 256; x++) ref_iS[br_aes_S[x]] = (unsigned char)x;
}

#define REF_S(x) (br_aes_S[(unsigned char)(x)])

static unsigned char ref_xt(unsigned char x) { return (unsigned char)((x << 1) ^ ((x >> 7) * 0x1B)); }

/* key expansion, FIPS-197 5.2; w as bytes: rk[4*i + j] = byte j of w[i] */
static void
ref_key_expansion(unsigned char *rk, const unsigned char *key, unsigned nk)
{
	unsigned nr = nk + 6, rcon = 1;
	for (unsigned i = 0; i < 4 * nk; i++) rk[i] = key[i];
	for (unsigned i = nk; i < 4 * (nr + 1); i++) {
		unsigned char t[4];
		for (int j = 0; j < 4; j++) t[j] = rk[4 * (i - 1) + j];
		if (i % nk == 0) {
			unsigned char t0 = t[0];
			t[0] = REF_S(t[1]) ^ (unsigned char)rcon; t[1] = REF_S(t[2]); t[2] = REF_S(t[3]); t[3] = REF_S(t0);
			rcon = ref_xt((unsigned char)rcon);
		} else if (nk > 6 && i % nk == 4) {
			for (int j = 0; j < 4; j++) t[j] = REF_S(t[j]);
		}
		for (int j = 0; j < 4; j++) rk[4 * i + j] = rk[4 * (i - nk) + j] ^ t[j];
	}
}

static void
ref_mix_column(unsigned char *a, int inv)
{
	unsigned char b[4];
	for (int r = 0; r < 4; r++) {
		if (!inv)
			b[r] = ref_xt(a[r]) ^ (ref_xt(a[(r + 1) & 3]) ^ a[(r + 1) & 3]) ^ a[(r + 2) & 3] ^ a[(r + 3) & 3];
		else {
			/* {0e} {0b} {0d} {09}, FIPS-197 5.3.3 */
			unsigned char x0 = a[r], x1 = a[(r + 1) & 3], x2 = a[(r + 2) & 3], x3 = a[(r + 3) & 3];
			unsigned char x0_2 = ref_xt(x0), x0_4 = ref_xt(x0_2), x0_8 = ref_xt(x0_4);
			unsigned char x1_2 = ref_xt(x1), x1_4 = ref_xt(x1_2), x1_8 = ref_xt(x1_4);
			unsigned char x2_2 = ref_xt(x2), x2_4 = ref_xt(x2_2), x2_8 = ref_xt(x2_4);
			unsigned char x3_2 = ref_xt(x3), x3_4 = ref_xt(x3_2), x3_8 = ref_xt(x3_4);
			(void)x3_2; (void)x3_4; (void)x2_2; (void)x1_4;
			b[r] = (x0_8 ^ x0_4 ^ x0_2) ^ (x1_8 ^ x1_2 ^ x1) ^ (x2_8 ^ x2_4 ^ x2) ^ (x3_8 ^ x3);
		}
	}
	for (int r = 0; r < 4; r++) a[r] = b[r];
}

/* one round of Cipher (FIPS-197 5.1): SubBytes, ShiftRows, [MixColumns], AddRoundKey */
static void
ref_round_enc(unsigned char *s, const unsigned char *rk, int mix)
{
	unsigned char t[16];
	for (int c = 0; c < 4; c++)
		for (int r = 0; r < 4; r++)
			t[r + 4 * c] = REF_S(s[r + 4 * ((c + r) & 3)]);	/* SubBytes + ShiftRows */
	if (mix) for (int c = 0; c < 4; c++) ref_mix_column(t + 4 * c, 0);
	for (int i = 0; i < 16; i++) s[i] = t[i] ^ rk[i];
}

/* one round of InvCipher (FIPS-197 5.3): InvShiftRows, InvSubBytes, AddRoundKey, [InvMixColumns] */
static void
ref_round_dec(unsigned char *s, const unsigned char *rk, int mix)
{
	unsigned char t[16];
	for (int c = 0; c < 4; c++)
		for (int r = 0; r < 4; r++)
			t[r + 4 * ((c + r) & 3)] = ref_iS[s[r + 4 * c]];
	for (int i = 0; i < 16; i++) s[i] = t[i] ^ rk[i];
	if (mix) for (int c = 0; c < 4; c++) ref_mix_column(s + 4 * c, 1);
}

/* Cipher / InvCipher with nr rounds and round keys rk */
static void
ref_encrypt(unsigned nr, const unsigned char *rk, unsigned char *s)
{
	for (int i = 0; i < 16; i++) s[i] ^= rk[i];
	for (unsigned u = 1; u <= nr; u++) ref_round_enc(s, rk + 16 * u, u != nr);
}

static void
ref_decrypt(unsigned nr, const unsigned char *rk, unsigned char *s)
{
	for (int i = 0; i < 16; i++) s[i] ^= rk[16 * nr + i];
	for (unsigned u = nr; u-- > 0; ) ref_round_dec(s, rk + 16 * u, u != 0);
}

/* ---- round keys in each implementation's own format, built from rk bytes ---- */

/* aes_small / aes_big (encryption): big-endian words */
static void
fmt_words_be(uint32_t *sk, const unsigned char *rk, unsigned nwords)
{
	for (unsigned i = 0; i < nwords; i++)
		sk[i] = (uint32_t)rk[4 * i] << 24 | (uint32_t)rk[4 * i + 1] << 16 | (uint32_t)rk[4 * i + 2] << 8 | rk[4 * i + 3];
}

/* aes_big decryption: InvMixColumns applied to the inner round keys */
static void
fmt_words_big_inv(uint32_t *sk, const unsigned char *rk, unsigned nr)
{
	unsigned char t[16 * 15];
	for (unsigned i = 0; i < 16 * (nr + 1); i++) t[i] = rk[i];
	for (unsigned i = 4; i < 4 * nr; i++) ref_mix_column(t + 4 * i, 1);
	fmt_words_be(sk, t, 4 * (nr + 1));
}

static uint32_t le32(const unsigned char *b) { return (uint32_t)b[0] | (uint32_t)b[1] << 8 | (uint32_t)b[2] << 16 | (uint32_t)b[3] << 24; }

/*
 * Bitsliced state layouts, by definition (src/inner.h "AES bitslice").
 * aes_ct: 2 blocks; bit (8b+k) of q[i] = bit i of byte 4*(k>>1)+b of block k&1.
 * aes_ct64: 4 blocks; bit (8B+k) of q[i] = bit i of byte
 *   (B>>1) + 8*(B&1) + 4*(k>>2) of block k&3.
 */
#define CT_BYTE(b, k)    (4 * ((k) >> 1) + (b))
#define CT64_BYTE(B, k)  (((B) >> 1) + 8 * ((B) & 1) + 4 * ((k) >> 2))

static void
pack_ct(uint32_t *q, const unsigned char blk[2][16])
{
	for (int i = 0; i < 8; i++) {
		uint32_t w = 0;
		for (int b = 0; b < 4; b++)
			for (int k = 0; k < 8; k++)
				w |= (uint32_t)((blk[k & 1][CT_BYTE(b, k)] >> i) & 1) << (8 * b + k);
		q[i] = w;
	}
}

static void
unpack_ct(unsigned char blk[2][16], const uint32_t *q)
{
	for (int l = 0; l < 2; l++) for (int j = 0; j < 16; j++) blk[l][j] = 0;
	for (int i = 0; i < 8; i++)
		for (int b = 0; b < 4; b++)
			for (int k = 0; k < 8; k++)
				blk[k & 1][CT_BYTE(b, k)] |= (unsigned char)(((q[i] >> (8 * b + k)) & 1) << i);
}

static void
pack_ct64(uint64_t *q, const unsigned char blk[4][16])
{
	for (int i = 0; i < 8; i++) {
		uint64_t w = 0;
		for (int B = 0; B < 8; B++)
			for (int k = 0; k < 8; k++)
				w |= (uint64_t)((blk[k & 3][CT64_BYTE(B, k)] >> i) & 1) << (8 * B + k);
		q[i] = w;
	}
}

static void
unpack_ct64(unsigned char blk[4][16], const uint64_t *q)
{
	for (int l = 0; l < 4; l++) for (int j = 0; j < 16; j++) blk[l][j] = 0;
	for (int i = 0; i < 8; i++)
		for (int B = 0; B < 8; B++)
			for (int k = 0; k < 8; k++)
				blk[k & 3][CT64_BYTE(B, k)] |= (unsigned char)(((q[i] >> (8 * B + k)) & 1) << i);
}

/* expanded round keys of the bitsliced cores: the round key in every lane */
static void
fmt_ct(uint32_t *skexp, const unsigned char *rk, unsigned nr)
{
	for (unsigned r = 0; r <= nr; r++) {
		unsigned char blk[2][16];
		for (int j = 0; j < 16; j++) blk[0][j] = blk[1][j] = rk[16 * r + j];
		pack_ct(skexp + 8 * r, blk);
	}
}

static void
fmt_ct64(uint64_t *skexp, const unsigned char *rk, unsigned nr)
{
	for (unsigned r = 0; r <= nr; r++) {
		unsigned char blk[4][16];
		for (int j = 0; j < 16; j++) blk[0][j] = blk[1][j] = blk[2][j] = blk[3][j] = rk[16 * r + j];
		pack_ct64(skexp + 8 * r, blk);
	}
}

#endif
