/*
 * C11.b: input gates and result plumbing of br_ecdsa_i15_vrfy_raw /
 * br_ecdsa_i31_vrfy_raw (real src/ec/ecdsa_iNN_vrfy_raw.c, real src/int
 * helpers) with the EC implementation replaced by a contract stub:
 * muladd() records its arguments, writes ARBITRARY point bytes and returns
 * an ARBITRARY flag (both drawn in main()).
 *
 * Parameters (all concrete per query):
 *   IMPL      15 | 31
 *   SL        signature length in bytes (sig bytes symbolic)
 *   HL        hash length in bytes (hash bytes symbolic)
 *   TOY_NL    0: the REAL P-256 order (src/ec/ec_secp256r1.c linked); the
 *                modular exponentiation br_iNN_modpow is then bound at the
 *                link seam to a probe that asserts "only reached when every
 *                gate passed" and ends the path (symbolic 256-bit modpow is
 *                out of reach) -> decides the gates only;
 *             1|2|3|4: br_secp256r1 is bound at the link seam to a toy curve
 *                definition whose order is the TOY_NL-byte prime below; all
 *                big-integer code is real -> decides the whole function:
 *                result == gates && muladd flag && (X mod n == r).
 *   CURVE     23|24|25 (real orders of P-256/P-384/P-521; toy: 23 only)
 *   QLD       qlen = generator_len + QLD  (0 = right length)
 *   CURVESYM  1: pk->curve symbolic in [0,32), assumed unsupported by the
 *                stub or not a NIST curve id
 *   RZERO     1: also require "r == 0 is rejected" (FIPS 186-4 6.4.2 step 1)
 *   ARITH     1: (toy) the scalars handed to muladd are h/s and r/s mod n
 */
#include "common.h"
#include "inner.h"

#ifndef IMPL
#define IMPL 15
#endif
#ifndef TOY_NL
#define TOY_NL 0
#endif
#ifndef SL
#define SL 64
#endif
#ifndef HL
#define HL 32
#endif
#ifndef QLD
#define QLD 0
#endif
#ifndef CURVESYM
#define CURVESYM 0
#endif
#ifndef RZERO
#define RZERO 0
#endif
#ifndef ARITH
#define ARITH 0
#endif
#ifndef CURVE
#define CURVE 23   /* BR_EC_secp256r1; 24, 25 only with TOY_NL=0 */
#endif

#if IMPL == 15
#define VRFY br_ecdsa_i15_vrfy_raw
#else
#define VRFY br_ecdsa_i31_vrfy_raw
#endif

/* ------------------------------------------------------------------ */
/* curve definitions */
#if TOY_NL
#if TOY_NL == 1
static const unsigned char TOY_N[] = { 0xFB };                   /* 251, prime */
#elif TOY_NL == 2
static const unsigned char TOY_N[] = { 0xF1, 0x3D };             /* 61757, prime */
#elif TOY_NL == 3
static const unsigned char TOY_N[] = { 0xD3, 0x5A, 0x7F };       /* 13851263, prime */
#else
static const unsigned char TOY_N[] = { 0xC9, 0x0F, 0xDA, 0xCB }; /* 3373259467, prime */
#endif
static const unsigned char TOY_G[1 + 2 * TOY_NL] = { 0x04, 0x11, 0x22 };
const br_ec_curve_def br_secp256r1 = { BR_EC_secp256r1, TOY_N, sizeof TOY_N, TOY_G, sizeof TOY_G };
const br_ec_curve_def br_secp384r1 = { BR_EC_secp384r1, TOY_N, sizeof TOY_N, TOY_G, sizeof TOY_G };
const br_ec_curve_def br_secp521r1 = { BR_EC_secp521r1, TOY_N, sizeof TOY_N, TOY_G, sizeof TOY_G };
#define NLEN TOY_NL
#define GLEN (1 + 2 * TOY_NL)
#define CD br_secp256r1
#else
#if CURVE == 23
#define CD br_secp256r1
#define NLEN 32
#define GLEN 65
#elif CURVE == 24
#define CD br_secp384r1
#define NLEN 48
#define GLEN 97
#else
#define CD br_secp521r1
#define NLEN 66
#define GLEN 133
#endif
#endif
#define QL (GLEN + (QLD))
#define HALF (SL / 2)
/* can any input of this query pass all gates? (decides which witness points exist) */
#define GATE_POSSIBLE (((SL) & 1) == 0 && (SL) >= 2 && (QLD) == 0 && !(CURVESYM))

/* ------------------------------------------------------------------ */
/* unsigned big-endian helpers on byte strings of concrete lengths */
static int be_lt(const unsigned char *a, size_t alen, const unsigned char *b, size_t blen)
{
	size_t w = alen > blen ? alen : blen;
	int lt = 0, decided = 0;
	for (size_t i = 0; i < w; i++) {          /* i = 0: most significant */
		unsigned x = (i + alen >= w) ? a[i + alen - w] : 0;
		unsigned y = (i + blen >= w) ? b[i + blen - w] : 0;
		if (!decided && x != y) { decided = 1; lt = x < y; }
	}
	return lt;
}
static int be_iszero(const unsigned char *a, size_t alen)
{
	int z = 1;
	for (size_t i = 0; i < alen; i++) if (a[i] != 0) z = 0;
	return z;
}
static int be_eq(const unsigned char *a, size_t alen, const unsigned char *b, size_t blen)
{
	return !be_lt(a, alen, b, blen) && !be_lt(b, blen, a, alen);
}
/* d = a - b over w bytes (a >= b assumed) */
static void be_sub(unsigned char *d, const unsigned char *a, const unsigned char *b, size_t w)
{
	unsigned borrow = 0;
	for (size_t i = w; i > 0; i--) {
		unsigned t = (unsigned)a[i - 1] - (unsigned)b[i - 1] - borrow;
		d[i - 1] = (unsigned char)t;
		borrow = (t >> 8) & 1;
	}
}

/* ------------------------------------------------------------------ */
/* contract stub for br_ec_impl */
static unsigned st_calls;
static uint32_t st_flag;                 /* what muladd will return */
static unsigned char st_point[140];      /* what muladd will write */
static unsigned char st_A[140], st_x[80], st_y[80];
static const unsigned char *st_B;
static size_t st_len, st_xlen, st_ylen;
static int st_curve;

static const unsigned char *stub_generator(int curve, size_t *len) { (void)curve; *len = CD.generator_len; return CD.generator; }
static const unsigned char *stub_order(int curve, size_t *len) { (void)curve; *len = CD.order_len; return CD.order; }
static size_t stub_xoff(int curve, size_t *len) { (void)curve; *len = NLEN; return 1; }
static uint32_t stub_mul(unsigned char *G, size_t Glen, const unsigned char *x, size_t xlen, int curve)
{
	(void)G; (void)Glen; (void)x; (void)xlen; (void)curve;
	CHECK(0, "vrfy_raw does not call mul");
	return 0;
}
static size_t stub_mulgen(unsigned char *R, const unsigned char *x, size_t xlen, int curve)
{
	(void)R; (void)x; (void)xlen; (void)curve;
	CHECK(0, "vrfy_raw does not call mulgen");
	return 0;
}
static uint32_t stub_muladd(unsigned char *A, const unsigned char *B, size_t len,
	const unsigned char *x, size_t xlen, const unsigned char *y, size_t ylen, int curve)
{
	st_calls++;
	st_B = B;
	st_len = len;
	st_xlen = xlen;
	st_ylen = ylen;
	st_curve = curve;
	for (size_t i = 0; i < GLEN; i++) if (i < len) st_A[i] = A[i];
	for (size_t i = 0; i < NLEN; i++) if (i < xlen) st_x[i] = x[i];
	for (size_t i = 0; i < NLEN; i++) if (i < ylen) st_y[i] = y[i];
	for (size_t i = 0; i < GLEN; i++) if (i < len) A[i] = st_point[i];
	return st_flag;
}

#if !TOY_NL
/* link-seam probe instead of the real modular exponentiation */
static int gate_ref;
#if IMPL == 15
void br_i15_modpow(uint16_t *x, const unsigned char *e, size_t elen,
	const uint16_t *m, uint16_t m0i, uint16_t *t1, uint16_t *t2)
#else
void br_i31_modpow(uint32_t *x, const unsigned char *e, size_t elen,
	const uint32_t *m, uint32_t m0i, uint32_t *t1, uint32_t *t2)
#endif
{
	(void)x; (void)e; (void)elen; (void)m; (void)m0i; (void)t1; (void)t2;
	CHECK(gate_ref, "arithmetic is reached only when every input gate passed");
	CHECK(st_calls == 0, "muladd not called before the inversion");
#if GATE_POSSIBLE
	WITNESS_POINT("an input passing all gates reaches the arithmetic");
#endif
	FINISH();
}
#endif

int main(void)
{
	unsigned char hash[HL > 0 ? HL : 1], sig[SL > 0 ? SL : 1], q[QL > 0 ? QL : 1];
	br_ec_impl impl;
	br_ec_public_key pk;

	ND_BYTES(hash, HL);
	ND_BYTES(sig, SL);
	ND_BYTES(q, QL);
	ND_BYTES(st_point, GLEN);
	st_flag = ND_U32();
	ASSUME(st_flag <= 1);            /* documented: 1 on success, 0 on error */
	impl.supported_curves = ND_U32();
	impl.generator = &stub_generator;
	impl.order = &stub_order;
	impl.xoff = &stub_xoff;
	impl.mul = &stub_mul;
	impl.mulgen = &stub_mulgen;
	impl.muladd = &stub_muladd;
#if CURVESYM
	int curve = ND_INT();
	ASSUME(curve >= 0 && curve < 32);   /* assumption: curve ids are TLS NamedCurve values < 32 */
#else
	int curve = CURVE;
#endif
	pk.curve = curve;
	pk.q = q;
	pk.qlen = QL;

	/* ---------------- reference gates ---------------- */
	const unsigned char *N = CD.order;
	const unsigned char *R = sig, *S = sig + HALF;
	int sup = ((impl.supported_curves >> curve) & 1) != 0
		&& (curve == BR_EC_secp256r1 || curve == BR_EC_secp384r1 || curve == BR_EC_secp521r1);
	int even = (SL & 1) == 0;
	int r_lt = be_lt(R, HALF, N, NLEN), s_lt = be_lt(S, HALF, N, NLEN);
	int r_z = be_iszero(R, HALF), s_z = be_iszero(S, HALF);
	/* FIPS 186-4 6.4.2 step 1: r and s in [1, n-1] (r == 0 was accepted before /repo fix c16d068) */
	int gate = sup && even && QL == GLEN && r_lt && s_lt && !s_z && !r_z;
#if CURVESYM
	ASSUME(!sup);
#endif
#if !TOY_NL
	gate_ref = gate;
#endif

#if CURVESYM
	/* hand the curve id to the code as a constant, one id at a time
	   (every id in [0,32) is covered; the data stays symbolic) */
	uint32_t res = 2;
	for (int c = 0; c < 32; c++) {
		if (curve == c) {
			pk.curve = c;
			res = VRFY(&impl, hash, HL, &pk, sig, SL);
		}
	}
#else
	uint32_t res = VRFY(&impl, hash, HL, &pk, sig, SL);
#endif

	CHECK(res <= 1, "result is 0 or 1");
#if !TOY_NL
	/* paths on which all gates passed ended in the probe */
	CHECK(!gate, "an input passing all gates goes on to the arithmetic");
	CHECK(res == 0, "odd length / r,s >= n / r == 0 / s == 0 / wrong key length / unsupported curve => 0");
	CHECK(st_calls == 0, "rejected at a gate: no curve operation is run");
	WITNESS_POINT("some input is rejected at a gate");
#else
	if (!gate) {
		CHECK(res == 0, "odd length / r,s >= n / r == 0 / s == 0 / wrong key length / unsupported curve => 0");
		CHECK(st_calls == 0, "rejected at a gate: no curve operation is run");
		WITNESS_POINT("some input is rejected at a gate");
	} else {
		/* X mod n, X = first coordinate written by muladd (NLEN bytes,
		   n has its top bit set so one subtraction suffices) */
		unsigned char xm[NLEN];
		const unsigned char *X = st_point + 1;
		if (be_lt(X, NLEN, N, NLEN)) {
			for (size_t i = 0; i < NLEN; i++) xm[i] = X[i];
		} else {
			be_sub(xm, X, N, NLEN);
		}
		int expect = st_flag && be_eq(xm, NLEN, R, HALF);
		CHECK(st_calls == 1, "all gates passed: muladd is called exactly once");
		CHECK(st_B == NULL && st_len == GLEN && st_xlen == NLEN && st_ylen == NLEN && st_curve == curve,
			"muladd gets (Q, generator, order-sized scalars, the key's curve)");
		for (size_t i = 0; i < GLEN; i++) CHECK(st_A[i] == q[i], "muladd gets the public key point");
#if RZERO
		CHECK(!r_z || res == 0, "r == 0 is rejected");
#endif
		if (!r_z) {
			CHECK(res == (uint32_t)expect, "result == muladd flag && (X mod n == r)");
		} else {
			CHECK(res == 0 || res == (uint32_t)expect, "r == 0: rejected, or treated like any other r");
		}
#if ARITH
		{
			/* scalars: st_y * s == bits2int(hash) and st_x * s == r (mod n) */
			uint64_t n = 0, rr = 0, ss = 0, u1 = 0, u2 = 0, h = 0;
			for (size_t i = 0; i < NLEN; i++) { n = (n << 8) | N[i]; u2 = (u2 << 8) | st_x[i]; u1 = (u1 << 8) | st_y[i]; }
			for (size_t i = 0; i < HALF; i++) { rr = (rr << 8) | R[i]; ss = (ss << 8) | S[i]; }
			for (size_t i = 0; i < HL; i++) h = (h << 8) | hash[i];
			if (8 * HL > 8 * NLEN) h >>= (8 * HL - 8 * NLEN);   /* orders below have 8*NLEN bits */
			if (h >= n) h -= n;
			CHECK(u1 < n && u2 < n, "scalars are reduced");
			/* a * ss mod n by double-and-add (no division circuit) */
			uint64_t p2 = 0, p1 = 0;
			for (int b = 8 * NLEN - 1; b >= 0; b--) {
				p2 <<= 1; if (p2 >= n) p2 -= n;
				p1 <<= 1; if (p1 >= n) p1 -= n;
				if ((ss >> b) & 1) {
					p2 += u2; if (p2 >= n) p2 -= n;
					p1 += u1; if (p1 >= n) p1 -= n;
				}
			}
			CHECK(p2 == rr, "x scalar is r/s mod n");
			CHECK(p1 == h, "y scalar is bits2int(hash)/s mod n");
		}
#endif
#if GATE_POSSIBLE
		if (res == 1) { WITNESS_POINT("some signature is accepted"); }
		if (res == 0 && st_flag == 1) { WITNESS_POINT("some signature fails the final comparison"); }
#endif
	}
#endif
	return 0;
}
