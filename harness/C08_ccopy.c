/*
 * C08 (a): br_ccopy (src/codec/ccopy.c).  Secret: ctl and both buffers'
 * contents.  Public: len (concrete per query, -DLEN) and the buffer addresses.
 */
#include "C08_rt.h"
#include C08_GEN
#ifdef C08_TV
#include "inner.h"
#endif
#ifndef LEN
#define LEN 8
#endif
static uint32_t ctl;
static unsigned char dst[LEN + 1], src[LEN + 1];
static void c08_public(void) { }
static void c08_secret(void)
{
	ctl = ND_U32() & 1;
	ND_BYTES(dst, LEN);
	ND_BYTES(src, LEN);
}
static void c08_call(void) { ir_br_ccopy(ctl, dst, src, LEN); }
#ifdef C08_TV
static void c08_call_real(void) { br_ccopy(ctl, dst, src, LEN); }
static void c08_out(void) { C08_OUT(dst, LEN); C08_OUT(src, LEN); }
#endif
#include "C08_main.h"
