/*
 * Cheap deterministic stand-ins behind the seams used by the AEAD record
 * layers (DESIGN.md 1.3 (b)); they are NOT the units under test:
 *
 *   toy_blk            16-byte "block cipher" E_k(x) (byte sum + neighbour
 *                      byte + key; every input byte changes >= 15 output bytes)
 *   toy_ctr_vtable     br_block_ctr_class over toy_blk, documented CTR
 *                      semantics: block = E_k(iv[12] || be32(cc)), cc++ per
 *                      block, partial last block allowed, returns new cc
 *   toy_ctrcbc_vtable  br_block_ctrcbc_class over toy_blk, documented
 *                      semantics of ctr / mac / encrypt (CTR then CBC-MAC of
 *                      the ciphertext) / decrypt (CBC-MAC of the ciphertext
 *                      then CTR); 16-byte big-endian counter
 *   toy_ghash          br_ghash contract: y = M_h(y ^ block) per 16-byte
 *                      block, last block zero padded
 *   toy_chacha20_run   br_chacha20_run contract: 64-byte blocks, counter cc,
 *                      returns the new counter
 *   toy_poly1305_run   br_poly1305_run contract: derives the MAC key with
 *                      ichacha(key, iv, 0, zeros[32]), en/decrypts with
 *                      ichacha(key, iv, 1, data), tag = 16-byte accumulator keyed by
 *                      the MAC key over (aad_len, aad, len, ciphertext)
 *
 * With -DAEAD_RECORD the stubs additionally record the nonce / AAD bytes
 * they are handed (used by C20).
 */
#ifndef C02_AEAD_STUBS_H
#define C02_AEAD_STUBS_H
#include "inner.h"

#ifdef AEAD_RECORD
#define REC_MAX 6
/* CTR class: iv and counter of every run() call */
static unsigned rec_ctr_n;
static unsigned char rec_ctr_iv[REC_MAX][12];
static uint32_t rec_ctr_cc[REC_MAX];
/* GHASH: first 16 bytes (zero padded) and length of every call */
static unsigned rec_gh_n;
static unsigned char rec_gh_data[REC_MAX][16];
static size_t rec_gh_len[REC_MAX];
/* CTRCBC class: first block of every mac() call, counter block of every
   ctr()/encrypt()/decrypt() call */
static unsigned rec_mac_n;
static unsigned char rec_mac_blk[REC_MAX][16];
static unsigned rec_cc_n;
static unsigned char rec_cc_ctr[REC_MAX][16];
/* ChaCha20+Poly1305 */
static unsigned rec_poly_n;
static unsigned char rec_poly_key[32], rec_poly_iv[12], rec_poly_aad[16];
static size_t rec_poly_len, rec_poly_aad_len;
static int rec_poly_encrypt;
static void rec_reset(void)
{
	rec_ctr_n = rec_gh_n = rec_mac_n = rec_cc_n = rec_poly_n = 0;
}
#endif

static void toy_fold_key(unsigned char *k, const void *key, size_t len)
{
	for (int i = 0; i < 16; i++) k[i] = (unsigned char)(0x5A + i);
	for (size_t i = 0; i < len; i++) k[i & 15] = (unsigned char)((k[i & 15] ^ ((const unsigned char *)key)[i]) + (i >> 4));
}

static void toy_blk(const unsigned char *k, const unsigned char *in, unsigned char *out)
{
	unsigned char t[16], s = 0;
	for (int i = 0; i < 16; i++) s = (unsigned char)(s + in[i]);
	for (int i = 0; i < 16; i++) t[i] = (unsigned char)((in[(i + 1) & 15] ^ k[i]) + s + i);
	for (int i = 0; i < 16; i++) out[i] = t[i];
}

/* ---- CTR class ---- */
typedef struct { const br_block_ctr_class *vtable; unsigned char k[16]; } toy_ctr;
static const br_block_ctr_class toy_ctr_vtable;
static void toy_ctr_init(const br_block_ctr_class **c, const void *key, size_t len)
{
	toy_ctr *cc = (void *)c;
	cc->vtable = &toy_ctr_vtable;
	toy_fold_key(cc->k, key, len);
}
static uint32_t toy_ctr_run(const br_block_ctr_class *const *c, const void *iv, uint32_t cc, void *data, size_t len)
{
	const toy_ctr *tc = (const void *)c;
	unsigned char *buf = data;
#ifdef AEAD_RECORD
	if (rec_ctr_n < REC_MAX) {
		for (int i = 0; i < 12; i++) rec_ctr_iv[rec_ctr_n][i] = ((const unsigned char *)iv)[i];
		rec_ctr_cc[rec_ctr_n] = cc;
	}
	rec_ctr_n++;
#endif
	for (size_t u = 0; u < len; u += 16) {
		unsigned char in[16], ks[16];
		for (int i = 0; i < 12; i++) in[i] = ((const unsigned char *)iv)[i];
		br_enc32be(in + 12, cc);
		toy_blk(tc->k, in, ks);
		for (size_t i = 0; i < 16 && u + i < len; i++) buf[u + i] ^= ks[i];
		cc++;
	}
	return cc;
}
static const br_block_ctr_class toy_ctr_vtable = { sizeof(toy_ctr), 16, 4, toy_ctr_init, toy_ctr_run };

/* ---- GHASH ---- */
static void toy_ghash(void *y, const void *h, const void *data, size_t len)
{
	unsigned char *yb = y;
	const unsigned char *hb = h, *d = data;
#ifdef AEAD_RECORD
	if (rec_gh_n < REC_MAX) {
		for (size_t i = 0; i < 16; i++) rec_gh_data[rec_gh_n][i] = i < len ? d[i] : 0;
		rec_gh_len[rec_gh_n] = len;
	}
	rec_gh_n++;
#endif
	for (size_t u = 0; u < len; u += 16) {
		unsigned char t[16];
		for (size_t i = 0; i < 16; i++) t[i] = (unsigned char)(yb[i] ^ (u + i < len ? d[u + i] : 0));
		for (int i = 0; i < 16; i++)
			yb[i] = (unsigned char)((t[(i + 1) & 15] + hb[i]) ^ (unsigned char)((t[i] << 1) | (t[i] >> 7)));
	}
}

/* ---- CTR + CBC-MAC class ---- */
typedef struct { const br_block_ctrcbc_class *vtable; unsigned char k[16]; } toy_ctrcbc;
static const br_block_ctrcbc_class toy_ctrcbc_vtable;
static void toy_ctrcbc_init(const br_block_ctrcbc_class **c, const void *key, size_t len)
{
	toy_ctrcbc *cc = (void *)c;
	cc->vtable = &toy_ctrcbc_vtable;
	toy_fold_key(cc->k, key, len);
}
static void toy_ctr1(const unsigned char *k, unsigned char *ctr, unsigned char *blk)
{
	unsigned char ks[16];
	toy_blk(k, ctr, ks);
	for (int i = 0; i < 16; i++) blk[i] ^= ks[i];
	unsigned carry = 1;
	for (int i = 15; i >= 0; i--) { unsigned w = ctr[i] + carry; ctr[i] = (unsigned char)w; carry = w >> 8; }
}
static void toy_mac1(const unsigned char *k, unsigned char *cbcmac, const unsigned char *blk)
{
	unsigned char t[16];
	for (int i = 0; i < 16; i++) t[i] = cbcmac[i] ^ blk[i];
	toy_blk(k, t, cbcmac);
}
#ifdef AEAD_RECORD
static void rec_cc(const void *ctr)
{
	if (rec_cc_n < REC_MAX) for (int i = 0; i < 16; i++) rec_cc_ctr[rec_cc_n][i] = ((const unsigned char *)ctr)[i];
	rec_cc_n++;
}
#else
#define rec_cc(ctr) ((void)0)
#endif
static void toy_ctrcbc_encrypt(const br_block_ctrcbc_class *const *c, void *ctr, void *cbcmac, void *data, size_t len)
{
	const toy_ctrcbc *tc = (const void *)c;
	unsigned char *buf = data;
	__CPROVER_assert((len & 15) == 0, "ctrcbc encrypt precondition: len multiple of 16");
	rec_cc(ctr);
	for (size_t u = 0; u + 16 <= len; u += 16) { toy_ctr1(tc->k, ctr, buf + u); toy_mac1(tc->k, cbcmac, buf + u); }
}
static void toy_ctrcbc_decrypt(const br_block_ctrcbc_class *const *c, void *ctr, void *cbcmac, void *data, size_t len)
{
	const toy_ctrcbc *tc = (const void *)c;
	unsigned char *buf = data;
	__CPROVER_assert((len & 15) == 0, "ctrcbc decrypt precondition: len multiple of 16");
	rec_cc(ctr);
	for (size_t u = 0; u + 16 <= len; u += 16) { toy_mac1(tc->k, cbcmac, buf + u); toy_ctr1(tc->k, ctr, buf + u); }
}
static void toy_ctrcbc_ctr(const br_block_ctrcbc_class *const *c, void *ctr, void *data, size_t len)
{
	const toy_ctrcbc *tc = (const void *)c;
	unsigned char *buf = data;
	__CPROVER_assert((len & 15) == 0, "ctrcbc ctr precondition: len multiple of 16");
	rec_cc(ctr);
	for (size_t u = 0; u + 16 <= len; u += 16) toy_ctr1(tc->k, ctr, buf + u);
}
static void toy_ctrcbc_mac(const br_block_ctrcbc_class *const *c, void *cbcmac, const void *data, size_t len)
{
	const toy_ctrcbc *tc = (const void *)c;
	const unsigned char *buf = data;
	__CPROVER_assert((len & 15) == 0, "ctrcbc mac precondition: len multiple of 16");
#ifdef AEAD_RECORD
	if (rec_mac_n < REC_MAX) for (size_t i = 0; i < 16; i++) rec_mac_blk[rec_mac_n][i] = i < len ? buf[i] : 0;
	rec_mac_n++;
#endif
	for (size_t u = 0; u + 16 <= len; u += 16) toy_mac1(tc->k, cbcmac, buf + u);
}
static const br_block_ctrcbc_class toy_ctrcbc_vtable = { sizeof(toy_ctrcbc), 16, 4, toy_ctrcbc_init,
	toy_ctrcbc_encrypt, toy_ctrcbc_decrypt, toy_ctrcbc_ctr, toy_ctrcbc_mac };

/* ---- ChaCha20 / Poly1305 ---- */
static uint32_t toy_chacha20_run(const void *key, const void *iv, uint32_t cc, void *data, size_t len)
{
	const unsigned char *k = key, *n = iv;
	unsigned char *buf = data, sk = 0, sn = 0;
	for (int i = 0; i < 32; i++) sk = (unsigned char)(sk + k[i]);
	for (int i = 0; i < 12; i++) sn = (unsigned char)(sn + (unsigned char)((n[i] << 1) | (n[i] >> 7)));
	for (size_t u = 0; u < len; u += 64) {
		for (size_t i = 0; i < 64 && u + i < len; i++) {
			unsigned char c = (unsigned char)(cc >> ((i & 3) * 8));
			buf[u + i] ^= (unsigned char)(((k[i & 31] ^ c) + n[i % 12] + i) ^ (unsigned char)(sk + sn));
		}
		cc++;
	}
	return cc;
}
/* 16-byte accumulator: slot (n mod 16) absorbs byte n with an 8-bit add and
   the rotated neighbour slot; each step is a bijection of the absorbing slot,
   so a difference in one input byte never cancels */
typedef struct { unsigned char s[16]; unsigned n; } toy_acc;
static void acc_byte(toy_acc *a, unsigned b)
{
	unsigned i = a->n & 15;
	unsigned char v = a->s[(i + 1) & 15];
	a->s[i] = (unsigned char)((unsigned char)(a->s[i] + b + 1) ^ (unsigned char)((v << 1) | (v >> 7)));
	a->n++;
}
static void toy_poly1305_run(const void *key, const void *iv, void *data, size_t len,
	const void *aad, size_t aad_len, void *tag, br_chacha20_run ichacha, int encrypt)
{
	unsigned char pkey[32], *t = tag;
	const unsigned char *d = data, *ad = aad;
	toy_acc a;
#ifdef AEAD_RECORD
	if (rec_poly_n == 0) {
		for (int i = 0; i < 32; i++) rec_poly_key[i] = ((const unsigned char *)key)[i];
		for (int i = 0; i < 12; i++) rec_poly_iv[i] = ((const unsigned char *)iv)[i];
		for (size_t i = 0; i < 16; i++) rec_poly_aad[i] = i < aad_len ? ad[i] : 0;
		rec_poly_len = len;
		rec_poly_aad_len = aad_len;
		rec_poly_encrypt = encrypt;
	}
	rec_poly_n++;
#endif
	for (int i = 0; i < 32; i++) pkey[i] = 0;
	ichacha(key, iv, 0, pkey, sizeof pkey);
	if (encrypt) ichacha(key, iv, 1, data, len);
	for (int i = 0; i < 16; i++) a.s[i] = (unsigned char)(pkey[i] ^ (unsigned char)(pkey[16 + i] + i));
	a.n = 0;
	for (int i = 0; i < 8; i++) acc_byte(&a, (unsigned char)((uint64_t)aad_len >> (8 * i)));
	for (size_t i = 0; i < aad_len; i++) acc_byte(&a, ad[i]);
	for (int i = 0; i < 8; i++) acc_byte(&a, (unsigned char)((uint64_t)len >> (8 * i)));
	for (size_t i = 0; i < len; i++) acc_byte(&a, d[i]);
	for (int i = 0; i < 16; i++) acc_byte(&a, 0xA5);
	for (int i = 0; i < 16; i++) t[i] = a.s[i];
	if (!encrypt) ichacha(key, iv, 1, data, len);
}
#endif
