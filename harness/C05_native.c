/*
 * C05 layer 2 (and the measurement harness of encoder E4): ONE native word of
 * a T0 program, extracted by encoders/t0tool.py (E2: body verbatim from the
 * generated interpreter's `case K: { ... }`, compiled against the real
 * preamble), executed from ANY state of the VM and of the context.
 *
 *   -DC05_KEY_<key>    which program (pkey skey x509dec x509min pem hsc hss);
 *                      -I<gen dir> gives t0n_<key>.c, t0n_<key>_fields.h,
 *                      t0n_<key>_ops.h, t0n_<key>_pre.h (regenerated from the
 *                      current tree on every run)
 *   -DOP=<n>           opcode of the native
 *   -DC05_EFFECT       measurement mode (E4): see C05_pre.h
 *
 * Layer 2 decides: no pointer / bounds / overflow / shift failure (CBMC's
 * checks on the real body), every context-offset operand lies in a field of
 * the context and the access stays inside that field (T0_ADDR), every string
 * function region stays inside the context field it starts in, loops
 * terminate within the stated bounds; plus per-program context invariants.
 */
#define T0N_PRE_INCLUDE "C05_pre.h"
#if defined(C05_KEY_pkey)
#include "t0n_pkey.c"
#include "t0n_pkey_fields.h"
#include "t0n_pkey_ops.h"
#include "t0n_pkey_pre.h"
#elif defined(C05_KEY_skey)
#include "t0n_skey.c"
#include "t0n_skey_fields.h"
#include "t0n_skey_ops.h"
#include "t0n_skey_pre.h"
#elif defined(C05_KEY_x509dec)
#include "t0n_x509dec.c"
#include "t0n_x509dec_fields.h"
#include "t0n_x509dec_ops.h"
#include "t0n_x509dec_pre.h"
#elif defined(C05_KEY_x509min)
#include "t0n_x509min.c"
#include "t0n_x509min_fields.h"
#include "t0n_x509min_ops.h"
#include "t0n_x509min_pre.h"
#elif defined(C05_KEY_pem)
#include "t0n_pem.c"
#include "t0n_pem_fields.h"
#include "t0n_pem_ops.h"
#include "t0n_pem_pre.h"
#elif defined(C05_KEY_hsc)
#include "t0n_hsc.c"
#include "t0n_hsc_fields.h"
#include "t0n_hsc_ops.h"
#include "t0n_hsc_pre.h"
#elif defined(C05_KEY_hss)
#include "t0n_hss.c"
#include "t0n_hss_fields.h"
#include "t0n_hss_ops.h"
#include "t0n_hss_pre.h"
#else
#error "no program selected"
#endif

T0N_FIELD_ASSERTS

#ifndef OP
#define OP 7
#endif

static T0N_CTXT *t0n_the_ctx;

/* end offset of the context field that contains offset `off`; 0 = padding / outside */
static size_t
t0n_field_end(size_t off)
{
#define X(path) if (off >= offsetof(T0N_CTXT, path) && off < offsetof(T0N_CTXT, path) + sizeof(((T0N_CTXT *)0)->path)) \
		return offsetof(T0N_CTXT, path) + sizeof(((T0N_CTXT *)0)->path);
	T0N_FIELDS(X)
#undef X
	return 0;
}

static unsigned char *
t0n_addr_chk(void *base, size_t off, size_t width)
{
#ifndef C05_EFFECT
	size_t end = t0n_field_end(off);
#ifdef NATIVE_REPLAY
	printf("T0_ADDR: context offset %lu, access width %lu, enclosing field ends at %lu (0 = no field), sizeof context %lu\n",
		(unsigned long)off, (unsigned long)width, (unsigned long)end, (unsigned long)sizeof(T0N_CTXT));
#endif
	CHECK(base == (void *)t0n_the_ctx, "T0_ADDR: base is the context");
	/* width 0 = the pointer is handed to a string function, whose region is checked there:
	   a one-past-the-end pointer of a field is then acceptable (zero-length region) */
	CHECK(end != 0 || (width == 0 && off > 0 && t0n_field_end(off - 1) == off), "T0_ADDR: context-offset operand lies inside a field of the context");
	CHECK(end == 0 || width <= end - off, "T0_ADDR: access through a context-offset operand stays inside the field it starts in");
#endif
	return (unsigned char *)base + off;
}

static void
t0n_region_chk(const void *p, size_t n, int wr)
{
#ifndef C05_EFFECT
	if (n == 0) {
		return;
	}
#ifdef NATIVE_REPLAY
	if ((const unsigned char *)p >= (const unsigned char *)t0n_the_ctx
		&& (const unsigned char *)p < (const unsigned char *)t0n_the_ctx + sizeof *t0n_the_ctx)
	{
		size_t off = (size_t)((const unsigned char *)p - (const unsigned char *)t0n_the_ctx);
#else
	CHECK(wr ? __CPROVER_w_ok(p, n) : __CPROVER_r_ok(p, n), "string-function region lies inside one object");
	if (__CPROVER_same_object(p, t0n_the_ctx)) {
		size_t off = __CPROVER_POINTER_OFFSET(p);
#endif
		size_t end = t0n_field_end(off);
#ifdef NATIVE_REPLAY
		printf("string function: region at context offset %lu, %lu bytes, enclosing field ends at %lu\n", (unsigned long)off, (unsigned long)n, (unsigned long)end);
#endif
		CHECK(end != 0 && n <= end - off, "string-function region that starts in a context field stays inside that field");
	}
#else
	(void)p; (void)n; (void)wr;
#endif
}

/* readable / writable region predicates for the environment stubs */
static void
c05_need_r(const void *p, size_t n)
{
#if !defined(NATIVE_REPLAY) && !defined(C05_EFFECT)
	CHECK(n == 0 || __CPROVER_r_ok(p, n), "region handed to a callback / callee is readable");
	t0n_region_chk(p, n, 0);
#else
	(void)p; (void)n;
#endif
}
static void
c05_need_w(void *p, size_t n)
{
#if !defined(NATIVE_REPLAY) && !defined(C05_EFFECT)
	CHECK(n == 0 || __CPROVER_w_ok(p, n), "region handed to a callback / callee is writable");
	t0n_region_chk(p, n, 1);    /* contents left at their unconstrained pre-state value (see C05_pre.h) */
#else
	(void)p; (void)n;
#endif
}

/* input chunk: a valid region of at most C05_HB bytes */
#ifndef C05_HB
#define C05_HB 8
#endif
static unsigned char c05_in[C05_HB];

/* symbolic initialisation of the leaf fields (replayable part of the state;
   whatever is not assigned here is unconstrained under CBMC, zero natively) */
#define C05_INIT_S(path)      c->path = (__typeof__(c->path))ND_U64();
#define C05_INIT_P(path)
#define C05_INIT_U(path)
#define C05_INIT_A(path, n)   { size_t i_; for (i_ = 0; i_ < ((n) < 24 ? (n) : 24); i_ ++) c->path[i_] = ND_U8(); }
#define C05_INIT_W(path, n)   { size_t i_; for (i_ = 0; i_ < ((n) <= 32 ? (n) : 32); i_ ++) c->path[i_] = (__typeof__(c->path[0]))ND_U64(); }
static void
c05_init_symbolic(T0N_CTXT *c)
{
	T0N_FIELD_KINDS(C05_INIT_S, C05_INIT_P, C05_INIT_A, C05_INIT_W, C05_INIT_U)
}

#include "C05_env.h"

int
main(void)
{
	T0N_CTXT the_ctx;
#ifdef NATIVE_REPLAY
	{ size_t i; for (i = 0; i < sizeof the_ctx; i ++) ((unsigned char *)&the_ctx)[i] = 0; }
#endif
	t0n_the_ctx = &the_ctx;
	ND_BYTES(c05_in, C05_HB);
	c05_init_symbolic(&the_ctx);
	t0n_dpi = ND_U32();
	t0n_rpi = ND_U32();
#ifndef C05_EFFECT
	ASSUME(t0n_dpi <= T0N_NDP && t0n_rpi <= T0N_NRP);
	/* E4: at every call site the depth leaves room for the native's (proved) need and peak */
	ASSUME(t0n_dpi >= C05_NEED && t0n_dpi <= T0N_NDP - C05_PEAK);
#else
	ASSUME(t0n_dpi >= 8 && t0n_dpi <= T0N_NDP - 8);
	ASSUME(t0n_rpi >= 8 && t0n_rpi <= T0N_NRP - 8);
#endif
	c05_env_common(&the_ctx);
	c05_env(&the_ctx);
#ifdef C05_EFFECT
#ifdef C05_LIT
	/* value-dependent stack word: measured for one literal top-of-stack value */
	ASSUME(T0N_STK(&the_ctx)->dp_stack[t0n_dpi - 1] == (uint32_t)(C05_LIT));
#endif
	c05_precond(&the_ctx, OP);      /* call-site facts hold in measurement mode too */
	t0n_dlo = t0n_dhi = t0n_dpi;
	t0n_rlo = t0n_rhi = t0n_rpi;
	{
		uint32_t d0 = t0n_dpi, r0 = t0n_rpi;
		uint32_t top0 = T0N_STK(&the_ctx)->dp_stack[t0n_dpi - 1];
		uint32_t second0 = T0N_STK(&the_ctx)->dp_stack[t0n_dpi - 2];
		t0n_co = 0;
		C05_DISPATCH(&the_ctx, OP);
		{
			int delta = (int)t0n_dpi - (int)d0, rdelta = (int)t0n_rpi - (int)r0;
			int need = (int)d0 - (int)t0n_dlo, peak = (int)t0n_dhi - (int)d0;
			int rneed = (int)r0 - (int)t0n_rlo, rpeak = (int)t0n_rhi - (int)r0;
			__CPROVER_assert(delta >= -8 && delta <= 8 && need >= 0 && need <= 8 && peak >= 0 && peak <= 8, "EFF range data");
			__CPROVER_assert(rdelta >= -8 && rdelta <= 8 && rneed >= 0 && rneed <= 8 && rpeak >= 0 && rpeak <= 8, "EFF range ret");
#define E1(k) __CPROVER_assert(t0n_co || delta != (k), "EFF delta " #k); __CPROVER_assert(!t0n_co || delta != (k), "EFF codelta " #k); \
		__CPROVER_assert(rdelta != (k), "EFF rdelta " #k);
#define E2(k) __CPROVER_assert(need != (k), "EFF need " #k); __CPROVER_assert(peak != (k), "EFF peak " #k); \
		__CPROVER_assert(rneed != (k), "EFF rneed " #k); __CPROVER_assert(rpeak != (k), "EFF rpeak " #k);
			E1(-8) E1(-7) E1(-6) E1(-5) E1(-4) E1(-3) E1(-2) E1(-1) E1(0) E1(1) E1(2) E1(3) E1(4) E1(5) E1(6) E1(7) E1(8)
			E2(0) E2(1) E2(2) E2(3) E2(4) E2(5) E2(6) E2(7) E2(8)
			__CPROVER_assert(t0n_co == 0, "EFF co");
			__CPROVER_assert(t0n_co != 0, "EFF noco");
			__CPROVER_assert(!t0n_co || C05_ERRF(&the_ctx) != 0, "EFF coerr");
			__CPROVER_assert(!t0n_co || C05_ERRF(&the_ctx) != 0 || top0 == 0, "EFF coerr_nz");
#ifdef C05_SPEC_OVER
			__CPROVER_assert(t0n_dpi == d0 + 1 && T0N_STK(&the_ctx)->dp_stack[d0] == second0 && T0N_STK(&the_ctx)->dp_stack[d0 - 1] == top0
				&& T0N_STK(&the_ctx)->dp_stack[d0 - 2] == second0, "SPEC over");
#endif
#ifdef C05_SPEC_DUP
			__CPROVER_assert(t0n_dpi == d0 + 1 && T0N_STK(&the_ctx)->dp_stack[d0] == top0 && T0N_STK(&the_ctx)->dp_stack[d0 - 1] == top0, "SPEC dup");
#endif
			__CPROVER_assert(0, "EFF completed");
		}
	}
#else
	c05_precond(&the_ctx, OP);
	t0n_co = 0;
	C05_DISPATCH(&the_ctx, OP);
	CHECK(t0n_dpi <= T0N_NDP && t0n_rpi <= T0N_NRP, "stack indices stay within the stacks");
	c05_post(&the_ctx, OP);
	WITNESS_POINT("native word completed");
#endif
	return 0;
}
