/*
 * C15.c: client certificate handlers `choose` of
 * src/ssl/ssl_ccert_single_rsa.c (POLICY_EC=0) and
 * src/ssl/ssl_ccert_single_ec.c (POLICY_EC=1), called through their real vtable on a directly
 * built handler context, against the contract documented at
 * br_ssl_client_certificate_class.choose / br_ssl_client_certificate:
 *   - auth_types: bit x RSA with hash x (0 = MD5+SHA-1), bit 8+x ECDSA with
 *     hash x, bit 16 static ECDH with RSA-signed cert, bit 17 static ECDH
 *     with ECDSA-signed cert;
 *   - "If the client cannot or does not wish to send a certificate, then it
 *     shall set chain to NULL and chain_len to 0";
 *   - hash_id -1 for static ECDH; the signature hash must be one the server
 *     accepts, chosen in the br_ssl_choose_hash order.
 * Symbolic: auth_types (32 bits), allowed_usages, issuer key type, server
 * curve, key curve, chain_len.
 */
#include "common.h"
#include "C15_ref.h"
#if POLICY_EC
#include "src/ssl/ssl_ccert_single_ec.c"
#else
#include "src/ssl/ssl_ccert_single_rsa.c"
#endif

static br_ssl_client_context cl;
static const br_x509_certificate the_chain[2];

int main(void)
{
	uint32_t auth_types = ND_U32();
	unsigned usages = ND_U32();
	unsigned issuer = ND_U32();
	int scurve = ND_INT();
	int kcurve = ND_INT();
	size_t chain_len = ND_SIZE();
	br_ssl_client_certificate ch;
	ch.auth_type = ND_INT();
	ch.hash_id = ND_INT();
	ch.chain = the_chain + 1;
	ch.chain_len = ND_SIZE();

	ASSUME(chain_len >= 1);
	cl.server_curve = scurve;
	/*
	 * The handler context is built directly (not inside the
	 * br_ssl_client_context.client_auth union: CBMC's encoding of a union
	 * whose members overlay a function pointer with two 32-bit integers
	 * loses the integer values); the vtable is the real static
	 * ccert_vtable of the included unit.
	 */
#if POLICY_EC
	br_ec_private_key sk;
	sk.curve = kcurve;
	sk.x = 0;
	sk.xlen = 0;
	br_ssl_client_certificate_ec_context zc;
	zc.vtable = &ccert_vtable;
	zc.chain = the_chain;
	zc.chain_len = chain_len;
	zc.sk = &sk;
	zc.allowed_usages = usages;
	zc.issuer_key_type = issuer;
	zc.mhash = 0;
	zc.iec = 0;
	zc.iecdsa = 0;
#else
	(void)usages; (void)issuer; (void)kcurve;
	br_ssl_client_certificate_rsa_context zc;
	zc.vtable = &ccert_vtable;
	zc.chain = the_chain;
	zc.chain_len = chain_len;
	zc.sk = 0;
	zc.irsasign = 0;
#endif

	zc.vtable->choose(&zc.vtable, &cl, auth_types, &ch);

	int sent = (ch.chain != 0);
	CHECK((ch.chain == 0) == (ch.chain_len == 0), "chain is NULL iff chain_len is 0");
	if (sent) {
		CHECK(ch.chain == the_chain && ch.chain_len == chain_len, "a sent chain is the configured one");
	}
#if POLICY_EC
	int ecdh_ok = (usages & 0x10) != 0 && scurve == kcurve
		&& ((issuer == 1 /* BR_KEYTYPE_RSA */) ? ((auth_types >> 16) & 1u) : ((auth_types >> 17) & 1u));
	int h = ref_pref_hash((auth_types >> 8) & 0xFF);
	int ecdsa_ok = (usages & 0x20) != 0 && h != 0;
	CHECK(sent == (ecdh_ok || ecdsa_ok), "EC client: a chain is sent iff static ECDH or an ECDSA signature is possible");
	if (sent) {
		CHECK(ch.auth_type == BR_AUTH_ECDH || ch.auth_type == BR_AUTH_ECDSA, "EC client: auth type is ECDH or ECDSA");
		if (ch.auth_type == BR_AUTH_ECDH) {
			CHECK(ecdh_ok && ch.hash_id == -1, "static ECDH only when allowed, curves match and the server accepts the cert type; hash_id -1");
			WITNESS_POINT("static ECDH chosen");
		} else {
			CHECK(ecdsa_ok && ch.hash_id == h, "ECDSA only when SIGN allowed; hash is the preferred one the server accepts");
			WITNESS_POINT("ECDSA chosen");
		}
	} else {
		WITNESS_POINT("EC client sends no chain");
	}
#else
	int h = ref_pref_hash(auth_types & 0xFF);
	int rsa_ok = h != 0 || (auth_types & 1u) != 0;
#if NOCHAIN_CHECK
	/* "If the client cannot or does not wish to send a certificate, then
	   it shall set chain to NULL and chain_len to 0" */
	CHECK(sent == rsa_ok, "RSA client: chain must be NULL when the server accepts no RSA signature type, configured chain otherwise");
	if (!rsa_ok) { WITNESS_POINT("server accepts no RSA signature"); }
	if (rsa_ok) { WITNESS_POINT("server accepts some RSA signature"); }
#else
	if (rsa_ok) {
		CHECK(sent, "RSA client: the configured chain is sent when the server accepts an RSA signature type");
		CHECK(ch.auth_type == BR_AUTH_RSA, "RSA client: auth type RSA");
		CHECK(ch.hash_id == h, "RSA client: preferred SHA hash the server accepts, else 0 (MD5+SHA-1)");
		if (h != 0) { WITNESS_POINT("RSA signature with a SHA hash chosen"); }
		else { WITNESS_POINT("RSA signature with MD5+SHA-1 chosen"); }
	}
#endif
#endif
	return 0;
}
