/*
 * C16.a: br_ssl_engine_set_buffers_bidi / br_ssl_engine_set_buffer (real
 * src/ssl/ssl_engine.c) against the documentation in inc/bearssl_ssl.h and
 * the implementation notes at the top of ssl_engine.c:
 *   - failure (BR_ERR_BAD_PARAM, failed mode) exactly when a buffer is below
 *     512 + overhead, overheads taken from the public BR_SSL_BUFSIZE_* macros;
 *   - max_frag_len = the largest of {512,1024,2048,4096,16384} with
 *     obuf_len >= f + out-overhead and ibuf_len >= f + in-overhead
 *     (8192 is not in the list: RFC 6066 has no code for it);
 *   - shared (half-duplex) vs split (full-duplex) buffer layout.
 *
 * PART 0: set_buffers_bidi, lengths symbolic over the whole size_t range.
 *         No byte of the buffers is touched and no pointer arithmetic is done
 *         by the unit here, so the buffers are two 8-byte arrays.
 * PART 1: set_buffer, policy (lengths, fragment length, failure threshold).
 * PART 2: set_buffer(bidi=1), geometry: the two parts lie inside the caller's
 *         buffer and do not overlap.
 *         PART 1/2 with bidi != 0 do pointer arithmetic (buf + w): the caller's
 *         buffer is a real BIGN-byte array and buf_len <= BIGN is assumed
 *         (BIGN = 40000 > BR_SSL_BUFSIZE_BIDI = 33178); with bidi == 0 the
 *         length is unconstrained.
 */
#include "common.h"
#include "src/ssl/ssl_engine.c"

#ifndef PART
#define PART 0
#endif
#define BIGN 40000

#define IN_OVH  ((size_t)BR_SSL_BUFSIZE_INPUT - 16384)	/* 325, from the public header */
#define OUT_OVH ((size_t)BR_SSL_BUFSIZE_OUTPUT - 16384)	/* 85 */

/* the context is an uninitialised local of main (arbitrary previous content);
 * a zero-initialised static one makes CBMC's union write in set_buffers_bidi
 * (rc->out.vtable = ...) blow up */
static br_ssl_engine_context *rcp;
#define rc (*rcp)
static unsigned char ib[8], ob[8], BIG[BIGN];

/* documented fragment length for a pair of buffer sizes; 0: not usable */
static size_t spec_mfl(size_t ilen, size_t olen)
{
	static const size_t std[5] = { 16384, 4096, 2048, 1024, 512 };	/* RFC 6066 section 4 + the default */
	for (int i = 0; i < 5; i++)
		if (olen >= std[i] + OUT_OVH && ilen >= std[i] + IN_OVH) return std[i];
	return 0;
}

static void scramble(void)
{
	/* whatever an earlier use left in the fields the call must reset */
	rc.iomode = ND_U8();
	rc.err = ND_INT();
	rc.incrypt = ND_U8();
	rc.version_in = ND_U16(); rc.version_out = ND_U16();
	rc.record_type_in = ND_U8(); rc.record_type_out = ND_U8();
	rc.ixa = ND_SIZE(); rc.ixb = ND_SIZE(); rc.ixc = ND_SIZE();
	rc.oxa = ND_SIZE(); rc.oxb = ND_SIZE(); rc.oxc = ND_SIZE();
	rc.peer_log_max_frag_len = ND_U8();
}

static void check_failed(void)
{
	CHECK(rc.iomode == BR_IO_FAILED && rc.err == BR_ERR_BAD_PARAM, "too small a buffer: failed mode with BR_ERR_BAD_PARAM");
	CHECK(br_ssl_engine_last_error(&rc) == BR_ERR_BAD_PARAM, "last_error reports BR_ERR_BAD_PARAM");
	CHECK(br_ssl_engine_current_state(&rc) == BR_SSL_CLOSED, "failed engine offers no I/O");
}

static void check_ready(const unsigned char *ibuf, size_t ilen, const unsigned char *obuf, size_t olen, int fresh)
{
	size_t f = spec_mfl(ilen, olen);
	CHECK(rc.err == BR_ERR_OK && rc.iomode == BR_IO_INOUT, "buffers accepted: no error, input/output mode");
	CHECK(rc.ibuf == ibuf && rc.ibuf_len == ilen && rc.obuf == obuf && rc.obuf_len == olen, "buffers and lengths recorded");
	CHECK(f != 0 && rc.max_frag_len == f, "max_frag_len is the largest standard length that fits both buffers");
	CHECK(rc.log_max_frag_len <= 14 && ((size_t)1 << rc.log_max_frag_len) == f, "log_max_frag_len matches");
	CHECK(rc.max_frag_len != 8192, "8192 is never chosen");
	/* a reset (NULL buffer) keeps buffers and fragment lengths as they are */
	if (fresh) CHECK(rc.peer_log_max_frag_len == 0, "no peer fragment length yet");
	CHECK(rc.incrypt == 0 && rc.out.vtable == &br_sslrec_out_clear_vtable, "no encryption in either direction");
	CHECK(rc.version_in == 0 && rc.version_out == 0 && rc.record_type_in == 0 && rc.record_type_out == 0, "record versions/types reset");
	CHECK(rc.ixa == 0 && rc.ixb == 0 && rc.ixc == 5, "input registers: waiting for a 5-byte header");
	CHECK(rc.oxa == 5 && rc.oxc == 5 && rc.oxb >= rc.oxa, "output registers: plaintext starts after the header");
	CHECK(rc.oxb - rc.oxa <= f && rc.oxb - rc.oxa <= 16384 && rc.oxb <= olen, "clear-text plaintext area within max_frag_len and the buffer");
	CHECK(rc.oxb - rc.oxa == f, "a full max_frag_len fragment can be sent");
	if (ilen >= BR_SSL_BUFSIZE_INPUT && olen >= BR_SSL_BUFSIZE_OUTPUT)
		CHECK(f == 16384, "optimal sizes (and anything larger) give 16384");
}

int main(void)
{
	br_ssl_engine_context store;
#ifdef NATIVE_REPLAY
	NATIVE_FILL(&store, sizeof store);
#endif
	rcp = &store;
	scramble();
#if PART == 0
	size_t ilen = ND_SIZE(), olen = ND_SIZE();
	int kind = ND_U8();
	ASSUME(kind <= 2);
	rc.ibuf = NULL;
	if (kind == 0) {
		/* two buffers */
		br_ssl_engine_set_buffers_bidi(&rc, ib, ilen, ob, olen);
		if (ilen < 512 + IN_OVH || olen < 512 + OUT_OVH) {
			check_failed();
			WITNESS_POINT("split: too small");
		} else {
			check_ready(ib, ilen, ob, olen, 1);
			WITNESS_POINT("split: accepted");
		}
	} else if (kind == 1) {
		/* obuf == NULL: one shared buffer */
		br_ssl_engine_set_buffers_bidi(&rc, ib, ilen, NULL, olen);
		if (ilen < 512 + IN_OVH) {
			check_failed();
			WITNESS_POINT("shared: too small");
		} else {
			check_ready(ib, ilen, ib, ilen, 1);
			WITNESS_POINT("shared: accepted");
		}
	} else {
		/* ibuf == NULL: never configured -> error; configured -> reset, buffers kept */
		br_ssl_engine_set_buffers_bidi(&rc, NULL, ilen, ob, olen);
		check_failed();
		WITNESS_POINT("no buffer at all");
		size_t i2 = ND_SIZE(), o2 = ND_SIZE();
		ASSUME(i2 >= 512 + IN_OVH && o2 >= 512 + OUT_OVH);
		br_ssl_engine_set_buffers_bidi(&rc, ib, i2, ob, o2);
		check_ready(ib, i2, ob, o2, 1);
		scramble();
		br_ssl_engine_set_buffers_bidi(&rc, NULL, ilen, NULL, olen);
		check_ready(ib, i2, ob, o2, 0);
		WITNESS_POINT("reset with the buffers already set");
	}
#elif PART == 3
	size_t ilen = ND_SIZE(), olen = ND_SIZE();
	ASSUME(ilen >= 512 + IN_OVH && olen >= 512 + OUT_OVH);
	rc.ibuf = NULL;
	br_ssl_engine_set_buffers_bidi(&rc, ib, ilen, ob, olen);
	check_ready(ib, ilen, ob, olen, 1);
	/* first connection: the client asked for 2^k (ssl_hs_server.t0 read-client-frag) */
	unsigned k = ND_U8();
	ASSUME(k >= 9 && k <= 12 && k < rc.log_max_frag_len);
	br_ssl_engine_new_max_frag_len(&rc, 1u << k);
	rc.log_max_frag_len = (unsigned char)k;
	rc.peer_log_max_frag_len = (unsigned char)k;
	/* connection over; the context is reset for the next one */
	br_ssl_engine_set_buffer(&rc, NULL, 0, 0);
	CHECK(rc.err == BR_ERR_OK && rc.ibuf == ib && rc.obuf == ob && rc.ibuf_len == ilen && rc.obuf_len == olen, "reset keeps the buffers");
	CHECK(rc.peer_log_max_frag_len == 0, "reset forgets the previous peer's fragment length request");
	CHECK(rc.max_frag_len == spec_mfl(ilen, olen) && ((size_t)1 << rc.log_max_frag_len) == spec_mfl(ilen, olen), "reset restores the buffer-derived fragment length");
	WITNESS_POINT("reset after a negotiated fragment length");
#else
	size_t len = ND_SIZE();
	int bidi = ND_INT();
#if PART == 2
	ASSUME(bidi != 0);
#endif
	if (bidi != 0) ASSUME(len <= BIGN);
	rc.ibuf = NULL;
	br_ssl_engine_set_buffer(&rc, BIG, len, bidi);
#if PART == 1
	if (bidi == 0) {
		if (len < 512 + IN_OVH) {
			check_failed();
			WITNESS_POINT("half-duplex: too small");
		} else {
			check_ready(BIG, len, BIG, len, 1);
			if (len >= BR_SSL_BUFSIZE_MONO) CHECK(rc.max_frag_len == 16384, "BR_SSL_BUFSIZE_MONO is optimal");
			WITNESS_POINT("half-duplex: accepted");
		}
	} else {
		if (len < 512 + IN_OVH + 512 + OUT_OVH) {
			check_failed();
			WITNESS_POINT("full-duplex: too small");
		} else {
			/* "the split will favour the incoming part": the output part gets the
			 * minimum until the input part has its optimal size */
			size_t want_i = len - (512 + OUT_OVH);
			if (want_i > BR_SSL_BUFSIZE_INPUT) want_i = BR_SSL_BUFSIZE_INPUT;
			CHECK(rc.ibuf == BIG, "input part starts at the caller's buffer");
			CHECK(rc.ibuf_len == want_i && rc.obuf_len == len - want_i, "full-duplex split favours the incoming part");
			check_ready(rc.ibuf, want_i, rc.obuf, len - want_i, 1);
			if (len >= BR_SSL_BUFSIZE_BIDI) CHECK(rc.max_frag_len == 16384, "BR_SSL_BUFSIZE_BIDI is optimal");
			WITNESS_POINT("full-duplex: accepted");
		}
	}
	/* buf == NULL behaves like set_buffers_bidi(NULL...) */
	{
		unsigned char *pi = rc.ibuf, *po = rc.obuf;
		size_t li = rc.ibuf_len, lo = rc.obuf_len;
		int was_ok = rc.iomode != BR_IO_FAILED;
		scramble();
		br_ssl_engine_set_buffer(&rc, NULL, len, bidi);
		if (was_ok) { check_ready(pi, li, po, lo, 0); WITNESS_POINT("set_buffer(NULL) resets"); }
	}
#else
	if (rc.iomode != BR_IO_FAILED) {
		size_t io = (size_t)(rc.ibuf - BIG), oo = (size_t)(rc.obuf - BIG);
		CHECK(rc.ibuf_len <= len && io <= len - rc.ibuf_len, "input part lies inside the caller's buffer");
		CHECK(rc.obuf_len <= len && oo <= len - rc.obuf_len, "output part lies inside the caller's buffer");
		CHECK(io + rc.ibuf_len <= oo || oo + rc.obuf_len <= io, "input and output parts do not overlap");
		WITNESS_POINT("full-duplex geometry");
	}
#endif
#endif
	return 0;
}
