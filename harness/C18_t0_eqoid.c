/*
 * C18 / C04 (T0 part, main session): the native `eqOID ( addrOID -- bool )` of
 * the key and certificate decoders (skey, pkey, x509dec, x509min), extracted by
 * encoders/t0tool.py.  It compares the OID just read into the pad (pad[0] =
 * length, then the value bytes) with an OID constant of the data block.
 * Claim: true (-1) exactly when the length AND every value byte are equal -
 * e.g. secp384r1 / secp521r1 differ only in their last byte.
 * The data-block offset is symbolic (every constant of the data block), the pad
 * bytes are symbolic.
 */
#define T0N_PRE_INCLUDE "C05_t0f.h"
#if defined(C05_KEY_skey)
#include "t0n_skey.c"
#include "t0n_skey_ops.h"
#elif defined(C05_KEY_pkey)
#include "t0n_pkey.c"
#include "t0n_pkey_ops.h"
#elif defined(C05_KEY_x509dec)
#include "t0n_x509dec.c"
#include "t0n_x509dec_ops.h"
#else
#include "t0n_x509min.c"
#include "t0n_x509min_ops.h"
#endif

#define MAXOID 12

int
main(void)
{
	T0N_CTXT cc;
	T0N_CTXT *c = &cc;
	uint32_t off, d0;
	int i, eq;
#ifdef NATIVE_REPLAY
	NATIVE_FILL(c, sizeof *c);
#endif
	off = ND_U32();
	ASSUME(off < sizeof t0_datablock - MAXOID - 1);
	for (i = 0; i <= MAXOID; i ++) c->pad[i] = ND_U8();
	ASSUME(c->pad[0] <= MAXOID);
	ASSUME(t0_datablock[off] <= MAXOID);
	eq = (c->pad[0] == t0_datablock[off]);
	for (i = 1; i <= MAXOID; i ++) if (i <= c->pad[0] && c->pad[i] != t0_datablock[off + i]) eq = 0;
	T0F_DEPTH_AT(5);
	d0 = t0n_dpi;
	T0F_PUSH(c, off);
	t0n_co = 0;
	C05_DISPATCH(c, C05_OP_eqOID);
	CHECK(t0n_dpi == d0 + 1 && t0n_co == 0, "eqOID pops one operand, pushes one result and does not yield");
	CHECK(T0F_TOP(c, 0) == (eq ? 0xFFFFFFFFu : 0u), "eqOID is true exactly when the length and ALL value bytes are equal");
	if (eq) { WITNESS_POINT("equal"); } else { WITNESS_POINT("different"); }
	return 0;
}
