/*
 * C10.4: br_rsa_ssl_decrypt (real src/rsa/rsa_ssl_decrypt.c) with the RSA
 * private-key engine behind its br_rsa_private function-pointer seam replaced
 * by a stub that delivers an arbitrary (symbolic) decrypted block and an
 * arbitrary status.
 *
 * Contract (bearssl_rsa.h + RFC 5246 7.4.7.1 / RFC 8017 7.2.2):
 *   - len < 59 or len != modulus length: returns 0, buffer unmodified, engine
 *     not called;
 *   - else returns 1 <=> engine status is 1 and the decrypted block is
 *     00 02 PS 00 M with |M| == 48 and PS = len-51 (>= 8) non-zero bytes;
 *     the 48 bytes M end up at the start of the buffer.
 * C10_LEN = data length, C10_NBITS = modulus bit length; concrete per query.
 */
#include "common.h"
#include "inner.h"

#ifndef C10_LEN
#define C10_LEN 64
#endif
#ifndef C10_NBITS
#define C10_NBITS (8 * C10_LEN)
#endif
#define GATE_OK (C10_LEN >= 59 && C10_LEN == (C10_NBITS + 7) / 8)

static unsigned char core_block[C10_LEN + 1];
static uint32_t core_status;
static int core_calls;
static const br_rsa_private_key *core_sk;
static unsigned char *core_x;

static uint32_t
stub_core(unsigned char *x, const br_rsa_private_key *sk)
{
	int i;
	core_calls++;
	core_sk = sk;
	core_x = x;
	/* an engine writes exactly ceil(n_bitlen/8) bytes */
	for (i = 0; i < (C10_NBITS + 7) / 8 && i < C10_LEN; i++) x[i] = core_block[i];
	return core_status;
}

int main(void)
{
	unsigned char data[C10_LEN + 1], data0[C10_LEN + 1];
	br_rsa_private_key sk;
	int i;

	for (i = 0; i < C10_LEN + 1; i++) data[i] = data0[i] = ND_U8();
	ND_BYTES(core_block, C10_LEN);
	core_status = ND_U32();
	ASSUME(core_status <= 1);
	sk.n_bitlen = C10_NBITS;
	sk.p = sk.q = sk.dp = sk.dq = sk.iq = 0;
	sk.plen = sk.qlen = sk.dplen = sk.dqlen = sk.iqlen = 0;

	uint32_t r = br_rsa_ssl_decrypt(&stub_core, &sk, data, C10_LEN);

	CHECK(data[C10_LEN] == data0[C10_LEN], "ssl_decrypt writes nothing past len");
#if !GATE_OK
	CHECK(r == 0, "ssl_decrypt returns 0 when len < 59 or len != modulus length");
	CHECK(core_calls == 0, "engine not called when the length is wrong");
	for (i = 0; i < C10_LEN; i++) CHECK(data[i] == data0[i], "buffer unmodified when the length is wrong");
	WITNESS_POINT("wrong length refused");
#else
	int ok = 1;
	CHECK(core_calls == 1 && core_sk == &sk && core_x == data, "engine called once on the buffer with the key");
	if (core_block[0] != 0x00) ok = 0;
	if (core_block[1] != 0x02) ok = 0;
	for (i = 2; i < C10_LEN - 49; i++) if (core_block[i] == 0x00) ok = 0;
	if (core_block[C10_LEN - 49] != 0x00) ok = 0;
	CHECK(r == 0 || r == 1, "ssl_decrypt returns 0 or 1");
	CHECK((r == 1) == (ok && core_status == 1), "ssl_decrypt succeeds iff engine succeeded and block is 00 02 PS(nonzero, len-51 bytes) 00 || 48 bytes");
	if (r) {
		for (i = 0; i < 48; i++) CHECK(data[i] == core_block[C10_LEN - 48 + i], "pre-master secret moved to the start of the buffer");
		WITNESS_POINT("some block accepted");
	} else {
		WITNESS_POINT("some block rejected");
	}
#endif
	return 0;
}
