/*
 * C12 AES components (real aes_common.c, aes_ct.c, aes_ct64.c, aes_big_dec.c).
 * WHAT 0: br_aes_S == FIPS-197 S-box definition (GF(2^8) inverse + affine
 *                    map), all 256 entries; the table is a permutation.
 * WHAT 1: aes_ct   - br_aes_ct_ortho == the 8x8 bit transposition of the
 *                    documented layout, involutive on every state;
 *                    br_aes_ct_bitslice_Sbox == table S-box in all 32 lanes
 *                    (32 symbolic bytes); invSbox o Sbox == Sbox o invSbox == id
 *                    in every lane.
 * WHAT 2: aes_ct64 - same with 64 lanes, plus interleave_in / interleave_out
 *                    mutually inverse.
 * WHAT 3: key schedules, KLEN-byte symbolic key: br_aes_keysched,
 *                    br_aes_big_keysched_inv, br_aes_ct_keysched + skey_expand,
 *                    br_aes_ct64_keysched + skey_expand == FIPS-197 5.2
 *                    KeyExpansion in each implementation's documented format
 *                    (KS 1..4 selects the implementation).
 */
#include "C12_aesref.h"

#ifndef WHAT
#error WHAT
#endif

#if WHAT == 0
int main(void)
{
	ref_check_table();
	ref_init();
	for (unsigned x = 0; x < 256; x++) CHECK(br_aes_S[ref_iS[x]] == x, "br_aes_S is a permutation");
	(void)ND_U8();
	WITNESS_POINT("S-box table");
	return 0;
}
#elif WHAT == 1
int main(void)
{

	/* ortho == definitional transposition; involution */
	uint32_t q[8], t[8];
	for (int i = 0; i < 8; i++) t[i] = q[i] = ND_U32();
	br_aes_ct_ortho(t);
	int tr = 1;
	for (int i = 0; i < 8; i++)
		for (int b = 0; b < 4; b++)
			for (int k = 0; k < 8; k++)
				if (((t[i] >> (8 * b + k)) & 1) != ((q[k] >> (8 * b + i)) & 1)) tr = 0;
	CHECK(tr, "br_aes_ct_ortho: bit 8b+k of word i <-> bit 8b+i of word k");
	br_aes_ct_ortho(t);
	for (int i = 0; i < 8; i++) CHECK(t[i] == q[i], "br_aes_ct_ortho is an involution");

	/* the way every mode file loads two blocks, then ortho == documented layout */
	unsigned char blk[2][16], out[2][16];
	uint32_t p[8];
	for (int l = 0; l < 2; l++) ND_BYTES(blk[l], 16);
	for (int c = 0; c < 4; c++) for (int l = 0; l < 2; l++) t[2 * c + l] = le32(blk[l] + 4 * c);
	br_aes_ct_ortho(t);
	pack_ct(p, blk);
	for (int i = 0; i < 8; i++) CHECK(t[i] == p[i], "little-endian interleaved load + ortho == documented bitslice layout");

	/* S-box circuit == table, every lane */
	br_aes_ct_bitslice_Sbox(t);
	unpack_ct(out, t);
	for (int l = 0; l < 2; l++) for (int j = 0; j < 16; j++)
		CHECK(out[l][j] == br_aes_S[blk[l][j]], "br_aes_ct_bitslice_Sbox == S-box table in every lane");

	/* inverse circuit, lane by lane */
	br_aes_ct_bitslice_invSbox(t);
	unpack_ct(out, t);
	for (int l = 0; l < 2; l++) for (int j = 0; j < 16; j++)
		CHECK(out[l][j] == blk[l][j], "invSbox(Sbox(x)) == x in every lane");
	br_aes_ct_bitslice_invSbox(t);
	br_aes_ct_bitslice_Sbox(t);
	unpack_ct(out, t);
	for (int l = 0; l < 2; l++) for (int j = 0; j < 16; j++)
		CHECK(out[l][j] == blk[l][j], "Sbox(invSbox(x)) == x in every lane");
	WITNESS_POINT("aes_ct components");
	return 0;
}
#elif WHAT == 2
int main(void)
{

	uint64_t q[8], t[8];
	for (int i = 0; i < 8; i++) t[i] = q[i] = ND_U64();
	br_aes_ct64_ortho(t);
	int tr = 1;
	for (int i = 0; i < 8; i++)
		for (int b = 0; b < 8; b++)
			for (int k = 0; k < 8; k++)
				if (((t[i] >> (8 * b + k)) & 1) != ((q[k] >> (8 * b + i)) & 1)) tr = 0;
	CHECK(tr, "br_aes_ct64_ortho: bit 8b+k of word i <-> bit 8b+i of word k");
	br_aes_ct64_ortho(t);
	for (int i = 0; i < 8; i++) CHECK(t[i] == q[i], "br_aes_ct64_ortho is an involution");

	/* interleave_in / interleave_out */
	{
		uint32_t w[4], w2[4];
		uint64_t a, b, a2, b2;
		for (int i = 0; i < 4; i++) w[i] = ND_U32();
		br_aes_ct64_interleave_in(&a, &b, w);
		br_aes_ct64_interleave_out(w2, a, b);
		for (int i = 0; i < 4; i++) CHECK(w2[i] == w[i], "interleave_out(interleave_in(w)) == w");
		a = ND_U64(); b = ND_U64();
		br_aes_ct64_interleave_out(w2, a, b);
		br_aes_ct64_interleave_in(&a2, &b2, w2);
		CHECK(a2 == a && b2 == b, "interleave_in(interleave_out(q0,q1)) == (q0,q1)");
	}

	unsigned char blk[4][16], out[4][16];
	uint64_t p[8];
	for (int l = 0; l < 4; l++) ND_BYTES(blk[l], 16);
	for (int l = 0; l < 4; l++) {
		uint32_t w[4];
		for (int c = 0; c < 4; c++) w[c] = le32(blk[l] + 4 * c);
		br_aes_ct64_interleave_in(&t[l], &t[l + 4], w);
	}
	br_aes_ct64_ortho(t);
	pack_ct64(p, blk);
	for (int i = 0; i < 8; i++) CHECK(t[i] == p[i], "little-endian load + interleave_in + ortho == documented bitslice layout");

	br_aes_ct64_bitslice_Sbox(t);
	unpack_ct64(out, t);
	for (int l = 0; l < 4; l++) for (int j = 0; j < 16; j++)
		CHECK(out[l][j] == br_aes_S[blk[l][j]], "br_aes_ct64_bitslice_Sbox == S-box table in every lane");

	br_aes_ct64_bitslice_invSbox(t);
	unpack_ct64(out, t);
	for (int l = 0; l < 4; l++) for (int j = 0; j < 16; j++)
		CHECK(out[l][j] == blk[l][j], "invSbox(Sbox(x)) == x in every lane");
	br_aes_ct64_bitslice_invSbox(t);
	br_aes_ct64_bitslice_Sbox(t);
	unpack_ct64(out, t);
	for (int l = 0; l < 4; l++) for (int j = 0; j < 16; j++)
		CHECK(out[l][j] == blk[l][j], "Sbox(invSbox(x)) == x in every lane");
	WITNESS_POINT("aes_ct64 components");
	return 0;
}
#elif WHAT == 3
#if KS == 2
#include "src/symcipher/aes_big_dec.c"
#endif
#define NK (KLEN / 4)
#define NR (NK + 6)
/*
 * FIPS-197 5.2 as a recurrence on the implementation's OWN output (the
 * expansion is the unique sequence with w[0..Nk-1] = key and
 * w[i] = w[i-Nk] ^ g_i(w[i-1])): every step is decided on the values the
 * implementation produced, so no long chain of S-box applications has to be
 * matched against a second chain.
 */
static void
check_expansion(const unsigned char *rk, const unsigned char *key)
{
	unsigned char rcon = 1;
	for (int i = 0; i < 4 * NK; i++) CHECK(rk[i] == key[i], "w[0..Nk-1] is the key");
	for (int i = NK; i < 4 * (NR + 1); i++) {
		unsigned char t[4];
		for (int j = 0; j < 4; j++) t[j] = rk[4 * (i - 1) + j];
		if (i % NK == 0) {
			unsigned char t0 = t[0];
			t[0] = REF_S(t[1]) ^ rcon; t[1] = REF_S(t[2]); t[2] = REF_S(t[3]); t[3] = REF_S(t0);
			rcon = ref_xt(rcon);
		} else if (NK > 6 && i % NK == 4) {
			for (int j = 0; j < 4; j++) t[j] = REF_S(t[j]);
		}
		for (int j = 0; j < 4; j++)
			CHECK(rk[4 * i + j] == (unsigned char)(rk[4 * (i - NK) + j] ^ t[j]), "w[i] == w[i-Nk] ^ g_i(w[i-1])  (SubWord/RotWord/Rcon per FIPS-197 5.2)");
	}
}

static void
words_to_bytes(unsigned char *rk, const uint32_t *sk, int n)
{
	for (int i = 0; i < n; i++) {
		rk[4 * i] = (unsigned char)(sk[i] >> 24); rk[4 * i + 1] = (unsigned char)(sk[i] >> 16);
		rk[4 * i + 2] = (unsigned char)(sk[i] >> 8); rk[4 * i + 3] = (unsigned char)sk[i];
	}
}

int main(void)
{
	unsigned char key[KLEN], rk[16 * (NR + 1)];
	ND_BYTES(key, KLEN);
#if KS == 1
	{	/* aes_small / aes_big encryption schedule: big-endian words */
		uint32_t sk[60];
		for (int i = 0; i < 60; i++) sk[i] = 0xDEADBEEF;
		unsigned nr = br_aes_keysched(sk, key, KLEN);
		CHECK(nr == NR, "br_aes_keysched returns the FIPS-197 round count");
		for (int i = 4 * (NR + 1); i < 60; i++) CHECK(sk[i] == 0xDEADBEEF, "br_aes_keysched writes 4*(Nr+1) words only");
		words_to_bytes(rk, sk, 4 * (NR + 1));
	}
#elif KS == 2
	{	/* aes_big decryption schedule: the encryption schedule (decided by
		   KS 1 to be FIPS-197 KeyExpansion) with InvMixColumns applied to the
		   inner round keys (FIPS-197 5.3.5 / 5.3.3: rows of the circulant
		   matrix {0e,0b,0d,09}).  The GF(2^8) constant multipliers are the
		   file's own mule/mulb/muld/mul9, decided == multiplication by
		   14/11/13/9 for all 256 inputs in query aes-big-tables-dec; a
		   word-level back end is used so that the schedule computed inside
		   br_aes_big_keysched_inv and the one computed here are the same terms. */
		uint32_t sk[60], se[60];
		unsigned nr = br_aes_big_keysched_inv(sk, key, KLEN);
		CHECK(nr == NR, "br_aes_big_keysched_inv returns the round count");
		br_aes_keysched(se, key, KLEN);
		for (int i = 0; i < 4 * (NR + 1); i++) {
			uint32_t e = se[i];
			if (i >= 4 && i < 4 * NR) {
				unsigned a0 = e >> 24, a1 = (e >> 16) & 0xFF, a2 = (e >> 8) & 0xFF, a3 = e & 0xFF;
				unsigned b0 = mule(a0) ^ mulb(a1) ^ muld(a2) ^ mul9(a3);
				unsigned b1 = mul9(a0) ^ mule(a1) ^ mulb(a2) ^ muld(a3);
				unsigned b2 = muld(a0) ^ mul9(a1) ^ mule(a2) ^ mulb(a3);
				unsigned b3 = mulb(a0) ^ muld(a1) ^ mul9(a2) ^ mule(a3);
				e = (uint32_t)b0 << 24 | (uint32_t)b1 << 16 | (uint32_t)b2 << 8 | b3;
			}
			CHECK(sk[i] == e, "br_aes_big_keysched_inv == br_aes_keysched with InvMixColumns on the inner round keys only");
		}
		(void)rk;
		WITNESS_POINT("decryption key schedule");
		return 0;
	}
#elif KS == 3
	{	/* aes_ct: expanded keys hold the round key in both lanes.  Decoded
		   with the real br_aes_ct_ortho, which query aes-ct-components
		   decides to be the (involutive) documented layout map. */
		uint32_t comp[60], sk[120];
		unsigned nr = br_aes_ct_keysched(comp, key, KLEN);
		CHECK(nr == NR, "br_aes_ct_keysched returns the round count");
		br_aes_ct_skey_expand(sk, nr, comp);
		for (int r = 0; r <= NR; r++) {
			uint32_t t[8];
			for (int i = 0; i < 8; i++) t[i] = sk[8 * r + i];
			br_aes_ct_ortho(t);
			for (int c = 0; c < 4; c++) {
				CHECK(t[2 * c + 1] == t[2 * c], "expanded aes_ct round key is the same in both lanes");
				for (int j = 0; j < 4; j++) rk[16 * r + 4 * c + j] = (unsigned char)(t[2 * c] >> (8 * j));
			}
		}
	}
#elif KS == 4
	{	/* aes_ct64: compressed keys expanded by the bitwise definition of the
		   expansion (KS 5 decides br_aes_ct64_skey_expand == that definition),
		   decoded with the real ortho / interleave_out (aes-ct64-components) */
		uint64_t comp[30];
		unsigned nr = br_aes_ct64_keysched(comp, key, KLEN);
		CHECK(nr == NR, "br_aes_ct64_keysched returns the round count");
		for (int r = 0; r <= NR; r++) {
			uint64_t t[8];
			for (int u = 0; u < 2; u++)
				for (int j = 0; j < 4; j++) {
					uint64_t w = (comp[2 * r + u] >> j) & (uint64_t)0x1111111111111111;
					t[4 * u + j] = w | (w << 1) | (w << 2) | (w << 3);
				}
			br_aes_ct64_ortho(t);
			uint32_t w0[4];
			br_aes_ct64_interleave_out(w0, t[0], t[4]);
			for (int l = 1; l < 4; l++) {
				uint32_t w[4];
				br_aes_ct64_interleave_out(w, t[l], t[l + 4]);
				for (int c = 0; c < 4; c++) CHECK(w[c] == w0[c], "expanded aes_ct64 round key is the same in all four lanes");
			}
			for (int c = 0; c < 4; c++)
				for (int j = 0; j < 4; j++) rk[16 * r + 4 * c + j] = (unsigned char)(w0[c] >> (8 * j));
		}
	}
#elif KS == 5
	{	/* br_aes_ct64_skey_expand == "bit 4k+j of the compressed word
		   replicated over nibble k of word j", every compressed key */
		uint64_t comp[30], sk[120];
		for (int i = 0; i < 2 * (NR + 1); i++) comp[i] = ND_U64();
		br_aes_ct64_skey_expand(sk, NR, comp);
		for (int u = 0; u < 2 * (NR + 1); u++)
			for (int j = 0; j < 4; j++) {
				uint64_t w = (comp[u] >> j) & (uint64_t)0x1111111111111111;
				CHECK(sk[4 * u + j] == (w | (w << 1) | (w << 2) | (w << 3)), "br_aes_ct64_skey_expand == nibble replication");
			}
		(void)key; (void)rk;
		WITNESS_POINT("skey_expand");
		return 0;
	}
#endif
#if KS != 5 && KS != 2
	check_expansion(rk, key);
	WITNESS_POINT("key schedule");
	return 0;
#endif
}
#elif WHAT == 4
/* aes_big_dec.c GF(2^8) helpers used by br_aes_big_keysched_inv */
#include "src/symcipher/aes_big_dec.c"
int main(void)
{
	unsigned x = ND_U8();
	CHECK(mul2(x) == ref_gmul(x, 2), "mul2");
	CHECK(mul9(x) == ref_gmul(x, 9), "mul9");
	CHECK(mulb(x) == ref_gmul(x, 11), "mulb");
	CHECK(muld(x) == ref_gmul(x, 13), "muld");
	CHECK(mule(x) == ref_gmul(x, 14), "mule");
	ref_init();
	CHECK(iS[x] == ref_iS[x], "aes_big_dec.c iS == inverse of br_aes_S");
	CHECK(br_aes_S[iS[x]] == x, "S[iS[x]] == x");
	/* iSsm0[x] = InvMixColumns column of iS[x]: bytes {0e,09,0d,0b}.iS[x] */
	unsigned v = iS[x];
	CHECK(iSsm0[x] == (ref_gmul(v, 14) << 24 | ref_gmul(v, 9) << 16 | ref_gmul(v, 13) << 8 | ref_gmul(v, 11)), "iSsm0 == InvMixColumns column of iS");
	WITNESS_POINT("aes_big_dec tables");
	return 0;
}
#elif WHAT == 5
/* aes_big_enc.c round table */
#include "src/symcipher/aes_big_enc.c"
int main(void)
{
	unsigned x = ND_U8();
	unsigned v = br_aes_S[x];
	CHECK(Ssm0[x] == (ref_gmul(v, 2) << 24 | v << 16 | v << 8 | ref_gmul(v, 3)), "Ssm0 == MixColumns column {02,01,01,03}.S[x]");
	WITNESS_POINT("aes_big_enc table");
	return 0;
}
#endif
