/*
 * C12 splitting law: for one mode implementation, processing LEN bytes in
 * one call gives the same bytes and the same chaining state (CBC IV, CTR
 * counter, 128-bit CTR counter, CBC-MAC value, ChaCha20 block counter) as
 * processing S bytes and then LEN-S bytes with the state carried, for every
 * admissible split point S (multiples of the block size, 0 and LEN included
 * when admissible).  Key, IV/nonce, counter, MAC state and data symbolic.
 * The key schedule is the real one (init called once; the context is const
 * for every run call, so both sides share it).
 *
 * Parameters (set by checks/C12.py):
 *   MODE 1 CBC enc/dec        RUN(ctx, iv, data, len)
 *        2 CTR                cc' = RUN(ctx, iv, cc, data, len)
 *        3 CTR+CBC-MAC enc/dec RUN(ctx, ctr, cbcmac, data, len)
 *        4 CTR (128-bit ctr)  RUN(ctx, ctr, data, len)
 *        5 CBC-MAC            RUN(ctx, cbcmac, data, len)   data untouched
 *        6 ChaCha20           cc' = RUN(key, iv, cc, data, len)
 *   KEYS_T, INIT, RUN, KLEN, BS (split granularity), LEN (total bytes),
 *   ONLY_S (optional: a single split point instead of all).
 */
#include "common.h"
#include "inner.h"

#ifndef MODE
#error MODE
#endif

#define IVL 16

static void
run_one(const void *ctx, unsigned char *iv, unsigned char *mac, uint32_t *cc,
	unsigned char *d, size_t len)
{
#if MODE == 1
	RUN(ctx, iv, d, len);
#elif MODE == 2
	*cc = RUN(ctx, iv, *cc, d, len);
#elif MODE == 3
	RUN(ctx, iv, mac, d, len);
#elif MODE == 4
	RUN(ctx, iv, d, len);
#elif MODE == 5
	RUN(ctx, mac, d, len);
#elif MODE == 6
	*cc = RUN(ctx, iv, *cc, d, len);
#endif
	(void)iv; (void)mac; (void)cc;
}

int main(void)
{
	unsigned char key[KLEN], iv0[IVL], mac0[IVL], d0[LEN + 1];
	uint32_t cc0;
	unsigned char ivA[IVL], macA[IVL], dA[LEN + 1];
	uint32_t ccA;
#if MODE == 6
	const void *ctx = key;
#else
	KEYS_T kctx;
	const void *ctx = &kctx;
#endif

	ND_BYTES(key, KLEN);
	ND_BYTES(iv0, IVL);
	ND_BYTES(mac0, IVL);
	cc0 = ND_U32();
	ND_BYTES(d0, LEN);
	d0[LEN] = 0x5A;		/* guard byte: nothing past LEN is written */
#if MODE != 6
	INIT(&kctx, key, KLEN);
#endif

	/* whole */
	for (int i = 0; i < IVL; i++) { ivA[i] = iv0[i]; macA[i] = mac0[i]; }
	for (int i = 0; i <= LEN; i++) dA[i] = d0[i];
	ccA = cc0;
	run_one(ctx, ivA, macA, &ccA, dA, LEN);
	CHECK(dA[LEN] == 0x5A, "no write past the end of the data");
#if MODE == 5
	for (int i = 0; i < LEN; i++) CHECK(dA[i] == d0[i], "CBC-MAC leaves the data untouched");
#endif

	/* split */
	for (size_t s = 0; s <= LEN; s += BS) {
#ifdef ONLY_S
		if (s != ONLY_S) continue;
#endif
#if MODE != 2 && MODE != 6
		if ((LEN - s) % BS != 0) continue;
#endif
		unsigned char ivB[IVL], macB[IVL], dB[LEN + 1];
		uint32_t ccB = cc0;
		for (int i = 0; i < IVL; i++) { ivB[i] = iv0[i]; macB[i] = mac0[i]; }
		for (int i = 0; i <= LEN; i++) dB[i] = d0[i];
		run_one(ctx, ivB, macB, &ccB, dB, s);
		for (size_t i = s; i <= LEN; i++) CHECK(dB[i] == d0[i], "first call does not touch data beyond its length");
		run_one(ctx, ivB, macB, &ccB, dB + s, LEN - s);
		for (int i = 0; i <= LEN; i++) CHECK(dB[i] == dA[i], "split run yields the same bytes as the single run");
		for (int i = 0; i < IVL; i++) CHECK(ivB[i] == ivA[i], "split run leaves the same IV / counter block as the single run");
		for (int i = 0; i < IVL; i++) CHECK(macB[i] == macA[i], "split run leaves the same CBC-MAC value as the single run");
		CHECK(ccB == ccA, "split run returns the same counter as the single run");
	}
#if MODE == 2 || MODE == 6
	if (cc0 > 0xFFFFFFFFu - (LEN / BS)) { WITNESS_POINT("32-bit counter wraps inside the message"); }
#endif
	WITNESS_POINT("all splits compared");
	return 0;
}
