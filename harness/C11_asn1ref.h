/*
 * C11: reference reader for ECDSA-Sig-Value ::= SEQUENCE { r INTEGER, s INTEGER }
 * written from X.690 plus the leniency DOCUMENTED in src/ec/ecdsa_atr.c
 * ("accepts a few deviations to DER with regards to minimality of encoding
 * of lengths and integer values"; SEQUENCE contents limited to 255 bytes,
 * i.e. length forms 0xxxxxxx and 0x81 nn only; INTEGERs shorter than 128
 * bytes).  Written for the solver: the total length n is concrete, every
 * in-band length is concretised by a guarded enumeration, so every index
 * below is a constant.
 *
 * Result: ok, and (concrete in each enumerated branch, merged afterwards)
 * offsets/lengths of the two INTEGER contents, plus flags telling whether a
 * deviation OUTSIDE the documented leniency was seen.
 */
#ifndef C11_ASN1REF_H
#define C11_ASN1REF_H

typedef struct {
	int ok;            /* SEQUENCE{INTEGER,INTEGER}, lengths consistent */
	size_t roff, rlen; /* contents of r */
	size_t soff, slen; /* contents of s */
	int negative;      /* some INTEGER has its sign bit set (X.690: negative) */
	int empty;         /* some INTEGER has zero content bytes (not BER at all) */
	int nonminimal;    /* length not minimal or redundant leading 0x00 (documented leniency) */
} c11_sigref;

/* n must be a compile-time constant at every call site (it is: -DL=..) */
static inline void
c11_ref_parse(c11_sigref *o, const unsigned char *b, size_t n,
	unsigned char *rv, unsigned char *sv, size_t W)
{
	/* rv/sv (W >= n bytes each): unsigned values of r and s, big-endian,
	   right-aligned; written inside the enumerated branch, where every
	   offset is a constant */
	for (size_t j = 0; j < W; j++) {
		rv[j] = 0;
		sv[j] = 0;
	}
	o->ok = 0;
	o->roff = o->rlen = o->soff = o->slen = 0;
	o->negative = o->empty = o->nonminimal = 0;
	if (n < 2 || b[0] != 0x30) {
		return;
	}
	for (size_t hdr = 2; hdr <= 3; hdr++) {
		int hok;
		if (hdr == 2) {
			/* short definite form: 0..127 */
			hok = b[1] < 0x80 && (size_t)b[1] == n - 2;
		} else {
			/* long form, one length byte; 0x80 is the indefinite
			   form (not a length), 0x82.. are beyond the
			   documented 255-byte limit */
			hok = n >= 3 && b[1] == 0x81 && (size_t)b[2] == n - 3;
		}
		if (!hok) {
			continue;
		}
		if (hdr + 2 > n || b[hdr] != 0x02 || b[hdr + 1] >= 0x80) {
			continue;
		}
		for (size_t k = 0; k + hdr + 2 <= n; k++) {
			if ((size_t)b[hdr + 1] != k) {
				continue;
			}
			size_t o2 = hdr + 2 + k;
			if (o2 + 2 > n || b[o2] != 0x02 || b[o2 + 1] >= 0x80) {
				continue;
			}
			if ((size_t)b[o2 + 1] != n - o2 - 2) {
				continue;
			}
			size_t k2 = n - o2 - 2;
			o->ok = 1;
			o->roff = hdr + 2;
			o->rlen = k;
			o->soff = o2 + 2;
			o->slen = k2;
			o->empty = (k == 0) || (k2 == 0);
			o->negative = (k > 0 && b[hdr + 2] >= 0x80)
				|| (k2 > 0 && b[o2 + 2] >= 0x80);
			for (size_t j = 0; j < k; j++) {
				rv[W - 1 - j] = b[hdr + 2 + k - 1 - j];
			}
			for (size_t j = 0; j < k2; j++) {
				sv[W - 1 - j] = b[o2 + 2 + k2 - 1 - j];
			}
			o->nonminimal = (hdr == 3 && b[2] < 0x80)
				|| (k > 1 && b[hdr + 2] == 0 && b[hdr + 3] < 0x80)
				|| (k2 > 1 && b[o2 + 2] == 0 && b[o2 + 3] < 0x80);
		}
	}
}

/* number of significant bytes of a W-byte big-endian value */
static inline size_t
c11_siglen(const unsigned char *v, size_t W)
{
	size_t m = 0;
	for (size_t j = 0; j < W; j++) {
		if (v[W - 1 - j] != 0) {
			m = j + 1;
		}
	}
	return m;
}

#endif
