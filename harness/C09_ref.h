/*
 * C09: shared helpers for the big-integer harnesses.
 *
 * -DW=15|31|32 selects the word variant (br_i15_*, br_i31_*, br_i32_*).
 * Values live in an explicit integer (unsigned __int128); every operand is
 * at most 120 bits so that sums/products of what is compared still fit.
 *
 * Header word of i15/i31 (inner.h 1303-1330): announced bit length k is
 * stored as ((k / W) << HS) + (k % W); the code base also produces and
 * accepts the non-normalised form ((k / W - 1) << HS) + W when k is a
 * non-zero multiple of W (that is what br_iXX_bit_length/decode return).
 * -DALTENC=1 makes the harness use that second form where it exists.
 */
#ifndef C09_REF_H
#define C09_REF_H
#include "common.h"
#include "inner.h"

typedef unsigned __int128 u128;

#ifndef W
#define W 15
#endif

#if W == 15
typedef uint16_t word_t;
#define FN(n) br_i15_##n
#define HS 4
#define ND_WORD() ND_U16()
#define NINV br_i15_ninv15
#elif W == 31
typedef uint32_t word_t;
#define FN(n) br_i31_##n
#define HS 5
#define ND_WORD() ND_U32()
#define NINV br_i31_ninv31
#elif W == 32
typedef uint32_t word_t;
#define FN(n) br_i32_##n
#define HS 5
#define ND_WORD() ND_U32()
#define NINV br_i32_ninv32
#else
#error "W must be 15, 31 or 32"
#endif

#define WMASK ((uint32_t)(((uint64_t)1 << W) - 1))
#define NW(k) (((k) + W - 1) / W)

/* encoded announced bit length */
static inline uint32_t
enc_bl(unsigned k)
{
#if W == 32
	return k;
#else
#ifdef ALTENC
	if (k != 0 && k % W == 0) return ((k / W - 1) << HS) + W;
#endif
	return ((k / W) << HS) + (k % W);
#endif
}

/* decoded announced bit length (accepts both forms) */
static inline unsigned
dec_bl(uint32_t e)
{
#if W == 32
	return e;
#else
	return (e >> HS) * W + (e & ((1u << HS) - 1));
#endif
}

/* value of the n value words x[1..n] */
static inline u128
val(const word_t *x, unsigned n)
{
	u128 v = 0;
	for (unsigned i = n; i >= 1; i--) v = (v << W) | x[i];
	return v;
}

/* all value words are in range (top bit(s) of each slot clear) */
static inline int
words_ok(const word_t *x, unsigned n)
{
	int ok = 1;
	for (unsigned i = 1; i <= n; i++) if ((uint32_t)x[i] > WMASK) ok = 0;
	return ok;
}

/* bit length of v, v < 2^maxbits (maxbits concrete) */
static inline unsigned
bitlen(u128 v, unsigned maxbits)
{
	unsigned bl = 0;
	for (unsigned i = 0; i < maxbits; i++) if ((v >> i) != 0) bl = i + 1;
	return bl;
}

/* big-endian value of n bytes, n <= 16 */
static inline u128
be_val(const unsigned char *b, unsigned n)
{
	u128 v = 0;
	for (unsigned i = 0; i < n; i++) v = (v << 8) | b[i];
	return v;
}

/* does big-endian buf[0..n) hold v mod 2^(8n) ? (n may exceed 16: upper bytes 0) */
static inline int
be_is(const unsigned char *b, unsigned n, u128 v)
{
	int ok = 1;
	for (unsigned j = 0; j < n; j++) {
		unsigned char e = (j < 16) ? (unsigned char)(v >> (8 * j)) : 0;
		if (b[n - 1 - j] != e) ok = 0;
	}
	return ok;
}

/*
 * Build a symbolic integer with announced bit length bl in an array of
 * exactly NW(bl)+1 words: every value < 2^bl.  topset: force the true bit
 * length to be bl (what a modulus must satisfy).  odd: force bit 0.
 * Built by masking, not by assumption (no vacuity risk).
 */
static inline void
mk(word_t *x, unsigned bl, int topset, int odd)
{
	unsigned n = NW(bl);
	x[0] = (word_t)enc_bl(bl);
	for (unsigned i = 1; i <= n; i++) {
		uint32_t w = ND_WORD() & WMASK;
		if (i == n && (bl % W) != 0) w &= ((uint32_t)1 << (bl % W)) - 1;
		if (i == n && topset) w |= (uint32_t)1 << ((bl - 1) % W);
		if (i == 1 && odd) w |= 1;
		x[i] = (word_t)w;
	}
}

#endif
