/*
 * C03 (client side, C natives of ssl_hs_client.c reached by #include):
 * verify_SKE_sig accepts only if the signature verifier behind the engine's
 * seam was run with the validator's key over the hash of
 * client_random || server_random || ServerECDHParams for the hash function
 * named in the message, and succeeded.
 *
 * Seams: br_multihash_* bound at link time to a recording toy multi-hash;
 * x509 validator, irsavrfy, iecdsa = recording contract stubs.
 * -DPL=<n> : server point length (concrete per query); -DSL=<n> signature length.
 */
#include "common.h"
#include "inner.h"

#ifndef PL
#define PL 5
#endif
#ifndef SL
#define SL 6
#endif

/* ---- recording toy multi-hash at the br_multihash_* link seam ---- */
#define MH_MAX 256
static unsigned char mh_data[MH_MAX];
static size_t mh_len;
static int mh_inited, mh_overflow;
static unsigned mh_supported;   /* bit i: hash id i is implemented */
static const unsigned char MH_SIZE[7] = { 0, 16, 20, 28, 32, 48, 64 };

void br_multihash_zero(br_multihash_context *ctx) { (void)ctx; mh_len = 0; mh_inited = 0; }
void br_multihash_init(br_multihash_context *ctx) { (void)ctx; mh_len = 0; mh_inited = 1; }
void br_multihash_update(br_multihash_context *ctx, const void *data, size_t len)
{
	(void)ctx;
	for (size_t i = 0; i < len; i++) {
		if (mh_len < MH_MAX) mh_data[mh_len++] = ((const unsigned char *)data)[i];
		else mh_overflow = 1;
	}
}
static void toy_digest(const unsigned char *d, size_t n, int id, unsigned char *out)
{
	/* every input byte, its position and the hash id influence the output */
	unsigned char acc[8];
	for (int j = 0; j < 8; j++) acc[j] = (unsigned char)(0x5A ^ (id * 37) ^ j);
	for (size_t i = 0; i < n; i++) {
		unsigned char b = d[i];
		unsigned char *a = &acc[i & 7];
		*a = (unsigned char)(((*a << 1) | (*a >> 7)) ^ b ^ (unsigned char)(i * 29));
	}
	for (int j = 0; j < MH_SIZE[id]; j++) out[j] = (unsigned char)(acc[j & 7] ^ (j * 11) ^ (unsigned char)n);
}
size_t br_multihash_out(const br_multihash_context *ctx, int id, void *dst)
{
	(void)ctx;
	if (id < 1 || id > 6 || !((mh_supported >> id) & 1)) return 0;
	toy_digest(mh_data, mh_len, id, dst);
	return MH_SIZE[id];
}

#include "src/ssl/ssl_hs_client.c"

/* ---- validator / verifier stubs ---- */
static br_x509_pkey the_key;
static int getpkey_calls;
typedef struct { const br_x509_class *vtable; } xstub_ctx;
static const br_x509_pkey *xs_get_pkey(const br_x509_class *const *c, unsigned *usages) { (void)c; (void)usages; getpkey_calls++; return &the_key; }
static const br_x509_class xstub_vtable = { sizeof(xstub_ctx), 0, 0, 0, 0, 0, xs_get_pkey };

static int rsa_calls, ec_calls, vrfy_result;
static const unsigned char *v_sig; static size_t v_sig_len; static const unsigned char *v_oid; static size_t v_hash_len;
static const void *v_key; static unsigned char v_hash[64]; static unsigned char rsa_recovered[64];

static uint32_t stub_rsavrfy(const unsigned char *x, size_t xlen, const unsigned char *hash_oid, size_t hash_len, const br_rsa_public_key *pk, unsigned char *hash_out)
{
	rsa_calls++; v_sig = x; v_sig_len = xlen; v_oid = hash_oid; v_hash_len = hash_len; v_key = pk;
	for (size_t i = 0; i < hash_len && i < 64; i++) hash_out[i] = rsa_recovered[i];
	return (uint32_t)vrfy_result;
}
static uint32_t stub_ecdsa(const br_ec_impl *impl, const void *hash, size_t hash_len, const br_ec_public_key *pk, const void *sig, size_t sig_len)
{
	(void)impl;
	ec_calls++; v_sig = sig; v_sig_len = sig_len; v_hash_len = hash_len; v_key = pk;
	for (size_t i = 0; i < hash_len && i < 64; i++) v_hash[i] = ((const unsigned char *)hash)[i];
	return (uint32_t)vrfy_result;
}

static const unsigned char *ref_oid(int hash)
{
	static const unsigned char o1[] = { 0x05, 0x2B, 0x0E, 0x03, 0x02, 0x1A };
	static const unsigned char o224[] = { 0x09, 0x60, 0x86, 0x48, 0x01, 0x65, 0x03, 0x04, 0x02, 0x04 };
	static const unsigned char o256[] = { 0x09, 0x60, 0x86, 0x48, 0x01, 0x65, 0x03, 0x04, 0x02, 0x01 };
	static const unsigned char o384[] = { 0x09, 0x60, 0x86, 0x48, 0x01, 0x65, 0x03, 0x04, 0x02, 0x02 };
	static const unsigned char o512[] = { 0x09, 0x60, 0x86, 0x48, 0x01, 0x65, 0x03, 0x04, 0x02, 0x03 };
	switch (hash) { case 2: return o1; case 3: return o224; case 4: return o256; case 5: return o384; default: return o512; }
}

int main(void)
{
	br_ssl_client_context cctx;
	xstub_ctx xs;
	const br_x509_class **xsp = &xs.vtable;
#ifdef NATIVE_REPLAY
	NATIVE_FILL(&cctx, sizeof cctx);
#endif
	xs.vtable = &xstub_vtable;
	cctx.eng.x509ctx = xsp;
	cctx.eng.irsavrfy = stub_rsavrfy;
	cctx.eng.iecdsa = stub_ecdsa;
	cctx.eng.iec = NULL;
	ND_BYTES(cctx.eng.client_random, 32);
	ND_BYTES(cctx.eng.server_random, 32);
	cctx.eng.ecdhe_curve = ND_U8();
	cctx.eng.ecdhe_point_len = PL;
	ND_BYTES(cctx.eng.ecdhe_point, PL);
	ND_BYTES(cctx.eng.pad, SL);
	ND_BYTES(rsa_recovered, 64);
	mh_supported = ND_U8() & 0x7E;
	vrfy_result = ND_U8() & 1;
	int hash = ND_U8(), use_rsa = ND_U8() & 1;
	/* what read-ServerKeyExchange (ssl_hs_client.t0) establishes */
	ASSUME((hash >= 2 && hash <= 6) || (hash == 0 && use_rsa));

	int r = verify_SKE_sig(&cctx, hash, use_rsa, SL);

	/* reference digest of client_random || server_random || 03 00 curve len point */
	unsigned char msg[32 + 32 + 4 + PL], exp[64];
	size_t exp_len;
	for (int i = 0; i < 32; i++) { msg[i] = cctx.eng.client_random[i]; msg[32 + i] = cctx.eng.server_random[i]; }
	msg[64] = 3; msg[65] = 0; msg[66] = cctx.eng.ecdhe_curve; msg[67] = PL;
	for (int i = 0; i < PL; i++) msg[68 + i] = cctx.eng.ecdhe_point[i];
	if (hash) { toy_digest(msg, sizeof msg, hash, exp); exp_len = MH_SIZE[hash]; }
	else { toy_digest(msg, sizeof msg, 1, exp); toy_digest(msg, sizeof msg, 2, exp + 16); exp_len = 36; }
	int supported = hash ? ((mh_supported >> hash) & 1) : (((mh_supported >> 1) & 1) && ((mh_supported >> 2) & 1));

	CHECK(!mh_overflow, "harness: recording buffer large enough");
	if (r == 0) {
		CHECK(supported, "accepted only with an implemented hash function");
		CHECK(vrfy_result == 1, "accepted only if the signature verifier reported success");
		CHECK(rsa_calls + ec_calls == 1 && (use_rsa ? rsa_calls : ec_calls) == 1, "exactly one verifier call, of the kind the cipher suite prescribes");
		CHECK(v_key == (use_rsa ? (const void *)&the_key.key.rsa : (const void *)&the_key.key.ec), "verified with the key returned by the certificate validator");
		CHECK(v_sig == cctx.eng.pad && v_sig_len == SL, "verified the signature bytes of the message");
		CHECK(v_hash_len == exp_len, "hash length matches the hash function named in the message");
		if (use_rsa) {
			for (size_t i = 0; i < 64; i++) if (i < exp_len) CHECK(rsa_recovered[i] == exp[i], "RSA: recovered hash equals the hash of randoms and parameters");
			if (hash == 0) { CHECK(v_oid == NULL, "TLS 1.0/1.1 RSA: MD5+SHA-1, no DigestInfo"); }
			else {
				const unsigned char *ro = ref_oid(hash);
				CHECK(v_oid != NULL, "TLS 1.2 RSA: DigestInfo OID given");
				for (int i = 0; i < 10; i++) if (v_oid != NULL && i <= ro[0]) CHECK(v_oid[i] == ro[i], "RSA: DigestInfo OID is that of the named hash function");
			}
			WITNESS_POINT("accepted RSA");
		} else {
			for (size_t i = 0; i < 64; i++) if (i < exp_len) CHECK(v_hash[i] == exp[i], "ECDSA: verified hash equals the hash of randoms and parameters");
			WITNESS_POINT("accepted ECDSA");
		}
	} else {
		CHECK(r == BR_ERR_INVALID_ALGORITHM || r == BR_ERR_BAD_SIGNATURE, "documented error codes only");
		CHECK((r == BR_ERR_INVALID_ALGORITHM) == !supported, "invalid-algorithm exactly when the named hash function is not implemented");
		if (supported && vrfy_result == 1 && !use_rsa) CHECK(0, "a verified ECDSA signature is not rejected");
		WITNESS_POINT("rejected");
	}
	return 0;
}
