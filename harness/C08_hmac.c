/*
 * C08 (c): br_hmac_outCT (src/mac/hmac_ct.c) -- the loop structure and all
 * addresses must depend on min_len/max_len only.
 * Secret: len in [MINLEN, MAXLEN], the data bytes, the hash state and kso.
 * Public: MINLEN, MAXLEN (concrete per query), addresses, the hash class.
 * -DREALHASH=0: stub Merkle-Damgard hash class behind the vtable (block 64,
 *   output 20, big-endian MD padding like SHA-1; compression = xor/rotate).
 *   The stub observes what a real implementation's address/branch trace
 *   depends on: its context pointer, the data pointer and length of every
 *   update, and whether a block boundary is crossed.
 * -DREALHASH=1: the translated br_sha1 / -DREALHASH=2: br_md5 (whole thing at IR level).
 */
#include "C08_rt.h"
#include "inner.h"
#include C08_GEN
#ifndef MINLEN
#define MINLEN 0
#endif
#ifndef MAXLEN
#define MAXLEN 40
#endif
#ifndef REALHASH
#define REALHASH 0
#endif

#if REALHASH == 0
typedef struct {
	const void *vtable;
	unsigned char buf[64];
	uint64_t count;
	uint32_t val[5];
} stub_ctx;
static void stub_round(stub_ctx *c)
{
	for (int i = 0; i < 16; i++) {
		uint32_t w = (uint32_t)c->buf[4 * i] | ((uint32_t)c->buf[4 * i + 1] << 8) | ((uint32_t)c->buf[4 * i + 2] << 16) | ((uint32_t)c->buf[4 * i + 3] << 24);
		uint32_t t = c->val[i % 5];
		c->val[i % 5] = ((t << 1) | (t >> 31)) ^ w ^ c->val[(i + 1) % 5];
	}
}
static void stub_init(unsigned char *cc)
{
	stub_ctx *c = (stub_ctx *)cc;
	OBS_ADDR(1000001, cc);
	for (int i = 0; i < 5; i++) c->val[i] = 0x01234567u * (uint32_t)(i + 1);
	c->count = 0;
}
static void stub_update(unsigned char *cc, unsigned char *data, uint64_t len)
{
	stub_ctx *c = (stub_ctx *)cc;
	OBS_ADDR(1000002, cc);
	OBS_ADDR(1000003, data);
	OBS_LEN(1000004, len);
	for (uint64_t i = 0; i < len; i++) {
		c->buf[c->count & 63] = data[i];
		c->count++;
		OBS_BR(1000005, (c->count & 63) == 0);
		if ((c->count & 63) == 0) stub_round(c);
	}
}
static void stub_out(unsigned char *cc, unsigned char *dst)
{
	stub_ctx *c = (stub_ctx *)cc;
	OBS_ADDR(1000006, cc);
	OBS_ADDR(1000007, dst);
	for (int i = 0; i < 20; i++) dst[i] = (unsigned char)((c->val[i >> 2] >> (8 * (i & 3))) ^ c->buf[i] ^ (unsigned char)c->count);
}
static uint64_t stub_state(unsigned char *cc, unsigned char *dst)
{
	stub_ctx *c = (stub_ctx *)cc;
	OBS_ADDR(1000008, cc);
	OBS_ADDR(1000009, dst);
	for (int i = 0; i < 20; i++) dst[i] = (unsigned char)(c->val[i >> 2] >> (8 * (i & 3)));
	return c->count;
}
static void stub_set_state(unsigned char *cc, unsigned char *stb, uint64_t count)
{
	stub_ctx *c = (stub_ctx *)cc;
	OBS_ADDR(1000010, cc);
	OBS_ADDR(1000011, stb);
	OBS_LEN(1000012, count);
	for (int i = 0; i < 5; i++) c->val[i] = (uint32_t)stb[4 * i] | ((uint32_t)stb[4 * i + 1] << 8) | ((uint32_t)stb[4 * i + 2] << 16) | ((uint32_t)stb[4 * i + 3] << 24);
	c->count = count;
}
/* same layout as br_hash_class on this ABI (size_t, uint32_t, 5 function pointers) */
static const struct {
	uint64_t context_size;
	uint32_t desc;
	void (*init)(unsigned char *);
	void (*update)(unsigned char *, unsigned char *, uint64_t);
	void (*out)(unsigned char *, unsigned char *);
	uint64_t (*state)(unsigned char *, unsigned char *);
	void (*set_state)(unsigned char *, unsigned char *, uint64_t);
} stub_vtable = {
	sizeof(stub_ctx),
	BR_HASHDESC_ID(2) | BR_HASHDESC_OUT(20) | BR_HASHDESC_STATE(20) | BR_HASHDESC_LBLEN(6) | BR_HASHDESC_MD_PADDING | BR_HASHDESC_MD_PADDING_BE,
	stub_init, stub_update, stub_out, stub_state, stub_set_state
};
_Static_assert(sizeof stub_vtable == sizeof(br_hash_class), "vtable layout");
#define HLEN 20
#define VT_IR ((const br_hash_class *)&stub_vtable)
#define VT_REAL ((const br_hash_class *)&stub_vtable)
#elif REALHASH == 1
#define HLEN 20
#define VT_IR ((const br_hash_class *)&ir_g_br_sha1_vtable)
#define VT_REAL (&br_sha1_vtable)
#else
#define HLEN 16
#define VT_IR ((const br_hash_class *)&ir_g_br_md5_vtable)
#define VT_REAL (&br_md5_vtable)
#endif

/* union-free mirror of br_hmac_context (writing union members of a static object is very slow in CBMC) */
typedef struct {
	const void *vtable;
	unsigned char buf[64];
	uint64_t count;
	uint32_t val[5];
	unsigned char pad[sizeof(br_hash_compat_context) - 8 - 64 - 8 - 20];
} hm_dig;
typedef struct {
	hm_dig dig;
	unsigned char kso[64];
	size_t out_len;
} hm_ctx;
_Static_assert(sizeof(hm_ctx) == sizeof(br_hmac_context), "layout");
_Static_assert(__builtin_offsetof(hm_ctx, kso) == __builtin_offsetof(br_hmac_context, kso), "layout");
_Static_assert(__builtin_offsetof(hm_ctx, out_len) == __builtin_offsetof(br_hmac_context, out_len), "layout");
_Static_assert(__builtin_offsetof(hm_dig, val) == __builtin_offsetof(br_sha1_context, val), "layout");
static hm_ctx hc;
static unsigned char data[MAXLEN + 1], out[64];
static size_t len, ret;

static void c08_public(void) { }
static void c08_secret(void)
{
	/* hash state after the 64-byte key block: secret chaining value, public count */
	hm_dig *sc = &hc.dig;   /* md5/sha1/stub contexts share this prefix layout */
	sc->vtable = VT_IR;
	for (int i = 0; i < 64; i++) sc->buf[i] = 0;
	sc->count = 64;
	for (int i = 0; i < 5; i++) sc->val[i] = ND_U32();
	ND_BYTES(hc.kso, HLEN);
	hc.out_len = HLEN;
	len = C08_RANGE(MINLEN, MAXLEN);
	ND_BYTES(data, MAXLEN);
	for (int i = 0; i < 64; i++) out[i] = 0;
}
static void c08_call(void)
{
	ret = ir_br_hmac_outCT((unsigned char *)&hc, data, len, MINLEN, MAXLEN, out);
}
#ifdef C08_TV
static void c08_call_real(void)
{
	hc.dig.vtable = VT_REAL;
	ret = br_hmac_outCT((const br_hmac_context *)&hc, data, len, MINLEN, MAXLEN, out);
}
static void c08_out(void) { C08_OUT(out, sizeof out); C08_OUTV(ret); }
#endif
#include "C08_main.h"
