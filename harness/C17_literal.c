/*
 * C17 literal reading of the property text ("a lookup returns exactly the
 * version, suite and master secret MOST RECENTLY SAVED under that session ID
 * unless it was evicted or removed"; "capacity is the number of whole entries
 * that fit") on three short scripted histories where ssl_lru.c, by its own
 * comments, does something else:
 *
 *  SCEN 1 (capacity >= 1): save(A,p1); save(A,p2); load(A)
 *         literal reading: found, returns p2.   Code: the second save is
 *         rejected ("If the same ID is already used, then reject it"): p1.
 *  SCEN 2 (capacity >= 1): save(A,p1); forget(A); save(A,p2); load(A)
 *         literal reading: found, returns p2.   Code: the disabled entry is
 *         still in the index tree, the save is rejected: not found.
 *  SCEN 3 (capacity 2): save(A); save(B); forget(B); save(C); load(A)
 *         literal reading: the map holds {A, C} (2 = capacity), A found.
 *         Code: the forgotten entry keeps its slot until it ages out, so
 *         save(C) evicts A: not found.
 *
 * Each scenario is its own query with its own assertion text.  They FAIL on
 * the current tree (documented design of the upstream code, reported as a
 * deviation from the property text; the other C17 queries use a ghost model
 * that follows the code's documentation and are not affected).
 * IDs (3 bytes each), parameters and index key symbolic.
 */
#include "common.h"
#include "C17_lru.h"

#ifndef SCEN
#define SCEN 1
#endif

static br_ssl_session_cache_lru cc;
static unsigned char ids[3][32];
static br_ssl_session_parameters pp[2];

static void
do_save(unsigned a, const br_ssl_session_parameters *src)
{
	br_ssl_session_parameters p = *src;

	for (int i = 0; i < 32; i++) {
		p.session_id[i] = ids[a][i];
	}
	p.session_id_len = 32;
	cc.vtable->save(&cc.vtable, (br_ssl_server_context *)0, &p);
}

static int
do_load(unsigned a, br_ssl_session_parameters *p)
{
	for (int i = 0; i < 32; i++) {
		p->session_id[i] = ids[a][i];
	}
	p->session_id_len = 32;
	p->version = 0;
	p->cipher_suite = 0;
	for (int i = 0; i < 48; i++) {
		p->master_secret[i] = 0;
	}
	return cc.vtable->load(&cc.vtable, (br_ssl_server_context *)0, p);
}

static int
same_params(const br_ssl_session_parameters *a, const br_ssl_session_parameters *b)
{
	int ok = (a->version == b->version) & (a->cipher_suite == b->cipher_suite);

	for (int i = 0; i < 48; i++) {
		if (a->master_secret[i] != b->master_secret[i]) {
			ok = 0;
		}
	}
	return ok;
}

int
main(void)
{
	br_ssl_session_parameters out;
	int r;

	br_ssl_session_cache_lru_init(&cc, c17_store, STORE_LEN);
	cc.init_done = 1;
	cc.hash = &c17_hash;
	for (int b = 0; b < 32; b++) {
		cc.index_key[b] = (b == 0 || b == 16 || b == 31) ? ND_U8() : 0;
	}
	for (int a = 0; a < 3; a++) {
		for (int b = 0; b < 32; b++) {
			ids[a][b] = (b == 0 || b == 15 || b == 31) ? ND_U8() : 0;
		}
	}
	for (int k = 0; k < 2; k++) {
		pp[k].version = ND_U16();
		pp[k].cipher_suite = ND_U16();
		for (int b = 0; b < 48; b++) {
			pp[k].master_secret[b] = (b == 0 || b == 20 || b == 47) ? ND_U8() : 0;
		}
		ASSUME(pp[k].version != 0);     /* 0 is the in-band "disabled" mark */
	}
	for (int a = 0; a < 3; a++) {
		for (int b = a + 1; b < 3; b++) {
			int eq = 1;
			for (int i = 0; i < 32; i++) {
				if (ids[a][i] != ids[b][i]) {
					eq = 0;
				}
			}
			ASSUME(!eq);
		}
	}

#if SCEN == 1
	do_save(0, &pp[0]);
	do_save(0, &pp[1]);
	r = do_load(0, &out);
	CHECK(r == 1, "SCEN1: ID saved twice is found");
	CHECK(r == 1 && same_params(&out, &pp[1]),
		"SCEN1 literal reading: load returns the parameters MOST RECENTLY saved under the ID");
#elif SCEN == 2
	do_save(0, &pp[0]);
	br_ssl_session_cache_lru_forget(&cc, ids[0]);
	do_save(0, &pp[1]);
	r = do_load(0, &out);
	CHECK(r == 1 && same_params(&out, &pp[1]),
		"SCEN2 literal reading: an ID saved again after forget is found with the new parameters");
#else
	do_save(0, &pp[0]);
	do_save(1, &pp[1]);
	br_ssl_session_cache_lru_forget(&cc, ids[1]);
	do_save(2, &pp[1]);
	r = do_load(0, &out);
	CHECK(r == 1 && same_params(&out, &pp[0]),
		"SCEN3 literal reading: a forgotten entry frees its slot, the older ID is not evicted");
#endif
	WITNESS_POINT("scripted history completes");
	return 0;
}
