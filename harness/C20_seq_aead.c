/*
 * C20.b (AEAD record contexts): sequence numbers and nonce/AAD injectivity.
 * Units: the real init / encrypt / decrypt functions of
 * src/ssl/ssl_rec_gcm.c, ssl_rec_ccm.c (over the real src/aead/ccm.c) and
 * ssl_rec_chapol.c.  The primitives behind the seams are the toys of
 * C02_aead_stubs.h in RECORDING mode: they note the IV/counter/AAD bytes they
 * are handed.
 *
 * For one record of PLEN plaintext bytes, all contents/keys/IVs/type/version
 * symbolic, and two symbolic starting sequence numbers s1, s2 < 2^64-2 with
 * all other inputs identical:
 *   - init sets seq = 0;
 *   - one encrypt (DIR=1) / decrypt (DIR=0, accepted or rejected) sets
 *     seq = s + 1;
 *   - the AAD bytes handed to the authenticator are seq||type||version||PLEN,
 *     hence AAD(s1) == AAD(s2) => s1 == s2;
 *   - sending side, and ChaCha20+Poly1305 receiving side: the nonce handed to
 *     the primitive is salt||be64(seq) (GCM, CCM) / iv xor (0^4||be64(seq))
 *     (ChaPol), hence nonce(s1) == nonce(s2) => s1 == s2; every primitive
 *     call of one record uses the same nonce; GCM counters are 2 (data) and
 *     1 (tag mask);
 *   - sending side GCM/CCM: the explicit nonce written to the wire is
 *     be64(seq), and the 5-byte record header is type||version||length.
 * MODE: 1 GCM, 2 CCM, 3 ChaCha20+Poly1305; DIR: 0 in, 1 out; PLEN; TAGLEN (CCM).
 */
#define AEAD_RECORD 1
#include "common.h"
#include "C02_aead_stubs.h"

#ifndef MODE
#define MODE 1
#endif
#ifndef DIR
#define DIR 1
#endif
#ifndef PLEN
#define PLEN 17
#endif
#ifndef TAGLEN
#define TAGLEN 16
#endif

#if MODE == 1
#include "src/ssl/ssl_rec_gcm.c"
typedef br_sslrec_gcm_context CTX;
#define EXPL 8
#define KEYLEN 16
#define IVLEN 4
#define TAG 16
#define DECRYPT gcm_decrypt
#define ENCRYPT gcm_encrypt
#elif MODE == 2
#include "src/ssl/ssl_rec_ccm.c"
typedef br_sslrec_ccm_context CTX;
#define EXPL 8
#define KEYLEN 16
#define IVLEN 4
#define TAG TAGLEN
#define DECRYPT ccm_decrypt
#define ENCRYPT ccm_encrypt
#else
#include "src/ssl/ssl_rec_chapol.c"
typedef br_sslrec_chapol_context CTX;
#define EXPL 0
#define KEYLEN 32
#define IVLEN 12
#define TAG 16
#define DECRYPT chapol_decrypt
#define ENCRYPT chapol_encrypt
#endif
#define HEAD (5 + EXPL)
#define RL (EXPL + PLEN + TAG)

typedef struct {
	unsigned char nonce[12], aad[13], wire[HEAD];
	uint64_t seq_after;
	int accepted;
	size_t out_len, out_off;
} obs_t;

static unsigned char key[KEYLEN], iv[IVLEN];

static void ctx_init(CTX *c)
{
#if MODE == 1
#if DIR
	out_gcm_init(c, &toy_ctr_vtable, key, KEYLEN, &toy_ghash, iv);
#else
	in_gcm_init(c, &toy_ctr_vtable, key, KEYLEN, &toy_ghash, iv);
#endif
#elif MODE == 2
#if DIR
	out_ccm_init(c, &toy_ctrcbc_vtable, key, KEYLEN, iv, TAGLEN);
#else
	in_ccm_init(c, &toy_ctrcbc_vtable, key, KEYLEN, iv, TAGLEN);
#endif
#else
#if DIR
	out_chapol_init(c, &toy_chacha20_run, &toy_poly1305_run, key, iv);
#else
	in_chapol_init(c, &toy_chacha20_run, &toy_poly1305_run, key, iv);
#endif
#endif
}

/* what the primitive stubs were handed during the last record */
static void observe(obs_t *o)
{
#if MODE == 1
	/* DIR=1: CTR(data, cc=2), CTR(tag mask, cc=1), GHASH(AAD), GHASH(C), GHASH(lengths); DIR=0: GHASH x3 first */
	CHECK(rec_ctr_n == 2 && rec_gh_n == 3, "GCM: two CTR runs and three GHASH calls per record");
	CHECK(rec_ctr_cc[0] == 2 && rec_ctr_cc[1] == 1, "GCM: data uses counter 2.., tag mask uses counter 1");
	for (int i = 0; i < 12; i++) {
		o->nonce[i] = rec_ctr_iv[0][i];
		CHECK(rec_ctr_iv[1][i] == rec_ctr_iv[0][i], "GCM: both CTR runs of a record use the same nonce");
	}
	CHECK(rec_gh_len[0] == 13 && rec_gh_len[1] == PLEN && rec_gh_len[2] == 16, "GCM: GHASH over 13-byte AAD, PLEN ciphertext bytes, 16-byte length block");
	for (int i = 0; i < 13; i++) o->aad[i] = rec_gh_data[0][i];
#elif MODE == 2
	/* CBC-MAC call 0 is B_0 = flags||nonce||len, call 1 is be16(13)||AAD||0; first CTR call is A_0 = flags||nonce||0 */
	CHECK(rec_mac_n >= 2 && rec_cc_n >= 1, "CCM: B_0, the AAD block and A_0 are processed");
	for (int i = 0; i < 12; i++) {
		o->nonce[i] = rec_mac_blk[0][1 + i];
		CHECK(rec_cc_ctr[0][1 + i] == rec_mac_blk[0][1 + i], "CCM: CTR and CBC-MAC use the same nonce");
	}
	CHECK(rec_mac_blk[1][0] == 0 && rec_mac_blk[1][1] == 13 && rec_mac_blk[1][15] == 0, "CCM: AAD block is be16(13)||AAD||00");
	CHECK(rec_cc_ctr[0][13] == 0 && rec_cc_ctr[0][14] == 0 && rec_cc_ctr[0][15] == 0, "CCM: tag mask uses counter 0");
	for (int i = 0; i < 13; i++) o->aad[i] = rec_mac_blk[1][2 + i];
#else
	CHECK(rec_poly_n == 1 && rec_poly_aad_len == 13 && rec_poly_len == PLEN && (rec_poly_encrypt != 0) == DIR,
		"ChaPol: one AEAD call per record, 13-byte AAD, PLEN data bytes, right direction");
	for (int i = 0; i < 32; i++) CHECK(rec_poly_key[i] == key[i], "ChaPol: the context key is handed to the primitive");
	for (int i = 0; i < 12; i++) o->nonce[i] = rec_poly_iv[i];
	for (int i = 0; i < 13; i++) o->aad[i] = rec_poly_aad[i];
#endif
}

static void one_record(const CTX *c0, uint64_t s, int type, unsigned ver, const unsigned char *in, obs_t *o)
{
	CTX c = *c0;
	c.seq = s;
	rec_reset();
#if DIR
	unsigned char buf[HEAD + PLEN + TAG];
	for (size_t i = 0; i < sizeof buf; i++) buf[i] = 0;
	for (size_t i = 0; i < PLEN; i++) buf[HEAD + i] = in[i];
	size_t len = PLEN;
	unsigned char *p = ENCRYPT(&c, type, ver, buf + HEAD, &len);
	o->accepted = 1;
	o->out_len = len;
	o->out_off = (size_t)(p - buf);
	for (int i = 0; i < HEAD; i++) o->wire[i] = buf[i];
#else
	unsigned char buf[RL];
	for (size_t i = 0; i < RL; i++) buf[i] = in[i];
	size_t len = RL;
	unsigned char *p = DECRYPT(&c, type, ver, buf, &len);
	o->accepted = p != 0;
	o->out_len = len;
	o->out_off = p ? (size_t)(p - buf) : 0;
#endif
	o->seq_after = c.seq;
	observe(o);
}

static int same(const unsigned char *a, const unsigned char *b, size_t n)
{
	int eq = 1;
	for (size_t i = 0; i < n; i++) if (a[i] != b[i]) eq = 0;
	return eq;
}

int main(void)
{
	unsigned char in[RL + 1];
	ND_BYTES(key, KEYLEN);
	ND_BYTES(iv, IVLEN);
	ND_BYTES(in, RL);
	int type = ND_U8();
	unsigned ver = ND_U16();
	uint64_t s1 = ND_U64(), s2 = ND_U64();
	ASSUME(s1 < UINT64_MAX - 1 && s2 < UINT64_MAX - 1);

	CTX c0;
	c0.seq = ND_U64();   /* the caller's memory holds anything before init (explicit input so that a counterexample replays) */
	ctx_init(&c0);
	CHECK(c0.seq == 0, "init sets the sequence number to 0");

	obs_t o1, o2;
	one_record(&c0, s1, type, ver, in, &o1);
	one_record(&c0, s2, type, ver, in, &o2);

	CHECK(o1.seq_after == s1 + 1 && o2.seq_after == s2 + 1, "one record advances the sequence number by exactly one");

	/* RFC 5246 6.2.3.3: additional_data = seq_num || type || version || length */
	unsigned char want[13];
	br_enc64be(want, s1);
	want[8] = (unsigned char)type;
	br_enc16be(want + 9, ver);
	br_enc16be(want + 11, PLEN);
	CHECK(same(o1.aad, want, 13), "AAD handed to the authenticator is seq||type||version||plaintext length");
	CHECK(!same(o1.aad, o2.aad, 13) || s1 == s2, "equal AAD bytes imply equal sequence numbers");

#if DIR || MODE == 3
	unsigned char nn[12];
#if MODE == 3
	for (int i = 0; i < 12; i++) nn[i] = iv[i];
	for (int i = 0; i < 8; i++) nn[4 + i] ^= (unsigned char)(s1 >> (56 - 8 * i));
#else
	for (int i = 0; i < 4; i++) nn[i] = iv[i];
	br_enc64be(nn + 4, s1);
#endif
	CHECK(same(o1.nonce, nn, 12), "nonce handed to the primitive is the RFC function of the write IV and seq");
	CHECK(!same(o1.nonce, o2.nonce, 12) || s1 == s2, "equal nonces imply equal sequence numbers");
#else
	/* receiving GCM/CCM: the nonce is salt || explicit nonce from the record */
	CHECK(same(o1.nonce, iv, 4) && same(o1.nonce + 4, in, 8), "nonce handed to the primitive is salt||explicit nonce of the record");
#endif

#if DIR
	CHECK(o1.out_off == 0 && o1.out_len == 5 + RL, "emitted record is header + body");
	CHECK(o1.wire[0] == (unsigned char)type && o1.wire[1] == (unsigned char)(ver >> 8) && o1.wire[2] == (unsigned char)ver
		&& o1.wire[3] == (unsigned char)((size_t)RL >> 8) && o1.wire[4] == (unsigned char)RL, "record header is type||version||length");
#if EXPL
	unsigned char e[8];
	br_enc64be(e, s1);
	CHECK(same(o1.wire + 5, e, 8), "explicit nonce on the wire is the sequence number");
#endif
	WITNESS_POINT("two records encrypted");
	if (s1 != s2) { WITNESS_POINT("distinct sequence numbers"); }
#else
	if (o1.accepted) {
		CHECK(o1.out_len == PLEN && o1.out_off == EXPL, "accepted: plaintext region");
		WITNESS_POINT("record accepted, seq advanced by one");
	} else {
		WITNESS_POINT("record rejected, seq advanced by one");
	}
	if (o1.accepted && !o2.accepted) { WITNESS_POINT("same record accepted under s1 and rejected under s2"); }
#endif
	return 0;
}
