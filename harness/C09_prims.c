/* C09: inner.h word primitives, every operand (no bound: straight-line code) */
#include "common.h"
#include "inner.h"

int main(void)
{
	uint32_t x = ND_U32(), y = ND_U32(), c = ND_U32();
	int32_t sx = (int32_t)x;

	ASSUME(c <= 1);
	CHECK(NOT(c) == (uint32_t)!c, "NOT");
	CHECK(MUX(c, x, y) == (c ? x : y), "MUX");
	CHECK(EQ(x, y) == (uint32_t)(x == y), "EQ");
	CHECK(NEQ(x, y) == (uint32_t)(x != y), "NEQ");
	CHECK(GT(x, y) == (uint32_t)(x > y), "GT");
	CHECK(GE(x, y) == (uint32_t)(x >= y), "GE");
	CHECK(LT(x, y) == (uint32_t)(x < y), "LT");
	CHECK(LE(x, y) == (uint32_t)(x <= y), "LE");
	CHECK(CMP(x, y) == (x > y ? 1 : (x < y ? -1 : 0)), "CMP");
	CHECK(EQ0(sx) == (uint32_t)(sx == 0), "EQ0");
	CHECK(GT0(sx) == (uint32_t)(sx > 0), "GT0");
	CHECK(GE0(sx) == (uint32_t)(sx >= 0), "GE0");
	CHECK(LT0(sx) == (uint32_t)(sx < 0), "LT0");
	CHECK(LE0(sx) == (uint32_t)(sx <= 0), "LE0");
	CHECK(MIN(x, y) == (x < y ? x : y), "MIN");
	CHECK(MAX(x, y) == (x > y ? x : y), "MAX");
	{
		uint32_t bl = 0, t = x;
		for (int i = 0; i < 32; i++) { if (t != 0) { bl++; t >>= 1; } }
		CHECK(BIT_LENGTH(x) == bl, "BIT_LENGTH");
	}
	{
		/* ARSH: arithmetic right shift for every count 1..31 */
		uint32_t n = ND_U32();
		ASSUME(n >= 1 && n <= 31);
		uint32_t xx = x;
		uint32_t ref = (x >> n) | ((x >> 31) ? (0xFFFFFFFFu << (32 - n)) : 0);
		CHECK((uint32_t)ARSH(xx, n) == ref, "ARSH");
	}
	WITNESS_POINT("end of primitives");
	return 0;
}
