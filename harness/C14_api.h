/*
 * C14: one calling convention over the three real units, selected by MODE:
 *   MODE 1 = src/aead/gcm.c   (toy CTR class + toy GHASH behind the seams)
 *   MODE 2 = src/aead/ccm.c   (toy CTRCBC class)
 *   MODE 3 = src/aead/eax.c   (toy CTRCBC class)
 * Public sizes are concrete per query: NL nonce, AL AAD, DL data, TL tag.
 * VTAB=1 calls GCM/EAX through br_aead_class (br_gcm_vtable / br_eax_vtable)
 * instead of the direct functions.
 */
#ifndef C14_API_H
#define C14_API_H
#include "common.h"
#include "C14_stubs.h"
#include "C14_ref.h"

#ifndef MODE
#define MODE 1
#endif
#ifndef NL
#define NL 12
#endif
#ifndef AL
#define AL 17
#endif
#ifndef DL
#define DL 17
#endif
#ifndef TL
#define TL 16
#endif
#ifndef VTAB
#define VTAB 0
#endif
#ifndef DIR
#define DIR 1          /* 1 = encrypt, 0 = decrypt */
#endif

/* arrays are never zero-sized */
#define NLA (NL > 0 ? NL : 1)
#define ALA (AL > 0 ? AL : 1)
#define DLA (DL > 0 ? DL : 1)

#if MODE == 1
typedef struct { toy_ctr_keys bc; br_gcm_context c; } aead_t;
#define A_VT(a) ((const br_aead_class **)&(a)->c.vtable)
#elif MODE == 2
typedef struct { toy_ctrcbc_keys bc; br_ccm_context c; } aead_t;
#else
typedef struct { toy_ctrcbc_keys bc; br_eax_context c; } aead_t;
#define A_VT(a) ((const br_aead_class **)&(a)->c.vtable)
#endif

static void A_init(aead_t *a, const unsigned char *key)
{
#if MODE == 1
	toy_ctr_init(&a->bc.vtable, key, 16);
	br_gcm_init(&a->c, &a->bc.vtable, &toy_ghash);
#elif MODE == 2
	toy_ctrcbc_init(&a->bc.vtable, key, 16);
	br_ccm_init(&a->c, &a->bc.vtable);
#else
	toy_ctrcbc_init(&a->bc.vtable, key, 16);
	br_eax_init(&a->c, &a->bc.vtable);
#endif
}

/* alen/dlen/tlen are only used by CCM (they are declared at reset) */
static void A_reset(aead_t *a, const unsigned char *nonce, size_t nlen, size_t alen, size_t dlen, size_t tlen)
{
#if MODE == 1
	(void)alen; (void)dlen; (void)tlen;
	if (VTAB) (*A_VT(a))->reset(A_VT(a), nonce, nlen); else br_gcm_reset(&a->c, nonce, nlen);
#elif MODE == 2
	int r = br_ccm_reset(&a->c, nonce, nlen, alen, dlen, tlen);
	CHECK(r == 1, "br_ccm_reset accepts admissible parameters");
#else
	(void)alen; (void)dlen; (void)tlen;
	if (VTAB) (*A_VT(a))->reset(A_VT(a), nonce, nlen); else br_eax_reset(&a->c, nonce, nlen);
#endif
}

static void A_aad(aead_t *a, const unsigned char *p, size_t n)
{
#if MODE == 1
	if (VTAB) (*A_VT(a))->aad_inject(A_VT(a), p, n); else br_gcm_aad_inject(&a->c, p, n);
#elif MODE == 2
	br_ccm_aad_inject(&a->c, p, n);
#else
	if (VTAB) (*A_VT(a))->aad_inject(A_VT(a), p, n); else br_eax_aad_inject(&a->c, p, n);
#endif
}

static void A_flip(aead_t *a)
{
#if MODE == 1
	if (VTAB) (*A_VT(a))->flip(A_VT(a)); else br_gcm_flip(&a->c);
#elif MODE == 2
	br_ccm_flip(&a->c);
#else
	if (VTAB) (*A_VT(a))->flip(A_VT(a)); else br_eax_flip(&a->c);
#endif
}

static void A_run(aead_t *a, int enc, unsigned char *p, size_t n)
{
#if MODE == 1
	if (VTAB) (*A_VT(a))->run(A_VT(a), enc, p, n); else br_gcm_run(&a->c, enc, p, n);
#elif MODE == 2
	br_ccm_run(&a->c, enc, p, n);
#else
	if (VTAB) (*A_VT(a))->run(A_VT(a), enc, p, n); else br_eax_run(&a->c, enc, p, n);
#endif
}

/* writes TL bytes: full-tag function for TL == 16, truncating one otherwise */
static void A_get_tag(aead_t *a, unsigned char *tag)
{
#if MODE == 1
	if (TL == 16) { if (VTAB) (*A_VT(a))->get_tag(A_VT(a), tag); else br_gcm_get_tag(&a->c, tag); }
	else { if (VTAB) (*A_VT(a))->get_tag_trunc(A_VT(a), tag, TL); else br_gcm_get_tag_trunc(&a->c, tag, TL); }
#elif MODE == 2
	size_t r = br_ccm_get_tag(&a->c, tag);
	CHECK(r == TL, "br_ccm_get_tag returns the tag length given at reset");
#else
	if (TL == 16) { if (VTAB) (*A_VT(a))->get_tag(A_VT(a), tag); else br_eax_get_tag(&a->c, tag); }
	else { if (VTAB) (*A_VT(a))->get_tag_trunc(A_VT(a), tag, TL); else br_eax_get_tag_trunc(&a->c, tag, TL); }
#endif
}

static uint32_t A_check_tag(aead_t *a, const unsigned char *tag)
{
#if MODE == 1
	if (TL == 16) return VTAB ? (*A_VT(a))->check_tag(A_VT(a), tag) : br_gcm_check_tag(&a->c, tag);
	return VTAB ? (*A_VT(a))->check_tag_trunc(A_VT(a), tag, TL) : br_gcm_check_tag_trunc(&a->c, tag, TL);
#elif MODE == 2
	return br_ccm_check_tag(&a->c, tag);
#else
	if (TL == 16) return VTAB ? (*A_VT(a))->check_tag(A_VT(a), tag) : br_eax_check_tag(&a->c, tag);
	return VTAB ? (*A_VT(a))->check_tag_trunc(A_VT(a), tag, TL) : br_eax_check_tag_trunc(&a->c, tag, TL);
#endif
}

/* the reference of the mode (C14_ref.h); writes DL output bytes and TL tag bytes */
static void A_ref(const unsigned char *key, const unsigned char *nonce, const unsigned char *aad,
	const unsigned char *in, int enc, unsigned char *out, unsigned char *tag)
{
	unsigned char t[16];
#if MODE == 1
	ref_gcm(key, nonce, NL, aad, AL, in, DL, enc, out, t);
#elif MODE == 2
	ref_ccm(key, nonce, NL, aad, AL, in, DL, TL, enc, out, t);
#else
	ref_eax(key, nonce, NL, aad, AL, in, DL, enc, out, t);
#endif
	for (int i = 0; i < TL; i++) tag[i] = t[i];           /* MSB_t truncation */
}

/*
 * AAD given as aad[0..s) then aad[s..n); data likewise.  s is symbolic in the
 * callers; SPLIT_ENUM=1 (default) presents it to the unit through a guarded
 * enumeration (every call has concrete lengths, all s in [0,n] are covered),
 * SPLIT_ENUM=0 passes the symbolic length straight in.
 */
#ifndef SPLIT_ENUM
#define SPLIT_ENUM 1
#endif
/*
 * Shape matters for symex: every case returns (forward jump to one join
 * point) and the last case (s == n, the only one left since the callers
 * assume s <= n) is unconditional, so that fields which end up equal on all
 * paths (byte counters, ptr) merge back to constants.
 */
static void A_aad_split(aead_t *a, const unsigned char *p, size_t n, size_t s)
{
#if SPLIT_ENUM
	for (size_t k = 0; k < n; k++) {
		if (s == k) {
			A_aad(a, p, k);
			A_aad(a, p + k, n - k);
			return;
		}
	}
	A_aad(a, p, n);
	A_aad(a, p + n, 0);
#else
	A_aad(a, p, s);
	A_aad(a, p + s, n - s);
#endif
}
static void A_run_split(aead_t *a, int enc, unsigned char *p, size_t n, size_t s)
{
#if SPLIT_ENUM
	for (size_t k = 0; k < n; k++) {
		if (s == k) {
			A_run(a, enc, p, k);
			A_run(a, enc, p + k, n - k);
			return;
		}
	}
	A_run(a, enc, p, n);
	A_run(a, enc, p + n, 0);
#else
	A_run(a, enc, p, s);
	A_run(a, enc, p + s, n - s);
#endif
}

/* three pieces: [0,s1) [s1,s1+s2) [s1+s2,n); callers assume s1 <= n, s2 <= n - s1 */
static void A_aad_split3(aead_t *a, const unsigned char *p, size_t n, size_t s1, size_t s2)
{
	for (size_t k1 = 0; k1 <= n; k1++) {
		if (s1 == k1 || k1 == n) {
			for (size_t k2 = 0; k2 <= n - k1; k2++) {
				if (s2 == k2 || k2 == n - k1) {
					A_aad(a, p, k1);
					A_aad(a, p + k1, k2);
					A_aad(a, p + k1 + k2, n - k1 - k2);
					return;
				}
			}
		}
	}
}
static void A_run_split3(aead_t *a, int enc, unsigned char *p, size_t n, size_t s1, size_t s2)
{
	for (size_t k1 = 0; k1 <= n; k1++) {
		if (s1 == k1 || k1 == n) {
			for (size_t k2 = 0; k2 <= n - k1; k2++) {
				if (s2 == k2 || k2 == n - k1) {
					A_run(a, enc, p, k1);
					A_run(a, enc, p + k1, k2);
					A_run(a, enc, p + k1 + k2, n - k1 - k2);
					return;
				}
			}
		}
	}
}

/* whole message in one go: reset, AAD, flip, data, tag */
static void A_oneshot(aead_t *a, const unsigned char *nonce, const unsigned char *aad,
	int enc, unsigned char *data, unsigned char *tag)
{
	A_reset(a, nonce, NL, AL, DL, TL);
	A_aad(a, aad, AL);
	A_flip(a);
	A_run(a, enc, data, DL);
	A_get_tag(a, tag);
}

#endif
