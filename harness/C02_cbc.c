/*
 * C02.a: cbc_decrypt / cbc_check_length (real src/ssl/ssl_rec_cbc.c) accept
 * exactly what an RFC 5246 6.2.3.2 reference accepts, for EVERY record body
 * of RL bytes (IV, ciphertext, padding and MAC bytes all symbolic).
 * Parameters: RL record body length, ML MAC length, EXPL explicit IV,
 * TOY_BLK block size.  Cipher and MAC are the stand-ins of stubs_rec.h.
 */
#include "common.h"
#include "stubs_rec.h"
#include "src/ssl/ssl_rec_cbc.c"

#ifndef RL
#define RL 48
#endif
#ifndef ML
#define ML 20
#endif
#ifndef EXPL
#define EXPL 1
#endif

static unsigned char *
ref_decrypt(br_sslrec_in_cbc_context *cc, int type, unsigned ver, unsigned char *data, size_t *len)
{
	size_t n = *len;
	unsigned char *buf = data;
	cc->bc.vtable->run(&cc->bc.vtable, cc->iv, data, n);
	if (cc->explicit_IV) { buf += TOY_BLK; n -= TOY_BLK; }
	unsigned pad = buf[n - 1];
	int ok = 1;
	uint64_t seq = cc->seq++;
	size_t plen = 0;
	if ((size_t)pad + 1 + cc->mac_len > n) {
		ok = 0;
	} else {
		for (size_t i = 0; i < n - 1; i++)
			if (i >= n - 1 - pad && buf[i] != pad) ok = 0;
		plen = n - 1 - pad - cc->mac_len;
	}
	if (!ok) return 0;
	unsigned char hdr[13], mac[64];
	br_hmac_context hc;
	br_enc64be(hdr, seq);
	hdr[8] = (unsigned char)type;
	br_enc16be(hdr + 9, ver);
	br_enc16be(hdr + 11, plen);
	br_hmac_init(&hc, &cc->mac, cc->mac_len);
	br_hmac_update(&hc, hdr, 13);
	br_hmac_outCT(&hc, buf, plen, 0, n - 1 - cc->mac_len, mac);
	int macok = 0;
	for (size_t k = 0; k + 1 + cc->mac_len <= n; k++)
		if (plen == k) {
			macok = 1;
			for (size_t j = 0; j < cc->mac_len; j++)
				if (mac[j] != buf[k + j]) macok = 0;
		}
	if (!macok || plen > 16384) return 0;
	*len = plen;
	return buf;
}

int main(void)
{
	unsigned char key[16], mkey[ML], iv[16], rec1[RL], rec2[RL];
	ND_BYTES(key, 16);
	ND_BYTES(mkey, ML);
	ND_BYTES(iv, 16);
	for (int i = 0; i < RL; i++) rec1[i] = rec2[i] = ND_U8();
	br_sslrec_in_cbc_context c1, c2;
	in_cbc_init(&c1, &toy_cbcdec_vtable, key, 16, 0, mkey, ML, ML, EXPL ? NULL : iv);
	uint64_t s = ND_U64();
	c1.seq = s;
	c2 = c1;
	int type = ND_U8();
	unsigned ver = ND_U16();
	CHECK(cbc_check_length(&c1, RL), "record length RL is admissible");
	size_t l1 = RL, l2 = RL;
	unsigned char *p1 = cbc_decrypt(&c1, type, ver, rec1, &l1);
	{
		/* C08 (Lucky13): the range [min_len, max_len] handed to br_hmac_outCT decides how much is hashed in bulk and how
		   much by the masked loop - it must depend on public values only (record length, MAC length, IV mode), never on
		   the padding found in the record (seeded change C08g) */
		size_t n0 = RL - (EXPL ? TOY_BLK : 0);
		size_t emin = ((size_t)ML + 256 < n0 ? n0 - 256 : (size_t)ML) - ML, emax = n0 - 1 - ML;
		CHECK(toy_outct_calls == 1 && toy_outct_min == emin && toy_outct_max == emax, "br_hmac_outCT is given the public plaintext-length range, whatever the record content");
	}
	unsigned char *p2 = ref_decrypt(&c2, type, ver, rec2, &l2);
	CHECK((p1 == 0) == (p2 == 0), "cbc_decrypt accepts iff the RFC reference accepts");
	if (p1 && p2) {
		CHECK(l1 == l2 && (p1 - rec1) == (p2 - rec2), "same plaintext region as the reference");
		for (size_t i = 0; i < RL; i++)
			if (i < l1) CHECK(p1[i] == p2[i], "same plaintext bytes as the reference");
		WITNESS_POINT("some record is accepted");
	}
	if (!p1) { WITNESS_POINT("some record is rejected"); }
	CHECK(c1.seq == s + 1 && c2.seq == s + 1, "sequence number advances by exactly one");
	return 0;
}
