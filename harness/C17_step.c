/*
 * C17.B: one operation from an ARBITRARY valid cache state (inductive step).
 *
 * Public sizes, concrete per query: STORE_LEN (capacity CAP = STORE_LEN/100),
 * NENT = number of entries in the pre-state (0..CAP), OPK = operation kind
 * (0 save, 1 load, 2 forget).
 *
 * Pre-state: store_ptr = 100*NENT; every link field (prev/next/left/right of
 * every entry, head, tail, root), every version/suite, the masked IDs, the
 * master secrets and the index key are symbolic; the representation
 * invariant R (repr_ok) is ASSUMED:
 *   - head->next->... visits NENT distinct allocated entries and ends in
 *     null, prev links mirror it, tail is the last one;
 *   - root/left/right are null or allocated entries, there are exactly NENT
 *     non-null tree links, and every allocated entry is reached by a search
 *     for its own masked ID (lexicographic order)  [= a BST over exactly the
 *     allocated entries; masked IDs pairwise distinct];
 *   (disabled entries, i.e. version 0, are allowed anywhere.)
 * The abstract LRU map of the pre-state is read off the list: order[j] = the
 * entry that is j-th most recently used, with its (masked ID, version, suite,
 * master secret).
 *
 * One operation with a symbolic session ID (it may or may not be the ID of
 * an existing entry) and symbolic parameters is executed by the real code.
 *
 * Checked: R holds again (CHECK(repr_ok)), and the post-state is exactly the
 * abstract LRU-map transition documented in C17_lru.h applied to the
 * pre-state's abstract map:
 *   load   : returns 1 with exactly the parameters of the entry holding that
 *            ID iff there is one and it is enabled, and moves it to the front
 *            (relative order of all others unchanged); otherwise returns 0
 *            and nothing changes;
 *   forget : the entry holding that ID (if any) gets disabled, nothing else
 *            changes (order included);
 *   save   : nothing changes if CAP == 0 or the ID is held (enabled or
 *            disabled); otherwise the new entry becomes the most recently
 *            used one, in a fresh slot if NENT < CAP, else replacing exactly
 *            the least recently used entry; all other entries keep their
 *            payload and relative order;
 *   and in all cases no other entry's ID / parameters change.
 * Together with "init establishes R with the empty map" (NENT = 0 pre-state
 * is what br_ssl_session_cache_lru_init leaves, checked in C17_hist) this is
 * the induction step for histories of any length at capacity <= CAP.
 */
#include "common.h"
#include "C17_lru.h"

#ifndef NENT
#define NENT CAP
#endif
#ifndef OPK
#define OPK 0
#endif
#ifndef FULLSYM_IDS
#define FULLSYM_IDS 0
#endif

static br_ssl_session_cache_lru cc;
static unsigned char key[32];
static ent pre[GSZ], post[GSZ], want[GSZ];
static unsigned pre_order[GSZ], post_order[GSZ], want_order[GSZ];
/* which case of the operation this run is (witness points are raised at the very end) */
static int w_0, w_1, w_2, w_3, w_4, w_5, w_6, w_7, w_8;

/* masked-ID byte positions that are symbolic (others are 0) */
static int
sym_mid(int b)
{
	return FULLSYM_IDS || b == 0 || b == 16 || b == 31;
}

static int
sym_ms(int b)
{
	return FULLSYM_IDS || b == 0 || b == 20 || b == 47;
}

static int
same_payload(const ent *a, const ent *b)
{
	int ok = (a->ver == b->ver) & (a->suite == b->suite);

	for (int i = 0; i < 32; i++) {
		if (a->id[i] != b->id[i]) {
			ok = 0;
		}
	}
	for (int i = 0; i < 48; i++) {
		if (a->ms[i] != b->ms[i]) {
			ok = 0;
		}
	}
	return ok;
}

int
main(void)
{
	static unsigned char oid[32], omid[32];
	static br_ssl_session_parameters p, p0;
	unsigned match, cnt_after;
	int r = 0;

	/* ---- symbolic input, straight-line ---- */
	for (int b = 0; b < 32; b++) {
		key[b] = sym_mid(b) ? ND_U8() : 0;
	}
	for (unsigned e = 0; e < CAP; e++) {
		unsigned char *q = c17_store + 100 * e;

		for (int b = 0; b < 32; b++) {
			q[SESSION_ID_OFF + b] = sym_mid(b) ? ND_U8() : 0;
		}
		for (int b = 0; b < 48; b++) {
			q[MASTER_SECRET_OFF + b] = sym_ms(b) ? ND_U8() : 0;
		}
		br_enc16be(q + VERSION_OFF, ND_U16());
		br_enc16be(q + CIPHER_SUITE_OFF, ND_U16());
		br_enc32be(q + LIST_PREV_OFF, ND_U32());
		br_enc32be(q + LIST_NEXT_OFF, ND_U32());
		br_enc32be(q + TREE_LEFT_OFF, ND_U32());
		br_enc32be(q + TREE_RIGHT_OFF, ND_U32());
	}
#if STORE_LEN % 100 != 0
	for (unsigned i = 100 * CAP; i < STORE_LEN; i++) {
		c17_store[i] = ND_U8();
	}
#endif
	br_ssl_session_cache_lru_init(&cc, c17_store, STORE_LEN);
	cc.head = ND_U32();
	cc.tail = ND_U32();
	cc.root = ND_U32();
	cc.store_ptr = (size_t)100 * NENT;
	cc.init_done = 1;
	cc.hash = &c17_hash;
	for (int b = 0; b < 32; b++) {
		cc.index_key[b] = key[b];
	}
	for (int b = 0; b < 32; b++) {
		oid[b] = sym_mid(31 - b) ? ND_U8() : 0;
	}
	p.session_id_len = 32;
	p.version = ND_U16();
	p.cipher_suite = ND_U16();
	for (int b = 0; b < 48; b++) {
		p.master_secret[b] = sym_ms(b) ? ND_U8() : 0;
	}
	for (int b = 0; b < 32; b++) {
		p.session_id[b] = oid[b];
	}
	p0 = p;

	/* ---- pre-state: assume R, read off the abstract map ---- */
	c17_read_entries(pre);
	ASSUME(c17_repr_ok(&cc, pre, NENT, pre_order));
	c17_mask(key, oid, omid);
	match = CAP;
	for (unsigned e = 0; e < CAP; e++) {
		if (e < NENT && c17_id_cmp(pre[e].id, omid) == 0) {
			match = e;
		}
	}

	/* ---- the operation ---- */
#if OPK == 0
	cc.vtable->save(&cc.vtable, (br_ssl_server_context *)0, &p);
#elif OPK == 1
	r = cc.vtable->load(&cc.vtable, (br_ssl_server_context *)0, &p);
#else
	br_ssl_session_cache_lru_forget(&cc, oid);
#endif

	/* ---- expected abstract transition ---- */
	for (unsigned e = 0; e < CAP; e++) {
		want[e] = pre[e];
		want_order[e] = pre_order[e];
	}
	cnt_after = NENT;
#if OPK == 0
	if (CAP > 0 && match == CAP) {
		unsigned slot;

#if NENT < CAP
		slot = NENT;
		cnt_after = NENT + 1;
		for (unsigned j = CAP; j > 1; j--) {
			want_order[j - 1] = pre_order[j - 2];
		}
#else
		slot = pre_order[CAP ? CAP - 1 : 0];     /* least recently used */
		for (unsigned j = CAP; j > 1; j--) {
			want_order[j - 1] = pre_order[j - 2];
		}
#endif
		want_order[0] = slot;
		for (unsigned e = 0; e < CAP; e++) {
			if (e == slot) {
				for (int i = 0; i < 32; i++) {
					want[e].id[i] = omid[i];
				}
				for (int i = 0; i < 48; i++) {
					want[e].ms[i] = p0.master_secret[i];
				}
				want[e].ver = p0.version;
				want[e].suite = p0.cipher_suite;
			}
		}
#if NENT == CAP && CAP >= 3
		for (unsigned e = 0; e < CAP; e++) {
			if (e == slot && pre[e].left != ADDR_NULL && pre[e].right != ADDR_NULL) {
				w_0 = 1;
			}
		}
#endif
#if NENT == CAP && CAP >= 1
		w_1 = 1;
#elif CAP >= 1
		w_2 = 1;
#endif
	} else {
#if CAP == 0 || NENT > 0
		w_3 = 1;
#endif
	}
#elif OPK == 1
	{
		int hit = 0;
		unsigned mpos = 0;

		for (unsigned e = 0; e < CAP; e++) {
			if (e == match && pre[e].ver != 0) {
				int ok = (p.version == pre[e].ver) & (p.cipher_suite == pre[e].suite);

				hit = 1;
				for (int i = 0; i < 48; i++) {
					if (p.master_secret[i] != pre[e].ms[i]) {
						ok = 0;
					}
				}
				CHECK(r == 1, "load finds the enabled entry that holds the ID");
				CHECK(ok, "load returns exactly that entry's version, suite and master secret");
			}
		}
		if (hit) {
			/* move to front, others keep their relative order */
			for (unsigned j = 0; j < CAP; j++) {
				if (j < NENT && pre_order[j] == match) {
					mpos = j;
				}
			}
			for (unsigned j = CAP; j > 1; j--) {
				if (j - 1 <= mpos) {
					want_order[j - 1] = pre_order[j - 2];
				}
			}
			want_order[0] = match;
#if NENT > 0
			w_4 = 1;
#endif
#if NENT > 1
			if (mpos > 0) {
				w_5 = 1;
			}
#endif
		} else {
			CHECK(r == 0, "load fails when no enabled entry holds the ID");
			CHECK(p.version == p0.version && p.cipher_suite == p0.cipher_suite,
				"failed load leaves params untouched");
			w_6 = 1;
		}
	}
#else
	for (unsigned e = 0; e < CAP; e++) {
		if (e == match) {
			want[e].ver = 0;
		}
	}
	if (match != CAP) {
#if NENT > 0
		w_7 = 1;
#endif
	} else {
		w_8 = 1;
	}
#endif

	/* ---- post-state ---- */
	CHECK(cc.store_ptr == (size_t)100 * cnt_after, "store_ptr = 100 * number of entries of the abstract map");
	CHECK(cc.store == c17_store && cc.store_len == STORE_LEN && cc.init_done == 1
		&& cc.hash == &c17_hash, "context fields other than head/tail/root/store_ptr unchanged");
	c17_read_entries(post);
#if OPK == 0 && NENT < CAP
	if (cnt_after == NENT) {
		CHECK(c17_repr_ok(&cc, post, NENT, post_order), "representation invariant holds after the operation");
	} else {
		CHECK(c17_repr_ok(&cc, post, NENT + 1, post_order),
			"representation invariant holds after the operation (one more entry)");
	}
#else
	CHECK(c17_repr_ok(&cc, post, NENT, post_order), "representation invariant holds after the operation");
#endif
	for (unsigned j = 0; j < CAP; j++) {
		if (j < cnt_after) {
			CHECK(post_order[j] == want_order[j],
				"recency order after the operation is the abstract LRU map's");
		}
	}
	for (unsigned e = 0; e < CAP; e++) {
		if (e < cnt_after) {
			CHECK(same_payload(&post[e], &want[e]),
				"entry payloads (masked ID, version, suite, master secret) are the abstract LRU map's");
		} else {
			CHECK(same_payload(&post[e], &pre[e]) && post[e].prev == pre[e].prev
				&& post[e].next == pre[e].next && post[e].left == pre[e].left
				&& post[e].right == pre[e].right,
				"store beyond store_ptr is not written");
		}
	}
	{
		int ok = 1;
		for (int i = 0; i < 32; i++) {
			if (cc.index_key[i] != key[i] || p.session_id[i] != oid[i]) {
				ok = 0;
			}
		}
		CHECK(ok, "index key and the caller's session ID are not modified");
	}
	CHECK(c17_hmac_bad == 0 && c17_drbg_calls == 0,
		"mask_id drives the HMAC seam as documented; no re-keying");
#if OPK == 0
#if NENT == CAP && CAP >= 3
	if (w_0) { WITNESS_POINT("save evicts a tree node that has two children"); }
#endif
#if NENT == CAP && CAP >= 1
	if (w_1) { WITNESS_POINT("save into a full cache (eviction)"); }
#elif CAP >= 1
	if (w_2) { WITNESS_POINT("save into a fresh slot"); }
#endif
#if CAP == 0 || NENT > 0
	if (w_3) { WITNESS_POINT("save rejected: no room at all, or ID still held"); }
#endif
#elif OPK == 1
#if NENT > 0
	if (w_4) { WITNESS_POINT("load hit"); }
#endif
#if NENT > 1
	if (w_5) { WITNESS_POINT("load hit on an entry that is not the most recently used"); }
#endif
	if (w_6) { WITNESS_POINT("load miss"); }
#else
#if NENT > 0
	if (w_7) { WITNESS_POINT("forget of a held ID"); }
#endif
	if (w_8) { WITNESS_POINT("forget of an unknown ID"); }
#endif
	WITNESS_POINT("operation completes from some valid state");
	return 0;
}
