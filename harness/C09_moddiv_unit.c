/*
 * C09 (main session): the modular co-reduction step of br_i15_moddiv / br_i31_moddiv
 * (static co_reduce_mod + finish_mod, reached by #include of the real file):
 *     a <- (a*pa + b*pb) / 2^W  mod m ,   b <- (a*qa + b*qb) / 2^W  mod m ,   results in [0, m)
 * for EVERY odd modulus of LEN words (including moduli that fill their top word, where the
 * intermediate value needs the extra top bit), every a, b < m and every factor combination the
 * caller can produce (|pa| + |pb| <= 2^W, |qa| + |qb| <= 2^W).
 *   -DIMPL=15|31   -DLEN=1|2
 */
#include "common.h"
#include "inner.h"
#ifndef IMPL
#define IMPL 15
#endif
#ifndef LEN
#define LEN 1
#endif
#if IMPL == 15
#include "src/int/i15_moddiv.c"
typedef uint16_t word;
#define W 15
#else
#include "src/int/i31_moddiv.c"
typedef uint32_t word;
#define W 31
#endif
#define WMASK ((((uint64_t)1) << W) - 1)
/* widest type the reference arithmetic needs (a 128-bit divider costs the solver minutes) */
#if IMPL == 15 && LEN == 1
typedef int32_t big; typedef uint32_t ubig;
#else
typedef int64_t big; typedef uint64_t ubig;
#endif

static ubig val(const word *x)
{
	ubig v = 0;
	for (int i = LEN - 1; i >= 0; i --) v = (v << W) | x[i];
	return v;
}
static int64_t absv(int64_t x) { return x < 0 ? -x : x; }

int main(void)
{
	word a[LEN], b[LEN], m[LEN];
#ifdef PA
	int64_t pa = PA, pb = PB, qa = QA, qb = QB;      /* factor tuple concrete per query */
#else
	int64_t pa = (int32_t)ND_U32(), pb = (int32_t)ND_U32(), qa = (int32_t)ND_U32(), qb = (int32_t)ND_U32();
#endif
	for (int i = 0; i < LEN; i ++) {
		a[i] = (word)(ND_U32() & WMASK); b[i] = (word)(ND_U32() & WMASK); m[i] = (word)(ND_U32() & WMASK);
	}
#ifdef MC0
	{ static const word mc[2] = { MC0, MC1 }; for (int i = 0; i < LEN; i ++) m[i] = mc[i]; }   /* modulus concrete per query */
#endif
	ASSUME(m[0] & 1);
	ASSUME(m[LEN - 1] != 0);
#ifdef TOPFULL
	ASSUME(m[LEN - 1] >> (W - 1));            /* modulus fills its top word */
#endif
	ubig A = val(a), B = val(b), M = val(m);
	ASSUME(A < M && B < M);
	ASSUME(absv(pa) + absv(pb) <= ((int64_t)1 << W));
	ASSUME(absv(qa) + absv(qb) <= ((int64_t)1 << W));
#ifdef MC0
	uint32_t m0i = 1;      /* -1/m[0] mod 2^W by Newton iteration (constant-folded for a concrete modulus) */
	for (int i = 0; i < 5; i ++) m0i = (uint32_t)((uint64_t)m0i * (2 - (uint64_t)m[0] * m0i) & WMASK);
	m0i = (uint32_t)((0 - (uint64_t)m0i) & WMASK);
#else
	uint32_t m0i = ND_U32() & (uint32_t)WMASK;
#endif
	ASSUME((((uint64_t)m0i * m[0] + 1) & WMASK) == 0);      /* m0i = -1/m[0] mod 2^W (br_i15_ninv15 / br_i31_ninv31, decided separately) */

	co_reduce_mod(a, b, LEN, (int32_t)pa, (int32_t)pb, (int32_t)qa, (int32_t)qb, m, (word)m0i);

	for (int i = 0; i < LEN; i ++) CHECK((a[i] >> W) == 0 && (b[i] >> W) == 0, "results are clean W-bit words");
	ubig A2 = val(a), B2 = val(b);
	CHECK(A2 < M && B2 < M, "results are fully reduced (< m)");
	/* A2 * 2^W == A*pa + B*pb (mod m): compare residues of both sides made non-negative */
	{
		/* a' in [0, m) with a' * 2^W == S (mod m), S = a*pa + b*pb, |S| <= m * 2^W, is equivalent to
		   a' * 2^W - S == m * t with t == S * m0i (mod 2^W) and -2^W < t < 2^(W+1), i.e.
		   t in { f - 2^W, f, f + 2^W } for f = (S * m0i) mod 2^W: no division needed */
		big S = (big)A * (big)pa + (big)B * (big)pb;
		big f = (big)(((ubig)S * (ubig)m0i) & WMASK);
		big d = (big)(A2 << W) - S;
		CHECK(d == (big)M * f || d == (big)M * (f - ((big)1 << W)) || d == (big)M * (f + ((big)1 << W)), "a' * 2^W == a*pa + b*pb (mod m)");
		S = (big)A * (big)qa + (big)B * (big)qb;
		f = (big)(((ubig)S * (ubig)m0i) & WMASK);
		d = (big)(B2 << W) - S;
		CHECK(d == (big)M * f || d == (big)M * (f - ((big)1 << W)) || d == (big)M * (f + ((big)1 << W)), "b' * 2^W == a*qa + b*qb (mod m)");
	}
	WITNESS_POINT("co-reduction done");
	return 0;
}
