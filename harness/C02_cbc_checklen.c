/*
 * C02/C05/C16: cbc_check_length admits exactly the record body lengths that
 * RFC 5246 6.2.3.2 allows for a CBC-protected record, for EVERY rlen:
 *   a whole number of cipher blocks, at least (explicit IV +) MAC + 1 padding
 *   byte, at most (explicit IV +) 16384 plaintext + MAC + 256 padding.
 * cbc_decrypt relies on it ("the total length is supposed to have been
 * verified by the caller") and hands the length to the block cipher's
 * CBC-decryption loop.
 */
#include "common.h"
#include "stubs_rec.h"
#include "src/ssl/ssl_rec_cbc.c"

#ifndef ML
#define ML 20
#endif
#ifndef EXPL
#define EXPL 1
#endif

int main(void)
{
	unsigned char key[16], mkey[ML], iv[16];
	ND_BYTES(key, 16); ND_BYTES(mkey, ML); ND_BYTES(iv, 16);
	br_sslrec_in_cbc_context c1;
	in_cbc_init(&c1, &toy_cbcdec_vtable, key, 16, 0, mkey, ML, ML, EXPL ? NULL : iv);
	size_t rlen = ND_SIZE();
	int ok = c1.vtable->inner.check_length((const br_sslrec_in_class *const *)&c1.vtable, rlen);
	size_t iv_len = EXPL ? TOY_BLK : 0;
	int ref = (rlen % TOY_BLK) == 0
		&& rlen >= iv_len + ML + 1
		&& rlen <= iv_len + 16384 + ML + 256;
	if (ref) { WITNESS_POINT("an admissible length"); }
	if ((rlen % TOY_BLK) != 0 && rlen > 40 && rlen < 200) { WITNESS_POINT("a length that is not a whole number of blocks"); }
	CHECK(!ok || (rlen % TOY_BLK) == 0, "cbc_check_length admits only whole numbers of cipher blocks");
	CHECK(!ok || (rlen >= iv_len + ML + 1 && rlen <= iv_len + 16384 + ML + 256), "cbc_check_length admits only lengths within the RFC bounds");
	CHECK(!ref || ok, "cbc_check_length admits every conformant CBC record length");
	return 0;
}
