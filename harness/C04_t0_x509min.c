/*
 * C04 (T0 part): native words of x509_minimal.c (E2 extraction by
 * encoders/t0tool.py), each against a reference written from the comments of
 * x509_minimal.t0 / bearssl_x509.h.
 *
 * -DMODE=0  match-server-name ( -- bool ): the name in the pad (length byte +
 *           bytes) against the expected server name.  Reference: no expected
 *           name -> 0; equal length and equal bytes up to ASCII case -> -1;
 *           found name "*." rest: the expected name is label "." rest' with
 *           label non-empty, rest' = everything after its FIRST dot, and rest'
 *           equals rest up to ASCII case -> -1 (one whole left-most label, no
 *           other wildcard form); otherwise 0.
 * -DMODE=1  check-validity-range ( na-days na-seconds nb-days nb-seconds -- int ):
 *           -1 / 0 / +1 by lexicographic comparison of (days, seconds) with the
 *           validation time: configured time, the system clock (time() at the
 *           link seam) when the configured time is 0/0, or the verdict of the
 *           itime callback (anything outside -1..1: BR_ERR_X509_TIME_UNKNOWN).
 * -DMODE=2  copy-name-element ( bool offbuf -- ) and -DMODE=3 copy-name-SAN
 *           ( bool tag -- ): status 1 and the value as a zero-terminated string
 *           iff the value was decoded and value length + 1 fits the buffer,
 *           else status -1; nothing outside the selected element changes.
 * -DMODE=4  do-rsa-vrfy ( nlen elen -- err ), -DMODE=5 do-ecdsa-vrfy
 *           ( curve qlen -- err ): key type of the issuer key must be the
 *           signature's, the verifier must be configured, it is given the
 *           certificate signature, the hash length / TBS hash and the key in
 *           pkey_data, and 0 is returned only if it accepts (RSA: and the
 *           recovered hash equals the TBS hash).
 */
#define T0N_PRE_INCLUDE "C05_t0f.h"
#define T0N_NO_RUN 1
#include "t0n_x509min.c"
#include "t0n_x509min_ops.h"
void T0N_RUN_FN(void *t0ctx) { (void)t0ctx; }
#ifndef MODE
#define MODE 0
#endif
#define NB 8

static int
fold(int x) { return (x >= 'A' && x <= 'Z') ? x + ('a' - 'A') : x; }

#if MODE == 1
static long long now_x;
time_t time(time_t *t) { (void)t; return (time_t)now_x; }
static int it_ret, it_calls; static uint32_t it_a[4];
static int itime_cb(void *tctx, uint32_t nbd, uint32_t nbs, uint32_t nad, uint32_t nas)
{ (void)tctx; it_calls ++; it_a[0] = nbd; it_a[1] = nbs; it_a[2] = nad; it_a[3] = nas; return it_ret; }
#endif
#if MODE == 4 || MODE == 5
static T0N_CTXT *the;
static int v_calls, v_ok_sig, v_ok_key, v_ok_hash, v_ret;
static unsigned char v_out[64];
static uint32_t
rsa_vrfy(const unsigned char *x, size_t xlen, const unsigned char *hash_oid, size_t hash_len, const br_rsa_public_key *pk, unsigned char *hash_out)
{
	size_t i;
	(void)hash_oid;
	v_calls ++;
	v_ok_sig = (x == the->cert_sig && xlen == the->cert_sig_len);
	v_ok_hash = (hash_len == the->cert_sig_hash_len);
	v_ok_key = (pk->n == the->pkey_data);
	if (v_ok_key) { v_ok_key = (pk->e == the->pkey_data + pk->nlen); }
	the->key_usages = (unsigned char)pk->nlen;         /* smuggle the lengths out (field unused by the word) */
	the->num_certs = (uint32_t)pk->elen;
	for (i = 0; i < 64; i ++) if (i < hash_len) hash_out[i] = v_out[i];
	return (uint32_t)v_ret;
}
static uint32_t
ecdsa_vrfy(const br_ec_impl *impl, const void *hash, size_t hash_len, const br_ec_public_key *pk, const void *sig, size_t sig_len)
{
	v_calls ++;
	v_ok_sig = (sig == (const void *)the->cert_sig && sig_len == the->cert_sig_len);
	v_ok_hash = (hash == (const void *)the->tbs_hash && hash_len == the->cert_sig_hash_len && impl == the->iec);
	v_ok_key = (pk->q == the->pkey_data);
	the->key_usages = (unsigned char)pk->qlen;
	the->num_certs = (uint32_t)pk->curve;
	return (uint32_t)v_ret;
}
#endif

int
main(void)
{
	T0N_CTXT cc;
	T0N_CTXT *c = &cc;
	uint32_t d0;
	size_t i;
#ifdef NATIVE_REPLAY
	NATIVE_FILL(c, sizeof *c);
#endif
	T0F_DEPTH_AT(6);
	d0 = t0n_dpi;
	t0n_co = 0;
#if MODE == 0
	{
		static char sn[NB + 1];
		unsigned char nm[NB];
		size_t n1 = 0, n2 = ND_SIZE(), dot, k;
		int has = ND_U8() & 1, expect = 0, stop = 0;
		ASSUME(n2 <= NB);
		for (i = 0; i < NB; i ++) { sn[i] = (char)ND_U8(); nm[i] = ND_U8(); c->pad[1 + i] = nm[i]; }
		sn[NB] = 0;
		c->pad[0] = (unsigned char)n2;
		if (has) { c->server_name = sn; } else { c->server_name = 0; }
		ASSUME(sn[0] != '.');           /* an expected host name does not begin with a dot (see ASSUMPTIONS) */
		for (i = 0; i < NB; i ++) { if (!stop && sn[i] != 0) n1 ++; else stop = 1; }
		if (has) {
			/* exact, case-insensitive */
			if (n1 == n2) {
				int same = 1;
				for (i = 0; i < NB; i ++) if (i < n1 && fold((unsigned char)sn[i]) != fold(nm[i])) same = 0;
				if (same) expect = 1;
			}
			/* "*." rest against label "." rest' */
			if (!expect && n2 >= 2 && nm[0] == '*' && nm[1] == '.') {
				dot = NB + 1; stop = 0;
				for (i = 0; i < NB; i ++) if (!stop && i < n1 && sn[i] == '.') { dot = i; stop = 1; }
				if (dot <= NB && dot >= 1 && n1 - (dot + 1) == n2 - 2) {
					int same = 1;
					for (k = 0; k < NB; k ++) if (k < n2 - 2 && fold((unsigned char)sn[dot + 1 + k]) != fold(nm[2 + k])) same = 0;
					if (same) expect = 1;
				}
			}
		}
		C05_DISPATCH(c, C05_OP_match_server_name);
		CHECK(t0n_dpi == d0 + 1 && t0n_co == 0, "match-server-name pushes one value");
		CHECK(T0F_TOP(c, 0) == (expect ? 0xFFFFFFFFu : 0u), "match-server-name = reference matcher (exact case-insensitive, or one whole left-most label for a leading \"*.\")");
		if (!has) { WITNESS_POINT("no expected name"); }
		if (expect && n2 >= 2 && nm[0] == '*' && n1 != n2) { WITNESS_POINT("wildcard match"); }
		if (expect && nm[0] != '*') { WITNESS_POINT("exact match"); }
		if (has && !expect) { WITNESS_POINT("no match"); }
	}
#elif MODE == 1
	{
		uint32_t nad = ND_U32(), nas = ND_U32(), nbd = ND_U32(), nbs = ND_U32(), vd, vs;
#ifndef TPATH
#define TPATH 3
#endif
		int path = (TPATH < 3) ? TPATH : (ND_U8() % 3), expect;
		c->err = 0;
		if (path == 0) {                     /* callback */
			it_ret = ND_INT();
			c->itime = itime_cb; c->itime_ctx = 0;
		} else {
			c->itime = 0;
			if (path == 1) {                 /* configured time */
				c->days = ND_U32(); c->seconds = ND_U32();
				ASSUME(c->days != 0 || c->seconds != 0);
				vd = c->days; vs = c->seconds;
			} else {                         /* system clock */
				/* clock value = day * 86400 + second (written that way so that the reference needs no division) */
				uint32_t cd = 19000 + ND_U8(), cs = ND_U32();       /* a 256-day window around 2022 (the 64-bit division by 86400 is costly) */
				ASSUME(cs < 86400);
				now_x = (long long)cd * 86400 + cs;
				c->days = 0; c->seconds = 0;
				vd = cd + 719528; vs = cs;
			}
		}
		T0F_PUSH(c, nad); T0F_PUSH(c, nas); T0F_PUSH(c, nbd); T0F_PUSH(c, nbs);
		C05_DISPATCH(c, C05_OP_check_validity_range);
		if (path == 0) {
			CHECK(it_calls == 1 && it_a[0] == nbd && it_a[1] == nbs && it_a[2] == nad && it_a[3] == nas, "the time callback receives (notBefore days, seconds, notAfter days, seconds)");
			if (it_ret < -1 || it_ret > 1) {
				CHECK(t0n_co == 1 && c->err == BR_ERR_X509_TIME_UNKNOWN, "a callback verdict outside -1..1 ends validation with BR_ERR_X509_TIME_UNKNOWN");
#if TPATH == 0 || TPATH == 3
				WITNESS_POINT("callback: time unknown");
#endif
			} else {
				CHECK(t0n_co == 0 && t0n_dpi == d0 + 1 && (int32_t)T0F_TOP(c, 0) == it_ret && c->err == 0, "the callback's verdict is returned");
#if TPATH == 0 || TPATH == 3
				WITNESS_POINT("callback verdict");
#endif
			}
		} else {
			if (vd < nbd || (vd == nbd && vs < nbs)) expect = -1;
			else if (vd > nad || (vd == nad && vs > nas)) expect = 1;
			else expect = 0;
			CHECK(t0n_co == 0 && t0n_dpi == d0 + 1 && c->err == 0, "four operands replaced by one result, no error");
			CHECK((int32_t)T0F_TOP(c, 0) == expect, "-1 before notBefore, +1 after notAfter, 0 inside (lexicographic on days, seconds)");
#if TPATH != 0
			if (expect == 0) { WITNESS_POINT("inside the range"); }
			if (expect == -1 && vd == nbd) { WITNESS_POINT("same day, earlier second"); }
			if (expect == 1) { WITNESS_POINT("expired"); }
#endif
		}
	}
#elif MODE == 2 || MODE == 3
	{
		static br_name_element ne[2];
		static unsigned char oid0[4], oid1[4];
		static char b0[NB], b1[NB];
		char o0[NB], o1[NB];
		int st0, st1, ok = ND_U8() & 1, sel = -1;
		size_t vlen = ND_SIZE(), l0 = ND_SIZE(), l1 = ND_SIZE(), k;
		unsigned char val[NB];
		ASSUME(vlen <= NB && l0 >= 1 && l0 <= NB && l1 >= 1 && l1 <= NB);
		for (i = 0; i < NB; i ++) { val[i] = ND_U8(); c->pad[1 + i] = val[i]; o0[i] = b0[i] = (char)ND_U8(); o1[i] = b1[i] = (char)ND_U8(); }
		c->pad[0] = (unsigned char)vlen;
		for (i = 0; i < 4; i ++) { oid0[i] = ND_U8(); oid1[i] = ND_U8(); }
		ne[0].oid = oid0; ne[0].buf = b0; ne[0].len = l0; ne[0].status = st0 = ND_INT();
		ne[1].oid = oid1; ne[1].buf = b1; ne[1].len = l1; ne[1].status = st1 = ND_INT();
		c->name_elts = ne;
		c->num_name_elts = 2;
#if MODE == 2
		{
			int32_t off = (int32_t)ND_U32();
			ASSUME(off >= -1 && off <= 1);
			sel = off;
			T0F_PUSH(c, ok ? 0xFFFFFFFFu : 0u); T0F_PUSH(c, (uint32_t)off);
			C05_DISPATCH(c, C05_OP_copy_name_element);
		}
#else
		{
			uint32_t tag = ND_U8();
			ASSUME(tag == 1 || tag == 2 || tag == 6);
			/* reference selection: first element not yet filled that asks for this SAN type */
			if (st0 == 0 && oid0[0] == 0 && oid0[1] == tag) sel = 0;
			else if (st1 == 0 && oid1[0] == 0 && oid1[1] == tag) sel = 1;
			T0F_PUSH(c, ok ? 0xFFFFFFFFu : 0u); T0F_PUSH(c, tag);
			C05_DISPATCH(c, C05_OP_copy_name_SAN);
		}
#endif
		CHECK(t0n_dpi == d0 && t0n_co == 0, "both operands consumed");
		for (k = 0; k < 2; k ++) {
			char *bb = k ? b1 : b0; char *oo = k ? o1 : o0;
			size_t ll = k ? l1 : l0; int so = k ? st1 : st0;
			if ((int)k == sel) {
				if (ok && vlen + 1 <= ll) {
					CHECK(ne[k].status == 1, "value decoded and fits with its terminator: status 1");
					for (i = 0; i < NB; i ++) if (i < vlen) CHECK((unsigned char)bb[i] == val[i], "value bytes copied");
					for (i = 0; i < NB; i ++) if (i == vlen) CHECK(bb[i] == 0, "zero-terminated inside the buffer");
					for (i = 0; i < NB; i ++) if (i > vlen) CHECK(bb[i] == oo[i], "nothing written after the terminator");
					WITNESS_POINT("value copied");
				} else {
					CHECK(ne[k].status == -1, "value not decoded or too large for the buffer: status -1");
					for (i = 0; i < NB; i ++) CHECK(bb[i] == oo[i], "copy aborted: buffer untouched");
					if (ok) { WITNESS_POINT("value too large"); } else { WITNESS_POINT("value not decodable"); }
				}
			} else {
				CHECK(ne[k].status == so, "other elements keep their status");
				for (i = 0; i < NB; i ++) CHECK(bb[i] == oo[i], "other elements keep their buffer");
			}
		}
		if (sel < 0) { WITNESS_POINT("no element selected"); }
	}
#else
	{
		uint32_t a = ND_U32(), b = ND_U32();
		unsigned skt = ND_U8(), hl = ND_U8();
		int has = ND_U8() & 1, expect, same = 1;
		the = c;
		v_ret = ND_U8() & 1;
		ASSUME(hl <= 64);
		for (i = 0; i < 64; i ++) { v_out[i] = ND_U8(); c->tbs_hash[i] = ND_U8(); if (i < hl && v_out[i] != c->tbs_hash[i]) same = 0; }
		c->cert_signer_key_type = (unsigned char)skt;
		c->cert_sig_hash_len = (unsigned char)hl;
		c->cert_sig_hash_oid = 1;
		c->cert_sig_len = ND_U16();
		c->iec = 0;
#if MODE == 4
		ASSUME(a <= 520 && b <= 520 - a);
		if (has) { c->irsa = rsa_vrfy; } else { c->irsa = 0; }
		c->iecdsa = ecdsa_vrfy;
		T0F_PUSH(c, a); T0F_PUSH(c, b);
		C05_DISPATCH(c, C05_OP_do_rsa_vrfy);
		if (skt != BR_KEYTYPE_RSA) expect = BR_ERR_X509_WRONG_KEY_TYPE;
		else if (!has) expect = BR_ERR_X509_UNSUPPORTED;
		else if (!v_ret || !same) expect = BR_ERR_X509_BAD_SIGNATURE;
		else expect = 0;
		CHECK(t0n_dpi == d0 + 1 && t0n_co == 0 && (int32_t)T0F_TOP(c, 0) == expect, "do-rsa-vrfy: wrong key type / verifier missing / signature refused or hash mismatch / 0");
		if (skt == BR_KEYTYPE_RSA && has) {
			CHECK(v_calls == 1 && v_ok_sig && v_ok_hash && v_ok_key && c->key_usages == (unsigned char)a && c->num_certs == b, "RSA verifier given cert_sig, the hash length and the key (n, e) held in pkey_data");
		} else {
			CHECK(v_calls == 0, "no verifier call when the gate refuses");
		}
#else
		ASSUME(b <= 520);
		if (has) { c->iecdsa = ecdsa_vrfy; } else { c->iecdsa = 0; }
		c->irsa = rsa_vrfy;
		T0F_PUSH(c, a); T0F_PUSH(c, b);
		C05_DISPATCH(c, C05_OP_do_ecdsa_vrfy);
		if (skt != BR_KEYTYPE_EC) expect = BR_ERR_X509_WRONG_KEY_TYPE;
		else if (!has) expect = BR_ERR_X509_UNSUPPORTED;
		else if (!v_ret) expect = BR_ERR_X509_BAD_SIGNATURE;
		else expect = 0;
		CHECK(t0n_dpi == d0 + 1 && t0n_co == 0 && (int32_t)T0F_TOP(c, 0) == expect, "do-ecdsa-vrfy: wrong key type / verifier missing / signature refused / 0");
		if (skt == BR_KEYTYPE_EC && has) {
			CHECK(v_calls == 1 && v_ok_sig && v_ok_hash && v_ok_key && c->key_usages == (unsigned char)b && c->num_certs == a, "ECDSA verifier given the TBS hash, cert_sig and the key (curve, point in pkey_data)");
		} else {
			CHECK(v_calls == 0, "no verifier call when the gate refuses");
		}
#endif
		if (expect == 0) { WITNESS_POINT("signature accepted"); }
		if (expect == BR_ERR_X509_BAD_SIGNATURE) { WITNESS_POINT("signature refused"); }
		if (expect == BR_ERR_X509_WRONG_KEY_TYPE) { WITNESS_POINT("wrong key type"); }
		if (expect == BR_ERR_X509_UNSUPPORTED) { WITNESS_POINT("verifier missing"); }
	}
#endif
	return 0;
}
