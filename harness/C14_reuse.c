/*
 * C14.7 reset-and-reuse: a context that has processed (part of) a message A
 * and is then reset gives, for message B, exactly the output and tag a fresh
 * context gives -- no state of A survives the reset.  Message A (own nonce,
 * AAD of A2L bytes, data of D2L bytes, direction symbolic) is abandoned at a
 * SYMBOLIC stage: after reset / after aad_inject / after flip / after run /
 * after get_tag ("reset can be called at any time; it cancels any ongoing
 * computation").  Everything of A and B is symbolic; A and B share the key.
 */
#include "C14_api.h"

#ifndef A2L
#define A2L 21
#endif
#ifndef D2L
#define D2L 19
#endif

int main(void)
{
	unsigned char key[16], nonceA[NLA], aadA[A2L > 0 ? A2L : 1], datA[D2L > 0 ? D2L : 1], tagA[16];
	unsigned char nonceB[NLA], aadB[ALA], in[DLA], d1[DLA], d2[DLA], t1[16], t2[16];
	ND_BYTES(key, 16);
	ND_BYTES(nonceA, NLA);
	ND_BYTES(aadA, A2L > 0 ? A2L : 1);
	ND_BYTES(datA, D2L > 0 ? D2L : 1);
	ND_BYTES(nonceB, NLA);
	ND_BYTES(aadB, ALA);
	ND_BYTES(in, DLA);
	unsigned stage = ND_U8();
	int encA = ND_U8() & 1;
	ASSUME(stage <= 4);
	for (int i = 0; i < DLA; i++) d1[i] = d2[i] = in[i];

	aead_t a;
	A_init(&a, key);
	A_reset(&a, nonceA, NL, A2L, D2L, TL);
	if (stage >= 1) {
		A_aad(&a, aadA, A2L);
		if (stage >= 2) {
			A_flip(&a);
			if (stage >= 3) {
				A_run(&a, encA, datA, D2L);
				if (stage >= 4) A_get_tag(&a, tagA);
			}
		}
	}

	A_oneshot(&a, nonceB, aadB, DIR, d1, t1);

	aead_t b;
	A_init(&b, key);
	A_oneshot(&b, nonceB, aadB, DIR, d2, t2);

	for (int i = 0; i < DL; i++) CHECK(d1[i] == d2[i], "reused context: same output bytes as a fresh context");
	for (int i = 0; i < TL; i++) CHECK(t1[i] == t2[i], "reused context: same tag as a fresh context");
	if (stage == 0) { WITNESS_POINT("A abandoned right after reset"); }
	if (stage == 2) { WITNESS_POINT("A abandoned after flip"); }
	if (stage == 4) { WITNESS_POINT("A completed"); }
	return 0;
}
