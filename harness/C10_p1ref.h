/*
 * C10: reference for EMSA-PKCS1-v1_5 (RFC 8017 section 9.2), written from the
 * RFC, not from the code under test.
 *
 *   EM = 00 01 PS 00 T,  PS = FF x (emLen - |T| - 3),  |PS| >= 8
 *   T  = DER(DigestInfo{ AlgorithmIdentifier{ OID, [NULL] }, OCTET STRING H })
 *
 * The DER prefixes WITH the NULL parameters are the literal tables of
 * RFC 8017 section 9.2 note 1; the form WITHOUT parameters is obtained by
 * dropping "05 00" and decrementing the two enclosing SEQUENCE lengths by 2.
 * For "no OID" (TLS 1.0/1.1 MD5||SHA-1) T = H.
 *
 * OIDSEL: 0 = no OID, 1 = SHA-1, 2 = SHA-256, 3 = SHA-384, 4 = SHA-512,
 * 5 = SHA-224.   HL = hash length.
 */
#ifndef C10_P1REF_H
#define C10_P1REF_H

#ifndef OIDSEL
#define OIDSEL 1
#endif

#if OIDSEL == 1
#define P1_OID BR_HASH_OID_SHA1
#define P1_STDHL 20
static const unsigned char p1_rfc_prefix[] = {
	0x30, 0x21, 0x30, 0x09, 0x06, 0x05, 0x2b, 0x0e, 0x03, 0x02, 0x1a,
	0x05, 0x00, 0x04, 0x14 };
#elif OIDSEL == 2
#define P1_OID BR_HASH_OID_SHA256
#define P1_STDHL 32
static const unsigned char p1_rfc_prefix[] = {
	0x30, 0x31, 0x30, 0x0d, 0x06, 0x09, 0x60, 0x86, 0x48, 0x01, 0x65,
	0x03, 0x04, 0x02, 0x01, 0x05, 0x00, 0x04, 0x20 };
#elif OIDSEL == 3
#define P1_OID BR_HASH_OID_SHA384
#define P1_STDHL 48
static const unsigned char p1_rfc_prefix[] = {
	0x30, 0x41, 0x30, 0x0d, 0x06, 0x09, 0x60, 0x86, 0x48, 0x01, 0x65,
	0x03, 0x04, 0x02, 0x02, 0x05, 0x00, 0x04, 0x30 };
#elif OIDSEL == 4
#define P1_OID BR_HASH_OID_SHA512
#define P1_STDHL 64
static const unsigned char p1_rfc_prefix[] = {
	0x30, 0x51, 0x30, 0x0d, 0x06, 0x09, 0x60, 0x86, 0x48, 0x01, 0x65,
	0x03, 0x04, 0x02, 0x03, 0x05, 0x00, 0x04, 0x40 };
#elif OIDSEL == 5
#define P1_OID BR_HASH_OID_SHA224
#define P1_STDHL 28
static const unsigned char p1_rfc_prefix[] = {
	0x30, 0x2d, 0x30, 0x0d, 0x06, 0x09, 0x60, 0x86, 0x48, 0x01, 0x65,
	0x03, 0x04, 0x02, 0x04, 0x05, 0x00, 0x04, 0x1c };
#else
#define P1_OID ((const unsigned char *)0)
#define P1_STDHL 36
#endif

#ifndef HL
#define HL P1_STDHL
#endif
#if HL != P1_STDHL
#error "C10_p1ref.h: the RFC tables are for the standard hash length of each OID"
#endif

#if OIDSEL != 0
#if OIDSEL == 1
#define P1_TA 15                                 /* DigestInfo header, with NULL */
#else
#define P1_TA 19
#endif
#define P1_TB (P1_TA - 2)                        /* without NULL */
typedef char p1_ta_is_table_size[(sizeof p1_rfc_prefix == P1_TA) ? 1 : -1];
#else
#define P1_TA 0
#define P1_TB 0
#endif

/*
 * Does em[0..emlen) equal 00 01 FF.. 00 <header form> H for some H?
 * form: 0 = with NULL parameters (or no DigestInfo when OIDSEL == 0),
 *       1 = parameters absent.
 * Everything but H is fixed, so this is a byte-wise comparison with a
 * template whose length is concrete.
 */
static int
p1_ref_match(const unsigned char *em, int emlen, int form)
{
	int tl = (form == 0 ? P1_TA : P1_TB) + HL;      /* |T| */
	int ps = emlen - tl - 3;
	int ok = 1, i, pos;

	if (ps < 8) return 0;
	if (em[0] != 0x00) ok = 0;
	if (em[1] != 0x01) ok = 0;
	for (i = 0; i < ps; i++) if (em[2 + i] != 0xFF) ok = 0;
	pos = 2 + ps;
	if (em[pos] != 0x00) ok = 0;
	pos++;
#if OIDSEL != 0
	for (i = 0; i < P1_TA; i++) {
		unsigned b = p1_rfc_prefix[i];
		if (form == 1) {
			/* drop the "05 00" (the two bytes before "04 len") and fix lengths */
			if (i == P1_TA - 4 || i == P1_TA - 3) continue;
			if (i == 1 || i == 3) b -= 2;
		}
		if (em[pos] != b) ok = 0;
		pos++;
	}
#endif
	/* pos now is the first byte of H; by construction pos + HL == emlen */
	if (pos + HL != emlen) ok = 0;
	return ok;
}

static int
p1_ref_accepts(const unsigned char *em, int emlen)
{
#if OIDSEL != 0
	return p1_ref_match(em, emlen, 0) || p1_ref_match(em, emlen, 1);
#else
	return p1_ref_match(em, emlen, 0);
#endif
}

#endif
