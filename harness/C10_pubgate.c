/*
 * C10.5a: gates of the RSA public operation, br_rsa_iNN_public (real
 * src/rsa/rsa_iNN_pub.c linked with the real src/int/iNN_*.c big-integer
 * code, toy sizes), C10_IMPL in {15, 31, 32, 62}.
 *
 * Contract (bearssl_rsa.h, br_rsa_public):
 *   - modulus length = stored length minus leading zero bytes; if it is 0,
 *     larger than BR_MAX_RSA_SIZE/8, or different from xlen: returns 0 and
 *     x[] is unmodified;
 *   - otherwise returns 1 <=> modulus odd and x < modulus (numerically).
 * C10_NL = stored modulus length (ALL bytes symbolic, so the number of
 * leading zero bytes is symbolic), C10_XL = xlen, C10_EL = exponent length;
 * concrete per query.  C10_BIGN=1: the first modulus byte is 0x80
 * (used for the over-long modulus query, where nothing else matters).
 * C10_ARITH=1 additionally: exponent C10_E (1 byte, concrete): on success
 * x' == x^e mod n, reference on 64-bit integers (needs C10_XL <= 2).
 */
#include "common.h"
#include "inner.h"

#ifndef C10_IMPL
#define C10_IMPL 15
#endif
#if C10_IMPL == 15
#define PUB br_rsa_i15_public
#elif C10_IMPL == 31
#define PUB br_rsa_i31_public
#elif C10_IMPL == 32
#define PUB br_rsa_i32_public
#else
#define PUB br_rsa_i62_public
#endif
#ifndef C10_NL
#define C10_NL 3
#endif
#ifndef C10_XL
#define C10_XL 2
#endif
#ifndef C10_EL
#define C10_EL 1
#endif
#ifndef C10_BIGN
#define C10_BIGN 0
#endif
#ifndef C10_ARITH
#define C10_ARITH 0
#endif

#include "C10_modpow_stub.h"

int main(void)
{
	unsigned char n[C10_NL + 1], e[C10_EL + 1], x[C10_XL + 1], x0[C10_XL + 1];
	br_rsa_public_key pk;
	int i, k;

	ND_BYTES(n, C10_NL);
	ND_BYTES(e, C10_EL);
#if C10_ARITH
	e[C10_EL - 1] = C10_E;
#endif
	for (i = 0; i < C10_XL + 1; i++) x[i] = x0[i] = ND_U8();
#if C10_BIGN
	n[0] = 0x80;                    /* concrete, so that symex sees the early return */
#endif
	pk.n = n; pk.nlen = C10_NL; pk.e = e; pk.elen = C10_EL;

	uint32_t r = PUB(x, C10_XL, &pk);

	CHECK(r == 0 || r == 1, "public returns 0 or 1");
	CHECK(x[C10_XL] == x0[C10_XL], "public writes nothing past xlen");

#if C10_BIGN
	CHECK(r == 0, "public returns 0 for a modulus longer than BR_MAX_RSA_SIZE");
	for (i = 0; i < C10_XL; i++) CHECK(x[i] == x0[i], "x[] unmodified for an over-long modulus");
	WITNESS_POINT("over-long modulus refused");
	return 0;
#else
	/* reference: strip leading zero bytes, compare as integers */
	int lz = 0, stop = 0;
	for (i = 0; i < C10_NL; i++) { if (!stop && n[i] == 0) lz++; else stop = 1; }
	int nl = C10_NL - lz;
	if (nl == 0 || nl > (BR_MAX_RSA_SIZE >> 3) || nl != C10_XL) {
		CHECK(r == 0, "public returns 0 when modulus length is 0, too large, or differs from xlen");
		for (i = 0; i < C10_XL; i++) CHECK(x[i] == x0[i], "x[] unmodified on length mismatch");
		WITNESS_POINT("length gate refuses");
		return 0;
	}
#if C10_XL <= 7
	{
		uint64_t N = 0, X = 0;
		for (k = 0; k <= C10_NL; k++) if (lz == k)
			for (i = k; i < C10_NL; i++) N = (N << 8) | n[i];
		for (i = 0; i < C10_XL; i++) X = (X << 8) | x0[i];
		CHECK((r == 1) == ((N & 1) == 1 && X < N), "public succeeds iff modulus odd and x < modulus");
		if (r) {
#if C10_ARITH
			/* N < 2^16 here, so 32-bit products do not overflow */
			uint32_t N32 = (uint32_t)N, Y = 0, R = 1 % N32, B = (uint32_t)X;
			unsigned ee = C10_E;
			for (i = 0; i < 8; i++) { if (ee & 1) R = (R * B) % N32; B = (B * B) % N32; ee >>= 1; }
			for (i = 0; i < C10_XL; i++) Y = (Y << 8) | x[i];
			CHECK(Y == R, "public computes x^e mod n");
#elif !C10_REAL_MODPOW
			/* with the identity stand-in the decode/encode pair must give x back */
			for (i = 0; i < C10_XL; i++) CHECK(x[i] == x0[i], "decode_mod then encode returns the operand bytes");
#endif
			WITNESS_POINT("public succeeds");
		} else {
			WITNESS_POINT("value/parity gate refuses");
		}
	}
#endif
	return 0;
#endif
}
