/*
 * C13 HMAC: real src/mac/hmac.c and src/mac/hmac_ct.c over the real hash
 * files, compression functions = call-log oracle (C13_oracle.h), so every
 * result holds for every compression function.
 *
 *  -DHF=1..6   hash (1 md5, 2 sha1, 3 sha224, 4 sha256, 5 sha384, 6 sha512)
 *  -DMODE=
 *   1 KEY   br_hmac_key_init/init/update/out == RFC 2104 written on the plain
 *           hash API: H((K' ^ opad) || H((K' ^ ipad) || m)), K' = H(key) if
 *           the key is longer than the block.  KL key length, ML message
 *           length (fed as two updates split at MS), OL requested output
 *           length (0 = full).  Also: out() leaves the context unchanged and
 *           can be continued; br_hmac_size / get_digest.
 *   2 CT    br_hmac_outCT(ctx, data, len, MINL, MAXL) == RFC 2104 completion
 *           of the context over data[0..len) for EVERY len in LLO..LHI
 *           (default MINL..MAXL; concrete loop), every data[0..MAXL), every
 *           key state (ksi/kso symbolic), PL bytes already injected; the
 *           context is not modified; returned length; bytes of data beyond
 *           len do not matter (they are symbolic and unconstrained).
 *           With WITH_OUT (default) the same query checks for each len that
 *           br_hmac_update + br_hmac_out return that RFC 2104 completion too,
 *           i.e. outCT == out.
 */
#include "common.h"
#ifndef HF
#define HF 1
#endif
#if HF == 1
#define C13_UF_MD5 1
#define H_UM md5
#elif HF == 2
#define C13_UF_SHA1 1
#define H_UM sha1
#elif HF == 3
#define C13_UF_SHA2S 1
#define H_UM sha224
#elif HF == 4
#define C13_UF_SHA2S 1
#define H_UM sha256
#elif HF == 5
#define C13_UF_SHA2B 1
#define H_UM sha384
#elif HF == 6
#define C13_UF_SHA2B 1
#define H_UM sha512
#endif
#include "C13_oracle.h"
#if HF == 5 || HF == 6
#include "src/hash/sha2big.c"
#undef sha2big_round
#endif
#ifndef KL
#define KL 16
#endif
#ifndef ML
#define ML 20
#endif
#ifndef MAXL
#define MAXL 70
#endif
#ifndef MINL
#define MINL 0
#endif
#define H_MSGMAX ((KL) > (ML) ? (KL) : (ML))
#include "C13_hashdefs.h"

#ifndef MODE
#define MODE 2
#endif
#ifndef OL
#define OL 0
#endif
#ifndef MS
#define MS (ML / 2)
#endif
#ifndef PL
#define PL 13
#endif
#ifndef LLO
#define LLO MINL
#endif
#ifndef LHI
#define LHI MAXL
#endif
#ifndef WITH_OUT
#define WITH_OUT 1
#endif

static void
check_hmac_ctx_same(const br_hmac_context *a, const br_hmac_context *b)
{
	CHECK(a->dig.vtable == b->dig.vtable, "context unchanged: vtable");
	CHECK(a->dig.H_UM.count == b->dig.H_UM.count, "context unchanged: count");
	for (size_t i = 0; i < H_BS; i++) CHECK(a->dig.H_UM.buf[i] == b->dig.H_UM.buf[i], "context unchanged: block buffer");
	for (size_t i = 0; i < sizeof a->dig.H_UM.val / sizeof a->dig.H_UM.val[0]; i++)
		CHECK(a->dig.H_UM.val[i] == b->dig.H_UM.val[i], "context unchanged: chaining value");
	for (size_t i = 0; i < 64; i++) CHECK(a->kso[i] == b->kso[i], "context unchanged: kso");
	CHECK(a->out_len == b->out_len, "context unchanged: out_len");
}

#define EXP_OUT ((OL) > 0 && (OL) < H_OUTLEN ? (OL) : H_OUTLEN)

int main(void)
{
	const br_hash_class *vt = &H_VTABLE;
	c13_oracle_init();
	c13_seam_check();

#if MODE == 1
	unsigned char key[KL + 1], msg[ML + 1], kp[H_BS], blk[H_BS], inner[H_OUTLEN], ref[H_OUTLEN], mac[64];
	ND_BYTES(key, KL);
	ND_BYTES(msg, ML);
	/* RFC 2104 on the plain hash API (call order: key hash, ipad block,
	   opad block, message, final; the same order as hmac.c) */
	c13_A(0);
	{
		H_CTX ci, co;
		for (size_t i = 0; i < H_BS; i++) kp[i] = 0;
		if (KL > H_BS) {
			H_INIT(&ci);
			H_UPDATE(&ci, key, KL);
			H_OUT(&ci, kp);
		} else {
			for (size_t i = 0; i < KL; i++) kp[i] = key[i];
		}
		for (size_t i = 0; i < H_BS; i++) blk[i] = kp[i] ^ 0x36;
		H_INIT(&ci);
		H_UPDATE(&ci, blk, H_BS);
		for (size_t i = 0; i < H_BS; i++) blk[i] = kp[i] ^ 0x5C;
		H_INIT(&co);
		H_UPDATE(&co, blk, H_BS);
		H_UPDATE(&ci, msg, ML);
		H_OUT(&ci, inner);
		H_UPDATE(&co, inner, H_OUTLEN);
		H_OUT(&co, ref);
	}
	c13_B(0, 0);
	br_hmac_key_context kc;
	br_hmac_context hc, snap;
	ND_BYTES(&kc, sizeof kc);
	ND_BYTES(&hc, sizeof hc);
	br_hmac_key_init(&kc, vt, key, KL);
	CHECK(br_hmac_key_get_digest(&kc) == vt, "key context remembers the hash");
	br_hmac_init(&hc, &kc, OL);
	CHECK(br_hmac_size(&hc) == EXP_OUT, "br_hmac_size");
	CHECK(br_hmac_get_digest(&hc) == vt, "br_hmac_get_digest");
	br_hmac_update(&hc, msg, MS);
	br_hmac_update(&hc, msg + MS, ML - MS);
	snap = hc;
	size_t n = br_hmac_out(&hc, mac);
	CHECK(n == EXP_OUT, "br_hmac_out returns the output length");
	for (size_t i = 0; i < EXP_OUT; i++) CHECK(mac[i] == ref[i], "HMAC == RFC 2104 reference");
	check_hmac_ctx_same(&hc, &snap);
	/* a second HMAC from the same key context (key context is reusable) */
	{
		br_hmac_context h2;
		unsigned char mac2[64];
		c13_B(0, (KL > H_BS ? (KL + 1 + (HF >= 5 ? 16 : 8) + H_BS - 1) / H_BS : 0) + 2);
		br_hmac_init(&h2, &kc, OL);
		br_hmac_update(&h2, msg, ML);
		br_hmac_out(&h2, mac2);
		for (size_t i = 0; i < EXP_OUT; i++) CHECK(mac2[i] == ref[i], "second HMAC from the same key context");
	}
	WITNESS_POINT("HMAC vs RFC 2104 checked");
#elif MODE == 2
	unsigned char pre[PL + 1], data[MAXL + 1], out[64], ref[64], ref2[64], tmp[64];
	br_hmac_key_context kc;
	br_hmac_context hc, snap, h2;
	H_CTX ci, co;
	unsigned char mac2[64];
	ND_BYTES(kc.ksi, 64);
	ND_BYTES(kc.kso, 64);
	kc.dig_vtable = vt;
	ND_BYTES(pre, PL);
	ND_BYTES(data, MAXL);
	c13_X();
	br_hmac_init(&hc, &kc, OL);
	br_hmac_update(&hc, pre, PL);
	snap = hc;
	for (size_t len = LLO; len <= LHI; len++) {
		c13_recycle();
		/* side A: the function under test */
		c13_A(0);
		for (int i = 0; i < 64; i++) out[i] = 0;
		size_t n = br_hmac_outCT(&hc, data, len, MINL, MAXL, out);
		CHECK(n == EXP_OUT, "outCT returns the output length");
		check_hmac_ctx_same(&hc, &snap);
		/* RFC 2104 completion from the key states, on the plain hash API */
		{
			unsigned nA;
#if HF == 1
			nA = c13_md5_n[0];
#elif HF == 2
			nA = c13_sha1_n[0];
#elif HF <= 4
			nA = c13_sha2s_n[0];
#else
			nA = c13_sha2b_n[0];
#endif
			c13_B(0, 0);
			ci = hc.dig.H_UM;
			H_UPDATE(&ci, data, len);
			H_OUT(&ci, tmp);
			c13_B(0, nA - 1);
			H_INIT(&co);
			H_SETSTATE(&co, hc.kso, (uint64_t)H_BS);
			H_UPDATE(&co, tmp, H_OUTLEN);
			H_OUT(&co, ref);
		}
		for (size_t i = 0; i < EXP_OUT; i++) CHECK(out[i] == ref[i], "outCT == RFC 2104 completion over data[0..len)");
#if WITH_OUT
		/* br_hmac_update + br_hmac_out give the same RFC 2104 completion
		   (own oracle log: the call order differs from outCT's) */
		c13_A(1);
		ci = hc.dig.H_UM;
		H_UPDATE(&ci, data, len);
		H_OUT(&ci, tmp);
		H_INIT(&co);
		H_SETSTATE(&co, hc.kso, (uint64_t)H_BS);
		H_UPDATE(&co, tmp, H_OUTLEN);
		H_OUT(&co, ref2);
		c13_B(1, 0);
		h2 = hc;
		br_hmac_update(&h2, data, len);
		n = br_hmac_out(&h2, mac2);
		CHECK(n == EXP_OUT, "br_hmac_out returns the output length");
		for (size_t i = 0; i < EXP_OUT; i++) CHECK(mac2[i] == ref2[i], "update+out == RFC 2104 completion over data[0..len)");
#endif
	}
	WITNESS_POINT("outCT checked for every len");
#endif
	return 0;
}
