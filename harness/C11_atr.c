/*
 * C11.a: br_ecdsa_asn1_to_raw (real src/ec/ecdsa_atr.c) on EVERY input of
 * L bytes (L concrete per query, all bytes symbolic).
 *
 *  - accepts exactly what the reference reader of C11_asn1ref.h accepts
 *    (SEQUENCE{INTEGER,INTEGER}, consistent lengths, documented leniency),
 *    except that an accepted r = s = 0 yields length 0;
 *  - returned length is even; both halves have the common minimal length
 *    and hold r and s right-aligned (full functional equality with the
 *    reference, which reads only the first L bytes: so the result does not
 *    depend on anything past the input);
 *  - the documented buffer contract "new length < 2 * source length": the
 *    object handed over is exactly 2L-1 bytes, CBMC's bounds checks do the
 *    rest; bytes past max(L, returned length) are not written; on error the
 *    buffer is unchanged.
 *
 * -DFIXFROM=n: bytes n.. of the input are a fixed well-formed body (used for
 * the 130-byte case where 0x80 would have to be read as the length 128).
 * -DSTRICT=1 adds the checks for deviations that are NOT in the documented
 * leniency (negative INTEGER, empty INTEGER, 0x80 used as a length).
 */
#include "common.h"
#include "inner.h"
#include "C11_asn1ref.h"

#ifndef L
#define L 10
#endif
#ifndef STRICT
#define STRICT 0
#endif
#define BUFSZ ((2 * L) > 1 ? (2 * L - 1) : 1)
#define W (L > 0 ? L : 1)

int main(void)
{
	unsigned char in[BUFSZ], buf[BUFSZ];
	unsigned char rv[W], sv[W];
	c11_sigref ref;

	ND_BYTES(in, BUFSZ);
#ifdef FIXFROM
	/* long inputs: only the first FIXFROM bytes stay symbolic, the rest is a
	   fixed well-formed body  02 k <k x 01> 02 k' <k' x 01>  after a 2-byte header */
	for (size_t i = FIXFROM; i < L; i++) {
		size_t k = (L - 6) / 2;
		in[i] = (i == 2 || i == 4 + k) ? 0x02 : (i == 3) ? (unsigned char)k : (i == 5 + k) ? (unsigned char)(L - 6 - k) : 0x01;
	}
#endif
	for (size_t i = 0; i < BUFSZ; i++) buf[i] = in[i];

	size_t ix = ND_SIZE(), iy = ND_SIZE();
	ASSUME(iy < BUFSZ);

	size_t ret = br_ecdsa_asn1_to_raw(buf, L);

	c11_ref_parse(&ref, in, L, rv, sv, W);
	size_t mr = c11_siglen(rv, W), ms = c11_siglen(sv, W);
	size_t m = mr > ms ? mr : ms;

	CHECK(ret < 2 * (size_t)L || ret == 0, "documented bound: new length < 2 * source length");
	CHECK((ret & 1) == 0, "raw length is even");
	if (!ref.ok) {
		CHECK(ret == 0, "anything that is not SEQUENCE{INTEGER,INTEGER} with consistent lengths is rejected");
		WITNESS_POINT("some input is rejected");
	} else {
		/*
		 * ref.ok: the structure is right.  If moreover both INTEGERs
		 * are non-empty and non-negative the input is valid under the
		 * documented leniency and MUST be accepted.  Empty / negative
		 * INTEGERs are outside the documentation: without STRICT only
		 * "rejected, or converted with unsigned semantics" is
		 * required; with STRICT they must be rejected.
		 */
		int undocumented = ref.empty || ref.negative;
		if (!undocumented) {
			CHECK(ret == 2 * m, "every well-formed input is accepted; length = 2 * max significant length");
		} else {
			CHECK(ret == 0 || ret == 2 * m, "empty/negative INTEGER: rejected or read as unsigned");
#if STRICT
			CHECK(!(ret != 0 && ref.negative), "a negative INTEGER is rejected");
			CHECK(!(ret != 0 && ref.empty && !ref.negative), "an empty INTEGER is rejected");
#endif
		}
		if (ret != 0) {
			/* for every i < ret/2 (one symbolic index stands for all) */
			CHECK(ret == 2 * m, "length = 2 * max significant length");
			if (ret == 2 * m && ix < m) {
				CHECK(buf[ix] == rv[W - m + ix], "first half is r, right-aligned");
				CHECK(buf[m + ix] == sv[W - m + ix], "second half is s, right-aligned");
			}
		}
#if L >= 8
		if (ret != 0 && !undocumented) { WITNESS_POINT("some valid input is accepted"); }
#endif
#if L >= 9
		if (ret != 0 && !undocumented && ref.nonminimal) { WITNESS_POINT("some non-minimal (documented lenient) input is accepted"); }
#endif
	}
	/* for every position iy of the buffer (one symbolic index for all) */
	if (iy >= ret && (ret == 0 || iy >= L)) {
		CHECK(buf[iy] == in[iy], "bytes outside the result are untouched (whole buffer on error)");
	}
	return 0;
}
