/*
 * C01.b: record round trip.  The real max_plaintext / encrypt of one record
 * protection (src/ssl/ssl_rec_{cbc,gcm,ccm,chapol}.c), then the real
 * check_length / decrypt of a receiver context initialised with the same
 * keys, over toy primitives (stubs_rec.h, C01_stubs.h).
 *
 * Parameters (concrete per query):
 *   MODE   0 cbc, 1 gcm, 2 ccm, 3 chapol
 *   PLEN   payload length; or FULL=1: payload length = end - start, i.e.
 *          everything max_plaintext promises to fit in a BUF-byte buffer
 *   BUF    size of the output buffer (default PLEN + 160)
 *   cbc:   ML (MAC length), EXPL (1: TLS 1.1+ explicit IV, 0: TLS 1.0
 *          implicit IV with the 1/n-1 split of application data), TOY_BLK
 *   ccm:   TAGLEN (16 or 8)
 * Symbolic: payload bytes, record type, version, sequence number, keys, IVs.
 *
 * Oracle: the round-trip law plus the record format of RFC 5246 6.2
 * (type, version, length header; body length computed here from the RFC's
 * description of each protection), not a second run of the same code.
 */
#include "common.h"
#ifndef MODE
#define MODE 0
#endif
#ifndef ML
#define ML 20
#endif
#ifndef EXPL
#define EXPL 1
#endif
#ifndef TAGLEN
#define TAGLEN 16
#endif
#ifndef FULL
#define FULL 0
#endif
#ifndef PLEN
#define PLEN 20
#endif
#ifndef BUF
#define BUF (PLEN + 160)
#endif
#define PMAX BUF

#include "stubs_rec.h"
#include "C01_stubs.h"
/* the static functions are called directly (as the vtables of the same file
 * do): CBMC does not constant-fold the casted function pointers stored in the
 * br_sslrec_* vtables and would explore every candidate */
#if MODE == 0
#include "src/ssl/ssl_rec_cbc.c"
#define REC_MAX_PLAINTEXT cbc_max_plaintext
#define REC_ENCRYPT cbc_encrypt
#define REC_CHECK_LENGTH cbc_check_length
#define REC_DECRYPT cbc_decrypt
#elif MODE == 1
#include "src/ssl/ssl_rec_gcm.c"
#define REC_MAX_PLAINTEXT gcm_max_plaintext
#define REC_ENCRYPT gcm_encrypt
#define REC_CHECK_LENGTH gcm_check_length
#define REC_DECRYPT gcm_decrypt
#elif MODE == 2
#include "src/ssl/ssl_rec_ccm.c"
#define REC_MAX_PLAINTEXT ccm_max_plaintext
#define REC_ENCRYPT ccm_encrypt
#define REC_CHECK_LENGTH ccm_check_length
#define REC_DECRYPT ccm_decrypt
#else
#include "src/ssl/ssl_rec_chapol.c"
#define REC_MAX_PLAINTEXT chapol_max_plaintext
#define REC_ENCRYPT chapol_encrypt
#define REC_CHECK_LENGTH chapol_check_length
#define REC_DECRYPT chapol_decrypt
#endif

static unsigned char obuf[BUF], ibuf[BUF], P[PMAX];

/* body length of a record carrying n plaintext bytes (RFC 5246 6.2.3.x,
 * RFC 5288, RFC 6655, RFC 7905; CBC with the minimal padding) */
static size_t body_len(size_t n)
{
#if MODE == 0
	return (EXPL ? TOY_BLK : 0) + ((n + ML) / TOY_BLK + 1) * TOY_BLK;
#elif MODE == 1
	return 8 + n + 16;
#elif MODE == 2
	return 8 + n + TAGLEN;
#else
	return n + 16;
#endif
}

int main(void)
{
	uint64_t s = ND_U64();
#ifdef RTYPE
	int type = RTYPE;	/* concrete record type (TLS 1.0 CBC queries: the split decision is a branch on it) */
#else
	int type = ND_U8();
#endif
	unsigned ver = ND_U16();

#if MODE == 0
	unsigned char key[16], mkey[ML], iv[16];
	br_sslrec_out_cbc_context oc;
	br_sslrec_in_cbc_context ic;
	ND_BYTES(key, 16); ND_BYTES(mkey, ML); ND_BYTES(iv, 16);
	out_cbc_init(&oc, &toy_cbcenc_vtable, key, 16, NULL, mkey, ML, ML, EXPL ? NULL : iv);
	in_cbc_init(&ic, &toy_cbcdec_vtable, key, 16, NULL, mkey, ML, ML, EXPL ? NULL : iv);
	CHECK(oc.seq == 0 && ic.seq == 0, "init starts both sequence numbers at 0");
	CHECK(oc.vtable == &br_sslrec_out_cbc_vtable && ic.vtable == &br_sslrec_in_cbc_vtable, "init sets the vtables");
	oc.seq = s; ic.seq = s;
#elif MODE == 1
	unsigned char key[16], iv[4];
	br_sslrec_gcm_context oc, ic;
	ND_BYTES(key, 16); ND_BYTES(iv, 4);
	out_gcm_init(&oc, &toy_ctr_vtable, key, 16, &toy_ghash, iv);
	in_gcm_init(&ic, &toy_ctr_vtable, key, 16, &toy_ghash, iv);
	CHECK(oc.seq == 0 && ic.seq == 0, "init starts both sequence numbers at 0");
	CHECK(oc.vtable.out == &br_sslrec_out_gcm_vtable && ic.vtable.in == &br_sslrec_in_gcm_vtable, "init sets the vtables");
	oc.seq = s; ic.seq = s;
#elif MODE == 2
	unsigned char key[16], iv[4];
	br_sslrec_ccm_context oc, ic;
	ND_BYTES(key, 16); ND_BYTES(iv, 4);
	out_ccm_init(&oc, &toy_ctrcbc_vtable, key, 16, iv, TAGLEN);
	in_ccm_init(&ic, &toy_ctrcbc_vtable, key, 16, iv, TAGLEN);
	CHECK(oc.seq == 0 && ic.seq == 0, "init starts both sequence numbers at 0");
	CHECK(oc.vtable.out == &br_sslrec_out_ccm_vtable && ic.vtable.in == &br_sslrec_in_ccm_vtable, "init sets the vtables");
	oc.seq = s; ic.seq = s;
#else
	unsigned char key[32], iv[12];
	br_sslrec_chapol_context oc, ic;
	ND_BYTES(key, 32); ND_BYTES(iv, 12);
	out_chapol_init(&oc, &toy_chacha20, &toy_poly1305, key, iv);
	in_chapol_init(&ic, &toy_chacha20, &toy_poly1305, key, iv);
	CHECK(oc.seq == 0 && ic.seq == 0, "init starts both sequence numbers at 0");
	CHECK(oc.vtable.out == &br_sslrec_out_chapol_vtable && ic.vtable.in == &br_sslrec_in_chapol_vtable, "init sets the vtables");
	oc.seq = s; ic.seq = s;
#endif

	/* the plaintext area, asked the way make_ready_out asks for it */
	size_t a = 5, b = BUF - 5;
	REC_MAX_PLAINTEXT(&oc, &a, &b);
	CHECK(a >= 5 && a <= b && b <= BUF, "max_plaintext: 5 <= start <= end <= buffer size");
#if FULL
	const size_t plen = b - a;
#else
	const size_t plen = PLEN;
	CHECK(plen <= b - a, "harness sizing: PLEN fits the area max_plaintext offers in BUF");
#endif
	CHECK(plen <= PMAX && plen <= 16384, "area is at most 16384 bytes");
	for (size_t i = 0; i < PMAX; i++) {
		unsigned char x = ND_U8();
		P[i] = x;
		if (i < plen) obuf[a + i] = x;
	}

	size_t olen = plen;
	unsigned char *r = REC_ENCRYPT(&oc, type, ver, obuf + a, &olen);
	CHECK(r >= obuf && r <= obuf + a - 5, "encrypt: returned record starts inside the buffer, at least a header before the data");
	size_t off = (size_t)(r - obuf);
	CHECK(olen >= 5 && off + olen <= BUF, "encrypt: produced bytes end inside the buffer");

	/* TLS 1.0 CBC: application data of more than one byte is sent as 1 / n-1 */
	int split = (MODE == 0) && !EXPL && plen > 1 && type == BR_SSL_APPLICATION_DATA;
	size_t pos = off, done = 0;
	for (int k = 0; k < 2; k++) {
		if (k == 1 && !split) break;
		size_t frag = split ? (k == 0 ? 1 : plen - 1) : plen;
		size_t erl = body_len(frag);
		CHECK(pos + 5 + erl <= off + olen, "record lies inside the produced bytes");
		CHECK(obuf[pos] == (unsigned char)type, "header: record type");
		CHECK(br_dec16be(obuf + pos + 1) == ver, "header: version");
		size_t rl = br_dec16be(obuf + pos + 3);
		CHECK(rl == erl, "header: length field is the RFC body length for this fragment");
		/* transport: the receiver gets the bytes in its own buffer */
		for (size_t i = 0; i < 5 + erl; i++) ibuf[i] = obuf[pos + i];
		CHECK(REC_CHECK_LENGTH(&ic, rl), "receiver: check_length admits the record");
		size_t l2 = erl;
		unsigned char *q = REC_DECRYPT(&ic, ibuf[0], br_dec16be(ibuf + 1), ibuf + 5, &l2);
		CHECK(q != NULL, "receiver: decrypt accepts the record");
		if (q != NULL) {
			CHECK(l2 == frag, "receiver: plaintext length is the fragment length");
			CHECK(q >= ibuf + 5 && (size_t)(q - ibuf) + l2 <= 5 + erl, "receiver: plaintext lies inside the record body");
			for (size_t i = 0; i < frag; i++)
				CHECK(q[i] == P[done + i], "receiver: plaintext bytes are the payload bytes, in order");
		}
		done += frag;
		pos += 5 + erl;
	}
	CHECK(pos == off + olen, "returned length is exactly the record(s): length field == bytes produced - 5 per record");
	CHECK(done == plen, "all payload bytes delivered exactly once");
	CHECK(oc.seq == ic.seq && oc.seq == s + (split ? 2 : 1), "both sequence numbers advanced equally, once per record");
#if MODE == 0 && !EXPL && (FULL || PLEN > 1) && (!defined(RTYPE) || RTYPE == 23)
	if (split) { WITNESS_POINT("1/n-1 split round trip"); }
#endif
#if !(MODE == 0 && !EXPL && (FULL || PLEN > 1) && defined(RTYPE) && RTYPE == 23)
	if (!split) { WITNESS_POINT("single record round trip"); }
#endif
	return 0;
}
