/*
 * C14.5 br_ccm_reset gate and start state.  nonce_len, tag_len (size_t),
 * aad_len, data_len (uint64_t) and the nonce bytes are ALL symbolic.
 *   returns 1  iff  7 <= nonce_len <= 13
 *              and  tag_len in {4,6,8,10,12,14,16}
 *              and  data_len < 2^(8*(15-nonce_len))      (RFC 3610: l(m) fits L octets)
 *   returns 0 otherwise (and 0/1 only).
 * On acceptance the context is what RFC 3610 2.2/2.3 prescribes (closed form,
 * written here from the RFC over the toy block function):
 *   cbcmac = E(B_0), B_0 = flags || N || l(m);  flags = 64*[l(a)>0] + 8*((M-2)/2) + (L-1)
 *   buf[0..ptr) = encoding of l(a): none / 2 octets / FF FE + 4 / FF FF + 8
 *   tagmask = E(A_0),  ctr = A_1,  tag_len = M.
 * The nonce lives in the LAST nonce_len bytes of its buffer, so reading more
 * than nonce_len bytes is an out-of-bounds read.
 */
#include "common.h"
#include "C14_ref.h"

int main(void)
{
	unsigned char key[16], nbuf[13];
	ND_BYTES(key, 16);
	ND_BYTES(nbuf, 13);
	size_t nl = ND_SIZE(), tl = ND_SIZE();
	uint64_t al = ND_U64(), dl = ND_U64();
	const unsigned char *np = (nl <= 13) ? nbuf + (13 - nl) : nbuf;

	toy_ctrcbc_keys bc;
	br_ccm_context c;
	toy_ctrcbc_init(&bc.vtable, key, 16);
	br_ccm_init(&c, &bc.vtable);
	int r = br_ccm_reset(&c, np, nl, al, dl, tl);

	int ok_n = (nl >= 7 && nl <= 13);
	int ok_t = (tl == 4 || tl == 6 || tl == 8 || tl == 10 || tl == 12 || tl == 14 || tl == 16);
	int ok_d = 1;
	if (ok_n) {
		unsigned L = 15 - (unsigned)nl;                 /* 2..8 octets for l(m) */
		if (L < 8) ok_d = (dl < ((uint64_t)1 << (8 * L)));
	}
	int expect = ok_n && ok_t && ok_d;
	CHECK(r == 0 || r == 1, "br_ccm_reset returns 0 or 1");
	CHECK(r == expect, "br_ccm_reset accepts exactly the admissible (nonce_len, tag_len, data_len)");

	if (r == 1 && expect) {
		for (size_t n = 7; n <= 13; n++) {
			if (nl == n) {
				const unsigned char *N = nbuf + (13 - n);
				size_t L = 15 - n;
				unsigned char B[16], X[16], A[16], S[16];
				B[0] = (unsigned char)((al > 0 ? 64 : 0) + 8 * ((tl - 2) / 2) + (L - 1));
				for (size_t j = 0; j < n; j++) B[1 + j] = N[j];
				for (size_t j = 0; j < L; j++) B[15 - j] = (unsigned char)(dl >> (8 * j));
				for (int i = 0; i < 16; i++) X[i] = 0;
				ref_cbc_block(key, X, B);
				for (int i = 0; i < 16; i++) CHECK(c.cbcmac[i] == X[i], "CBC-MAC state after reset is E(B_0) of RFC 3610");
				ref_ccm_Ai(A, N, n, 0);
				toy_E(key, A, S);
				for (int i = 0; i < 16; i++) CHECK(c.tagmask[i] == S[i], "tag mask is S_0 = E(A_0)");
				ref_ccm_Ai(A, N, n, 1);
				for (int i = 0; i < 16; i++) CHECK(c.ctr[i] == A[i], "counter after reset is A_1");
			}
		}
		CHECK(c.tag_len == tl, "tag length recorded");
		/* l(a) prefix, RFC 3610 2.2 */
		unsigned char hdr[10];
		size_t hl;
		if (al == 0) {
			hl = 0;
		} else if (al < 0xFF00) {
			hl = 2; hdr[0] = (unsigned char)(al >> 8); hdr[1] = (unsigned char)al;
		} else if (al <= 0xFFFFFFFFu) {
			hl = 6; hdr[0] = 0xFF; hdr[1] = 0xFE;
			for (int j = 0; j < 4; j++) hdr[2 + j] = (unsigned char)(al >> (24 - 8 * j));
		} else {
			hl = 10; hdr[0] = 0xFF; hdr[1] = 0xFF;
			for (int j = 0; j < 8; j++) hdr[2 + j] = (unsigned char)(al >> (56 - 8 * j));
		}
		CHECK(c.ptr == hl, "length of the l(a) prefix buffered for the CBC-MAC");
		for (size_t j = 0; j < 10; j++) if (j < hl) CHECK(c.buf[j] == hdr[j], "l(a) prefix bytes per RFC 3610");
		if (hl == 0) { WITNESS_POINT("accepted, no AAD"); }
		if (hl == 2) { WITNESS_POINT("accepted, short AAD length form"); }
		if (hl == 6) { WITNESS_POINT("accepted, 32-bit AAD length form"); }
		if (hl == 10) { WITNESS_POINT("accepted, 64-bit AAD length form"); }
	}
	if (r == 0 && ok_n && ok_t) { WITNESS_POINT("rejected for data_len alone"); }
	if (r == 0 && !ok_n) { WITNESS_POINT("rejected for nonce_len"); }
	if (r == 0 && ok_n && !ok_t) { WITNESS_POINT("rejected for tag_len"); }
	return 0;
}
