/*
 * RECORDING stand-ins for the CBC record contexts (C20.b):
 *   - br_hmac_{key_init,init,update,out,outCT} at the link seam: a keyed toy
 *     MAC (16 one-byte slots, add / rotate-xor) that also notes, for every MAC
 *     computation started with br_hmac_init, the first 16 input bytes, the
 *     input length handed through br_hmac_update, the requested output length
 *     and the output bytes;
 *   - rec_cbcenc_vtable: the toy CBC encryption class of stubs_rec.h which
 *     notes the first block and the length of the data it is asked to encrypt.
 * BearSSL's record code uses one br_hmac_context at a time (init, update*,
 * out), so the running state is kept in globals.
 */
#ifndef C20_CBC_STUBS_H
#define C20_CBC_STUBS_H
#define NO_TOY_HMAC 1
#include "stubs_rec.h"

#define HREC_MAX 4
static unsigned hrec_n;
static unsigned char hrec_in[HREC_MAX][16];
static size_t hrec_inlen[HREC_MAX], hrec_outlen[HREC_MAX];
static unsigned char hrec_out[HREC_MAX][64];
static unsigned char hcur[16];
static size_t hcur_pos;

#define ENC_MAX 2
static unsigned encrec_n;
static unsigned char encrec_first[ENC_MAX][TOY_BLK];
static size_t encrec_len[ENC_MAX];

static void c20_rec_reset(void)
{
	hrec_n = 0;
	encrec_n = 0;
}

static void hcur_absorb(unsigned b)
{
	unsigned i = (unsigned)(hcur_pos & 15);
	unsigned char v = hcur[(i + 1) & 15];
	hcur[i] = (unsigned char)((unsigned char)(hcur[i] + b + 1) ^ (unsigned char)((v << 1) | (v >> 7)));
	hcur_pos++;
}
static void hcur_finish(size_t out_len, unsigned char *out)
{
	unsigned k = hrec_n - 1;
	for (int i = 0; i < 16; i++) hcur_absorb(0xA5 + out_len);
	for (size_t i = 0; i < out_len; i++) {
		out[i] = (unsigned char)(hcur[i & 15] + (i >> 4));
		if (k < HREC_MAX && i < 64) hrec_out[k][i] = out[i];
	}
}

void br_hmac_key_init(br_hmac_key_context *kc, const br_hash_class *d, const void *key, size_t len)
{
	kc->dig_vtable = d;
	for (int i = 0; i < 16; i++) kc->ksi[i] = (unsigned char)(i + 1);
	for (size_t i = 0; i < len; i++) kc->ksi[i & 15] = (unsigned char)((kc->ksi[i & 15] ^ ((const unsigned char *)key)[i]) + (i >> 4));
}
void br_hmac_init(br_hmac_context *ctx, const br_hmac_key_context *kc, size_t out_len)
{
	for (int i = 0; i < 16; i++) hcur[i] = kc->ksi[i];
	hcur_pos = 0;
	ctx->out_len = out_len;
	if (hrec_n < HREC_MAX) {
		for (int i = 0; i < 16; i++) hrec_in[hrec_n][i] = 0;
		hrec_inlen[hrec_n] = 0;
		hrec_outlen[hrec_n] = out_len;
	}
	hrec_n++;
}
void br_hmac_update(br_hmac_context *ctx, const void *data, size_t len)
{
	unsigned k = hrec_n - 1;
	(void)ctx;
	for (size_t i = 0; i < len; i++) {
		unsigned char b = ((const unsigned char *)data)[i];
		if (k < HREC_MAX && hcur_pos < 16) hrec_in[k][hcur_pos] = b;
		hcur_absorb(b);
	}
	if (k < HREC_MAX) hrec_inlen[k] += len;
}
size_t br_hmac_out(const br_hmac_context *ctx, void *out)
{
	hcur_finish(ctx->out_len, out);
	return ctx->out_len;
}
size_t br_hmac_outCT(const br_hmac_context *ctx, const void *data, size_t len, size_t min_len, size_t max_len, void *out)
{
	/* data length is secret/symbolic: fold the data into two bytes first */
	unsigned char a = 0, x = 0;
	__CPROVER_assert(min_len <= len && len <= max_len, "br_hmac_outCT precondition min_len <= len <= max_len");
	for (size_t i = 0; i < max_len; i++) {
		unsigned char b = ((const unsigned char *)data)[i];
		if (i < len) {
			a = (unsigned char)(a + b + 1);
			x = (unsigned char)(((x << 1) | (x >> 7)) ^ b);
		}
	}
	hcur_absorb(a);
	hcur_absorb(x);
	hcur_absorb((unsigned char)len);
	hcur_absorb((unsigned char)(len >> 8));
	hcur_finish(ctx->out_len, out);
	return ctx->out_len;
}

static const br_block_cbcenc_class rec_cbcenc_vtable;
static void rec_cbcenc_init(const br_block_cbcenc_class **c, const void *key, size_t len)
{
	toy_cbcenc_init(c, key, len);
	((toy_cbcenc *)(void *)c)->vtable = &rec_cbcenc_vtable;
}
static void rec_cbcenc_run(const br_block_cbcenc_class *const *c, void *iv, void *data, size_t len)
{
	if (encrec_n < ENC_MAX) {
		for (size_t i = 0; i < TOY_BLK; i++) encrec_first[encrec_n][i] = i < len ? ((unsigned char *)data)[i] : 0;
		encrec_len[encrec_n] = len;
	}
	encrec_n++;
	toy_cbcenc_run(c, iv, data, len);
}
static const br_block_cbcenc_class rec_cbcenc_vtable = { sizeof(toy_cbcenc), TOY_BLK, TOY_LOGBLK, rec_cbcenc_init, rec_cbcenc_run };
#endif
