/*
 * Cheap deterministic stand-ins for the AEAD building blocks, used behind
 * BearSSL's own seams by the C01 record round-trip harnesses (DESIGN.md 1.3
 * (b)).  Each one honours the interface contract documented in
 * inc/bearssl_block.h / inc/bearssl_hash.h:
 *
 *   toy_ctr      br_block_ctr_class: 16-byte blocks, 12-byte IV + 32-bit
 *                block counter; run() xors the key stream over the data
 *                (partial last block allowed) and RETURNS the updated counter;
 *   toy_ctrcbc   br_block_ctrcbc_class: ctr / mac / encrypt (CTR, then
 *                CBC-MAC over the OUTPUT) / decrypt (CBC-MAC over the INPUT,
 *                then CTR); the 16-byte counter is incremented big-endian on
 *                its last 4 bytes, one step per block;
 *   toy_ghash    br_ghash: y <- (y ^ block) "times" h per 16-byte block,
 *                last block implicitly zero padded;
 *   toy_chacha20 br_chacha20_run: 64-byte blocks, returns updated counter;
 *   toy_poly1305 br_poly1305_run: encrypts with ichacha (counter 1), tag over
 *                aad || ciphertext || lengths, keyed by key and nonce;
 *                encrypt != 0: encrypt then tag, else tag then decrypt.
 *
 * The "block cipher" is E_K(x) = rotate-bytes-left-by-one(x) ^ K: position
 * sensitive, but only wiring and xor (rule 4).  None of this is a unit under
 * test.
 */
#ifndef C01_STUBS_H
#define C01_STUBS_H
#include "inner.h"

/* ---- toy block function ------------------------------------------------ */
static void toy_E(const unsigned char *k, const unsigned char *in, unsigned char *out)
{
	unsigned char t[16];
	for (int i = 0; i < 16; i++) t[i] = (unsigned char)(in[(i + 1) & 15] ^ k[i]);
	for (int i = 0; i < 16; i++) out[i] = t[i];
}

/* ---- CTR class ----------------------------------------------------------- */
typedef struct { const br_block_ctr_class *vtable; unsigned char k[16]; } toy_ctr_keys;
static const br_block_ctr_class toy_ctr_vtable;
static void toy_ctr_init(const br_block_ctr_class **c, const void *key, size_t len)
{
	toy_ctr_keys *cc = (void *)c;
	cc->vtable = &toy_ctr_vtable;
	for (size_t i = 0; i < 16; i++) cc->k[i] = ((const unsigned char *)key)[i % len];
}
static uint32_t toy_ctr_run(const br_block_ctr_class *const *c, const void *iv, uint32_t ctr, void *data, size_t len)
{
	const toy_ctr_keys *cc = (const void *)c;
	unsigned char *buf = data;
	for (size_t u = 0; u < len; u += 16) {
		unsigned char blk[16], ks[16];
		for (int i = 0; i < 12; i++) blk[i] = ((const unsigned char *)iv)[i];
		br_enc32be(blk + 12, ctr);
		toy_E(cc->k, blk, ks);
		for (size_t i = 0; i < 16; i++)
			if (u + i < len) buf[u + i] ^= ks[i];
		ctr++;
	}
	return ctr;
}
static const br_block_ctr_class toy_ctr_vtable = { sizeof(toy_ctr_keys), 16, 4, toy_ctr_init, toy_ctr_run };

/* ---- CTR + CBC-MAC class --------------------------------------------------- */
typedef struct { const br_block_ctrcbc_class *vtable; unsigned char k[16]; } toy_ctrcbc_keys;
static const br_block_ctrcbc_class toy_ctrcbc_vtable;
static void toy_ctrcbc_init(const br_block_ctrcbc_class **c, const void *key, size_t len)
{
	toy_ctrcbc_keys *cc = (void *)c;
	cc->vtable = &toy_ctrcbc_vtable;
	for (size_t i = 0; i < 16; i++) cc->k[i] = ((const unsigned char *)key)[i % len];
}
static void toy_ctrcbc_ctr(const br_block_ctrcbc_class *const *c, void *ctr, void *data, size_t len)
{
	const toy_ctrcbc_keys *cc = (const void *)c;
	unsigned char *buf = data, *cb = ctr;
	for (size_t u = 0; u + 16 <= len; u += 16) {
		unsigned char ks[16];
		toy_E(cc->k, cb, ks);
		for (int i = 0; i < 16; i++) buf[u + i] ^= ks[i];
		br_enc32be(cb + 12, br_dec32be(cb + 12) + 1);
	}
}
static void toy_ctrcbc_mac(const br_block_ctrcbc_class *const *c, void *cbcmac, const void *data, size_t len)
{
	const toy_ctrcbc_keys *cc = (const void *)c;
	const unsigned char *buf = data;
	unsigned char *m = cbcmac;
	for (size_t u = 0; u + 16 <= len; u += 16) {
		unsigned char t[16];
		for (int i = 0; i < 16; i++) t[i] = (unsigned char)(m[i] ^ buf[u + i]);
		toy_E(cc->k, t, m);
	}
}
static void toy_ctrcbc_encrypt(const br_block_ctrcbc_class *const *c, void *ctr, void *cbcmac, void *data, size_t len)
{
	toy_ctrcbc_ctr(c, ctr, data, len);
	toy_ctrcbc_mac(c, cbcmac, data, len);
}
static void toy_ctrcbc_decrypt(const br_block_ctrcbc_class *const *c, void *ctr, void *cbcmac, void *data, size_t len)
{
	toy_ctrcbc_mac(c, cbcmac, data, len);
	toy_ctrcbc_ctr(c, ctr, data, len);
}
static const br_block_ctrcbc_class toy_ctrcbc_vtable = { sizeof(toy_ctrcbc_keys), 16, 4,
	toy_ctrcbc_init, toy_ctrcbc_encrypt, toy_ctrcbc_decrypt, toy_ctrcbc_ctr, toy_ctrcbc_mac };

/* ---- GHASH ------------------------------------------------------------------ */
static void toy_ghash(void *y, const void *h, const void *data, size_t len)
{
	unsigned char *yb = y;
	const unsigned char *buf = data;
	for (size_t u = 0; u < len; u += 16) {
		unsigned char t[16];
		for (size_t i = 0; i < 16; i++)
			t[i] = (unsigned char)(yb[i] ^ ((u + i < len) ? buf[u + i] : 0));
		toy_E(h, t, yb);
	}
}

/* ---- ChaCha20 / Poly1305 ------------------------------------------------------ */
static uint32_t toy_chacha20(const void *key, const void *iv, uint32_t ctr, void *data, size_t len)
{
	const unsigned char *k = key, *n = iv;
	unsigned char *buf = data;
	for (size_t u = 0; u < len; u += 64) {
		for (size_t i = 0; i < 64; i++)
			if (u + i < len)
				buf[u + i] ^= (unsigned char)(k[i & 31] ^ n[i % 12] ^ (unsigned char)(ctr + i));
		ctr++;
	}
	return ctr;
}
static uint64_t toy_pmix(uint64_t a, unsigned b)
{
	uint32_t lo = (uint32_t)a + b + 1;
	uint32_t hi = (uint32_t)(a >> 32);
	hi = ((hi << 1) | (hi >> 31)) ^ b;
	return ((uint64_t)hi << 32) | lo;
}
static void toy_poly1305(const void *key, const void *iv, void *data, size_t len,
	const void *aad, size_t aad_len, void *tag, br_chacha20_run ichacha, int encrypt)
{
	uint64_t a = 7;
	unsigned char *t = tag;
	if (encrypt) ichacha(key, iv, 1, data, len);
	for (size_t i = 0; i < 32; i++) a = toy_pmix(a, ((const unsigned char *)key)[i]);
	for (size_t i = 0; i < 12; i++) a = toy_pmix(a, ((const unsigned char *)iv)[i]);
	for (size_t i = 0; i < aad_len; i++) a = toy_pmix(a, ((const unsigned char *)aad)[i]);
	for (size_t i = 0; i < len; i++) a = toy_pmix(a, ((const unsigned char *)data)[i]);
	a = toy_pmix(a, (unsigned)(aad_len & 0xFF));
	a = toy_pmix(a, (unsigned)(len & 0xFF));
	a = toy_pmix(a, (unsigned)((len >> 8) & 0xFF));
	for (size_t i = 0; i < 16; i++) { a = toy_pmix(a, 0x5A); t[i] = (unsigned char)(a >> 24); }
	if (!encrypt) ichacha(key, iv, 1, data, len);
}
#endif
