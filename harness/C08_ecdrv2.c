/*
 * C08 (g''): CONTROL STRUCTURE of EC scalar multiplication in ec_p256_m15.c (-DIMPL=1:
 * api_mul / api_mulgen -> p256_decode, p256_mul, p256_mulgen, lookup_Gwin, p256_double,
 * p256_add, p256_add_mixed, p256_to_affine, p256_encode) and ec_c25519_m15.c (-DIMPL=3:
 * api_mul = the X25519 ladder with cswap, f255_mul_a24, inversion, encoding), with the
 * FIELD PRIMITIVES replaced by observation-only stubs (translator option 'stubs': the
 * bodies of these static functions are not translated):
 *   p256_m15:   p256_double(Q) p256_add(P1,P2) mul_f256(d,a,b) square_f256(d,a) reduce_f256(d) reduce_final_f256(d) [mul20 square20]
 *   c25519_m15: f255_mulgen(d,a,b,square) f255_add(d,a,b) f255_sub(d,a,b) [mul20]
 * A stub logs its pointer arguments (object+offset) and the public 'square' flag, writes
 * unconstrained 13-bit limbs to its output and returns ND; br_ccopy is a functional model that
 * logs (dst, src, len) but not the secret ctl.
 * Sound for "the driver's branches and addresses do not depend on scalar/point" provided the
 * stubbed primitives are constant-time themselves (p256_m15: they are callees of the
 * un-stubbed ec_p256_m15_p256_mul query of the thorough tier).
 * Translation validation: the same IR translated WITHOUT stub substitution vs the real code
 * (-DC08_NOSTUB); the stubbed file differs only by omitting the listed bodies.
 */
#include "C08_rt.h"
#include "inner.h"
#ifndef C08_NOSTUB
static void nd_limbs(unsigned char *d)
{
	uint32_t *w = (uint32_t *)d;
	for (int u = 0; u < 20; u += 4) {
		uint64_t v = ND_U64();
		w[u] = (uint32_t)(v & 0x1FFF); w[u + 1] = (uint32_t)((v >> 16) & 0x1FFF);
		w[u + 2] = (uint32_t)((v >> 32) & 0x1FFF); w[u + 3] = (uint32_t)((v >> 48) & 0x1FFF);
	}
}
/* br_ccopy: functional model; logs dst, src, len -- NOT ctl (secret); the real one is the ccopy-* queries */
void ir_br_ccopy(uint32_t ctl, unsigned char *dst, unsigned char *src, uint64_t len)
{
	uint64_t u = 0;
	OBS_ADDR(1000091, dst); OBS_ADDR(1000092, src); OBS_LEN(1000093, len);
	if (((len | (uint64_t)IR_PTR_LOWBITS(dst) | (uint64_t)IR_PTR_LOWBITS(src)) & 3) == 0) {
		for (; u < len; u += 4) *(uint32_t *)(dst + u) = (ctl & 1) ? *(uint32_t *)(src + u) : *(uint32_t *)(dst + u);
	}
	for (; u < len; u++) dst[u] = (ctl & 1) ? src[u] : dst[u];
}
#if IMPL == 1
/* point-level helpers of p256_m15 (separate functions at every optimisation level used here) */
void ir_p256_double(unsigned char *q) { OBS_ADDR(1000061, q); nd_limbs(q); nd_limbs(q + 80); nd_limbs(q + 160); }
uint32_t ir_p256_add(unsigned char *p1, unsigned char *p2) { OBS_ADDR(1000071, p1); OBS_ADDR(1000072, p2); nd_limbs(p1); nd_limbs(p1 + 80); nd_limbs(p1 + 160); return ND_U32() & 1; }
void ir_mul_f256(unsigned char *d, unsigned char *a, unsigned char *b) { OBS_ADDR(1000001, d); OBS_ADDR(1000002, a); OBS_ADDR(1000003, b); nd_limbs(d); }
void ir_square_f256(unsigned char *d, unsigned char *a) { OBS_ADDR(1000011, d); OBS_ADDR(1000012, a); nd_limbs(d); }
void ir_reduce_f256(unsigned char *d) { OBS_ADDR(1000021, d); nd_limbs(d); }
uint32_t ir_reduce_final_f256(unsigned char *d) { OBS_ADDR(1000031, d); nd_limbs(d); return ND_U32() & 1; }
void ir_mul20(unsigned char *d, unsigned char *a, unsigned char *b) { OBS_ADDR(1000041, d); OBS_ADDR(1000042, a); OBS_ADDR(1000043, b); nd_limbs(d); nd_limbs(d + 80); }
void ir_square20(unsigned char *d, unsigned char *a) { OBS_ADDR(1000051, d); OBS_ADDR(1000052, a); nd_limbs(d); nd_limbs(d + 80); }
#else
void ir_f255_mulgen(unsigned char *d, unsigned char *a, unsigned char *b, uint32_t square) { OBS_ADDR(1000001, d); OBS_ADDR(1000002, a); OBS_ADDR(1000003, b); OBS_LEN(1000004, square); nd_limbs(d); }
void ir_f255_add(unsigned char *d, unsigned char *a, unsigned char *b) { OBS_ADDR(1000011, d); OBS_ADDR(1000012, a); OBS_ADDR(1000013, b); nd_limbs(d); }
void ir_f255_sub(unsigned char *d, unsigned char *a, unsigned char *b) { OBS_ADDR(1000021, d); OBS_ADDR(1000022, a); OBS_ADDR(1000023, b); nd_limbs(d); }
void ir_mul20(unsigned char *d, unsigned char *a, unsigned char *b) { OBS_ADDR(1000041, d); OBS_ADDR(1000042, a); OBS_ADDR(1000043, b); nd_limbs(d); nd_limbs(d + 80); }
#endif
#endif
#include C08_GEN
#ifndef XLEN
#define XLEN 2
#endif
#if IMPL == 3
#define GLEN 32
#define CURVE BR_EC_curve25519
#define RIMPL br_ec_c25519_m15
#else
#define GLEN 65
#define CURVE BR_EC_secp256r1
#define RIMPL br_ec_p256_m15
#endif
static unsigned char G[GLEN + 1] __attribute__((aligned(16))), x[XLEN + 1];
static uint32_t ret;
static void c08_public(void) { }
static void c08_secret(void)
{
	ND_BYTES(G, GLEN);
	ND_BYTES(x, XLEN);
	ret = 0;
}
static void c08_call(void)
{
#if FN == 1
	ret = ir_api_mul(G, GLEN, x, XLEN, CURVE);
#else
	ret = (uint32_t)ir_api_mulgen(G, x, XLEN, CURVE);
#endif
}
#ifdef C08_TV
static void c08_call_real(void)
{
#if FN == 1
	ret = RIMPL.mul(G, GLEN, x, XLEN, CURVE);
#else
	ret = (uint32_t)RIMPL.mulgen(G, x, XLEN, CURVE);
#endif
}
static void c08_out(void) { C08_OUT(G, GLEN); C08_OUTV(ret); }
#endif
#include "C08_main.h"
