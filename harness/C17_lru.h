/*
 * C17 shared pieces (included by the C17_*.c harnesses AFTER common.h):
 *
 *  1. the store and case-splitting ("typed") versions of the byte-access
 *     helpers the unit calls on it;
 *  2. the real unit: #include "src/ssl/ssl_lru.c" (static functions and the
 *     entry-layout macros come from the current tree, nothing is copied);
 *  3. a cheap stand-in for HMAC bound at the link-time seam br_hmac_*
 *     (mask_id() is the only user): masked[i] = id[31-i] ^ key[i], an
 *     INJECTIVE keyed map of the 32-byte ID.  Injectivity of the real
 *     HMAC-masking on the explored IDs is thereby an assumption;
 *  4. a stand-in for br_hmac_drbg_generate (only reached on the lazy-init
 *     path of lru_save);
 *  5. a concrete-address view of the entries and the representation
 *     invariant R (c17_repr_ok);
 *  6. the ghost abstract LRU map written from the documentation
 *     (bearssl_ssl.h + the header comment of ssl_lru.c), used by C17_hist.c.
 */
#ifndef C17_LRU_H
#define C17_LRU_H

#include "inner.h"

#ifndef STORE_LEN
#define STORE_LEN 300
#endif
#define CAP   (STORE_LEN / 100)
#define GSZ   (CAP + 1)

static unsigned char c17_store[STORE_LEN ? STORE_LEN : 1];

/* ------------------------------------------------------------------ */
/*
 * Solver-friendly byte access to the store.
 *
 * ssl_lru.c touches its store only through br_dec32be/br_enc32be/
 * br_dec16be/br_enc16be/memcpy/memcmp at "cc->store + x + field offset" where
 * x is an entry address.  In a merged symbolic execution x is a symbolic
 * integer, and a byte access at a symbolic offset costs O(store size) in the
 * formula (probe: one operation on a 300-byte store did not finish in 5 min).
 * The versions below are the same functions with the address concretised by
 * case split: "if (p == store + c) f(store + c)" for every field address c
 * of every whole entry; every case calls the ORIGINAL helper (or a plain byte
 * loop) on the same address, so values read and written are unchanged.  A
 * store pointer that is not the address of the expected field of a whole
 * entry matches no case: that is reported as a failed check (the unit would
 * be accessing the store outside its own entry layout) instead of being
 * executed.
 *
 * Which operand of memcpy/memcmp is a store pointer is decided from the
 * argument's source text (C17_STORE_ARG: it starts with "cc->st"), a compile
 * time constant.  This classification only selects the encoding: an operand
 * not classified as a store pointer is accessed by the plain byte loop through
 * the pointer as given, which is correct for any pointer (find_node's "id"
 * parameter, which remove_node makes point into the store, goes that way).
 * The 16/32-bit helpers are only ever applied to the store by the unit, so
 * they have no pass-through case.
 *
 * CBMC's per-dereference pointer/bounds assertions are switched off inside
 * harness-side code (the helpers, stubs and ghost of this file and the
 * harness proper): they multiplied the number of trivially true VCCs by ~10.
 * They stay ON for the unit (ssl_lru.c is included outside the disabled
 * region) and for inner.h.  What the helpers still check explicitly: a store
 * pointer is exactly an entry field of the expected size, and the non-store
 * side of a block access is readable/writable for the whole length (one
 * __CPROVER_r_ok/w_ok per call instead of 7 assertions per byte).
 * -DC17_FULLCHECKS=1 keeps everything on (used by one small query to show the
 * harness code itself has no out-of-bounds access).
 */
#if defined(VERIF_CBMC) && !defined(C17_FULLCHECKS)
#define C17_CHECKS_OFF 1
#endif
#ifdef C17_CHECKS_OFF
#pragma CPROVER check push
#pragma CPROVER check disable "pointer"
#pragma CPROVER check disable "bounds"
#pragma CPROVER check disable "pointer-overflow"
#pragma CPROVER check disable "pointer-primitive"
#endif

#ifdef NATIVE_REPLAY
#define C17_R_OK(p, n)   1
#define C17_W_OK(p, n)   1
#else
#define C17_R_OK(p, n)   __CPROVER_r_ok(p, n)
#define C17_W_OK(p, n)   __CPROVER_w_ok(p, n)
#endif

#define C17_BAD_ACCESS(msg)   do { CHECK(0, msg); FINISH(); } while (0)
#define C17_STORE_ARG(t)   ((t)[0] == 'c' && (t)[1] == 'c' && (t)[2] == '-' \
	&& (t)[3] == '>' && (t)[4] == 's' && (t)[5] == 't')

static void
c17_copy(unsigned char *d, const unsigned char *s, size_t n)
{
	for (size_t i = 0; i < n; i++) {
		d[i] = s[i];
	}
}

/* memcmp contract: only the sign of the result is specified */
static int
c17_cmp(const unsigned char *p, const unsigned char *q, size_t n)
{
	int r = 0;

	/* no early exit: pending returns out of a loop are costly to merge */
	for (size_t i = 0; i < n; i++) {
		if (r == 0 && p[i] != q[i]) {
			r = (p[i] < q[i]) ? -1 : 1;
		}
	}
	return r;
}

static uint32_t
c17_dec32be(const void *src)
{
	uint32_t r = 0;
	int hit = 0;

	for (unsigned e = 0; e < CAP; e++) {
		for (unsigned f = 0; f < 4; f++) {
			const unsigned char *q = c17_store + (100 * e + 84 + 4 * f);
			if (src == (const void *)q) {
				r = br_dec32be(q);
				hit = 1;
			}
		}
	}
	if (!hit) {
		C17_BAD_ACCESS("32-bit read is at a link field of a whole entry of the store");
	}
	return r;
}

static void
c17_enc32be(void *dst, uint32_t v)
{
	int hit = 0;

	for (unsigned e = 0; e < CAP; e++) {
		for (unsigned f = 0; f < 4; f++) {
			unsigned char *q = c17_store + (100 * e + 84 + 4 * f);
			if (dst == (void *)q) {
				br_enc32be(q, v);
				hit = 1;
			}
		}
	}
	if (!hit) {
		C17_BAD_ACCESS("32-bit write is at a link field of a whole entry of the store");
	}
}

static unsigned
c17_dec16be(const void *src)
{
	unsigned r = 0;
	int hit = 0;

	for (unsigned e = 0; e < CAP; e++) {
		for (unsigned f = 0; f < 2; f++) {
			const unsigned char *q = c17_store + (100 * e + 80 + 2 * f);
			if (src == (const void *)q) {
				r = br_dec16be(q);
				hit = 1;
			}
		}
	}
	if (!hit) {
		C17_BAD_ACCESS("16-bit read is at the version/suite field of a whole entry of the store");
	}
	return r;
}

static void
c17_enc16be(void *dst, unsigned v)
{
	int hit = 0;

	for (unsigned e = 0; e < CAP; e++) {
		for (unsigned f = 0; f < 2; f++) {
			unsigned char *q = c17_store + (100 * e + 80 + 2 * f);
			if (dst == (void *)q) {
				br_enc16be(q, v);
				hit = 1;
			}
		}
	}
	if (!hit) {
		C17_BAD_ACCESS("16-bit write is at the version/suite field of a whole entry of the store");
	}
}

/*
 * Read an ID (offset 0, 32 bytes) or master secret (offset 32, 48 bytes)
 * field of the store into tmp.
 */
static void
c17_fetch(const void *p, size_t n, unsigned char *tmp)
{
	int hit = 0;

	for (unsigned e = 0; e < CAP; e++) {
		const unsigned char *q0 = c17_store + 100 * e;
		const unsigned char *q1 = c17_store + (100 * e + 32);
		if (p == (const void *)q0 && n == 32) {
			c17_copy(tmp, q0, 32);
			hit = 1;
		}
		if (p == (const void *)q1 && n == 48) {
			c17_copy(tmp, q1, 48);
			hit = 1;
		}
	}
	if (!hit) {
		C17_BAD_ACCESS("block read from the store is exactly the ID or master-secret field of a whole entry");
	}
}

static void *
c17_memcpy(void *dst, const void *src, size_t n, int dst_store, int src_store)
{
	unsigned char tmp[48];

	if (n > 48) {
		C17_BAD_ACCESS("the unit copies at most 48 bytes at a time");
	}
	if (src_store) {
		c17_fetch(src, n, tmp);
	} else {
		CHECK(C17_R_OK(src, n), "memcpy source readable for the whole length");
		c17_copy(tmp, src, n);
	}
	if (dst_store) {
		int hit = 0;

		for (unsigned e = 0; e < CAP; e++) {
			unsigned char *q0 = c17_store + 100 * e;
			unsigned char *q1 = c17_store + (100 * e + 32);
			if (dst == (void *)q0 && n == 32) {
				c17_copy(q0, tmp, 32);
				hit = 1;
			}
			if (dst == (void *)q1 && n == 48) {
				c17_copy(q1, tmp, 48);
				hit = 1;
			}
		}
		if (!hit) {
			C17_BAD_ACCESS("block write to the store is exactly the ID or master-secret field of a whole entry");
		}
	} else {
		CHECK(C17_W_OK(dst, n), "memcpy destination writable for the whole length");
		c17_copy(dst, tmp, n);
	}
	return dst;
}

static int
c17_memcmp(const void *a, const void *b, size_t n, int a_store, int b_store)
{
	unsigned char ta[48], tb[48];

	if (n != 32) {
		C17_BAD_ACCESS("the unit only compares 32-byte IDs");
	}
	if (a_store) {
		c17_fetch(a, 32, ta);
	} else {
		CHECK(C17_R_OK(a, 32), "memcmp: first operand readable for the whole length");
		c17_copy(ta, a, 32);
	}
	if (b_store) {
		c17_fetch(b, 32, tb);
	} else {
		CHECK(C17_R_OK(b, 32), "memcmp: second operand readable for the whole length");
		c17_copy(tb, b, 32);
	}
	return c17_cmp(ta, tb, 32);
}

/* ---- the real unit, with its helper calls routed through the above ---- */
#ifdef C17_CHECKS_OFF
#pragma CPROVER check pop
#endif
#define br_dec32be  c17_dec32be
#define br_enc32be  c17_enc32be
#define br_dec16be  c17_dec16be
#define br_enc16be  c17_enc16be
#define memcpy(d, s, n)   c17_memcpy((d), (s), (n), C17_STORE_ARG(#d), C17_STORE_ARG(#s))
#define memcmp(a, b, n)   c17_memcmp((a), (b), (n), C17_STORE_ARG(#a), C17_STORE_ARG(#b))
#include "src/ssl/ssl_lru.c"
#undef br_dec32be
#undef br_enc32be
#undef br_dec16be
#undef br_enc16be
#undef memcpy
#undef memcmp
#ifdef C17_CHECKS_OFF
#pragma CPROVER check push
#pragma CPROVER check disable "pointer"
#pragma CPROVER check disable "bounds"
#pragma CPROVER check disable "pointer-overflow"
#pragma CPROVER check disable "pointer-primitive"
#endif

/* ------------------------------------------------------------------ */
/* stand-ins behind the link-time seams                                 */

static const br_hash_class c17_hash;       /* identity token only, never called */
static unsigned c17_hmac_bad;              /* contract violations seen by the stubs */
static unsigned char c17_drbg_out[32];     /* what the stub DRBG will deliver */
static unsigned c17_drbg_calls;

static void
c17_mask(const unsigned char *key, const unsigned char *id, unsigned char *out)
{
	for (int i = 0; i < 32; i++) {
		out[i] = (unsigned char)(id[31 - i] ^ key[i]);
	}
}

static const unsigned char *c17_key_ptr;    /* key of the pending mask computation */

void
br_hmac_key_init(br_hmac_key_context *kc, const br_hash_class *d,
	const void *key, size_t len)
{
	if (d != &c17_hash || len != 32) {
		c17_hmac_bad ++;
	}
	kc->dig_vtable = d;
	c17_key_ptr = key;
}

void
br_hmac_init(br_hmac_context *ctx, const br_hmac_key_context *kc, size_t out_len)
{
	if (kc->dig_vtable != &c17_hash) {
		c17_hmac_bad ++;
	}
	ctx->kso[32] = 0;
	ctx->out_len = out_len;
}

void
br_hmac_update(br_hmac_context *ctx, const void *data, size_t len)
{
	if (len != 32 || ctx->kso[32] != 0) {
		c17_hmac_bad ++;
		return;
	}
	c17_mask(c17_key_ptr, data, ctx->kso);
	ctx->kso[32] = 1;
}

size_t
br_hmac_out(const br_hmac_context *ctx, void *out)
{
	if (ctx->out_len != 32 || ctx->kso[32] != 1) {
		c17_hmac_bad ++;
	}
	for (int i = 0; i < 32; i++) {
		((unsigned char *)out)[i] = ctx->kso[i];
	}
	return 32;
}

void
br_hmac_drbg_generate(br_hmac_drbg_context *ctx, void *out, size_t len)
{
	(void)ctx;
	c17_drbg_calls ++;
	for (size_t i = 0; i < 32; i++) {
		if (i < len) {
			((unsigned char *)out)[i] = c17_drbg_out[i];
		}
	}
}

/* ------------------------------------------------------------------ */
/* concrete-address view of the entries and the representation invariant */

typedef struct {
	unsigned char id[32], ms[48];
	unsigned ver, suite;
	uint32_t prev, next, left, right;
} ent;

static void
c17_read_entries(ent *v)
{
	for (unsigned e = 0; e < CAP; e++) {
		const unsigned char *q = c17_store + 100 * e;

		for (int i = 0; i < 32; i++) {
			v[e].id[i] = q[SESSION_ID_OFF + i];
		}
		for (int i = 0; i < 48; i++) {
			v[e].ms[i] = q[MASTER_SECRET_OFF + i];
		}
		v[e].ver = br_dec16be(q + VERSION_OFF);
		v[e].suite = br_dec16be(q + CIPHER_SUITE_OFF);
		v[e].prev = br_dec32be(q + LIST_PREV_OFF);
		v[e].next = br_dec32be(q + LIST_NEXT_OFF);
		v[e].left = br_dec32be(q + TREE_LEFT_OFF);
		v[e].right = br_dec32be(q + TREE_RIGHT_OFF);
	}
}

static int
c17_id_cmp(const unsigned char *a, const unsigned char *b)
{
	int r = 0;

	for (int i = 0; i < 32; i++) {
		if (r == 0 && a[i] != b[i]) {
			r = (a[i] < b[i]) ? -1 : 1;
		}
	}
	return r;
}

/*
 * Representation invariant R over cnt entries (cnt may be symbolic, <= CAP);
 * fills order[] with the entry indices in recency order:
 *   - head->next->... visits cnt distinct allocated entries and ends in
 *     null, prev links mirror it, tail is the last one (null if cnt = 0);
 *   - there are exactly cnt non-null tree links (root, left, right of the
 *     allocated entries) and every allocated entry is reached from the root
 *     by a search for its own masked ID (lexicographic order, <= cnt steps,
 *     only allocated entries on the path, no equal ID met on the way)
 *     ==> a binary search tree over exactly the allocated entries.
 */
static int
c17_repr_ok(const br_ssl_session_cache_lru *cc, const ent *v, unsigned cnt,
	unsigned *order)
{
	int ok = 1;
	uint32_t x, prev;
	unsigned links;
	int lt[GSZ][GSZ];

	/* recency list */
	x = cc->head;
	prev = ADDR_NULL;
	for (unsigned j = 0; j < CAP; j++) {
		if (j < cnt) {
			int found = 0;
			uint32_t nx = ADDR_NULL;

			order[j] = CAP;
			for (unsigned e = 0; e < CAP; e++) {
				if (e < cnt && x == 100 * e) {
					found = 1;
					order[j] = e;
					if (v[e].prev != prev) {
						ok = 0;
					}
					nx = v[e].next;
				}
			}
			if (!found) {
				ok = 0;
			}
			for (unsigned i = 0; i < j; i++) {
				if (order[i] == order[j]) {
					ok = 0;
				}
			}
			prev = x;
			x = nx;
		}
	}
	if (x != ADDR_NULL || cc->tail != prev) {
		ok = 0;
	}

	/* index tree */
	for (unsigned a = 0; a < CAP; a++) {
		for (unsigned b = 0; b < CAP; b++) {
			lt[a][b] = (a < cnt && b < cnt && a != b) ? (c17_id_cmp(v[a].id, v[b].id) < 0) : 0;
		}
	}
	links = (cc->root != ADDR_NULL);
	for (unsigned e = 0; e < CAP; e++) {
		if (e < cnt) {
			links += (v[e].left != ADDR_NULL) + (v[e].right != ADDR_NULL);
		}
	}
	if (links != cnt) {
		ok = 0;
	}
	for (unsigned e = 0; e < CAP; e++) {
		if (e < cnt) {
			int found = 0;

			x = cc->root;
			for (unsigned s = 0; s < CAP; s++) {
				if (s < cnt && !found) {
					uint32_t nx = ADDR_NULL;
					int valid = 0;

					for (unsigned d = 0; d < CAP; d++) {
						if (d < cnt && x == 100 * d) {
							valid = 1;
							if (d == e) {
								found = 1;
							} else if (c17_id_cmp(v[e].id, v[d].id) == 0) {
								ok = 0;     /* duplicate masked ID */
							} else {
								nx = lt[e][d] ? v[d].left : v[d].right;
							}
						}
					}
					if (!valid) {
						ok = 0;             /* null or wild link on the search path */
					}
					x = nx;
				}
			}
			if (!found) {
				ok = 0;
			}
		}
	}
	return ok;
}

/* ------------------------------------------------------------------ */
/* ghost abstract LRU map                                               */
/*
 * Documented behaviour modelled (and nothing more):
 *  - capacity = number of whole 100-byte entries that fit in the store;
 *  - save(id, p): records p under id as the most recently used entry; when
 *    the cache is full the least recently used entry is evicted.  A save
 *    under an ID that the cache still holds (enabled or disabled) is
 *    rejected and changes nothing (ssl_lru.c: "If the same ID is already
 *    used, then reject it"; the API doc says IDs are freshly random);
 *  - load(id): 1 + exactly the parameters saved under id, iff the cache
 *    holds an enabled entry for id; a successful load makes the entry the
 *    most recently used one; a failed load changes nothing;
 *  - forget(id): "if located, it is disabled": the entry keeps its slot and
 *    its place in the recency order ("it will be reused in due course, as
 *    it ages through the list") but loads fail;
 *  - protocol version 0 is the in-band "disabled" mark (header comment of
 *    ssl_lru.c), so parameters saved with version 0 are born disabled.
 *
 * All array indices below are concrete (loops + guards), for the solver.
 */
typedef struct {
	uint8_t idx;            /* index into the ID universe */
	uint8_t disabled;
	uint16_t ver, suite;
	unsigned char ms[48];
} g_entry;

static g_entry g[GSZ];      /* g[0] = most recently used */
static unsigned gn;         /* number of held entries (enabled + disabled) */

/* position of idx in the recency order, or -1 */
static int
g_find(unsigned idx)
{
	int r = -1;
	for (unsigned j = 0; j < CAP; j++) {
		if (j < gn && g[j].idx == idx) {
			r = (int)j;
		}
	}
	return r;
}

static void
g_save(unsigned idx, const br_ssl_session_parameters *p)
{
	if (CAP == 0 || g_find(idx) >= 0) {
		return;
	}
	for (unsigned k = CAP; k > 1; k--) {
		g[k - 1] = g[k - 2];    /* the entry at CAP-1 (LRU when full) drops out */
	}
	g[0].idx = (uint8_t)idx;
	g[0].disabled = (p->version == 0);
	g[0].ver = p->version;
	g[0].suite = p->cipher_suite;
	for (int i = 0; i < 48; i++) {
		g[0].ms[i] = p->master_secret[i];
	}
	if (gn < CAP) {
		gn ++;
	}
}

/* returns 1 and fills *out iff held and enabled; refreshes recency */
static int
g_load(unsigned idx, g_entry *out)
{
	int j = g_find(idx);
	int hit = 0;

	for (unsigned k = 0; k < CAP; k++) {
		if ((int)k == j && !g[k].disabled) {
			*out = g[k];
			hit = 1;
		}
	}
	if (!hit) {
		return 0;
	}
	for (unsigned k = CAP; k > 1; k--) {
		if ((int)(k - 1) <= j) {
			g[k - 1] = g[k - 2];
		}
	}
	g[0] = *out;
	return 1;
}

static void
g_forget(unsigned idx)
{
	int j = g_find(idx);

	for (unsigned k = 0; k < CAP; k++) {
		if ((int)k == j) {
			g[k].disabled = 1;
		}
	}
}

#endif
