/*
 * C15.a: br_ssl_choose_hash (real src/ssl/ssl_hashes.c, linked) returns the
 * documented preference order for EVERY 32-bit mask (hence all 2^8 masks of
 * hash bits), and 0 iff no supported hash bit is set.
 */
#include "common.h"
#include "C15_ref.h"

int main(void)
{
	unsigned bf = ND_U32();
	int x = br_ssl_choose_hash(bf);
	int r = ref_pref_hash(bf);

	CHECK(x == r, "br_ssl_choose_hash == documented order SHA-256, SHA-384, SHA-512, SHA-224, SHA-1");
	CHECK((x == 0) == ((bf & 0x7Cu) == 0), "returns 0 iff none of the SHA-1..SHA-512 bits is set");
	if (x != 0) {
		CHECK(x >= 2 && x <= 6 && ((bf >> x) & 1u), "returned hash id is one the mask announces");
		/* no announced hash is preferred to the returned one */
		static const unsigned char rank[7] = { 0, 0, 5, 4, 1, 2, 3 };
		for (int h = 2; h <= 6; h++)
			if ((bf >> h) & 1u) CHECK(rank[x] <= rank[h], "no announced hash outranks the result");
		WITNESS_POINT("a hash is chosen");
	} else {
		WITNESS_POINT("no supported hash");
	}
	return 0;
}
