/* runtime of -DNATIVE_REPLAY builds: nondet values come from $VERIF_REPLAY */
#include <stdio.h>
#include <stdlib.h>
#include <stdint.h>
static FILE *vr_f;
uint64_t vr_next(void)
{
	unsigned long long v;
	if (!vr_f) {
		const char *p = getenv("VERIF_REPLAY");
		if (!p || !(vr_f = fopen(p, "r"))) { fprintf(stderr, "no replay file\n"); exit(4); }
	}
	if (fscanf(vr_f, "%llu", &v) != 1) { printf("REPLAY-EXHAUSTED\n"); exit(5); }
	return (uint64_t)v;
}
int vr_fill(void)
{
	const char *p = getenv("VERIF_FILL");
	return p ? atoi(p) : 0;
}
